(* Facts about the two-argument arctangent of Base/GenPrelude.v (absent from the Coq 8.16 standard library). *)
From Coq Require Import Reals Lra Lia.
From SV Require Import Base.GenPrelude.
Local Open Scope R_scope.

Lemma atan2_pos y x : 0 < x -> atan2 y x = atan (y / x).
Proof. intros H. unfold atan2. destruct (Rlt_dec 0 x); [reflexivity | contradiction]. Qed.
Lemma atan2_neg_nonneg y x : x < 0 -> 0 <= y -> atan2 y x = atan (y / x) + PI.
Proof.
  intros H Hy. unfold atan2. destruct (Rlt_dec 0 x); [lra|]. destruct (Rlt_dec x 0); [|lra].
  destruct (Rle_dec 0 y); [reflexivity | contradiction].
Qed.
Lemma atan2_neg_neg y x : x < 0 -> y < 0 -> atan2 y x = atan (y / x) - PI.
Proof.
  intros H Hy. unfold atan2. destruct (Rlt_dec 0 x); [lra|]. destruct (Rlt_dec x 0); [|lra].
  destruct (Rle_dec 0 y); [lra | reflexivity].
Qed.
Lemma atan2_zero_pos y : 0 < y -> atan2 y 0 = PI / 2.
Proof.
  intros H. unfold atan2. destruct (Rlt_dec 0 0); [lra|]. destruct (Rlt_dec 0 0); [lra|].
  destruct (Rlt_dec 0 y); [reflexivity | contradiction].
Qed.
Lemma atan2_zero_neg y : y < 0 -> atan2 y 0 = - (PI / 2).
Proof.
  intros H. unfold atan2. destruct (Rlt_dec 0 0); [lra|]. destruct (Rlt_dec 0 0); [lra|].
  destruct (Rlt_dec 0 y); [lra|]. destruct (Rlt_dec y 0); [reflexivity | contradiction].
Qed.
Lemma atan2_zero_zero : atan2 0 0 = 0.
Proof.
  unfold atan2. destruct (Rlt_dec 0 0); [lra|]. destruct (Rlt_dec 0 0); [lra|]. destruct (Rlt_dec 0 0); [lra | reflexivity].
Qed.

(* range: (-PI, PI] *)
Lemma atan2_bound y x : - PI < atan2 y x <= PI.
Proof.
  pose proof PI_RGT_0 as Hpi.
  destruct (Rtotal_order 0 x) as [Hx | [Hx | Hx]].
  - rewrite atan2_pos by assumption. pose proof (atan_bound (y / x)). lra.
  - subst x. destruct (Rtotal_order 0 y) as [Hy | [Hy | Hy]].
    + rewrite atan2_zero_pos by assumption. lra.
    + subst y. rewrite atan2_zero_zero. lra.
    + rewrite atan2_zero_neg by assumption. lra.
  - destruct (Rle_or_lt 0 y) as [Hy | Hy].
    + rewrite atan2_neg_nonneg by assumption.
      assert (y / x <= 0) by (unfold Rdiv; apply Rmult_le_0_l with (r2 := / x) in Hy; [nra | left; apply Rinv_lt_0_compat; assumption] || (assert (/ x < 0) by (apply Rinv_lt_0_compat; assumption); nra)).
      pose proof (atan_bound (y / x)).
      assert (atan (y / x) <= 0).
      { destruct (Req_dec (y / x) 0) as [E | E]; [rewrite E, atan_0; lra|].
        left. rewrite <- atan_0. apply atan_increasing. lra. }
      lra.
    + rewrite atan2_neg_neg by assumption.
      assert (0 < y / x) by (unfold Rdiv; assert (/ x < 0) by (apply Rinv_lt_0_compat; assumption); nra).
      pose proof (atan_bound (y / x)).
      assert (0 < atan (y / x)) by (rewrite <- atan_0; apply atan_increasing; assumption).
      lra.
Qed.

(* on the unit circle atan2 inverts (cos, sin) *)
Lemma sincos_atan2_unit y x : x * x + y * y = 1 -> sin (atan2 y x) = y /\ cos (atan2 y x) = x.
Proof.
  intros Hu.
  assert (Hsq : forall t, 0 < t -> sqrt (t * t) = t) by (intros t Ht; apply sqrt_square; lra).
  destruct (Rtotal_order 0 x) as [Hx | [Hx | Hx]].
  - rewrite atan2_pos by assumption. rewrite sin_atan, cos_atan.
    assert (E : 1 + (y / x)² = (/ x) * (/ x)) by (replace (/ x * / x) with ((x * x + y * y) * (/ x * / x)) by (rewrite Hu; ring); unfold Rsqr; field; lra).
    rewrite E. rewrite Hsq by (apply Rinv_0_lt_compat; assumption). split; field; lra.
  - subst x. assert (Hy : y * y = 1) by lra.
    destruct (Rtotal_order 0 y) as [Hy0 | [Hy0 | Hy0]].
    + rewrite atan2_zero_pos by assumption. rewrite sin_PI2, cos_PI2. split; nra.
    + subst y. lra.
    + rewrite atan2_zero_neg by assumption. rewrite sin_neg, cos_neg, sin_PI2, cos_PI2. split; nra.
  - assert (E : 1 + (y / x)² = (/ - x) * (/ - x)) by (replace (/ - x * / - x) with ((x * x + y * y) * (/ - x * / - x)) by (rewrite Hu; ring); unfold Rsqr; field; lra).
    assert (Hnx : 0 < / - x) by (apply Rinv_0_lt_compat; lra).
    destruct (Rle_or_lt 0 y) as [Hy | Hy].
    + rewrite atan2_neg_nonneg by assumption. rewrite neg_sin, neg_cos, sin_atan, cos_atan, E, Hsq by assumption.
      split; field; lra.
    + rewrite atan2_neg_neg by assumption.
      rewrite sin_minus, cos_minus, sin_PI, cos_PI.
      rewrite sin_atan, cos_atan, E, Hsq by assumption. split; field; lra.
Qed.

Lemma atan2_scale r y x : 0 < r -> atan2 (r * y) (r * x) = atan2 y x.
Proof.
  intros Hr. unfold atan2.
  assert (E : x <> 0 -> r * y / (r * x) = y / x) by (intros; field; lra).
  destruct (Rlt_dec 0 x), (Rlt_dec 0 (r * x)); try nra.
  - rewrite E by lra. reflexivity.
  - destruct (Rlt_dec x 0), (Rlt_dec (r * x) 0); try nra.
    + destruct (Rle_dec 0 y), (Rle_dec 0 (r * y)); try nra; rewrite E by lra; reflexivity.
    + destruct (Rlt_dec 0 y), (Rlt_dec 0 (r * y)); try nra; try reflexivity.
      destruct (Rlt_dec y 0), (Rlt_dec (r * y) 0); try nra; reflexivity.
Qed.

Lemma sin_zero_small d : - PI < d < PI -> sin d = 0 -> d = 0.
Proof.
  intros [H1 H2] Hs. destruct (Rtotal_order d 0) as [Hn | [E | Hp]]; [|exact E|].
  - exfalso. assert (sin d < 0) by (apply sin_lt_0_var; lra). lra.
  - exfalso. assert (0 < sin d) by (apply sin_gt_0; lra). lra.
Qed.

Lemma sincos_inj a b : - PI < a <= PI -> - PI < b <= PI -> sin a = sin b -> cos a = cos b -> a = b.
Proof.
  intros Ha Hb Hs Hc.
  assert (Hc1 : cos (a - b) = 1).
  { rewrite cos_minus, Hs, Hc. pose proof (sin2_cos2 b) as H; unfold Rsqr in H. lra. }
  assert (Hh : sin ((a - b) / 2) = 0).
  { assert (H2 : cos (a - b) = 1 - 2 * sin ((a - b) / 2) * sin ((a - b) / 2)).
    { replace (a - b) with (2 * ((a - b) / 2)) at 1 by field. apply cos_2a_sin. }
    assert (sin ((a - b) / 2) * sin ((a - b) / 2) = 0) by lra.
    apply Rmult_integral in H. tauto. }
  assert ((a - b) / 2 = 0) by (apply sin_zero_small; [lra | assumption]). lra.
Qed.

(* atan2 recovers the angle of a point given in polar form *)
Lemma atan2_polar r phi : 0 < r -> - PI < phi <= PI -> atan2 (r * sin phi) (r * cos phi) = phi.
Proof.
  intros Hr Hphi. rewrite atan2_scale by assumption.
  assert (Hu : cos phi * cos phi + sin phi * sin phi = 1) by (pose proof (sin2_cos2 phi) as H; unfold Rsqr in H; lra).
  destruct (sincos_atan2_unit (sin phi) (cos phi) Hu) as [Hs Hc].
  apply sincos_inj; [apply atan2_bound | assumption | assumption | assumption].
Qed.

Lemma atan2_unit_polar phi : - PI < phi <= PI -> atan2 (sin phi) (cos phi) = phi.
Proof. intros H. pose proof (atan2_polar 1 phi ltac:(lra) H) as E. rewrite !Rmult_1_l in E. exact E. Qed.

(* general (non-unit) points *)
Lemma sincos_atan2 y x : 0 < x * x + y * y ->
  sin (atan2 y x) = y / sqrt (x * x + y * y) /\ cos (atan2 y x) = x / sqrt (x * x + y * y).
Proof.
  intros Hpos. set (r := sqrt (x * x + y * y)).
  assert (Hr : 0 < r) by (apply sqrt_lt_R0; assumption).
  assert (Hrr : r * r = x * x + y * y) by (apply sqrt_sqrt; lra).
  assert (Hu : (x / r) * (x / r) + (y / r) * (y / r) = 1) by (replace (x / r * (x / r) + y / r * (y / r)) with ((x * x + y * y) / (r * r)) by (field; lra); rewrite Hrr; field; lra).
  pose proof (sincos_atan2_unit (y / r) (x / r) Hu) as [Hs Hc].
  rewrite <- (atan2_scale (/ r)) by (apply Rinv_0_lt_compat; assumption).
  replace (/ r * y) with (y / r) by (field; lra). replace (/ r * x) with (x / r) by (field; lra). split; assumption.
Qed.
