(* Enclosure of atan on x >= 0 from the mean value theorem:  x - x^3/3 <= atan x <= x - x^3/3 + x^5/5. *)
From Coq Require Import Reals Lra Lia.
From Coquelicot Require Import Coquelicot.
Local Open Scope R_scope.

Lemma is_derive_atan x : is_derive atan x (/ (1 + x * x)).
Proof.
  apply is_derive_Reals. replace (/ (1 + x * x)) with (/ (1 + x ^ 2)) by (f_equal; ring). apply derivable_pt_lim_atan.
Qed.

Lemma atan_lower x : 0 <= x -> x - x^3/3 <= atan x.
Proof.
  intros [Hx | <-]; [|rewrite atan_0; lra].
  pose (f := fun t => atan t - t + t^3/3). pose (df := fun t => t^4 / (1 + t*t)).
  destruct (MVT_gen f 0 x df) as [c [Hc E]].
  - intros t _. unfold f, df. auto_derive; [exact I|]. field. nra.
  - intros t _. unfold f. apply continuity_pt_filterlim. apply (ex_derive_continuous f t). unfold f. auto_derive. exact I.
  - unfold f in E. rewrite atan_0 in E. unfold df in E.
    rewrite Rmin_left, Rmax_right in Hc by lra.
    assert (0 <= c^4 / (1 + c*c)). { apply Rmult_le_pos; [nra | left; apply Rinv_0_lt_compat; nra]. }
    nra.
Qed.

Lemma atan_upper x : 0 <= x -> atan x <= x - x^3/3 + x^5/5.
Proof.
  intros [Hx | <-]; [|rewrite atan_0; lra].
  pose (f := fun t => t - t^3/3 + t^5/5 - atan t). pose (df := fun t => t^6 / (1 + t*t)).
  destruct (MVT_gen f 0 x df) as [c [Hc E]].
  - intros t _. unfold f, df. auto_derive; [exact I|]. field. nra.
  - intros t _. unfold f. apply continuity_pt_filterlim. apply (ex_derive_continuous f t). unfold f. auto_derive. exact I.
  - unfold f in E. rewrite atan_0 in E. unfold df in E.
    rewrite Rmin_left, Rmax_right in Hc by lra.
    assert (0 <= c^6 / (1 + c*c)). { apply Rmult_le_pos; [nra | left; apply Rinv_0_lt_compat; nra]. }
    nra.
Qed.
