(* Prelude imported by every generated file: the real-valued meaning of the operations the
   tracer can record, and the tactic closing the generated path-cover lemmas. *)
From Coq Require Import Reals List Lra.
Import ListNotations.
Local Open Scope R_scope.

(* two-argument arctangent: absent from the Coq 8.16 standard library *)
Definition atan2 (y x : R) : R :=
  if Rlt_dec 0 x then atan (y / x)
  else if Rlt_dec x 0 then (if Rle_dec 0 y then atan (y / x) + PI else atan (y / x) - PI)
  else if Rlt_dec 0 y then PI / 2
  else if Rlt_dec y 0 then - (PI / 2)
  else 0.

(* values returned by a solver the model does not look into (C10) *)
Definition oracle_fun := nat -> nat -> R.

Ltac gen_cover_atoms :=
  repeat match goal with
  | |- context [ ~ (?a < ?b) ] =>
      lazymatch goal with
      | H : a < b |- _ => fail
      | H : ~ (a < b) |- _ => fail
      | _ => destruct (Rlt_dec a b)
      end
  | |- context [ ~ (?a <= ?b) ] =>
      lazymatch goal with
      | H : a <= b |- _ => fail
      | H : ~ (a <= b) |- _ => fail
      | _ => destruct (Rle_dec a b)
      end
  | |- context [ ~ (?a = ?b) ] =>
      lazymatch goal with
      | H : a = b |- _ => fail
      | H : ~ (a = b) |- _ => fail
      | _ => destruct (Req_dec a b)
      end
  | |- context [ (?a < ?b) ] =>
      lazymatch goal with
      | H : a < b |- _ => fail
      | H : ~ (a < b) |- _ => fail
      | _ => destruct (Rlt_dec a b)
      end
  | |- context [ (?a <= ?b) ] =>
      lazymatch goal with
      | H : a <= b |- _ => fail
      | H : ~ (a <= b) |- _ => fail
      | _ => destruct (Rle_dec a b)
      end
  | |- context [ (?a = ?b :> R) ] =>
      lazymatch goal with
      | H : a = b |- _ => fail
      | H : ~ (a = b) |- _ => fail
      | _ => destruct (Req_dec a b)
      end
  end.

Ltac gen_conj_fast := repeat split; first [ assumption | exact I ].
Ltac gen_conj_slow := repeat split; first [ assumption | exact I | lra ].
Ltac gen_disj_search conj :=
  lazymatch goal with
  | |- _ \/ _ => first [ left; solve [conj] | right; gen_disj_search conj ]
  | |- _ => solve [conj]
  end.
Ltac gen_disj := first [ gen_disj_search gen_conj_fast | gen_disj_search gen_conj_slow ].

Ltac gen_cover :=
  cbv zeta;
  first [ solve [gen_disj] | gen_cover_atoms; gen_disj ].
