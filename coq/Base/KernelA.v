(* The "A" kernel of calc_S1inv / SE2 dr_expinv / d2r_expinv / SE3 log:
     K_A x = 1/x^2 - (1 + cos x) / (2 x sin x),   series  T_A x2 = 1/12 + x2/720  (next term x^4/30240).
   Truncation bound from the stdlib alternating-series enclosures of sin and cos. *)
From Coq Require Import Reals Lra Lia.
From SV Require Import Base.Kernels.
Local Open Scope R_scope.

Definition K_A x := 1 / (x*x) - (1 + cos x) / (2 * x * sin x).
Definition T_A x2 := 1 / 12 + x2 / 720.

Lemma sin_pos_small x : 0 < x <= 1 -> 0 < sin x.
Proof.
  intros Hx. pose proof (sin_encl_3_5 x ltac:(lra)) as [L _].
  assert (0 < x - x^3/6); [|lra]. replace (x - x^3/6) with (x * (1 - x*x/6)) by field. apply Rmult_lt_0_compat; nra.
Qed.

Lemma KA_trunc x : 0 < x <= 1 -> 0 <= K_A x - T_A (x*x) <= x^4 / 25000.
Proof.
  intros Hx. assert (H : 0 <= x <= 1) by lra.
  pose proof (sin_pos_small x Hx) as Hs.
  pose proof (sin_encl_9_11 x H) as [Ls Us]. pose proof (cos_encl_8_10 x H) as [Lc Uc].
  pose proof (sin_encl_3_5 x H) as [Ls3 _].
  set (p := x * x). assert (Hp : 0 < p <= 1) by (unfold p; nra).
  set (co := 2 - p / 6 - p * p / 360). assert (Hco : 0 < co) by (unfold co; nra).
  unfold K_A, T_A. fold p.
  set (s := sin x) in *. set (c := cos x) in *.
  replace (1 / p - (1 + c) / (2 * x * s) - (1 / 12 + p / 720))
    with ((s * co - x - x * c) / (2 * p * s)) by (unfold co, p; field; lra).
  assert (Hd : 0 < 2 * p * s) by (apply Rmult_lt_0_compat; lra).
  apply div_between; [exact Hd|].
  (* enclosures as x * polynomial(p) *)
  assert (Ls' : x * (1 - p/6 + p*p/120 - p*p*p/5040 + p*p*p*p/362880 - p*p*p*p*p/39916800) <= s)
    by (eapply Rle_trans; [|exact Ls]; right; unfold p; field).
  assert (Us' : s <= x * (1 - p/6 + p*p/120 - p*p*p/5040 + p*p*p*p/362880))
    by (eapply Rle_trans; [exact Us|]; right; unfold p; field).
  assert (Lc' : 1 - p/2 + p*p/24 - p*p*p/720 + p*p*p*p/40320 - p*p*p*p*p/3628800 <= c)
    by (eapply Rle_trans; [|exact Lc]; right; unfold p; field).
  assert (Uc' : c <= 1 - p/2 + p*p/24 - p*p*p/720 + p*p*p*p/40320)
    by (eapply Rle_trans; [exact Uc|]; right; unfold p; field).
  assert (Ls3' : x * (1 - p/6) <= s) by (eapply Rle_trans; [|exact Ls3]; right; unfold p; field).
  clearbody s c. clear Ls Us Lc Uc Ls3.
  assert (M1 : co * (x * (1 - p/6 + p*p/120 - p*p*p/5040 + p*p*p*p/362880 - p*p*p*p*p/39916800)) <= co * s)
    by (apply Rmult_le_compat_l; lra).
  assert (M2 : co * s <= co * (x * (1 - p/6 + p*p/120 - p*p*p/5040 + p*p*p*p/362880)))
    by (apply Rmult_le_compat_l; lra).
  assert (M3 : x * c <= x * (1 - p/2 + p*p/24 - p*p*p/720 + p*p*p*p/40320)) by (apply Rmult_le_compat_l; lra).
  assert (M4 : x * (1 - p/2 + p*p/24 - p*p*p/720 + p*p*p*p/40320 - p*p*p*p*p/3628800) <= x * c)
    by (apply Rmult_le_compat_l; lra).
  split.
  - (* 0 <= N *)
    rewrite Rmult_0_l.
    assert (E : co * (x * (1 - p/6 + p*p/120 - p*p*p/5040 + p*p*p*p/362880 - p*p*p*p*p/39916800)) - x
                - x * (1 - p/2 + p*p/24 - p*p*p/720 + p*p*p*p/40320)
                = x * (p*p*p) * (1/15120 - 17*p/1814400 + p*p/23950080 - p*p*p/287400960 + p*p*p*p/14370048000))
      by (unfold co; field).
    assert (B : 0 <= 1/15120 - 17*p/1814400 + p*p/23950080 - p*p*p/287400960 + p*p*p*p/14370048000).
    { assert (0 <= p*p) by nra. assert (p*p*p <= 1) by nra. assert (0 <= p*p*p*p) by nra. lra. }
    assert (0 <= x * (p*p*p) * (1/15120 - 17*p/1814400 + p*p/23950080 - p*p*p/287400960 + p*p*p*p/14370048000)).
    { apply Rmult_le_pos; [|exact B]. apply Rmult_le_pos; [lra|]. nra. }
    replace (s * co) with (co * s) by ring. lra.
  - (* N <= x^4/25000 * D *)
    assert (E : co * (x * (1 - p/6 + p*p/120 - p*p*p/5040 + p*p*p*p/362880)) - x
                - x * (1 - p/2 + p*p/24 - p*p*p/720 + p*p*p*p/40320 - p*p*p*p*p/3628800)
                = x * (p*p*p) * (1/15120 - 17*p/1814400 + p*p/2721600 - p*p*p/130636800))
      by (unfold co; field).
    assert (B : 1/15120 - 17*p/1814400 + p*p/2721600 - p*p*p/130636800 <= 1/15120).
    { assert (p*p <= p) by nra. assert (0 <= p*p*p) by nra. lra. }
    assert (Hxp : 0 <= x * (p*p*p)) by (apply Rmult_le_pos; [lra|nra]).
    assert (N1 : x * (p*p*p) * (1/15120 - 17*p/1814400 + p*p/2721600 - p*p*p/130636800) <= x * (p*p*p) * (1/15120))
      by (apply Rmult_le_compat_l; assumption).
    assert (D1 : x^4 / 25000 * (2 * p * (x * (1 - p/6))) <= x^4 / 25000 * (2 * p * s)).
    { apply Rmult_le_compat_l; [unfold p in *; nra|]. apply Rmult_le_compat_l; lra. }
    assert (D2 : x * (p*p*p) * (1/15120) <= x^4 / 25000 * (2 * p * (x * (1 - p/6)))).
    { replace (x^4) with (p*p) by (unfold p; ring).
      replace (p * p / 25000 * (2 * p * (x * (1 - p / 6)))) with (x * (p*p*p) * ((1 - p/6) / 12500)) by field.
      apply Rmult_le_compat_l; [assumption|]. lra. }
    replace (s * co) with (co * s) by ring. lra.
Qed.
