(* Kernels of the SE2 d2r_exp Hessian table (detail/se2.hpp): closed forms A, B, dA/dwz, dB/dwz and their series,
   with truncation bounds for 0 < x <= 1 from the stdlib alternating-series enclosures. *)
From Coq Require Import Reals Lra Lia.
From SV Require Import Base.Kernels.
Local Open Scope R_scope.

Definition kA x := (1 - cos x) / (x*x).
Definition kB x := (x - sin x) / (x*x*x).
Definition kdA x := sin x / (x*x) + 2 * cos x / (x*x*x) - 2 / (x*x*x).
Definition kdB x := - cos x / (x*x*x) - 2 / (x*x*x) + 3 * sin x / (x*x*(x*x)).
(* the binary64 value of the literal 1./6 used by the code *)
Definition c6 : R := 6004799503160661 / 36028797018963968.
Definition tA x2 := 1/2 - x2/24.
Definition tB x2 := c6 - x2/120.
Definition tdA x := - x / 12.
Definition tdB x := - x / 60.

Lemma c6_close : 0 <= 1/6 - c6 <= 1 / 100000000000000000.
Proof. unfold c6. lra. Qed.

Lemma kA_trunc x : 0 < x <= 1 -> 0 <= kA x - tA (x*x) <= x^4/720.
Proof.
  intros Hx. pose proof (cos_encl_4_6 x ltac:(lra)) as [L U]. unfold kA, tA.
  replace ((1 - cos x) / (x*x) - (1/2 - x*x/24)) with ((1 - x^2/2 + x^4/24 - cos x) / (x*x)) by (field; lra).
  apply div_between; [nra|]. split; [lra|].
  replace (x^4/720 * (x*x)) with (x^6/720) by field. lra.
Qed.

Lemma kB_trunc x : 0 < x <= 1 -> 0 <= kB x - (1/6 - x*x/120) <= x^4/5040.
Proof.
  intros Hx. pose proof (sin_encl_7_9 x ltac:(lra)) as [L _]. pose proof (sin_encl_3_5 x ltac:(lra)) as [_ U]. unfold kB.
  replace ((x - sin x) / (x*x*x) - (1/6 - x*x/120)) with ((x - x^3/6 + x^5/120 - sin x) / (x*x*x)) by (field; lra).
  assert (Hd : 0 < x*x*x) by (apply Rmult_lt_0_compat; nra).
  apply div_between; [exact Hd|]. split; [lra|].
  replace (x^4/5040 * (x*x*x)) with (x^7/5040) by field. lra.
Qed.

Lemma kdA_trunc x : 0 < x <= 1 -> 0 <= kdA x - tdA x <= x^3/170.
Proof.
  intros Hx. assert (H : 0 <= x <= 1) by lra.
  pose proof (sin_encl_7_9 x H) as [Ls _]. pose proof (sin_encl_3_5 x H) as [_ Us].
  pose proof (cos_encl_6_8 x H) as [Lc Uc]. unfold kdA, tdA.
  replace (sin x / (x*x) + 2 * cos x / (x*x*x) - 2 / (x*x*x) - - x / 12)
    with ((x * sin x + 2 * cos x - 2 + x^4/12) / (x*x*x)) by (field; lra).
  assert (Hd : 0 < x*x*x) by (apply Rmult_lt_0_compat; nra).
  apply div_between; [exact Hd|].
  assert (M1 : x * (x - x^3/6 + x^5/120 - x^7/5040) <= x * sin x) by (apply Rmult_le_compat_l; lra).
  assert (M2 : x * sin x <= x * (x - x^3/6 + x^5/120)) by (apply Rmult_le_compat_l; lra).
  pose (p := x*x). assert (Hp : 0 < p <= 1) by (unfold p; nra).
  assert (Hp3 : 0 <= p*p*p) by (apply Rmult_le_pos; [apply Rmult_le_pos|]; lra).
  assert (Hxp3 : 0 <= x * (p*p*p)) by (apply Rmult_le_pos; lra).
  split.
  - rewrite Rmult_0_l.
    assert (E : x * (x - x^3/6 + x^5/120 - x^7/5040) + 2 * (1 - x^2/2 + x^4/24 - x^6/720) - 2 + x^4/12
                = p*p*p * (1/180 - p/5040)) by (unfold p; field).
    assert (0 <= p*p*p * (1/180 - p/5040)) by (apply Rmult_le_pos; [assumption | lra]). lra.
  - assert (E : x * (x - x^3/6 + x^5/120) + 2 * (1 - x^2/2 + x^4/24 - x^6/720 + x^8/40320) - 2 + x^4/12
                = p*p*p * (1/180 + p/20160)) by (unfold p; field).
    assert (E2 : x^3/170 * (x*x*x) = p*p*p * (1/170)) by (unfold p; field).
    assert (p*p*p * (1/180 + p/20160) <= p*p*p * (1/170)) by (apply Rmult_le_compat_l; [assumption | lra]). lra.
Qed.

Lemma kdB_trunc x : 0 < x <= 1 -> 0 <= kdB x - tdB x <= x^3/1200.
Proof.
  intros Hx. assert (H : 0 <= x <= 1) by lra.
  pose proof (sin_encl_7_9 x H) as [Ls Us]. pose proof (cos_encl_6_8 x H) as [Lc Uc]. unfold kdB, tdB.
  replace (- cos x / (x*x*x) - 2 / (x*x*x) + 3 * sin x / (x*x*(x*x)) - - x / 60)
    with ((3 * sin x - x * cos x - 2 * x + x^5/60) / (x*x*(x*x))) by (field; lra).
  assert (Hd : 0 < x*x*(x*x)) by (apply Rmult_lt_0_compat; nra).
  apply div_between; [exact Hd|].
  assert (M1 : x * (1 - x^2/2 + x^4/24 - x^6/720) <= x * cos x) by (apply Rmult_le_compat_l; lra).
  assert (M2 : x * cos x <= x * (1 - x^2/2 + x^4/24 - x^6/720 + x^8/40320)) by (apply Rmult_le_compat_l; lra).
  pose (p := x*x). assert (Hp : 0 < p <= 1) by (unfold p; nra).
  assert (Hp3 : 0 <= p*p*p) by (apply Rmult_le_pos; [apply Rmult_le_pos|]; lra).
  assert (Hxp3 : 0 <= x * (p*p*p)) by (apply Rmult_le_pos; lra).
  split.
  - rewrite Rmult_0_l.
    assert (E : 3 * (x - x^3/6 + x^5/120 - x^7/5040) - x * (1 - x^2/2 + x^4/24 - x^6/720 + x^8/40320) - 2 * x + x^5/60
                = x * (p*p*p) * (1/1260 - p/40320)) by (unfold p; field).
    assert (0 <= x * (p*p*p) * (1/1260 - p/40320)) by (apply Rmult_le_pos; [assumption | lra]). lra.
  - assert (E : 3 * (x - x^3/6 + x^5/120 - x^7/5040 + x^9/362880) - x * (1 - x^2/2 + x^4/24 - x^6/720) - 2 * x + x^5/60
                = x * (p*p*p) * (1/1260 + p/120960)) by (unfold p; field).
    assert (E2 : x^3/1200 * (x*x*(x*x)) = x * (p*p*p) * (1/1200)) by (unfold p; field).
    assert (x * (p*p*p) * (1/1260 + p/120960) <= x * (p*p*p) * (1/1200)) by (apply Rmult_le_compat_l; [assumption | lra]). lra.
Qed.

(* parity *)
Lemma kA_even x : kA (- x) = kA x.
Proof. unfold kA. rewrite cos_neg. f_equal. ring. Qed.
Lemma kB_even x : x <> 0 -> kB (- x) = kB x.
Proof. intros Hx. unfold kB. rewrite sin_neg. field. assumption. Qed.
Lemma kdA_odd x : x <> 0 -> kdA (- x) = - kdA x.
Proof. intros Hx. unfold kdA. rewrite sin_neg, cos_neg. field. assumption. Qed.
Lemma kdB_odd x : x <> 0 -> kdB (- x) = - kdB x.
Proof. intros Hx. unfold kdB. rewrite sin_neg, cos_neg. field. assumption. Qed.

(* both signs of the argument *)
Lemma hess_kernels_trunc z : z <> 0 -> Rabs z <= 1 ->
  Rabs (kA z - tA (z*z)) <= (z*z)*(z*z)/720 /\
  Rabs (kB z - tB (z*z)) <= (z*z)*(z*z)/5040 + 1 / 100000000000000000 /\
  Rabs (kdA z - tdA z) <= Rabs z * (z*z) / 170 /\
  Rabs (kdB z - tdB z) <= Rabs z * (z*z) / 1200.
Proof.
  intros Hz Hz1. pose proof c6_close as Hc6.
  assert (Hpos : forall x, 0 < x <= 1 ->
    Rabs (kA x - tA (x*x)) <= (x*x)*(x*x)/720 /\ Rabs (kB x - tB (x*x)) <= (x*x)*(x*x)/5040 + 1 / 100000000000000000 /\
    Rabs (kdA x - tdA x) <= x * (x*x) / 170 /\ Rabs (kdB x - tdB x) <= x * (x*x) / 1200).
  { intros x Hx. pose proof (kA_trunc x Hx) as [A1 A2]. pose proof (kB_trunc x Hx) as [B1 B2].
    pose proof (kdA_trunc x Hx) as [C1 C2]. pose proof (kdB_trunc x Hx) as [D1 D2].
    replace (x^4) with ((x*x)*(x*x)) in * by ring. replace (x^3) with (x*(x*x)) in * by ring.
    unfold tB. repeat split; apply Rabs_le; lra. }
  destruct (Rcase_abs z) as [Hn|Hp].
  - rewrite (Rabs_left z) in * by assumption. destruct (Hpos (- z) ltac:(lra)) as (A & B & C & D).
    rewrite kA_even in A. rewrite kB_even in B by assumption. rewrite kdA_odd in C by assumption. rewrite kdB_odd in D by assumption.
    replace (- z * - z) with (z * z) in * by ring.
    unfold tdA, tdB in *.
    replace (- kdA z - - - z / 12) with (- (kdA z - - z / 12)) in C by field. rewrite Rabs_Ropp in C.
    replace (- kdB z - - - z / 60) with (- (kdB z - - z / 60)) in D by field. rewrite Rabs_Ropp in D.
    repeat split; assumption.
  - rewrite (Rabs_right z) in * by assumption. apply Hpos. lra.
Qed.
