(* The kernel of the translation part of SE2 log: K_L x = (x/2)/tan(x/2), series T_L x2 = 1 - x2/12 (next term -x^4/720). *)
From Coq Require Import Reals Lra Lia.
From SV Require Import Base.Kernels Base.KernelA.
Local Open Scope R_scope.

Definition K_L x := x / 2 / tan (x / 2).
Definition T_L x2 := 1 - x2 / 12.

Lemma KL_trunc_pos x : 0 < x <= 1 -> - (x^4 / 600) <= K_L x - T_L (x*x) <= 0.
Proof.
  intros Hx. set (h := x / 2). assert (Hh : 0 < h <= 1/2) by (unfold h; lra).
  assert (H : 0 <= h <= 1) by lra.
  pose proof (sin_encl_7_9 h H) as [Ls _]. pose proof (sin_encl_3_5 h H) as [Ls3 Us].
  pose proof (cos_encl_4_6 h H) as [Lc Uc].
  assert (Hs : 0 < sin h) by (apply sin_pos_small; lra).
  assert (Hc : 0 < cos h) by (apply cos_gt_0; pose proof PI2_1; lra).
  unfold K_L, T_L, tan. fold h.
  replace (x * x / 12) with (h * h / 3) by (unfold h; field).
  replace (h / (sin h / cos h) - (1 - h * h / 3)) with ((h * cos h - (1 - h*h/3) * sin h) / sin h)
    by (field; split; lra).
  apply div_between; [exact Hs|].
  pose (p := h*h). assert (Hp : 0 < p <= 1/4) by (unfold p; nra).
  assert (Hq : 0 < 1 - h*h/3) by nra.
  assert (M1 : h * cos h <= h * (1 - h^2/2 + h^4/24)) by (apply Rmult_le_compat_l; lra).
  assert (M2 : h * (1 - h^2/2 + h^4/24 - h^6/720) <= h * cos h) by (apply Rmult_le_compat_l; lra).
  assert (M3 : (1 - h*h/3) * (h - h^3/6 + h^5/120 - h^7/5040) <= (1 - h*h/3) * sin h) by (apply Rmult_le_compat_l; lra).
  assert (M4 : (1 - h*h/3) * sin h <= (1 - h*h/3) * (h - h^3/6 + h^5/120)) by (apply Rmult_le_compat_l; lra).
  assert (Hhp : 0 <= h * (p*p)) by (apply Rmult_le_pos; [lra | nra]).
  split.
  - (* lower: N >= -h^5/45 + h^7/720 >= -(x^4/600) sin h *)
    assert (E : h * (1 - h^2/2 + h^4/24 - h^6/720) - (1 - h*h/3) * (h - h^3/6 + h^5/120)
                = h * (p*p) * (- 1/45 + p/720)) by (unfold p; field).
    assert (D1 : x^4/600 * (h * (1 - p/6)) <= x^4/600 * sin h).
    { apply Rmult_le_compat_l; [unfold h in *; nra|]. eapply Rle_trans; [|exact Ls3]. right. unfold p. field. }
    assert (E2 : x^4/600 * (h * (1 - p/6)) = h * (p*p) * (16/600 * (1 - p/6))) by (unfold p, h; field).
    assert (B : h * (p*p) * (16/600 * (1 - p/6)) >= h * (p*p) * (1/45)).
    { apply Rle_ge. apply Rmult_le_compat_l; [assumption|]. lra. }
    assert (B2 : h * (p*p) * (- 1/45 + p/720) >= h * (p*p) * (- 1/45)).
    { apply Rle_ge. apply Rmult_le_compat_l; [assumption|]. lra. }
    lra.
  - (* upper: N <= -h^5/45 + h^7/336 <= 0 *)
    rewrite Rmult_0_l.
    assert (E : h * (1 - h^2/2 + h^4/24) - (1 - h*h/3) * (h - h^3/6 + h^5/120 - h^7/5040)
                = h * (p*p) * (- 1/45 + p/336 - p*p/15120)) by (unfold p; field).
    assert (B : h * (p*p) * (- 1/45 + p/336 - p*p/15120) <= 0).
    { assert (- 1/45 + p/336 - p*p/15120 <= 0) by nra. nra. }
    lra.
Qed.

Lemma KL_even x : K_L (- x) = K_L x.
Proof.
  unfold K_L. replace (- x / 2) with (- (x / 2)) by field. rewrite tan_neg.
  destruct (Req_dec (tan (x/2)) 0) as [E|E].
  - rewrite E, Ropp_0. unfold Rdiv. rewrite Rinv_0. ring.
  - field. assumption.
Qed.

Lemma KL_trunc x : x <> 0 -> Rabs x <= 1 -> - ((x*x)*(x*x) / 600) <= K_L x - T_L (x*x) <= 0.
Proof.
  intros Hx H1. destruct (Rcase_abs x) as [Hn|Hp].
  - rewrite Rabs_left in H1 by assumption. pose proof (KL_trunc_pos (- x) ltac:(lra)) as [L U].
    rewrite KL_even in L, U. replace (- x * - x) with (x * x) in * by ring. replace ((- x)^4) with ((x*x)*(x*x)) in L by ring. lra.
  - rewrite Rabs_right in H1 by assumption. pose proof (KL_trunc_pos x ltac:(lra)) as [L U].
    replace (x^4) with ((x*x)*(x*x)) in L by ring. lra.
Qed.
