(* The two kernels of the quaternion part of exp: sin(x/2)/x and cos(x/2), with their series 1/2 - x^2/48 and 1 - x^2/8. *)
From Coq Require Import Reals Lra Lia.
From SV Require Import Base.Kernels.
Local Open Scope R_scope.

Definition K_Q x := sin (x/2) / x.
Definition T_Q x2 := 1/2 - x2/48.
Definition K_W x := cos (x/2).
Definition T_W x2 := 1 - x2/8.

Lemma Q_trunc x : 0 < x <= 1 -> 0 <= K_Q x - T_Q (x*x) <= x^4/3840.
Proof.
  intros Hx. assert (H : 0 <= x/2 <= 1) by lra. pose proof (sin_encl_3_5 (x/2) H) as [L U]. unfold K_Q, T_Q.
  replace (sin (x/2) / x - (1/2 - x*x/48)) with ((sin (x/2) - (x/2 - (x/2)^3/6)) / x) by (field; lra).
  apply div_between; [lra|]. split; [lra|].
  replace (x^4/3840 * x) with ((x/2)^5/120) by field. lra.
Qed.

Lemma W_trunc x : 0 < x <= 1 -> 0 <= K_W x - T_W (x*x) <= x^4/384.
Proof.
  intros Hx. assert (H : 0 <= x/2 <= 1) by lra. pose proof (cos_encl_2_4 (x/2) H) as [L U]. unfold K_W, T_W.
  replace (1 - x*x/8) with (1 - (x/2)^2/2) by field. replace (x^4/384) with ((x/2)^4/24) by field. lra.
Qed.
