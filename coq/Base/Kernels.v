(* Layer T: polynomial enclosures of sin and cos (from the standard library's alternating-series bounds) and
   the truncation bounds between the closed forms and the Taylor polynomials used by the library's small-angle
   kernels (include/smooth/detail/trig.hpp and the inline lambdas). *)
From Coq Require Import Reals Lra Lia.
Local Open Scope R_scope.

Lemma INR_fact_S n : INR (fact (S n)) = INR (S n) * INR (fact n).
Proof. rewrite fact_simpl, mult_INR. reflexivity. Qed.

Ltac eval_facts :=
  repeat rewrite INR_fact_S; change (fact 0) with 1%nat; repeat rewrite S_INR; change (INR 0) with 0.

Ltac cos_encl n a H1 H2 L U :=
  pose proof (cos_bound a n H1 H2) as [L U];
  unfold cos_approx in L, U; cbn [sum_f_R0 Nat.mul Nat.add] in L, U; unfold cos_term in L, U;
  cbn [Nat.mul Nat.add] in L, U; revert L U; eval_facts; intros L U.
Ltac sin_encl n a H1 H2 L U :=
  pose proof (sin_bound a n H1 H2) as [L U];
  unfold sin_approx in L, U; cbn [sum_f_R0 Nat.mul Nat.add] in L, U; unfold sin_term in L, U;
  cbn [Nat.mul Nat.add] in L, U; revert L U; eval_facts; intros L U.

Lemma small_in_cos_range a : 0 <= a <= 1 -> - PI / 2 <= a /\ a <= PI / 2.
Proof. intros [H0 H1]. pose proof PI2_1. pose proof PI_RGT_0. split; lra. Qed.
Lemma small_in_sin_range a : 0 <= a <= 1 -> 0 <= a /\ a <= PI.
Proof. intros [H0 H1]. pose proof PI2_1. pose proof PI_RGT_0. split; lra. Qed.

(* polynomial enclosures on [0,1] *)
Lemma cos_encl_4_6 a : 0 <= a <= 1 ->
  1 - a^2/2 + a^4/24 - a^6/720 <= cos a <= 1 - a^2/2 + a^4/24.
Proof.
  intros H. destruct (small_in_cos_range a H) as [H1 H2]. cos_encl 1%nat a H1 H2 L U.
  pose proof (cos_bound a 0 H1 H2) as [_ U0]. revert U0.
  unfold cos_approx; cbn [sum_f_R0 Nat.mul Nat.add]; unfold cos_term; cbn [Nat.mul Nat.add]. eval_facts. intros U0.
  split; [ eapply Rle_trans; [|exact L]; right; field | ].
  (* upper bound with the 4th-order polynomial: from the 8th-order upper bound, a^8/40320 <= a^6/720 *)
  eapply Rle_trans; [exact U|].
  assert (0 <= a^6) by (apply pow_le; lra).
  assert (a^8 <= a^6) by (replace (a^8) with (a^6 * (a*a)) by ring; replace (a^6) with (a^6 * 1) at 2 by ring;
                          apply Rmult_le_compat_l; [assumption | nra]).
  field_simplify. lra.
Qed.

Lemma cos_encl_2_4 a : 0 <= a <= 1 -> 1 - a^2/2 <= cos a <= 1 - a^2/2 + a^4/24.
Proof.
  intros H. destruct (small_in_cos_range a H) as [H1 H2]. cos_encl 0%nat a H1 H2 L U.
  split; [ eapply Rle_trans; [|exact L] | eapply Rle_trans; [exact U|] ]; right; field.
Qed.

Lemma cos_encl_6_8 a : 0 <= a <= 1 ->
  1 - a^2/2 + a^4/24 - a^6/720 <= cos a <= 1 - a^2/2 + a^4/24 - a^6/720 + a^8/40320.
Proof.
  intros H. destruct (small_in_cos_range a H) as [H1 H2]. cos_encl 1%nat a H1 H2 L U.
  split; [ eapply Rle_trans; [|exact L] | eapply Rle_trans; [exact U|] ]; right; field.
Qed.

Lemma cos_encl_10_12 a : 0 <= a <= 1 ->
  1 - a^2/2 + a^4/24 - a^6/720 + a^8/40320 - a^10/3628800 <= cos a
  <= 1 - a^2/2 + a^4/24 - a^6/720 + a^8/40320 - a^10/3628800 + a^12/479001600.
Proof.
  intros H. destruct (small_in_cos_range a H) as [H1 H2]. cos_encl 2%nat a H1 H2 L U.
  split; [ eapply Rle_trans; [|exact L] | eapply Rle_trans; [exact U|] ]; right; field.
Qed.

Lemma cos_encl_8_10 a : 0 <= a <= 1 ->
  1 - a^2/2 + a^4/24 - a^6/720 + a^8/40320 - a^10/3628800 <= cos a
  <= 1 - a^2/2 + a^4/24 - a^6/720 + a^8/40320.
Proof.
  intros H. pose proof (cos_encl_10_12 a H) as [L _]. pose proof (cos_encl_6_8 a H) as [_ U]. lra.
Qed.

Lemma sin_encl_7_9 a : 0 <= a <= 1 ->
  a - a^3/6 + a^5/120 - a^7/5040 <= sin a <= a - a^3/6 + a^5/120 - a^7/5040 + a^9/362880.
Proof.
  intros H. destruct (small_in_sin_range a H) as [H1 H2]. sin_encl 1%nat a H1 H2 L U.
  split; [ eapply Rle_trans; [|exact L] | eapply Rle_trans; [exact U|] ]; right; field.
Qed.

Lemma sin_encl_11_13 a : 0 <= a <= 1 ->
  a - a^3/6 + a^5/120 - a^7/5040 + a^9/362880 - a^11/39916800 <= sin a
  <= a - a^3/6 + a^5/120 - a^7/5040 + a^9/362880 - a^11/39916800 + a^13/6227020800.
Proof.
  intros H. destruct (small_in_sin_range a H) as [H1 H2]. sin_encl 2%nat a H1 H2 L U.
  split; [ eapply Rle_trans; [|exact L] | eapply Rle_trans; [exact U|] ]; right; field.
Qed.

Lemma sin_encl_9_11 a : 0 <= a <= 1 ->
  a - a^3/6 + a^5/120 - a^7/5040 + a^9/362880 - a^11/39916800 <= sin a
  <= a - a^3/6 + a^5/120 - a^7/5040 + a^9/362880.
Proof.
  intros H. pose proof (sin_encl_11_13 a H) as [L _]. pose proof (sin_encl_7_9 a H) as [_ U]. lra.
Qed.

Lemma sin_encl_3_5 a : 0 <= a <= 1 -> a - a^3/6 <= sin a <= a - a^3/6 + a^5/120.
Proof.
  intros H. destruct (small_in_sin_range a H) as [H1 H2]. sin_encl 0%nat a H1 H2 L U.
  split; [ eapply Rle_trans; [|exact L] | eapply Rle_trans; [exact U|] ]; right; field.
Qed.

(* n / d between lo and hi when d > 0 *)
Lemma div_between n d lo hi : 0 < d -> lo * d <= n <= hi * d -> lo <= n / d <= hi.
Proof.
  intros Hd [L U]. split.
  - apply Rmult_le_reg_r with d; [assumption|]. unfold Rdiv. rewrite Rmult_assoc, Rinv_l by lra. lra.
  - apply Rmult_le_reg_r with d; [assumption|]. unfold Rdiv. rewrite Rmult_assoc, Rinv_l by lra. lra.
Qed.

(* ---- the five kernels of detail/trig.hpp: closed form (in x) minus Taylor polynomial (in x^2) *)
Definition K_cos2 x := (cos x - 1) / (x*x).
Definition T_cos2 x2 := - 1 / 2 + x2 / 24 - x2 * x2 / 720.
Definition K_sin3 x := (sin x - x) / (x*x*x).
Definition T_sin3 x2 := - 1 / 6 + x2 / 120 - x2 * x2 / 5040.
Definition K_cos4 x := (cos x - 1 + x*x/2) / (x*x*(x*x)).
Definition T_cos4 x2 := 1 / 24 - x2 / 720 + x2 * x2 / 40320.
Definition K_sin5 x := (sin x - x + x*x*x/6) / (x*x*(x*x)*x).
Definition T_sin5 x2 := 1 / 120 - x2 / 5040 + x2 * x2 / 362880.
Definition K_cos6 x := (cos x - 1 + x*x/2 - x*x*(x*x)/24) / (x*x*(x*x)*(x*x)).
Definition T_cos6 x2 := - 1 / 720 + x2 / 40320 - x2 * x2 / 3628800.

Ltac kernel_trunc x Henc :=
  match goal with
  | |- ?lo <= ?K - ?T <= ?hi =>
      let d := match K with _ / ?d => d end in
      let n := match K with ?n / _ => n end in
      replace (K - T) with ((n - T * d) / d) by (field; lra);
      apply div_between; [ nra | destruct Henc as [? ?]; split; ring_simplify; nra ]
  end.

Lemma cos2_trunc x : 0 < x <= 1 -> 0 <= K_cos2 x - T_cos2 (x*x) <= x^6 / 40320.
Proof.
  intros Hx. assert (H : 0 <= x <= 1) by lra. pose proof (cos_encl_6_8 x H) as [L U].
  unfold K_cos2, T_cos2.
  replace ((cos x - 1) / (x*x) - (-1/2 + x*x/24 - x*x*(x*x)/720))
    with ((cos x - (1 - x^2/2 + x^4/24 - x^6/720)) / (x*x)) by (field; lra).
  apply div_between; [nra|]. split; [lra|].
  replace (x^6/40320 * (x*x)) with (x^8/40320) by field. lra.
Qed.

Lemma sin3_trunc x : 0 < x <= 1 -> 0 <= K_sin3 x - T_sin3 (x*x) <= x^6 / 362880.
Proof.
  intros Hx. assert (H : 0 <= x <= 1) by lra. pose proof (sin_encl_7_9 x H) as [L U].
  unfold K_sin3, T_sin3.
  replace ((sin x - x) / (x*x*x) - (-1/6 + x*x/120 - x*x*(x*x)/5040))
    with ((sin x - (x - x^3/6 + x^5/120 - x^7/5040)) / (x*x*x)) by (field; lra).
  assert (0 < x*x*x) by (apply Rmult_lt_0_compat; nra).
  apply div_between; [assumption|]. split; [lra|].
  replace (x^6/362880 * (x*x*x)) with (x^9/362880) by field. lra.
Qed.

Lemma cos4_trunc x : 0 < x <= 1 -> - (x^6 / 3628800) <= K_cos4 x - T_cos4 (x*x) <= 0.
Proof.
  intros Hx. assert (H : 0 <= x <= 1) by lra. pose proof (cos_encl_8_10 x H) as [L U].
  unfold K_cos4, T_cos4.
  replace ((cos x - 1 + x*x/2) / (x*x*(x*x)) - (1/24 - x*x/720 + x*x*(x*x)/40320))
    with ((cos x - (1 - x^2/2 + x^4/24 - x^6/720 + x^8/40320)) / (x*x*(x*x))) by (field; lra).
  assert (0 < x*x*(x*x)) by (apply Rmult_lt_0_compat; nra).
  apply div_between; [assumption|]. split; [|lra].
  replace (- (x^6/3628800) * (x*x*(x*x))) with (- (x^10/3628800)) by field. lra.
Qed.

Lemma sin5_trunc x : 0 < x <= 1 -> - (x^6 / 39916800) <= K_sin5 x - T_sin5 (x*x) <= 0.
Proof.
  intros Hx. assert (H : 0 <= x <= 1) by lra. pose proof (sin_encl_9_11 x H) as [L U].
  unfold K_sin5, T_sin5.
  replace ((sin x - x + x*x*x/6) / (x*x*(x*x)*x) - (1/120 - x*x/5040 + x*x*(x*x)/362880))
    with ((sin x - (x - x^3/6 + x^5/120 - x^7/5040 + x^9/362880)) / (x*x*(x*x)*x)) by (field; lra).
  assert (0 < x*x*(x*x)*x) by (repeat apply Rmult_lt_0_compat; nra).
  apply div_between; [assumption|]. split; [|lra].
  replace (- (x^6/39916800) * (x*x*(x*x)*x)) with (- (x^11/39916800)) by field. lra.
Qed.

Lemma cos6_trunc x : 0 < x <= 1 -> 0 <= K_cos6 x - T_cos6 (x*x) <= x^6 / 479001600.
Proof.
  intros Hx. assert (H : 0 <= x <= 1) by lra. pose proof (cos_encl_10_12 x H) as [L U].
  unfold K_cos6, T_cos6.
  replace ((cos x - 1 + x*x/2 - x*x*(x*x)/24) / (x*x*(x*x)*(x*x)) - (-1/720 + x*x/40320 - x*x*(x*x)/3628800))
    with ((cos x - (1 - x^2/2 + x^4/24 - x^6/720 + x^8/40320 - x^10/3628800)) / (x*x*(x*x)*(x*x))) by (field; lra).
  assert (0 < x*x*(x*x)*(x*x)) by (repeat apply Rmult_lt_0_compat; nra).
  apply div_between; [assumption|]. split; [lra|].
  replace (x^6/479001600 * (x*x*(x*x)*(x*x))) with (x^12/479001600) by field. lra.
Qed.
