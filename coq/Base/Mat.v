(* Small dense matrices over R as lists of rows, with computational definitions that reduce on
   lists of explicit length (entries stay symbolic). *)
From Coq Require Import Reals List Lra.
Import ListNotations.
Local Open Scope R_scope.

Definition vec := list R.
Definition mat := list (list R).

Fixpoint dot (u v : list R) : R :=
  match u, v with
  | x :: u', y :: v' => x * y + dot u' v'
  | _, _ => 0
  end.

Definition ncols (A : mat) : nat := match A with r :: _ => length r | [] => O end.
Definition mcol (A : mat) (j : nat) : list R := map (fun r => nth j r 0) A.
Definition mtrans (A : mat) : mat := map (mcol A) (seq 0 (ncols A)).
Definition mmul (A B : mat) : mat := let Bt := mtrans B in map (fun r => map (dot r) Bt) A.
Definition mvec (A : mat) (v : vec) : vec := map (fun r => dot r v) A.

Fixpoint vadd (u v : vec) : vec :=
  match u, v with x :: u', y :: v' => (x + y) :: vadd u' v' | _, _ => [] end.
Fixpoint vsub (u v : vec) : vec :=
  match u, v with x :: u', y :: v' => (x - y) :: vsub u' v' | _, _ => [] end.
Definition vscale (c : R) (u : vec) : vec := map (Rmult c) u.
Definition vneg (u : vec) : vec := map Ropp u.

Fixpoint madd (A B : mat) : mat :=
  match A, B with r :: A', s :: B' => vadd r s :: madd A' B' | _, _ => [] end.
Fixpoint msub (A B : mat) : mat :=
  match A, B with r :: A', s :: B' => vsub r s :: msub A' B' | _, _ => [] end.
Definition mscale (c : R) (A : mat) : mat := map (vscale c) A.
Definition mneg (A : mat) : mat := map vneg A.

Definition unitv (n i : nat) : vec := map (fun j => if Nat.eqb i j then 1 else 0) (seq 0 n).
Definition mI (n : nat) : mat := map (unitv n) (seq 0 n).
Definition mzero (r c : nat) : mat := repeat (repeat 0 c) r.
Definition vzero (n : nat) : vec := repeat 0 n.

Definition comm (A B : mat) : mat := msub (mmul A B) (mmul B A).

(* entry access *)
Definition mget (A : mat) (i j : nat) : R := nth j (nth i A []) 0.
Definition vget (v : vec) (i : nat) : R := nth i v 0.

(* block extraction: rows r0..r0+nr-1, cols c0..c0+nc-1 *)
Definition vslice (v : vec) (off len : nat) : vec := firstn len (skipn off v).
Definition vslice_rows (A : mat) (r0 nr : nat) : mat := firstn nr (skipn r0 A).
Definition mblock (A : mat) (r0 nr c0 nc : nat) : mat :=
  map (fun r => vslice r c0 nc) (vslice_rows A r0 nr).

(* flatten row-major *)
Definition mflat (A : mat) : vec := concat A.

Ltac mat_unfold :=
  cbv [mmul mtrans mcol ncols mvec dot vadd vsub vscale vneg madd msub mscale mneg unitv mI mzero vzero comm
       mget vget vslice mblock vslice_rows mflat concat app
       map seq nth length repeat firstn skipn Nat.eqb hd tl fst snd].

(* split an equality of explicit lists / lists of lists into entry equalities *)
Ltac list_eq :=
  repeat match goal with
  | |- (_ :: _) = (_ :: _) => apply (f_equal2 (@cons _))
  | |- [] = [] => reflexivity
  end.

(* ---- direct-product arrangements (C06) *)
Fixpoint psum (l : list nat) : list nat :=
  match l with [] => [O] | x :: r => O :: map (Nat.add x) (psum r) end.
Definition sumn (l : list nat) : nat := fold_right Nat.add O l.

Definition pad_row (before : nat) (row : list R) (total : nat) : list R :=
  repeat 0 before ++ row ++ repeat 0 (total - before - length row).
Fixpoint blockdiag_aux (off total : nat) (Ms : list mat) : mat :=
  match Ms with
  | [] => []
  | M :: r => map (fun row => pad_row off row total) M ++ blockdiag_aux (off + length M) total r
  end.
(* block-diagonal arrangement of square blocks *)
Definition blockdiag (Ms : list mat) : mat := blockdiag_aux 0 (sumn (map (@length (list R)) Ms)) Ms.

(* stacked-Hessian arrangement of the parts' Hessians: part with offset B and size D contributes, for j, c < D,
   H[B + r][Dof * (B + j) + B + c] = Hp[r][D * j + c] *)
Definition hess_row (B D Dof : nat) (hr : list R) : list R :=
  concat (map (fun k => if andb (Nat.leb B k) (Nat.ltb k (B + D))
                        then pad_row B (firstn D (skipn (D * (k - B)) hr)) Dof
                        else repeat 0 Dof) (seq 0 Dof)).
Fixpoint bundle_hess_aux (off Dof : nat) (Hs : list mat) : mat :=
  match Hs with
  | [] => []
  | H :: r => map (hess_row off (length H) Dof) H ++ bundle_hess_aux (off + length H) Dof r
  end.
Definition bundle_hess (Hs : list mat) : mat := bundle_hess_aux 0 (sumn (map (@length (list R)) Hs)) Hs.

Ltac mat_unfold2 :=
  cbv [psum sumn pad_row blockdiag_aux blockdiag hess_row bundle_hess_aux bundle_hess
       mmul mtrans mcol ncols mvec dot vadd vsub vscale vneg madd msub mscale mneg unitv mI mzero vzero comm
       mget vget vslice mblock vslice_rows mflat concat app fold_right
       map seq nth length repeat firstn skipn Nat.eqb Nat.leb Nat.ltb Nat.add Nat.sub Nat.mul andb hd tl fst snd].
