(* Small dense matrices over R as lists of rows, with computational definitions that reduce on
   lists of explicit length (entries stay symbolic). *)
From Coq Require Import Reals List Lra.
Import ListNotations.
Local Open Scope R_scope.

Definition vec := list R.
Definition mat := list (list R).

Fixpoint dot (u v : list R) : R :=
  match u, v with
  | x :: u', y :: v' => x * y + dot u' v'
  | _, _ => 0
  end.

Definition ncols (A : mat) : nat := match A with r :: _ => length r | [] => O end.
Definition mcol (A : mat) (j : nat) : list R := map (fun r => nth j r 0) A.
Definition mtrans (A : mat) : mat := map (mcol A) (seq 0 (ncols A)).
Definition mmul (A B : mat) : mat := let Bt := mtrans B in map (fun r => map (dot r) Bt) A.
Definition mvec (A : mat) (v : vec) : vec := map (fun r => dot r v) A.

Fixpoint vadd (u v : vec) : vec :=
  match u, v with x :: u', y :: v' => (x + y) :: vadd u' v' | _, _ => [] end.
Fixpoint vsub (u v : vec) : vec :=
  match u, v with x :: u', y :: v' => (x - y) :: vsub u' v' | _, _ => [] end.
Definition vscale (c : R) (u : vec) : vec := map (Rmult c) u.
Definition vneg (u : vec) : vec := map Ropp u.

Fixpoint madd (A B : mat) : mat :=
  match A, B with r :: A', s :: B' => vadd r s :: madd A' B' | _, _ => [] end.
Fixpoint msub (A B : mat) : mat :=
  match A, B with r :: A', s :: B' => vsub r s :: msub A' B' | _, _ => [] end.
Definition mscale (c : R) (A : mat) : mat := map (vscale c) A.
Definition mneg (A : mat) : mat := map vneg A.

Definition unitv (n i : nat) : vec := map (fun j => if Nat.eqb i j then 1 else 0) (seq 0 n).
Definition mI (n : nat) : mat := map (unitv n) (seq 0 n).
Definition mzero (r c : nat) : mat := repeat (repeat 0 c) r.
Definition vzero (n : nat) : vec := repeat 0 n.

Definition comm (A B : mat) : mat := msub (mmul A B) (mmul B A).

(* entry access *)
Definition mget (A : mat) (i j : nat) : R := nth j (nth i A []) 0.
Definition vget (v : vec) (i : nat) : R := nth i v 0.

(* block extraction: rows r0..r0+nr-1, cols c0..c0+nc-1 *)
Definition vslice (v : vec) (off len : nat) : vec := firstn len (skipn off v).
Definition vslice_rows (A : mat) (r0 nr : nat) : mat := firstn nr (skipn r0 A).
Definition mblock (A : mat) (r0 nr c0 nc : nat) : mat :=
  map (fun r => vslice r c0 nc) (vslice_rows A r0 nr).

(* flatten row-major *)
Definition mflat (A : mat) : vec := concat A.

Ltac mat_unfold :=
  cbv [mmul mtrans mcol ncols mvec dot vadd vsub vscale vneg madd msub mscale mneg unitv mI mzero vzero comm
       mget vget vslice mblock vslice_rows mflat concat app
       map seq nth length repeat firstn skipn Nat.eqb hd tl fst snd].

(* split an equality of explicit lists / lists of lists into entry equalities *)
Ltac list_eq :=
  repeat match goal with
  | |- (_ :: _) = (_ :: _) => apply (f_equal2 (@cons _))
  | |- [] = [] => reflexivity
  end.
