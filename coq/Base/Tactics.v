(* Proof automation for theorems over the generated (traced) definitions. *)
From Coq Require Import Reals List Lra.
From SV Require Import Base.GenPrelude Base.Mat Doc.Groups.
Import ListNotations.
Local Open Scope R_scope.

(* case split over the paths of a generated  f_rel args out  hypothesis *)
Ltac rel_cases H :=
  red in H;
  repeat match type of H with
  | _ \/ _ => destruct H as [H | H]
  end;
  match type of H with
  | _ /\ _ = _ =>
      let Hc := fresh "Hpath" in destruct H as [Hc H];
      match type of H with ?o = _ => first [ subst o | rewrite H in *; clear H ] end
  end.

(* full unfolding of everything computational, keeping real arithmetic symbolic *)
Ltac sv_unfold := doc_unfold; mat_unfold; cbv zeta.

(* turn unit-norm hypotheses  x*x + y*y + z*z + w*w = 1  into monomial rewriting rules for ring *)
Lemma unit4_rule x y z w : x*x + y*y + z*z + w*w = 1 -> w*w = 1 - x*x - y*y - z*z.
Proof. intros; lra. Qed.
Lemma unit2_rule z w : z*z + w*w = 1 -> w*w = 1 - z*z.
Proof. intros; lra. Qed.

Ltac norm_rules :=
  repeat match goal with
  | H : ?x*?x + ?y*?y + ?z*?z + ?w*?w = 1 |- _ => apply unit4_rule in H
  | H : ?z*?z + ?w*?w = 1 |- _ => apply unit2_rule in H
  end.

(* replace denominators that equal the (unit) squared norm by 1 *)
Ltac unit_denoms H :=
  repeat match goal with
  | |- context [ _ / ?d ] =>
      lazymatch d with
      | 1 => fail
      | _ => let E := fresh "Hden" in
             assert (E : d = 1) by (ring [H] || lra); rewrite !E; clear E
      end
  end.

(* choose the disjunct (path) of a generated  f_rel args ?out  goal whose path condition follows from the
   hypotheses; `unf` brings the relevant path-condition hypothesis into the goal and unfolds definitions *)
Ltac rel_pick unf :=
  red;
  let rec go :=
    lazymatch goal with
    | |- _ \/ _ => first [ left; go | right; go ]
    | |- _ /\ _ = _ => split; [ unf; tauto | reflexivity ]
    end in go.

(* path condition from path conditions, up to linear arithmetic over the (opaque) atoms *)
Ltac cond_lra :=
  intros;
  repeat match goal with H : _ /\ _ |- _ => destruct H end;
  repeat split; first [ assumption | exact I | lra ].

(* as rel_pick, with a user tactic for the output equation *)
Ltac rel_pick_eq unf fin :=
  red;
  let rec go :=
    lazymatch goal with
    | |- _ \/ _ => first [ left; go | right; go ]
    | |- _ /\ _ = _ => split; [ unf; solve [ tauto | cond_lra ] | fin ]
    end in go.

(* bring every propositional hypothesis (path conditions, validity facts) into the goal *)
Ltac revert_props :=
  repeat match goal with
  | H : ?T |- _ => match type of T with Prop => revert H end
  end.

(* close a goal whose path conditions are contradictory (infeasible path kept by the tracer's relation store) *)
Ltac infeasible unf :=
  exfalso; unf; intros;
  repeat match goal with H : _ /\ _ |- _ => destruct H end; lra.
