(* Trigonometric helpers and the atoms tactics used on traced closed-form branches. *)
From Coq Require Import Reals List Lra Lia.
From SV Require Import Base.GenPrelude Base.Mat.
Import ListNotations.
Local Open Scope R_scope.

(* the library's switch constant: the binary64 value of 1e-8 (include/smooth/detail/common.hpp:eps2) *)
Definition eps2 : R := 3022314549036573 / 302231454903657293676544.

Lemma eps2_pos : 0 < eps2.
Proof. unfold eps2. lra. Qed.
Lemma eps2_small : eps2 < 1 / 99999999.
Proof. unfold eps2. lra. Qed.

Lemma sin_half_angle t : sin t = 2 * sin (t/2) * cos (t/2).
Proof. replace t with (2 * (t/2)) at 1 by field. apply sin_2a. Qed.
Lemma cos_half_angle t : cos t = 1 - 2 * sin (t/2) * sin (t/2).
Proof. replace t with (2 * (t/2)) at 1 by field. apply cos_2a_sin. Qed.

(* make all square-root arguments that are ring-equal syntactically equal *)
Ltac unify_sqrts :=
  repeat match goal with
  | |- context [sqrt ?e1] =>
      match goal with
      | |- context [sqrt ?e2] =>
          tryif constr_eq e1 e2 then fail
          else (let H := fresh in assert (H : e1 = e2) by ring; rewrite H; clear H)
      end
  end.

(* name sqrt e as t with t*t = e and t <> 0, given a hypothesis 0 < e (up to lra) *)
Ltac name_sqrt e t :=
  let Hne := fresh "H" t "ne" in
  let Hsq := fresh "H" t "sq" in
  assert (Hne : sqrt e <> 0) by (apply Rgt_not_eq, sqrt_lt_R0; lra);
  assert (Hsq : sqrt e * sqrt e = e) by (apply sqrt_sqrt; lra);
  set (t := sqrt e) in *.

(* replace sin x / cos x by atoms s c with c*c = 1 - s*s *)
Ltac trig_atom x s c :=
  let H := fresh "H" c c in
  pose proof (sin2_cos2 x) as H; unfold Rsqr in H;
  generalize dependent (sin x); generalize dependent (cos x); intros c s H;
  assert (c * c = 1 - s * s) by lra; clear H.

Lemma pos_sum3 a b c : 0 < a*a + b*b + c*c -> 0 < a*a + (b*b + c*c).
Proof. intros; lra. Qed.

Lemma sqrt_sq_pos x : 0 < x -> sqrt (x * x) = x.
Proof. intros; apply sqrt_square; lra. Qed.
Lemma sqrt_sq_neg x : x < 0 -> sqrt (x * x) = - x.
Proof. intros. replace (x * x) with ((- x) * (- x)) by ring. apply sqrt_square; lra. Qed.

(* side conditions produced by auto_derive / field on the closed-form branches *)
Ltac nz :=
  repeat match goal with
  | |- _ /\ _ => split
  | |- True => exact I
  | |- 0 < _ => first [ assumption | lra | nra ]
  | |- sqrt ?e <> 0 => apply Rgt_not_eq, sqrt_lt_R0; first [ assumption | lra | nra ]
  | |- ?a * ?b <> 0 => apply Rmult_integral_contrapositive_currified
  | |- _ <> 0 => first [ assumption | lra | apply Rgt_not_eq; nra | apply Rlt_not_eq; nra ]
  end.
