(* Specification side for C02: for each group the closed-form one-parameter flow  t |-> Phi_a(t)  written by
   hand from the textbook formulas (independent of the library), the proof that it solves the matrix ODE
   Phi' = Phi * hat(a), Phi(0) = I (i.e. Phi_a(1) is the matrix exponential of hat a), and the definition of
   `is_mexp`.  The theta -> 0 limits are the separate rotation-free flows. *)
From Coq Require Import Reals List Lra Lia.
From Coquelicot Require Import Coquelicot.
From SV Require Import Base.GenPrelude Base.Mat Base.Trig Doc.Groups Base.Tactics.
Import ListNotations.
Local Open Scope R_scope.

(* X is the matrix exponential of the n x n matrix A: value at 1 of a differentiable curve through the
   identity solving Phi' = Phi A (entrywise; Coquelicot's is_derive).  Uniqueness of such a curve is the
   classical Picard-Lindelof / Gronwall fact and is not formalised here (DESIGN.md section 8). *)
Definition is_mexp (n : nat) (A X : mat) : Prop :=
  exists Phi : R -> mat,
    Phi 0 = mI n /\
    (forall t i j, (i < n)%nat -> (j < n)%nat ->
       is_derive (fun t => mget (Phi t) i j) t (mget (mmul (Phi t) A) i j)) /\
    Phi 1 = X.

Ltac nat_cases i := repeat (destruct i as [|i]; [ | try lia ]).
Ltac ij_cases i j := nat_cases i; nat_cases j.

(* ------------------------------------------------------------------------------------------ rotations *)
Definition rot2 (w t : R) : mat := [[cos (t*w); - sin (t*w)]; [sin (t*w); cos (t*w)]].

Definition th3 (x y z : R) : R := sqrt (x*x + y*y + z*z).
(* Rodrigues: I + sin(t th)/th W + (1 - cos(t th))/th^2 W^2 *)
Definition rodrigues (x y z t : R) : mat :=
  let th := th3 x y z in
  madd (madd (mI 3) (mscale (sin (t*th) / th) (skew3 x y z)))
       (mscale ((1 - cos (t*th)) / (th*th)) (mmul (skew3 x y z) (skew3 x y z))).
(* V_t = t I + (1 - cos(t th))/th^2 W + (t th - sin(t th))/th^3 W^2   (integral of the rotation) *)
Definition vmat3 (x y z t : R) : mat :=
  let th := th3 x y z in
  madd (madd (mscale t (mI 3)) (mscale ((1 - cos (t*th)) / (th*th)) (skew3 x y z)))
       (mscale ((t*th - sin (t*th)) / (th*th*th)) (mmul (skew3 x y z) (skew3 x y z))).
(* U_t = t^2/2 I + (t th - sin(t th))/th^3 W + (cos(t th) - 1 + t^2 th^2/2)/th^4 W^2  (double integral) *)
Definition umat3 (x y z t : R) : mat :=
  let th := th3 x y z in
  madd (madd (mscale (t*t/2) (mI 3)) (mscale ((t*th - sin (t*th)) / (th*th*th)) (skew3 x y z)))
       (mscale ((cos (t*th) - 1 + t*t*th*th/2) / (th*th*th*th)) (mmul (skew3 x y z) (skew3 x y z))).

(* ------------------------------------------------------------------------------------------ flows *)
Definition so2_flow (a : list R) (t : R) : mat := rot2 (g a 0) t.
Definition so3_flow (a : list R) (t : R) : mat := rodrigues (g a 0) (g a 1) (g a 2) t.

(* SE2: tangent vx vy wz; translation V_t v with V_t = [[sin(tw)/w, -(1-cos(tw))/w],[(1-cos(tw))/w, sin(tw)/w]] *)
Definition se2_flow (a : list R) (t : R) : mat :=
  let w := g a 2 in
  let A := sin (t*w) / w in let B := (1 - cos (t*w)) / w in
  [[cos (t*w); - sin (t*w); A * g a 0 - B * g a 1];
   [sin (t*w);   cos (t*w); B * g a 0 + A * g a 1];
   [0; 0; 1]].
Definition se2_flow0 (a : list R) (t : R) : mat :=   (* wz = 0 *)
  [[1; 0; t * g a 0]; [0; 1; t * g a 1]; [0; 0; 1]].

Definition hcat (A : mat) (cols : list vec) : mat :=   (* append columns *)
  map (fun i => nth i A [] ++ map (fun c => nth i c 0) cols) (seq 0 (length A)).

(* SE3: tangent vx vy vz wx wy wz *)
Definition se3_flow (a : list R) (t : R) : mat :=
  let x := g a 3 in let y := g a 4 in let z := g a 5 in
  hcat (rodrigues x y z t) [mvec (vmat3 x y z t) [g a 0; g a 1; g a 2]] ++ [[0; 0; 0; 1]].
Definition se3_flow0 (a : list R) (t : R) : mat :=
  [[1; 0; 0; t * g a 0]; [0; 1; 0; t * g a 1]; [0; 0; 1; t * g a 2]; [0; 0; 0; 1]].

(* SE_K_3, K = 2, 3 (K = 1 has the SE3 layout) *)
Definition sek2_flow (a : list R) (t : R) : mat :=
  let x := g a 6 in let y := g a 7 in let z := g a 8 in
  hcat (rodrigues x y z t) [mvec (vmat3 x y z t) [g a 0; g a 1; g a 2]; mvec (vmat3 x y z t) [g a 3; g a 4; g a 5]]
  ++ [[0; 0; 0; 1; 0]; [0; 0; 0; 0; 1]].
Definition sek3_flow (a : list R) (t : R) : mat :=
  let x := g a 9 in let y := g a 10 in let z := g a 11 in
  hcat (rodrigues x y z t) [mvec (vmat3 x y z t) [g a 0; g a 1; g a 2]; mvec (vmat3 x y z t) [g a 3; g a 4; g a 5];
                            mvec (vmat3 x y z t) [g a 6; g a 7; g a 8]]
  ++ [[0; 0; 0; 1; 0; 0]; [0; 0; 0; 0; 1; 0]; [0; 0; 0; 0; 0; 1]].

(* C1: tangent s w : e^{t s} R(t w) *)
Definition c1_flow (a : list R) (t : R) : mat :=
  let k := exp (t * g a 0) in
  [[k * cos (t * g a 1); - (k * sin (t * g a 1))]; [k * sin (t * g a 1); k * cos (t * g a 1)]].

(* Galilei: tangent b(3) q(3) s w(3); columns: R, V_t b, V_t q + s U_t b; time row t s *)
Definition gal_flow (a : list R) (t : R) : mat :=
  let x := g a 7 in let y := g a 8 in let z := g a 9 in
  let b := [g a 0; g a 1; g a 2] in let q := [g a 3; g a 4; g a 5] in let s := g a 6 in
  hcat (rodrigues x y z t) [mvec (vmat3 x y z t) b; vadd (mvec (vmat3 x y z t) q) (vscale s (mvec (umat3 x y z t) b))]
  ++ [[0; 0; 0; 1; t * s]; [0; 0; 0; 0; 1]].

(* rotation-free flows (the theta -> 0 limits) *)
Definition so3_flow0 (a : list R) (t : R) : mat := mI 3.
Definition sek2_flow0 (a : list R) (t : R) : mat :=
  [[1; 0; 0; t * g a 0; t * g a 3]; [0; 1; 0; t * g a 1; t * g a 4]; [0; 0; 1; t * g a 2; t * g a 5];
   [0; 0; 0; 1; 0]; [0; 0; 0; 0; 1]].
Definition sek3_flow0 (a : list R) (t : R) : mat :=
  [[1; 0; 0; t * g a 0; t * g a 3; t * g a 6]; [0; 1; 0; t * g a 1; t * g a 4; t * g a 7];
   [0; 0; 1; t * g a 2; t * g a 5; t * g a 8]; [0; 0; 0; 1; 0; 0]; [0; 0; 0; 0; 1; 0]; [0; 0; 0; 0; 0; 1]].
Definition gal_flow0 (a : list R) (t : R) : mat :=
  let s := g a 6 in
  [[1; 0; 0; t * g a 0; t * g a 3 + s * (t*t/2) * g a 0];
   [0; 1; 0; t * g a 1; t * g a 4 + s * (t*t/2) * g a 1];
   [0; 0; 1; t * g a 2; t * g a 5 + s * (t*t/2) * g a 2];
   [0; 0; 0; 1; t * s]; [0; 0; 0; 0; 1]].

Ltac flow_unfold :=
  cbv [so2_flow so3_flow se2_flow se2_flow0 se3_flow se3_flow0 sek2_flow sek3_flow c1_flow gal_flow
       so3_flow0 sek2_flow0 sek3_flow0 gal_flow0
       rot2 rodrigues vmat3 umat3 hcat th3].

(* ------------------------------------------------------------------------------------------ ODE proofs *)
Ltac th3_setup x y z th :=
  let Hne := fresh "Hthne" in let Hsq := fresh "Hthsq" in
  assert (Hne : sqrt (x*x + y*y + z*z) <> 0) by (apply Rgt_not_eq, sqrt_lt_R0; lra);
  assert (Hsq : sqrt (x*x + y*y + z*z) * sqrt (x*x + y*y + z*z) = x*x + y*y + z*z) by (apply sqrt_sqrt; lra);
  set (th := sqrt (x*x + y*y + z*z)) in *.

Ltac ode_close th z t :=
  let Hz := fresh "Hz" in
  assert (Hz : z*z = th*th - (th*th - z*z)) by ring;
  generalize (sin (t*th)) (cos (t*th)); intros S C.

Lemma so2_flow_mexp a0 : is_mexp 2 (so2_hat [a0]) (so2_flow [a0] 1).
Proof.
  exists (so2_flow [a0]). split; [|split; [|reflexivity]].
  - flow_unfold. sv_unfold. rewrite Rmult_0_l, sin_0, cos_0. list_eq; ring.
  - intros t i j Hi Hj. ij_cases i j; flow_unfold; sv_unfold; (auto_derive; [ repeat split; auto | ring ]).
Qed.

Lemma c1_flow_mexp a0 a1 : is_mexp 2 (c1_hat [a0; a1]) (c1_flow [a0; a1] 1).
Proof.
  exists (c1_flow [a0; a1]). split; [|split; [|reflexivity]].
  - flow_unfold. sv_unfold. rewrite !Rmult_0_l, sin_0, cos_0, exp_0. list_eq; ring.
  - intros t i j Hi Hj. ij_cases i j; flow_unfold; sv_unfold; (auto_derive; [ repeat split; auto | ring ]).
Qed.

Lemma so3_flow_mexp a0 a1 a2 : 0 < a0*a0 + a1*a1 + a2*a2 ->
  is_mexp 3 (so3_hat [a0; a1; a2]) (so3_flow [a0; a1; a2] 1).
Proof.
  intros Hpos. exists (so3_flow [a0; a1; a2]). split; [|split; [|reflexivity]].
  - flow_unfold; sv_unfold. th3_setup a0 a1 a2 th. rewrite !Rmult_0_l, sin_0, cos_0. list_eq; field; assumption.
  - intros t i j Hi Hj. ij_cases i j; flow_unfold; sv_unfold; th3_setup a0 a1 a2 th;
    (auto_derive; [ repeat split; auto | ]);
    assert (Hz : a2*a2 = th*th - a0*a0 - a1*a1) by lra;
    generalize (sin (t*th)) (cos (t*th)); intros S C; field [Hz]; assumption.
Qed.

Lemma se2_flow_mexp a0 a1 a2 : a2 <> 0 ->
  is_mexp 3 (se2_hat [a0; a1; a2]) (se2_flow [a0; a1; a2] 1).
Proof.
  intros Hw. exists (se2_flow [a0; a1; a2]). split; [|split; [|reflexivity]].
  - flow_unfold; sv_unfold. rewrite !Rmult_0_l, sin_0, cos_0. list_eq; field; assumption.
  - intros t i j Hi Hj. ij_cases i j; flow_unfold; sv_unfold;
    (auto_derive; [ repeat split; auto | ]);
    generalize (sin (t*a2)) (cos (t*a2)); intros S C; field; assumption.
Qed.

Lemma se2_flow0_mexp a0 a1 : is_mexp 3 (se2_hat [a0; a1; 0]) (se2_flow0 [a0; a1; 0] 1).
Proof.
  exists (se2_flow0 [a0; a1; 0]). split; [|split; [|reflexivity]].
  - flow_unfold; sv_unfold. list_eq; ring.
  - intros t i j Hi Hj. ij_cases i j; flow_unfold; sv_unfold; (auto_derive; [ repeat split; auto | ring ]).
Qed.

Lemma se3_flow_mexp a0 a1 a2 a3 a4 a5 : 0 < a3*a3 + a4*a4 + a5*a5 ->
  is_mexp 4 (se3_hat [a0; a1; a2; a3; a4; a5]) (se3_flow [a0; a1; a2; a3; a4; a5] 1).
Proof.
  intros Hpos. exists (se3_flow [a0; a1; a2; a3; a4; a5]). split; [|split; [|reflexivity]].
  - flow_unfold; sv_unfold. th3_setup a3 a4 a5 th. rewrite !Rmult_0_l, sin_0, cos_0. list_eq; field; assumption.
  - intros t i j Hi Hj. ij_cases i j; flow_unfold; sv_unfold; th3_setup a3 a4 a5 th;
    (auto_derive; [ repeat split; auto | ]);
    assert (Hz : a5*a5 = th*th - a3*a3 - a4*a4) by lra;
    generalize (sin (t*th)) (cos (t*th)); intros S C; field [Hz]; assumption.
Qed.

Lemma se3_flow0_mexp a0 a1 a2 : is_mexp 4 (se3_hat [a0; a1; a2; 0; 0; 0]) (se3_flow0 [a0; a1; a2; 0; 0; 0] 1).
Proof.
  exists (se3_flow0 [a0; a1; a2; 0; 0; 0]). split; [|split; [|reflexivity]].
  - flow_unfold; sv_unfold. list_eq; ring.
  - intros t i j Hi Hj. ij_cases i j; flow_unfold; sv_unfold; (auto_derive; [ repeat split; auto | ring ]).
Qed.

Lemma sek2_flow_mexp a0 a1 a2 a3 a4 a5 a6 a7 a8 : 0 < a6*a6 + a7*a7 + a8*a8 ->
  is_mexp 5 (sek_hat 2 [a0; a1; a2; a3; a4; a5; a6; a7; a8]) (sek2_flow [a0; a1; a2; a3; a4; a5; a6; a7; a8] 1).
Proof.
  intros Hpos. exists (sek2_flow [a0; a1; a2; a3; a4; a5; a6; a7; a8]). split; [|split; [|reflexivity]].
  - flow_unfold; sv_unfold. th3_setup a6 a7 a8 th. rewrite !Rmult_0_l, sin_0, cos_0. list_eq; field; assumption.
  - intros t i j Hi Hj. ij_cases i j; flow_unfold; sv_unfold; th3_setup a6 a7 a8 th;
    (auto_derive; [ repeat split; auto | ]);
    assert (Hz : a8*a8 = th*th - a6*a6 - a7*a7) by lra;
    generalize (sin (t*th)) (cos (t*th)); intros S C; field [Hz]; assumption.
Qed.

Lemma sek3_flow_mexp a0 a1 a2 a3 a4 a5 a6 a7 a8 a9 a10 a11 : 0 < a9*a9 + a10*a10 + a11*a11 ->
  is_mexp 6 (sek_hat 3 [a0; a1; a2; a3; a4; a5; a6; a7; a8; a9; a10; a11])
            (sek3_flow [a0; a1; a2; a3; a4; a5; a6; a7; a8; a9; a10; a11] 1).
Proof.
  intros Hpos. exists (sek3_flow [a0; a1; a2; a3; a4; a5; a6; a7; a8; a9; a10; a11]). split; [|split; [|reflexivity]].
  - flow_unfold; sv_unfold. th3_setup a9 a10 a11 th. rewrite !Rmult_0_l, sin_0, cos_0. list_eq; field; assumption.
  - intros t i j Hi Hj. ij_cases i j; flow_unfold; sv_unfold; th3_setup a9 a10 a11 th;
    (auto_derive; [ repeat split; auto | ]);
    assert (Hz : a11*a11 = th*th - a9*a9 - a10*a10) by lra;
    generalize (sin (t*th)) (cos (t*th)); intros S C; field [Hz]; assumption.
Qed.

Lemma gal_flow_mexp a0 a1 a2 a3 a4 a5 a6 a7 a8 a9 : 0 < a7*a7 + a8*a8 + a9*a9 ->
  is_mexp 5 (gal_hat [a0; a1; a2; a3; a4; a5; a6; a7; a8; a9]) (gal_flow [a0; a1; a2; a3; a4; a5; a6; a7; a8; a9] 1).
Proof.
  intros Hpos. exists (gal_flow [a0; a1; a2; a3; a4; a5; a6; a7; a8; a9]). split; [|split; [|reflexivity]].
  - flow_unfold; sv_unfold. th3_setup a7 a8 a9 th. rewrite !Rmult_0_l, sin_0, cos_0. list_eq; field; assumption.
  - intros t i j Hi Hj. ij_cases i j; flow_unfold; sv_unfold; th3_setup a7 a8 a9 th;
    (auto_derive; [ repeat split; auto | ]);
    assert (Hz : a9*a9 = th*th - a7*a7 - a8*a8) by lra;
    generalize (sin (t*th)) (cos (t*th)); intros S C; field [Hz]; assumption.
Qed.

Ltac flow0_mexp F :=
  exists F; split; [|split; [|reflexivity]];
  [ flow_unfold; sv_unfold; list_eq; field
  | let t := fresh "t" in let i := fresh "i" in let j := fresh "j" in
    intros t i j Hi Hj; ij_cases i j; flow_unfold; sv_unfold; (auto_derive; [ repeat split; auto | field ]) ].

Lemma so3_flow0_mexp : is_mexp 3 (so3_hat [0; 0; 0]) (so3_flow0 [0; 0; 0] 1).
Proof. flow0_mexp (so3_flow0 [0; 0; 0]). Qed.
Lemma sek2_flow0_mexp a0 a1 a2 a3 a4 a5 :
  is_mexp 5 (sek_hat 2 [a0; a1; a2; a3; a4; a5; 0; 0; 0]) (sek2_flow0 [a0; a1; a2; a3; a4; a5; 0; 0; 0] 1).
Proof. flow0_mexp (sek2_flow0 [a0; a1; a2; a3; a4; a5; 0; 0; 0]). Qed.
Lemma sek3_flow0_mexp a0 a1 a2 a3 a4 a5 a6 a7 a8 :
  is_mexp 6 (sek_hat 3 [a0; a1; a2; a3; a4; a5; a6; a7; a8; 0; 0; 0]) (sek3_flow0 [a0; a1; a2; a3; a4; a5; a6; a7; a8; 0; 0; 0] 1).
Proof. flow0_mexp (sek3_flow0 [a0; a1; a2; a3; a4; a5; a6; a7; a8; 0; 0; 0]). Qed.
Lemma gal_flow0_mexp a0 a1 a2 a3 a4 a5 a6 :
  is_mexp 5 (gal_hat [a0; a1; a2; a3; a4; a5; a6; 0; 0; 0]) (gal_flow0 [a0; a1; a2; a3; a4; a5; a6; 0; 0; 0] 1).
Proof. flow0_mexp (gal_flow0 [a0; a1; a2; a3; a4; a5; a6; 0; 0; 0]). Qed.
