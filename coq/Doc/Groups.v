(* Specification side, written by hand from the documentation comments of pettni/smooth
   (include/smooth/detail/<group>.hpp "Lie group Matrix form" / "Lie algebra Matrix form" /
   "Constraints") and independent of the library's code.  Coefficient order = documented memory
   layout. *)
From Coq Require Import Reals List Lra.
From SV Require Import Base.Mat.
Import ListNotations.
Local Open Scope R_scope.

(* textbook rotation matrix of a unit quaternion (x,y,z,w) *)
Definition rotq (x y z w : R) : mat :=
  [[1 - 2*(y*y + z*z); 2*(x*y - z*w);     2*(x*z + y*w)];
   [2*(x*y + z*w);     1 - 2*(x*x + z*z); 2*(y*z - x*w)];
   [2*(x*z - y*w);     2*(y*z + x*w);     1 - 2*(x*x + y*y)]].

Definition skew3 (x y z : R) : mat := [[0; -z; y]; [z; 0; -x]; [-y; x; 0]].

Definition unit2 (z w : R) : Prop := z*z + w*w = 1.
Definition unit4 (x y z w : R) : Prop := x*x + y*y + z*z + w*w = 1.

Definition g (l : list R) (i : nat) : R := nth i l 0.

(* ---- SO2: qz qw ---- *)
Definition so2_valid (q : list R) := unit2 (g q 0) (g q 1).
Definition so2_mat (q : list R) : mat := [[g q 1; - g q 0]; [g q 0; g q 1]].
Definition so2_hat (a : list R) : mat := [[0; - g a 0]; [g a 0; 0]].

(* ---- SO3: qx qy qz qw ---- *)
Definition so3_valid (q : list R) := unit4 (g q 0) (g q 1) (g q 2) (g q 3).
Definition so3_mat (q : list R) : mat := rotq (g q 0) (g q 1) (g q 2) (g q 3).
Definition so3_hat (a : list R) : mat := skew3 (g a 0) (g a 1) (g a 2).

(* ---- SE2: x y qz qw ---- *)
Definition se2_valid (q : list R) := unit2 (g q 2) (g q 3).
Definition se2_mat (q : list R) : mat :=
  [[g q 3; - g q 2; g q 0]; [g q 2; g q 3; g q 1]; [0; 0; 1]].
Definition se2_hat (a : list R) : mat :=
  [[0; - g a 2; g a 0]; [g a 2; 0; g a 1]; [0; 0; 0]].

(* ---- SE3: x y z qx qy qz qw ---- *)
Definition se3_valid (q : list R) := unit4 (g q 3) (g q 4) (g q 5) (g q 6).
Definition se3_mat (q : list R) : mat :=
  match rotq (g q 3) (g q 4) (g q 5) (g q 6) with
  | [r0; r1; r2] => [r0 ++ [g q 0]; r1 ++ [g q 1]; r2 ++ [g q 2]; [0; 0; 0; 1]]
  | _ => []
  end.
Definition se3_hat (a : list R) : mat :=
  [[0; - g a 5; g a 4; g a 0]; [g a 5; 0; - g a 3; g a 1]; [- g a 4; g a 3; 0; g a 2]; [0; 0; 0; 0]].

(* ---- C1: a b  (matrix [b -a; a b], constraint: a, b not both zero) ---- *)
Definition c1_valid (q : list R) := g q 0 * g q 0 + g q 1 * g q 1 <> 0.
Definition c1_mat (q : list R) : mat := [[g q 1; - g q 0]; [g q 0; g q 1]].
Definition c1_hat (a : list R) : mat := [[g a 0; - g a 1]; [g a 1; g a 0]].

(* ---- Galilei: vx vy vz px py pz tau qx qy qz qw ; matrix [R v p; 0 1 tau; 0 0 1] ---- *)
Definition gal_valid (q : list R) := unit4 (g q 7) (g q 8) (g q 9) (g q 10).
Definition gal_mat (q : list R) : mat :=
  match rotq (g q 7) (g q 8) (g q 9) (g q 10) with
  | [r0; r1; r2] =>
      [r0 ++ [g q 0; g q 3]; r1 ++ [g q 1; g q 4]; r2 ++ [g q 2; g q 5]; [0; 0; 0; 1; g q 6]; [0; 0; 0; 0; 1]]
  | _ => []
  end.
(* tangent: bx by bz qx qy qz s wx wy wz.  The header comment prints a 1 in the bottom-right
   corner of the algebra matrix; an element of a matrix Lie algebra of matrices with unit diagonal
   has a zero there (and the library's hat agrees), so the specification uses 0. *)
Definition gal_hat (a : list R) : mat :=
  [[0; - g a 9; g a 8; g a 0; g a 3];
   [g a 9; 0; - g a 7; g a 1; g a 4];
   [- g a 8; g a 7; 0; g a 2; g a 5];
   [0; 0; 0; 0; g a 6];
   [0; 0; 0; 0; 0]].

(* ---- SE_K_3: p1 .. pk qx qy qz qw ; matrix [R P1 .. Pk; 0 I] ---- *)
Definition sek_valid (k : nat) (q : list R) :=
  unit4 (g q (3*k)) (g q (3*k+1)) (g q (3*k+2)) (g q (3*k+3)).
Definition sek_mat (k : nat) (q : list R) : mat :=
  match rotq (g q (3*k)) (g q (3*k+1)) (g q (3*k+2)) (g q (3*k+3)) with
  | [r0; r1; r2] =>
      [r0 ++ map (fun i => g q (3*i)) (seq 0 k);
       r1 ++ map (fun i => g q (3*i+1)) (seq 0 k);
       r2 ++ map (fun i => g q (3*i+2)) (seq 0 k)]
      ++ map (fun i => repeat 0 3 ++ unitv k i) (seq 0 k)
  | _ => []
  end.
Definition sek_hat (k : nat) (a : list R) : mat :=
  match skew3 (g a (3*k)) (g a (3*k+1)) (g a (3*k+2)) with
  | [r0; r1; r2] =>
      [r0 ++ map (fun i => g a (3*i)) (seq 0 k);
       r1 ++ map (fun i => g a (3*i+1)) (seq 0 k);
       r2 ++ map (fun i => g a (3*i+2)) (seq 0 k)]
      ++ repeat (repeat 0 (3 + k)) k
  | _ => []
  end.

(* ---- T(n): x1..xn ; matrix [I T; 0 1] ---- *)
Definition tn_mat (n : nat) (q : list R) : mat :=
  map (fun i => unitv n i ++ [g q i]) (seq 0 n) ++ [repeat 0 n ++ [1]].
Definition tn_hat (n : nat) (a : list R) : mat :=
  map (fun i => repeat 0 n ++ [g a i]) (seq 0 n) ++ [repeat 0 (n + 1)].

(* embedding of points for the group actions *)
Definition homog (v : vec) : vec := v ++ [1].

Ltac doc_unfold :=
  cbv [so2_valid so2_mat so2_hat so3_valid so3_mat so3_hat se2_valid se2_mat se2_hat se3_valid se3_mat se3_hat
       c1_valid c1_mat c1_hat gal_valid gal_mat gal_hat sek_valid sek_mat sek_hat tn_mat tn_hat homog
       rotq skew3 unit2 unit4 g Nat.mul Nat.add].
