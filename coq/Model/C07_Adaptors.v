(* C07 - executable models of the Manifold adaptors of pettni/smooth, generic over a base manifold.

   A manifold type M with scalar T is given by a record [man_ops] of the five entry points of
   traits::man<M> (concepts/manifold.hpp:16-64): Dof, dof, rplus, rminus, cast<Scalar>.
   Tangent vectors (Eigen column vectors) are [list T].

   Adaptors transcribed here (file:line refer to /repo/include/smooth):
     - std::vector<M>      manifolds/vector.hpp:23-96
     - std::variant<Ms...> manifolds/variant.hpp:20-66
     - SubManifold<M>      manifolds/submanifold.hpp:14-152   (constructor, dof, rplus, rminus, traits incl. cast)
     - AnyManifold         manifolds/any.hpp:15-140           (unique_ptr heap cells, clone)

   NO proofs in this file. *)
From Coq Require Import List Arith Bool.
Import ListNotations.

Set Implicit Arguments.

Section Scalar.
Variable T : Type.
Variable szero : T.

(* traits::man<M> *)
Record man_ops (M : Type) : Type := MkOps {
  m_sdof : option nat;              (* static Dof: Some d when Dof > 0, None when Dof = -1 (dynamic) *)
  m_dof : M -> nat;                 (* dof(m) *)
  m_rplus : M -> list T -> M;       (* rplus(m, a) *)
  m_rminus : M -> M -> list T;      (* rminus(m1, m2) *)
  m_cast : M -> M                   (* cast<Scalar>(m): cast to the same scalar type *)
}.

(* Eigen: a.segment(i, n) as an rvalue *)
Definition segment (a : list T) (i n : nat) : list T := firstn n (skipn i a).
(* Eigen: ret.segment(i, n) = v *)
Definition set_segment (ret : list T) (i n : nat) (v : list T) : list T :=
  firstn i ret ++ firstn n v ++ skipn (i + n) ret.

Fixpoint set_nth (A : Type) (l : list A) (i : nat) (x : A) : list A :=
  match l, i with
  | [], _ => []
  | _ :: r, 0 => x :: r
  | y :: r, S i' => y :: set_nth r i' x
  end.

(* ------------------------------------------------------------------------------------------ *)
(* std::vector<M>     manifolds/vector.hpp                                                      *)
Section Vec.
Variable M : Type.
Variable o : man_ops M.

(* vector.hpp:34-42   dof: size*Dof on the static path, std::accumulate of dof(item) otherwise *)
Definition vec_dof (m : list M) : nat :=
  match m_sdof o with
  | Some d => length m * d
  | None => fold_left (fun s item => s + m_dof o item) m 0
  end.

(* vector.hpp:62-73   rplus: loop over the elements with running offset dof_cntr *)
Fixpoint vec_rplus_loop (m : list M) (a : list T) (dof_cntr : nat) : list M :=
  match m with
  | [] => []
  | mi :: rest =>
      let dof_i := m_dof o mi in                                            (* :68 *)
      m_rplus o mi (segment a dof_cntr dof_i)                               (* :69 push_back(rplus(mi, a.segment(dof_cntr, dof_i))) *)
        :: vec_rplus_loop rest a (dof_cntr + dof_i)                         (* :70 *)
  end.
Definition vec_rplus (m : list M) (a : list T) : list M := vec_rplus_loop m a 0.

(* vector.hpp:77-82   dof_cnts computed from m1 only *)
Definition vec_rminus_cnt (m1 : list M) : nat :=
  match m_sdof o with
  | Some d => d * length m1
  | None => fold_left (fun c m1i => c + m_dof o m1i) m1 0
  end.

(* vector.hpp:86-91   loop over utils::zip(m1, m2) (stops at the shorter range) writing segments of ret *)
Fixpoint vec_rminus_loop (m1 m2 : list M) (ret : list T) (idx : nat) : list T :=
  match m1, m2 with
  | m1i :: r1, m2i :: r2 =>
      let size_i := m_dof o m1i in                                          (* :87 *)
      vec_rminus_loop r1 r2 (set_segment ret idx size_i (m_rminus o m1i m2i)) (idx + size_i)   (* :89-90 *)
  | _, _ => ret
  end.
(* vector.hpp:84  Eigen::VectorX<Scalar> ret(dof_cnts) is uninitialised memory; cells the loop does not write
   (only possible when m2 is shorter than m1 - excluded by the hypotheses of every theorem) are modelled as 0 *)
Definition vec_rminus (m1 m2 : list M) : list T :=
  vec_rminus_loop m1 m2 (repeat szero (vec_rminus_cnt m1)) 0.

(* vector.hpp:53-60   cast: element-wise transform *)
Definition vec_cast (m : list M) : list M := map (m_cast o) m.

(* vector.hpp:32  Dof = -1 *)
Definition vec_ops : man_ops (list M) := MkOps None vec_dof vec_rplus vec_rminus vec_cast.
End Vec.

(* ------------------------------------------------------------------------------------------ *)
(* std::variant<Ms...>     manifolds/variant.hpp
   A variant value is (index of the active alternative, payload); payloads live in one universal type U and
   [alt i] is traits::man<Ms_i>.  std::visit = dispatch on the index. *)
Section Variant.
Variable U : Type.
Variable alt : nat -> man_ops U.

Definition var_dof (m : nat * U) : nat := m_dof (alt (fst m)) (snd m).                       (* variant.hpp:32-36 *)
Definition var_rplus (m : nat * U) (a : list T) : nat * U :=                                (* :52-57 same alternative *)
  (fst m, m_rplus (alt (fst m)) (snd m) a).
(* :59-65  visitor on m1 calls std::get<Mi>(m2): throws std::bad_variant_access (None) when m2 holds another alternative *)
Definition var_rminus_opt (m1 m2 : nat * U) : option (list T) :=
  if fst m1 =? fst m2 then Some (m_rminus (alt (fst m1)) (snd m1) (snd m2)) else None.
Definition var_rminus (m1 m2 : nat * U) : list T :=
  match var_rminus_opt m1 m2 with Some t => t | None => [] end.
Definition var_cast (m : nat * U) : nat * U := (fst m, m_cast (alt (fst m)) (snd m)).       (* :43-50 *)
Definition var_ops : man_ops (nat * U) := MkOps None var_dof var_rplus var_rminus var_cast. (* :30 Dof = -1 *)
End Variant.

(* ------------------------------------------------------------------------------------------ *)
(* SubManifold<M>     manifolds/submanifold.hpp
   members: m_m0, m_m, m_fixed_dims (Eigen::VectorXi, here nat: the constructor asserts 0 <= x < dof).
   The mutable scratch member m_calc is fully overwritten by every method before it is read
   (:43, :68, :88), so it is modelled as a local of each method and not as part of the value. *)
Record sub (M : Type) : Type := MkSub { s_m0 : M; s_m : M; s_fixed : list nat }.

(* std::sort on m_fixed_dims (:42) *)
Fixpoint insert_sorted (x : nat) (l : list nat) : list nat :=
  match l with
  | [] => [x]
  | y :: r => if x <=? y then x :: l else y :: insert_sorted x r
  end.
Fixpoint isort (l : list nat) : list nat :=
  match l with [] => [] | x :: r => insert_sorted x (isort r) end.

(* the test of :73 and :96:   k >= m_fixed_dims.size() || i != m_fixed_dims(k) *)
Definition is_free (fixed : list nat) (i k : nat) : bool :=
  (length fixed <=? k) || negb (i =? nth k fixed 0).

(* :68-78  m_calc.setZero(n); for (i = 0, j = 0, k = 0; i < n; ++i) { if free: m_calc(i) = a(j++) else ++k }
   entry i of m_calc is either a(j) or the zero left by setZero; n = remaining iterations *)
Fixpoint scatter_loop (n i j k : nat) (fixed : list nat) (a : list T) : list T :=
  match n with
  | 0 => []
  | S n' =>
      if is_free fixed i k
      then nth j a szero :: scatter_loop n' (i + 1) (j + 1) k fixed a
      else szero :: scatter_loop n' (i + 1) j (k + 1) fixed a
  end.

(* :92-101  for (i = 0, j = 0, k = 0; i < m_calc.size(); ++i) { if free: ret(j++) = m_calc(i) else ++k }
   walks m_calc in step with i; the values written to ret(0), ret(1), ... in this order *)
Fixpoint gather_loop (calc : list T) (i k : nat) (fixed : list nat) : list T :=
  match calc with
  | [] => []
  | c :: rest =>
      if is_free fixed i k
      then c :: gather_loop rest (i + 1) k fixed
      else gather_loop rest (i + 1) (k + 1) fixed
  end.

Section Sub.
Variable M : Type.
Variable o : man_ops M.

(* :37-44 constructor SubManifold(m0, m, fixed_dims): copies, (assert in range), sorts the fixed dims *)
Definition sub_ctor (m0 m : M) (fixed_dims : list nat) : sub M := MkSub m0 m (isort fixed_dims).
(* :49 SubManifold(m0, fixed_dims) : SubManifold(m0, m0, fixed_dims) *)
Definition sub_ctor1 (m0 : M) (fixed_dims : list nat) : sub M := sub_ctor m0 m0 fixed_dims.

(* :61  dof() = dof(m_m0) - m_fixed_dims.size()   (Eigen::Index; a negative value - only possible with
   repeated fixed dims - is excluded by the well-formedness hypothesis of the theorems) *)
Definition sub_dof (s : sub M) : nat := m_dof o (s_m0 s) - length (s_fixed s).

(* :65-80 *)
Definition sub_scatter (s : sub M) (a : list T) : list T :=
  scatter_loop (m_dof o (s_m0 s)) 0 0 0 (s_fixed s) a.
Definition sub_rplus (s : sub M) (a : list T) : sub M :=
  sub_ctor (s_m0 s) (m_rplus o (s_m s) (sub_scatter s a)) (s_fixed s).      (* :79 *)

(* :83-103 ; ret.setZero(dof()) then the gathered entries are written to ret(0..) *)
Definition sub_rminus (s other : sub M) : list T :=
  let calc := m_rminus o (s_m s) (s_m other) in                             (* :88 *)
  let w := gather_loop calc 0 0 (s_fixed s) in
  w ++ repeat szero (sub_dof s - length w).                                 (* :90-91 *)

(* :135-140 traits::man<SubManifold<M>>::cast<NewScalar>(m) =
            CastT<NewScalar>(cast(m.m()), cast(m.m0()), m.fixed_dims())
   The constructor's parameter order is (m0, m, fixed_dims): on the unchanged tree the first two arguments
   are swapped.  [repaired = false] is the code as it is; [repaired = true] is the code after
   notes/C07-cast.patch (arguments in constructor order). *)
Definition sub_cast (repaired : bool) (s : sub M) : sub M :=
  if repaired
  then sub_ctor (m_cast o (s_m0 s)) (m_cast o (s_m s)) (s_fixed s)
  else sub_ctor (m_cast o (s_m s)) (m_cast o (s_m0 s)) (s_fixed s).

(* :125 Dof = -1 ; :127 dof ; :143-151 rplus/rminus forward to the members *)
Definition sub_ops (repaired : bool) : man_ops (sub M) :=
  MkOps None sub_dof sub_rplus sub_rminus (sub_cast repaired).
End Sub.

(* ------------------------------------------------------------------------------------------ *)
(* AnyManifold     manifolds/any.hpp
   m_val is a std::unique_ptr<wrapper_base>: modelled as an optional address into a heap of wrapper cells
   (None = null pointer of a moved-from object; a freed cell is None in the heap). *)
Section Any.
Variable W : Type.
Variable o : man_ops W.

Definition heap := list (option W).
Definition any := option nat.

Definition any_deref (h : heap) (a : any) : option W :=
  match a with Some p => nth p h None | None => None end.
(* std::make_unique<wrapper<M>>(w): a fresh cell *)
Definition any_alloc (h : heap) (w : W) : heap * any := (h ++ [Some w], Some (length h)).
(* unique_ptr releasing the cell it owned *)
Definition any_free (h : heap) (a : any) : heap :=
  match a with Some p => set_nth h p None | None => h end.

(* any.hpp:23  explicit AnyManifold(const M & m) *)
Definition any_make (h : heap) (m : W) : heap * any := any_alloc h m.
(* any.hpp:27  copy constructor: m_val(m.m_val->clone());  clone :95 = make_unique<wrapper<M>>(m_val) *)
Definition any_copy_ctor (h : heap) (src : any) : option (heap * any) :=
  match any_deref h src with
  | Some w => Some (any_alloc h w)
  | None => None                                          (* null dereference *)
  end.
(* any.hpp:33-37  copy assignment: m_val = m.m_val->clone()  (clone first, then the old cell of dst is released) *)
Definition any_copy_assign (h : heap) (dst src : any) : option (heap * any) :=
  match any_deref h src with
  | Some w => let (h1, p) := any_alloc h w in Some (any_free h1 dst, p)
  | None => None
  end.
(* any.hpp:30  move constructor: (new object, moved-from source) *)
Definition any_move_ctor (src : any) : any * any := (src, None).
(* any.hpp:61, :86 *)
Definition any_dof (h : heap) (a : any) : option nat := option_map (m_dof o) (any_deref h a).
(* any.hpp:64, :87-90  rplus allocates a new wrapper holding rplus(m_val, a) *)
Definition any_rplus (h : heap) (a : any) (v : list T) : option (heap * any) :=
  match any_deref h a with
  | Some w => Some (any_alloc h (m_rplus o w v))
  | None => None
  end.
(* any.hpp:67, :91-94 *)
Definition any_rminus (h : heap) (a1 a2 : any) : option (list T) :=
  match any_deref h a1, any_deref h a2 with
  | Some w1, Some w2 => Some (m_rminus o w1 w2)
  | _, _ => None
  end.
(* any.hpp:47-51  a.get<M>() = v  (mutable access to the owned cell) *)
Definition any_set (h : heap) (a : any) (v : W) : option heap :=
  match a with
  | Some p => match nth p h None with Some _ => Some (set_nth h p (Some v)) | None => None end
  | None => None
  end.
End Any.

End Scalar.
