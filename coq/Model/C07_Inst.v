(* C07 - executable instance of the adaptor models at the base manifold Q^n (exact rationals in canonical form,
   Coq's Qc), the universe of manifold types exercised by the correspondence harness, and the interpreter of
   the generated programs (register file + AnyManifold heap).

   Base manifold: Eigen column vectors / double as Lie groups, lie_groups/rn.hpp:19-57, lie_groups/scalar.hpp:21-60
   through traits::man<LieGroup>, concepts/lie_group.hpp:100-133:
       rplus(g, a)    = composition(g, exp(a))            = g + a
       rminus(g1, g2) = log(composition(inverse(g2), g1)) = (-g2) + g1
       dof(g) = g.size(),   cast<Scalar>(g) = g
   NO proofs in this file. *)
From Coq Require Import List Arith Bool QArith Qcanon.
From SV Require Import Model.C07_Adaptors.
Import ListNotations.
Local Open Scope nat_scope.

Definition qzero : Qc := Q2Qc 0%Q.

(* Eigen coefficient-wise sum of two column vectors of equal size *)
Fixpoint qn_add (x y : list Qc) : list Qc :=
  match x, y with
  | a :: x', b :: y' => Qcplus a b :: qn_add x' y'
  | _, _ => []
  end.
Definition qn_rplus (g a : list Qc) : list Qc := qn_add g a.                     (* rn.hpp:39 composition, :66 exp *)
Definition qn_rminus (g1 g2 : list Qc) : list Qc := qn_add (map Qcopp g2) g1.    (* rn.hpp:44 inverse, :39, :50 log *)
Definition qn_dof (g : list Qc) : nat := length g.                              (* rn.hpp:43 *)
Definition qn_cast (g : list Qc) : list Qc := g.                                (* rn.hpp:52-55 *)
(* sd = Some N for Eigen::Vector<double,N> and double (N = 1), None for Eigen::VectorXd *)
Definition qn_ops (sd : option nat) : man_ops Qc (list Qc) := MkOps sd qn_dof qn_rplus qn_rminus qn_cast.

(* ---------- the manifold types of the harness ---------- *)
Definition oVX := qn_ops None.                    (* Eigen::VectorXd *)
Definition oV3 := qn_ops (Some 3).                (* Eigen::Vector3d *)
Definition oD := qn_ops (Some 1).                 (* double *)
Definition oSVX := vec_ops qzero oVX.             (* std::vector<Eigen::VectorXd>  - dynamic element dof *)
Definition oSV3 := vec_ops qzero oV3.             (* std::vector<Eigen::Vector3d>  - static element dof *)
Definition oSUBX (repaired : bool) := sub_ops qzero oVX repaired.    (* SubManifold<Eigen::VectorXd> *)
Definition oSUBS (repaired : bool) := sub_ops qzero oSV3 repaired.   (* SubManifold<std::vector<Eigen::Vector3d>> *)

Inductive pval : Type :=
| PVX (x : list Qc)
| PV3 (x : list Qc)
| PD (x : list Qc)
| PSVX (l : list (list Qc))
| PSV3 (l : list (list Qc))
| PSUBX (s : sub (list Qc))
| PSUBS (s : sub (list (list Qc))).

Section Flag.
(* false = traits::man<SubManifold>::cast as it is in /repo now; true = after notes/C07-cast.patch *)
Variable repaired : bool.

Definition p_dof (v : pval) : nat :=
  match v with
  | PVX x => m_dof oVX x | PV3 x => m_dof oV3 x | PD x => m_dof oD x
  | PSVX l => m_dof oSVX l | PSV3 l => m_dof oSV3 l
  | PSUBX s => m_dof (oSUBX repaired) s | PSUBS s => m_dof (oSUBS repaired) s
  end.
Definition p_rplus (v : pval) (a : list Qc) : pval :=
  match v with
  | PVX x => PVX (m_rplus oVX x a) | PV3 x => PV3 (m_rplus oV3 x a) | PD x => PD (m_rplus oD x a)
  | PSVX l => PSVX (m_rplus oSVX l a) | PSV3 l => PSV3 (m_rplus oSV3 l a)
  | PSUBX s => PSUBX (m_rplus (oSUBX repaired) s a) | PSUBS s => PSUBS (m_rplus (oSUBS repaired) s a)
  end.
(* None: the two registers hold different C++ types (never generated; reported as a harness error) *)
Definition p_rminus_opt (v1 v2 : pval) : option (list Qc) :=
  match v1, v2 with
  | PVX x, PVX y => Some (m_rminus oVX x y) | PV3 x, PV3 y => Some (m_rminus oV3 x y)
  | PD x, PD y => Some (m_rminus oD x y)
  | PSVX x, PSVX y => Some (m_rminus oSVX x y) | PSV3 x, PSV3 y => Some (m_rminus oSV3 x y)
  | PSUBX x, PSUBX y => Some (m_rminus (oSUBX repaired) x y)
  | PSUBS x, PSUBS y => Some (m_rminus (oSUBS repaired) x y)
  | _, _ => None
  end.
Definition p_rminus (v1 v2 : pval) : list Qc := match p_rminus_opt v1 v2 with Some t => t | None => [] end.
Definition p_cast (v : pval) : pval :=
  match v with
  | PVX x => PVX (m_cast oVX x) | PV3 x => PV3 (m_cast oV3 x) | PD x => PD (m_cast oD x)
  | PSVX l => PSVX (m_cast oSVX l) | PSV3 l => PSV3 (m_cast oSV3 l)
  | PSUBX s => PSUBX (m_cast (oSUBX repaired) s) | PSUBS s => PSUBS (m_cast (oSUBS repaired) s)
  end.
Definition p_ops : man_ops Qc pval := MkOps None p_dof p_rplus p_rminus p_cast.

(* std::variant<Eigen::Vector3d, Eigen::VectorXd, std::vector<Eigen::Vector3d>, SubManifold<Eigen::VectorXd>, double>:
   the payload type determines the alternative index *)
Definition alt_index (v : pval) : option nat :=
  match v with
  | PV3 _ => Some 0 | PVX _ => Some 1 | PSV3 _ => Some 2 | PSUBX _ => Some 3 | PD _ => Some 4
  | _ => None
  end.
Definition v_alt (i : nat) : man_ops Qc pval := p_ops.

(* ---------- values held by the registers ---------- *)
Inductive val : Type :=
| VP (p : pval)                 (* a plain manifold object *)
| VV (m : nat * pval)           (* the std::variant above *)
| VA (a : any).                 (* AnyManifold (owning pointer into the heap) *)

Record state : Type := MkState { st_regs : list (option val); st_heap : heap pval }.
Definition init_state : state := MkState (repeat None 8) [].

(* literals: what the harness constructs; SubManifolds go through the real constructor (unsorted fixed dims) *)
Inductive plit : Type :=
| LVX (x : list Qc) | LV3 (x : list Qc) | LD (x : list Qc)
| LSVX (l : list (list Qc)) | LSV3 (l : list (list Qc))
| LSUBX (m0 m : list Qc) (fixed : list nat)
| LSUBS (m0 m : list (list Qc)) (fixed : list nat).
Definition build (l : plit) : pval :=
  match l with
  | LVX x => PVX x | LV3 x => PV3 x | LD x => PD x | LSVX l => PSVX l | LSV3 l => PSV3 l
  | LSUBX m0 m f => PSUBX (sub_ctor m0 m f)
  | LSUBS m0 m f => PSUBS (sub_ctor m0 m f)
  end.

Inductive op : Type :=
| ONew (r wrap : nat) (l : plit)     (* wrap: 0 plain, 1 inside the variant, 2 inside an AnyManifold *)
| ORplus (d s : nat) (a : list Qc)   (* reg d = rplus(reg s, a) *)
| ORminus (r1 r2 : nat)              (* print rminus(reg r1, reg r2) *)
| ODof (r : nat)                     (* print dof(reg r) *)
| OCast (d s : nat)                  (* reg d = cast<double>(reg s) *)
| OCopy (d s : nat)                  (* reg d = copy of reg s (copy construction / copy assignment) *)
| OSet (r : nat) (l : plit)          (* overwrite the object in reg r in place (AnyManifold: a.get<M>() = value) *)
| OMove (d s : nat)                  (* AnyManifold only: reg d = std::move(reg s) *)
| ODump (r : nat).                   (* print reg r *)

(* canonical printable form *)
Inductive dump : Type := DQ (q : Qc) | DN (n : nat) | DNode (tag : nat) (ch : list dump).
Inductive res : Type :=
| RVal (d : dump) | RTan (t : list Qc) | RDof (n : nat)
| RThrow (code : nat)                (* 1 std::bad_variant_access, 2 std::runtime_error (AnyManifold cast) *)
| RErr (code : nat)                  (* harness / program error: empty register, type mismatch, null AnyManifold *)
| RNone.

Definition dvec (tag : nat) (x : list Qc) : dump := DNode tag (map DQ x).
Definition dump_p (v : pval) : dump :=
  match v with
  | PVX x => dvec 0 x | PV3 x => dvec 1 x | PD x => dvec 2 x
  | PSVX l => DNode 3 (map (dvec 0) l) | PSV3 l => DNode 4 (map (dvec 1) l)
  | PSUBX s => DNode 5 [dvec 0 (s_m0 s); dvec 0 (s_m s); DNode 9 (map DN (s_fixed s))]
  | PSUBS s => DNode 6 [DNode 4 (map (dvec 1) (s_m0 s)); DNode 4 (map (dvec 1) (s_m s)); DNode 9 (map DN (s_fixed s))]
  end.
Definition dump_v (h : heap pval) (v : val) : res :=
  match v with
  | VP p => RVal (dump_p p)
  | VV m => RVal (DNode 7 [DN (fst m); dump_p (snd m)])
  | VA a => match any_deref h a with Some p => RVal (DNode 8 [dump_p p]) | None => RErr 3 end
  end.

Definition get_reg (st : state) (r : nat) : option val := nth r (st_regs st) None.
Definition set_reg (st : state) (r : nat) (v : val) (h : heap pval) : state :=
  MkState (set_nth (st_regs st) r (Some v)) h.

Definition same_type (p q : pval) : bool :=
  match p, q with
  | PVX _, PVX _ | PV3 _, PV3 _ | PD _, PD _ | PSVX _, PSVX _ | PSV3 _, PSV3 _ | PSUBX _, PSUBX _ | PSUBS _, PSUBS _ => true
  | _, _ => false
  end.

Definition step (st : state) (o : op) : state * res :=
  let h := st_heap st in
  match o with
  | ONew r wrap l =>
      let p := build l in
      match wrap with
      | 0 => (set_reg st r (VP p) h, RNone)
      | 1 => match alt_index p with
             | Some i => (set_reg st r (VV (i, p)) h, RNone)
             | None => (st, RErr 2)
             end
      | _ => let (h', a) := any_make h p in (set_reg st r (VA a) h', RNone)
      end
  | ORplus d s a =>
      match get_reg st s with
      | Some (VP p) => let v := VP (p_rplus p a) in (set_reg st d v h, dump_v h v)
      | Some (VV m) => let v := VV (var_rplus v_alt m a) in (set_reg st d v h, dump_v h v)
      | Some (VA x) => match any_rplus p_ops h x a with
                       | Some (h', y) => (set_reg st d (VA y) h', dump_v h' (VA y))
                       | None => (st, RErr 3)
                       end
      | None => (st, RErr 1)
      end
  | ORminus r1 r2 =>
      match get_reg st r1, get_reg st r2 with
      | Some (VP p), Some (VP q) =>
          match p_rminus_opt p q with Some t => (st, RTan t) | None => (st, RErr 2) end
      | Some (VV m1), Some (VV m2) =>
          match var_rminus_opt v_alt m1 m2 with
          | Some t => if same_type (snd m1) (snd m2) then (st, RTan t) else (st, RErr 2)
          | None => (st, RThrow 1)
          end
      | Some (VA x), Some (VA y) =>
          match any_deref h x, any_deref h y with
          | Some p, Some q => if same_type p q
                              then match any_rminus p_ops h x y with Some t => (st, RTan t) | None => (st, RErr 3) end
                              else (st, RErr 2)
          | _, _ => (st, RErr 3)
          end
      | Some _, Some _ => (st, RErr 2)
      | _, _ => (st, RErr 1)
      end
  | ODof r =>
      match get_reg st r with
      | Some (VP p) => (st, RDof (p_dof p))
      | Some (VV m) => (st, RDof (var_dof v_alt m))
      | Some (VA x) => match any_dof p_ops h x with Some n => (st, RDof n) | None => (st, RErr 3) end
      | None => (st, RErr 1)
      end
  | OCast d s =>
      match get_reg st s with
      | Some (VP p) => let v := VP (p_cast p) in (set_reg st d v h, dump_v h v)
      | Some (VV m) => let v := VV (var_cast v_alt m) in (set_reg st d v h, dump_v h v)
      | Some (VA _) => (st, RThrow 2)                       (* any.hpp:124-128 cast throws *)
      | None => (st, RErr 1)
      end
  | OCopy d s =>
      match get_reg st s with
      | Some (VA x) =>
          match get_reg st d with
          | Some (VA y) =>                                   (* copy assignment any.hpp:33 *)
              match any_copy_assign h y x with
              | Some (h', z) => (set_reg st d (VA z) h', RNone)
              | None => (st, RErr 3)
              end
          | _ =>                                             (* copy construction any.hpp:27 *)
              match any_copy_ctor h x with
              | Some (h', z) => (set_reg st d (VA z) h', RNone)
              | None => (st, RErr 3)
              end
          end
      | Some v => (set_reg st d v h, RNone)                  (* value types: member-wise copy *)
      | None => (st, RErr 1)
      end
  | OSet r l =>
      let p := build l in
      match get_reg st r with
      | Some (VP q) => if same_type p q then (set_reg st r (VP p) h, RNone) else (st, RErr 2)
      | Some (VV m) => match alt_index p with
                       | Some i => (set_reg st r (VV (i, p)) h, RNone)
                       | None => (st, RErr 2)
                       end
      | Some (VA x) =>
          match any_deref h x with
          | Some q => if same_type p q
                      then match any_set h x p with Some h' => (MkState (st_regs st) h', RNone) | None => (st, RErr 3) end
                      else (st, RErr 2)
          | None => (st, RErr 3)
          end
      | None => (st, RErr 1)
      end
  | OMove d s =>
      match get_reg st s with
      | Some (VA x) => let (y, x') := any_move_ctor x in
                       (MkState (set_nth (set_nth (st_regs st) s (Some (VA x'))) d (Some (VA y))) h, RNone)
      | Some _ => (st, RErr 2)
      | None => (st, RErr 1)
      end
  | ODump r =>
      match get_reg st r with
      | Some v => (st, dump_v h v)
      | None => (st, RErr 1)
      end
  end.

Fixpoint run (st : state) (prog : list op) : list res :=
  match prog with
  | [] => []
  | o :: rest => let (st', r) := step st o in r :: run st' rest
  end.

End Flag.

(* Which variant /repo currently has.  Flip to [true] once notes/C07-cast.patch is applied; the check itself
   detects the variant from the behaviour of the real code and accepts exactly these two. *)
Definition c07_repo_cast_repaired : bool := false.
