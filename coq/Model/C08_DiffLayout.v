(** * C08 - executable model of smooth::diff::dr (numerical differentiation in tangent space)

    Transcription of /repo/include/smooth/detail/diff_impl.hpp (dr_numerical :17-136, dr :153-226,
    index-subset overload :228-245; line numbers of the tree that contains the repairs 59fd5d3 and 41b038a)
    and of the helpers of detail/wrt_impl.hpp it uses
    (wrt_copy_if_const :98-113, wrt_cast :42-52).  The callable [f], the manifold operations
    [rplus]/[rminus]/[dof] of the argument and result types and the scalar arithmetic are abstract
    (Section variables), so the model covers every argument list (any number and mix of Manifold kinds,
    static or dynamic size) and every callable.

    Matrices are modelled as grids of [option] cells ([None] = never written: Eigen leaves the storage
    uninitialised); the assignments [J.col(c) = v] and [H(r,c) = v] are recorded in program order in a
    write log which is then applied to the uninitialised grid ([apply_J]/[apply_H]).

    NO proofs in this file (coq/Proofs/C08_DiffLayout.v has them). *)
From Coq Require Import List Arith Bool.
Import ListNotations.

Fixpoint upd {A : Type} (i : nat) (v : A) (l : list A) : list A :=
  match l, i with
  | [], _ => []
  | _ :: t, O => v :: t
  | a :: t, S i' => a :: upd i' v t
  end.

Set Implicit Arguments.

(** scalar arithmetic, Manifold operations of the argument / result types, constants, repair flags *)
Record Ops (S X Y : Type) := mkOps {
  szero : S;
  smul : S -> S -> S; sdiv : S -> S -> S; ssub : S -> S -> S;
  sneg : S -> S; sabs : S -> S;
  sis0 : S -> bool;            (* [eps_j == Scalar(0.)] *)
  dofX : X -> nat;             (* dof<W>(w) *)
  isvec : X -> bool;           (* std::is_base_of_v<Eigen::MatrixBase<W>, W> *)
  coord : X -> nat -> S;       (* w[j], only used when isvec *)
  rplus : X -> list S -> X;    (* rplus<W>(w, a) *)
  dofY : Y -> nat;             (* dof<Result>(fval) *)
  rminus : Y -> Y -> list S;   (* rminus<Result>(a, b) *)
  dflt : X;                    (* value of std::get<i> for an out-of-range i (never reached) *)
  eps : S; sqrteps : S;        (* :29 sqrt(NumTraits::epsilon()), :74 sqrt(eps) *)
  (** Version flags.  Both [true] = the code as it is in /repo now ([c08_fix_restore], [c08_fix_k2jac] below;
      the theorems of Props/Properties_C08.v are about that instance, predicate [current_code] in the proofs).
      [false] = the behaviour before the repair commits, kept only so that the historical [_refuted] lemmas
      (findings C08-restore-drift, C08-k2-jac-step, both fixed) can still be stated over the same model.
      [fix_restore] (commit 59fd5d3): arguments are restored from a saved copy [w = w_orig] (:62/:65, :102/:105,
      :117/:122-123); before, by the inverse perturbation [w = rplus(w, -h e)].
      [fix_k2jac] (commit 41b038a): the K = 2 routine takes its first-derivative output from the K = 1 routine
      (:79); before, it formed J from the second-order differences [J.col(I0 + k0) = d1 / eps0]. *)
  fix_restore : bool; fix_k2jac : bool }.

Section DiffModel.
  Variables S X Y : Type.               (* Scalar, one wrt-argument (any Manifold), Result *)
  Variables JT HT : Type.               (* whatever f.jacobian / f.hessian return (Analytic mode) *)
  Variable o : Ops S X Y.

  Definition JGrid := list (option (list S)).          (* columns *)
  Definition HGrid := list (list (option S)).          (* rows of cells *)
  Definition JLog := list (nat * list S).
  Definition HLog := list (nat * nat * S).

  Definition apply_J (log : JLog) (J0 : JGrid) : JGrid :=
    fold_left (fun J w => upd (fst w) (Some (snd w)) J) log J0.
  Definition setH (r c : nat) (v : S) (H : HGrid) : HGrid :=
    upd r (upd c (Some v) (nth r H [])) H.
  Definition apply_H (log : HLog) (H0 : HGrid) : HGrid :=
    fold_left (fun H w => setH (fst (fst w)) (snd (fst w)) (snd w) H) log H0.
  Definition getJ (J : JGrid) (c : nat) : option (list S) := nth c J None.
  Definition getH (H : HGrid) (r c : nat) : option S := nth c (nth r H []) None.

  (** [h * Eigen::Vector<Scalar, N>::Unit(n, j)] *)
  Definition unitv (n j : nat) (h : S) : list S :=
    map (fun k => if Nat.eqb k j then h else (szero o)) (seq 0 n).

  (** step selection, :56-61 (with [eps]) and :96-100, :110-114 (with [sqrteps]) *)
  Definition step (e : S) (w : X) (j : nat) : S :=
    if (isvec o) w
    then (let ej := (smul o) e ((sabs o) ((coord o) w j)) in if (sis0 o) ej then e else ej)
    else e.

  Definition getx (i : nat) (xs : list X) : X := nth i xs (dflt o).

  (** [w = (rplus o)<W>(w, h * Unit(n, j))] where [w] is a reference to [std::get<i>(x_nc)] *)
  Definition bump (i n j : nat) (h : S) (xs : list X) : list X :=
    upd i ((rplus o) (getx i xs) (unitv n j h)) xs.

  (** undo the perturbation: current code [w = w_orig] (:65, :105, :122, :123; [w_orig] is the
      [const PlainObject<W> w_orig = w] saved at :62, :102, :117 before the perturbation);
      before 59fd5d3: [w = (rplus o)<W>(w, -h * Unit(n, j))] *)
  Definition restore (i : nat) (w_orig : X) (n j : nat) (h : S) (xs : list X) : list X :=
    if (fix_restore o) then upd i w_orig xs else bump i n j ((sneg o) h) xs.

  Definition sum_dof (xs : list X) : nat := list_sum (map (dofX o) xs).      (* :40 *)

  (** ** K = 1  (:46-71) *)
  Definition k1_col (f : list X -> Y) (fval : Y) (i nxj I0 : nat)
             (st : list X * JLog) (j : nat) : list X * JLog :=
    let ej  := step (eps o) (getx i (fst st)) j in                           (* :56-61 *)
    let w_orig := getx i (fst st) in                                     (* :62 *)
    let xs1 := bump i nxj j ej (fst st) in                               (* :63 *)
    let col := map (fun d => (sdiv o) d ej) ((rminus o) (f xs1) fval) in         (* :64 *)
    let xs2 := restore i w_orig nxj j ej xs1 in                          (* :65 *)
    (xs2, snd st ++ [(I0 + j, col)]).                                    (* :64 J.col(I0 + j) = *)

  Definition k1_arg (f : list X -> Y) (fval : Y)
             (acc : list X * nat * JLog) (i : nat) : list X * nat * JLog :=
    let xs := fst (fst acc) in
    let I0 := snd (fst acc) in
    let nxj := (dofX o) (getx i xs) in                                       (* :53 *)
    let r := fold_left (k1_col f fval i nxj I0) (seq 0 nxj) (xs, snd acc) in   (* :55 *)
    (fst r, I0 + nxj, snd r).                                            (* :67 *)

  (** ** K = 2  (:73-135) *)
  Definition k2_k1 (f : list X -> Y) (i0 i1 n0 n1 I0 I1 nx ny k0 : nat) (eps0 : S) (w0_orig : X) (d1 : list S)
             (st : list X * HLog) (k1 : nat) : list X * HLog :=
    let xs   := fst st in
    let eps1 := step (sqrteps o) (getx i1 xs) k1 in                          (* :110-114 *)
    let w1_orig := getx i1 xs in                                         (* :117 *)
    let xs1  := bump i1 n1 k1 eps1 xs in                                 (* :118 *)
    let F01  := f xs1 in                                                 (* :119 *)
    let xs2  := bump i0 n0 k0 eps0 xs1 in                                (* :120 *)
    let F11  := f xs2 in                                                 (* :121 *)
    let xs3  := restore i0 w0_orig n0 k0 eps0 xs2 in                     (* :122 *)
    let xs4  := restore i1 w1_orig n1 k1 eps1 xs3 in                     (* :123 *)
    let d2   := map (fun p => (sdiv o) ((sdiv o) ((ssub o) (fst p) (snd p)) eps0) eps1)
                    (combine ((rminus o) F11 F01) d1) in                     (* :125 *)
    (xs4, snd st ++ map (fun j => (I0 + k0, j * nx + I1 + k1, nth j d2 (szero o))) (seq 0 ny)).  (* :126 *)

  Definition k2_k0 (f : list X -> Y) (fval : Y) (i0 i1 n0 n1 I0 I1 nx ny : nat)
             (st : list X * JLog * HLog) (k0 : nat) : list X * JLog * HLog :=
    let xs   := fst (fst st) in
    let eps0 := step (sqrteps o) (getx i0 xs) k0 in                          (* :96-100 *)
    let w0_orig := getx i0 xs in                                         (* :102 *)
    let xs1  := bump i0 n0 k0 eps0 xs in                                 (* :103 *)
    let F10  := f xs1 in                                                 (* :104 *)
    let xs2  := restore i0 w0_orig n0 k0 eps0 xs1 in                     (* :105 *)
    let d1   := (rminus o) F10 fval in                                       (* :107 *)
    let jlog := if (fix_k2jac o) then snd (fst st)                           (* current code: no write to J here *)
                else snd (fst st) ++ [(I0 + k0, map (fun d => (sdiv o) d eps0) d1)] in
                                     (* before 41b038a: [J.col(I0 + k0) = d1 / eps0] after the line that is now :107 *)
    let r := fold_left (k2_k1 f i0 i1 n0 n1 I0 I1 nx ny k0 eps0 w0_orig d1) (seq 0 n1) (xs2, snd st) in (* :109 *)
    (fst r, jlog, snd r).

  Definition k2_i1 (f : list X -> Y) (fval : Y) (i0 n0 I0 nx ny : nat)
             (acc : list X * nat * JLog * HLog) (i1 : nat) : list X * nat * JLog * HLog :=
    let xs := fst (fst (fst acc)) in
    let I1 := snd (fst (fst acc)) in
    let n1 := (dofX o) (getx i1 xs) in                                       (* :93 *)
    let r := fold_left (k2_k0 f fval i0 i1 n0 n1 I0 I1 nx ny) (seq 0 n0)
                       (xs, snd (fst acc), snd acc) in                   (* :95 *)
    (fst (fst r), I1 + n1, snd (fst r), snd r).                          (* :129 *)

  Definition k2_i0 (f : list X -> Y) (fval : Y) (nargs nx ny : nat)
             (acc : list X * nat * JLog * HLog) (i0 : nat) : list X * nat * JLog * HLog :=
    let xs := fst (fst (fst acc)) in
    let I0 := snd (fst (fst acc)) in
    let n0 := (dofX o) (getx i0 xs) in                                       (* :86 *)
    let r := fold_left (k2_i1 f fval i0 n0 I0 nx ny) (seq 0 nargs)
                       (xs, 0, snd (fst acc), snd acc) in                (* :88-89 *)
    (fst (fst (fst r)), I0 + n0, snd (fst r), snd r).                    (* :131 *)

  (** ** results *)
  Inductive JRes := JNum (J : JGrid) | JUser (j : JT).
  Inductive HRes := HNum (H : HGrid) | HUser (h : HT).
  Record Out := mkOut { o_val : Y; o_J : option JRes; o_H : option HRes; o_args : list X }.
  (* o_args: the tuple x_nc after the call.  For an argument passed as non-const reference this IS the
     caller's object; for a const reference x_nc holds a copy (wrt_impl.hpp:98-113) - see [caller_view]. *)

  Definition dr_numerical (K : nat) (f : list X -> Y) (x : list X) : Out :=
    let xnc  := x in                                                     (* :32 *)
    let fval := f xnc in                                                 (* :33 *)
    let nx   := sum_dof xnc in                                           (* :40 *)
    let ny   := (dofY o) fval in                                             (* :41 *)
    let J0   := repeat None nx in                                        (* :44 *)
    match K with
    | 1 =>
        let r := fold_left (k1_arg f fval) (seq 0 (length xnc)) (xnc, 0, []) in   (* :47-68 *)
        mkOut fval (Some (JNum (apply_J (snd r) J0))) None (fst (fst r))          (* :70 *)
    | _ =>
        let H0 := repeat (repeat None (nx * ny)) nx in                   (* :76 *)
        (* :79  J = dr_numerical<1>(f, x_nc).second;  the nested call receives the lvalue tuple x_nc: its reference
           members are perturbed and restored in place, its value members (copies of const arguments) are copied
           once more - either way the nested K = 1 loops run on the current argument values, write every column
           of a J of the same shape (which is then assigned to this J) and hand x_nc back as they restore it.
           [f] is a function in the model, so the nested routine's own [fval = f x_nc] is this [fval].
           (before 41b038a this line did not exist: no K = 1 pass) *)
        let r1 := if (fix_k2jac o) then fold_left (k1_arg f fval) (seq 0 (length xnc)) (xnc, 0, [])
                  else (xnc, 0, []) in
        let r := fold_left (k2_i0 f fval (length xnc) nx ny) (seq 0 (length xnc))
                           (fst (fst r1), 0, snd r1, []) in              (* :81-132 *)
        mkOut fval (Some (JNum (apply_J (snd (fst r)) J0))) (Some (HNum (apply_H (snd r) H0)))
              (fst (fst (fst r)))                                        (* :134 *)
    end.

  (** ** dispatch (:153-226).  Autodiff / Ceres are compiled out in this build (no SMOOTH_DIFF_* macro):
      selecting them is a static_assert failure, modelled as [None] like every ill-formed call. *)
  Inductive Mode := Numerical | Analytic | Default.
  Record Callable := mkCallable {
    c_f : list X -> Y;
    c_jac : option (list X -> JT);       (* member function jacobian, if any *)
    c_hess : option (list X -> HT) }.    (* member function hessian, if any *)

  Definition dr_analytic (K : nat) (c : Callable) (x : list X) : option Out :=
    match K, c_jac c, c_hess c with
    | 1, Some jac, _ => Some (mkOut (c_f c x) (Some (JUser (jac x))) None x)                (* :191-195 *)
    | 2, Some jac, Some hess =>
        Some (mkOut (c_f c x) (Some (JUser (jac x))) (Some (HUser (hess x))) x)             (* :196-203 *)
    | _, _, _ => None
    end.

  Definition dr (K : nat) (m : Mode) (c : Callable) (x : list X) : option Out :=
    match K with
    | 0 => Some (mkOut (c_f c x) None None x)                                               (* :159-162 *)
    | 1 | 2 =>
        match m with
        | Numerical => Some (dr_numerical K (c_f c) x)                                      (* :164-167 *)
        | Analytic => dr_analytic K c x                                                     (* :188-203 *)
        | Default =>                                                                        (* :205-225 *)
            match K, c_jac c, c_hess c with
            | 1, Some _, _ => dr_analytic K c x                                             (* :209-210 *)
            | 2, Some _, Some _ => dr_analytic K c x                                        (* :211-212 *)
            | _, _, _ => Some (dr_numerical K (c_f c) x)                                    (* :213-224 *)
            end
        end
    | _ => None
    end.

  (** ** index-subset overload (:228-245) *)
  Definition scatter (idx : list nat) (red full : list X) : list X :=
    fold_left (fun acc p => upd (fst p) (snd p) acc) (combine idx red) full.                (* :238 *)

  Definition dr_idx (K : nat) (m : Mode) (c : Callable) (x : list X) (idx : list nat) : option Out :=
    let fw := mkCallable (fun red => c_f c (scatter idx red x)) None None in                (* :232-241 *)
    let xred := map (fun i => getx i x) idx in                                              (* :243 *)
    match dr K m fw xred with                                                               (* :244 *)
    | Some o => Some (mkOut (o_val o) (o_J o) (o_H o) (scatter idx (o_args o) x))
    | None => None
    end.

  (** what the caller's own objects hold after the call: const-reference arguments were copied *)
  Definition caller_view (consts : list bool) (x0 xfinal : list X) : list X :=
    map (fun p : bool * (X * X) => if fst p then fst (snd p) else snd (snd p))
        (combine consts (combine x0 xfinal)).

  (** ** closed forms the theorems relate the grids to *)
  Definition offset (x : list X) (i : nat) : nat := sum_dof (firstn i x).
  Definition pert (x : list X) (i j : nat) (h : S) : list X := bump i ((dofX o) (getx i x)) j h x.
  Definition quot1 (e : S) (f : list X -> Y) (x : list X) (i j : nat) : list S :=
    let h := step e (getx i x) j in
    map (fun d => (sdiv o) d h) ((rminus o) (f (pert x i j h)) (f x)).
  Definition quot2 (f : list X -> Y) (x : list X) (i0 k0 i1 k1 : nat) : list S :=
    let h0 := step (sqrteps o) (getx i0 x) k0 in
    let h1 := step (sqrteps o) (getx i1 x) k1 in
    let x1 := pert x i1 k1 h1 in
    let x11 := bump i0 ((dofX o) (getx i0 x)) k0 h0 x1 in
    map (fun p => (sdiv o) ((sdiv o) ((ssub o) (fst p) (snd p)) h0) h1)
        (combine ((rminus o) (f x11) (f x1)) ((rminus o) (f (pert x i0 k0 h0)) (f x))).
End DiffModel.

(** * Executable instance over Q: translation-like arguments (Eigen vectors, scalars, std::vector,
      Bundles of those), result = vector, f = polynomial map of degree <= 2 *)
From Coq Require Import ZArith QArith Qabs Qreduction.

Record QArg := mkQArg { qa_vec : bool; qa_coords : list Q }.

Fixpoint qmap2 (op : Q -> Q -> Q) (a b : list Q) : list Q :=
  match a, b with
  | x :: a', y :: b' => Qred (op x y) :: qmap2 op a' b'
  | _, _ => []
  end.

Definition q_rplus (a : QArg) (t : list Q) : QArg := mkQArg (qa_vec a) (qmap2 Qplus (qa_coords a) t).
Definition q_rminus (a b : list Q) : list Q := qmap2 Qminus a b.
Definition q_is0 (a : Q) : bool := Qeq_bool a 0.
Definition q_mul (a b : Q) := Qred (a * b).
Definition q_div (a b : Q) := Qred (a / b).
Definition q_sub (a b : Q) := Qred (a - b).
Definition q_dflt := mkQArg false [].

Definition q_dot (a b : list Q) : Q :=
  fold_left (fun s p => Qred (s + fst p * snd p)) (combine a b) 0.

(** y_j = c_j + sum_a L_ja z_a + sum_a sum_b Q_jab z_a z_b,  z = concatenated coordinates *)
Record Poly := mkPoly { p_const : list Q; p_lin : list (list Q); p_quad : list (list (list Q)) }.
Definition poly_eval (p : Poly) (xs : list QArg) : list Q :=
  let z := flat_map qa_coords xs in
  map (fun cq => Qred (fst (fst cq) + q_dot (snd (fst cq)) z
                       + q_dot (map (fun row => q_dot row z) (snd cq)) z))
      (combine (combine (p_const p) (p_lin p)) (p_quad p)).

Definition q_eps : Q := 1 # (2 ^ 26).       (* sqrt(2^-52), exact in binary64 *)
Definition q_sqrteps : Q := 1 # (2 ^ 13).   (* sqrt(2^-26), exact in binary64 *)

(** the code as it is now: both repairs are in /repo (59fd5d3 restore from a saved copy, 41b038a K = 2 Jacobian from
    the K = 1 routine).  scripts/props_C08.py reads these two lines; the correspondence run compares [q_ops]
    (these flags) with the real diff::dr every time, so a tree without one of the repairs is reported. *)
Definition c08_fix_restore : bool := true.
Definition c08_fix_k2jac : bool := true.

Definition q_ops : Ops Q QArg (list Q) :=
  mkOps 0 q_mul q_div q_sub Qopp Qabs q_is0
        (fun a => length (qa_coords a)) qa_vec (fun a j => nth j (qa_coords a) 0) q_rplus
        (@length Q) q_rminus q_dflt q_eps q_sqrteps c08_fix_restore c08_fix_k2jac.

Definition q_callable (p : Poly) : Callable QArg (list Q) unit unit :=
  mkCallable (poly_eval p) None None.

Definition q_dr (K : nat) (p : Poly) (x : list QArg) := dr q_ops K Numerical (q_callable p) x.

Definition q_dr_idx (K : nat) (p : Poly) (x : list QArg) (idx : list nat) :=
  dr_idx q_ops K Numerical (q_callable p) x idx.
