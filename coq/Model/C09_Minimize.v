(* C09 executable model, part 2: the loop of smooth::minimize (/repo/include/smooth/optim.hpp:63-173),
   one [step] per loop iteration, transcribed line by line.  Everything numerical that the loop body computes
   (residual norm, trust-region step, actual/predicted reduction, rho, scaled step norm) enters through an
   ORACLE record, one per iteration; the control flow (strategy call, accept/reject, callback, convergence
   tests, loop bound, status selection) is the model.  No proofs in this file. *)
From Coq Require Import QArith Qabs Bool List ZArith.
From SV Require Import Model.C09_TrStrategy.
Import ListNotations.
Local Open Scope Q_scope.

(* MinimizeOptions (optim.hpp:26-38) without [verbose]; the strategy object is a separate argument *)
Record options : Type := { ptol : Q; ftol : Q; max_iter : nat }.

(* SolveResult::Status (optim.hpp:42) *)
Inductive status : Type := Ftol | Ptol | MaxIters.

(* numerical sub-results of ONE loop iteration, as the doubles the code holds (X = type of iterates) *)
Record oracle (X : Type) : Type := {
  o_rn_zero : bool;   (* r_n == 0                                   optim.hpp:100,139 *)
  o_actu : xq;        (* actu_red = 1 - (|f(xp)| / r_n)^2           optim.hpp:101 *)
  o_pred : xq;        (* pred_red = 1 - (|r + J dx| / r_n)^2        optim.hpp:102 *)
  o_rho : xq;         (* rho = actu_red / pred_red                  optim.hpp:103 *)
  o_dnorm : xq;       (* (d .* dx).stableNorm()                     optim.hpp:149 *)
  o_n : Z;            (* dx.size()                                  optim.hpp:149 *)
  o_xp : X;           (* xp = x (+) dx                              optim.hpp:97 *)
  o_cost_new : Q      (* |f(xp)|^2, the cost of xp (only reported, never branched on) *)
}.
Arguments o_rn_zero {X}. Arguments o_actu {X}. Arguments o_pred {X}. Arguments o_rho {X}.
Arguments o_dnorm {X}. Arguments o_n {X}. Arguments o_xp {X}. Arguments o_cost_new {X}.

(* what one iteration did: the Delta it asked the strategy for, the strategy's answer, whether x was replaced
   (and the callback run), the outcome of the convergence tests *)
Record event : Type := { e_delta : Q; e_take : bool; e_stepped : bool; e_conv : option status }.

Section Loop.
  Context {S X : Type}.
  Variable strat : strategy S.
  Variable opts : options.
  (* [fixed = true]: the code as it is since /repo commit 16638da (notes/C09-zero-residual.patch applied: a zero residual
     norm counts as Ftol convergence, the disjunct [r_n == 0 ||] of optim.hpp:147).  [fixed = false]: the code BEFORE that
     commit (finding C09-zero-residual-nan, now fixed); kept only for the historical lemma
     zero_residual_spin_refuted and for replaying a tree in which the fix has been reverted.  The model of the code
     that exists is [fixed := code_now], defined below the section. *)
  Variable fixed : bool.

  Record state : Type := {
    iter : nat;                 (* optim.hpp:69 *)
    cur : X;                    (* the arguments x (a tuple of references: the caller's variables) *)
    cost : Q;                   (* |f(cur)|^2 *)
    st : option status;         (* optim.hpp:67 *)
    sstate : S;                 (* the object behind opts.strat (shared_ptr: survives the call) *)
    cbs : list (X * Q);         (* callback invocations, most recent first *)
    evs : list event            (* per-iteration events, most recent first *)
  }.

  (* optim.hpp:147-151 *)
  Definition conv_test (oc : oracle X) : option status :=
    if (fixed && o_rn_zero oc)                                                (* :147 r_n == 0 || (since 16638da) *)
       || (xltb (xabs (o_actu oc)) (Fin (ftol opts)) && xltb (o_pred oc) (Fin (ftol opts))
           && xleb (o_rho oc) (Fin 2))                                        (* :147 *)
    then Some Ftol                                                            (* :148 *)
    else if xltb (o_dnorm oc) (Fin (ptol opts * inject_Z (o_n oc)))           (* :149 *)
    then Some Ptol                                                            (* :150 *)
    else None.

  (* optim.hpp:139 *)
  Definition accept (oc : oracle X) (take : bool) : bool :=
    o_rn_zero oc || xleb (o_pred oc) (Fin 0) || take.

  (* body of the for loop, optim.hpp:74-153, including the ++iter of the loop header *)
  Definition step (oc : oracle X) (s : state) : state :=
    let Delta := get_delta strat (sstate s) in                                (* :95 *)
    let '(take, ss') := step_and_update strat (sstate s) (o_rho oc) in        (* :106 *)
    if accept oc take                                                         (* :139 *)
    then
      let conv := conv_test oc in                                             (* :147-151 *)
      {| iter := Datatypes.S (iter s);                                        (* :74 ++iter *)
         cur := o_xp oc;                                                      (* :140 *)
         cost := o_cost_new oc;
         st := conv;
         sstate := ss';
         cbs := (o_xp oc, o_cost_new oc) :: cbs s;                            (* :143 *)
         evs := {| e_delta := Delta; e_take := take; e_stepped := true; e_conv := conv |} :: evs s |}
    else
      {| iter := Datatypes.S (iter s);
         cur := cur s;
         cost := cost s;
         st := st s;
         sstate := ss';
         cbs := cbs s;
         evs := {| e_delta := Delta; e_take := take; e_stepped := false; e_conv := None |} :: evs s |}.

  (* for (; iter < opts.max_iter && !status.has_value(); ++iter)   optim.hpp:74
     [k] is max_iter - iter (structural recursion); [orc i] is the oracle of iteration i *)
  Fixpoint loop (orc : nat -> oracle X) (k : nat) (s : state) : state :=
    match k with
    | O => s                                       (* iter < max_iter is false *)
    | Datatypes.S k' =>
      match st s with
      | Some _ => s                                (* !status.has_value() is false *)
      | None => loop orc k' (step (orc (iter s)) s)
      end
    end.

  (* optim.hpp:67-72: status empty, iter = 0, callback on the initial value *)
  Definition init (x0 : X) (c0 : Q) (s0 : S) : state :=
    {| iter := 0; cur := x0; cost := c0; st := None; sstate := s0; cbs := [(x0, c0)]; evs := [] |}.

  Definition run (orc : nat -> oracle X) (x0 : X) (c0 : Q) (s0 : S) : state :=
    loop orc (max_iter opts) (init x0 c0 s0).

  (* optim.hpp:168-172 *)
  Definition result_status (s : state) : status :=
    match st s with Some v => v | None => MaxIters end.                       (* :169 value_or *)
  Definition result_iter (s : state) : nat := iter s.                         (* :170 *)
End Loop.

Arguments state : clear implicits.

(* THE CODE THAT EXISTS: /repo contains commit 16638da, optim.hpp:147 reads
     if (r_n == 0 || (std::abs(actu_red) < opts.ftol && pred_red < opts.ftol && rho <= 2.))
   so the model of the current code is the section above with [fixed := code_now].  The property theorems
   (Props/Properties_C09.v) are stated for this instance, and the replay driver uses this constant unless told
   otherwise (extract/C09/driver.ml). *)
Definition code_now : bool := true.

(* ---- replay entry points used by the extracted driver: the oracle sequence is a finite list; reading past its
   end yields [dummy] (the driver compares the iteration count with the list length, so this is detected) *)
Definition dummy_oracle : oracle Z :=
  {| o_rn_zero := false; o_actu := NaN; o_pred := NaN; o_rho := NaN; o_dnorm := NaN; o_n := 0%Z; o_xp := (-1)%Z;
     o_cost_new := 0 |}.

Definition orc_of_list (l : list (oracle Z)) (i : nat) : oracle Z := nth i l dummy_oracle.

Definition replay_ceres (o : options) (fixed : bool) (l : list (oracle Z)) (c0 : Q) (s0 : ceres_state)
  : state ceres_state Z := run ceres o fixed (orc_of_list l) 0%Z c0 s0.
Definition replay_disney (o : options) (fixed : bool) (l : list (oracle Z)) (c0 : Q) (s0 : Q)
  : state Q Z := run disney o fixed (orc_of_list l) 0%Z c0 s0.
Definition replay_scripted (o : options) (fixed : bool) (l : list (oracle Z)) (c0 : Q) (s0 : script)
  : state script Z := run scripted o fixed (orc_of_list l) 0%Z c0 s0.
