(* C09 executable model, part 1: extended rationals (the values a C++ double can hold, exactly) and the two
   trust-region strategies of /repo/include/smooth/optim/tr_strategy.hpp, transcribed line by line.
   No proofs in this file (AGENT_GUIDE: Model files stay runnable when a proof breaks). *)
From Coq Require Import QArith Qabs Bool List ZArith.
Import ListNotations.
Local Open Scope Q_scope.

(* ---- values of a binary64 variable: a finite number (an exact dyadic rational, embedded in Q), +inf, -inf or
   NaN.  Comparisons follow IEEE-754: every ordered comparison with a NaN operand is false. *)
Inductive xq : Type := Fin (q : Q) | PInf | NInf | NaN.

Definition Qltb (a b : Q) : bool := negb (Qle_bool b a).

(* a < b *)
Definition xltb (a b : xq) : bool :=
  match a, b with
  | NaN, _ | _, NaN => false
  | Fin x, Fin y => Qltb x y
  | Fin _, PInf => true
  | NInf, Fin _ => true
  | NInf, PInf => true
  | _, _ => false
  end.

(* a <= b *)
Definition xleb (a b : xq) : bool :=
  match a, b with
  | NaN, _ | _, NaN => false
  | Fin x, Fin y => Qle_bool x y
  | NInf, _ => true
  | _, PInf => true
  | _, _ => false
  end.

(* std::abs *)
Definition xabs (a : xq) : xq :=
  match a with
  | Fin x => Fin (Qabs x)
  | PInf | NInf => PInf
  | NaN => NaN
  end.

(* std::max(a, b) = (a < b) ? b : a *)
Definition Qmax' (a b : Q) : Q := if Qltb a b then b else a.

(* ---- literals of tr_strategy.hpp as the exact values of the binary64 constants the compiler emits *)
Definition c_1em3 : Q := 1152921504606847 # 1152921504606846976.   (* 1e-3  (tr_strategy.hpp:32) *)
Definition c_third : Q := 6004799503160661 # 18014398509481984.     (* 1. / 3 (tr_strategy.hpp:34) *)

(* ---- a strategy object: state type S, get_delta, step_and_update (tr_strategy.hpp:11-19) *)
Record strategy (S : Type) : Type := {
  get_delta : S -> Q;
  step_and_update : S -> xq -> bool * S
}.
Arguments get_delta {S}.
Arguments step_and_update {S}.

(* ---- CeresStrategy (tr_strategy.hpp:26-47) *)
Record ceres_state : Type := { c_delta : Q; c_reduce : Q }.

Definition ceres_init : ceres_state := {| c_delta := 10000; c_reduce := 2 |}.   (* :45-46 *)

(* divisor of m_delta on an accepted step (:33-34).  For rho = +inf the double computation gives
   2*inf-1 = inf, inf^3 = inf, 1-inf = -inf, max(1/3,-inf) = 1/3. rho = -inf / NaN never reach this branch. *)
Definition ceres_divisor (rho : xq) : Q :=
  match rho with
  | Fin r => let t := 2 * r - 1 in Qmax' c_third (1 - t * t * t)
  | _ => c_third
  end.

Definition ceres_step (s : ceres_state) (rho : xq) : bool * ceres_state :=
  if xltb (Fin c_1em3) rho                                                    (* :32 *)
  then (true, {| c_delta := Qred (c_delta s / ceres_divisor rho);             (* :34 *)
                 c_reduce := 2 |})                                            (* :35-36 *)
  else (false, {| c_delta := Qred (c_delta s / c_reduce s);                   (* :38 *)
                  c_reduce := Qred (c_reduce s * 2) |}).                      (* :39-40 *)

Definition ceres : strategy ceres_state :=
  {| get_delta := c_delta; step_and_update := ceres_step |}.                  (* :29 *)

(* ---- DisneyStrategy (tr_strategy.hpp:54-72) *)
Definition disney_init : Q := 1000.                                           (* :71 *)

Definition disney_step (d : Q) (rho : xq) : bool * Q :=
  if xltb (Fin 0) rho                                                         (* :61 *)
  then (true, 1000)                                                           (* :62-63 *)
  else (false, Qred (d / 10)).                                                (* :65-66 *)

Definition disney : strategy Q :=
  {| get_delta := fun d => d; step_and_update := disney_step |}.              (* :57 *)

(* ---- a user-supplied strategy (any subclass of TrustRegionStrategy): a script of (take_step, Delta) pairs,
   used by the correspondence harness to drive minimize through arbitrary accept/reject patterns. *)
Definition script := list (bool * Q).

Definition script_delta (s : script) : Q :=
  match s with (_, d) :: _ => d | [] => 1 end.

Definition script_step (s : script) (_ : xq) : bool * script :=
  match s with (b, _) :: s' => (b, s') | [] => (false, []) end.

Definition scripted : strategy script :=
  {| get_delta := script_delta; step_and_update := script_step |}.
