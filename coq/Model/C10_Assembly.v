(* C10 - executable model over Q of the smooth-authored part of
     /repo/include/smooth/optim/tr_solver.hpp  (solve_linear_ldlt :47-81, solve_trust_region :131-141)
     /repo/include/smooth/detail/math.hpp      (colwise_norm :28-46, fpow :14-21)
   Eigen's LDLT / SimplicialLDLT factor-and-solve is the Section variable [solve]; an exact Gaussian
   elimination [gauss_solve] is the executable instance.  No proofs in this file.

   Conventions: a dense matrix is the list of its rows; out-of-range reads give 0.  Square roots are not
   taken: where the code takes sqrt the model returns the radicand (documented at each place).
   [Qred] only normalises fractions (Qred q == q). *)
From Coq Require Import List QArith Arith Bool.
Import ListNotations.
Open Scope Q_scope.

Fixpoint sumQ (n : nat) (f : nat -> Q) : Q :=
  match n with O => 0 | S k => Qred (sumQ k f + f k) end.
Definition tab {A} (n : nat) (f : nat -> A) : list A := map f (seq 0 n).
Definition vnth (v : list Q) (j : nat) : Q := nth j v 0.
Definition mnth (M : list (list Q)) (i j : nat) : Q := nth j (nth i M nil) 0.

Fixpoint upd {A} (l : list A) (i : nat) (v : A) : list A :=
  match l, i with
  | nil, _ => nil
  | _ :: t, O => v :: t
  | h :: t, S i' => h :: upd t i' v
  end.
Definition mupd (M : list (list Q)) (i j : nat) (v : Q) : list (list Q) :=
  upd M i (upd (nth i M nil) j v).

(* tr_solver.hpp:67   Ht H = J.transpose() * J;          (J is m x n, H is n x n) *)
Definition JtJ (m n : nat) (J : list (list Q)) : list (list Q) :=
  tab n (fun k => tab n (fun j => sumQ m (fun i => mnth J i k * mnth J i j))).

(* tr_solver.hpp:68   for (i = 0; i < H.rows(); ++i) H.coeffRef(i, i) += lambda * d(i) * d(i); *)
Definition diag_update (n : nat) (lam : Q) (d : list Q) (H : list (list Q)) : list (list Q) :=
  fold_left (fun H i => mupd H i i (Qred (mnth H i i + lam * vnth d i * vnth d i))) (seq 0 n) H.

(* tr_solver.hpp:71   the right-hand side  -J.transpose() * r *)
Definition rhs (m n : nat) (J : list (list Q)) (r : list Q) : list Q :=
  tab n (fun k => sumQ m (fun i => (- mnth J i k) * vnth r i)).

Definition assemble_H (m n : nat) (J : list (list Q)) (d : list Q) (lam : Q) : list (list Q) :=
  diag_update n lam d (JtJ m n J).

(* result of solve_linear_ldlt: x, and for the optional output dphi the pair (numerator, radicand):
   dphi = num / sqrt(sq) when sq > 0, dphi = num otherwise (Eigen's normalized() returns its argument
   unchanged when the squared norm is not positive). *)
Record sll_out := { out_x : list Q; out_dphi_num : Q; out_dphi_sq : Q; out_y : list Q }.

Section WithSolve.
(* Eigen: LDLTt ldlt(H); ldlt.solve(b)   (tr_solver.hpp:70,71,76) *)
Variable solve : list (list Q) -> list Q -> list Q.

Definition solve_linear_ldlt (m n : nat) (J : list (list Q)) (d r : list Q) (lam : Q) : sll_out :=
  let H := assemble_H m n J d lam in                                   (* :67-68 *)
  let x := solve H (rhs m n J r) in                                    (* :70-71 *)
  (* :73-78, computed always; the caller ignores it when dphi was not requested *)
  let Dx := tab n (fun j => - (vnth d j * vnth x j)) in                (* :74  -d.cwiseProduct(x) *)
  let d_q := tab n (fun j => vnth d j * vnth Dx j) in                  (* :75 *)
  let y := solve H d_q in                                              (* :76 *)
  let sq := sumQ n (fun j => vnth Dx j * vnth Dx j) in                 (* Dx.squaredNorm() *)
  let num := - sumQ n (fun j => vnth d j * vnth Dx j * vnth y j) in    (* :77 without the 1/|Dx| *)
  {| out_x := x; out_dphi_num := num; out_dphi_sq := sq; out_y := y |}.

(* tr_solver.hpp:136-140 *)
Definition solve_trust_region (m n : nat) (J : list (list Q)) (d r : list Q) (Delta : Q) : list Q * Q :=
  let lambda := 1 / Delta in
  let dx := out_x (solve_linear_ldlt m n J d r lambda) in
  (dx, lambda).
End WithSolve.

(* ---- colwise_norm (math.hpp:28-46): the model returns the squared norms ---------------------- *)
(* dense branch :42  ret = M.colwise().norm() *)
Definition colwise_sqnorm_dense (m n : nat) (M : list (list Q)) : list Q :=
  tab n (fun j => sumQ m (fun i => mnth M i j * mnth M i j)).

(* sparse branch :36-39; a sparse matrix is, per outer index, the list of stored (row, col, value);
   fpow<2>(v) = 1 * v * v (math.hpp:18) *)
Definition sp_entry := (nat * nat * Q)%type.
Definition colwise_sqnorm_sparse (n : nat) (M : list (list sp_entry)) : list Q :=
  fold_left (fun ret outer =>
     fold_left (fun ret (e : sp_entry) =>
        let '(_, c, v) := e in upd ret c (Qred (vnth ret c + 1 * v * v))) outer ret)
    M (repeat 0 n).

(* compressed column storage of a dense matrix, zero entries dropped *)
Definition to_sparse (m n : nat) (M : list (list Q)) : list (list sp_entry) :=
  tab n (fun j => filter (fun e : sp_entry => negb (Qeq_bool (snd e) 0))
                    (tab m (fun i => (i, j, mnth M i j)))).

(* ---- executable instance of [solve]: Gauss-Jordan elimination over Q ---------------------------- *)
Definition qzero (q : Q) : bool := Qeq_bool q 0.

Fixpoint find_pivot (c : nat) (rows : list (list Q)) : option (list Q * list (list Q)) :=
  match rows with
  | nil => None
  | r :: t => if qzero (vnth r c)
              then match find_pivot c t with None => None | Some (p, rest) => Some (p, r :: rest) end
              else Some (r, t)
  end.

Definition row_elim (c : nat) (p r : list Q) : list Q :=
  let f := vnth r c in map (fun ab => Qred (snd ab - f * fst ab)) (combine p r).

Fixpoint gj (cols : list nat) (done rest : list (list Q)) : option (list (list Q)) :=
  match cols with
  | nil => Some done
  | c :: cs =>
      match find_pivot c rest with
      | None => None
      | Some (p, rest') =>
          let pc := vnth p c in
          let p' := map (fun a => Qred (a / pc)) p in
          gj cs (map (row_elim c p') done ++ [p']) (map (row_elim c p') rest')
      end
  end.

Definition gauss_solve (H : list (list Q)) (b : list Q) : list Q :=
  let n := length b in
  let aug := map (fun rb => fst rb ++ [snd rb]) (combine H b) in
  match gj (seq 0 n) nil aug with
  | Some rows => map (fun r => vnth r n) rows
  | None => repeat 0 n
  end.

(* ---- certificate check: does x solve H x = b exactly? ------------------------------------------- *)
Definition check_sol (n : nat) (H : list (list Q)) (b x : list Q) : bool :=
  forallb (fun k => Qeq_bool (sumQ n (fun j => mnth H k j * vnth x j)) (vnth b k)) (seq 0 n).

(* both solves of one solve_linear_ldlt call are certified *)
Definition sll_certified (m n : nat) (J : list (list Q)) (d r : list Q) (lam : Q) (o : sll_out) : bool :=
  let H := assemble_H m n J d lam in
  let Dx := tab n (fun j => - (vnth d j * vnth (out_x o) j)) in
  let d_q := tab n (fun j => vnth d j * vnth Dx j) in
  check_sol n H (rhs m n J r) (out_x o) && check_sol n H d_q (out_y o).

Definition sll_exact := solve_linear_ldlt gauss_solve.
Definition str_exact := solve_trust_region gauss_solve.
