(** C12 -- executable instance of Model/C12_SplineBook.v: G = tangent = Qc x Qc (canonical rationals, the
    translation group R^2 restricted to rationals, Leibniz equality), segments = cumulative Bernstein
    polynomials.  This is what the correspondence run executes (extracted to OCaml) against
    Spline<K, Eigen::Vector2d>, K = 1..5.  NO proofs in this file. *)
From Coq Require Import List QArith Qcanon ZArith Bool Arith.
From SV Require Import Model.C12_SplineBook.
Import ListNotations.
Open Scope Q_scope.

Definition V2 : Type := (Qc * Qc)%type.
Definition vadd (a b : V2) : V2 := (Qcplus (fst a) (fst b), Qcplus (snd a) (snd b)).
Definition vneg (a : V2) : V2 := (Qcopp (fst a), Qcopp (snd a)).
Definition vzero : V2 := (Q2Qc 0, Q2Qc 0).
Definition vsmul (c : Q) (a : V2) : V2 := (Qcmult (Q2Qc c) (fst a), Qcmult (Q2Qc c) (snd a)).
Definition vid (a : V2) : V2 := a.                       (* exp = log = identity on a vector space *)

(* sum_j p_j(u) * V_j, accumulated left to right like the loop of cspline_eval_vs
   (cumulative_spline_impl.hpp:39-43: g = composition(g, exp(Bj * vj))) *)
Definition lin (ps : list (list Q)) (V : list V2) (u : Q) : V2 :=
  fold_left vadd (zipw (fun p v => vsmul (peval p u) v) ps V) vzero.

Definition basis (k : nat) : list (list Q) := tl (bcum_poly k).           (* B~_1 .. B~_K *)
Definition inst_seg (V : list V2) (u : Q) : V2 := lin (basis (length V)) V u.
(* derivative outputs of cspline_eval_vs on a commutative group (Ad = identity, ad = 0):
   vel = sum_j B~_j'(u) v_j, acc = sum_j B~_j''(u) v_j; scaled in operator() by r and r*r (spline_impl.hpp:272-273) *)
Definition inst_vel (V : list V2) (u r : Q) : V2 := vsmul r (lin (map pderiv (basis (length V))) V u).
Definition inst_acc (V : list V2) (u r : Q) : V2 :=
  vsmul (r * r) (lin (map (fun p => pderiv (pderiv p)) (basis (length V))) V u).

Definition ispline : Type := spline V2 V2.

Definition i_empty (ga : V2) : ispline := mk_empty V2 V2 ga.
Definition i_new (T : Q) (V : list V2) (ga : V2) : ispline := mk_seg V2 vadd V2 inst_seg T V ga.
Definition i_cv (K : nat) (fl : flags) (v : V2) (T : Q) (ga : V2) : ispline :=
  constant_velocity V2 vadd vzero V2 vsmul inst_seg K fl v T ga.
Definition i_fc (gb va vb : V2) (T : Q) (ga : V2) : ispline :=
  fixed_cubic V2 vadd vneg V2 vsmul vneg vid vid inst_seg gb va vb T ga.
Definition i_make_local (fl : flags) (s : ispline) : ispline := make_local V2 vadd vneg vzero V2 fl s.
Definition i_cg (s o : ispline) : ispline := concat_global V2 V2 s o.
Definition i_cl (s o : ispline) : ispline := concat_local V2 vadd V2 s o.
Definition i_crop (fl : flags) (s : ispline) (ta tb : Q) (loc : bool) : ispline :=
  crop V2 vadd vneg vzero V2 inst_seg fl s ta tb loc.
Definition i_crop_div0 (fl : flags) (s : ispline) (ta tb : Q) : bool := crop_div0 V2 V2 fl s ta tb.

(* value, velocity, acceleration *)
Definition i_eval (s : ispline) (t : Q) : V2 * V2 * V2 :=
  match eval_full V2 vadd vneg vzero V2 inst_seg s t with
  | (g, None) => (g, vzero, vzero)
  | (g, Some (V, u, r)) => (g, inst_vel V u r, inst_acc V u r)
  end.

(* size(), t_max(), start(), end() *)
Definition i_obs (s : ispline) : nat * Q * V2 * V2 := (size V2 V2 s, tmax V2 V2 s, g0 s, end_ V2 V2 s).

(* arclength bookkeeping: for every integrated part (ua, ub) and the two coordinate polynomials
   d/du sum_j B~_j(u) V_j  (coefficient lists, lowest degree first) *)
Definition lin_poly (ps : list (list Q)) (cs : list Q) : list Q :=
  fold_left padd (zipw pscale cs ps) [].
Definition i_arc_parts (s : ispline) (t : Q) : list (Q * Q * list Q * list Q) :=
  map (fun p : nat * Q * Q =>
         let '(i, ua, ub) := p in
         let V := nth i (Vs s) [] in
         (ua, ub,
          pderiv (lin_poly (basis (length V)) (map (fun v : V2 => this (fst v)) V)),
          pderiv (lin_poly (basis (length V)) (map (fun v : V2 => this (snd v)) V))))
      (arclength_parts V2 V2 (size V2 V2 s) 0 s t).

Definition mkV2 (a b : Q) : V2 := (Q2Qc a, Q2Qc b).
Definition v2x (v : V2) : Q := this (fst v).
Definition v2y (v : V2) : Q := this (snd v).
