(** C12 -- executable model of smooth::Spline<K,G> bookkeeping.

    Transcribed line by line from
      /repo/include/smooth/spline/spline.hpp                (state: lines 250-265)
      /repo/include/smooth/spline/detail/spline_impl.hpp    (all member functions)
      /repo/include/smooth/detail/utils.hpp:42-81           (binary_interval_search)
    Times are exact rationals (Q); the group (G, op, inv, e), the tangent type and the segment evaluator
    [seg] (= cspline_eval_vs<K,G>(V, kMappedBasisFunction<K>, u)) are Section variables.
    NO proofs in this file.

    The record [flags] selects, defect by defect, between the behaviour of the tree as it is (flag = false)
    and the behaviour after the proposed repair notes/C12-*.patch (flag = true).  The correspondence run
    detects the value of each flag from the real code and compares the code against the model with those
    flags; the property theorems are proved for the repaired behaviour, [_refuted] theorems for the current. *)
From Coq Require Import List QArith Qround ZArith Bool Arith Qcanon.
Import ListNotations.
Open Scope Q_scope.

(* ------------------------------------------------------------------ small helpers *)
Definition Qltb (a b : Q) : bool := negb (Qle_bool b a).          (* a < b *)
Definition qnth (l : list Q) (i : nat) : Q := nth i l 0.
Definition qmax (a b : Q) : Q := if Qltb a b then b else a.         (* std::max(a,b) = (a<b) ? b : a *)
Definition qmin (a b : Q) : Q := if Qltb b a then b else a.         (* std::min(a,b) = (b<a) ? b : a *)
Definition qclamp (v lo hi : Q) : Q := if Qltb v lo then lo else if Qltb hi v then hi else v.  (* std::clamp *)

Fixpoint upd {A : Type} (i : nat) (f : A -> A) (l : list A) : list A :=
  match l, i with
  | [], _ => []
  | a :: l', O => f a :: l'
  | a :: l', S j => a :: upd j f l'
  end.

Definition slice {A : Type} (i0 n : nat) (l : list A) : list A := firstn n (skipn i0 l).

Fixpoint zipw {A B C : Type} (f : A -> B -> C) (la : list A) (lb : list B) : list C :=
  match la, lb with
  | a :: la', b :: lb' => f a b :: zipw f la' lb'
  | _, _ => []
  end.

(* ------------------------------------------------------------------ polynomials / cumulative Bernstein basis *)
(* coefficient lists, lowest degree first *)
Fixpoint padd (p q : list Q) : list Q :=
  match p, q with
  | [], _ => q
  | _, [] => p
  | a :: p', b :: q' => (a + b) :: padd p' q'
  end.
Definition pscale (c : Q) (p : list Q) : list Q := map (Qmult c) p.
Definition pshift (p : list Q) : list Q := 0 :: p.
Fixpoint peval (p : list Q) (u : Q) : Q :=
  match p with
  | [] => 0
  | a :: p' => a + u * peval p' u
  end.
Fixpoint pderiv_aux (n : nat) (p : list Q) : list Q :=
  match p with
  | [] => []
  | a :: p' => (inject_Z (Z.of_nat n) * a) :: pderiv_aux (S n) p'
  end.
Definition pderiv (p : list Q) : list Q := match p with [] => [] | _ :: p' => pderiv_aux 1 p' end.

(* one de Casteljau step on cumulative functions:  X*a + (1-X)*b *)
Definition bstep (a b : list Q) : list Q := padd b (pshift (padd a (pscale (-1) b))).

(* [bcum_poly K] = [B~_0; ...; B~_K], the cumulative Bernstein basis of degree K
   (polynomial_cumulative_basis<Bernstein,K>: column j of the code's matrix holds the monomial coefficients of B~_j;
    B~_j = sum_{i>=j} C(K,i) u^i (1-u)^(K-i)).  Defined by the degree-raising recursion
    B~_{j,K+1} = u B~_{j-1,K} + (1-u) B~_{j,K}  with B~_{-1} = 1, B~_{K+1,K} = 0. *)
Fixpoint bcum_poly (K : nat) : list (list Q) :=
  match K with
  | O => [[1]]
  | S k => let p := bcum_poly k in zipw bstep ([1] :: p) (p ++ [[]])
  end.

(* ------------------------------------------------------------------ interpolating interval search, utils.hpp:42-81 *)
(* pivot choice, utils.hpp:60-65.  alpha*dist is truncated toward zero by static_cast<intptr_t>; on every
   reachable state alpha >= 0 so truncation = floor.  The double rounding of alpha*dist may choose a different
   pivot than the exact value; the search result does not depend on the pivot (Proofs/C12_Search.v: bis_spec
   holds for ANY pivot in [left, rght-2]), so the model is faithful in its result. *)
Definition pick (r : list Q) (t : Q) (left rght : nat) : nat :=
  let a := qnth r left in
  let b := qnth r (rght - 1) in
  let alpha := (t - a) / (b - a) in
  let dist := (rght - 1 - left)%nat in
  let n := Z.to_nat (Qfloor (alpha * inject_Z (Z.of_nat dist))) in
  Nat.min (left + n) (rght - 2).                 (* std::ranges::next(left, n, rght - 2) *)

(* the while loop, utils.hpp:58-74; fuel = length r is never exhausted (bis_loop_fuel) *)
Fixpoint bis_loop (fuel : nat) (r : list Q) (t : Q) (left rght pivot : nat) : nat :=
  match fuel with
  | O => pivot
  | S f =>
    if (left + 1 <? rght)%nat then
      let pivot := pick r t left rght in
      if Qle_bool (qnth r (S pivot)) t then bis_loop f r t (S pivot) rght pivot       (* wo( *next(pivot), t) <= 0 *)
      else if Qltb t (qnth r pivot) then bis_loop f r t left (S pivot) pivot          (* wo( *pivot, t) > 0 *)
      else pivot                                                                      (* break *)
    else pivot
  end.

(* None = r.end() *)
Definition bis (r : list Q) (t : Q) : option nat :=
  match r with
  | [] => None                                                           (* utils.hpp:50 empty *)
  | r0 :: _ =>
    if Qltb t r0 then None                                               (* utils.hpp:50  wo( *left, t) > 0 *)
    else if Qle_bool (last r 0) t then Some (length r - 1)%nat           (* utils.hpp:52  rght - 1 *)
    else Some (bis_loop (length r) r t 0 (length r) 0)
  end.

(* ------------------------------------------------------------------ repair flags *)
Record flags : Type := mkflags {
  fx_crop_idx : bool;      (* notes/C12-crop-index.patch : first/last segment re-parameterisation offset by i0 *)
  fx_crop_frame : bool;    (* notes/C12-crop-frame.patch : non-localised crop keeps end_g in the global frame *)
  fx_cv : bool;            (* notes/C12-constant-velocity.patch : T/K instead of T/3 *)
  fx_make_local : bool     (* notes/C12-make-local.patch : make_local moves end_g along with g0 *)
}.
Definition flags_fixed : flags := mkflags true true true true.
Definition flags_current : flags := mkflags false false false false.

Section SplineBook.
  Variable G : Type.
  Variable op : G -> G -> G.
  Variable inv : G -> G.
  Variable e : G.
  Variable tan : Type.                       (* Tangent<G> *)
  Variable smul : Q -> tan -> tan.           (* scalar * tangent *)
  Variable tneg : tan -> tan.
  Variable texp : tan -> G.                  (* smooth::exp<G> *)
  Variable tlog : G -> tan.                  (* smooth::log *)
  Variable tadd : tan -> tan -> tan.
  Variable tzero : tan.
  (* control velocities of one segment: the K columns of Eigen::Matrix<double, Dof, K> *)
  Definition ctrl : Type := list tan.
  Variable seg : ctrl -> Q -> G.             (* cspline_eval_vs<K,G>(V.colwise(), kMappedBasisFunction<K>, u) *)
  Variable absint : ctrl -> Q -> Q -> tan.   (* spline_impl.hpp:283,291-294: per coordinate k,
                                                integrate_absolute_polynomial(ua, ub, 3 c3k, 2 c2k, c1k) *)
  Variable K : nat.                          (* template parameter K (degree), K >= 1 *)
  Variable fl : flags.

  (* spline.hpp:250-265 *)
  Record spline : Type := mkspline {
    g0 : G;                  (* m_g0 *)
    end_t : list Q;          (* m_end_t *)
    end_g : list G;          (* m_end_g *)
    Vs : list ctrl;          (* m_Vs *)
    seg_T0 : list Q;         (* m_seg_T0 *)
    seg_Del : list Q         (* m_seg_Del *)
  }.

  Definition size (s : spline) : nat := length (end_t s).                (* spline_impl.hpp:98-102 *)
  Definition is_empty (s : spline) : bool := (size s =? 0)%nat.         (* :104-108 *)
  Definition tmax (s : spline) : Q := last (end_t s) 0.                 (* :126-131: empty -> 0, else back() *)
  Definition start_ (s : spline) : G := g0 s.                           (* :133-137 *)
  Definition end_ (s : spline) : G := last (end_g s) (g0 s).            (* :139-144: empty -> m_g0, else back() *)

  (* Spline(const G & ga), spline_impl.hpp:26-28 *)
  Definition mk_empty (ga : G) : spline := mkspline ga [] [] [] [] [].
  (* Spline(double T, V, ga), spline_impl.hpp:30-43 (and :52-69); assert(T > 0) *)
  Definition mk_seg (T : Q) (V : ctrl) (ga : G) : spline :=
    mkspline ga [T] [op ga (seg V 1)] [V] [0] [1].

  (* ConstantVelocity, spline_impl.hpp:75-84 *)
  Definition constant_velocity (v : tan) (T : Q) (ga : G) : spline :=
    if Qle_bool T 0 then mk_empty e                                      (* :78-79  return Spline() *)
    else
      let d := if fx_cv fl then inject_Z (Z.of_nat K) else 3 in          (* :81  (T / 3) *)
      mk_seg T (repeat (smul (T / d) v) K) ga.                           (* :81-82  v.replicate(1, K) *)

  (* FixedCubic (K == 3), spline_impl.hpp:86-96 *)
  Definition fixed_cubic (gb : G) (va vb : tan) (T : Q) (ga : G) : spline :=
    let V0 := smul (T / 3) va in                                         (* :92  T * va / 3 *)
    let V2 := smul (T / 3) vb in                                         (* :93 *)
    let V1 := tlog (op (op (texp (tneg V0)) (op (inv ga) gb)) (texp (tneg V2))) in   (* :94 *)
    mk_seg T [V0; V1; V2] ga.

  (* make_local, spline_impl.hpp:146-150 *)
  Definition make_local (s : spline) : spline :=
    if fx_make_local fl
    then mkspline e (end_t s) (map (op (inv (g0 s))) (end_g s)) (Vs s) (seg_T0 s) (seg_Del s)
    else mkspline e (end_t s) (end_g s) (Vs s) (seg_T0 s) (seg_Del s).   (* :149  m_g0 = Identity<G>() *)

  (* concat_global, spline_impl.hpp:152-181 *)
  Definition concat_global (s o : spline) : spline :=
    let N1 := size s in
    let tend := tmax s in                                                (* :158 *)
    let g0' := if is_empty s then g0 o else g0 s in                      (* :160-161 *)
    let eg := if is_empty s then end_g s
              else upd (N1 - 1) (fun _ => g0 o) (end_g s) in             (* :163  m_end_g[N1 - 1] = other.m_g0 *)
    mkspline g0'
      (end_t s ++ map (fun x => tend + x) (end_t o))                     (* :173 *)
      (eg ++ end_g o)                                                    (* :174 *)
      (Vs s ++ Vs o) (seg_T0 s ++ seg_T0 o) (seg_Del s ++ seg_Del o).    (* :175-177 *)

  (* concat_local, spline_impl.hpp:183-213; operator+= :215-219 *)
  Definition concat_local (s o : spline) : spline :=
    let N1 := size s in
    let tend := tmax s in                                                (* :189 *)
    let gend := end_ s in                                                (* :190 *)
    let g0' := if is_empty s then op (g0 s) (g0 o) else g0 s in          (* :192-193 *)
    let eg := if is_empty s then end_g s
              else upd (N1 - 1) (fun g => op g (g0 o)) (end_g s) in      (* :195  m_end_g.back() = back() * other.m_g0 *)
    mkspline g0'
      (end_t s ++ map (fun x => tend + x) (end_t o))                     (* :205 *)
      (eg ++ map (op gend) (end_g o))                                    (* :206 *)
      (Vs s ++ Vs o) (seg_T0 s ++ seg_T0 o) (seg_Del s ++ seg_Del o).    (* :207-209 *)

  (* find_idx, spline_impl.hpp:371-385 *)
  Definition find_idx (s : spline) (t : Q) : nat :=
    match bis (end_t s) t with
    | None => O                                                          (* it == end: istar stays 0 *)
    | Some i => Nat.min (i + 1) (length (end_t s) - 1)                   (* :381 *)
    end.

  Definition prev_t (s : spline) (i : nat) : Q :=                        (* istar == 0 ? 0 : m_end_t[istar - 1] *)
    match i with O => 0 | S j => qnth (end_t s) j end.
  Definition start_g (s : spline) (i : nat) : G :=                       (* istar == 0 ? m_g0 : m_end_g[istar - 1] *)
    match i with O => g0 s | S j => nth j (end_g s) e end.

  (* operator()(t, vel, acc), spline_impl.hpp:229-270, K >= 1.
     Result: the value, and the data that determines the derivative outputs:
       None            -> vel and acc are set to zero
       Some (V, u, r)  -> vel = r * vel_cspline(V,u),  acc = r*r * acc_cspline(V,u)   (r = Del/T, :266-267) *)
  Definition eval_full (s : spline) (t : Q) : G * option (ctrl * Q * Q) :=
    if is_empty s || Qltb t 0 then (g0 s, None)                          (* :233-236 *)
    else if Qltb (tmax s) t then (end_ s, None)                          (* :237-240  m_end_g.back() *)
    else
      let istar := find_idx s t in                                       (* :243 *)
      let ta := prev_t s istar in                                        (* :245 *)
      let T := qnth (end_t s) istar - ta in                              (* :246 *)
      let Del := qnth (seg_Del s) istar in                               (* :248 *)
      let T0 := qnth (seg_T0 s) istar in
      let u := qclamp (T0 + Del * (t - ta) / T) 0 1 in                   (* :249 *)
      let gs := start_g s istar in                                       (* :251 *)
      let V := nth istar (Vs s) [] in
      let gs := if Qltb 0 T0 then op gs (inv (seg V T0)) else gs in      (* :260-263 *)
      (op gs (seg V u), Some (V, u, Del / T)).                           (* :264-268 *)

  Definition eval (s : spline) (t : Q) : G := fst (eval_full s t).

  (* arclength (K == 3), spline_impl.hpp:272-298: the loop with its break, accumulator threaded *)
  Fixpoint arclength_loop (n i : nat) (s : spline) (t : Q) (ret : tan) : tan :=
    match n with
    | O => ret
    | S n' =>
      if (0 <? i)%nat && Qle_bool t (prev_t s i) then ret                (* :280  break *)
      else
        let ta := prev_t s i in                                          (* :285 *)
        let tb := qnth (end_t s) i in                                    (* :286 *)
        let ua := qnth (seg_T0 s) i in                                   (* :288 *)
        let ub := ua + qnth (seg_Del s) i * (qmin t tb - ta) / (tb - ta) in   (* :289 *)
        arclength_loop n' (S i) s t (tadd ret (absint (nth i (Vs s) []) ua ub))  (* :291-294 *)
    end.
  Definition arclength (s : spline) (t : Q) : tan := arclength_loop (size s) 0 s t tzero.
  (* the parts that are integrated: (segment index, ua, ub) -- observable used by the correspondence *)
  Fixpoint arclength_parts (n i : nat) (s : spline) (t : Q) : list (nat * Q * Q) :=
    match n with
    | O => []
    | S n' =>
      if (0 <? i)%nat && Qle_bool t (prev_t s i) then []
      else
        let ta := prev_t s i in
        let tb := qnth (end_t s) i in
        let ua := qnth (seg_T0 s) i in
        let ub := ua + qnth (seg_Del s) i * (qmin t tb - ta) / (tb - ta) in
        (i, ua, ub) :: arclength_parts n' (S i) s t
    end.

  (* crop, spline_impl.hpp:300-369 *)
  Definition crop_Nseg (s : spline) (ta tb : Q) : nat * nat :=           (* (i0, Nseg), ta tb already clamped *)
    let i0 := find_idx s ta in                                           (* :308 *)
    let Nseg := (find_idx s tb + 1 - i0)%nat in                          (* :309 *)
    let Nseg := if (2 <=? Nseg)%nat && Qeq_bool (qnth (end_t s) (i0 + Nseg - 2)) tb
                then (Nseg - 1)%nat else Nseg in                         (* :312 *)
    (i0, Nseg).

  (* the two divisors of the re-parameterisation blocks (:345-346 and :356-357) *)
  Definition crop_divisors (s : spline) (ta tb : Q) : Q * Q :=
    let '(i0, Nseg) := crop_Nseg s ta tb in
    let tta1 := if fx_crop_idx fl then prev_t s i0 else 0 in
    let ttb1 := qnth (end_t s) i0 in
    let off := if fx_crop_idx fl then i0 else O in
    let tta2 := if (Nseg =? 1)%nat then ta else qnth (end_t s) (off + Nseg - 2) in
    let ttb2 := qnth (end_t s) (off + Nseg - 1) in
    (ttb1 - tta1, ttb2 - tta2).

  Definition crop (s : spline) (ta tb : Q) (localize : bool) : spline :=
    let ta := qmax ta 0 in                                               (* :303 *)
    let tb := qmin tb (tmax s) in                                        (* :304 *)
    if Qle_bool tb ta then mk_empty e else                               (* :306 *)
    let '(i0, Nseg) := crop_Nseg s ta tb in
    if (Nseg =? 0)%nat then mk_empty e else                              (* :314 *)
    let ga := eval s ta in                                               (* :317 *)
    let gb := eval s tb in
    (* :328, :331  composition(inverse(ga), .); the frame repair keeps the global value when !localize *)
    let fr := fun g : G => if fx_crop_frame fl && negb localize then g else op (inv ga) g in
    (* copy loop :325-336 *)
    let et := map (fun x => x - ta) (slice i0 (Nseg - 1) (end_t s)) ++ [tb - ta] in       (* :330 / :327 *)
    let eg := map fr (slice i0 (Nseg - 1) (end_g s)) ++ [fr gb] in                        (* :331 / :328 *)
    let vs := slice i0 Nseg (Vs s) in                                                     (* :333 *)
    let T0s := slice i0 Nseg (seg_T0 s) in                                                (* :334 *)
    let Dels := slice i0 Nseg (seg_Del s) in                                              (* :335 *)
    (* crop first segment :338-347 *)
    let tta := if fx_crop_idx fl then prev_t s i0 else 0 in              (* :340  const double tta = 0 *)
    let ttb := qnth (end_t s) i0 in                                      (* :341 *)
    let sa := ta in
    let sb := ttb in
    let T0s := upd 0 (fun x => x + qnth Dels 0 * (sa - tta) / (ttb - tta)) T0s in         (* :345 *)
    let Dels := upd 0 (fun x => x * ((sb - sa) / (ttb - tta))) Dels in                    (* :346 *)
    (* crop last segment :349-358 *)
    let off := if fx_crop_idx fl then i0 else O in
    let tta := if (Nseg =? 1)%nat then ta else qnth (end_t s) (off + Nseg - 2) in         (* :351 *)
    let ttb := qnth (end_t s) (off + Nseg - 1) in                                         (* :352 *)
    let sa := tta in
    let sb := tb in
    let T0s := upd (Nseg - 1) (fun x => x + qnth Dels (Nseg - 1) * (sa - tta) / (ttb - tta)) T0s in   (* :356 *)
    let Dels := upd (Nseg - 1) (fun x => x * ((sb - sa) / (ttb - tta))) Dels in                       (* :357 *)
    mkspline (if localize then e else ga) et eg vs T0s Dels.             (* :361-368 *)

  (* where the double code divides by zero (result NaN/Inf, outside the exact model) *)
  Definition crop_div0 (s : spline) (ta tb : Q) : bool :=
    let ta := qmax ta 0 in
    let tb := qmin tb (tmax s) in
    if Qle_bool tb ta then false else
    let '(i0, Nseg) := crop_Nseg s ta tb in
    if (Nseg =? 0)%nat then false else
    let '(d1, d2) := crop_divisors s ta tb in
    Qeq_bool d1 0 || Qeq_bool d2 0.

  (* ---------------------------------------------------------------- operation histories *)
  Inductive sop : Type :=
  | OpNew (T : Q) (V : ctrl) (ga : G)                    (* x = Spline(T, V, ga) *)
  | OpEmpty (ga : G)                                     (* x = Spline(ga) *)
  | OpConstVel (v : tan) (T : Q) (ga : G)                (* x = ConstantVelocity(v, T, ga) *)
  | OpFixedCubic (gb : G) (va vb : tan) (T : Q) (ga : G) (* x = FixedCubic(gb, va, vb, T, ga) *)
  | OpConcatLocal (o : spline)                           (* x += o *)
  | OpConcatGlobal (o : spline)                          (* x.concat_global(o) *)
  | OpCrop (ta tb : Q) (localize : bool)                 (* x = x.crop(ta, tb, localize) *)
  | OpMakeLocal.                                         (* x.make_local() *)

  Definition apply (s : spline) (o : sop) : spline :=
    match o with
    | OpNew T V ga => mk_seg T V ga
    | OpEmpty ga => mk_empty ga
    | OpConstVel v T ga => constant_velocity v T ga
    | OpFixedCubic gb va vb T ga => fixed_cubic gb va vb T ga
    | OpConcatLocal o => concat_local s o
    | OpConcatGlobal o => concat_global s o
    | OpCrop ta tb l => crop s ta tb l
    | OpMakeLocal => make_local s
    end.

  Definition run (ops : list sop) (s : spline) : spline := fold_left apply ops s.
End SplineBook.

Arguments mkspline {G tan}.
Arguments g0 {G tan}.
Arguments end_t {G tan}.
Arguments end_g {G tan}.
Arguments Vs {G tan}.
Arguments seg_T0 {G tan}.
Arguments seg_Del {G tan}.
