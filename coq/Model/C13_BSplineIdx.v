(* C13 - executable model of the interval/parameter selection of BSpline<K,G>::operator()
   (include/smooth/spline/detail/bspline_impl.hpp:55-70), t_min (l.37-40), t_max (l.43-46), over Q.
   Times are exact rationals; `double` rounding is NOT modelled (the correspondence run uses inputs for
   which the double computation is exact and compares exactly; see notes/C13.md).
   No proofs in this file. *)
From Coq Require Import ZArith QArith Bool List.
Import ListNotations.
Local Open Scope Q_scope.

(* static_cast<int64_t>(double): truncation toward zero (C++ [conv.fpint]) *)
Definition qtrunc (q : Q) : Z := Z.quot (Qnum q) (Zpos (Qden q)).

Definition two63 : Z := 9223372036854775808%Z.

(* A double outside the int64 range makes the cast undefined behaviour; what g++ emits on x86-64 is
   cvttsd2si, which returns INT64_MIN ("integer indefinite") for every out-of-range operand.  The model
   reproduces that observable (checked by the correspondence run). *)
Definition cast64 (z : Z) : Z :=
  if (Z.leb (- two63) z && Z.ltb z two63)%bool then z else (- two63)%Z.

Definition Qltb (a b : Q) : bool := negb (Qle_bool b a).

(* std::clamp(v, lo, hi) = (v < lo) ? lo : (hi < v) ? hi : v *)
Definition qclamp (v lo hi : Q) : Q := if Qltb v lo then lo else if Qltb hi v then hi else v.

(* bspline_impl.hpp:58   int64_t istar = static_cast<int64_t>((static_cast<double>(t) - m_t0) / m_dt);
   fixed = false : the code as it is.
   fixed = true  : the proposed repair notes/C13-huge-t.patch: the quotient is clamped to [-1, N] (in double)
                   before the cast, so the cast is always defined. *)
Definition idx_raw (fixed : bool) (N : Z) (s : Q) : Z :=
  if fixed then qtrunc (qclamp s (-1) (inject_Z N)) else cast64 (qtrunc s).

(* bspline_impl.hpp:58-70.  K = degree, N = m_ctrl_pts.size().  Result: (istar, u).
   u is kept in canonical form (Qred) - semantically the identity on rationals. *)
Definition bs_select (fixed : bool) (K N : Z) (t0 dt t : Q) : Z * Q :=
  let istar := idx_raw fixed N ((t - t0) / dt) in                       (* l.58 *)
  if (istar <? 0)%Z then (0%Z, 0)                                       (* l.62-64 *)
  else if (N <? istar + (K + 1))%Z then ((N - K - 1)%Z, 1)              (* l.65-67 *)
  else (istar, Qred (qclamp ((t - t0 - inject_Z istar * dt) / dt) 0 1)). (* l.69 *)

Definition bs_tmin (t0 : Q) : Q := t0.                                        (* l.39 *)
Definition bs_tmax (K N : Z) (t0 dt : Q) : Q := t0 + inject_Z (N - K) * dt.   (* l.45 *)
