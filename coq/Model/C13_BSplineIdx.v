(* C13 - executable model of the interval/parameter selection of BSpline<K,G>::operator()
   (include/smooth/spline/detail/bspline_impl.hpp:55-72), t_min (l.35-39), t_max (l.41-45), over Q.
   Transcribes the code as of /repo commit 967e2a1 (the quotient is clamped to [-1, size()] BEFORE the
   conversion to int64_t).
   Times are exact rationals; `double` rounding is NOT modelled (the correspondence run uses inputs for
   which the double computation is exact and compares exactly; see notes/C13.md).
   No proofs in this file. *)
From Coq Require Import ZArith QArith Bool List.
Import ListNotations.
Local Open Scope Q_scope.

(* static_cast<int64_t>(double): truncation toward zero (C++ [conv.fpint]) *)
Definition qtrunc (q : Q) : Z := Z.quot (Qnum q) (Zpos (Qden q)).

Definition two63 : Z := 9223372036854775808%Z.

(* A double outside the int64 range makes the cast undefined behaviour; what g++ emits on x86-64 is
   cvttsd2si, which returns INT64_MIN ("integer indefinite") for every out-of-range operand.  The cast is
   still in the code (l.58), so it is still in the model; its operand is now confined to [-1, N], hence the
   out-of-range branch is reachable only for N >= 2^63 (Proofs/C13_Idx.v: idx_raw_no_overflow). *)
Definition cast64 (z : Z) : Z :=
  if (Z.leb (- two63) z && Z.ltb z two63)%bool then z else (- two63)%Z.

Definition Qltb (a b : Q) : bool := negb (Qle_bool b a).

(* std::clamp(v, lo, hi) = (v < lo) ? lo : (hi < v) ? hi : v *)
Definition qclamp (v lo hi : Q) : Q := if Qltb v lo then lo else if Qltb hi v then hi else v.

(* bspline_impl.hpp:58-59
     int64_t istar = static_cast<int64_t>(
       std::clamp((static_cast<double>(t) - m_t0) / m_dt, -1., static_cast<double>(m_ctrl_pts.size())));
   s = (t - t0)/dt, N = m_ctrl_pts.size(): clamp to [-1, N] first, then truncate toward zero / convert. *)
Definition idx_raw (N : Z) (s : Q) : Z := cast64 (qtrunc (qclamp s (-1) (inject_Z N))).

(* bspline_impl.hpp:58-72.  K = degree, N = m_ctrl_pts.size().  Result: (istar, u).
   u is kept in canonical form (Qred) - semantically the identity on rationals. *)
Definition bs_select (K N : Z) (t0 dt t : Q) : Z * Q :=
  let istar := idx_raw N ((t - t0) / dt) in                             (* l.58-59 *)
  if (istar <? 0)%Z then (0%Z, 0)                                       (* l.63-65 *)
  else if (N <? istar + (K + 1))%Z then ((N - K - 1)%Z, 1)              (* l.66-68 *)
  else (istar, Qred (qclamp ((t - t0 - inject_Z istar * dt) / dt) 0 1)). (* l.70 *)

Definition bs_tmin (t0 : Q) : Q := t0.                                        (* l.38 *)
Definition bs_tmax (K N : Z) (t0 dt : Q) : Q := t0 + inject_Z (N - K) * dt.   (* l.44 *)
