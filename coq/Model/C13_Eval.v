(* C13 - executable model of the evaluation path of BSpline<K,G>::operator():
     monomial_derivative(s)           polynomial/basis.hpp:26-66
     cspline_eval_vs (loop over j)    spline/detail/cumulative_spline_impl.hpp:26-66
     cspline_eval_gs                  spline/detail/cumulative_spline_impl.hpp:138-149
     BSpline::operator() tail         spline/detail/bspline_impl.hpp:73-92
   over an ABSTRACT group (Section variables), scalars in Q, basis matrix as list of rows.
   No proofs in this file. *)
From Coq Require Import ZArith QArith Qround Bool List.
From SV Require Import Model.C13_BSplineIdx.
Import ListNotations.
Local Open Scope Q_scope.

(* ---------- monomial_derivative<K>(u, p)   basis.hpp:27-46 ---------- *)
Fixpoint fact_from2 (p : nat) : Z :=           (* l.36  for j = 2..p: P2 *= j *)
  match p with O => 1%Z | S p' => (fact_from2 p' * Z.of_nat p)%Z end.

(* l.38-43: for i = p+1 .. K:  P1 *= u; P2 *= i; P2 /= i - p; ret[i] = P1 * P2 *)
Fixpoint md_loop (fuel : nat) (i p : Z) (P1 : Q) (P2 : Z) (u : Q) : list Q :=
  match fuel with
  | O => []
  | S f => let P1' := P1 * u in
           let P2' := ((P2 * i) / (i - p))%Z in
           (P1' * inject_Z P2') :: md_loop f (i + 1)%Z p P1' P2' u
  end.

Definition mono_deriv (K p : nat) (u : Q) : list Q :=
  if (K <? p)%nat then repeat 0 (S K)                       (* l.31: value-initialised (zero) row *)
  else repeat 0 p                                           (* l.33 *)
       ++ [1 * inject_Z (fact_from2 p)]                     (* l.34-37 *)
       ++ md_loop (K - p) (Z.of_nat p + 1)%Z (Z.of_nat p) 1 (fact_from2 p) u.

(* ---------- Bcum.col(j), uvec.dot(col) ---------- *)
Definition col (j : nat) (M : list (list Q)) : list Q := map (fun row => nth j row 0) M.
Fixpoint dot (a b : list Q) : Q :=
  match a, b with x :: a', y :: b' => x * y + dot a' b' | _, _ => 0 end.

(* same value as dot, every partial sum kept canonical (Qred is the identity on rationals; Proofs.C13_Basis.dotr_dot);
   keeps the numbers small in the extracted model *)
Fixpoint dotr (a b : list Q) : Q :=
  match a, b with x :: a', y :: b' => Qred (x * y + dotr a' b') | _, _ => 0 end.

(* (Bj, dBj, d2Bj) of cumulative_spline_impl.hpp:40,44,49 - kept canonical (Qred) *)
Definition coef3 (M : list (list Q)) (K : nat) (u : Q) (j : nat) : Q * Q * Q :=
  (Qred (dotr (mono_deriv K 0 u) (col j M)),
   Qred (dotr (mono_deriv K 1 u) (col j M)),
   Qred (dotr (mono_deriv K 2 u) (col j M))).

(* the loop runs j = 1 .. K  (zip(iota(1u), vs), |vs| = K) *)
Definition coefs (M : list (list Q)) (K : nat) (u : Q) : list (Q * Q * Q) :=
  map (coef3 M K u) (seq 1 K).

(* value of the p-th derivative of the j-th cumulative basis polynomial at u (any p) *)
Definition basis_d (M : list (list Q)) (K p : nat) (u : Q) (j : nat) : Q :=
  Qred (dotr (mono_deriv K p u) (col j M)).

(* keep only the coefficients that the outputs of order <= r depend on *)
Definition mask1 (r : nat) (c : Q * Q * Q) : Q * Q * Q :=
  let '(b, db, d2b) := c in
  (b, if (1 <=? r)%nat then db else 0, if (2 <=? r)%nat then d2b else 0).
Definition mask (r : nat) (cs : list (Q * Q * Q)) := map (mask1 r) cs.

(* nearest rational with denominator K! (the exact value a double coefficient stands for) *)
Fixpoint factZ (n : nat) : Z := match n with O => 1%Z | S n' => (Z.of_nat n * factZ n')%Z end.
Definition ideal_entry (K : nat) (x : Q) : Q :=
  let f := factZ K in
  Qred (Qmake (Qfloor (x * inject_Z f + (1 # 2))) (Z.to_pos f)).
Definition ideal (K : nat) (M : list (list Q)) : list (list Q) := map (map (ideal_entry K)) M.

Definition Qabs_le_b (x eps : Q) : bool := Qle_bool (- eps) x && Qle_bool x eps.
Fixpoint close_rows (eps : Q) (a b : list Q) : bool :=
  match a, b with
  | [], [] => true
  | x :: a', y :: b' => Qabs_le_b (x - y) eps && close_rows eps a' b'
  | _, _ => false
  end.
Fixpoint close_mats (eps : Q) (A B : list (list Q)) : bool :=
  match A, B with
  | [], [] => true
  | r :: A', s :: B' => close_rows eps r s && close_mats eps A' B'
  | _, _ => false
  end.

Section AbstractGroup.
  Variables G T : Type.
  Variable op : G -> G -> G.          (* composition *)
  Variable e : G.                     (* Identity *)
  Variable inv : G -> G.              (* inverse *)
  Variable exp : T -> G.
  Variable log : G -> T.
  Variable Ad : G -> T -> T.          (* Ad(g) applied to a tangent vector *)
  Variable br : T -> T -> T.          (* ad(a) * b *)
  Variable tadd : T -> T -> T.
  Variable tzero : T.
  Variable smul : Q -> T -> T.

  (* rminus(b, a) = log(a^-1 * b)   (lie_group.hpp) *)
  Definition rminus (b a : G) : T := log (op (inv a) b).

  (* one iteration of the loop, cumulative_spline_impl.hpp:39-64 (jerk omitted: BSpline never asks for it) *)
  Definition step (s : G * T * T) (cv : (Q * Q * Q) * T) : G * T * T :=
    let '(g, w, a) := s in
    let '((b, db, d2b), v) := cv in
    let E := exp (smul b v) in                                               (* l.41 *)
    let g' := op g E in                                                      (* l.42 *)
    let w' := tadd (Ad (inv E) w) (smul db v) in                             (* l.45-47 *)
    let vb := br w' v in                                                     (* l.50 (uses updated vel) *)
    let a' := tadd (tadd (Ad (inv E) a) (smul db vb)) (smul d2b v) in        (* l.51-53 *)
    (g', w', a').

  Definition eval_vs (cs : list (Q * Q * Q)) (vs : list T) : G * T * T :=
    fold_left step (combine cs vs) (e, tzero, tzero).                        (* l.33-37, 39 *)

  (* gs | pairwise_transform(sub),  sub(x1, x2) = rminus(x2, x1)    l.145-146 *)
  Fixpoint diffs (gs : list G) : list T :=
    match gs with
    | a :: tl => match tl with b :: _ => rminus b a :: diffs tl | [] => [] end
    | [] => []
    end.

  Definition eval_gs (cs : list (Q * Q * Q)) (gs : list G) : G * T * T :=    (* l.148 *)
    match gs with
    | [] => (e, tzero, tzero)      (* not reachable: the window has K+1 >= 2 elements *)
    | g0 :: _ => let '(g, w, a) := eval_vs cs (diffs gs) in (op g0 g, w, a)
    end.

  (* m_ctrl_pts | drop(istar) | take(K+1)        bspline_impl.hpp:79-82 *)
  Definition window (K : nat) (ctrl : list G) (i : nat) : list G := firstn (S K) (skipn i ctrl).

  Definition window_eval (M : list (list Q)) (K : nat) (ctrl : list G) (i : nat) (u : Q) : G * T * T :=
    eval_gs (coefs M K u) (window K ctrl i).

  (* BSpline::operator()(t, vel, acc)     bspline_impl.hpp:55-93 *)
  Definition bs_eval (M : list (list Q)) (K : nat) (ctrl : list G) (t0 dt t : Q) : G * T * T :=
    let '(i, u) := bs_select (Z.of_nat K) (Z.of_nat (length ctrl)) t0 dt t in
    let '(g, w, a) := window_eval M K ctrl (Z.to_nat i) u in
    (g, smul (/ dt) w, smul (/ (dt * dt)) a).                                (* l.89-90 *)

  Definition outputs_upto (r : nat) (s : G * T * T) : G * option T * option T :=
    let '(g, w, a) := s in
    (g, if (1 <=? r)%nat then Some w else None, if (2 <=? r)%nat then Some a else None).
End AbstractGroup.

(* ---------- instance used by the correspondence run: one-dimensional vector space over Q ---------- *)
Definition q_add (a b : Q) : Q := Qred (a + b).
Definition q_smul (a b : Q) : Q := Qred (a * b).
Definition bs_eval_Q1 (M : list (list Q)) (K : nat) (ctrl : list Q) (t0 dt t : Q) : Q * Q * Q :=
  bs_eval Q Q q_add 0 (fun a => Qred (- a)) (fun v => v) (fun g => g) (fun _ w => w) (fun _ _ => 0)
          q_add 0 q_smul M K ctrl t0 dt t.
