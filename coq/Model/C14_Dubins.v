(* C14 -- executable model of the word selection of smooth::detail::dubins
   (/repo/include/smooth/spline/detail/dubins_impl.hpp:132-218) and of
   dubins_angle (dubins_impl.hpp:23-30).

   Model file: definitions only.  Extractable with ExtrOcamlBasic. *)

From Coq Require Import QArith List.
Import ListNotations.
Open Scope Q_scope.

(* dubins_impl.hpp:17  enum class DubinsSegment { Left, Straight, Right } *)
Inductive seg := SLeft | SStraight | SRight.

(* The std::array<double,3> returned by dubins_csc / dubins_ccc.
   None models the {inf, inf, inf} return (dubins_impl.hpp:51, :98, :107). *)
Definition cand := option (Q * Q * Q).

(* dubins_impl.hpp:141,154,167,180   double len = d2 + R * (a1 + a3); *)
Definition len_csc (R : Q) (c : Q * Q * Q) : Q :=
  let '(a1, d2, a3) := c in d2 + R * (a1 + a3).

(* dubins_impl.hpp:193,206   double len = R * (a1 + a2 + a3); *)
Definition len_ccc (R : Q) (c : Q * Q * Q) : Q :=
  let '(a1, a2, a3) := c in R * (a1 + a2 + a3).

(* d_word: 0..5 in code order LSL, LSR, RSL, RSR, RLR, LRL;
   d_desc: the DubinsDescription written to ret; d_len: min_length. *)
Record dsel := { d_word : nat; d_desc : list (seg * Q); d_len : Q }.

(* length formula used by block j (blocks 0..3 are csc, 4..5 are ccc) *)
Definition len_of (R : Q) (j : nat) : Q * Q * Q -> Q :=
  if (j <? 4)%nat then len_csc R else len_ccc R.

(* the three (segment, length) pairs assigned to ret by block j *)
Definition desc_of (j : nat) (c : Q * Q * Q) : list (seg * Q) :=
  let '(x1, x2, x3) := c in
  match j with
  | 0%nat => [(SLeft, x1); (SStraight, x2); (SLeft, x3)]    (* :144-148 *)
  | 1%nat => [(SLeft, x1); (SStraight, x2); (SRight, x3)]   (* :157-161 *)
  | 2%nat => [(SRight, x1); (SStraight, x2); (SLeft, x3)]   (* :170-174 *)
  | 3%nat => [(SRight, x1); (SStraight, x2); (SRight, x3)]  (* :183-187 *)
  | 4%nat => [(SRight, x1); (SLeft, x2); (SRight, x3)]      (* :196-200 *)
  | _ => [(SLeft, x1); (SRight, x2); (SLeft, x3)]           (* :209-213 *)
  end.

(* One block  { auto [..] = cand_j; double len = ...;
                if (len < min_length) { min_length = len; ret = {...}; } }
   State: None = min_length is still +inf and ret is uninitialised.
   An infeasible candidate has len = inf, and inf < min_length is false. *)
Definition dubins_block (R : Q) (j : nat) (c : cand) (st : option dsel)
  : option dsel :=
  match c with
  | None => st
  | Some t =>
      let len := len_of R j t in
      let new := {| d_word := j; d_desc := desc_of j t; d_len := len |} in
      match st with
      | None => Some new                           (* finite < +inf *)
      | Some r => if Qlt_le_dec len (d_len r) then Some new else st
      end
  end.

(* blocks j, j+1, ... applied in order to the candidates cs *)
Fixpoint dubins_blocks (R : Q) (j : nat) (cs : list cand) (st : option dsel)
  : option dsel :=
  match cs with
  | [] => st
  | c :: cs' => dubins_blocks R (S j) cs' (dubins_block R j c st)
  end.

(* dubins_impl.hpp:132-218: the six blocks in code order, strict <,
   starting from min_length = +inf (:135). *)
Definition dubins_select (R : Q) (lsl lsr rsl rsr rlr lrl : cand)
  : option dsel :=
  let st0 : option dsel := None in                 (* :135-137 *)
  let st1 := dubins_block R 0 lsl st0 in           (* :139-150 *)
  let st2 := dubins_block R 1 lsr st1 in           (* :152-163 *)
  let st3 := dubins_block R 2 rsl st2 in           (* :165-176 *)
  let st4 := dubins_block R 3 rsr st3 in           (* :178-189 *)
  let st5 := dubins_block R 4 rlr st4 in           (* :191-202 *)
  let st6 := dubins_block R 5 lrl st5 in           (* :204-215 *)
  st6.                                             (* :217 *)

(* dubins_impl.hpp:23-30.  d models (x2 - x1).x(), twopi models 2 * pi. *)
Definition dubins_angle (twopi d : Q) (s : seg) : Q :=
  let d' := match s with SRight => - d | _ => d end in   (* :27 *)
  if Qle_bool 0 d' then d' else twopi + d'.              (* :29 *)
