(* Executable model (over Q) of fit_spline_1d: the constraint system A x = b, the cost blocks and the KKT
   system, transcribed from /repo/include/smooth/spline/detail/fit_impl.hpp:61-223 and the compile-time basis
   algebra of /repo/include/smooth/polynomial/basis.hpp.  NO proofs in this file (see Proofs/C14_Fit1d.v). *)
From Coq Require Import QArith List ZArith Bool Arith.
Import ListNotations.
Local Open Scope Q_scope.

(* ------------------------------------------------------------------ vectors / rows over Q *)
Fixpoint qdot (u v : list Q) : Q :=
  match u, v with
  | x :: u', y :: v' => x * y + qdot u' v'
  | _, _ => 0
  end.
Definition qzeros (n : nat) : list Q := repeat 0 n.
Fixpoint qvadd (u v : list Q) : list Q :=
  match u, v with x :: u', y :: v' => (x + y) :: qvadd u' v' | _, _ => [] end.
Fixpoint qpow (x : Q) (n : nat) : Q := match n with O => 1 | S n' => x * qpow x n' end.
Definition mget (M : list (list Q)) (r c : nat) : Q := nth c (nth r M []) 0.
Definition mcol (M : list (list Q)) (c : nat) : list Q := map (fun r => nth c r 0) M.
Definition mat_vec (A : list (list Q)) (x : list Q) : list Q := map (fun r => qdot r x) A.
Definition mtrans (ncols : nat) (M : list (list Q)) : list (list Q) := map (mcol M) (seq 0 ncols).

(* ------------------------------------------------------------------ basis.hpp *)
Fixpoint zfact (n : nat) : Z := match n with O => 1%Z | S k => (Z.of_nat n * zfact k)%Z end.

(* basis.hpp:27-47 monomial_derivative<K>(u, p): the loop  for i = p+1..K { P1 *= u; P2 *= i; P2 /= i-p; ret[i] = P1*P2 } *)
Fixpoint mono_loop (u : Q) (p i cnt : nat) (P1 : Q) (P2 : Z) : list Q :=
  match cnt with
  | O => []
  | S c =>
      let P1' := P1 * u in
      let P2' := (P2 * Z.of_nat i / Z.of_nat (i - p))%Z in
      (P1' * inject_Z P2') :: mono_loop u p (S i) c P1' P2'
  end.
Definition monomial_derivative (K : nat) (u : Q) (p : nat) : list Q :=
  if (K <? p)%nat then qzeros (K + 1)                                   (* basis.hpp:31 *)
  else qzeros p ++ [1 * inject_Z (zfact p)] ++ mono_loop u p (p + 1) (K - p) 1 (zfact p).
(* basis.hpp:60-66 *)
Definition monomial_derivatives (K P : nat) (u : Q) : list (list Q) :=
  map (monomial_derivative K u) (seq 0 (P + 1)).

(* basis.hpp:109-137 bernstein_basis<K>:  low*left + high*right, i.e.
   ret[r][c] = Bp[r][c] + ( r>=1 ?  -Bp[r-1][c] + (c>=1 ? Bp[r-1][c-1] : 0) : 0 )   with Bp the (K-1) matrix, 0 outside *)
Fixpoint bernstein_basis (K : nat) : list (list Q) :=
  match K with
  | O => [[1]]
  | S k =>
      let Bp := bernstein_basis k in
      let g r c := if ((r <? S k) && (c <? S k))%nat%bool then mget Bp r c else 0 in
      map (fun r => map (fun c =>
             g r c + (if (r =? 0)%nat then 0 else (- g (r - 1)%nat c + (if (c =? 0)%nat then 0 else g (r - 1)%nat (c - 1)%nat))))
           (seq 0 (S k + 1))) (seq 0 (S k + 1))
  end.

Definition mmul (ncolsB : nat) (A B : list (list Q)) : list (list Q) :=
  map (fun r => map (fun c => qdot r (mcol B c)) (seq 0 ncolsB)) A.

(* fit_impl.hpp:81-85 *)
Definition U0tB (K D : nat) : list (list Q) := mmul (K + 1) (monomial_derivatives K D 0) (bernstein_basis K).
Definition U1tB (K D : nat) : list (list Q) := mmul (K + 1) (monomial_derivatives K D 1) (bernstein_basis K).

(* basis.hpp:399-417 monomial_integral<K,P> *)
Fixpoint zprod_range (lo cnt : nat) : Z := match cnt with O => 1%Z | S c => (Z.of_nat lo * zprod_range (S lo) c)%Z end.
Definition monomial_integral (K P : nat) : list (list Q) :=
  map (fun i => map (fun j =>
      if ((P <=? i) && (P <=? j))%nat%bool
      then inject_Z (zprod_range (i - P + 1) P * zprod_range (j - P + 1) P) / inject_Z (Z.of_nat (i + j - 2 * P + 1))
      else 0) (seq 0 (K + 1))) (seq 0 (K + 1)).
(* fit_impl.hpp:177-178  P = B^T * M * B *)
Definition cost_P (K od : nat) : list (list Q) :=
  let B := bernstein_basis K in
  mmul (K + 1) (mmul (K + 1) (mtrans (K + 1) B) (monomial_integral K od)) B.

(* ------------------------------------------------------------------ spline specifications (fit.hpp:33-140) *)
Record spec := { Kdeg : nat; InnCnt : Z; OptDeg : option nat; LeftDeg : list nat; RghtDeg : list nat }.

Definition PiecewiseLinear : spec :=                         (* NoConstraints<G,1>, fit.hpp:42-68 *)
  {| Kdeg := 1; InnCnt := 0; OptDeg := None; LeftDeg := []; RghtDeg := [] |}.
Definition FixedDerCubic (P1 P2 : nat) : spec :=             (* fit.hpp:76-96 *)
  {| Kdeg := 3; InnCnt := 2; OptDeg := None; LeftDeg := [P1]; RghtDeg := [P2] |}.
Definition MinDerivative (K od P : nat) : spec :=             (* fit.hpp:105-136: LeftDeg = RghtDeg = 1..P-1 *)
  {| Kdeg := K; InnCnt := Z.of_nat P; OptDeg := Some od; LeftDeg := seq 1 (P - 1); RghtDeg := seq 1 (P - 1) |}.

(* fit_impl.hpp:20-29 splinespec_max_deriv *)
Definition maxderiv (s : spec) : nat :=
  fold_left Nat.max (RghtDeg s) (fold_left Nat.max (LeftDeg s) (Z.to_nat (Z.max 0 (InnCnt s)))).
Definition inn_ge0 (s : spec) : bool := (0 <=? InnCnt s)%Z.
Definition inn_cnt (s : spec) : nat := Z.to_nat (InnCnt s).

(* ------------------------------------------------------------------ the constraint rows (fit_impl.hpp:93-157) *)
(* a sparse row: list of (first column, coefficients written into consecutive columns) - one entry per `for j` loop *)
Definition srow := list (nat * list Q).

Definition place (off : nat) (c : list Q) (n : nat) : list Q := qzeros off ++ c ++ qzeros (n - off - length c).
Definition densify (n : nat) (r : srow) : list Q :=
  fold_right (fun oc acc => qvadd (place (fst oc) (snd oc) n) acc) (qzeros n) r.
Definition srow_dot (r : srow) (x : list Q) : Q :=
  fold_right (fun oc acc => qdot (snd oc) (skipn (fst oc) x) + acc) 0 r.

Section Rows.
  Variable s : spec.
  Let K := Kdeg s.
  Let D := maxderiv s.
  Let U0 := U0tB K D.
  Let U1 := U1tB K D.
  Definition blk (i : nat) : nat := i * (Kdeg s + 1).

  (* fit_impl.hpp:119-123  curve beg derivative constraints *)
  Definition rows_left : list srow := map (fun p => [(0%nat, nth p U0 [])]) (LeftDeg s).
  (* fit_impl.hpp:125-133  interval beg + end value constraint *)
  Fixpoint rows_val (i : nat) (dx : list Q) : list srow :=
    match dx with
    | [] => []
    | _ :: dx' =>
        [(blk i, nth 0 U0 [])] :: (if inn_ge0 s then [[(blk i, nth 0 U1 [])]] else []) ++ rows_val (S i) dx'
    end.
  Fixpoint b_val (dx : list Q) : list Q :=
    match dx with
    | [] => []
    | d :: dx' => 0 :: (if inn_ge0 s then [d] else []) ++ b_val dx'
    end.
  (* fit_impl.hpp:135-146  inner derivative continuity constraint, zip(iota(0,N-1), dt, dt|drop(1)) *)
  Definition cont_row (k : nat) (dt dtn : Q) (d : nat) : srow :=
    let fac1 := 1 / qpow dt d in
    let fac2 := 1 / qpow dtn d in
    [(blk k, map (fun v => v * fac1) (nth d U1 [])); (blk (S k), map (fun v => (- v) * fac2) (nth d U0 []))].
  Fixpoint rows_cont (k : nat) (dts : list Q) : list srow :=
    match dts with
    | dt :: ((dtn :: _) as tl) => map (cont_row k dt dtn) (seq 1 (inn_cnt s)) ++ rows_cont (S k) tl
    | _ => []
    end.
  Fixpoint b_cont (dts : list Q) : list Q :=
    match dts with
    | _ :: ((_ :: _) as tl) => qzeros (inn_cnt s) ++ b_cont tl
    | _ => []
    end.
  (* fit_impl.hpp:148-154  curve end derivative constraints *)
  Definition rows_right (N : nat) : list srow := map (fun p => [(blk (N - 1), nth p U1 [])]) (RghtDeg s).

  (* N = min(size dt, size dx)  (fit_impl.hpp:69) *)
  Definition npts (dt dx : list Q) : nat := Nat.min (length dt) (length dx).
  Definition n_coef (N : nat) : nat := (Kdeg s + 1) * N.                                    (* :93 *)
  Definition n_eq (N : nat) : nat :=                                                        (* :94-99 *)
    length (LeftDeg s) + N + (if inn_ge0 s then N else 0)
    + (if (0 <? InnCnt s)%Z then (N - 1) * inn_cnt s else 0) + length (RghtDeg s).

  Definition A_rows (dt dx : list Q) : list srow :=
    let N := npts dt dx in
    rows_left ++ rows_val 0 (firstn N dx) ++ rows_cont 0 (firstn N dt) ++ rows_right N.
  Definition b_vec (dt dx lv rv : list Q) : list Q :=
    let N := npts dt dx in
    lv ++ b_val (firstn N dx) ++ b_cont (firstn N dt) ++ rv.
  (* the matrix A as the code assembles it (dense view; A.prune(1e-9) at :156 only drops entries of magnitude
     <= 1e-21, which are zero for every dt in the property's range, so pruning does not change the matrix) *)
  Definition A_dense (dt dx : list Q) : list (list Q) :=
    map (densify (n_coef (npts dt dx))) (A_rows dt dx).

  (* residual A x - b, computed sparsely (this is what the correspondence driver evaluates on the coefficient
     vector returned by the real fit_spline_1d) *)
  Fixpoint qsub_list (u v : list Q) : list Q :=
    match u, v with x :: u', y :: v' => Qred (x - y) :: qsub_list u' v' | _, _ => [] end.
  Definition residual (dt dx lv rv x : list Q) : list Q :=
    qsub_list (map (fun r => srow_dot r x) (A_rows dt dx)) (b_vec dt dx lv rv).

  (* ---------------------------------------------------------------- cost + KKT system (fit_impl.hpp:165-221) *)
  Definition reg : Q := 1 # 1000000.                                       (* the 1e-6 on the diagonal, :202 *)
  Definition q_block (od : nat) (dt : Q) : list (list Q) :=                 (* :198-205 *)
    let fac := 1 / qpow dt (2 * D - 1) in                                  (* :199 pow(dt, 1 - 2*int(D)) *)
    let P := cost_P K od in
    map (fun ki => map (fun kj => (if (ki =? kj)%nat then reg else 0) + fac * mget P ki kj) (seq 0 (K + 1)))
        (seq 0 (K + 1)).
  Fixpoint q_rows (od : nat) (i : nat) (dts : list Q) (ncoef : nat) : list (list Q) :=
    match dts with
    | [] => []
    | dt :: tl => map (fun r => place (blk i) r ncoef) (q_block od dt) ++ q_rows od (S i) tl ncoef
    end.
  Fixpoint map2app (X Y : list (list Q)) : list (list Q) :=
    match X, Y with r :: X', t :: Y' => (r ++ t) :: map2app X' Y' | _, _ => [] end.
  (* the full (N_coef + N_eq) x (N_coef + N_eq) matrix the code assembles (:190-214):
       - the diagonal cost blocks, H(i(K+1)+ki, i(K+1)+kj) (:198-205);
       - for every stored entry (r, col, v) of A BOTH  H(N_coef + r, col) = v  (:209)  and  H(col, N_coef + r) = v
         (:210), i.e. the lower-left block is A and the upper-right block is A^T (written explicitly since commit
         7781770; SparseLU reads the whole matrix, not one triangle);
       - nothing in the lower-right N_eq x N_eq block.
       H = [ Q  A^T ; A  0 ],  rhs = [0 ; b]      (:216-218)
     H_pattern / H.reserve (:192-196) only pre-allocate storage and do not influence the values. *)
  Definition kkt_H (od : nat) (dt dx : list Q) : list (list Q) :=
    let N := npts dt dx in
    let A := A_dense dt dx in
    map2app (q_rows od 0 (firstn N dt) (n_coef N)) (mtrans (n_coef N) A)
    ++ map (fun r => r ++ qzeros (length A)) A.
  Definition kkt_rhs (dt dx lv rv : list Q) : list Q :=
    qzeros (n_coef (npts dt dx)) ++ b_vec dt dx lv rv.

  (* fit_spline_1d itself, relative to Eigen::SparseLU (the argument lu_solve; both branches instantiate the same
     solver, SparseLU<SparseMatrix<double>>, on different matrices: :162-163 and :220-221).  Its contract "returns
     a solution of the system it was given" is a hypothesis of the theorems and is what the run-time correspondence
     checks. *)
  Definition fit_spline_1d (lu_solve : list (list Q) -> list Q -> list Q) (dt dx lv rv : list Q) : list Q :=
    match OptDeg s with
    | None => lu_solve (A_dense dt dx) (b_vec dt dx lv rv)                                     (* :159-164 *)
    | Some od => firstn (n_coef (npts dt dx)) (lu_solve (kkt_H od dt dx) (kkt_rhs dt dx lv rv))  (* :220-221 *)
    end.
End Rows.

(* what the harness / driver call: spec by small integer id *)
Definition spec_of_id (id : nat) : spec :=
  match id with
  | 0%nat => PiecewiseLinear
  | 1%nat => FixedDerCubic 1 1
  | 2%nat => FixedDerCubic 2 2
  | 3%nat => FixedDerCubic 1 2
  | 4%nat => FixedDerCubic 2 1
  | 5%nat => MinDerivative 5 3 3
  | _ => MinDerivative 6 3 3
  end.
Definition residual_id (id : nat) (dt dx lv rv x : list Q) : list Q := residual (spec_of_id id) dt dx lv rv x.
Definition n_eq_id (id N : nat) : nat := n_eq (spec_of_id id) N.
Definition n_coef_id (id N : nat) : nat := n_coef (spec_of_id id) N.
Definition U0tB_id (id : nat) := U0tB (Kdeg (spec_of_id id)) (maxderiv (spec_of_id id)).
Definition U1tB_id (id : nat) := U1tB (Kdeg (spec_of_id id)) (maxderiv (spec_of_id id)).
Definition costP_id (id : nat) := match OptDeg (spec_of_id id) with Some od => cost_P (Kdeg (spec_of_id id)) od | None => [] end.
