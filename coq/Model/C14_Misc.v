(* C14 -- small executable models:
   (a) control-point count / time span of fit_bspline
       (/repo/include/smooth/spline/detail/fit_impl.hpp:321-322, :333,
        /repo/include/smooth/spline/detail/bspline_impl.hpp:36-45);
   (b) the interpolation fix-up of fit_spline over an abstract group
       (/repo/include/smooth/spline/detail/fit_impl.hpp:261-270).

   Model file: definitions only.  Extractable with ExtrOcamlBasic. *)

From Coq Require Import QArith Qround List.
Import ListNotations.

(* ------------------------------------------------------------------ *)
(* (a) fit_bspline span                                                *)

(* fit_impl.hpp:333 (objective) and :355 (jacobian), for a data time t:
     const int64_t istar = static_cast<int64_t>((t - t0) / dt);
   static_cast truncates toward zero, which is floor for the non-negative
   values arising when dt > 0 and t0 <= t. *)
Definition bs_istar (t0 dt t : Q) : Z := Qfloor ((t - t0) / dt).

(* fit_impl.hpp:321-322
     // the last data point uses control points istar, ..., istar + K with istar = (t1 - t0) / dt truncated
     NumPts = static_cast<Index>(K + 1 + static_cast<Index>((t1 - t0) / dt));
   i.e. literally K + 1 + istar(t1). *)
Definition num_pts (K : Z) (t0 t1 dt : Q) : Z :=
  (K + 1 + Qfloor ((t1 - t0) / dt))%Z.

(* the formula before commit 435fdfb (fit_impl.hpp:320 of the unrepaired tree):
     NumPts = K + static_cast<Index>((t1 - t0 + dt) / dt)
   kept only to state that the two agree in exact arithmetic (Proofs/C14_Misc.v, num_pts_eq_old);
   they differ in binary64 when t1 - t0 is a multiple of dt. *)
Definition num_pts_old (K : Z) (t0 t1 dt : Q) : Z :=
  (K + Qfloor ((t1 - t0 + dt) / dt))%Z.

(* bspline_impl.hpp:36-39   t_min() = m_t0 *)
Definition bs_tmin (t0 : Q) : Q := t0.

(* bspline_impl.hpp:41-45   t_max() = m_t0 + double(m_ctrl_pts.size() - K) * m_dt *)
Definition bs_tmax (K : Z) (t0 dt : Q) (npts : Z) : Q :=
  t0 + inject_Z (npts - K) * dt.

(* ------------------------------------------------------------------ *)
(* (b) fit_spline interpolation fix-up                                 *)

Section Fixup.
  Variables G T : Type.
  Variable op : G -> G -> G.        (* composition<G> *)
  Variable inv : G -> G.            (* inverse<G> *)
  Variable gexp : T -> G.           (* exp<G> *)
  Variable glog : G -> T.           (* log<G> *)
  Variable tneg : T -> T.           (* unary minus on the tangent *)

  (* fit_impl.hpp:267
       for (k = 0; k < mid; ++k) midval = composition(exp(-cum_coefs.col(k)), midval);
     [pre] = columns 0 .. mid-1 in increasing order *)
  Definition fixup_left (pre : list T) (midval : G) : G :=
    fold_left (fun m v => op (gexp (tneg v)) m) pre midval.

  (* fit_impl.hpp:268
       for (k = K - 1; k > mid; --k) midval = composition(midval, exp(-cum_coefs.col(k)));
     [post] = columns mid+1 .. K-1; the loop visits them in decreasing order *)
  Definition fixup_right (post : list T) (midval : G) : G :=
    fold_left (fun m v => op m (gexp (tneg v))) (rev post) midval.

  (* fit_impl.hpp:261-270; cs = columns of cum_coefs, K = length cs *)
  Definition fixup (g g_next : G) (cs : list T) : list T :=
    if (3 <=? length cs)%nat then                       (* :261 if constexpr (K > 2) *)
      let mid := Nat.div (length cs) 2 in               (* :264 *)
      let pre := firstn mid cs in
      let post := skipn (S mid) cs in
      let m0 := op (inv g) g_next in                    (* :266 *)
      let m1 := fixup_left pre m0 in                    (* :267 *)
      let m2 := fixup_right post m1 in                  (* :268 *)
      pre ++ glog m2 :: post                            (* :269 cum_coefs.col(mid) = log(midval) *)
    else cs.
End Fixup.
