(* C14 -- executable model of reparameterize_spline
   (/repo/include/smooth/spline/detail/reparameterize_impl.hpp):
   the forward pass (:119-170), the rows of the linear program the backward
   pass hands to lp2d::solve at every grid point (:85-110; lp2d itself is
   external code and not modelled),
   and of the Spline<2,double> segments it emits
   (/repo/include/smooth/spline/detail/spline_impl.hpp:52-66, :153-181, :231-269).

   Model file: definitions only.  Extractable with ExtrOcamlBasic
   (after the section closes, sq is the first argument of every function
   that uses it). *)

From Coq Require Import QArith Qabs Qminmax List.
Import ListNotations.
Open Scope Q_scope.

(* reparameterize_impl.hpp:36   static constexpr auto eps = 1e-8; *)
Definition eps : Q := 1 # 100000000.

(* the double i in  s0 + ds * i  (:128) *)
Definition idxQ (i : nat) : Q := inject_Z (Z.of_nat i).

(* One Spline<2,double>{dt, Vector2d{v1, v2}, si} segment (:156-160):
   duration g_dt, cumulative Bernstein coefficients g_v1 g_v2, start g_g0 *)
Record rseg := { g_dt : Q; g_v1 : Q; g_v2 : Q; g_g0 : Q }.

(* Segment semantics, K = 2 cumulative Bernstein basis (spline_impl.hpp:264-268
   with cspline_eval_vs): value at local parameter u in [0,1] and its
   u-derivative; the time derivative is seg_du / g_dt (spline_impl.hpp:266). *)
Definition seg_val (g : rseg) (u : Q) : Q :=
  g_g0 g + (2 * u - u * u) * g_v1 g + u * u * g_v2 g.
Definition seg_du (g : rseg) (u : Q) : Q :=
  (2 - 2 * u) * g_v1 g + 2 * u * g_v2 g.

(* std::min<double>(a, b) with a possibly +inf (None) *)
Definition omin (a : option Q) (b : Q) : option Q :=
  match a with
  | None => Some b
  | Some x => Some (Qmin x b)
  end.

(* :139   double local_ret = (v2max(i + 1) - vi2) / (2 * ds);
   (+inf when v2max(i+1) = +inf; ds > 0 is understood) *)
Definition acc_init (v2next : option Q) (vi2 ds : Q) : option Q :=
  match v2next with
  | None => None
  | Some y => Some ((y - vi2) / (2 * ds))
  end.

(* :140-148  loop over the degrees of freedom j; dof = list of (vel_j, acc_j) *)
Fixpoint acc_dofs (vi2 : Q) (dof : list (Q * Q)) (amin amax : list Q)
  (r : option Q) : option Q :=
  match dof, amin, amax with
  | (vel, acc) :: dof', lo :: amin', hi :: amax' =>
      let r' :=
        if Qlt_le_dec eps vel then omin r ((hi - acc * vi2) / vel)            (* :143-144 *)
        else if Qlt_le_dec vel (- eps) then omin r ((lo - acc * vi2) / vel)   (* :145-146 *)
        else r in
      acc_dofs vi2 dof' amin' amax' r'
  | _, _, _ => r
  end.

(* :138-150  the lambda computing ai; None = +inf *)
Definition acc_bound (ds : Q) (v2max : list (option Q)) (dofs : list (list (Q * Q)))
  (amin amax : list Q) (i : nat) (vi2 : Q) : option Q :=
  acc_dofs vi2 (nth i dofs []) amin amax
           (acc_init (nth (S i) v2max None) vi2 ds).

(* everything that happens in one loop iteration i (:127-165) *)
Record rstep := {
  t_i : nat;               (* loop index *)
  t_vi2 : Q;               (* vi2 = v2m on entry (:134) *)
  t_ai : option Q;         (* ai, None = +inf (:138) *)
  t_seg : option rseg;     (* the segment passed to concat_global, if any *)
  t_v2out : Q;             (* v2m on exit *)
  t_rads : list Q          (* arguments of std::sqrt in this iteration, in order *)
}.

Section Reparam.
  Variable sq : Q -> Q.    (* std::sqrt *)

  Definition fwd_step (s0 ds : Q) (i : nat) (vi2 : Q) (ai : option Q) : rstep :=
    let vi := sq vi2 in                                              (* :135 *)
    match ai with
    | None =>                                                        (* :152 ai == inf *)
        {| t_i := i; t_vi2 := vi2; t_ai := None; t_seg := None;
           t_v2out := vi2; t_rads := [vi2] |}
    | Some a =>
        let rad := Qmax eps (vi2 + 2 * ds * a) in                    (* :153 *)
        let small := Qlt_le_dec (Qabs a) eps in                      (* :153 *)
        let dt := if small then ds / vi else (- vi + sq rad) / a in  (* :153 *)
        {| t_i := i; t_vi2 := vi2; t_ai := Some a;
           t_seg := Some {| g_dt := dt;                              (* :156-160 *)
                            g_v1 := dt * vi / 2;
                            g_v2 := dt * (dt * a + vi) / 2;
                            g_g0 := s0 + ds * idxQ i |};             (* :128 si *)
           t_v2out := Qmax eps (vi2 + 2 * a * ds);                   (* :163 *)
           t_rads := if small then [vi2] else [vi2; rad] |}
    end.

  (* :127  for i in iota(0, N): k = iterations left, i = current index *)
  Fixpoint fwd_loop (s0 ds : Q) (v2max : list (option Q)) (dofs : list (list (Q * Q)))
    (amin amax : list Q) (k i : nat) (v2m : Q) : list rstep :=
    match k with
    | O => []
    | S k' =>
        let st := fwd_step s0 ds i v2m (acc_bound ds v2max dofs amin amax i v2m) in
        st :: fwd_loop s0 ds v2max dofs amin amax k' (S i) (t_v2out st)
    end.
End Reparam.

(* :125   double v2m = std::min(start_vel * start_vel, v2max(0)); *)
Definition init_v2m (start_vel : Q) (v2max : list (option Q)) : Q :=
  match nth 0%nat v2max None with
  | None => start_vel * start_vel
  | Some y => Qmin (start_vel * start_vel) y
  end.

(* the segments handed to concat_global, in order *)
Fixpoint segs_of (l : list rstep) : list rseg :=
  match l with
  | [] => []
  | st :: l' =>
      match t_seg st with
      | Some g => g :: segs_of l'
      | None => segs_of l'
      end
  end.

Fixpoint rads_of (l : list rstep) : list Q :=
  match l with
  | [] => []
  | st :: l' => t_rads st ++ rads_of l'
  end.

(* r_steps: full per-iteration trace; r_segs: segments of the returned spline
   in order (segment k+1 starts at its own g_g0: concat_global,
   spline_impl.hpp:163, sets the end value of segment k to it);
   r_end: the end value of the last segment after :168
   ret.concat_global(Spline<2,double>(spline.t_max()));
   r_rads: every argument std::sqrt was applied to, in order. *)
Record rres := {
  r_steps : list rstep;
  r_segs : list rseg;
  r_end : Q;
  r_rads : list Q
}.

Definition reparam (sq : Q -> Q) (s0 ds : Q) (n : nat) (start_vel : Q)
  (v2max : list (option Q)) (dofs : list (list (Q * Q))) (amin amax : list Q)
  (tmax : Q) : rres :=
  let steps :=
    fwd_loop sq s0 ds v2max dofs amin amax n 0%nat (init_v2m start_vel v2max) in
  {| r_steps := steps;
     r_segs := segs_of steps;
     r_end := tmax;                                                  (* :168 *)
     r_rads := rads_of steps |}.

(* ------------------------------------------------------------------ *)
(* The linear program of the backward pass (:75-110), in (y, a) = (squared
   velocity at s_i, acceleration on [s_i, s_{i+1}]):   max y   subject to
   the rows below.  A row {c0, c1, b} stands for  c0 * y + c1 * a <= b
   (lp2d::solve, external/lp2d.hpp:45-59); b = None is +inf (row [1] when
   v2max(i+1) = inf), which constrains nothing.
   std::array<std::array<double, 3>, 2 + 3 * Dof<G>> ineq  (:85).        *)

Definition lprow := (Q * Q * option Q)%type.

(* constraints [2]  (:91-99), dof = list of (vel_j, acc_j) *)
Fixpoint rows_vel (dof : list (Q * Q)) (vmin vmax : list Q) : list lprow :=
  match dof, vmin, vmax with
  | (vel, _) :: dof', lo :: vmin', hi :: vmax' =>
      (if Qlt_le_dec eps vel then (vel * vel, 0, Some (hi * hi))             (* :92-93 *)
       else if Qlt_le_dec vel (- eps) then (vel * vel, 0, Some (lo * lo))    (* :94-95 *)
       else (0, 0, Some 0))                                                  (* :96-97 fill(0) *)
      :: rows_vel dof' vmin' vmax'
  | _, _, _ => []
  end.

(* constraints [3], upper halves  (:103)  ineq[1 + Dof + j] = {acc(j), vel(j), acc_max(j)} *)
Fixpoint rows_acc_hi (dof : list (Q * Q)) (amax : list Q) : list lprow :=
  match dof, amax with
  | (vel, acc) :: dof', hi :: amax' => (acc, vel, Some hi) :: rows_acc_hi dof' amax'
  | _, _ => []
  end.

(* constraints [3], lower halves  (:104)  ineq[1 + 2 Dof + j] = {-acc(j), -vel(j), -acc_min(j)} *)
Fixpoint rows_acc_lo (dof : list (Q * Q)) (amin : list Q) : list lprow :=
  match dof, amin with
  | (vel, acc) :: dof', lo :: amin' => (- acc, - vel, Some (- lo)) :: rows_acc_lo dof' amin'
  | _, _ => []
  end.

(* all rows in array order; ynext = v2max(i + 1) *)
Definition bwd_rows (ds : Q) (ynext : option Q) (dof : list (Q * Q))
  (vmin vmax amin amax : list Q) : list lprow :=
  (1, 2 * ds, ynext)                                            (* [1]  :88  *)
  :: rows_vel dof vmin vmax                                     (* [2]  :91-99 *)
  ++ rows_acc_hi dof amax ++ rows_acc_lo dof amin               (* [3]  :102-105 *)
  ++ [(- (1), - (2 * ds), Some 0)].                             (* [4]  :108 (commit 80e48c1) *)

(* executable feasibility test of one row / all rows at (y, a) *)
Definition row_ok (y a : Q) (r : lprow) : bool :=
  match r with
  | (c0, c1, Some b) => Qle_bool (c0 * y + c1 * a) b
  | (_, _, None) => true
  end.
Definition rows_ok (rows : list lprow) (y a : Q) : bool := forallb (row_ok y a) rows.

(* :112-116   v2max(i) = v2opt  if Optimal,  inf  if DualInfeasible.  The third
   status (PrimaryInfeasible) leaves v2max(i) unassigned in the code; the model
   gives it no value either (None of the outer option). *)
Inductive lpstatus := LpOptimal | LpPrimaryInfeasible | LpDualInfeasible.
Definition v2max_of_lp (st : lpstatus) (v2opt : Q) : option (option Q) :=
  match st with
  | LpOptimal => Some (Some v2opt)
  | LpDualInfeasible => Some None
  | LpPrimaryInfeasible => None
  end.
