(* Property C15 - the concrete worlds: the library's groups with the operations GENERATED from the headers
   (coq/Gen/<G>.v: composition, inverse, exp, Identity, SO2 log), plus hand transcriptions (cited line by line)
   of the few members the translator does not trace: normalising constructors, same-scalar cast, lifts and
   projections.  DEFINITIONS ONLY. *)
From Coq Require Import Reals List Bool.
From SV Require Import Base.GenPrelude Base.Mat Doc.Groups Model.C15_History.
From SV Require Gen.SO2 Gen.SO3 Gen.SE2 Gen.SE3 Gen.Galilei Gen.SEK3_1 Gen.SEK3_2 Gen.SEK3_3.
Import ListNotations.
Local Open Scope R_scope.

Inductive sort : Type := SO2 | SO3 | SE2 | SE3 | GAL | SEK1 | SEK2 | SEK3.

(* number of coefficients; offset of the constrained (unit complex / unit quaternion) part; offset of the
   angular part of a tangent vector; dimension of the documented matrix *)
Definition rep (s : sort) : nat :=
  match s with SO2 => 2 | SO3 => 4 | SE2 => 4 | SE3 => 7 | GAL => 11 | SEK1 => 7 | SEK2 => 10 | SEK3 => 13 end%nat.
Definition qoff (s : sort) : nat :=
  match s with SO2 => 0 | SO3 => 0 | SE2 => 2 | SE3 => 3 | GAL => 7 | SEK1 => 3 | SEK2 => 6 | SEK3 => 9 end%nat.
Definition toff (s : sort) : nat :=
  match s with SO2 => 0 | SO3 => 0 | SE2 => 2 | SE3 => 3 | GAL => 7 | SEK1 => 3 | SEK2 => 6 | SEK3 => 9 end%nat.
Definition dim (s : sort) : nat :=
  match s with SO2 => 2 | SO3 => 3 | SE2 => 3 | SE3 => 4 | GAL => 5 | SEK1 => 4 | SEK2 => 5 | SEK3 => 6 end%nat.
Definition planar (s : sort) : bool := match s with SO2 | SE2 => true | _ => false end.

(* ---- generated operations ---- *)
Definition comp_rel (s : sort) : list R -> list R -> list R -> Prop :=
  match s with
  | SO2 => Gen.SO2.so2_comp_rel | SO3 => Gen.SO3.so3_comp_rel | SE2 => Gen.SE2.se2_comp_rel
  | SE3 => Gen.SE3.se3_comp_rel | GAL => Gen.Galilei.gal_comp_rel | SEK1 => Gen.SEK3_1.sek1_comp_rel
  | SEK2 => Gen.SEK3_2.sek2_comp_rel | SEK3 => Gen.SEK3_3.sek3_comp_rel
  end.
Definition inv_rel (s : sort) : list R -> list R -> Prop :=
  match s with
  | SO2 => Gen.SO2.so2_inv_rel | SO3 => Gen.SO3.so3_inv_rel | SE2 => Gen.SE2.se2_inv_rel
  | SE3 => Gen.SE3.se3_inv_rel | GAL => Gen.Galilei.gal_inv_rel | SEK1 => Gen.SEK3_1.sek1_inv_rel
  | SEK2 => Gen.SEK3_2.sek2_inv_rel | SEK3 => Gen.SEK3_3.sek3_inv_rel
  end.
Definition exp_rel (s : sort) : list R -> list R -> Prop :=
  match s with
  | SO2 => Gen.SO2.so2_exp_rel | SO3 => Gen.SO3.so3_exp_rel | SE2 => Gen.SE2.se2_exp_rel
  | SE3 => Gen.SE3.se3_exp_rel | GAL => Gen.Galilei.gal_exp_rel | SEK1 => Gen.SEK3_1.sek1_exp_rel
  | SEK2 => Gen.SEK3_2.sek2_exp_rel | SEK3 => Gen.SEK3_3.sek3_exp_rel
  end.
Definition id_rel (s : sort) : list R -> Prop :=
  match s with
  | SO2 => Gen.SO2.so2_identity_rel | SO3 => Gen.SO3.so3_identity_rel | SE2 => Gen.SE2.se2_identity_rel
  | SE3 => Gen.SE3.se3_identity_rel | GAL => Gen.Galilei.gal_identity_rel | SEK1 => Gen.SEK3_1.sek1_identity_rel
  | SEK2 => Gen.SEK3_2.sek2_identity_rel | SEK3 => Gen.SEK3_3.sek3_identity_rel
  end.

(* ---- documented constraint / matrix (Doc/Groups.v) ---- *)
Definition valid (s : sort) : list R -> Prop :=
  match s with
  | SO2 => so2_valid | SO3 => so3_valid | SE2 => se2_valid | SE3 => se3_valid | GAL => gal_valid
  | SEK1 => sek_valid 1 | SEK2 => sek_valid 2 | SEK3 => sek_valid 3
  end.
Definition gmat (s : sort) : list R -> mat :=
  match s with
  | SO2 => so2_mat | SO3 => so3_mat | SE2 => se2_mat | SE3 => se3_mat | GAL => gal_mat
  | SEK1 => sek_mat 1 | SEK2 => sek_mat 2 | SEK3 => sek_mat 3
  end.
(* canonical hemisphere of the quaternion (so3.hpp: "q_w >= 0"); nothing for the planar groups *)
Definition canon (s : sort) (q : list R) : Prop := if planar s then True else 0 <= nth (qoff s + 3) q 0.
Definition good (s : sort) (q : list R) : Prop := length q = rep s /\ valid s q /\ canon s q.

(* squared norm of the constrained part *)
Definition sqn (s : sort) (q : list R) : R :=
  let k := qoff s in
  if planar s then nth k q 0 * nth k q 0 + nth (k + 1) q 0 * nth (k + 1) q 0
  else nth k q 0 * nth k q 0 + nth (k + 1) q 0 * nth (k + 1) q 0 + nth (k + 2) q 0 * nth (k + 2) q 0
       + nth (k + 3) q 0 * nth (k + 3) q 0.

(* the exp argument takes the closed-form path of SO3Impl::exp (detail/so3.hpp:156-171) or is exactly zero *)
Definition eps2 : R := 3022314549036573 / 302231454903657293676544.
Definition texact (s : sort) (a : list R) : Prop :=
  if planar s then True
  else let k := toff s in
       let t := nth k a 0 * nth k a 0 + (nth (k + 1) a 0 * nth (k + 1) a 0 + nth (k + 2) a 0 * nth (k + 2) a 0) in
       t = 0 \/ eps2 <= t.

(* ---- constructors ---- *)
Inductive ctor : Type :=
| KId (s : sort)          (* G::Identity()                      lie_group_base.hpp:124 -> Impl::setIdentity (traced) *)
| KSO3quat                (* SO3(Eigen::Quaternion(w,x,y,z))    so3.hpp:177-181; args [x;y;z;w] *)
| KSO3rot (axis : nat)    (* SO3::rot_x / rot_y / rot_z(angle)  so3.hpp:187-221; args [angle] *)
| KSO2angle               (* SO2(angle)                         so2.hpp:217-223; args [angle] *)
| KSO2coef.               (* SO2(qz, qw)                        so2.hpp:203-210; args [qz; qw] *)
Definition ksort (k : ctor) : sort :=
  match k with KId s => s | KSO3quat | KSO3rot _ => SO3 | KSO2angle | KSO2coef => SO2 end.

(* if (m_coeffs(3) < 0) m_coeffs *= Scalar(-1)     so3.hpp:180 (and :193, :206, :219) *)
Definition sign_fix (p out : list R) : Prop :=
  (nth 3 p 0 < 0 /\ out = vscale (-1) p) \/ (~ nth 3 p 0 < 0 /\ out = p).

(* quat.normalized(): Eigen 3.4 Dot.h MatrixBase::normalized():  z = squaredNorm(); if (z > 0) n / sqrt(z) else n.
   The else branch (zero quaternion) yields an invalid element; the API requires a non-zero quaternion, which is
   the precondition kept in the relation. *)
Definition so3_quat_ctor (args out : list R) : Prop :=
  let x := nth 0 args 0 in let y := nth 1 args 0 in let z := nth 2 args 0 in let w := nth 3 args 0 in
  let zz := x * x + y * y + z * z + w * w in
  0 < zz /\ sign_fix [x / sqrt zz; y / sqrt zz; z / sqrt zz; w / sqrt zz] out.

Definition so3_rot_ctor (axis : nat) (args out : list R) : Prop :=
  let a := nth 0 args 0 in
  let s := sin (a / 2) in let c := cos (a / 2) in
  sign_fix (match axis with O => [s; 0; 0; c] | S O => [0; s; 0; c] | _ => [0; 0; s; c] end) out.

Definition so2_angle_ctor (args out : list R) : Prop :=
  let a := nth 0 args 0 in out = [sin a; cos a].

Definition so2_coef_ctor (args out : list R) : Prop :=
  let qz := nth 0 args 0 in let qw := nth 1 args 0 in
  let n := sqrt (qw * qw + qz * qz) in
  0 < qw * qw + qz * qz /\ out = [qz / n; qw / n].

Definition ctor_rel (k : ctor) (args out : list R) : Prop :=
  match k with
  | KId s => id_rel s out
  | KSO3quat => so3_quat_ctor args out
  | KSO3rot ax => so3_rot_ctor ax args out
  | KSO2angle => so2_angle_ctor args out
  | KSO2coef => so2_coef_ctor args out
  end.

(* ---- conversions ---- *)
Inductive conv : Type :=
| CCast (s : sort)   (* x.cast<Scalar>()   lie_group_base.hpp:169-174: coefficient-wise static_cast to the same type *)
| CLiftSO3           (* SO2::lift_so3()    so2.hpp:155-161 *)
| CProjSO2           (* SO3::project_so2() so3.hpp:136-143 *)
| CLiftSE3           (* SE2::lift_se3()    se2.hpp:142-145 *)
| CProjSE2.          (* SE3::project_se2() se3.hpp:142 *)
Definition csrc (c : conv) : sort :=
  match c with CCast s => s | CLiftSO3 => SO2 | CProjSO2 => SO3 | CLiftSE3 => SE2 | CProjSE2 => SE3 end.
Definition cdst (c : conv) : sort :=
  match c with CCast s => s | CLiftSO3 => SO3 | CProjSO2 => SO2 | CLiftSE3 => SE3 | CProjSE2 => SE2 end.
Definition conv_fresh (c : conv) : bool := match c with CCast _ => false | _ => true end.

(* yaw = Base::log().x();  return SO3(Eigen::Quaternion(cos(yaw / 2), 0, 0, sin(yaw / 2)))   [w,x,y,z order] *)
Definition lift_so3 (g out : list R) : Prop :=
  exists l, Gen.SO2.so2_log_rel g l /\
    let yaw := nth 0 l 0 in so3_quat_ctor [0; 0; sin (yaw / 2); cos (yaw / 2)] out.
(* yaw = atan2(2 (w z + x y), 1 - 2 (y y + z z));  return SO2(yaw) *)
Definition proj_so2 (g out : list R) : Prop :=
  let x := nth 0 g 0 in let y := nth 1 g 0 in let z := nth 2 g 0 in let w := nth 3 g 0 in
  let yaw := atan2 (2 * (w * z + x * y)) (1 - 2 * (y * y + z * z)) in
  so2_angle_ctor [yaw] out.
(* SE3(so2().lift_so3(), Vector3(r2().x(), r2().y(), 0))  with SE3(so3, r3): so3() = so3, r3() = r3 (se3.hpp:184-189) *)
Definition lift_se3 (g out : list R) : Prop :=
  exists q, lift_so3 [nth 2 g 0; nth 3 g 0] q /\ out = [nth 0 g 0; nth 1 g 0; 0] ++ q.
(* SE2(so3().project_so2(), r3().head<2>())  (se2.hpp:187-191) *)
Definition proj_se2 (g out : list R) : Prop :=
  exists q, proj_so2 [nth 3 g 0; nth 4 g 0; nth 5 g 0; nth 6 g 0] q /\ out = [nth 0 g 0; nth 1 g 0] ++ q.

Definition conv_rel (c : conv) (g out : list R) : Prop :=
  match c with
  | CCast _ => out = g
  | CLiftSO3 => lift_so3 g out
  | CProjSO2 => proj_so2 g out
  | CLiftSE3 => lift_se3 g out
  | CProjSE2 => proj_se2 g out
  end.

(* ---- the worlds ---- *)
(* the code, all inputs *)
Definition Wcode : world sort conv ctor (list R) :=
  Build_world comp_rel inv_rel exp_rel conv_rel ctor_rel.
(* the code, exp restricted to arguments on the closed-form path (exact semantics theorems) *)
Definition WcodeX : world sort conv ctor (list R) :=
  Build_world comp_rel inv_rel (fun s a out => texact s a /\ exp_rel s a out) conv_rel ctor_rel.
(* the group-theoretic meaning: products and inverses of the documented matrices; exp, constructors and
   conversions mean "the documented matrix of what the library returns" (C02 / C17 say what that is) *)
Definition Wspec : world sort conv ctor mat :=
  Build_world
    (fun s A B C => C = mmul A B)
    (fun s A B => mmul B A = mI (dim s) /\ mmul A B = mI (dim s))
    (fun s a X => exists out, exp_rel s a out /\ X = gmat s out)
    (fun c A B => exists g out, A = gmat (csrc c) g /\ conv_rel c g out /\ B = gmat (cdst c) out)
    (fun k args X => exists out, ctor_rel k args out /\ X = gmat (ksort k) out).

(* ---- stored results: norm-wise relative perturbation e of the constrained part, up to the overall sign the
   final sign test decides on the rounded value; the other coefficients are unconstrained ---- *)
Definition qdist2 (s : sort) (sg : R) (a b : list R) : R :=
  let k := qoff s in
  let d i := nth (k + i) b 0 - sg * nth (k + i) a 0 in
  if planar s then d 0%nat * d 0%nat + d 1%nat * d 1%nat
  else d 0%nat * d 0%nat + d 1%nat * d 1%nat + d 2%nat * d 2%nat + d 3%nat * d 3%nat.
Definition store_pert (e : R) (s : sort) (out q : list R) : Prop :=
  qdist2 s 1 out q <= e * e * sqn s out \/ qdist2 s (-1) out q <= e * e * sqn s out.
(* special case used by the refutation: component-wise relative errors *)
Definition store_rel (e : R) (s : sort) (out q : list R) : Prop :=
  length q = length out /\
  forall i, (i < length out)%nat -> exists d, Rabs d <= e /\ nth i q 0 = nth i out 0 * (1 + d).

(* x0 := Identity; x0 := x0 * x0 (n times) *)
Definition sq_prog (n : nat) : list (op sort conv ctor (list R)) := OCtor 0%nat (KId SO3) [] :: squaring n.
