(* Property C15 - executable/relational model of operation histories over a register file.
   DEFINITIONS ONLY (no proofs).  The group operations themselves are parameters (a [world]); they are
   instantiated in Proofs/C15_Inst.v with the definitions GENERATED from /repo's headers (coq/Gen/<G>.v).
   What is transcribed by hand here is the dispatch code of include/smooth/lie_group_base.hpp and
   include/smooth/compat/odeint.hpp (cited line by line). *)
From Coq Require Import Reals List ZArith Bool.
From SV Require Import Base.Mat.
Import ListNotations.
Local Open Scope R_scope.

Definition reg := nat.

(* ------------------------------------------------------------------ programs *)
Section Programs.
  (* sort = which Lie group a register holds; conv = conversions between groups (same-scalar cast, lifts,
     projections); ctor = the library's constructors.  T = payload (real arguments: [list R]; program
     shapes used for the executable bookkeeping: [unit]). *)
  Variables sort conv ctor : Type.

  Inductive op (T : Type) : Type :=
  | OCtor (d : reg) (k : ctor) (args : T)              (* d := G(args)  / G::Identity() / rot_x(..)        *)
  | OExp (d : reg) (s : sort) (a : T)                  (* d := G::exp(a)                lie_group_base.hpp:285 *)
  | OComp (d x y : reg)                                (* d := x * y                    lie_group_base.hpp:181 *)
  | OInv (d x : reg)                                   (* d := x.inverse()              lie_group_base.hpp:202 *)
  | ORplus (d x : reg) (a : T)                         (* d := x + a  = x * exp(a)      lie_group_base.hpp:244 *)
  | OMulAssign (x y : reg)                             (* x *= y : coeffs = (x*y).coeffs lie_group_base.hpp:193 *)
  | OPlusAssign (x : reg) (a : T)                      (* x += a : x *= exp(a)          lie_group_base.hpp:256 *)
  | OConv (d : reg) (c : conv) (x : reg)               (* d := x.cast<S>() / lift_* / project_*              *)
  | OScaleSum (d x : reg) (alphas : T) (ks : list T).  (* odeint scale_sum<..>(alphas)(d, x, ks...)  compat/odeint.hpp:60 *)

  (* a world: the operations of all groups on elements of type E (E = coefficient lists for the code,
     E = matrices for the group-theoretic specification) *)
  Record world (E : Type) : Type := {
    w_comp : sort -> E -> E -> E -> Prop;
    w_inv  : sort -> E -> E -> Prop;
    w_exp  : sort -> list R -> E -> Prop;
    w_conv : conv -> E -> E -> Prop;
    w_ctor : ctor -> list R -> E -> Prop
  }.
  Arguments w_comp {E}. Arguments w_inv {E}. Arguments w_exp {E}. Arguments w_conv {E}. Arguments w_ctor {E}.
  Variables csrc cdst : conv -> sort.
  Variable ksort : ctor -> sort.

  Definition state (E : Type) := reg -> option (sort * E).
  Definition upd {E} (st : state E) (d : reg) (v : sort * E) : state E :=
    fun r => if Nat.eqb r d then Some v else st r.
  Definition empty {E} : state E := fun _ => None.

  (* compat/odeint.hpp:52-56  helper: ((std::get<Is + 1>(m_alpha) * as) + ...)  - unary right fold over the
     pack; the weights are shifted by one because alpha_1 (the weight of the state x) is not used *)
  Fixpoint ss_sum (al : list R) (ks : list (list R)) : list R :=
    match al, ks with
    | a :: al', k :: ks' =>
        match ks' with
        | [] => vscale a k
        | _ :: _ => vadd (vscale a k) (ss_sum al' ks')
        end
    | _, _ => []
    end.
  Definition ss_tangent (alphas : list R) (ks : list (list R)) : list R := ss_sum (tl alphas) ks.

  Section Step.
    Variable E : Type.
    Variable W : world E.
    (* [store s exact stored]: what ends up in memory when the exact result of an operation is [exact].
       Exact semantics: store = eq.  Perturbation semantics: see Proofs/C15_Norm.v *)
    Variable store : sort -> E -> E -> Prop.

    (* x * y followed by the write of the result *)
    Definition do_comp (s : sort) (g h q : E) : Prop := exists out, w_comp W s g h out /\ store s out q.
    Definition do_exp (s : sort) (a : list R) (q : E) : Prop := exists out, w_exp W s a out /\ store s out q.
    (* x + a :  [this * exp(a)]   (lie_group_base.hpp:246) - the temporary exp(a) is a stored object too *)
    Definition do_rplus (s : sort) (g : E) (a : list R) (q : E) : Prop :=
      exists e, do_exp s a e /\ do_comp s g e q.

    Inductive step (st : state E) : op (list R) -> state E -> Prop :=
    | S_ctor d k args out q :
        w_ctor W k args out -> store (ksort k) out q ->
        step st (OCtor (list R) d k args) (upd st d (ksort k, q))
    | S_exp d s a q :
        do_exp s a q -> step st (OExp (list R) d s a) (upd st d (s, q))
    | S_comp d x y s g h q :
        st x = Some (s, g) -> st y = Some (s, h) -> do_comp s g h q ->
        step st (OComp _ d x y) (upd st d (s, q))
    | S_inv d x s g out q :
        st x = Some (s, g) -> w_inv W s g out -> store s out q ->
        step st (OInv _ d x) (upd st d (s, q))
    | S_rplus d x a s g q :
        st x = Some (s, g) -> do_rplus s g a q ->
        step st (ORplus (list R) d x a) (upd st d (s, q))
    | S_mulassign x y s g h q :                       (* derived().coeffs() = ( *this * o).coeffs() *)
        st x = Some (s, g) -> st y = Some (s, h) -> do_comp s g h q ->
        step st (OMulAssign _ x y) (upd st x (s, q))
    | S_plusassign x a s g q :                        (* this *= exp(a) *)
        st x = Some (s, g) -> do_rplus s g a q ->
        step st (OPlusAssign (list R) x a) (upd st x (s, q))
    | S_conv d c x g out q :
        st x = Some (csrc c, g) -> w_conv W c g out -> store (cdst c) out q ->
        step st (OConv _ d c x) (upd st d (cdst c, q))
    | S_scalesum d x alphas ks s g q :                (* y = smooth::rplus(x, helper(...))  compat/odeint.hpp:64;  rplus -> traits::man<G>::rplus =
                                                         composition(g, exp(a))  concepts/manifold.hpp:163, concepts/lie_group.hpp:122-125 *)
        st x = Some (s, g) -> do_rplus s g (ss_tangent alphas ks) q ->
        step st (OScaleSum (list R) d x alphas ks) (upd st d (s, q)).

    Inductive run : state E -> list (op (list R)) -> state E -> Prop :=
    | R_nil st : run st [] st
    | R_cons st o st1 p st2 : step st o st1 -> run st1 p st2 -> run st (o :: p) st2.
  End Step.

  (* ------------------------------------------------------------------ executable bookkeeping
     size of the UNFOLDED expression tree behind each register, counted in "stored results":
     every stored result contributes one perturbation of the constraint; an operand contributes its
     whole tree again each time it is used (this is what makes x := x*x exponential). *)
  Variable conv_fresh : conv -> bool.   (* true: the conversion goes through a normalising constructor *)

  Definition dest {T} (o : op T) : reg :=
    match o with
    | OCtor _ d _ _ | OExp _ d _ _ | OComp _ d _ _ | OInv _ d _ | ORplus _ d _ _ | OConv _ d _ _
    | OScaleSum _ d _ _ _ => d
    | OMulAssign _ x _ | OPlusAssign _ x _ => x
    end.

  Definition wupd (w : reg -> Z) (d : reg) (v : Z) : reg -> Z := fun r => if Nat.eqb r d then v else w r.

  Definition tsize_op {T} (w : reg -> Z) (o : op T) : Z :=
    match o with
    | OCtor _ _ _ _ | OExp _ _ _ _ => 1
    | OComp _ _ x y | OMulAssign _ x y => w x + w y + 1
    | OInv _ _ x => w x + 1
    | ORplus _ _ x _ | OPlusAssign _ x _ | OScaleSum _ _ x _ _ => w x + 2
    | OConv _ _ c x => if conv_fresh c then 1 else w x + 1
    end%Z.

  Definition tsize_step {T} (w : reg -> Z) (o : op T) : reg -> Z := wupd w (dest o) (tsize_op w o).
  Definition tsize {T} (p : list (op T)) (w0 : reg -> Z) : reg -> Z := fold_left tsize_step p w0.

  (* trace: tree size of the destination after every operation *)
  Fixpoint tsize_trace {T} (p : list (op T)) (w : reg -> Z) : list Z :=
    match p with
    | [] => []
    | o :: p' => tsize_op w o :: tsize_trace p' (tsize_step w o)
    end.

  (* freshness: a register is fresh when it holds a constructor / exp / normalising-conversion result *)
  Definition fresh_op {T} (f : reg -> bool) (o : op T) : bool :=
    match o with
    | OCtor _ _ _ _ | OExp _ _ _ _ => true
    | OConv _ _ c _ => conv_fresh c
    | _ => false
    end.
  Definition fupd (f : reg -> bool) (d : reg) (v : bool) : reg -> bool := fun r => if Nat.eqb r d then v else f r.
  Definition fresh_step {T} (f : reg -> bool) (o : op T) : reg -> bool := fupd f (dest o) (fresh_op f o).

  (* linear histories: every composition has at most one non-fresh operand (chains, odeint steps) *)
  Definition linear_op {T} (f : reg -> bool) (o : op T) : bool :=
    match o with
    | OComp _ _ x y | OMulAssign _ x y => f x || f y
    | _ => true
    end.
  Fixpoint linear {T} (p : list (op T)) (f : reg -> bool) : bool :=
    match p with
    | [] => true
    | o :: p' => linear_op f o && linear p' (fresh_step f o)
    end.

  (* operand-reuse depth: nesting of compositions whose operands are both non-fresh *)
  Definition rdepth_op {T} (f : reg -> bool) (dp : reg -> Z) (o : op T) : Z :=
    match o with
    | OCtor _ _ _ _ | OExp _ _ _ _ => 0
    | OComp _ _ x y | OMulAssign _ x y =>
        if f x || f y then Z.max (dp x) (dp y) else 1 + Z.max (dp x) (dp y)
    | OInv _ _ x | ORplus _ _ x _ | OPlusAssign _ x _ | OScaleSum _ _ x _ _ => dp x
    | OConv _ _ c x => if conv_fresh c then 0 else dp x
    end%Z.
  Fixpoint rdepth_trace {T} (p : list (op T)) (f : reg -> bool) (dp : reg -> Z) : list Z :=
    match p with
    | [] => []
    | o :: p' => rdepth_op f dp o :: rdepth_trace p' (fresh_step f o) (wupd dp (dest o) (rdepth_op f dp o))
    end.

  (* ------------------------------------------------------------------ program families *)
  (* x := x * x  repeated n times on register 0 *)
  Definition squaring {T} (n : nat) : list (op T) := repeat (OComp T 0%nat 0%nat 0%nat) n.

  (* one step of an explicit Runge-Kutta method run through boost::odeint with the adaptor, for the system
     dx/dt = v (constant body velocity): stage i calls scale_sum(1, dt*a_i1, .., dt*a_i,i-1)(xtmp, x, k_1..k_i-1)
     and the final update scale_sum(1, dt*b_1, .., dt*b_s)(x, x, k_1..k_s), all k_j = v.
     Register 0 = x, register 1 = xtmp.  A tableau = (rows of A with at least one entry, b). *)
  Definition rk_call (d : reg) (dt : R) (coefs v : list R) : op (list R) :=
    OScaleSum (list R) d 0%nat (1 :: map (Rmult dt) coefs) (repeat v (length coefs)).
  Definition rk_step (dt : R) (A : list (list R)) (b v : list R) : list (op (list R)) :=
    map (fun row => rk_call 1%nat dt row v) A ++ [rk_call 0%nat dt b v].
  Fixpoint rk_run (n : nat) (dt : R) (A : list (list R)) (b v : list R) : list (op (list R)) :=
    match n with
    | O => []
    | S n' => rk_step dt A b v ++ rk_run n' dt A b v
    end.
End Programs.

Arguments OCtor {sort conv ctor T}. Arguments OExp {sort conv ctor T}. Arguments OComp {sort conv ctor T}.
Arguments OInv {sort conv ctor T}. Arguments ORplus {sort conv ctor T}. Arguments OMulAssign {sort conv ctor T}.
Arguments OPlusAssign {sort conv ctor T}. Arguments OConv {sort conv ctor T}. Arguments OScaleSum {sort conv ctor T}.
Arguments Build_world {sort conv ctor E}.
Arguments w_comp {sort conv ctor E}. Arguments w_inv {sort conv ctor E}. Arguments w_exp {sort conv ctor E}.
Arguments w_conv {sort conv ctor E}. Arguments w_ctor {sort conv ctor E}.
Arguments upd {sort E}. Arguments empty {sort E}.
Arguments do_comp {sort conv ctor E}. Arguments do_exp {sort conv ctor E}. Arguments do_rplus {sort conv ctor E}.
Arguments step {sort conv ctor} csrc cdst ksort {E} W store.
Arguments run {sort conv ctor} csrc cdst ksort {E} W store.
Arguments dest {sort conv ctor T}. Arguments tsize_op {sort conv ctor} conv_fresh {T}.
Arguments tsize_step {sort conv ctor} conv_fresh {T}. Arguments tsize {sort conv ctor} conv_fresh {T}.
Arguments tsize_trace {sort conv ctor} conv_fresh {T}.
Arguments fresh_op {sort conv ctor} conv_fresh {T}. Arguments fresh_step {sort conv ctor} conv_fresh {T}.
Arguments linear_op {sort conv ctor T}. Arguments linear {sort conv ctor} conv_fresh {T}.
Arguments rdepth_op {sort conv ctor} conv_fresh {T}. Arguments rdepth_trace {sort conv ctor} conv_fresh {T}.
Arguments squaring {sort conv ctor T}. Arguments rk_call {sort conv ctor}. Arguments rk_step {sort conv ctor}.
Arguments rk_run {sort conv ctor}.
