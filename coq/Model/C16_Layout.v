(* C16 - memory model of value / Map / const-Map storage of the smooth Lie group classes.

   Memory is a list of cells (one cell = one Scalar, represented by the integer value of its bit pattern);
   a view is (offset, length) in cells relative to the start of that memory.  A value object is a view of
   the memory it owns (detail/macro.hpp:44-56: Storage = Eigen::Matrix<Scalar,RepSize,1> m_coeffs), a
   Map<G> / Map<const G> is a view of caller-owned memory (detail/macro.hpp:63-85 / :91-104: Storage =
   Eigen::Map<[const] Matrix<Scalar,RepSize,1>> m_coeffs(p); data() = m_coeffs.data() = p).

   Transcribed operations (file:line of /repo/include/smooth):
     load         const coeffs() / data() read                       detail/macro.hpp:48,52,78,82,100,102
     store        `coeffs() = <RepSize coefficients>`                 (Eigen dense assignment, index order)
     copy_fwd     operator= across storage kinds                      lie_group_base.hpp:94-100
                  copy constructor from other storage kind            detail/macro.hpp:36-41
                  (`derived().coeffs() = o.coeffs()`: coefficient i := coefficient i, i = 0..RepSize-1,
                   without a temporary - Eigen's aliasing contract)
     compute      operator*= : `coeffs() = ( *this * o ).coeffs()`      lie_group_base.hpp:194-198
                  operator+= : `*this *= exp(a)`                      lie_group_base.hpp:256-260
                  setIdentity / setRandom                             lie_group_base.hpp:112,119
                  (the result is built in a temporary PlainObject from LOADS made before the store)
     cast         `ret.coeffs() = coeffs().template cast<NewScalar>()` lie_group_base.hpp:170-175
     subview      pointer-offset accessors `data() + k`               bundle.hpp:84-101, se2.hpp:76-104,
                                                                       se3.hpp:76-104, galilei.hpp:75-134,
                                                                       se_k_3.hpp:85-146, so3.hpp:66-79
     psum         utils::array_psum (Bundle RepSizesPsum)             detail/utils.hpp:110-117, detail/bundle.hpp:36
   No proofs in this file. *)
From Coq Require Import String.
From Coq Require Import List Arith ZArith Bool.
Import ListNotations.

Definition cell := Z.
Definition mem := list cell.

Record view := mkView { voff : nat; vlen : nat }.

Definition vend (v : view) : nat := voff v + vlen v.
Definition inview (v : view) (i : nat) : bool := (voff v <=? i) && (i <? vend v).
Definition inbounds (n : nat) (v : view) : bool := vend v <=? n.
Definition disjoint (a b : view) : bool := (vend a <=? voff b) || (vend b <=? voff a).
Definition within (a b : view) : bool := (voff b <=? voff a) && (vend a <=? vend b).
Definition view_eqb (a b : view) : bool := (voff a =? voff b) && (vlen a =? vlen b).

(* pointer-offset accessor: a view `a` (relative to the start of view v) seen from the enclosing memory *)
Definition subview (v a : view) : view := mkView (voff v + voff a) (vlen a).

(* ---------------------------------------------------------------- primitive accesses *)
Definition load (m : mem) (v : view) : list cell := firstn (vlen v) (skipn (voff v) m).

(* write data cell by cell starting at off; never changes the length of the memory *)
Fixpoint store_at (m : mem) (off : nat) (data : list cell) : mem :=
  match m with
  | [] => []
  | c :: m' =>
      match off with
      | S o => c :: store_at m' o data
      | O => match data with
             | [] => m
             | d :: ds => d :: store_at m' 0 ds
             end
      end
  end.

(* a store THROUGH a view can write at most the vlen cells of the view (fixed-size Storage type) *)
Definition store (m : mem) (v : view) (data : list cell) : mem := store_at m (voff v) (firstn (vlen v) data).

(* `dst.coeffs() = src.coeffs()` without temporary: for i = 0 .. n-1: m[d+i] := m[s+i] *)
Fixpoint copy_fwd (m : mem) (d s n : nat) : mem :=
  match n with
  | O => m
  | S n' => copy_fwd (store_at m d [nth s m 0%Z]) (S d) (S s) n'
  end.

(* coefficient-wise scalar conversion, order preserved *)
Definition cast_cells (conv : cell -> cell) (l : list cell) : list cell := map conv l.

(* ---------------------------------------------------------------- operation alphabet *)
(* read-only members: everything a Map<const G> offers *)
Inductive rop :=
| RLoad (v : view)                                    (* coeffs() const, data() const, log, inverse, *, matrix, Ad ... *)
| RCast (v : view) (conv : cell -> cell).             (* cast<NewScalar>() *)

(* mutating members: only offered when is_mutable *)
Inductive wop :=
| WStore (v : view) (data : list cell)                (* coeffs() = <given RepSize coefficients> (e.g. from outside the memory) *)
| WCopy (dst src : view)                              (* operator= / cross-storage construction inside the memory *)
| WCompute (dst : view) (srcs : list view) (f : list (list cell) -> list cell).
                                                      (* *=, +=, setIdentity, setRandom, sub-part writes *)

Inductive op := R (o : rop) | W (o : wop).

Definition exec_w (m : mem) (o : wop) : mem :=
  match o with
  | WStore v data => store m v data
  | WCopy dst src => copy_fwd m (voff dst) (voff src) (vlen dst)
  | WCompute dst srcs f => store m dst (f (map (load m) srcs))
  end.

Definition result_r (m : mem) (o : rop) : list cell :=
  match o with
  | RLoad v => load m v
  | RCast v conv => cast_cells conv (load m v)
  end.

Definition exec (m : mem) (o : op) : mem :=
  match o with
  | R _ => m
  | W w => exec_w m w
  end.

Definition run (m : mem) (ops : list op) : mem := fold_left exec ops m.

(* access kinds of a handle: Map<G> / value = RW, Map<const G> = RO; the alphabet of each *)
Inductive acc := RW | RO.
Definition alphabet (a : acc) (o : op) : bool :=
  match a, o with
  | RO, W _ => false
  | _, _ => true
  end.

(* destination view of a mutating op, and the well-formedness of an op for a memory of n cells *)
Definition wdst (o : wop) : view :=
  match o with WStore v _ => v | WCopy d _ => d | WCompute d _ _ => d end.

(* Eigen's aliasing contract for `a = b` without temporary: source not partially overlapped from below
   (identical views, disjoint views and dst.off <= src.off are fine) *)
Definition copy_ok (dst src : view) : bool := (voff dst <=? voff src) || disjoint dst src.

Definition wf_w (n : nat) (m : mem) (o : wop) : bool :=
  match o with
  | WStore v data => inbounds n v && (length data =? vlen v)
  | WCopy dst src => inbounds n dst && inbounds n src && (vlen dst =? vlen src) && copy_ok dst src
  | WCompute dst srcs f => inbounds n dst && forallb (inbounds n) srcs && (length (f (map (load m) srcs)) =? vlen dst)
  end.

Definition wf_op (n : nat) (m : mem) (o : op) : bool :=
  match o with R _ => true | W w => wf_w n m w end.

Fixpoint wf_run (m : mem) (ops : list op) : bool :=
  match ops with
  | [] => true
  | o :: rest => wf_op (length m) m o && wf_run (exec m o) rest
  end.

(* ---------------------------------------------------------------- specification side: last writer wins *)
(* value of cell i after the ops, defined cell-wise and WITHOUT executing stores: look at the most recent
   mutating op whose destination view contains i; if none, the initial memory.  `hist` = the ops most recent
   first, each paired with the memory state it was executed in (only used to evaluate WCompute's loads). *)
Fixpoint lww (hist : list wop) (m0 : mem) (i : nat) : cell :=
  match hist with
  | [] => nth i m0 0%Z
  | WStore v data :: rest =>
      if inview v i then nth (i - voff v) data 0%Z else lww rest m0 i
  | WCopy dst src :: rest =>
      if inview dst i then lww rest m0 (voff src + (i - voff dst)) else lww rest m0 i
  | WCompute dst srcs f :: rest =>
      if inview dst i
      then nth (i - voff dst)
             (f (map (fun s => map (fun k => lww rest m0 (voff s + k)) (seq 0 (vlen s))) srcs)) 0%Z
      else lww rest m0 i
  end.

Fixpoint wops (ops : list op) : list wop :=
  match ops with
  | [] => []
  | R _ :: r => wops r
  | W w :: r => w :: wops r
  end.

Definition written (ops : list op) (i : nat) : bool := existsb (fun w => inview (wdst w) i) (wops ops).

(* ---------------------------------------------------------------- layouts *)
(* utils::array_psum: ret[0] = 0; partial_sum(x) -> ret[1..] *)
Fixpoint psum_from (acc0 : nat) (l : list nat) : list nat :=
  match l with
  | [] => [acc0]
  | x :: r => acc0 :: psum_from (acc0 + x) r
  end.
Definition psum (l : list nat) : list nat := psum_from 0 l.

Definition total (l : list nat) : nat := fold_right Nat.add 0 l.

(* BundleBase::part<i>: data() + RepSizesPsum[i], length RepSizes[i] *)
Definition bundle_part (sizes : list nat) (i : nat) : view := mkView (nth i (psum sizes) 0) (nth i sizes 0).
Definition bundle_views (sizes : list nat) : list view := map (bundle_part sizes) (seq 0 (length sizes)).

(* boolean checkers used on the generated table *)
Fixpoint pairwise_disjoint (vs : list view) : bool :=
  match vs with
  | [] => true
  | v :: r => forallb (disjoint v) r && pairwise_disjoint r
  end.
Definition covers (n : nat) (vs : list view) : bool :=
  forallb (fun i => existsb (fun v => inview v i) vs) (seq 0 n).
Definition all_within (n : nat) (vs : list view) : bool := forallb (inbounds n) vs.
Definition nonempty (vs : list view) : bool := forallb (fun v => 0 <? vlen v) vs.
Definition partition_ok (n : nat) (vs : list view) : bool :=
  pairwise_disjoint vs && covers n vs && all_within n vs && nonempty vs.

(* ---------------------------------------------------------------- documented memory layouts (header comments) *)
(* hand-transcribed from the "Memory layout" paragraphs:
     so3.hpp:  [qx qy qz qw]                    se2.hpp:33  [x, y, q_z, q_w]
     se3.hpp:26 [x, y, z, q_x, q_y, q_z, q_w]   galilei.hpp:24 [vx vy vz px py pz t qx qy qz qw]
     se_k_3.hpp:24 [p1, ..., pk, q_x, q_y, q_z, q_w] *)
Definition arow := (string * view)%type.
Local Open Scope string_scope.
Definition doc_SO2 : list arow := [].
Definition doc_C1 : list arow := [].
Definition doc_SO3 : list arow := [("quat", mkView 0 4)].
Definition doc_SE2 : list arow := [("r2", mkView 0 2); ("so2", mkView 2 2)].
Definition doc_SE3 : list arow := [("r3", mkView 0 3); ("so3", mkView 3 4)].
Definition doc_Galilei : list arow :=
  [("r3_v", mkView 0 3); ("r3_p", mkView 3 3); ("r1_t", mkView 6 1); ("so3", mkView 7 4)].
Definition doc_SEK3_parts (k : nat) : list view := map (fun j => mkView (3 * j) 3) (seq 0 k) ++ [mkView (3 * k) 4].
Definition doc_SEK3_repsize (k : nat) : nat := 3 * k + 4.

(* association-list helpers for the generated table *)
Fixpoint alookup {A : Type} (k : string) (l : list (string * A)) : option A :=
  match l with
  | [] => None
  | (k', a) :: r => if String.eqb k k' then Some a else alookup k r
  end.
Definition arow_eqb (a b : arow) : bool := String.eqb (fst a) (fst b) && view_eqb (snd a) (snd b).
Fixpoint rows_eqb (a b : list arow) : bool :=
  match a, b with
  | [], [] => true
  | x :: a', y :: b' => arow_eqb x y && rows_eqb a' b'
  | _, _ => false
  end.

(* ---------------------------------------------------------------- the generated table (coq/Gen/LayoutC16.v) *)
(* one measured accessor:  path from the outermost object ("part<1>.so2"), parent path ("" at top level),
   accessor name, MEASURED view (accessor().data() - outermost data(), number of scalars), whether the returned
   view type is writable, canonical name of the group the returned smooth::Map views ("" for Eigen::Map) *)
Record grow := mkRow { g_path : string; g_parent : string; g_name : string; g_view : view; g_writable : bool;
                       g_sub : string }.

(* one measured object: group, its class template, scalar, access kind (val_mut val_const map_mut map_const
   cmap cmap_lv), RepSize, RepSizes of the Bundle parts taken from each part's own Impl, accessor rows *)
Record gentry := mkEntry { e_group : string; e_type : string; e_scalar : string; e_kind : string; e_repsize : nat;
                           e_parts : list nat; e_rows : list grow }.

(* op alphabet of a storage kind (val / map / cmap), measured with requires-expressions *)
Record gcaps := mkCaps { c_group : string; c_scalar : string; c_kind : string;
                         c_assign_val : bool; c_assign_map : bool; c_muleq : bool; c_pluseq : bool;
                         c_coeffs_write : bool; c_data_write : bool; c_read_api : bool }.

(* statements whose ill-formedness is a hard error (not visible to a requires-expression): compiled one by one *)
Record gprobe := mkProbe { p_group : string; p_storage : string; p_stmt : string; p_compiles : bool }.

(* data() of a view relative to the pointer it was constructed from, and the size of coeffs() *)
Record gbase := mkBase { b_group : string; b_scalar : string; b_map_off : nat; b_cmap_off : nat;
                         b_map_size : nat; b_cmap_size : nat; b_val_size : nat }.

Definition is_dyn (r : grow) : bool := String.prefix "r3(" (g_name r).
Definition top (rows : list grow) : list grow := filter (fun r => String.eqb (g_parent r) "") rows.
Definition primary (rows : list grow) : list grow := filter (fun r => negb (is_dyn r)) (top rows).
Definition dyn (rows : list grow) : list grow := filter is_dyn (top rows).
Definition arows (rows : list grow) : list arow := map (fun r => (g_name r, g_view r)) rows.
Definition children (rows : list grow) (p : string) : list grow := filter (fun r => String.eqb (g_parent r) p) rows.

Definition grow_eqb (a b : grow) : bool :=
  String.eqb (g_path a) (g_path b) && String.eqb (g_parent a) (g_parent b) && String.eqb (g_name a) (g_name b)
  && view_eqb (g_view a) (g_view b) && String.eqb (g_sub a) (g_sub b).
Fixpoint grows_eqb (a b : list grow) : bool :=
  match a, b with
  | [], [] => true
  | x :: a', y :: b' => grow_eqb x y && grows_eqb a' b'
  | _, _ => false
  end.

Definition digit (n : nat) : string :=
  match n with 0 => "0" | 1 => "1" | 2 => "2" | 3 => "3" | 4 => "4" | 5 => "5" | 6 => "6" | 7 => "7" | 8 => "8" | _ => "9" end.

Definition doc_SEK3 (k : nat) : list arow :=
  combine (map (fun j => "r3<" ++ digit j ++ ">") (seq 0 k) ++ ["so3"]) (doc_SEK3_parts k).
Definition doc_SEK3_dyn (k : nat) : list arow :=
  combine (map (fun j => "r3(" ++ digit j ++ ")") (seq 0 k)) (doc_SEK3_parts k).
Definition doc_bundle (sizes : list nat) : list arow :=
  combine (map (fun j => "part<" ++ digit j ++ ">") (seq 0 (List.length sizes))) (bundle_views sizes).

(* documented layout of a measured object: (RepSize, accessor rows, run-time indexed duplicates) *)
Definition doc_of (e : gentry) : option (nat * list arow * list arow) :=
  let g := e_group e in
  if String.eqb g "SO2" then Some (2, doc_SO2, [])
  else if String.eqb g "C1" then Some (2, doc_C1, [])
  else if String.eqb g "SO3" then Some (4, doc_SO3, [])
  else if String.eqb g "SE2" then Some (4, doc_SE2, [])
  else if String.eqb g "SE3" then Some (7, doc_SE3, [])
  else if String.eqb g "Galilei" then Some (11, doc_Galilei, [])
  else if String.eqb g "SEK3_1" then Some (doc_SEK3_repsize 1, doc_SEK3 1, doc_SEK3_dyn 1)
  else if String.eqb g "SEK3_2" then Some (doc_SEK3_repsize 2, doc_SEK3 2, doc_SEK3_dyn 2)
  else if String.eqb g "SEK3_3" then Some (doc_SEK3_repsize 3, doc_SEK3 3, doc_SEK3_dyn 3)
  else if String.eqb g "SEK3_5" then Some (doc_SEK3_repsize 5, doc_SEK3 5, doc_SEK3_dyn 5)
  else if String.eqb (e_type e) "Bundle" then Some (total (e_parts e), doc_bundle (e_parts e), [])
  else None.

Definition find_entry (t : list gentry) (g sc k : string) : option gentry :=
  find (fun e => String.eqb (e_group e) g && String.eqb (e_scalar e) sc && String.eqb (e_kind e) k) t.

Definition kind_writable (k : string) : bool := String.eqb k "val_mut" || String.eqb k "map_mut".

(* nested accessors: the rows below a row that returns a smooth::Map of group H are H's own accessor rows
   (measured on H alone, same scalar and kind) shifted by the row's offset, and the row spans RepSize(H) *)
Definition nested_ok (t : list gentry) (e : gentry) (r : grow) : bool :=
  if String.eqb (g_sub r) "" then
    match children (e_rows e) (g_path r) with [] => true | _ => false end
  else
    match find_entry t (g_sub r) (e_scalar e) (e_kind e) with
    | None => false
    | Some h =>
        (Nat.eqb (vlen (g_view r)) (e_repsize h))
        && rows_eqb (arows (children (e_rows e) (g_path r)))
                    (map (fun c => (g_name c, subview (g_view r) (g_view c))) (top (e_rows h)))
    end.

(* everything that is checked about one measured object *)
Definition check_entry (t : list gentry) (e : gentry) : bool :=
  match doc_of e with
  | None => false
  | Some (n, doc, docdyn) =>
      (Nat.eqb (e_repsize e) (n))
      && rows_eqb (arows (primary (e_rows e))) doc                       (* sits where the header comment says *)
      && rows_eqb (arows (dyn (e_rows e))) docdyn
      && match doc with [] => true | _ => partition_ok n (map snd (arows (primary (e_rows e)))) end
      && forallb (nested_ok t e) (e_rows e)
      && forallb (fun r => inbounds (e_repsize e) (g_view r)) (e_rows e)   (* incl. nested and r3(k) rows *)
      && forallb (fun r => Bool.eqb (g_writable r) (kind_writable (e_kind e))) (e_rows e)
      && match find_entry t (e_group e) "double" "val_mut" with           (* every kind and scalar agrees *)
         | None => false
         | Some e0 => grows_eqb (e_rows e) (e_rows e0) && (Nat.eqb (e_repsize e) (e_repsize e0))
         end
  end.

Definition all_kinds : list string := ["val_mut"; "val_const"; "map_mut"; "map_const"; "cmap"; "cmap_lv"].
Definition all_scalars : list string := ["double"; "float"].

(* a group is fully checked when all 12 (scalar, kind) objects are present and pass *)
Definition check_group (t : list gentry) (g : string) : bool :=
  forallb (fun sc => forallb (fun k => match find_entry t g sc k with
                                       | None => false
                                       | Some e => check_entry t e
                                       end) all_kinds) all_scalars.

Definition mutators_all (c : gcaps) (b : bool) : bool :=
  Bool.eqb (c_assign_val c) b && Bool.eqb (c_assign_map c) b && Bool.eqb (c_muleq c) b && Bool.eqb (c_pluseq c) b
  && Bool.eqb (c_coeffs_write c) b && Bool.eqb (c_data_write c) b.

(* the op alphabet: value and Map offer every mutating member, const Map offers none; all offer the read API *)
Definition check_caps (c : gcaps) : bool :=
  c_read_api c && mutators_all c (negb (String.eqb (c_kind c) "cmap")).
Definition check_probe (p : gprobe) : bool :=
  if String.eqb (p_stmt p) "read_api" then p_compiles p
  else Bool.eqb (p_compiles p) (negb (String.eqb (p_storage p) "cmap")).
Definition probe_present (t : list gprobe) (g st stmt : string) : bool :=
  existsb (fun p => String.eqb (p_group p) g && String.eqb (p_storage p) st && String.eqb (p_stmt p) stmt) t.
Definition check_base (b : gbase) (n : nat) : bool :=
  (Nat.eqb (b_map_off b) (0)) && (Nat.eqb (b_cmap_off b) (0)) && (Nat.eqb (b_map_size b) (n)) && (Nat.eqb (b_cmap_size b) (n)) && (Nat.eqb (b_val_size b) (n)).
