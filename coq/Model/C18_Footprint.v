(* C18 - the operation alphabet and its footprint table.  No proofs in this file.

   The table itself (which operation of the alphabet stores into state shared between threads) is NOT written
   here: it is measured on /repo's current headers by harness/h_c18.cpp (shared objects and the library's
   statics live in mprotect(PROT_READ)-ed memory while every operation runs) and emitted on every run as
   Gen/FootprintC18.v : fp_table.  This file fixes the record type, the classes of operations the property
   statement names (all must be present in the measured table), the one known exception, and the abstract
   action list of an operation. *)
From Coq Require Import List Arith ZArith Bool String.
Import ListNotations.
From SV Require Import Model.C18_Interleave.
Local Open Scope string_scope.

Record fp_entry : Type := mk_fp {
  fp_op : string;              (* operation as executed by the harness, e.g. "SubManifold<SE3d>::rplus" *)
  fp_class : string;           (* call-site class, e.g. "SubManifold::rplus" *)
  fp_writes_shared : bool;     (* measured: some store hit protected (shared / static) memory *)
  fp_members : list string     (* measured: which shared object member / static symbol was stored to *)
}.

(* every clause of the property statement, as classes of the harness alphabet *)
Definition expected_classes : list string :=
  [ "group"; "tangent"; "Manifold::rplus"; "Manifold::rminus"; "Manifold::dof";
    "SubManifold::rplus"; "SubManifold::rminus"; "SubManifold::dof";
    "AnyManifold::rplus"; "AnyManifold::rminus"; "AnyManifold::dof";
    "Spline::eval"; "Spline::const-method"; "BSpline::eval";
    "sparse"; "diff::dr"; "minimize"; "fit" ].

(* the one known exception (finding C18-mcalc): SubManifold's const rplus/rminus store into the object's
   mutable member m_calc (manifolds/submanifold.hpp:68,74,88; read back at :79,:97; declared :111) - and into nothing else *)
Definition known_mcalc (e : fp_entry) : bool :=
  (String.eqb (fp_class e) "SubManifold::rplus" || String.eqb (fp_class e) "SubManifold::rminus") &&
  negb (match fp_members e with [] => true | _ => false end) &&
  forallb (fun m => String.eqb m "m_calc") (fp_members e).

Definition table_const_except_known (tbl : list fp_entry) : bool :=
  forallb (fun e => negb (fp_writes_shared e) || known_mcalc e) tbl.

Definition table_alphabet_complete (tbl : list fp_entry) : bool :=
  forallb (fun c => existsb (fun e => String.eqb (fp_class e) c) tbl) expected_classes.

Definition mcalc_is_shared_member (tbl : list fp_entry) : bool :=
  existsb (fun e => fp_writes_shared e && known_mcalc e) tbl.

(* ---- abstract action list of one operation executed by thread t:
        load the thread's private arguments and the shared const inputs, compute through a scratch cell,
        store the result into the thread's private output.  The scratch cell is the thread's own unless the
        table says the operation stores into shared state. *)
Definition scratch_of (e : fp_entry) (t : tid) : loc :=
  if fp_writes_shared e then Shared 1000 else Priv t 1.

Definition compile_entry (e : fp_entry) (t : tid) : thread :=
  [ Rd (Priv t 0);                                   (* private argument *)
    Rd (Shared 0); Rd (Shared 1);                    (* the shared const object(s) / static tables *)
    Wr (scratch_of e t) (fun tr => (nth 0 tr 0 + nth 1 tr 0 + nth 2 tr 0)%Z);
    Rd (scratch_of e t);
    Wr (Priv t 2) (fun tr => nth 0 tr 0%Z) ].        (* private result *)

(* ---- programs: thread t executes a list of operations, thread ids are positions *)
Fixpoint threads_from {op : Type} (compile : op -> tid -> thread) (t : tid) (progs : list (list op)) : list thread :=
  match progs with
  | [] => []
  | p :: r => flat_map (fun o => compile o t) p :: threads_from compile (S t) r
  end.

Definition threads_of {op : Type} (compile : op -> tid -> thread) (progs : list (list op)) : list thread :=
  threads_from compile 0 progs.

(* checkable form of "operation o executed by thread t stores only into t's own cells and touches no other
   thread's cells" *)
Definition action_const_for (t : tid) (a : action) : bool :=
  match aloc a with
  | Priv u _ => Nat.eqb u t
  | Shared _ => negb (is_write a)
  end.
Definition action_own_private (t : tid) (a : action) : bool :=
  match aloc a with
  | Priv u _ => Nat.eqb u t
  | Shared _ => true
  end.
