(* C18 - executable model of interleaved execution of threads made of atomic memory actions.
   No proofs in this file (see Proofs/C18_Interleave.v).

   A location is either a cell of the state shared between the threads (objects handed to all threads as
   `const &`, inline/function-local statics of the library) or a cell private to one thread (its stack, its
   own heap blocks, its output arguments).  A thread is a list of atomic actions; a schedule is a list of
   thread ids (who performs its next action); `run` executes a schedule.  Sequentially consistent semantics:
   C++ guarantees SC for data-race-free programs (trusted base), and data-race freedom is what the theorem's
   premise gives. *)
From Coq Require Import List Arith ZArith Bool.
Import ListNotations.

Definition tid := nat.

Inductive loc : Type :=
| Shared (n : nat)
| Priv (t : tid) (n : nat).

Definition loc_eqb (a b : loc) : bool :=
  match a, b with
  | Shared n, Shared m => Nat.eqb n m
  | Priv t n, Priv u m => Nat.eqb t u && Nat.eqb n m
  | _, _ => false
  end.

Definition val := Z.
Definition store := loc -> val.

Definition upd (s : store) (l : loc) (v : val) : store :=
  fun l' => if loc_eqb l l' then v else s l'.

(* [Rd l] loads cell l into the thread's local history; [Wr l f] stores f(history) into l
   (history = values loaded so far, most recent first: the thread's registers/temporaries). *)
Inductive action : Type :=
| Rd (l : loc)
| Wr (l : loc) (f : list val -> val).

Definition thread := list action.

Definition aloc (a : action) : loc :=
  match a with Rd l => l | Wr l _ => l end.

Definition is_write (a : action) : bool :=
  match a with Rd _ => false | Wr _ _ => true end.

Definition footprint (th : thread) : list loc := map aloc th.
Definition writes (th : thread) : list loc := map aloc (filter is_write th).
Definition reads (th : thread) : list loc := map aloc (filter (fun a => negb (is_write a)) th).

Definition step_action (a : action) (s : store) (tr : list val) : store * list val :=
  match a with
  | Rd l => (s, s l :: tr)
  | Wr l f => (upd s l (f tr), tr)
  end.

(* a thread run alone *)
Fixpoint solo (acts : list action) (s : store) (tr : list val) : store * list val :=
  match acts with
  | [] => (s, tr)
  | a :: r => solo r (fst (step_action a s tr)) (snd (step_action a s tr))
  end.

(* per-thread state: remaining actions, load history *)
Definition tstate := (list action * list val)%type.
Definition config := (store * list tstate)%type.

Definition init (ths : list thread) (s : store) : config :=
  (s, map (fun th => (th, @nil val)) ths).

Fixpoint set_nth {A : Type} (n : nat) (x : A) (l : list A) : list A :=
  match l, n with
  | [], _ => []
  | _ :: r, O => x :: r
  | y :: r, S k => y :: set_nth k x r
  end.

(* thread t performs its next action; a finished or non-existent thread stutters *)
Definition step (t : tid) (c : config) : config :=
  match nth_error (snd c) t with
  | Some (a :: rest, tr) =>
      (fst (step_action a (fst c) tr), set_nth t (rest, snd (step_action a (fst c) tr)) (snd c))
  | _ => c
  end.

Fixpoint run (sched : list tid) (c : config) : config :=
  match sched with
  | [] => c
  | t :: r => run r (step t c)
  end.

(* a schedule is a merge (interleaving) of the threads: thread t is scheduled exactly |thread t| times,
   in any order; ids of non-existent threads do not occur *)
Definition is_merge (sched : list tid) (ths : list thread) : Prop :=
  forall t, count_occ Nat.eq_dec sched t = length (nth t ths []).

Definition is_mergeb (sched : list tid) (ths : list thread) : bool :=
  forallb (fun t => Nat.eqb (count_occ Nat.eq_dec sched t) (length (nth t ths [])))
          (seq 0 (length ths)) &&
  forallb (fun t => Nat.ltb t (length ths)) sched.

(* premise of the theorem: what thread i writes, no other thread touches *)
Definition disjoint_footprints (ths : list thread) : Prop :=
  forall i j, i <> j ->
  forall l, In l (writes (nth i ths [])) -> ~ In l (footprint (nth j ths [])).

Definition mem_loc (l : loc) (ls : list loc) : bool := existsb (loc_eqb l) ls.

Definition disjoint_footprintsb (ths : list thread) : bool :=
  forallb (fun i => forallb (fun j =>
     Nat.eqb i j || forallb (fun l => negb (mem_loc l (footprint (nth j ths [])))) (writes (nth i ths [])))
     (seq 0 (length ths))) (seq 0 (length ths)).

(* C++ data race: two actions of different threads on the same cell, at least one a store
   (the model has no synchronisation actions, so every such pair is unordered by happens-before) *)
Definition conflicting (a b : action) : Prop :=
  aloc a = aloc b /\ (is_write a = true \/ is_write b = true).

Definition race_free (ths : list thread) : Prop :=
  forall i j, i <> j -> forall a b, In a (nth i ths []) -> In b (nth j ths []) -> ~ conflicting a b.

(* observables *)
Definition final_store (sched : list tid) (ths : list thread) (s0 : store) : store :=
  fst (run sched (init ths s0)).
Definition final_trace (sched : list tid) (ths : list thread) (s0 : store) (t : tid) : list val :=
  match nth_error (snd (run sched (init ths s0))) t with Some (_, tr) => tr | None => [] end.
Definition finished (sched : list tid) (ths : list thread) (s0 : store) : bool :=
  forallb (fun ts => match fst ts with [] => true | _ => false end) (snd (run sched (init ths s0))).

(* union of the private effects: cell l holds what its (unique) writer leaves there when run alone *)
Fixpoint union_effects (ths : list thread) (s0 : store) (l : loc) : val :=
  match ths with
  | [] => s0 l
  | th :: r => if mem_loc l (writes th) then fst (solo th s0 []) l else union_effects r s0 l
  end.
