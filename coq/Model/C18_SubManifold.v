(* C18 - model of SubManifold<M>::rplus / rminus / dof (include/smooth/manifolds/submanifold.hpp) as action
   lists, for M = R^n, transcribed statement by statement.  No proofs in this file.

   `member` = true  : the scratch vector is the object's `mutable Tangent<M> m_calc` (line 111) - the code
                      as it is in the unchanged tree;
   `member` = false : the scratch vector is a local of the call (the proposed repair notes/C18-mcalc.patch).
   Which of the two describes /repo's current headers is MEASURED every run (Gen/FootprintC18.v). *)
From Coq Require Import List Arith ZArith Bool.
Import ListNotations.
From SV Require Import Model.C18_Interleave.
Local Open Scope Z_scope.

(* cells of the shared `const SubManifold<M> &` objects *)
Definition c_m0 (i : nat) : loc := Shared (100 + i).     (* m_m0,  line 106 *)
Definition c_m (i : nat) : loc := Shared (200 + i).      (* m_m,   line 107 *)
Definition c_fixed : loc := Shared 300.                  (* m_fixed_dims, line 108 (contents are a parameter) *)
Definition c_other_m (i : nat) : loc := Shared (500 + i).  (* other.m() of rminus's argument *)
Definition c_calc (member : bool) (t : tid) (i : nat) : loc :=   (* m_calc(i), line 111 *)
  if member then Shared (400 + i) else Priv t (400 + i).
(* cells private to the calling thread *)
Definition p_a (t : tid) (j : nat) : loc := Priv t (10 + j).      (* argument a(j) *)
Definition p_res (t : tid) (i : nat) : loc := Priv t (100 + i).   (* returned SubManifold's m_m(i) *)
Definition p_ret (t : tid) (j : nat) : loc := Priv t (200 + j).   (* returned tangent ret(j) *)
Definition p_dof (t : tid) : loc := Priv t 300.

Definition is_fixed (fixed : list nat) (i : nat) : bool := existsb (Nat.eqb i) fixed.

(* lines 69-78 (rplus) : for (i = 0, j = 0, k = 0; i < m_calc.size(); ++i)
                           if (k >= m_fixed_dims.size() || i != m_fixed_dims(k)) m_calc(i) = a(j++); else ++k;
   m_fixed_dims is sorted by the constructor (line 42), so the k-pointer test is membership *)
Fixpoint scatter (member : bool) (t : tid) (fixed : list nat) (i j cnt : nat) : thread :=
  match cnt with
  | O => []
  | S c =>
      Rd c_fixed ::
      (if is_fixed fixed i then scatter member t fixed (S i) j c
       else Rd (p_a t j) :: Wr (c_calc member t i) (fun tr => nth 0 tr 0) :: scatter member t fixed (S i) (S j) c)
  end.

(* lines 92-101 (rminus) : same loop, ret(j++) = m_calc(i) *)
Fixpoint gather (member : bool) (t : tid) (fixed : list nat) (i j cnt : nat) : thread :=
  match cnt with
  | O => []
  | S c =>
      Rd c_fixed ::
      (if is_fixed fixed i then gather member t fixed (S i) j c
       else Rd (c_calc member t i) :: Wr (p_ret t j) (fun tr => nth 0 tr 0) :: gather member t fixed (S i) (S j) c)
  end.

Definition sub_rplus (member : bool) (n : nat) (fixed : list nat) (t : tid) : thread :=
  (* line 68  m_calc.setZero(dof(m_m0)) *)
  Rd (c_m0 0) :: map (fun i => Wr (c_calc member t i) (fun _ => 0)) (seq 0 n) ++
  (* lines 69-78 *)
  scatter member t fixed 0 0 n ++
  (* line 79  return SubManifold(m_m0, man<M>::rplus(m_m, m_calc), m_fixed_dims)  (M = R^n: m_m + m_calc) *)
  flat_map (fun i => [Rd (c_m i); Rd (c_calc member t i);
                      Wr (p_res t i) (fun tr => nth 1 tr 0 + nth 0 tr 0)]) (seq 0 n).

Definition sub_rminus (member : bool) (n : nat) (fixed : list nat) (t : tid) : thread :=
  (* line 88  m_calc = man<M>::rminus(m_m, other.m())   (M = R^n: m_m - other.m()) *)
  flat_map (fun i => [Rd (c_m i); Rd (c_other_m i);
                      Wr (c_calc member t i) (fun tr => nth 1 tr 0 - nth 0 tr 0)]) (seq 0 n) ++
  (* lines 90-91  ret.setZero(dof()) *)
  map (fun j => Wr (p_ret t j) (fun _ => 0)) (seq 0 (n - length fixed)) ++
  (* lines 92-101 *)
  gather member t fixed 0 0 n.

(* line 61  dof() = dof(m_m0) - m_fixed_dims.size() *)
Definition sub_dof (t : tid) : thread :=
  [Rd (c_m0 0); Rd c_fixed; Wr (p_dof t) (fun tr => nth 1 tr 0 - nth 0 tr 0)].

Inductive subop : Type := SubRplus | SubRminus | SubDof.

Definition compile_sub (member : bool) (n : nat) (fixed : list nat) (o : subop) (t : tid) : thread :=
  match o with
  | SubRplus => sub_rplus member n fixed t
  | SubRminus => sub_rminus member n fixed t
  | SubDof => sub_dof t
  end.

(* ---- the refutation witness for member = true: two threads call rplus on the same const SubManifold<R^1>
        (m_m = 100) with a = 5 (thread 0) and a = 7 (thread 1) *)
Definition race_store : store :=
  fun l => match l with
           | Shared 200%nat => 100
           | Priv 0%nat 10%nat => 5
           | Priv 1%nat 10%nat => 7
           | _ => 0
           end.
Definition race_threads (member : bool) : list thread :=
  [sub_rplus member 1%nat [] 0%nat; sub_rplus member 1%nat [] 1%nat].
(* thread 0 fills the scratch, thread 1 overwrites it, thread 0 then adds thread 1's `a` to m_m *)
Definition race_sched : list tid := [0; 0; 0; 0; 0; 1; 1; 1; 1; 1; 0; 0; 0; 1; 1; 1]%nat.
