(* C19 model: sparsity patterns as lists of (row, col); the entries of a dense matrix outside a pattern; and an
   executable model of writing a block into a pre-allocated compressed sparse matrix (coeffRef on an existing
   entry updates the value, on a missing entry it would insert = change the structure). *)
From Coq Require Import Reals List Bool Arith.
From SV Require Import Base.Mat.
Import ListNotations.
Local Open Scope R_scope.

Definition pattern := list (nat * nat).

Definition inpat (p : pattern) (i j : nat) : bool :=
  existsb (fun rc => andb (Nat.eqb (fst rc) i) (Nat.eqb (snd rc) j)) p.

(* entries of M (nr x nc) at positions outside the pattern, row-major *)
Definition off_entries (p : pattern) (nr nc : nat) (M : mat) : list R :=
  concat (map (fun i => concat (map (fun j => if inpat p i j then [] else [mget M i j]) (seq 0 nc))) (seq 0 nr)).

Definition all_zero (l : list R) : Prop := l = repeat 0 (length l).

(* positions the sparse routines write for a block at offset i0 in a host with `rows` rows:
   Jacobian-type pattern entry (r,c)  -> (i0 + r, i0 + c)
   Hessian-type pattern entry (r,c) of a Dof x Dof^2 pattern -> (i0 + r, rows * (i0 + c / Dof) + i0 + c mod Dof)
   (detail/lie_group_sparse_impl.hpp: dr_exp_sparse / d2r_exp_sparse) *)
Definition jac_pos (i0 : nat) (rc : nat * nat) : nat * nat := (i0 + fst rc, i0 + snd rc)%nat.
Definition hess_pos (rows dof i0 : nat) (rc : nat * nat) : nat * nat :=
  (i0 + fst rc, rows * (i0 + snd rc / dof) + i0 + snd rc mod dof)%nat.

(* a compressed sparse matrix: association list position -> value (the structure is the key set) *)
Definition sparse := list ((nat * nat) * R).
Definition pos_eqb (a b : nat * nat) : bool := andb (Nat.eqb (fst a) (fst b)) (Nat.eqb (snd a) (snd b)).
Fixpoint sp_get (s : sparse) (k : nat * nat) : option R :=
  match s with [] => None | (k', v) :: r => if pos_eqb k' k then Some v else sp_get r k end.
(* coeffRef(k) = v on a matrix whose structure contains k: value update, structure unchanged;
   on a missing key the real routine would insert (structure change): modelled as None *)
Fixpoint sp_set (s : sparse) (k : nat * nat) (v : R) : option sparse :=
  match s with
  | [] => None
  | (k', v') :: r => if pos_eqb k' k then Some ((k', v) :: r)
                     else match sp_set r k v with Some r' => Some ((k', v') :: r') | None => None end
  end.
Fixpoint sp_write (s : sparse) (kvs : list ((nat * nat) * R)) : option sparse :=
  match kvs with
  | [] => Some s
  | (k, v) :: r => match sp_set s k v with Some s' => sp_write s' r | None => None end
  end.
Definition keys (s : sparse) : list (nat * nat) := map fst s.
