(* C20 / integrate_absolute_polynomial  (/repo/include/smooth/polynomial/basis.hpp:427-452).

   Two transcriptions of the same control flow, line by line:
     iapQ  over Q   - executable; std::sqrt is an argument (an oracle whose contract  sq x * sq x == x,
                      0 <= sq x  is checked at run time by the correspondence driver on every call);
     iapR  over R   - the real-number meaning (Coq's sqrt); the theorems are about this one, and
                      Proofs/C20_AbsPoly.v relates the two.
   +infinity (the initial value of mid1/mid2, basis.hpp:430-432) is None;  std::clamp(+inf,t0,t1) = t1.
   The two tests are transcribed as written:  :434  abs(A) < 1e-9 && abs(B) > 1e-9   (Qltb/Rltb, strict)
                                              :437  abs(A) >= 1e-9                   (Qgeb/Rgeb, non-strict;
   /repo commit b9fcddd - before it the test was the strict  abs(A) > 1e-9).
   The literal 1e-9 is the binary64 number 0x1.12e0be826d695p-30 = 4835703278458517 / 2^82.
   No proofs in this file. *)
From Coq Require Import QArith Qabs Reals.

(* ---------------------------------------------------------------- Q, executable *)
Definition iap_thr : Q := 4835703278458517 # (2 ^ 82).

Definition Qltb (x y : Q) : bool := match x ?= y with Lt => true | _ => false end.
(* x >= y *)
Definition Qgeb (x y : Q) : bool := match x ?= y with Lt => false | _ => true end.

(* std::clamp(v, lo, hi) = (v < lo) ? lo : (hi < v) ? hi : v *)
Definition clampQ (v lo hi : Q) : Q := if Qltb v lo then lo else if Qltb hi v then hi else v.
Definition clampoQ (v : option Q) (lo hi : Q) : Q :=
  match v with Some x => clampQ x lo hi | None => hi end.

(* basis.hpp:447  integ(u) = A*u*u*u/3 + B*u*u/2 + C*u *)
Definition integQ (A B C u : Q) : Q := A * u * u * u / 3 + B * u * u / 2 + C * u.

(* basis.hpp:434-444 *)
Definition midsQ (sq : Q -> Q) (thr t0 t1 A B C : Q) : option Q * option Q :=
  if Qltb (Qabs A) thr && Qltb thr (Qabs B) then
    (Some (clampQ (- C / B) t0 t1), None)                                   (* :436 *)
  else if Qgeb (Qabs A) thr then                                            (* :437 *)
    let res := B * B / (4 * A * A) - C / A in                               (* :439 *)
    if Qltb 0 res then                                                      (* :441 *)
      (Some (- B / (2 * A) - sq res), Some (- B / (2 * A) + sq res))        (* :442-443 *)
    else (None, None)
  else (None, None).

(* basis.hpp:449-452 *)
Definition iapQ_thr (sq : Q -> Q) (thr t0 t1 A B C : Q) : Q :=
  let '(mid1, mid2) := midsQ sq thr t0 t1 A B C in
  let mid1cl := clampoQ mid1 t0 t1 in
  let mid2cl := clampoQ mid2 t0 t1 in
  Qabs (integQ A B C t1 - integQ A B C t0 + 2 * integQ A B C mid1cl - 2 * integQ A B C mid2cl).

Definition iapQ (sq : Q -> Q) := iapQ_thr sq iap_thr.

(* which branch was taken: 1 = linear (:434), 2 = quadratic with two roots (:441), 3 = quadratic, res <= 0,
   0 = neither condition (treated as sign-constant) *)
Definition iap_branchQ (thr A B C : Q) : nat :=
  if Qltb (Qabs A) thr && Qltb thr (Qabs B) then 1%nat
  else if Qgeb (Qabs A) thr then
    (if Qltb 0 (B * B / (4 * A * A) - C / A) then 2%nat else 3%nat)
  else 0%nat.

(* ---------------------------------------------------------------- R, meaning *)
Local Open Scope R_scope.

Definition Rltb (x y : R) : bool := if Rlt_dec x y then true else false.
Definition Rgeb (x y : R) : bool := if Rge_dec x y then true else false.

Definition clampR (v lo hi : R) : R := if Rltb v lo then lo else if Rltb hi v then hi else v.
Definition clampoR (v : option R) (lo hi : R) : R :=
  match v with Some x => clampR x lo hi | None => hi end.

Definition integR (A B C u : R) : R := A * u * u * u / 3 + B * u * u / 2 + C * u.

Definition midsR (thr t0 t1 A B C : R) : option R * option R :=
  if Rltb (Rabs A) thr && Rltb thr (Rabs B) then
    (Some (clampR (- C / B) t0 t1), None)
  else if Rgeb (Rabs A) thr then
    let res := B * B / (4 * A * A) - C / A in
    if Rltb 0 res then
      (Some (- B / (2 * A) - sqrt res), Some (- B / (2 * A) + sqrt res))
    else (None, None)
  else (None, None).

Definition iapR (thr t0 t1 A B C : R) : R :=
  let '(mid1, mid2) := midsR thr t0 t1 A B C in
  let mid1cl := clampoR mid1 t0 t1 in
  let mid2cl := clampoR mid2 t0 t1 in
  Rabs (integR A B C t1 - integR A B C t0 + 2 * integR A B C mid1cl - 2 * integR A B C mid2cl).

Definition iap_thrR : R := IZR 4835703278458517 / 2 ^ 82.
