(* C20 / polynomial bases: the constexpr recursions of /repo/include/smooth/polynomial/basis.hpp (and the
   StaticMatrix operations of static_matrix.hpp they use) re-implemented over Q, statement by statement:
   a StaticMatrix is a list of rows, `ret[i][j] = v` is `upd ret i j v`, `for (i = a; i < b; ++i)` is
   `for_ (seq a (b-a))`.   Exact arithmetic (the code computes in binary64; the generated file Gen/BasisC20.v
   holds what the code actually produced and Proofs/C20_BasisTie.v compares).  No proofs in this file. *)
From Coq Require Import List QArith ZArith Bool.
Import ListNotations.
Local Open Scope Q_scope.

Definition mat := list (list Q).
Definition Qn (n : nat) : Q := inject_Z (Z.of_nat n).

Fixpoint updl {A : Type} (l : list A) (i : nat) (v : A) : list A :=
  match l, i with
  | [], _ => []
  | _ :: t, O => v :: t
  | h :: t, S i' => h :: updl t i' v
  end.

Definition zeros (r c : nat) : mat := repeat (repeat 0 c) r.           (* StaticMatrix(), static_matrix.hpp:35 *)
Definition get (m : mat) (i j : nat) : Q := nth j (nth i m []) 0.
Definition upd (m : mat) (i j : nat) (v : Q) : mat := updl m i (updl (nth i m []) j (Qred v)).
Definition for_ {S : Type} (is : list nat) (body : nat -> S -> S) (s : S) : S := fold_left (fun s i => body i s) is s.
Definition mk (r c : nat) (f : nat -> nat -> Q) : mat :=
  map (fun i => map (fun j => Qred (f i j)) (seq 0 c)) (seq 0 r).
Definition qsum (l : list Q) : Q := fold_left Qplus l 0.
(* operator*  static_matrix.hpp:83-93,  operator+ :55-62, transpose :68-75, block :44-50 *)
Definition mmul (r n c : nat) (a b : mat) : mat := mk r c (fun i j => qsum (map (fun k => get a i k * get b k j) (seq 0 n))).
Definition madd (r c : nat) (a b : mat) : mat := mk r c (fun i j => get a i j + get b i j).
Definition mtranspose (n : nat) (a : mat) : mat := mk n n (fun i j => get a j i).
Definition col (m : mat) (j : nat) : list Q := map (fun row => nth j row 0) m.

(* ---- bspline_basis<K>, basis.hpp:76-104 *)
Fixpoint bspline_basis (K : nat) : mat :=
  match K with
  | O => upd (zeros 1 1) 0 0 1
  | S K1 =>
    let prev := bspline_basis K1 in
    let K := S K1 in
    let low := for_ (seq 0 K) (fun i m => for_ (seq 0 K) (fun j m => upd m i j (get prev i j)) m) (zeros (K + 1) K) in
    let high := for_ (seq 0 K) (fun i m => for_ (seq 0 K) (fun j m => upd m (i + 1) j (get prev i j)) m) (zeros (K + 1) K) in
    let left := for_ (seq 0 K) (fun k m =>
                  let m := upd m k (k + 1) (Qn (K - (k + 1)) / Qn K) in        (* :95 *)
                  upd m k k (1 - get m k (k + 1))) (zeros K (K + 1)) in          (* :96 *)
    let right := for_ (seq 0 K) (fun k m =>
                  let m := upd m k (k + 1) (1 / Qn K) in                        (* :98 *)
                  upd m k k (- get m k (k + 1))) (zeros K (K + 1)) in           (* :99 *)
    madd (K + 1) (K + 1) (mmul (K + 1) K (K + 1) low left) (mmul (K + 1) K (K + 1) high right)   (* :102 *)
  end.

(* ---- bernstein_basis<K>, basis.hpp:110-138 *)
Fixpoint bernstein_basis (K : nat) : mat :=
  match K with
  | O => upd (zeros 1 1) 0 0 1
  | S K1 =>
    let prev := bernstein_basis K1 in
    let K := S K1 in
    let low := for_ (seq 0 K) (fun i m => for_ (seq 0 K) (fun j m => upd m i j (get prev i j)) m) (zeros (K + 1) K) in
    let high := for_ (seq 0 K) (fun i m => for_ (seq 0 K) (fun j m => upd m (i + 1) j (get prev i j)) m) (zeros (K + 1) K) in
    let left := for_ (seq 0 K) (fun k m => upd m k k 1) (zeros K (K + 1)) in                   (* :130 *)
    let right := for_ (seq 0 K) (fun k m => upd (upd m k k (-(1))) k (k + 1) 1) (zeros K (K + 1)) in  (* :132-133 *)
    madd (K + 1) (K + 1) (mmul (K + 1) K (K + 1) low left) (mmul (K + 1) K (K + 1) high right)
  end.

(* ---- hermite_basis<K>, basis.hpp:144-159 *)
Definition hermite_basis (K : nat) : mat :=
  let ret := upd (zeros (K + 1) (K + 1)) 0 0 1 in
  let ret := if (0 <? K)%nat then upd ret 1 1 2 else ret in
  if (1 <? K)%nat then
    for_ (seq 2 (K - 1)) (fun k ret =>
      let ret := for_ (seq 0 k) (fun i ret => upd ret (i + 1) k (get ret (i + 1) k + 2 * get ret i (k - 1))) ret in
      for_ (seq 0 (k - 1)) (fun i ret => upd ret i k (get ret i k - 2 * Qn (k - 1) * get ret i (k - 2))) ret) ret
  else ret.

(* ---- laguerre_basis<K>, basis.hpp:165-186 *)
Definition laguerre_basis (K : nat) : mat :=
  let ret := upd (zeros (K + 1) (K + 1)) 0 0 1 in
  let ret := if (0 <? K)%nat then upd (upd ret 0 1 1) 1 1 (-(1)) else ret in
  if (1 <? K)%nat then
    for_ (seq 2 (K - 1)) (fun k ret =>
      let ret := for_ (seq 0 k) (fun i ret =>
                   let ret := upd ret i k (get ret i k + Qn (2 * k - 1) * get ret i (k - 1) / Qn k) in
                   upd ret (i + 1) k (get ret (i + 1) k - get ret i (k - 1) / Qn k)) ret in
      for_ (seq 0 (k - 1)) (fun i ret => upd ret i k (get ret i k - Qn (k - 1) * get ret i (k - 2) / Qn k)) ret) ret
  else ret.

(* ---- jacobi_basis<K>(alpha, beta), basis.hpp:200-228 *)
Definition jacobi_basis (K : nat) (alpha beta : Q) : mat :=
  let ret := upd (zeros (K + 1) (K + 1)) 0 0 1 in
  let ret := if (0 <? K)%nat then
               upd (upd ret 0 1 (alpha + 1 - (alpha + beta + 2) / 2)) 1 1 ((alpha + beta + 2) / 2)
             else ret in
  if (1 <? K)%nat then
    for_ (seq 2 (K - 1)) (fun k ret =>
      let frac := 1 / (Qn (2 * k) * (Qn k + alpha + beta) * (Qn (2 * k) + alpha + beta - 2)) in
      let c1 := (Qn (2 * k) + alpha + beta - 1) * (alpha * alpha - beta * beta) in
      let c2 := (Qn (2 * k) + alpha + beta - 1) * (Qn (2 * k) + alpha + beta) * (Qn (2 * k) + alpha + beta - 2) in
      let c3 := 2 * (Qn k + alpha - 1) * (Qn k + beta - 1) * (Qn (2 * k) + alpha + beta) in
      let ret := for_ (seq 0 k) (fun i ret =>
                   let ret := upd ret i k (get ret i k + c1 * get ret i (k - 1) * frac) in
                   upd ret (i + 1) k (get ret (i + 1) k + c2 * get ret i (k - 1) * frac)) ret in
      for_ (seq 0 (k - 1)) (fun i ret => upd ret i k (get ret i k - c3 * get ret i (k - 2) * frac)) ret) ret
  else ret.

(* ---- monomial_derivative<K>(u, p), basis.hpp:26-47.  P2 is the std::size_t of the code, here in Z *)
Definition md_P2_init (p : nat) : Z := for_ (seq 2 (p - 1)) (fun j P2 => (P2 * Z.of_nat j)%Z) 1%Z.      (* :36 *)
Definition md_P2_step (p i : nat) (P2 : Z) : Z := ((P2 * Z.of_nat i) / Z.of_nat (i - p))%Z.             (* :40-41 *)
Definition monomial_derivative (K p : nat) (u : Q) : list Q :=
  let ret := repeat 0 (K + 1) in
  if (K <? p)%nat then ret else                                                                          (* :31 *)
  let ret := for_ (seq 0 p) (fun i ret => updl ret i 0) ret in                                           (* :33 *)
  let P1 := 1 in
  let P2 := md_P2_init p in
  let ret := updl ret p (Qred (P1 * inject_Z P2)) in                                                     (* :37 *)
  fst (for_ (seq (p + 1) (K - p)) (fun i '(ret, (P1, P2)) =>
         let P1 := P1 * u in
         let P2 := md_P2_step p i P2 in
         (updl ret i (Qred (P1 * inject_Z P2)), (P1, P2))) (ret, (P1, P2))).
(* monomial_derivatives<K,P>(u), basis.hpp:61-67 *)
Definition monomial_derivatives (K P : nat) (u : Q) : mat := map (fun p => monomial_derivative K p u) (seq 0 (P + 1)).

(* ---- polynomial_basis<Basis,K>, basis.hpp:268-300 *)
Inductive basis := Bernstein | Bspline | Chebyshev1st | Chebyshev2nd | Hermite | Laguerre | Legendre | Monomial.
Definition polynomial_basis (b : basis) (K : nat) : mat :=
  match b with
  | Monomial => for_ (seq 0 (K + 1)) (fun k ret => upd ret k k 1) (zeros (K + 1) (K + 1))
  | Bernstein => bernstein_basis K
  | Laguerre => laguerre_basis K
  | Hermite => hermite_basis K
  | Legendre => jacobi_basis K 0 0
  | Chebyshev1st =>
    let ret := jacobi_basis K (-(1#2)) (-(1#2)) in
    let fac := mmul 1 (K + 1) (K + 1) [monomial_derivative K 0 1] ret in                                (* :281 *)
    for_ (seq 0 (K + 1)) (fun k ret => for_ (seq 0 (K + 1)) (fun r ret => upd ret r k (get ret r k / get fac 0 k)) ret) ret
  | Chebyshev2nd =>
    let ret := jacobi_basis K (1#2) (1#2) in
    let fac := mmul 1 (K + 1) (K + 1) [monomial_derivative K 0 1] ret in
    for_ (seq 0 (K + 1)) (fun k ret => for_ (seq 0 (K + 1)) (fun r ret => upd ret r k (get ret r k * (Qn (k + 1) / get fac 0 k))) ret) ret
  | Bspline => bspline_basis K
  end.

(* ---- polynomial_cumulative_basis<Basis,K>, basis.hpp:374-382 *)
Definition polynomial_cumulative_basis (b : basis) (K : nat) : mat :=
  let M := polynomial_basis b K in
  for_ (seq 0 (K + 1)) (fun i M => for_ (seq 0 K) (fun j M => upd M i (K - 1 - j) (get M i (K - 1 - j) + get M i (K - j))) M) M.

(* ---- monomial_integral<K,P>, basis.hpp:392-410;  c is a std::size_t, here in Z *)
Definition monomial_integral (K P : nat) : mat :=
  for_ (seq 0 (K + 1)) (fun i ret =>
    for_ (seq i (K + 1 - i)) (fun j ret =>
      let ret :=
        if (P <=? i)%nat && (P <=? j)%nat then
          let c := for_ (seq (i - P + 1) P) (fun _i c => (c * Z.of_nat _i)%Z) 1%Z in
          let c := for_ (seq (j - P + 1) P) (fun _j c => (c * Z.of_nat _j)%Z) c in
          upd ret i j (inject_Z c / Qn (i + j - 2 * P + 1))
        else upd ret i j 0 in
      upd ret j i (get ret i j)) ret) (zeros (K + 1) (K + 1)).

(* ---- lagrange_basis<K>(ts), basis.hpp:321-340 *)
Definition lagrange_row (K : nat) (ts : list Q) (row : nat) : list Q :=
  let r := updl (repeat 0 (K + 1)) 0 1 in                                                               (* :326 *)
  for_ (seq 0 (K + 1)) (fun c r =>
    if (c =? row)%nat then r else
    let row_copy := r in
    let r := repeat 0 (K + 1) in                                                                         (* :330 fill(0) *)
    for_ (seq 0 (c - (if (row <? c)%nat then 1 else 0) + 1)) (fun i r =>
      let d := nth row ts 0 - nth c ts 0 in
      let r := updl r (i + 1) (Qred (nth (i + 1) r 0 + nth i row_copy 0 / d)) in                         (* :332 *)
      updl r i (Qred (nth i r 0 - nth c ts 0 * nth i row_copy 0 / d))) r) r.                             (* :333 *)
Definition lagrange_basis (K : nat) (ts : list Q) : mat :=
  mtranspose (K + 1) (map (lagrange_row K ts) (seq 0 (K + 1))).                                          (* :339 *)

(* ---- polynomial arithmetic on coefficient lists (lowest degree first), used by the specifications *)
Fixpoint padd (p q : list Q) : list Q :=
  match p, q with
  | [], _ => q
  | _, [] => p
  | a :: p', b :: q' => Qred (a + b) :: padd p' q'
  end.
Definition pscale (c : Q) (p : list Q) : list Q := map (fun a => Qred (c * a)) p.
Fixpoint pmul (p q : list Q) : list Q :=
  match p with
  | [] => []
  | a :: p' => padd (pscale a q) (0 :: pmul p' q)
  end.
Fixpoint ppow (p : list Q) (n : nat) : list Q := match n with O => [1] | S n' => pmul p (ppow p n') end.
Definition psum (ps : list (list Q)) : list Q := fold_right padd [] ps.
Fixpoint pderiv_aux (k : nat) (p : list Q) : list Q :=
  match p with [] => [] | a :: p' => Qred (Qn k * a) :: pderiv_aux (S k) p' end.
Definition pderiv (p : list Q) : list Q := match p with [] => [] | _ :: p' => pderiv_aux 1 p' end.
Fixpoint peval (p : list Q) (x : Q) : Q := match p with [] => 0 | a :: p' => a + x * peval p' x end.
(* equality of polynomials as coefficient lists, missing coefficients are 0 *)
Fixpoint pzero (p : list Q) : bool := match p with [] => true | a :: p' => Qeq_bool a 0 && pzero p' end.
Fixpoint peqb (p q : list Q) : bool :=
  match p, q with
  | [], _ => pzero q
  | _ :: _, [] => pzero p
  | a :: p', b :: q' => Qeq_bool a b && peqb p' q'
  end.
Definition meqb (a b : mat) : bool := (length a =? length b)%nat && forallb (fun '(x, y) => peqb x y) (combine a b).

Fixpoint fact (n : nat) : Z := match n with O => 1%Z | S n' => (Z.of_nat n * fact n')%Z end.
Definition binom (n k : nat) : Q := if (n <? k)%nat then 0 else inject_Z (fact n) / (inject_Z (fact k) * inject_Z (fact (n - k))).
Definition X : list Q := [0; 1].
Definition pconst (c : Q) : list Q := [c].
Definition pmono (k : nat) : list Q := repeat 0 k ++ [1].
