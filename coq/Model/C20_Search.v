(* C20 / binary_interval_search  (/repo/include/smooth/detail/utils.hpp:42-83), executable model.

   Ranges are lists over Z (half-integer / dyadic inputs are scaled to integers by the drivers; the function
   only compares elements, and the interpolation ratio alpha is invariant under a common scaling).
   Iterators are indices (nat); r.end() is the result `End`.
   The floating-point interpolation  n = (intptr_t)(alpha * dist)  (utils.hpp:57-62) is abstracted by an
   ARBITRARY function  piv : iteration -> left -> rght -> Z ; the model clamps it exactly as
   std::ranges::next(left, n, rght - 2) does (libstdc++ ranges::advance(it, n, bound) for a sized sentinel).
   A negative n with left < rght-2 violates the precondition of ranges::advance (the iterator would be moved
   before `left`): result UB.   No proofs in this file. *)
From Coq Require Import List ZArith Bool.
Import ListNotations.
Local Open Scope Z_scope.

Inductive sres : Type :=
| End            (* r.end()              *)
| At (i : nat)   (* r.begin() + i        *)
| UB             (* undefined behaviour  *)
| Fuel.          (* model ran out of fuel (excluded by theorem) *)

(* std::ranges::next(left, n, bound) with left <= bound  (bits/ranges_base.h, advance(it, n, bound)):
     diff = bound - it;  diff == 0 -> it;  n >= diff -> bound;  n != 0 -> (assert n<0 == diff<0) it += n;  else it *)
Definition next_clamped (left : nat) (n : Z) (bound : nat) : option nat :=
  let diff := Z.of_nat bound - Z.of_nat left in
  if diff =? 0 then Some left
  else if n >=? diff then Some bound
  else if n <? 0 then None
  else Some (left + Z.to_nat n)%nat.

Inductive step_out : Type :=
| Done (x : sres) (probes : list nat)
| Cont (left rght pivot : nat) (probes : list nat).

Section Search.
  Variable piv : nat -> nat -> nat -> Z.   (* iteration, left, rght  |->  (intptr_t)(alpha*dist) *)

  (* one iteration of the while loop, utils.hpp:56-71.  probes = indices whose element is passed to wo(.,t) *)
  Definition step (k : nat) (r : list Z) (t : Z) (left rght : nat) : step_out :=
    match next_clamped left (piv k left rght) (rght - 2) with      (* :62 *)
    | None => Done UB []
    | Some p =>
      if nth (p + 1) r 0 <=? t then Cont (p + 1) rght p [(p + 1)%nat]        (* :64-65  left = pivot + 1 *)
      else if t <? nth p r 0 then Cont left (p + 1) p [(p + 1)%nat; p]       (* :66-67  rght = pivot + 1 *)
      else Done (At p) [(p + 1)%nat; p]                                       (* :68-69  break; :73 return pivot *)
    end.

  Definition addps (ps : list nat) (x : sres * list nat) : sres * list nat := (fst x, ps ++ snd x).

  Fixpoint loop (fuel k : nat) (r : list Z) (t : Z) (left rght pivot : nat) : sres * list nat :=
    match fuel with
    | O => (Fuel, [])
    | S f =>
      if (left + 1 <? rght)%nat then                                          (* :56 *)
        match step k r t left rght with
        | Done x ps => (x, ps)
        | Cont l g p ps => addps ps (loop f (S k) r t l g p)
        end
      else (At pivot, [])                                                     (* :73 *)
    end.

  (* utils.hpp:44-54 then the loop; fuel = length r *)
  Definition search (r : list Z) (t : Z) : sres * list nat :=
    match r with
    | [] => (End, [])                                                         (* :47 empty(r) short-circuits *)
    | _ =>
      let n := length r in
      if t <? nth 0 r 0 then (End, [0%nat])                                   (* :47-48  wo(r[left],t) > 0 *)
      else if nth (n - 1) r 0 <=? t then (At (n - 1), [0%nat; (n - 1)%nat])   (* :49-50 *)
      else addps [0%nat; (n - 1)%nat] (loop n 0 r t 0 n 0)
    end.
End Search.

(* the interpolation of utils.hpp:57-61 in exact arithmetic:
     alpha = (t - r[left]) / (r[rght-1] - r[left]),  dist = rght-1-left,  n = trunc(alpha*dist).
   A zero denominator gives inf/NaN in the code, whose conversion to intptr_t is undefined: modelled as -1. *)
Definition interp_piv (r : list Z) (t : Z) (_ left rght : nat) : Z :=
  let a := nth left r 0 in
  let b := nth (rght - 1) r 0 in
  if b - a =? 0 then -1
  else Z.quot ((t - a) * Z.of_nat (rght - 1 - left)) (b - a).

Definition search_interp (r : list Z) (t : Z) : sres * list nat := search (interp_piv r t) r t.

(* pivot = midpoint (alpha = 0.5: the non-arithmetic branch of utils.hpp:57) *)
Definition half_piv (_ left rght : nat) : Z := Z.of_nat (rght - 1 - left) / 2.

(* replay of a recorded tape of pivots (absolute indices; k-th iteration uses the k-th entry): the offset handed
   to the clamp is  pivot - left ; an exhausted tape yields -1 *)
Definition tape_piv (tape : list Z) (k left _ : nat) : Z :=
  match nth_error tape k with Some p => p - Z.of_nat left | None => -1 end.
