(* Written with scripts/author/c01.py (committed output; the check builds this file against
   the freshly generated Gen/C1.v).  Property C01. *)
From Coq Require Import Reals List Lra.
From SV Require Import Base.GenPrelude Base.Mat Doc.Groups Base.Tactics Gen.C1.
Import ListNotations.
Local Open Scope R_scope.

Lemma c1_matrix_doc :
  forall g0 g1 out,
  Gen.C1.c1_matrix_rel [g0; g1] out -> out = c1_mat [g0; g1].
Proof.
  intros g0 g1 out Hrel. rel_cases Hrel. autounfold with c1_matrix_db. sv_unfold. list_eq; ring.
Qed.

Lemma c1_identity_doc :
  forall out, Gen.C1.c1_identity_rel out -> c1_mat out = mI 2 /\ c1_valid out.
Proof.
  intros out Hrel. rel_cases Hrel. autounfold with c1_identity_db. sv_unfold. split; [list_eq; ring | try lra; ring].
Qed.

Lemma c1_comp_hom :
  forall g0 g1 h0 h1 out,
  c1_valid [g0; g1] -> c1_valid [h0; h1] -> Gen.C1.c1_comp_rel [g0; g1] [h0; h1] out ->
  c1_mat out = mmul (c1_mat [g0; g1]) (c1_mat [h0; h1]) /\ c1_valid out.
Proof.
  intros g0 g1 h0 h1 out Hg Hh Hrel. rel_cases Hrel;
  autounfold with c1_comp_db; revert Hg Hh; sv_unfold; intros Hg Hh; norm_rules;
  (split; [list_eq; ring | ]);
  match goal with |- ?e <> 0 => replace e with ((g0*g0+g1*g1)*(h0*h0+h1*h1)) by ring end; apply Rmult_integral_contrapositive_currified; assumption.
Qed.

Lemma c1_inv_doc :
  forall g0 g1 out,
  c1_valid [g0; g1] -> Gen.C1.c1_inv_rel [g0; g1] out ->
  mmul (c1_mat out) (c1_mat [g0; g1]) = mI 2 /\ mmul (c1_mat [g0; g1]) (c1_mat out) = mI 2 /\ c1_valid out.
Proof.
  intros g0 g1 out Hg Hrel. rel_cases Hrel;
  autounfold with c1_inv_db in *; revert Hg; sv_unfold; intros Hg.
  assert (Hd : g0*g0+g1*g1 <> 0) by exact Hg.
  repeat split; [list_eq; field; exact Hd | list_eq; field; exact Hd | ].
  match goal with |- ?e <> 0 => replace e with (/ (g0*g0+g1*g1)) by (field; exact Hd) end. apply Rinv_neq_0_compat; exact Hd.
Qed.

Lemma c1_act_doc :
  forall g0 g1 v0 v1 out,
  Gen.C1.c1_act_rel [g0; g1] [v0; v1] out ->
  out = mvec (c1_mat [g0; g1]) ([v0; v1]).
Proof.
  intros g0 g1 v0 v1 out Hrel. rel_cases Hrel. autounfold with c1_act_db. sv_unfold. list_eq; ring.
Qed.

