(* Written with scripts/author/c01.py (committed output; the check builds this file against
   the freshly generated Gen/Galilei.v).  Property C01. *)
From Coq Require Import Reals List Lra.
From SV Require Import Base.GenPrelude Base.Mat Doc.Groups Base.Tactics Gen.Galilei.
Import ListNotations.
Local Open Scope R_scope.

Lemma gal_matrix_doc :
  forall g0 g1 g2 g3 g4 g5 g6 g7 g8 g9 g10 out,
  Gen.Galilei.gal_matrix_rel [g0; g1; g2; g3; g4; g5; g6; g7; g8; g9; g10] out -> out = gal_mat [g0; g1; g2; g3; g4; g5; g6; g7; g8; g9; g10].
Proof.
  intros g0 g1 g2 g3 g4 g5 g6 g7 g8 g9 g10 out Hrel. rel_cases Hrel. autounfold with gal_matrix_db. sv_unfold. list_eq; ring.
Qed.

Lemma gal_identity_doc :
  forall out, Gen.Galilei.gal_identity_rel out -> gal_mat out = mI 5 /\ gal_valid out.
Proof.
  intros out Hrel. rel_cases Hrel. autounfold with gal_identity_db. sv_unfold. split; [list_eq; ring | try lra; ring].
Qed.

Lemma gal_comp_hom :
  forall g0 g1 g2 g3 g4 g5 g6 g7 g8 g9 g10 h0 h1 h2 h3 h4 h5 h6 h7 h8 h9 h10 out,
  gal_valid [g0; g1; g2; g3; g4; g5; g6; g7; g8; g9; g10] -> gal_valid [h0; h1; h2; h3; h4; h5; h6; h7; h8; h9; h10] -> Gen.Galilei.gal_comp_rel [g0; g1; g2; g3; g4; g5; g6; g7; g8; g9; g10] [h0; h1; h2; h3; h4; h5; h6; h7; h8; h9; h10] out ->
  gal_mat out = mmul (gal_mat [g0; g1; g2; g3; g4; g5; g6; g7; g8; g9; g10]) (gal_mat [h0; h1; h2; h3; h4; h5; h6; h7; h8; h9; h10]) /\ gal_valid out.
Proof.
  intros g0 g1 g2 g3 g4 g5 g6 g7 g8 g9 g10 h0 h1 h2 h3 h4 h5 h6 h7 h8 h9 h10 out Hg Hh Hrel. rel_cases Hrel;
  autounfold with gal_comp_db; revert Hg Hh; sv_unfold; intros Hg Hh; norm_rules;
  (split; [list_eq; ring [Hg Hh] | ring [Hg Hh]]).
Qed.

Lemma gal_inv_doc :
  forall g0 g1 g2 g3 g4 g5 g6 g7 g8 g9 g10 out,
  gal_valid [g0; g1; g2; g3; g4; g5; g6; g7; g8; g9; g10] -> Gen.Galilei.gal_inv_rel [g0; g1; g2; g3; g4; g5; g6; g7; g8; g9; g10] out ->
  mmul (gal_mat out) (gal_mat [g0; g1; g2; g3; g4; g5; g6; g7; g8; g9; g10]) = mI 5 /\ mmul (gal_mat [g0; g1; g2; g3; g4; g5; g6; g7; g8; g9; g10]) (gal_mat out) = mI 5 /\ gal_valid out.
Proof.
  intros g0 g1 g2 g3 g4 g5 g6 g7 g8 g9 g10 out Hg Hrel. rel_cases Hrel;
  autounfold with gal_inv_db in *; revert Hg; sv_unfold; intros Hg.
  all: try (exfalso; revert Hpath; sv_unfold; lra).
  all: norm_rules; unit_denoms Hg; (repeat split; [list_eq; field [Hg]; lra | list_eq; field [Hg]; lra | field [Hg]; lra]).
Qed.

Lemma gal_act_doc :
  forall g0 g1 g2 g3 g4 g5 g6 g7 g8 g9 g10 v0 v1 v2 v3 out,
  Gen.Galilei.gal_act_rel [g0; g1; g2; g3; g4; g5; g6; g7; g8; g9; g10] [v0; v1; v2; v3] out ->
  homog out = mvec (gal_mat [g0; g1; g2; g3; g4; g5; g6; g7; g8; g9; g10]) (homog [v0; v1; v2; v3]).
Proof.
  intros g0 g1 g2 g3 g4 g5 g6 g7 g8 g9 g10 v0 v1 v2 v3 out Hrel. rel_cases Hrel. autounfold with gal_act_db. sv_unfold. list_eq; ring.
Qed.

