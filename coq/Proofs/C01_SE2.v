(* Written with scripts/author/c01.py (committed output; the check builds this file against
   the freshly generated Gen/SE2.v).  Property C01. *)
From Coq Require Import Reals List Lra.
From SV Require Import Base.GenPrelude Base.Mat Doc.Groups Base.Tactics Gen.SE2.
Import ListNotations.
Local Open Scope R_scope.

Lemma se2_matrix_doc :
  forall g0 g1 g2 g3 out,
  Gen.SE2.se2_matrix_rel [g0; g1; g2; g3] out -> out = se2_mat [g0; g1; g2; g3].
Proof.
  intros g0 g1 g2 g3 out Hrel. rel_cases Hrel. autounfold with se2_matrix_db. sv_unfold. list_eq; ring.
Qed.

Lemma se2_identity_doc :
  forall out, Gen.SE2.se2_identity_rel out -> se2_mat out = mI 3 /\ se2_valid out.
Proof.
  intros out Hrel. rel_cases Hrel. autounfold with se2_identity_db. sv_unfold. split; [list_eq; ring | try lra; ring].
Qed.

Lemma se2_comp_hom :
  forall g0 g1 g2 g3 h0 h1 h2 h3 out,
  se2_valid [g0; g1; g2; g3] -> se2_valid [h0; h1; h2; h3] -> Gen.SE2.se2_comp_rel [g0; g1; g2; g3] [h0; h1; h2; h3] out ->
  se2_mat out = mmul (se2_mat [g0; g1; g2; g3]) (se2_mat [h0; h1; h2; h3]) /\ se2_valid out.
Proof.
  intros g0 g1 g2 g3 h0 h1 h2 h3 out Hg Hh Hrel. rel_cases Hrel;
  autounfold with se2_comp_db; revert Hg Hh; sv_unfold; intros Hg Hh; norm_rules;
  (split; [list_eq; ring [Hg Hh] | ring [Hg Hh]]).
Qed.

Lemma se2_inv_doc :
  forall g0 g1 g2 g3 out,
  se2_valid [g0; g1; g2; g3] -> Gen.SE2.se2_inv_rel [g0; g1; g2; g3] out ->
  mmul (se2_mat out) (se2_mat [g0; g1; g2; g3]) = mI 3 /\ mmul (se2_mat [g0; g1; g2; g3]) (se2_mat out) = mI 3 /\ se2_valid out.
Proof.
  intros g0 g1 g2 g3 out Hg Hrel. rel_cases Hrel;
  autounfold with se2_inv_db in *; revert Hg; sv_unfold; intros Hg.
  all: norm_rules; (repeat split; [list_eq; ring [Hg] | list_eq; ring [Hg] | ring [Hg]]).
Qed.

Lemma se2_act_doc :
  forall g0 g1 g2 g3 v0 v1 out,
  Gen.SE2.se2_act_rel [g0; g1; g2; g3] [v0; v1] out ->
  homog out = mvec (se2_mat [g0; g1; g2; g3]) (homog [v0; v1]).
Proof.
  intros g0 g1 g2 g3 v0 v1 out Hrel. rel_cases Hrel. autounfold with se2_act_db. sv_unfold. list_eq; ring.
Qed.

