(* Written with scripts/author/c01.py (committed output; the check builds this file against
   the freshly generated Gen/SE3.v).  Property C01. *)
From Coq Require Import Reals List Lra.
From SV Require Import Base.GenPrelude Base.Mat Doc.Groups Base.Tactics Gen.SE3.
Import ListNotations.
Local Open Scope R_scope.

Lemma se3_matrix_doc :
  forall g0 g1 g2 g3 g4 g5 g6 out,
  Gen.SE3.se3_matrix_rel [g0; g1; g2; g3; g4; g5; g6] out -> out = se3_mat [g0; g1; g2; g3; g4; g5; g6].
Proof.
  intros g0 g1 g2 g3 g4 g5 g6 out Hrel. rel_cases Hrel. autounfold with se3_matrix_db. sv_unfold. list_eq; ring.
Qed.

Lemma se3_identity_doc :
  forall out, Gen.SE3.se3_identity_rel out -> se3_mat out = mI 4 /\ se3_valid out.
Proof.
  intros out Hrel. rel_cases Hrel. autounfold with se3_identity_db. sv_unfold. split; [list_eq; ring | try lra; ring].
Qed.

Lemma se3_comp_hom :
  forall g0 g1 g2 g3 g4 g5 g6 h0 h1 h2 h3 h4 h5 h6 out,
  se3_valid [g0; g1; g2; g3; g4; g5; g6] -> se3_valid [h0; h1; h2; h3; h4; h5; h6] -> Gen.SE3.se3_comp_rel [g0; g1; g2; g3; g4; g5; g6] [h0; h1; h2; h3; h4; h5; h6] out ->
  se3_mat out = mmul (se3_mat [g0; g1; g2; g3; g4; g5; g6]) (se3_mat [h0; h1; h2; h3; h4; h5; h6]) /\ se3_valid out.
Proof.
  intros g0 g1 g2 g3 g4 g5 g6 h0 h1 h2 h3 h4 h5 h6 out Hg Hh Hrel. rel_cases Hrel;
  autounfold with se3_comp_db; revert Hg Hh; sv_unfold; intros Hg Hh; norm_rules;
  (split; [list_eq; ring [Hg Hh] | ring [Hg Hh]]).
Qed.

Lemma se3_inv_doc :
  forall g0 g1 g2 g3 g4 g5 g6 out,
  se3_valid [g0; g1; g2; g3; g4; g5; g6] -> Gen.SE3.se3_inv_rel [g0; g1; g2; g3; g4; g5; g6] out ->
  mmul (se3_mat out) (se3_mat [g0; g1; g2; g3; g4; g5; g6]) = mI 4 /\ mmul (se3_mat [g0; g1; g2; g3; g4; g5; g6]) (se3_mat out) = mI 4 /\ se3_valid out.
Proof.
  intros g0 g1 g2 g3 g4 g5 g6 out Hg Hrel. rel_cases Hrel;
  autounfold with se3_inv_db in *; revert Hg; sv_unfold; intros Hg.
  all: try (exfalso; revert Hpath; sv_unfold; lra).
  all: norm_rules; unit_denoms Hg; (repeat split; [list_eq; field [Hg]; lra | list_eq; field [Hg]; lra | field [Hg]; lra]).
Qed.

Lemma se3_act_doc :
  forall g0 g1 g2 g3 g4 g5 g6 v0 v1 v2 out,
  Gen.SE3.se3_act_rel [g0; g1; g2; g3; g4; g5; g6] [v0; v1; v2] out ->
  homog out = mvec (se3_mat [g0; g1; g2; g3; g4; g5; g6]) (homog [v0; v1; v2]).
Proof.
  intros g0 g1 g2 g3 g4 g5 g6 v0 v1 v2 out Hrel. rel_cases Hrel. autounfold with se3_act_db. sv_unfold. list_eq; ring.
Qed.

