(* Written with scripts/author/c01.py (committed output; the check builds this file against
   the freshly generated Gen/SEK3_1.v).  Property C01. *)
From Coq Require Import Reals List Lra.
From SV Require Import Base.GenPrelude Base.Mat Doc.Groups Base.Tactics Gen.SEK3_1.
Import ListNotations.
Local Open Scope R_scope.

Lemma sek1_matrix_doc :
  forall g0 g1 g2 g3 g4 g5 g6 out,
  Gen.SEK3_1.sek1_matrix_rel [g0; g1; g2; g3; g4; g5; g6] out -> out = sek_mat 1 [g0; g1; g2; g3; g4; g5; g6].
Proof.
  intros g0 g1 g2 g3 g4 g5 g6 out Hrel. rel_cases Hrel. autounfold with sek1_matrix_db. sv_unfold. list_eq; ring.
Qed.

Lemma sek1_identity_doc :
  forall out, Gen.SEK3_1.sek1_identity_rel out -> sek_mat 1 out = mI 4 /\ sek_valid 1 out.
Proof.
  intros out Hrel. rel_cases Hrel. autounfold with sek1_identity_db. sv_unfold. split; [list_eq; ring | try lra; ring].
Qed.

Lemma sek1_comp_hom :
  forall g0 g1 g2 g3 g4 g5 g6 h0 h1 h2 h3 h4 h5 h6 out,
  sek_valid 1 [g0; g1; g2; g3; g4; g5; g6] -> sek_valid 1 [h0; h1; h2; h3; h4; h5; h6] -> Gen.SEK3_1.sek1_comp_rel [g0; g1; g2; g3; g4; g5; g6] [h0; h1; h2; h3; h4; h5; h6] out ->
  sek_mat 1 out = mmul (sek_mat 1 [g0; g1; g2; g3; g4; g5; g6]) (sek_mat 1 [h0; h1; h2; h3; h4; h5; h6]) /\ sek_valid 1 out.
Proof.
  intros g0 g1 g2 g3 g4 g5 g6 h0 h1 h2 h3 h4 h5 h6 out Hg Hh Hrel. rel_cases Hrel;
  autounfold with sek1_comp_db; revert Hg Hh; sv_unfold; intros Hg Hh; norm_rules;
  (split; [list_eq; ring [Hg Hh] | ring [Hg Hh]]).
Qed.

Lemma sek1_inv_doc :
  forall g0 g1 g2 g3 g4 g5 g6 out,
  sek_valid 1 [g0; g1; g2; g3; g4; g5; g6] -> Gen.SEK3_1.sek1_inv_rel [g0; g1; g2; g3; g4; g5; g6] out ->
  mmul (sek_mat 1 out) (sek_mat 1 [g0; g1; g2; g3; g4; g5; g6]) = mI 4 /\ mmul (sek_mat 1 [g0; g1; g2; g3; g4; g5; g6]) (sek_mat 1 out) = mI 4 /\ sek_valid 1 out.
Proof.
  intros g0 g1 g2 g3 g4 g5 g6 out Hg Hrel. rel_cases Hrel;
  autounfold with sek1_inv_db in *; revert Hg; sv_unfold; intros Hg.
  all: try (exfalso; revert Hpath; sv_unfold; lra).
  all: norm_rules; unit_denoms Hg; (repeat split; [list_eq; field [Hg]; lra | list_eq; field [Hg]; lra | field [Hg]; lra]).
Qed.

