(* Written with scripts/author/c01.py (committed output; the check builds this file against
   the freshly generated Gen/SEK3_2.v).  Property C01. *)
From Coq Require Import Reals List Lra.
From SV Require Import Base.GenPrelude Base.Mat Doc.Groups Base.Tactics Gen.SEK3_2.
Import ListNotations.
Local Open Scope R_scope.

Lemma sek2_matrix_doc :
  forall g0 g1 g2 g3 g4 g5 g6 g7 g8 g9 out,
  Gen.SEK3_2.sek2_matrix_rel [g0; g1; g2; g3; g4; g5; g6; g7; g8; g9] out -> out = sek_mat 2 [g0; g1; g2; g3; g4; g5; g6; g7; g8; g9].
Proof.
  intros g0 g1 g2 g3 g4 g5 g6 g7 g8 g9 out Hrel. rel_cases Hrel. autounfold with sek2_matrix_db. sv_unfold. list_eq; ring.
Qed.

Lemma sek2_identity_doc :
  forall out, Gen.SEK3_2.sek2_identity_rel out -> sek_mat 2 out = mI 5 /\ sek_valid 2 out.
Proof.
  intros out Hrel. rel_cases Hrel. autounfold with sek2_identity_db. sv_unfold. split; [list_eq; ring | try lra; ring].
Qed.

Lemma sek2_comp_hom :
  forall g0 g1 g2 g3 g4 g5 g6 g7 g8 g9 h0 h1 h2 h3 h4 h5 h6 h7 h8 h9 out,
  sek_valid 2 [g0; g1; g2; g3; g4; g5; g6; g7; g8; g9] -> sek_valid 2 [h0; h1; h2; h3; h4; h5; h6; h7; h8; h9] -> Gen.SEK3_2.sek2_comp_rel [g0; g1; g2; g3; g4; g5; g6; g7; g8; g9] [h0; h1; h2; h3; h4; h5; h6; h7; h8; h9] out ->
  sek_mat 2 out = mmul (sek_mat 2 [g0; g1; g2; g3; g4; g5; g6; g7; g8; g9]) (sek_mat 2 [h0; h1; h2; h3; h4; h5; h6; h7; h8; h9]) /\ sek_valid 2 out.
Proof.
  intros g0 g1 g2 g3 g4 g5 g6 g7 g8 g9 h0 h1 h2 h3 h4 h5 h6 h7 h8 h9 out Hg Hh Hrel. rel_cases Hrel;
  autounfold with sek2_comp_db; revert Hg Hh; sv_unfold; intros Hg Hh; norm_rules;
  (split; [list_eq; ring [Hg Hh] | ring [Hg Hh]]).
Qed.

Lemma sek2_inv_doc :
  forall g0 g1 g2 g3 g4 g5 g6 g7 g8 g9 out,
  sek_valid 2 [g0; g1; g2; g3; g4; g5; g6; g7; g8; g9] -> Gen.SEK3_2.sek2_inv_rel [g0; g1; g2; g3; g4; g5; g6; g7; g8; g9] out ->
  mmul (sek_mat 2 out) (sek_mat 2 [g0; g1; g2; g3; g4; g5; g6; g7; g8; g9]) = mI 5 /\ mmul (sek_mat 2 [g0; g1; g2; g3; g4; g5; g6; g7; g8; g9]) (sek_mat 2 out) = mI 5 /\ sek_valid 2 out.
Proof.
  intros g0 g1 g2 g3 g4 g5 g6 g7 g8 g9 out Hg Hrel. rel_cases Hrel;
  autounfold with sek2_inv_db in *; revert Hg; sv_unfold; intros Hg.
  all: try (exfalso; revert Hpath; sv_unfold; lra).
  all: norm_rules; unit_denoms Hg; (repeat split; [list_eq; field [Hg]; lra | list_eq; field [Hg]; lra | field [Hg]; lra]).
Qed.

