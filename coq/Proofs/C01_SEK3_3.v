(* Written with scripts/author/c01.py (committed output; the check builds this file against
   the freshly generated Gen/SEK3_3.v).  Property C01. *)
From Coq Require Import Reals List Lra.
From SV Require Import Base.GenPrelude Base.Mat Doc.Groups Base.Tactics Gen.SEK3_3.
Import ListNotations.
Local Open Scope R_scope.

Lemma sek3_matrix_doc :
  forall g0 g1 g2 g3 g4 g5 g6 g7 g8 g9 g10 g11 g12 out,
  Gen.SEK3_3.sek3_matrix_rel [g0; g1; g2; g3; g4; g5; g6; g7; g8; g9; g10; g11; g12] out -> out = sek_mat 3 [g0; g1; g2; g3; g4; g5; g6; g7; g8; g9; g10; g11; g12].
Proof.
  intros g0 g1 g2 g3 g4 g5 g6 g7 g8 g9 g10 g11 g12 out Hrel. rel_cases Hrel. autounfold with sek3_matrix_db. sv_unfold. list_eq; ring.
Qed.

Lemma sek3_identity_doc :
  forall out, Gen.SEK3_3.sek3_identity_rel out -> sek_mat 3 out = mI 6 /\ sek_valid 3 out.
Proof.
  intros out Hrel. rel_cases Hrel. autounfold with sek3_identity_db. sv_unfold. split; [list_eq; ring | try lra; ring].
Qed.

Lemma sek3_comp_hom :
  forall g0 g1 g2 g3 g4 g5 g6 g7 g8 g9 g10 g11 g12 h0 h1 h2 h3 h4 h5 h6 h7 h8 h9 h10 h11 h12 out,
  sek_valid 3 [g0; g1; g2; g3; g4; g5; g6; g7; g8; g9; g10; g11; g12] -> sek_valid 3 [h0; h1; h2; h3; h4; h5; h6; h7; h8; h9; h10; h11; h12] -> Gen.SEK3_3.sek3_comp_rel [g0; g1; g2; g3; g4; g5; g6; g7; g8; g9; g10; g11; g12] [h0; h1; h2; h3; h4; h5; h6; h7; h8; h9; h10; h11; h12] out ->
  sek_mat 3 out = mmul (sek_mat 3 [g0; g1; g2; g3; g4; g5; g6; g7; g8; g9; g10; g11; g12]) (sek_mat 3 [h0; h1; h2; h3; h4; h5; h6; h7; h8; h9; h10; h11; h12]) /\ sek_valid 3 out.
Proof.
  intros g0 g1 g2 g3 g4 g5 g6 g7 g8 g9 g10 g11 g12 h0 h1 h2 h3 h4 h5 h6 h7 h8 h9 h10 h11 h12 out Hg Hh Hrel. rel_cases Hrel;
  autounfold with sek3_comp_db; revert Hg Hh; sv_unfold; intros Hg Hh; norm_rules;
  (split; [list_eq; ring [Hg Hh] | ring [Hg Hh]]).
Qed.

Lemma sek3_inv_doc :
  forall g0 g1 g2 g3 g4 g5 g6 g7 g8 g9 g10 g11 g12 out,
  sek_valid 3 [g0; g1; g2; g3; g4; g5; g6; g7; g8; g9; g10; g11; g12] -> Gen.SEK3_3.sek3_inv_rel [g0; g1; g2; g3; g4; g5; g6; g7; g8; g9; g10; g11; g12] out ->
  mmul (sek_mat 3 out) (sek_mat 3 [g0; g1; g2; g3; g4; g5; g6; g7; g8; g9; g10; g11; g12]) = mI 6 /\ mmul (sek_mat 3 [g0; g1; g2; g3; g4; g5; g6; g7; g8; g9; g10; g11; g12]) (sek_mat 3 out) = mI 6 /\ sek_valid 3 out.
Proof.
  intros g0 g1 g2 g3 g4 g5 g6 g7 g8 g9 g10 g11 g12 out Hg Hrel. rel_cases Hrel;
  autounfold with sek3_inv_db in *; revert Hg; sv_unfold; intros Hg.
  all: try (exfalso; revert Hpath; sv_unfold; lra).
  all: norm_rules; unit_denoms Hg; (repeat split; [list_eq; field [Hg]; lra | list_eq; field [Hg]; lra | field [Hg]; lra]).
Qed.

