(* Written with scripts/author/c01.py (committed output; the check builds this file against
   the freshly generated Gen/SO2.v).  Property C01. *)
From Coq Require Import Reals List Lra.
From SV Require Import Base.GenPrelude Base.Mat Doc.Groups Base.Tactics Gen.SO2.
Import ListNotations.
Local Open Scope R_scope.

Lemma so2_matrix_doc :
  forall g0 g1 out,
  Gen.SO2.so2_matrix_rel [g0; g1] out -> out = so2_mat [g0; g1].
Proof.
  intros g0 g1 out Hrel. rel_cases Hrel. autounfold with so2_matrix_db. sv_unfold. list_eq; ring.
Qed.

Lemma so2_identity_doc :
  forall out, Gen.SO2.so2_identity_rel out -> so2_mat out = mI 2 /\ so2_valid out.
Proof.
  intros out Hrel. rel_cases Hrel. autounfold with so2_identity_db. sv_unfold. split; [list_eq; ring | try lra; ring].
Qed.

Lemma so2_comp_hom :
  forall g0 g1 h0 h1 out,
  so2_valid [g0; g1] -> so2_valid [h0; h1] -> Gen.SO2.so2_comp_rel [g0; g1] [h0; h1] out ->
  so2_mat out = mmul (so2_mat [g0; g1]) (so2_mat [h0; h1]) /\ so2_valid out.
Proof.
  intros g0 g1 h0 h1 out Hg Hh Hrel. rel_cases Hrel;
  autounfold with so2_comp_db; revert Hg Hh; sv_unfold; intros Hg Hh; norm_rules;
  (split; [list_eq; ring [Hg Hh] | ring [Hg Hh]]).
Qed.

Lemma so2_inv_doc :
  forall g0 g1 out,
  so2_valid [g0; g1] -> Gen.SO2.so2_inv_rel [g0; g1] out ->
  mmul (so2_mat out) (so2_mat [g0; g1]) = mI 2 /\ mmul (so2_mat [g0; g1]) (so2_mat out) = mI 2 /\ so2_valid out.
Proof.
  intros g0 g1 out Hg Hrel. rel_cases Hrel;
  autounfold with so2_inv_db in *; revert Hg; sv_unfold; intros Hg.
  all: norm_rules; (repeat split; [list_eq; ring [Hg] | list_eq; ring [Hg] | ring [Hg]]).
Qed.

Lemma so2_act_doc :
  forall g0 g1 v0 v1 out,
  Gen.SO2.so2_act_rel [g0; g1] [v0; v1] out ->
  out = mvec (so2_mat [g0; g1]) ([v0; v1]).
Proof.
  intros g0 g1 v0 v1 out Hrel. rel_cases Hrel. autounfold with so2_act_db. sv_unfold. list_eq; ring.
Qed.

