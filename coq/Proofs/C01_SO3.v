(* Written with scripts/author/c01.py (committed output; the check builds this file against
   the freshly generated Gen/SO3.v).  Property C01. *)
From Coq Require Import Reals List Lra.
From SV Require Import Base.GenPrelude Base.Mat Doc.Groups Base.Tactics Gen.SO3.
Import ListNotations.
Local Open Scope R_scope.

Lemma so3_matrix_doc :
  forall g0 g1 g2 g3 out,
  Gen.SO3.so3_matrix_rel [g0; g1; g2; g3] out -> out = so3_mat [g0; g1; g2; g3].
Proof.
  intros g0 g1 g2 g3 out Hrel. rel_cases Hrel. autounfold with so3_matrix_db. sv_unfold. list_eq; ring.
Qed.

Lemma so3_identity_doc :
  forall out, Gen.SO3.so3_identity_rel out -> so3_mat out = mI 3 /\ so3_valid out.
Proof.
  intros out Hrel. rel_cases Hrel. autounfold with so3_identity_db. sv_unfold. split; [list_eq; ring | try lra; ring].
Qed.

Lemma so3_comp_hom :
  forall g0 g1 g2 g3 h0 h1 h2 h3 out,
  so3_valid [g0; g1; g2; g3] -> so3_valid [h0; h1; h2; h3] -> Gen.SO3.so3_comp_rel [g0; g1; g2; g3] [h0; h1; h2; h3] out ->
  so3_mat out = mmul (so3_mat [g0; g1; g2; g3]) (so3_mat [h0; h1; h2; h3]) /\ so3_valid out.
Proof.
  intros g0 g1 g2 g3 h0 h1 h2 h3 out Hg Hh Hrel. rel_cases Hrel;
  autounfold with so3_comp_db; revert Hg Hh; sv_unfold; intros Hg Hh; norm_rules;
  (split; [list_eq; ring [Hg Hh] | ring [Hg Hh]]).
Qed.

Lemma so3_inv_doc :
  forall g0 g1 g2 g3 out,
  so3_valid [g0; g1; g2; g3] -> Gen.SO3.so3_inv_rel [g0; g1; g2; g3] out ->
  mmul (so3_mat out) (so3_mat [g0; g1; g2; g3]) = mI 3 /\ mmul (so3_mat [g0; g1; g2; g3]) (so3_mat out) = mI 3 /\ so3_valid out.
Proof.
  intros g0 g1 g2 g3 out Hg Hrel. rel_cases Hrel;
  autounfold with so3_inv_db in *; revert Hg; sv_unfold; intros Hg.
  all: try (exfalso; revert Hpath; sv_unfold; lra).
  all: norm_rules; unit_denoms Hg; (repeat split; [list_eq; field [Hg]; lra | list_eq; field [Hg]; lra | field [Hg]; lra]).
Qed.

Lemma so3_act_doc :
  forall g0 g1 g2 g3 v0 v1 v2 out,
  Gen.SO3.so3_act_rel [g0; g1; g2; g3] [v0; v1; v2] out ->
  out = mvec (so3_mat [g0; g1; g2; g3]) ([v0; v1; v2]).
Proof.
  intros g0 g1 g2 g3 v0 v1 v2 out Hrel. rel_cases Hrel. autounfold with so3_act_db. sv_unfold. list_eq; ring.
Qed.

