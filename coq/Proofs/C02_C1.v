(* Written with scripts/author/c02.py (committed output; the check builds this file against
   the freshly generated Gen/C1.v).  Property C02. *)
From Coq Require Import Reals List Lra.
From SV Require Import Base.GenPrelude Base.Mat Doc.Groups Base.Tactics Gen.C1.
From Coquelicot Require Import Coquelicot.
From SV Require Import Base.Trig Doc.Exp.
Import ListNotations.
Local Open Scope R_scope.

Lemma c1_exp_flow :
  forall a0 a1 out, Gen.C1.c1_exp_rel [a0; a1] out -> c1_mat out = c1_flow [a0; a1] 1 /\ c1_valid out.
Proof.
  intros a0 a1 out Hrel. rel_cases Hrel. autounfold with c1_exp_db. flow_unfold. sv_unfold. rewrite !Rmult_1_l.
  split; [list_eq; ring | ].
  pose proof (sin2_cos2 a1) as H; unfold Rsqr in H. pose proof (exp_pos a0) as He.
  replace (exp a0 * sin a1 * (exp a0 * sin a1) + exp a0 * cos a1 * (exp a0 * cos a1)) with (exp a0 * exp a0 * (sin a1 * sin a1 + cos a1 * cos a1)) by ring.
  rewrite H. apply Rgt_not_eq. nra.
Qed.

Lemma c1_exp_is_mexp :
  forall a0 a1 out, Gen.C1.c1_exp_rel [a0; a1] out -> is_mexp 2 (c1_hat [a0; a1]) (c1_mat out).
Proof.
  intros a0 a1 out Hrel. destruct (c1_exp_flow _ _ _ Hrel) as [-> _]. apply c1_flow_mexp.
Qed.

