(* Written with scripts/author/c02.py (committed output; the check builds this file against
   the freshly generated Gen/Galilei.v).  Property C02. *)
From Coq Require Import Reals List Lra.
From SV Require Import Base.GenPrelude Base.Mat Doc.Groups Base.Tactics Gen.Galilei.
From Coquelicot Require Import Coquelicot.
From SV Require Import Base.Trig Doc.Exp.
Import ListNotations.
Local Open Scope R_scope.

Lemma gal_exp_flow :
  forall a0 a1 a2 a3 a4 a5 a6 a7 a8 a9 out, Gen.Galilei.gal_exp_rel [a0; a1; a2; a3; a4; a5; a6; a7; a8; a9] out -> eps2 < a7*a7 + a8*a8 + a9*a9 ->
  gal_mat out = gal_flow [a0; a1; a2; a3; a4; a5; a6; a7; a8; a9] 1 /\ gal_valid out.
Proof.
  intros a0 a1 a2 a3 a4 a5 a6 a7 a8 a9 out Hrel Hbig. unfold eps2 in Hbig.
  rel_cases Hrel; autounfold with gal_exp_db in *;
  try (exfalso; revert Hpath; sv_unfold; lra); clear Hpath;
  flow_unfold; sv_unfold; rewrite ?Rmult_1_l; unify_sqrts;
  match goal with |- context [sqrt ?e] => set (th2 := e) in * end;
  assert (Hpos : 0 < th2) by (first [lra | unfold th2 in *; lra]);
  name_sqrt th2 t; rewrite <- ?Htsq;
  rewrite ?(sin_half_angle t), ?(cos_half_angle t);
  trig_atom (t/2) s c;
  assert (Hz : a9*a9 = t*t - a7*a7 - a8*a8) by (unfold th2 in Htsq; lra);
  (split; [list_eq; field [H Hz]; assumption | field [H Hz]; assumption]).
Qed.

Lemma gal_exp_is_mexp :
  forall a0 a1 a2 a3 a4 a5 a6 a7 a8 a9 out, Gen.Galilei.gal_exp_rel [a0; a1; a2; a3; a4; a5; a6; a7; a8; a9] out -> eps2 < a7*a7 + a8*a8 + a9*a9 ->
  is_mexp 5 (gal_hat [a0; a1; a2; a3; a4; a5; a6; a7; a8; a9]) (gal_mat out).
Proof.
  intros a0 a1 a2 a3 a4 a5 a6 a7 a8 a9 out Hrel Hbig. destruct (gal_exp_flow _ _ _ _ _ _ _ _ _ _ _ Hrel Hbig) as [-> _].
  apply gal_flow_mexp. unfold eps2 in Hbig. lra.
Qed.

Lemma gal_exp_zero_rot :
  forall a0 a1 a2 a3 a4 a5 a6 out, Gen.Galilei.gal_exp_rel [a0; a1; a2; a3; a4; a5; a6; 0; 0; 0] out ->
  gal_mat out = gal_flow0 [a0; a1; a2; a3; a4; a5; a6; 0; 0; 0] 1 /\ gal_valid out /\ is_mexp 5 (gal_hat [a0; a1; a2; a3; a4; a5; a6; 0; 0; 0]) (gal_mat out).
Proof.
  intros a0 a1 a2 a3 a4 a5 a6 out Hrel.
  assert (E : gal_mat out = gal_flow0 [a0; a1; a2; a3; a4; a5; a6; 0; 0; 0] 1 /\ gal_valid out).
  { rel_cases Hrel; autounfold with gal_exp_db in *;
    try (exfalso; revert Hpath; sv_unfold; lra); clear Hpath;
    flow_unfold; sv_unfold; (split; [list_eq; field | field]). }
  destruct E as [E V]. split; [exact E | split; [exact V | rewrite E; apply gal_flow0_mexp]].
Qed.

