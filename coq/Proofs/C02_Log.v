(* C02, log: principal range and both round trips for SO2 (and the rotation part of every group built on it),
   against the regenerated Gen/SO2.v; uses the proved atan2 library. *)
From Coq Require Import Reals List Lra Lia.
From SV Require Import Base.GenPrelude Base.Mat Base.Atan2 Doc.Groups Base.Tactics Gen.SO2.
Import ListNotations.
Local Open Scope R_scope.

Lemma so2_log_range g0 g1 out :
  so2_valid [g0; g1] -> so2_log_rel [g0; g1] out -> exists a, out = [a] /\ - PI < a <= PI.
Proof.
  intros Hv Hrel. rel_cases Hrel. autounfold with so2_log_db. sv_unfold.
  eexists; split; [reflexivity | apply atan2_bound].
Qed.

(* exp (log g) = g, coefficient-wise *)
Lemma so2_exp_log g0 g1 a out :
  so2_valid [g0; g1] -> so2_log_rel [g0; g1] a -> so2_exp_rel a out -> out = [g0; g1].
Proof.
  intros Hv Hl He. revert Hv; sv_unfold; intros Hv. rel_cases Hl. rel_cases He.
  autounfold with so2_log_db so2_exp_db. sv_unfold.
  destruct (sincos_atan2_unit g0 g1 ltac:(lra)) as [Hs Hc]. rewrite Hs, Hc. reflexivity.
Qed.

(* log (exp a) = a on the principal range *)
Lemma so2_log_exp a g out :
  - PI < a <= PI -> so2_exp_rel [a] g -> so2_log_rel g out -> out = [a].
Proof.
  intros Ha He Hl. rel_cases He. rel_cases Hl. autounfold with so2_log_db so2_exp_db. sv_unfold.
  rewrite atan2_unit_polar by assumption. reflexivity.
Qed.

Example so2_log_exp_nonvacuous : - PI < 1 <= PI.
Proof. pose proof PI_RGT_0. pose proof PI2_1. lra. Qed.
