(* C02, log for C1 (scaling x rotation): principal range and both exact round trips (no series branch). *)
From Coq Require Import Reals List Lra Lia.
From SV Require Import Base.GenPrelude Base.Mat Base.Atan2 Doc.Groups Base.Tactics Base.Trig Gen.C1.
Import ListNotations.
Local Open Scope R_scope.

Lemma c1_log_range g0 g1 out :
  c1_log_rel [g0; g1] out -> exists s a, out = [s; a] /\ - PI < a <= PI.
Proof.
  intros Hrel. rel_cases Hrel; autounfold with c1_log_db; sv_unfold; clear Hpath.
  do 2 eexists; split; [reflexivity | apply atan2_bound].
Qed.

Lemma c1_exp_log g0 g1 a out :
  c1_valid [g0; g1] -> c1_log_rel [g0; g1] a -> c1_exp_rel a out -> out = [g0; g1].
Proof.
  intros Hv Hl He. revert Hv; sv_unfold; intros Hv.
  assert (Hpos : 0 < g1 * g1 + g0 * g0) by nra.
  destruct (sincos_atan2 g0 g1 Hpos) as [Hs Hc].
  rel_cases Hl; autounfold with c1_log_db in *; clear Hpath. revert He. sv_unfold. intros He.
  rel_cases He; autounfold with c1_exp_db in *; clear Hpath. sv_unfold.
  replace (g0 * g0 + g1 * g1) with (g1 * g1 + g0 * g0) by ring.
  rewrite Hs, Hc.
  assert (Hr : 0 < sqrt (g1 * g1 + g0 * g0)) by (apply sqrt_lt_R0; assumption).
  rewrite exp_ln by assumption. list_eq; field; lra.
Qed.

Lemma c1_log_exp a0 a1 g out :
  - PI < a1 <= PI -> c1_exp_rel [a0; a1] g -> c1_log_rel g out -> out = [a0; a1].
Proof.
  intros Hr He Hl.
  rel_cases He; autounfold with c1_exp_db in *; clear Hpath. revert Hl. sv_unfold. intros Hl.
  rel_cases Hl; autounfold with c1_log_db in *; clear Hpath. sv_unfold.
  pose proof (exp_pos a0) as He.
  rewrite (atan2_polar (exp a0) a1) by assumption.
  replace (exp a0 * sin a1 * (exp a0 * sin a1) + exp a0 * cos a1 * (exp a0 * cos a1)) with (exp a0 * exp a0)
    by (pose proof (sin2_cos2 a1) as H; unfold Rsqr in H; nra).
  rewrite sqrt_sq_pos by assumption. rewrite ln_exp. reflexivity.
Qed.
