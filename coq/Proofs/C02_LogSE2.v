(* C02, log for SE2: principal range and both round trips on the closed-form branches, against Gen/SE2.v. *)
From Coq Require Import Reals List Lra Lia.
From SV Require Import Base.GenPrelude Base.Mat Base.Atan2 Doc.Groups Base.Tactics Base.Trig Gen.SE2.
Import ListNotations.
Local Open Scope R_scope.

Lemma se2_log_range g0 g1 g2 g3 out :
  se2_log_rel [g0; g1; g2; g3] out -> exists x y a, out = [x; y; a] /\ - PI < a <= PI.
Proof.
  intros Hrel. rel_cases Hrel; autounfold with se2_log_db; sv_unfold; clear Hpath;
  (do 3 eexists; split; [reflexivity | apply atan2_bound]).
Qed.

(* exp (log g) = g on the closed-form branches, rotation angle strictly inside (-pi, pi) *)
Lemma se2_exp_log g0 g1 g2 g3 a out :
  se2_valid [g0; g1; g2; g3] -> eps2 <= atan2 g2 g3 * atan2 g2 g3 -> atan2 g2 g3 < PI ->
  se2_log_rel [g0; g1; g2; g3] a -> se2_exp_rel a out -> out = [g0; g1; g2; g3].
Proof.
  intros Hv Hbig Hlt Hl He. unfold eps2 in Hbig. revert Hv; sv_unfold; intros Hv.
  destruct (sincos_atan2_unit g2 g3 ltac:(lra)) as [Hs Hc].
  pose proof (atan2_bound g2 g3) as Hb.
  set (th := atan2 g2 g3) in *.
  assert (Hch : 0 < cos (th / 2)) by (apply cos_gt_0; lra).
  assert (Hth : th <> 0) by (intros E; rewrite E in Hbig; lra).
  assert (Hsh : sin (th / 2) <> 0).
  { intros E. apply Hth. assert (th / 2 = 0); [|lra]. apply sin_zero_small; [lra | exact E]. }
  rel_cases Hl; autounfold with se2_log_db in *; revert Hpath; sv_unfold; fold th; intros Hpath;
    try (exfalso; lra); clear Hpath.
  revert He. sv_unfold. fold th. intros He.
  rel_cases He; autounfold with se2_exp_db in *; revert Hpath; sv_unfold; fold th; intros Hpath;
    try (exfalso; lra); clear Hpath.
  rewrite Hs, Hc. rewrite <- Hs, <- Hc. unfold tan.
  rewrite (sin_half_angle th), (cos_half_angle th).
  pose proof (sin2_cos2 (th / 2)) as H; unfold Rsqr in H.
  set (s := sin (th / 2)) in *; set (c := cos (th / 2)) in *; clearbody s c.
  assert (Hcc : c * c = 1 - s * s) by lra.
  list_eq; field [Hcc]; repeat split; lra.
Qed.

(* log (exp a) = a for rotation angle in (-pi, pi), on the closed-form branches *)
Lemma se2_log_exp a0 a1 a2 g out :
  eps2 <= a2 * a2 -> - PI < a2 < PI -> se2_exp_rel [a0; a1; a2] g -> se2_log_rel g out -> out = [a0; a1; a2].
Proof.
  intros Hbig Hr He Hl. unfold eps2 in Hbig.
  assert (Hch : 0 < cos (a2 / 2)) by (apply cos_gt_0; lra).
  assert (Hth : a2 <> 0) by (intros E; rewrite E in Hbig; lra).
  assert (Hsh : sin (a2 / 2) <> 0).
  { intros E. apply Hth. assert (a2 / 2 = 0); [|lra]. apply sin_zero_small; [lra | exact E]. }
  rel_cases He; autounfold with se2_exp_db in *; revert Hpath; sv_unfold; intros Hpath;
    try (exfalso; lra); clear Hpath.
  pose proof (atan2_unit_polar a2 ltac:(lra)) as Hat.
  rel_cases Hl; autounfold with se2_log_db in *; revert Hpath; sv_unfold; rewrite ?Hat; intros Hpath;
    try (exfalso; lra); clear Hpath.
  rewrite ?Hat. unfold tan. rewrite (sin_half_angle a2), (cos_half_angle a2).
  pose proof (sin2_cos2 (a2 / 2)) as H; unfold Rsqr in H.
  set (s := sin (a2 / 2)) in *; set (c := cos (a2 / 2)) in *; clearbody s c.
  assert (Hcc : c * c = 1 - s * s) by lra.
  list_eq; field [Hcc]; repeat split; lra.
Qed.
