(* C02, log for SE3: both exact round trips on the closed-form branches (rotation angle strictly below pi),
   against the regenerated Gen/SE3.v.  Thorough tier (minutes of field normalisation). *)
From Coq Require Import Reals List Lra Lia.
From SV Require Import Base.GenPrelude Base.Mat Base.Atan2 Doc.Groups Base.Tactics Base.Trig Gen.SE3.
From SV Require Import Proofs.C02_LogSO3.
Import ListNotations.
Local Open Scope R_scope.

Ltac fold_sq phi :=
  repeat match goal with
  | |- context [sqrt ?e] =>
      match e with context [atan2 _ _] => idtac end;
      let H := fresh in
      assert (H : e = (2 * phi) * (2 * phi)); [ | rewrite H; clear H ]
  end.

Lemma se3_exp_log g0 g1 g2 g3 g4 g5 g6 a out :
  se3_valid [g0; g1; g2; g3; g4; g5; g6] -> 0 < g6 -> eps2 <= g3*g3 + g4*g4 + g5*g5 ->
  se3_log_rel [g0; g1; g2; g3; g4; g5; g6] a -> se3_exp_rel a out -> out = [g0; g1; g2; g3; g4; g5; g6].
Proof.
  intros Hv Hw Hbig Hl He. unfold eps2 in Hbig. revert Hv; sv_unfold; intros Hv.
  set (n2 := g3 * g3 + g4 * g4 + g5 * g5) in *.
  assert (Hpos : 0 < n2) by lra.
  assert (Hnsq : sqrt n2 * sqrt n2 = n2) by (apply sqrt_sqrt; lra).
  assert (Hn : 0 < sqrt n2) by (apply sqrt_lt_R0; lra).
  pose proof (atan2_quadrant1 (sqrt n2) g6 Hn ltac:(lra)) as Hq.
  destruct (sincos_atan2_unit (sqrt n2) g6 ltac:(lra)) as [Hs Hc].
  assert (Hphi : sqrt n2 <= atan2 (sqrt n2) g6) by (rewrite <- Hs at 1; apply sin_le_x; lra).
  set (n := sqrt n2) in *. set (phi := atan2 n g6) in *.
  assert (Hww1 : g3 * (2 * phi / n) * (g3 * (2 * phi / n)) + (g4 * (2 * phi / n) * (g4 * (2 * phi / n)) + g5 * (2 * phi / n) * (g5 * (2 * phi / n))) = (2 * phi) * (2 * phi)).
  { transitivity (n2 * (2 * phi / n) * (2 * phi / n)); [unfold n2; ring|]. rewrite <- Hnsq. field. lra. }
  assert (Hww2 : g3 * (2 * phi / n) * (g3 * (2 * phi / n)) + g4 * (2 * phi / n) * (g4 * (2 * phi / n)) + g5 * (2 * phi / n) * (g5 * (2 * phi / n)) = (2 * phi) * (2 * phi)) by (rewrite <- Hww1; ring).
  assert (Hpp : n2 <= phi * phi) by (rewrite <- Hnsq; nra).
  rel_cases Hl; autounfold with se3_log_db in Hpath; revert Hpath; sv_unfold; fold n2; fold n; fold phi; rewrite ?Hww1, ?Hww2; intros Hpath.
  all: try (exfalso; nra).
  clear Hpath.
  revert He. autounfold with se3_log_db. sv_unfold. fold n2; fold n; fold phi. rewrite ?Hww1, ?Hww2.
  rewrite ?(sqrt_sq_pos (2 * phi)) by lra.
  intros He.
  rel_cases He; autounfold with se3_exp_db in *; revert Hpath; sv_unfold; fold n2; fold n; fold phi; rewrite ?Hww1, ?Hww2;
    rewrite ?(sqrt_sq_pos (2 * phi)) by lra; replace (2 * phi / 2) with phi by field; rewrite ?Hs, ?Hc; intros Hpath.
  all: try (exfalso; nra).
  clear Hpath.
  rewrite sin_2a, cos_2a_sin, Hs, Hc.
  assert (Hn2 : n * n = g3 * g3 + g4 * g4 + g5 * g5) by (exact Hnsq).
  assert (Hg6 : g6 * g6 = 1 - n * n) by (rewrite Hn2; unfold n2 in Hv; lra).
  assert (Hz : g5 * g5 = n * n - g3 * g3 - g4 * g4) by lra.
  clearbody phi. clear Hs Hc Hww1 Hww2 Hnsq Hn2. clearbody n.
  list_eq; field [Hz Hg6]; repeat split; nra.
Qed.

Lemma se3_log_exp a0 a1 a2 a3 a4 a5 g out :
  eps2 < a3*a3 + a4*a4 + a5*a5 -> a3*a3 + a4*a4 + a5*a5 < PI * PI ->
  eps2 <= sin (sqrt (a3*a3 + a4*a4 + a5*a5) / 2) * sin (sqrt (a3*a3 + a4*a4 + a5*a5) / 2) ->
  se3_exp_rel [a0; a1; a2; a3; a4; a5] g -> se3_log_rel g out -> out = [a0; a1; a2; a3; a4; a5].
Proof.
  intros Hbig Hpi Hsbig He Hl. unfold eps2 in *.
  set (th2 := a3 * a3 + a4 * a4 + a5 * a5) in *.
  assert (Hth2a : a3 * a3 + (a4 * a4 + a5 * a5) = th2) by (unfold th2; ring).
  assert (Hpos : 0 < th2) by lra.
  assert (Htsq : sqrt th2 * sqrt th2 = th2) by (apply sqrt_sqrt; lra).
  assert (Ht : 0 < sqrt th2) by (apply sqrt_lt_R0; lra).
  assert (HtPI : sqrt th2 < PI) by (pose proof PI_RGT_0; nra).
  set (t := sqrt th2) in *.
  assert (Hsin : 0 < sin (t / 2)) by (apply sin_gt_0; lra).
  assert (Hcos : 0 < cos (t / 2)) by (apply cos_gt_0; lra).
  rel_cases He; autounfold with se3_exp_db in *; revert Hpath; sv_unfold; rewrite ?Hth2a; fold th2; fold t; intros Hpath.
  all: try (exfalso; lra).
  clear Hpath.
  revert Hl. sv_unfold. rewrite ?Hth2a; fold th2; fold t.
  set (s := sin (t / 2)) in *. set (c := cos (t / 2)) in *.
  assert (Hvv1 : s / t * a3 * (s / t * a3) + s / t * a4 * (s / t * a4) + s / t * a5 * (s / t * a5) = s * s).
  { transitivity (th2 * (s / t) * (s / t)); [unfold th2; ring|]. rewrite <- Htsq. field. lra. }
  assert (Hvv2 : s / t * a3 * (s / t * a3) + (s / t * a4 * (s / t * a4) + s / t * a5 * (s / t * a5)) = s * s) by (rewrite <- Hvv1; ring).
  intros Hl.
  rel_cases Hl; autounfold with se3_log_db in *; revert Hpath; sv_unfold; rewrite ?Hvv1, ?Hvv2; rewrite ?(sqrt_sq_pos s) by assumption;
    replace (atan2 s c) with (t / 2) by (symmetry; apply atan2_unit_polar; lra);
    replace (s / t * a3 * (2 * (t / 2) / s)) with a3 by (field; lra);
    replace (s / t * a4 * (2 * (t / 2) / s)) with a4 by (field; lra);
    replace (s / t * a5 * (2 * (t / 2) / s)) with a5 by (field; lra);
    rewrite ?Hth2a; fold t; intros Hpath.
  all: try (exfalso; lra).
  clear Hpath.
  rewrite (sin_half_angle t), (cos_half_angle t). fold s; fold c.
  pose proof (sin2_cos2 (t / 2)) as Hsc; unfold Rsqr in Hsc; fold s in Hsc; fold c in Hsc.
  assert (Hcc : c * c = 1 - s * s) by lra.
  assert (Hz : a5 * a5 = t * t - a3 * a3 - a4 * a4) by (unfold th2 in Htsq; lra).
  assert (Hth2t : th2 = t * t) by lra. rewrite !Hth2t.
  clear Hvv1 Hvv2 Hsc Htsq Hsbig Hth2a Hth2t. clearbody s c. clearbody t.
  list_eq; field [Hz Hcc]; repeat split; nra.
Qed.
