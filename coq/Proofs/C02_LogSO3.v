(* C02, log for SO3: norm bound on the canonical hemisphere and both round trips on the closed-form branches,
   against the regenerated Gen/SO3.v. *)
From Coq Require Import Reals List Lra Lia.
From SV Require Import Base.GenPrelude Base.Mat Base.Atan2 Doc.Groups Base.Tactics Base.Trig Gen.SO3.
Import ListNotations.
Local Open Scope R_scope.

Lemma atan2_quadrant1 y x : 0 < y -> 0 <= x -> 0 < atan2 y x <= PI / 2.
Proof.
  intros Hy Hx. destruct Hx as [Hx | <-].
  - rewrite atan2_pos by assumption. pose proof (atan_bound (y / x)). split; [|lra].
    rewrite <- atan_0. apply atan_increasing. unfold Rdiv. assert (0 < / x) by (apply Rinv_0_lt_compat; assumption). nra.
  - rewrite atan2_zero_pos by assumption. pose proof PI_RGT_0. lra.
Qed.

(* the rotation part of log has norm 2*atan2(|v|, w) <= pi on the canonical hemisphere *)
Lemma so3_log_norm g0 g1 g2 g3 out :
  so3_valid [g0; g1; g2; g3] -> 0 <= g3 -> eps2 <= g0*g0 + g1*g1 + g2*g2 -> so3_log_rel [g0; g1; g2; g3] out ->
  exists b0 b1 b2 phi, out = [b0; b1; b2] /\ b0*b0 + b1*b1 + b2*b2 = phi*phi /\ 0 <= phi <= PI.
Proof.
  intros Hv Hw Hbig Hrel. unfold eps2 in Hbig. revert Hv; sv_unfold; intros Hv.
  rel_cases Hrel; autounfold with so3_log_db in *; try (exfalso; revert Hpath; sv_unfold; lra); clear Hpath.
  sv_unfold.
  set (n2 := g0 * g0 + g1 * g1 + g2 * g2) in *.
  assert (Hpos : 0 < n2) by lra. name_sqrt n2 n.
  assert (Hn : 0 < n) by (unfold n; apply sqrt_lt_R0; lra).
  pose proof (atan2_quadrant1 n g3 Hn Hw) as Hq.
  do 3 eexists. exists (2 * atan2 n g3). split; [reflexivity|]. split; [|lra].
  transitivity (n2 * (2 * atan2 n g3 / n) * (2 * atan2 n g3 / n)); [unfold n2; ring|].
  rewrite <- Hnsq. field. assumption.
Qed.

Lemma sin_le_x x : 0 <= x -> sin x <= x.
Proof.
  intros [H | <-]; [|rewrite sin_0; lra]. left. apply sin_lt_x. assumption.
Qed.

(* exp (log g) = g, coefficient-wise, for every unit quaternion on the closed-form branch of log *)
Lemma so3_exp_log g0 g1 g2 g3 a out :
  so3_valid [g0; g1; g2; g3] -> 0 <= g3 -> eps2 <= g0*g0 + g1*g1 + g2*g2 ->
  so3_log_rel [g0; g1; g2; g3] a -> so3_exp_rel a out -> out = [g0; g1; g2; g3].
Proof.
  intros Hv Hw Hbig Hl He. unfold eps2 in Hbig. revert Hv; sv_unfold; intros Hv.
  rel_cases Hl; autounfold with so3_log_db in *; try (exfalso; revert Hpath; sv_unfold; lra); clear Hpath.
  revert He. sv_unfold.
  set (n2 := g0 * g0 + g1 * g1 + g2 * g2) in *.
  assert (Hpos : 0 < n2) by lra. name_sqrt n2 n.
  assert (Hn : 0 < n) by (unfold n; apply sqrt_lt_R0; lra).
  pose proof (atan2_quadrant1 n g3 Hn Hw) as Hq.
  destruct (sincos_atan2_unit n g3 ltac:(lra)) as [Hs Hc].
  set (phi := atan2 n g3) in *.
  assert (Hsq : (g0 * (2 * phi / n)) * (g0 * (2 * phi / n)) + ((g1 * (2 * phi / n)) * (g1 * (2 * phi / n)) + (g2 * (2 * phi / n)) * (g2 * (2 * phi / n))) = (2 * phi) * (2 * phi)).
  { transitivity (n2 * (2 * phi / n) * (2 * phi / n)); [unfold n2; ring|]. rewrite <- Hnsq. field. assumption. }
  assert (Hphi : n <= phi) by (rewrite <- Hs; apply sin_le_x; lra).
  intros He.
  rel_cases He; autounfold with so3_exp_db in *; revert Hpath; sv_unfold; rewrite ?Hsq;
    rewrite ?(sqrt_sq_pos (2 * phi)) by lra; replace (2 * phi / 2) with phi by field; rewrite ?Hs, ?Hc; intros Hpath;
    try (exfalso; nra).
  list_eq; field; lra.
Qed.

(* log (exp a) = a for rotation norm below pi, when both functions take their closed-form branch *)
Lemma so3_log_exp a0 a1 a2 g out :
  eps2 <= a0*a0 + a1*a1 + a2*a2 -> a0*a0 + a1*a1 + a2*a2 < PI * PI ->
  so3_exp_rel [a0; a1; a2] g -> so3_log_rel g out ->
  (forall g0 g1 g2 g3, g = [g0; g1; g2; g3] -> eps2 <= g0*g0 + g1*g1 + g2*g2) ->
  out = [a0; a1; a2].
Proof.
  intros Hbig Hpi He Hl Hlbig. unfold eps2 in *.
  set (th2 := a0 * a0 + (a1 * a1 + a2 * a2)).
  assert (Hth2 : th2 = a0*a0 + a1*a1 + a2*a2) by (unfold th2; ring).
  assert (Hpos : 0 < th2) by lra.
  assert (Hnsq : sqrt th2 * sqrt th2 = th2) by (apply sqrt_sqrt; lra).
  assert (Ht : 0 < sqrt th2) by (apply sqrt_lt_R0; lra).
  assert (HtPI : sqrt th2 < PI) by (pose proof PI_RGT_0; nra).
  assert (Hsin : 0 < sin (sqrt th2 / 2)) by (apply sin_gt_0; lra).
  assert (Hcos : 0 < cos (sqrt th2 / 2)) by (apply cos_gt_0; lra).
  rel_cases He; autounfold with so3_exp_db in *; revert Hpath; sv_unfold; fold th2; intros Hpath;
    try (exfalso; lra); clear Hpath.
  specialize (Hlbig _ _ _ _ eq_refl). revert Hl Hlbig. sv_unfold. fold th2.
  set (t := sqrt th2) in *. set (s := sin (t / 2)) in *. set (c := cos (t / 2)) in *.
  assert (Hvv : s / t * a0 * (s / t * a0) + s / t * a1 * (s / t * a1) + s / t * a2 * (s / t * a2) = s * s).
  { transitivity (th2 * (s / t) * (s / t)); [unfold th2; ring|]. rewrite <- Hnsq. field. lra. }
  intros Hl Hlbig. rewrite Hvv in Hlbig.
  rel_cases Hl; autounfold with so3_log_db in *; revert Hpath; sv_unfold; rewrite ?Hvv; intros Hpath;
    try (exfalso; lra); clear Hpath.
  rewrite (sqrt_sq_pos s) by assumption.
  replace (atan2 s c) with (t / 2) by (symmetry; apply atan2_unit_polar; lra).
  list_eq; field; lra.
Qed.
