(* Written with scripts/author/c02.py (committed output; the check builds this file against
   the freshly generated Gen/SE2.v).  Property C02. *)
From Coq Require Import Reals List Lra.
From SV Require Import Base.GenPrelude Base.Mat Doc.Groups Base.Tactics Gen.SE2.
From Coquelicot Require Import Coquelicot.
From SV Require Import Base.Trig Doc.Exp.
Import ListNotations.
Local Open Scope R_scope.

Lemma se2_exp_flow :
  forall a0 a1 a2 out, Gen.SE2.se2_exp_rel [a0; a1; a2] out -> eps2 < a2*a2 ->
  se2_mat out = se2_flow [a0; a1; a2] 1 /\ se2_valid out.
Proof.
  intros a0 a1 a2 out Hrel Hbig. unfold eps2 in Hbig.
  assert (Hw : a2 <> 0) by (intros ->; lra).
  rel_cases Hrel; autounfold with se2_exp_db in *;
  try (exfalso; revert Hpath; sv_unfold; lra); clear Hpath;
  flow_unfold; sv_unfold; rewrite ?Rmult_1_l;
  pose proof (sin2_cos2 a2) as Hsc; unfold Rsqr in Hsc;
  (split; [list_eq; field; assumption | lra]).
Qed.

Lemma se2_exp_is_mexp :
  forall a0 a1 a2 out, Gen.SE2.se2_exp_rel [a0; a1; a2] out -> eps2 < a2*a2 ->
  is_mexp 3 (se2_hat [a0; a1; a2]) (se2_mat out).
Proof.
  intros a0 a1 a2 out Hrel Hbig. destruct (se2_exp_flow _ _ _ _ Hrel Hbig) as [-> _].
  apply se2_flow_mexp. unfold eps2 in Hbig. intros ->; lra.
Qed.

Lemma se2_exp_zero_rot :
  forall a0 a1 out, Gen.SE2.se2_exp_rel [a0; a1; 0] out ->
  se2_mat out = se2_flow0 [a0; a1; 0] 1 /\ is_mexp 3 (se2_hat [a0; a1; 0]) (se2_mat out).
Proof.
  intros a0 a1 out Hrel.
  assert (E : se2_mat out = se2_flow0 [a0; a1; 0] 1).
  { rel_cases Hrel; autounfold with se2_exp_db in *;
    try (exfalso; revert Hpath; sv_unfold; lra); clear Hpath;
    flow_unfold; sv_unfold; rewrite ?sin_0, ?cos_0; list_eq; field. }
  split; [exact E | rewrite E; apply se2_flow0_mexp].
Qed.

