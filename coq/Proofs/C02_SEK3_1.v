(* Written with scripts/author/c02.py (committed output; the check builds this file against
   the freshly generated Gen/SEK3_1.v).  Property C02. *)
From Coq Require Import Reals List Lra.
From SV Require Import Base.GenPrelude Base.Mat Doc.Groups Base.Tactics Gen.SEK3_1.
From Coquelicot Require Import Coquelicot.
From SV Require Import Base.Trig Doc.Exp.
Import ListNotations.
Local Open Scope R_scope.

Lemma sek1_exp_flow :
  forall a0 a1 a2 a3 a4 a5 out, Gen.SEK3_1.sek1_exp_rel [a0; a1; a2; a3; a4; a5] out -> eps2 < a3*a3 + a4*a4 + a5*a5 ->
  sek_mat 1 out = se3_flow [a0; a1; a2; a3; a4; a5] 1 /\ sek_valid 1 out.
Proof.
  intros a0 a1 a2 a3 a4 a5 out Hrel Hbig. unfold eps2 in Hbig.
  rel_cases Hrel; autounfold with sek1_exp_db in *;
  try (exfalso; revert Hpath; sv_unfold; lra); clear Hpath;
  flow_unfold; sv_unfold; rewrite ?Rmult_1_l; unify_sqrts;
  match goal with |- context [sqrt ?e] => set (th2 := e) in * end;
  assert (Hpos : 0 < th2) by (first [lra | unfold th2 in *; lra]);
  name_sqrt th2 t; rewrite <- ?Htsq;
  rewrite ?(sin_half_angle t), ?(cos_half_angle t);
  trig_atom (t/2) s c;
  assert (Hz : a5*a5 = t*t - a3*a3 - a4*a4) by (unfold th2 in Htsq; lra);
  (split; [list_eq; field [H Hz]; assumption | field [H Hz]; assumption]).
Qed.

Lemma sek1_exp_is_mexp :
  forall a0 a1 a2 a3 a4 a5 out, Gen.SEK3_1.sek1_exp_rel [a0; a1; a2; a3; a4; a5] out -> eps2 < a3*a3 + a4*a4 + a5*a5 ->
  is_mexp 4 (sek_hat 1 [a0; a1; a2; a3; a4; a5]) (sek_mat 1 out).
Proof.
  intros a0 a1 a2 a3 a4 a5 out Hrel Hbig. destruct (sek1_exp_flow _ _ _ _ _ _ _ Hrel Hbig) as [-> _].
  apply se3_flow_mexp. unfold eps2 in Hbig. lra.
Qed.

Lemma sek1_exp_zero_rot :
  forall a0 a1 a2 out, Gen.SEK3_1.sek1_exp_rel [a0; a1; a2; 0; 0; 0] out ->
  sek_mat 1 out = se3_flow0 [a0; a1; a2; 0; 0; 0] 1 /\ sek_valid 1 out /\ is_mexp 4 (sek_hat 1 [a0; a1; a2; 0; 0; 0]) (sek_mat 1 out).
Proof.
  intros a0 a1 a2 out Hrel.
  assert (E : sek_mat 1 out = se3_flow0 [a0; a1; a2; 0; 0; 0] 1 /\ sek_valid 1 out).
  { rel_cases Hrel; autounfold with sek1_exp_db in *;
    try (exfalso; revert Hpath; sv_unfold; lra); clear Hpath;
    flow_unfold; sv_unfold; (split; [list_eq; field | field]). }
  destruct E as [E V]. split; [exact E | split; [exact V | rewrite E; apply se3_flow0_mexp]].
Qed.

