(* Written with scripts/author/c02.py (committed output; the check builds this file against
   the freshly generated Gen/SEK3_3.v).  Property C02. *)
From Coq Require Import Reals List Lra.
From SV Require Import Base.GenPrelude Base.Mat Doc.Groups Base.Tactics Gen.SEK3_3.
From Coquelicot Require Import Coquelicot.
From SV Require Import Base.Trig Doc.Exp.
Import ListNotations.
Local Open Scope R_scope.

Lemma sek3_exp_flow :
  forall a0 a1 a2 a3 a4 a5 a6 a7 a8 a9 a10 a11 out, Gen.SEK3_3.sek3_exp_rel [a0; a1; a2; a3; a4; a5; a6; a7; a8; a9; a10; a11] out -> eps2 < a9*a9 + a10*a10 + a11*a11 ->
  sek_mat 3 out = sek3_flow [a0; a1; a2; a3; a4; a5; a6; a7; a8; a9; a10; a11] 1 /\ sek_valid 3 out.
Proof.
  intros a0 a1 a2 a3 a4 a5 a6 a7 a8 a9 a10 a11 out Hrel Hbig. unfold eps2 in Hbig.
  rel_cases Hrel; autounfold with sek3_exp_db in *;
  try (exfalso; revert Hpath; sv_unfold; lra); clear Hpath;
  flow_unfold; sv_unfold; rewrite ?Rmult_1_l; unify_sqrts;
  match goal with |- context [sqrt ?e] => set (th2 := e) in * end;
  assert (Hpos : 0 < th2) by (first [lra | unfold th2 in *; lra]);
  name_sqrt th2 t; rewrite <- ?Htsq;
  rewrite ?(sin_half_angle t), ?(cos_half_angle t);
  trig_atom (t/2) s c;
  assert (Hz : a11*a11 = t*t - a9*a9 - a10*a10) by (unfold th2 in Htsq; lra);
  (split; [list_eq; field [H Hz]; assumption | field [H Hz]; assumption]).
Qed.

Lemma sek3_exp_is_mexp :
  forall a0 a1 a2 a3 a4 a5 a6 a7 a8 a9 a10 a11 out, Gen.SEK3_3.sek3_exp_rel [a0; a1; a2; a3; a4; a5; a6; a7; a8; a9; a10; a11] out -> eps2 < a9*a9 + a10*a10 + a11*a11 ->
  is_mexp 6 (sek_hat 3 [a0; a1; a2; a3; a4; a5; a6; a7; a8; a9; a10; a11]) (sek_mat 3 out).
Proof.
  intros a0 a1 a2 a3 a4 a5 a6 a7 a8 a9 a10 a11 out Hrel Hbig. destruct (sek3_exp_flow _ _ _ _ _ _ _ _ _ _ _ _ _ Hrel Hbig) as [-> _].
  apply sek3_flow_mexp. unfold eps2 in Hbig. lra.
Qed.

Lemma sek3_exp_zero_rot :
  forall a0 a1 a2 a3 a4 a5 a6 a7 a8 out, Gen.SEK3_3.sek3_exp_rel [a0; a1; a2; a3; a4; a5; a6; a7; a8; 0; 0; 0] out ->
  sek_mat 3 out = sek3_flow0 [a0; a1; a2; a3; a4; a5; a6; a7; a8; 0; 0; 0] 1 /\ sek_valid 3 out /\ is_mexp 6 (sek_hat 3 [a0; a1; a2; a3; a4; a5; a6; a7; a8; 0; 0; 0]) (sek_mat 3 out).
Proof.
  intros a0 a1 a2 a3 a4 a5 a6 a7 a8 out Hrel.
  assert (E : sek_mat 3 out = sek3_flow0 [a0; a1; a2; a3; a4; a5; a6; a7; a8; 0; 0; 0] 1 /\ sek_valid 3 out).
  { rel_cases Hrel; autounfold with sek3_exp_db in *;
    try (exfalso; revert Hpath; sv_unfold; lra); clear Hpath;
    flow_unfold; sv_unfold; (split; [list_eq; field | field]). }
  destruct E as [E V]. split; [exact E | split; [exact V | rewrite E; apply sek3_flow0_mexp]].
Qed.

