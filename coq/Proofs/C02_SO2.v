(* Written with scripts/author/c02.py (committed output; the check builds this file against
   the freshly generated Gen/SO2.v).  Property C02. *)
From Coq Require Import Reals List Lra.
From SV Require Import Base.GenPrelude Base.Mat Doc.Groups Base.Tactics Gen.SO2.
From Coquelicot Require Import Coquelicot.
From SV Require Import Base.Trig Doc.Exp.
Import ListNotations.
Local Open Scope R_scope.

Lemma so2_exp_flow :
  forall a0 out, Gen.SO2.so2_exp_rel [a0] out -> so2_mat out = so2_flow [a0] 1 /\ so2_valid out.
Proof.
  intros a0 out Hrel. rel_cases Hrel. autounfold with so2_exp_db. flow_unfold. sv_unfold. rewrite Rmult_1_l.
  split; [list_eq; ring | pose proof (sin2_cos2 a0) as H; unfold Rsqr in H; lra].
Qed.

Lemma so2_exp_is_mexp :
  forall a0 out, Gen.SO2.so2_exp_rel [a0] out -> is_mexp 2 (so2_hat [a0]) (so2_mat out).
Proof.
  intros a0 out Hrel. destruct (so2_exp_flow _ _ Hrel) as [-> _]. apply so2_flow_mexp.
Qed.

