(* Layer T for C02 (also used by C04/C05): on the series side of the switch (0 < x2 <= eps2) the Taylor path and the
   closed-form path of each traced kernel of detail/trig.hpp differ by at most the stated bound; the same for the
   inline kernels of SO3::exp and SE2::exp at coefficient level.  Built against the regenerated Gen/Trig.v,
   Gen/SO3.v, Gen/SE2.v: a changed Taylor coefficient, order or threshold breaks these obligations. *)
From Coq Require Import Reals List Lra Lia.
From SV Require Import Base.GenPrelude Base.Mat Base.Trig Base.Kernels Doc.Groups Base.Tactics.
From SV Require Import Gen.Trig Gen.SO3 Gen.SE2.
Import ListNotations.
Local Open Scope R_scope.

Lemma eps2_lt_1 : eps2 < 1.
Proof. unfold eps2; lra. Qed.

Lemma sqrt_small x2 : 0 < x2 <= eps2 -> 0 < sqrt x2 <= 1 /\ sqrt x2 * sqrt x2 = x2.
Proof.
  intros [H0 H1]. pose proof eps2_lt_1. split; [split|].
  - apply sqrt_lt_R0; lra.
  - rewrite <- sqrt_1. apply sqrt_le_1_alt. lra.
  - apply sqrt_sqrt; lra.
Qed.

Lemma pow6_small x x2 : 0 < x -> x * x = x2 -> x2 <= eps2 -> x^6 <= eps2 * eps2 * eps2.
Proof.
  intros Hx Hsq Hle. replace (x^6) with (x2 * x2 * x2) by (rewrite <- Hsq; ring).
  pose proof eps2_pos. assert (0 < x2) by nra.
  assert (x2 * x2 <= eps2 * eps2) by nra.
  assert (0 <= x2 * x2) by nra. nra.
Qed.

(* which generated path is which *)
Lemma cos_2_paths x2 : (cos_2_c1 [x2] <-> eps2 < x2) /\ (cos_2_c0 [x2] <-> ~ eps2 < x2).
Proof. autounfold with cos_2_db. sv_unfold. unfold eps2. tauto. Qed.
Lemma sin_3_paths x2 : (sin_3_c1 [x2] <-> eps2 < x2) /\ (sin_3_c0 [x2] <-> ~ eps2 < x2).
Proof. autounfold with sin_3_db. sv_unfold. unfold eps2. tauto. Qed.
Lemma cos_4_paths x2 : (cos_4_c1 [x2] <-> eps2 < x2) /\ (cos_4_c0 [x2] <-> ~ eps2 < x2).
Proof. autounfold with cos_4_db. sv_unfold. unfold eps2. tauto. Qed.
Lemma sin_5_paths x2 : (sin_5_c1 [x2] <-> eps2 < x2) /\ (sin_5_c0 [x2] <-> ~ eps2 < x2).
Proof. autounfold with sin_5_db. sv_unfold. unfold eps2. tauto. Qed.
Lemma cos_6_paths x2 : (cos_6_c1 [x2] <-> eps2 < x2) /\ (cos_6_c0 [x2] <-> ~ eps2 < x2).
Proof. autounfold with cos_6_db. sv_unfold. unfold eps2. tauto. Qed.

(* the traced paths are the kernels of Base/Kernels.v *)
Lemma cos_2_code x2 : 0 < x2 -> cos_2_p0 [x2] = [T_cos2 x2] /\ cos_2_p1 [x2] = [K_cos2 (sqrt x2)].
Proof.
  intros H. autounfold with cos_2_db. sv_unfold. unfold T_cos2, K_cos2.
  assert (Hs : sqrt x2 * sqrt x2 = x2) by (apply sqrt_sqrt; lra).
  assert (Hn : sqrt x2 <> 0) by (apply Rgt_not_eq, sqrt_lt_R0; lra).
  set (s := sqrt x2) in *. clearbody s. subst x2.
  split; list_eq; field; assumption.
Qed.
Lemma sin_3_code x2 : 0 < x2 -> sin_3_p0 [x2] = [T_sin3 x2] /\ sin_3_p1 [x2] = [K_sin3 (sqrt x2)].
Proof.
  intros H. autounfold with sin_3_db. sv_unfold. unfold T_sin3, K_sin3.
  assert (Hs : sqrt x2 * sqrt x2 = x2) by (apply sqrt_sqrt; lra).
  assert (Hn : sqrt x2 <> 0) by (apply Rgt_not_eq, sqrt_lt_R0; lra).
  set (s := sqrt x2) in *. clearbody s. subst x2.
  split; list_eq; field; assumption.
Qed.
Lemma cos_4_code x2 : 0 < x2 -> cos_4_p0 [x2] = [T_cos4 x2] /\ cos_4_p1 [x2] = [K_cos4 (sqrt x2)].
Proof.
  intros H. autounfold with cos_4_db. sv_unfold. unfold T_cos4, K_cos4.
  assert (Hs : sqrt x2 * sqrt x2 = x2) by (apply sqrt_sqrt; lra).
  assert (Hn : sqrt x2 <> 0) by (apply Rgt_not_eq, sqrt_lt_R0; lra).
  set (s := sqrt x2) in *. clearbody s. subst x2.
  split; list_eq; field; assumption.
Qed.
Lemma sin_5_code x2 : 0 < x2 -> sin_5_p0 [x2] = [T_sin5 x2] /\ sin_5_p1 [x2] = [K_sin5 (sqrt x2)].
Proof.
  intros H. autounfold with sin_5_db. sv_unfold. unfold T_sin5, K_sin5.
  assert (Hs : sqrt x2 * sqrt x2 = x2) by (apply sqrt_sqrt; lra).
  assert (Hn : sqrt x2 <> 0) by (apply Rgt_not_eq, sqrt_lt_R0; lra).
  set (s := sqrt x2) in *. clearbody s. subst x2.
  split; list_eq; field; assumption.
Qed.
Lemma cos_6_code x2 : 0 < x2 -> cos_6_p0 [x2] = [T_cos6 x2] /\ cos_6_p1 [x2] = [K_cos6 (sqrt x2)].
Proof.
  intros H. autounfold with cos_6_db. sv_unfold. unfold T_cos6, K_cos6.
  assert (Hs : sqrt x2 * sqrt x2 = x2) by (apply sqrt_sqrt; lra).
  assert (Hn : sqrt x2 <> 0) by (apply Rgt_not_eq, sqrt_lt_R0; lra).
  set (s := sqrt x2) in *. clearbody s. subst x2.
  split; list_eq; field; assumption.
Qed.

Definition e6 : R := eps2 * eps2 * eps2.   (* about 1e-24 *)

Lemma cos_2_trunc x2 : 0 < x2 <= eps2 ->
  exists t c, cos_2_p0 [x2] = [t] /\ cos_2_p1 [x2] = [c] /\ 0 <= c - t <= e6 / 40320.
Proof.
  intros H. destruct (sqrt_small x2 H) as [Hx Hsq]. destruct (cos_2_code x2) as [E0 E1]; [lra|].
  exists (T_cos2 x2), (K_cos2 (sqrt x2)). repeat split; try assumption.
  - pose proof (cos2_trunc (sqrt x2) Hx) as [L _]. rewrite Hsq in L. exact L.
  - pose proof (cos2_trunc (sqrt x2) Hx) as [_ U]. rewrite Hsq in U.
    pose proof (pow6_small (sqrt x2) x2 (proj1 Hx) Hsq (proj2 H)). unfold e6. lra.
Qed.
Lemma sin_3_trunc x2 : 0 < x2 <= eps2 ->
  exists t c, sin_3_p0 [x2] = [t] /\ sin_3_p1 [x2] = [c] /\ 0 <= c - t <= e6 / 362880.
Proof.
  intros H. destruct (sqrt_small x2 H) as [Hx Hsq]. destruct (sin_3_code x2) as [E0 E1]; [lra|].
  exists (T_sin3 x2), (K_sin3 (sqrt x2)). repeat split; try assumption.
  - pose proof (sin3_trunc (sqrt x2) Hx) as [L _]. rewrite Hsq in L. exact L.
  - pose proof (sin3_trunc (sqrt x2) Hx) as [_ U]. rewrite Hsq in U.
    pose proof (pow6_small (sqrt x2) x2 (proj1 Hx) Hsq (proj2 H)). unfold e6. lra.
Qed.
Lemma cos_4_trunc x2 : 0 < x2 <= eps2 ->
  exists t c, cos_4_p0 [x2] = [t] /\ cos_4_p1 [x2] = [c] /\ - (e6 / 3628800) <= c - t <= 0.
Proof.
  intros H. destruct (sqrt_small x2 H) as [Hx Hsq]. destruct (cos_4_code x2) as [E0 E1]; [lra|].
  exists (T_cos4 x2), (K_cos4 (sqrt x2)). repeat split; try assumption.
  - pose proof (cos4_trunc (sqrt x2) Hx) as [L _]. rewrite Hsq in L.
    pose proof (pow6_small (sqrt x2) x2 (proj1 Hx) Hsq (proj2 H)). unfold e6. lra.
  - pose proof (cos4_trunc (sqrt x2) Hx) as [_ U]. rewrite Hsq in U. exact U.
Qed.
Lemma sin_5_trunc x2 : 0 < x2 <= eps2 ->
  exists t c, sin_5_p0 [x2] = [t] /\ sin_5_p1 [x2] = [c] /\ - (e6 / 39916800) <= c - t <= 0.
Proof.
  intros H. destruct (sqrt_small x2 H) as [Hx Hsq]. destruct (sin_5_code x2) as [E0 E1]; [lra|].
  exists (T_sin5 x2), (K_sin5 (sqrt x2)). repeat split; try assumption.
  - pose proof (sin5_trunc (sqrt x2) Hx) as [L _]. rewrite Hsq in L.
    pose proof (pow6_small (sqrt x2) x2 (proj1 Hx) Hsq (proj2 H)). unfold e6. lra.
  - pose proof (sin5_trunc (sqrt x2) Hx) as [_ U]. rewrite Hsq in U. exact U.
Qed.
Lemma cos_6_trunc x2 : 0 < x2 <= eps2 ->
  exists t c, cos_6_p0 [x2] = [t] /\ cos_6_p1 [x2] = [c] /\ 0 <= c - t <= e6 / 479001600.
Proof.
  intros H. destruct (sqrt_small x2 H) as [Hx Hsq]. destruct (cos_6_code x2) as [E0 E1]; [lra|].
  exists (T_cos6 x2), (K_cos6 (sqrt x2)). repeat split; try assumption.
  - pose proof (cos6_trunc (sqrt x2) Hx) as [L _]. rewrite Hsq in L. exact L.
  - pose proof (cos6_trunc (sqrt x2) Hx) as [_ U]. rewrite Hsq in U.
    pose proof (pow6_small (sqrt x2) x2 (proj1 Hx) Hsq (proj2 H)). unfold e6. lra.
Qed.

Lemma e6_tiny : e6 < 1 / 10^23.
Proof. unfold e6, eps2. lra. Qed.

(* ---- SO3::exp inline kernels: coefficient-level distance between the series path (p2: th2 < eps2, no sign flip)
   and the closed-form path (p0) for 0 < th2 < eps2 *)
Lemma so3_exp_trunc a0 a1 a2 :
  0 < a0*a0 + a1*a1 + a2*a2 < eps2 ->
  exists A_t A_c B_t B_c,
    so3_exp_p2 [a0; a1; a2] = [A_t * a0; A_t * a1; A_t * a2; B_t] /\
    so3_exp_p0 [a0; a1; a2] = [A_c * a0; A_c * a1; A_c * a2; B_c] /\
    so3_exp_c2 [a0; a1; a2] /\
    0 <= A_c - A_t <= eps2 * eps2 / 3840 /\ 0 <= B_c - B_t <= eps2 * eps2 / 384.
Proof.
  intros [Hpos Hsmall].
  assert (Hassoc : a0 * a0 + (a1 * a1 + a2 * a2) = a0*a0 + a1*a1 + a2*a2) by ring.
  set (th2 := a0*a0 + a1*a1 + a2*a2) in *.
  pose proof eps2_lt_1 as He1. pose proof eps2_pos as He0.
  assert (Hth : 0 < sqrt th2) by (apply sqrt_lt_R0; lra).
  assert (Hsq : sqrt th2 * sqrt th2 = th2) by (apply sqrt_sqrt; lra).
  assert (Hle1 : sqrt th2 <= 1) by (rewrite <- sqrt_1; apply sqrt_le_1_alt; lra).
  set (s := sqrt th2) in *.
  assert (Hx : 0 <= s/2 <= 1) by lra.
  pose proof (sin_encl_3_5 (s/2) Hx) as [SL SU]. pose proof (cos_encl_2_4 (s/2) Hx) as [CL CU].
  assert (Hth22 : th2 * th2 <= eps2 * eps2) by nra.
  assert (H4 : s^4 = th2 * th2) by (rewrite <- Hsq; ring).
  exists (1/2 - th2/48), (sin (s/2) / s), (1 - th2/8), (cos (s/2)).
  split; [|split; [|split; [|split]]].
  - autounfold with so3_exp_db. sv_unfold. rewrite Hassoc. list_eq; field.
  - autounfold with so3_exp_db. sv_unfold. rewrite Hassoc. fold s. list_eq; try field; lra.
  - autounfold with so3_exp_db. sv_unfold. rewrite Hassoc. unfold eps2 in *. lra.
  - replace (sin (s/2) / s - (1/2 - th2/48)) with ((sin (s/2) - (s/2 - (s/2)^3/6)) / s)
      by (rewrite <- Hsq; field; lra).
    apply div_between; [assumption|]. split; [lra|].
    replace (eps2 * eps2 / 3840 * s) with (s * (eps2*eps2) / 3840) by field.
    assert ((s/2)^5/120 = s * s^4 / 3840) by field. rewrite H4 in H. nra.
  - replace (cos (s/2) - (1 - th2/8)) with (cos (s/2) - (1 - (s/2)^2/2)) by (rewrite <- Hsq; field).
    assert ((s/2)^4/24 = s^4/384) by field. rewrite H4 in H. lra.
Qed.

(* ---- SE2::exp inline kernels *)
Lemma se2_exp_trunc a0 a1 a2 :
  0 < a2*a2 < eps2 ->
  exists A_t A_c B_t B_c,
    se2_exp_p1 [a0; a1; a2] = [A_t * a0 + B_t * a1; - B_t * a0 + A_t * a1; sin a2; cos a2] /\
    se2_exp_p0 [a0; a1; a2] = [A_c * a0 + B_c * a1; - B_c * a0 + A_c * a1; sin a2; cos a2] /\
    se2_exp_c1 [a0; a1; a2] /\
    Rabs (A_c - A_t) <= eps2 * eps2 / 120 /\ Rabs (B_c - B_t) <= eps2 * eps2 / 720.
Proof.
  intros [Hpos Hsmall]. pose proof eps2_lt_1 as He1. pose proof eps2_pos as He0.
  assert (Hw : a2 <> 0) by (intros ->; lra).
  exists (1 - a2*a2/6), (sin a2 / a2), (- a2/2 + a2*(a2*a2)/24), ((cos a2 - 1)/a2).
  set (x := Rabs a2).
  assert (Hxpos : 0 < x) by (apply Rabs_pos_lt; assumption).
  assert (Hxx : x * x = a2 * a2) by (unfold x; rewrite <- Rabs_mult; apply Rabs_pos_eq; nra).
  assert (Hx1 : x <= 1) by nra.
  assert (Hx : 0 <= x <= 1) by lra.
  pose proof (sin_encl_3_5 x Hx) as [SL SU]. pose proof (cos_encl_4_6 x Hx) as [CL CU].
  assert (Hcos : cos a2 = cos x)
    by (unfold x; destruct (Rcase_abs a2); [rewrite Rabs_left, cos_neg by lra | rewrite Rabs_right by lra]; reflexivity).
  assert (Hx4 : x^4 = (a2*a2)*(a2*a2)) by (replace (x^4) with ((x*x)*(x*x)) by ring; rewrite Hxx; ring).
  assert (H22 : (a2*a2)*(a2*a2) <= eps2 * eps2) by nra.
  assert (H40 : 0 <= x^4) by (rewrite Hx4; nra).
  split; [|split; [|split; [|split]]].
  - autounfold with se2_exp_db. sv_unfold. list_eq; field.
  - autounfold with se2_exp_db. sv_unfold. list_eq; field; assumption.
  - autounfold with se2_exp_db. sv_unfold. unfold eps2 in *. lra.
  - (* |sin a/a - (1 - a^2/6)| = (sin x - x + x^3/6)/x <= x^4/120 *)
    replace (sin a2 / a2 - (1 - a2*a2/6)) with ((sin x - (x - x^3/6)) / x).
    2:{ rewrite <- Hxx. unfold x. destruct (Rcase_abs a2) as [Hn|Hp].
        - rewrite Rabs_left by lra. rewrite sin_neg. field; lra.
        - rewrite Rabs_right by lra. field; lra. }
    assert (0 <= (sin x - (x - x^3/6)) / x <= eps2*eps2/120).
    { apply div_between; [assumption|]. split; [lra|].
      assert (x^5/120 = x^4 / 120 * x) by field. nra. }
    rewrite Rabs_pos_eq; lra.
  - (* |(cos a - 1)/a - (-a/2 + a^3/24)| = |cos x - 1 + x^2/2 - x^4/24| / x <= x^5/720 *)
    replace ((cos a2 - 1)/a2 - (- a2/2 + a2*(a2*a2)/24)) with ((cos x - (1 - x^2/2 + x^4/24)) / a2).
    2:{ rewrite <- Hcos. replace (x^2) with (x*x) by ring. rewrite Hx4, Hxx. field; assumption. }
    unfold Rdiv. rewrite Rabs_mult, Rabs_inv. fold x.
    rewrite (Rabs_left1 (cos x - _)) by lra.
    assert (0 <= - (cos x - (1 - x^2/2 + x^4/24)) * / x <= eps2*eps2/720).
    { apply (div_between (- (cos x - (1 - x^2/2 + x^4/24))) x); [assumption|]. split; [lra|].
      assert (x^6/720 = x^4 * x / 720 * x) by field. assert (x^4 * x <= eps2*eps2) by nra. nra. }
    lra.
Qed.
