(* C02: series side of the switch for exp (SE3, Galilei, SE_K_3<1>), rotation and translation parts
   Written with scripts/author/trunc_gen.py (committed output; the check builds this file against the regenerated Gen).
   For each function: `f_form` is the closed-form path of the traced function with the detail/trig.hpp kernel expressions
   abstracted; the series path is the same expression with the kernels replaced by their Taylor polynomials, and the kernel
   values differ by the bounds of Base/Kernels.v.  A changed series coefficient or switch breaks an equation. *)
From Coq Require Import Reals List Lra Lia.
From SV Require Import Base.GenPrelude Base.Mat Doc.Groups Base.Tactics Base.Trig Base.Kernels Base.KernelQ.
From SV Require Gen.Galilei Gen.SE3 Gen.SEK3_1.
Import ListNotations.
Local Open Scope R_scope.

Definition se3_exp_form (Q W C2 S3 a0 a1 a2 a3 a4 a5 : R) : list R :=
  [((1 - (2 * (Q * a4) * (Q * a4) + 2 * (Q * a5) * (Q * a5))) * (1 - (- (S3 * a5 * a5) - S3 * a4 * a4)) + ((2 * (Q * a4) * (Q * a3) - 2 * (Q * a5) * W) * (C2 * a5 - S3 * a3 * a4) + (2 * (Q * a5) * (Q * a3) + 2 * (Q * a4) * W) * (- (C2 * a4) - S3 * a3 * a5))) * a0 + (((1 - (2 * (Q * a4) * (Q * a4) + 2 * (Q * a5) * (Q * a5))) * (- (C2 * a5) - S3 * a4 * a3) + ((2 * (Q * a4) * (Q * a3) - 2 * (Q * a5) * W) * (1 - (- (S3 * a5 * a5) - S3 * a3 * a3)) + (2 * (Q * a5) * (Q * a3) + 2 * (Q * a4) * W) * (C2 * a3 - S3 * a4 * a5))) * a1 + ((1 - (2 * (Q * a4) * (Q * a4) + 2 * (Q * a5) * (Q * a5))) * (C2 * a4 - S3 * a5 * a3) + ((2 * (Q * a4) * (Q * a3) - 2 * (Q * a5) * W) * (- (C2 * a3) - S3 * a5 * a4) + (2 * (Q * a5) * (Q * a3) + 2 * (Q * a4) * W) * (1 - (- (S3 * a4 * a4) - S3 * a3 * a3)))) * a2); ((2 * (Q * a4) * (Q * a3) + 2 * (Q * a5) * W) * (1 - (- (S3 * a5 * a5) - S3 * a4 * a4)) + ((1 - (2 * (Q * a3) * (Q * a3) + 2 * (Q * a5) * (Q * a5))) * (C2 * a5 - S3 * a3 * a4) + (2 * (Q * a5) * (Q * a4) - 2 * (Q * a3) * W) * (- (C2 * a4) - S3 * a3 * a5))) * a0 + (((2 * (Q * a4) * (Q * a3) + 2 * (Q * a5) * W) * (- (C2 * a5) - S3 * a4 * a3) + ((1 - (2 * (Q * a3) * (Q * a3) + 2 * (Q * a5) * (Q * a5))) * (1 - (- (S3 * a5 * a5) - S3 * a3 * a3)) + (2 * (Q * a5) * (Q * a4) - 2 * (Q * a3) * W) * (C2 * a3 - S3 * a4 * a5))) * a1 + ((2 * (Q * a4) * (Q * a3) + 2 * (Q * a5) * W) * (C2 * a4 - S3 * a5 * a3) + ((1 - (2 * (Q * a3) * (Q * a3) + 2 * (Q * a5) * (Q * a5))) * (- (C2 * a3) - S3 * a5 * a4) + (2 * (Q * a5) * (Q * a4) - 2 * (Q * a3) * W) * (1 - (- (S3 * a4 * a4) - S3 * a3 * a3)))) * a2); ((2 * (Q * a5) * (Q * a3) - 2 * (Q * a4) * W) * (1 - (- (S3 * a5 * a5) - S3 * a4 * a4)) + ((2 * (Q * a5) * (Q * a4) + 2 * (Q * a3) * W) * (C2 * a5 - S3 * a3 * a4) + (1 - (2 * (Q * a3) * (Q * a3) + 2 * (Q * a4) * (Q * a4))) * (- (C2 * a4) - S3 * a3 * a5))) * a0 + (((2 * (Q * a5) * (Q * a3) - 2 * (Q * a4) * W) * (- (C2 * a5) - S3 * a4 * a3) + ((2 * (Q * a5) * (Q * a4) + 2 * (Q * a3) * W) * (1 - (- (S3 * a5 * a5) - S3 * a3 * a3)) + (1 - (2 * (Q * a3) * (Q * a3) + 2 * (Q * a4) * (Q * a4))) * (C2 * a3 - S3 * a4 * a5))) * a1 + ((2 * (Q * a5) * (Q * a3) - 2 * (Q * a4) * W) * (C2 * a4 - S3 * a5 * a3) + ((2 * (Q * a5) * (Q * a4) + 2 * (Q * a3) * W) * (- (C2 * a3) - S3 * a5 * a4) + (1 - (2 * (Q * a3) * (Q * a3) + 2 * (Q * a4) * (Q * a4))) * (1 - (- (S3 * a4 * a4) - S3 * a3 * a3)))) * a2); Q * a3; Q * a4; Q * a5; W].

Lemma se3_exp_trunc a0 a1 a2 a3 a4 a5 :
  0 < a3*a3 + a4*a4 + a5*a5 < eps2 ->
  let th2 := a3*a3 + a4*a4 + a5*a5 in let th := sqrt th2 in
  Gen.SE3.se3_exp_p4 [a0; a1; a2; a3; a4; a5] = se3_exp_form (T_Q th2) (T_W th2) (T_cos2 th2) (T_sin3 th2) a0 a1 a2 a3 a4 a5 /\
  Gen.SE3.se3_exp_p1 [a0; a1; a2; a3; a4; a5] = se3_exp_form (K_Q th) (K_W th) (K_cos2 th) (K_sin3 th) a0 a1 a2 a3 a4 a5 /\
  Gen.SE3.se3_exp_c4 [a0; a1; a2; a3; a4; a5] /\
  0 <= K_Q th - T_Q th2 <= eps2 * eps2 / 3840 /\
  0 <= K_W th - T_W th2 <= eps2 * eps2 / 384 /\
  0 <= K_cos2 th - T_cos2 th2 <= eps2 * eps2 * eps2 / 40320 /\
  0 <= K_sin3 th - T_sin3 th2 <= eps2 * eps2 * eps2 / 362880.
Proof.
  intros [Hpos Hsmall] th2 th. pose proof eps2_pos as He0. assert (He1 : eps2 < 1 / 99999999) by apply eps2_small.
  assert (Hassoc : a3 * a3 + (a4 * a4 + a5 * a5) = th2) by (unfold th2; ring).
  assert (Hth : 0 < th) by (apply sqrt_lt_R0; assumption).
  assert (Hsq : th * th = th2) by (apply sqrt_sqrt; unfold th2; lra).
  assert (Hle1 : th <= 1) by (unfold th; rewrite <- sqrt_1; apply sqrt_le_1_alt; lra).
  assert (Hth222 : th2 * th2 * th2 <= eps2 * eps2 * eps2) by (apply Rmult_le_compat; [nra | lra | apply Rmult_le_compat; lra | lra]).
  assert (H6 : th^6 = th2 * th2 * th2) by (rewrite <- Hsq; ring).
  assert (H4 : th^4 = th2 * th2) by (rewrite <- Hsq; ring).
  assert (Hth22 : th2 * th2 <= eps2 * eps2) by (apply Rmult_le_compat; lra).
  split; [|split; [|split; [|split; [|split; [|split; [|]]]]]].
  - autounfold with se3_exp_db. unfold se3_exp_form, T_Q, T_W, T_cos2, T_sin3. sv_unfold. rewrite ?Hassoc. list_eq; field.
  - autounfold with se3_exp_db. unfold se3_exp_form, K_Q, K_W, K_cos2, K_sin3. sv_unfold. rewrite ?Hassoc. fold th. rewrite <- Hsq.
    list_eq; field; lra.
  - autounfold with se3_exp_db. sv_unfold. rewrite ?Hassoc. unfold eps2 in *. repeat split; lra.
  - pose proof (Q_trunc th (conj Hth Hle1)) as [L U]. rewrite Hsq in L, U. rewrite ?H6, ?H4 in *. lra.
  - pose proof (W_trunc th (conj Hth Hle1)) as [L U]. rewrite Hsq in L, U. rewrite ?H6, ?H4 in *. lra.
  - pose proof (cos2_trunc th (conj Hth Hle1)) as [L U]. rewrite Hsq in L, U. rewrite ?H6, ?H4 in *. lra.
  - pose proof (sin3_trunc th (conj Hth Hle1)) as [L U]. rewrite Hsq in L, U. rewrite ?H6, ?H4 in *. lra.
Qed.

Definition gal_exp_form (Q W C2 S3 C4 a0 a1 a2 a3 a4 a5 a6 a7 a8 a9 : R) : list R :=
  [(1 - (- (S3 * a9 * a9) - S3 * a8 * a8)) * a0 + ((C2 * a9 - S3 * a8 * a7) * a1 + (- (C2 * a8) - S3 * a9 * a7) * a2); (- (C2 * a9) - S3 * a7 * a8) * a0 + ((1 - (- (S3 * a9 * a9) - S3 * a7 * a7)) * a1 + (C2 * a7 - S3 * a9 * a8) * a2); (C2 * a8 - S3 * a7 * a9) * a0 + ((- (C2 * a7) - S3 * a8 * a9) * a1 + (1 - (- (S3 * a8 * a8) - S3 * a7 * a7)) * a2); (1 - (- (S3 * a9 * a9) - S3 * a8 * a8)) * a3 + ((C2 * a9 - S3 * a8 * a7) * a4 + (- (C2 * a8) - S3 * a9 * a7) * a5) + ((1 / 2 + (- (C4 * a9 * a9) - C4 * a8 * a8)) * a0 + ((S3 * a9 + C4 * a8 * a7) * a1 + (C4 * a9 * a7 - S3 * a8) * a2)) * a6; (- (C2 * a9) - S3 * a7 * a8) * a3 + ((1 - (- (S3 * a9 * a9) - S3 * a7 * a7)) * a4 + (C2 * a7 - S3 * a9 * a8) * a5) + ((C4 * a7 * a8 - S3 * a9) * a0 + ((1 / 2 + (- (C4 * a9 * a9) - C4 * a7 * a7)) * a1 + (S3 * a7 + C4 * a9 * a8) * a2)) * a6; (C2 * a8 - S3 * a7 * a9) * a3 + ((- (C2 * a7) - S3 * a8 * a9) * a4 + (1 - (- (S3 * a8 * a8) - S3 * a7 * a7)) * a5) + ((S3 * a8 + C4 * a7 * a9) * a0 + ((C4 * a8 * a9 - S3 * a7) * a1 + (1 / 2 + (- (C4 * a8 * a8) - C4 * a7 * a7)) * a2)) * a6; a6; Q * a7; Q * a8; Q * a9; W].

Lemma gal_exp_trunc a0 a1 a2 a3 a4 a5 a6 a7 a8 a9 :
  0 < a7*a7 + a8*a8 + a9*a9 < eps2 ->
  let th2 := a7*a7 + a8*a8 + a9*a9 in let th := sqrt th2 in
  Gen.Galilei.gal_exp_p4 [a0; a1; a2; a3; a4; a5; a6; a7; a8; a9] = gal_exp_form (T_Q th2) (T_W th2) (T_cos2 th2) (T_sin3 th2) (T_cos4 th2) a0 a1 a2 a3 a4 a5 a6 a7 a8 a9 /\
  Gen.Galilei.gal_exp_p1 [a0; a1; a2; a3; a4; a5; a6; a7; a8; a9] = gal_exp_form (K_Q th) (K_W th) (K_cos2 th) (K_sin3 th) (K_cos4 th) a0 a1 a2 a3 a4 a5 a6 a7 a8 a9 /\
  Gen.Galilei.gal_exp_c4 [a0; a1; a2; a3; a4; a5; a6; a7; a8; a9] /\
  0 <= K_Q th - T_Q th2 <= eps2 * eps2 / 3840 /\
  0 <= K_W th - T_W th2 <= eps2 * eps2 / 384 /\
  0 <= K_cos2 th - T_cos2 th2 <= eps2 * eps2 * eps2 / 40320 /\
  0 <= K_sin3 th - T_sin3 th2 <= eps2 * eps2 * eps2 / 362880 /\
  - (eps2 * eps2 * eps2 / 3628800) <= K_cos4 th - T_cos4 th2 <= 0.
Proof.
  intros [Hpos Hsmall] th2 th. pose proof eps2_pos as He0. assert (He1 : eps2 < 1 / 99999999) by apply eps2_small.
  assert (Hassoc : a7 * a7 + (a8 * a8 + a9 * a9) = th2) by (unfold th2; ring).
  assert (Hth : 0 < th) by (apply sqrt_lt_R0; assumption).
  assert (Hsq : th * th = th2) by (apply sqrt_sqrt; unfold th2; lra).
  assert (Hle1 : th <= 1) by (unfold th; rewrite <- sqrt_1; apply sqrt_le_1_alt; lra).
  assert (Hth222 : th2 * th2 * th2 <= eps2 * eps2 * eps2) by (apply Rmult_le_compat; [nra | lra | apply Rmult_le_compat; lra | lra]).
  assert (H6 : th^6 = th2 * th2 * th2) by (rewrite <- Hsq; ring).
  assert (H4 : th^4 = th2 * th2) by (rewrite <- Hsq; ring).
  assert (Hth22 : th2 * th2 <= eps2 * eps2) by (apply Rmult_le_compat; lra).
  split; [|split; [|split; [|split; [|split; [|split; [|split; [|]]]]]]].
  - autounfold with gal_exp_db. unfold gal_exp_form, T_Q, T_W, T_cos2, T_sin3, T_cos4. sv_unfold. rewrite ?Hassoc. list_eq; field.
  - autounfold with gal_exp_db. unfold gal_exp_form, K_Q, K_W, K_cos2, K_sin3, K_cos4. sv_unfold. rewrite ?Hassoc. fold th. rewrite <- Hsq.
    list_eq; field; lra.
  - autounfold with gal_exp_db. sv_unfold. rewrite ?Hassoc. unfold eps2 in *. repeat split; lra.
  - pose proof (Q_trunc th (conj Hth Hle1)) as [L U]. rewrite Hsq in L, U. rewrite ?H6, ?H4 in *. lra.
  - pose proof (W_trunc th (conj Hth Hle1)) as [L U]. rewrite Hsq in L, U. rewrite ?H6, ?H4 in *. lra.
  - pose proof (cos2_trunc th (conj Hth Hle1)) as [L U]. rewrite Hsq in L, U. rewrite ?H6, ?H4 in *. lra.
  - pose proof (sin3_trunc th (conj Hth Hle1)) as [L U]. rewrite Hsq in L, U. rewrite ?H6, ?H4 in *. lra.
  - pose proof (cos4_trunc th (conj Hth Hle1)) as [L U]. rewrite Hsq in L, U. rewrite ?H6, ?H4 in *. lra.
Qed.

Definition sek1_exp_form (Q W C2 S3 a0 a1 a2 a3 a4 a5 : R) : list R :=
  [((1 - (2 * (Q * a4) * (Q * a4) + 2 * (Q * a5) * (Q * a5))) * (1 - (- (S3 * a5 * a5) - S3 * a4 * a4)) + ((2 * (Q * a4) * (Q * a3) - 2 * (Q * a5) * W) * (C2 * a5 - S3 * a3 * a4) + (2 * (Q * a5) * (Q * a3) + 2 * (Q * a4) * W) * (- (C2 * a4) - S3 * a3 * a5))) * a0 + (((1 - (2 * (Q * a4) * (Q * a4) + 2 * (Q * a5) * (Q * a5))) * (- (C2 * a5) - S3 * a4 * a3) + ((2 * (Q * a4) * (Q * a3) - 2 * (Q * a5) * W) * (1 - (- (S3 * a5 * a5) - S3 * a3 * a3)) + (2 * (Q * a5) * (Q * a3) + 2 * (Q * a4) * W) * (C2 * a3 - S3 * a4 * a5))) * a1 + ((1 - (2 * (Q * a4) * (Q * a4) + 2 * (Q * a5) * (Q * a5))) * (C2 * a4 - S3 * a5 * a3) + ((2 * (Q * a4) * (Q * a3) - 2 * (Q * a5) * W) * (- (C2 * a3) - S3 * a5 * a4) + (2 * (Q * a5) * (Q * a3) + 2 * (Q * a4) * W) * (1 - (- (S3 * a4 * a4) - S3 * a3 * a3)))) * a2); ((2 * (Q * a4) * (Q * a3) + 2 * (Q * a5) * W) * (1 - (- (S3 * a5 * a5) - S3 * a4 * a4)) + ((1 - (2 * (Q * a3) * (Q * a3) + 2 * (Q * a5) * (Q * a5))) * (C2 * a5 - S3 * a3 * a4) + (2 * (Q * a5) * (Q * a4) - 2 * (Q * a3) * W) * (- (C2 * a4) - S3 * a3 * a5))) * a0 + (((2 * (Q * a4) * (Q * a3) + 2 * (Q * a5) * W) * (- (C2 * a5) - S3 * a4 * a3) + ((1 - (2 * (Q * a3) * (Q * a3) + 2 * (Q * a5) * (Q * a5))) * (1 - (- (S3 * a5 * a5) - S3 * a3 * a3)) + (2 * (Q * a5) * (Q * a4) - 2 * (Q * a3) * W) * (C2 * a3 - S3 * a4 * a5))) * a1 + ((2 * (Q * a4) * (Q * a3) + 2 * (Q * a5) * W) * (C2 * a4 - S3 * a5 * a3) + ((1 - (2 * (Q * a3) * (Q * a3) + 2 * (Q * a5) * (Q * a5))) * (- (C2 * a3) - S3 * a5 * a4) + (2 * (Q * a5) * (Q * a4) - 2 * (Q * a3) * W) * (1 - (- (S3 * a4 * a4) - S3 * a3 * a3)))) * a2); ((2 * (Q * a5) * (Q * a3) - 2 * (Q * a4) * W) * (1 - (- (S3 * a5 * a5) - S3 * a4 * a4)) + ((2 * (Q * a5) * (Q * a4) + 2 * (Q * a3) * W) * (C2 * a5 - S3 * a3 * a4) + (1 - (2 * (Q * a3) * (Q * a3) + 2 * (Q * a4) * (Q * a4))) * (- (C2 * a4) - S3 * a3 * a5))) * a0 + (((2 * (Q * a5) * (Q * a3) - 2 * (Q * a4) * W) * (- (C2 * a5) - S3 * a4 * a3) + ((2 * (Q * a5) * (Q * a4) + 2 * (Q * a3) * W) * (1 - (- (S3 * a5 * a5) - S3 * a3 * a3)) + (1 - (2 * (Q * a3) * (Q * a3) + 2 * (Q * a4) * (Q * a4))) * (C2 * a3 - S3 * a4 * a5))) * a1 + ((2 * (Q * a5) * (Q * a3) - 2 * (Q * a4) * W) * (C2 * a4 - S3 * a5 * a3) + ((2 * (Q * a5) * (Q * a4) + 2 * (Q * a3) * W) * (- (C2 * a3) - S3 * a5 * a4) + (1 - (2 * (Q * a3) * (Q * a3) + 2 * (Q * a4) * (Q * a4))) * (1 - (- (S3 * a4 * a4) - S3 * a3 * a3)))) * a2); Q * a3; Q * a4; Q * a5; W].

Lemma sek1_exp_trunc a0 a1 a2 a3 a4 a5 :
  0 < a3*a3 + a4*a4 + a5*a5 < eps2 ->
  let th2 := a3*a3 + a4*a4 + a5*a5 in let th := sqrt th2 in
  Gen.SEK3_1.sek1_exp_p4 [a0; a1; a2; a3; a4; a5] = sek1_exp_form (T_Q th2) (T_W th2) (T_cos2 th2) (T_sin3 th2) a0 a1 a2 a3 a4 a5 /\
  Gen.SEK3_1.sek1_exp_p1 [a0; a1; a2; a3; a4; a5] = sek1_exp_form (K_Q th) (K_W th) (K_cos2 th) (K_sin3 th) a0 a1 a2 a3 a4 a5 /\
  Gen.SEK3_1.sek1_exp_c4 [a0; a1; a2; a3; a4; a5] /\
  0 <= K_Q th - T_Q th2 <= eps2 * eps2 / 3840 /\
  0 <= K_W th - T_W th2 <= eps2 * eps2 / 384 /\
  0 <= K_cos2 th - T_cos2 th2 <= eps2 * eps2 * eps2 / 40320 /\
  0 <= K_sin3 th - T_sin3 th2 <= eps2 * eps2 * eps2 / 362880.
Proof.
  intros [Hpos Hsmall] th2 th. pose proof eps2_pos as He0. assert (He1 : eps2 < 1 / 99999999) by apply eps2_small.
  assert (Hassoc : a3 * a3 + (a4 * a4 + a5 * a5) = th2) by (unfold th2; ring).
  assert (Hth : 0 < th) by (apply sqrt_lt_R0; assumption).
  assert (Hsq : th * th = th2) by (apply sqrt_sqrt; unfold th2; lra).
  assert (Hle1 : th <= 1) by (unfold th; rewrite <- sqrt_1; apply sqrt_le_1_alt; lra).
  assert (Hth222 : th2 * th2 * th2 <= eps2 * eps2 * eps2) by (apply Rmult_le_compat; [nra | lra | apply Rmult_le_compat; lra | lra]).
  assert (H6 : th^6 = th2 * th2 * th2) by (rewrite <- Hsq; ring).
  assert (H4 : th^4 = th2 * th2) by (rewrite <- Hsq; ring).
  assert (Hth22 : th2 * th2 <= eps2 * eps2) by (apply Rmult_le_compat; lra).
  split; [|split; [|split; [|split; [|split; [|split; [|]]]]]].
  - autounfold with sek1_exp_db. unfold sek1_exp_form, T_Q, T_W, T_cos2, T_sin3. sv_unfold. rewrite ?Hassoc. list_eq; field.
  - autounfold with sek1_exp_db. unfold sek1_exp_form, K_Q, K_W, K_cos2, K_sin3. sv_unfold. rewrite ?Hassoc. fold th. rewrite <- Hsq.
    list_eq; field; lra.
  - autounfold with sek1_exp_db. sv_unfold. rewrite ?Hassoc. unfold eps2 in *. repeat split; lra.
  - pose proof (Q_trunc th (conj Hth Hle1)) as [L U]. rewrite Hsq in L, U. rewrite ?H6, ?H4 in *. lra.
  - pose proof (W_trunc th (conj Hth Hle1)) as [L U]. rewrite Hsq in L, U. rewrite ?H6, ?H4 in *. lra.
  - pose proof (cos2_trunc th (conj Hth Hle1)) as [L U]. rewrite Hsq in L, U. rewrite ?H6, ?H4 in *. lra.
  - pose proof (sin3_trunc th (conj Hth Hle1)) as [L U]. rewrite Hsq in L, U. rewrite ?H6, ?H4 in *. lra.
Qed.
