(* C02: series side of the switch for SE2 log.  Both paths are [A x + h y; A y - h x; th] with th = atan2(qz, qw), h = th/2 and
   the kernel A = (th/2)/tan(th/2) on the closed-form path, A = 1 - th^2/12 on the series path; -th^4/600 <= K_L - T_L <= 0. *)
From Coq Require Import Reals List Lra Lia.
From SV Require Import Base.GenPrelude Base.Mat Base.Atan2 Doc.Groups Base.Tactics Base.Trig Base.Kernels Base.KernelL Base.AtanEncl.
From SV Require Gen.SE2 Gen.SO3.
Import ListNotations.
Local Open Scope R_scope.

Definition se2_log_form (A x y th : R) : list R := [A * x + th / 2 * y; A * y - th / 2 * x; th].

Section SE2.
Import Gen.SE2.
Lemma se2_log_trunc g0 g1 g2 g3 :
  let th := atan2 g2 g3 in
  0 < th * th < eps2 ->
  se2_log_p1 [g0; g1; g2; g3] = se2_log_form (T_L (th * th)) g0 g1 th /\
  se2_log_p0 [g0; g1; g2; g3] = se2_log_form (K_L th) g0 g1 th /\
  se2_log_c1 [g0; g1; g2; g3] /\
  - (eps2 * eps2 / 600) <= K_L th - T_L (th * th) <= 0.
Proof.
  intros th [Hpos Hsmall]. pose proof eps2_pos as He0. assert (He1 : eps2 < 1 / 99999999) by apply eps2_small.
  assert (Hz : th <> 0) by (intros E; rewrite E in Hpos; lra).
  assert (H1 : Rabs th <= 1) by (apply Rabs_le; split; nra).
  pose proof (KL_trunc th Hz H1) as [L U].
  assert (H22 : (th*th)*(th*th) <= eps2 * eps2) by (apply Rmult_le_compat; lra).
  split; [|split; [|split]].
  - autounfold with se2_log_db. unfold se2_log_form, T_L. sv_unfold. fold th. list_eq; field.
  - autounfold with se2_log_db. unfold se2_log_form, K_L. sv_unfold. fold th. list_eq; try reflexivity; ring.
  - autounfold with se2_log_db. sv_unfold. fold th. unfold eps2 in *. lra.
  - lra.
Qed.
End SE2.

(* ---- SO3 log: both paths are v * A with A = 2 atan2(n, w) / n (closed form) resp. 2/w - 2 n^2/(3 w^3) (series);
   0 <= K - T <= 2 n^4/(5 w^5) from the atan enclosure x - x^3/3 <= atan x <= x - x^3/3 + x^5/5 (Base/AtanEncl.v, MVT) *)
Definition so3_log_form (A g0 g1 g2 : R) : list R := [g0 * A; g1 * A; g2 * A].
Definition K_S (n w : R) := 2 * atan2 n w / n.
Definition T_S (n2 w : R) := 2 / w - 2 * n2 / (3 * w * w * w).

Lemma KS_trunc n w : 0 < n -> 0 < w -> 0 <= K_S n w - T_S (n*n) w <= 2 * n^4 / (5 * w^5).
Proof.
  intros Hn Hw. unfold K_S, T_S. rewrite atan2_pos by assumption.
  set (x := n / w). assert (Hx : 0 < x) by (unfold x; apply Rdiv_lt_0_compat; assumption).
  pose proof (atan_lower x ltac:(lra)) as L. pose proof (atan_upper x ltac:(lra)) as U.
  replace (2 * atan x / n - (2 / w - 2 * (n * n) / (3 * w * w * w))) with (2 / n * (atan x - (x - x^3/3)))
    by (unfold x; field; split; lra).
  replace (2 * n^4 / (5 * w^5)) with (2 / n * (x^5/5)) by (unfold x; field; split; lra).
  assert (0 < 2 / n) by (apply Rdiv_lt_0_compat; lra).
  split; [apply Rmult_le_pos; lra | apply Rmult_le_compat_l; lra].
Qed.

Section SO3.
Import Gen.SO3.
Lemma so3_log_trunc g0 g1 g2 g3 :
  so3_valid [g0; g1; g2; g3] -> 0 < g3 -> 0 < g0*g0 + g1*g1 + g2*g2 < eps2 ->
  let n2 := g0*g0 + g1*g1 + g2*g2 in let n := sqrt n2 in
  so3_log_p1 [g0; g1; g2; g3] = so3_log_form (T_S n2 g3) g0 g1 g2 /\
  so3_log_p0 [g0; g1; g2; g3] = so3_log_form (K_S n g3) g0 g1 g2 /\
  so3_log_c1 [g0; g1; g2; g3] /\
  0 <= K_S n g3 - T_S n2 g3 <= eps2 * eps2.
Proof.
  intros Hv Hw [Hpos Hsmall] n2 n. revert Hv; sv_unfold; intros Hv.
  pose proof eps2_pos as He0. assert (He1 : eps2 < 1 / 99999999) by apply eps2_small.
  assert (Hn : 0 < n) by (apply sqrt_lt_R0; assumption).
  assert (Hsq : n * n = n2) by (apply sqrt_sqrt; unfold n2; lra).
  pose proof (KS_trunc n g3 Hn Hw) as [L U]. rewrite Hsq in L, U.
  assert (Hw2 : g3 * g3 = 1 - n2) by (unfold n2; lra).
  split; [|split; [|split]].
  - autounfold with so3_log_db. unfold so3_log_form, T_S. sv_unfold. fold n2. list_eq; field; lra.
  - autounfold with so3_log_db. unfold so3_log_form, K_S. sv_unfold. fold n2. fold n. list_eq; field; lra.
  - autounfold with so3_log_db. sv_unfold. fold n2. unfold eps2 in *. lra.
  - split; [exact L|]. eapply Rle_trans; [exact U|].
    assert (H4 : n^4 = n2 * n2) by (rewrite <- Hsq; ring).
    assert (Hw1 : 9/10 <= g3) by nra.
    assert (Hw5 : 1/2 <= g3^5).
    { assert (81/100 <= g3*g3) by nra. assert (6561/10000 <= (g3*g3)*(g3*g3)) by nra.
      replace (g3^5) with ((g3*g3)*(g3*g3)*g3) by ring. nra. }
    rewrite H4. assert (n2 * n2 <= eps2 * eps2) by (apply Rmult_le_compat; lra).
    apply Rmult_le_reg_r with (5 * g3^5); [lra|].
    replace (2 * (n2 * n2) / (5 * g3 ^ 5) * (5 * g3 ^ 5)) with (2 * (n2 * n2)) by (field; lra).
    nra.
Qed.
End SO3.
