(* C02: series side of the switch for SE2 log.  Both paths are [A x + h y; A y - h x; th] with th = atan2(qz, qw), h = th/2 and
   the kernel A = (th/2)/tan(th/2) on the closed-form path, A = 1 - th^2/12 on the series path; -th^4/600 <= K_L - T_L <= 0. *)
From Coq Require Import Reals List Lra Lia.
From SV Require Import Base.GenPrelude Base.Mat Doc.Groups Base.Tactics Base.Trig Base.Kernels Base.KernelL.
From SV Require Gen.SE2.
Import ListNotations.
Local Open Scope R_scope.

Definition se2_log_form (A x y th : R) : list R := [A * x + th / 2 * y; A * y - th / 2 * x; th].

Section SE2.
Import Gen.SE2.
Lemma se2_log_trunc g0 g1 g2 g3 :
  let th := atan2 g2 g3 in
  0 < th * th < eps2 ->
  se2_log_p1 [g0; g1; g2; g3] = se2_log_form (T_L (th * th)) g0 g1 th /\
  se2_log_p0 [g0; g1; g2; g3] = se2_log_form (K_L th) g0 g1 th /\
  se2_log_c1 [g0; g1; g2; g3] /\
  - (eps2 * eps2 / 600) <= K_L th - T_L (th * th) <= 0.
Proof.
  intros th [Hpos Hsmall]. pose proof eps2_pos as He0. assert (He1 : eps2 < 1 / 99999999) by apply eps2_small.
  assert (Hz : th <> 0) by (intros E; rewrite E in Hpos; lra).
  assert (H1 : Rabs th <= 1) by (apply Rabs_le; split; nra).
  pose proof (KL_trunc th Hz H1) as [L U].
  assert (H22 : (th*th)*(th*th) <= eps2 * eps2) by (apply Rmult_le_compat; lra).
  split; [|split; [|split]].
  - autounfold with se2_log_db. unfold se2_log_form, T_L. sv_unfold. fold th. list_eq; field.
  - autounfold with se2_log_db. unfold se2_log_form, K_L. sv_unfold. fold th. list_eq; try reflexivity; ring.
  - autounfold with se2_log_db. sv_unfold. fold th. unfold eps2 in *. lra.
  - lra.
Qed.
End SE2.
