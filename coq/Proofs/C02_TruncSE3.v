(* C02: series side of the switch for SE3 exp (rotation AND translation part).  `se3_exp_form` is the closed-form path of
   the traced function (no sign flip) with its four kernel expressions abstracted - sin(th/2)/th, cos(th/2), (cos th - 1)/th^2,
   (sin th - th)/th^3 (obtained from the generated model; the closed-form path itself is proved to be the matrix exponential
   in C02_SE3.v).  The series path is the same expression with the kernels replaced by 1/2 - th2/48, 1 - th2/8 and the
   trig.hpp Taylor polynomials, and the kernels differ by <= 1e-20-scale bounds for 0 < th2 < eps2. *)
From Coq Require Import Reals List Lra Lia.
From SV Require Import Base.GenPrelude Base.Mat Doc.Groups Base.Tactics Base.Trig Base.Kernels.
From SV Require Gen.SE3.
Import ListNotations.
Local Open Scope R_scope.

Definition se3_exp_form (Q W C2 S3 a0 a1 a2 a3 a4 a5 : R) : list R :=
  [((1 - (2 * (Q * a4) * (Q * a4) + 2 * (Q * a5) * (Q * a5))) * (1 - (- (S3 * a5 * a5) - S3 * a4 * a4)) + ((2 * (Q * a4) * (Q * a3) - 2 * (Q * a5) * W) * (C2 * a5 - S3 * a3 * a4) + (2 * (Q * a5) * (Q * a3) + 2 * (Q * a4) * W) * (- (C2 * a4) - S3 * a3 * a5))) * a0 + (((1 - (2 * (Q * a4) * (Q * a4) + 2 * (Q * a5) * (Q * a5))) * (- (C2 * a5) - S3 * a4 * a3) + ((2 * (Q * a4) * (Q * a3) - 2 * (Q * a5) * W) * (1 - (- (S3 * a5 * a5) - S3 * a3 * a3)) + (2 * (Q * a5) * (Q * a3) + 2 * (Q * a4) * W) * (C2 * a3 - S3 * a4 * a5))) * a1 + ((1 - (2 * (Q * a4) * (Q * a4) + 2 * (Q * a5) * (Q * a5))) * (C2 * a4 - S3 * a5 * a3) + ((2 * (Q * a4) * (Q * a3) - 2 * (Q * a5) * W) * (- (C2 * a3) - S3 * a5 * a4) + (2 * (Q * a5) * (Q * a3) + 2 * (Q * a4) * W) * (1 - (- (S3 * a4 * a4) - S3 * a3 * a3)))) * a2); ((2 * (Q * a4) * (Q * a3) + 2 * (Q * a5) * W) * (1 - (- (S3 * a5 * a5) - S3 * a4 * a4)) + ((1 - (2 * (Q * a3) * (Q * a3) + 2 * (Q * a5) * (Q * a5))) * (C2 * a5 - S3 * a3 * a4) + (2 * (Q * a5) * (Q * a4) - 2 * (Q * a3) * W) * (- (C2 * a4) - S3 * a3 * a5))) * a0 + (((2 * (Q * a4) * (Q * a3) + 2 * (Q * a5) * W) * (- (C2 * a5) - S3 * a4 * a3) + ((1 - (2 * (Q * a3) * (Q * a3) + 2 * (Q * a5) * (Q * a5))) * (1 - (- (S3 * a5 * a5) - S3 * a3 * a3)) + (2 * (Q * a5) * (Q * a4) - 2 * (Q * a3) * W) * (C2 * a3 - S3 * a4 * a5))) * a1 + ((2 * (Q * a4) * (Q * a3) + 2 * (Q * a5) * W) * (C2 * a4 - S3 * a5 * a3) + ((1 - (2 * (Q * a3) * (Q * a3) + 2 * (Q * a5) * (Q * a5))) * (- (C2 * a3) - S3 * a5 * a4) + (2 * (Q * a5) * (Q * a4) - 2 * (Q * a3) * W) * (1 - (- (S3 * a4 * a4) - S3 * a3 * a3)))) * a2); ((2 * (Q * a5) * (Q * a3) - 2 * (Q * a4) * W) * (1 - (- (S3 * a5 * a5) - S3 * a4 * a4)) + ((2 * (Q * a5) * (Q * a4) + 2 * (Q * a3) * W) * (C2 * a5 - S3 * a3 * a4) + (1 - (2 * (Q * a3) * (Q * a3) + 2 * (Q * a4) * (Q * a4))) * (- (C2 * a4) - S3 * a3 * a5))) * a0 + (((2 * (Q * a5) * (Q * a3) - 2 * (Q * a4) * W) * (- (C2 * a5) - S3 * a4 * a3) + ((2 * (Q * a5) * (Q * a4) + 2 * (Q * a3) * W) * (1 - (- (S3 * a5 * a5) - S3 * a3 * a3)) + (1 - (2 * (Q * a3) * (Q * a3) + 2 * (Q * a4) * (Q * a4))) * (C2 * a3 - S3 * a4 * a5))) * a1 + ((2 * (Q * a5) * (Q * a3) - 2 * (Q * a4) * W) * (C2 * a4 - S3 * a5 * a3) + ((2 * (Q * a5) * (Q * a4) + 2 * (Q * a3) * W) * (- (C2 * a3) - S3 * a5 * a4) + (1 - (2 * (Q * a3) * (Q * a3) + 2 * (Q * a4) * (Q * a4))) * (1 - (- (S3 * a4 * a4) - S3 * a3 * a3)))) * a2); Q * a3; Q * a4; Q * a5; W].

Section SE3.
Import Gen.SE3.
Lemma se3_exp_trunc a0 a1 a2 a3 a4 a5 :
  0 < a3*a3 + a4*a4 + a5*a5 < eps2 ->
  let th2 := a3*a3 + a4*a4 + a5*a5 in let th := sqrt th2 in
  se3_exp_p4 [a0; a1; a2; a3; a4; a5] = se3_exp_form (1/2 - th2/48) (1 - th2/8) (T_cos2 th2) (T_sin3 th2) a0 a1 a2 a3 a4 a5 /\
  se3_exp_p1 [a0; a1; a2; a3; a4; a5] = se3_exp_form (sin (th/2) / th) (cos (th/2)) (K_cos2 th) (K_sin3 th) a0 a1 a2 a3 a4 a5 /\
  se3_exp_c4 [a0; a1; a2; a3; a4; a5] /\
  0 <= sin (th/2) / th - (1/2 - th2/48) <= eps2 * eps2 / 3840 /\
  0 <= cos (th/2) - (1 - th2/8) <= eps2 * eps2 / 384 /\
  0 <= K_cos2 th - T_cos2 th2 <= eps2 * eps2 * eps2 / 40320 /\
  0 <= K_sin3 th - T_sin3 th2 <= eps2 * eps2 * eps2 / 362880.
Proof.
  intros [Hpos Hsmall] th2 th. pose proof eps2_pos as He0. assert (He1 : eps2 < 1 / 99999999) by apply eps2_small.
  assert (Hassoc : a3 * a3 + (a4 * a4 + a5 * a5) = th2) by (unfold th2; ring).
  assert (Hth : 0 < th) by (apply sqrt_lt_R0; assumption).
  assert (Hsq : th * th = th2) by (apply sqrt_sqrt; unfold th2; lra).
  assert (Hle1 : th <= 1) by (unfold th; rewrite <- sqrt_1; apply sqrt_le_1_alt; lra).
  assert (Hx : 0 <= th/2 <= 1) by lra.
  pose proof (sin_encl_3_5 (th/2) Hx) as [SL SU]. pose proof (cos_encl_2_4 (th/2) Hx) as [CL CU].
  pose proof (cos2_trunc th (conj Hth Hle1)) as [K2L K2U]. pose proof (sin3_trunc th (conj Hth Hle1)) as [K3L K3U].
  assert (Hth22 : th2 * th2 <= eps2 * eps2) by (apply Rmult_le_compat; lra).
  assert (Hth222 : th2 * th2 * th2 <= eps2 * eps2 * eps2) by (apply Rmult_le_compat; [nra | lra | assumption | lra]).
  assert (H4 : th^4 = th2 * th2) by (rewrite <- Hsq; ring).
  assert (H6 : th^6 = th2 * th2 * th2) by (rewrite <- Hsq; ring).
  split; [|split; [|split; [|split; [|split; [|split]]]]].
  - autounfold with se3_exp_db. unfold se3_exp_form, T_cos2, T_sin3. sv_unfold. rewrite ?Hassoc. list_eq; field.
  - autounfold with se3_exp_db. unfold se3_exp_form, K_cos2, K_sin3. sv_unfold. rewrite ?Hassoc. fold th. rewrite <- Hsq.
    list_eq; field; lra.
  - autounfold with se3_exp_db. sv_unfold. rewrite ?Hassoc. unfold eps2 in *. split; [lra | split; [lra | exact I]].
  - replace (sin (th/2) / th - (1/2 - th2/48)) with ((sin (th/2) - (th/2 - (th/2)^3/6)) / th)
      by (rewrite <- Hsq; field; lra).
    apply div_between; [assumption|]. split; [lra|].
    replace (eps2 * eps2 / 3840 * th) with (th * (eps2*eps2) / 3840) by field.
    assert (E : (th/2)^5/120 = th * th^4 / 3840) by field. rewrite H4 in E. nra.
  - replace (cos (th/2) - (1 - th2/8)) with (cos (th/2) - (1 - (th/2)^2/2)) by (rewrite <- Hsq; field).
    assert (E : (th/2)^4/24 = th^4/384) by field. rewrite H4 in E. lra.
  - rewrite Hsq in K2L, K2U. rewrite H6 in K2U. lra.
  - rewrite Hsq in K3L, K3U. rewrite H6 in K3U. lra.
Qed.
End SE3.
