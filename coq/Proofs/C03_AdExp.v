(* C03: Ad(exp a) is the matrix exponential of ad(a) (ODE form, `is_mexp`), SO3 and SE2, closed-form paths of exp;
   built against the regenerated Gen/SO3.v and Gen/SE2.v. *)
From Coq Require Import Reals List Lra Lia.
From SV Require Import Base.GenPrelude Base.Mat Doc.Groups Base.Tactics.
From SV Require Gen.SO3 Gen.SE2.
From Coquelicot Require Import Coquelicot.
From SV Require Import Base.Trig Doc.Exp.
From SV Require Proofs.C02_SO3.
Import ListNotations.
Local Open Scope R_scope.

Section SO3.
Import Gen.SO3.


Lemma so3_Ad_is_mat g0 g1 g2 g3 A : so3_Ad_rel [g0; g1; g2; g3] A -> A = so3_mat [g0; g1; g2; g3].
Proof.
  intros Hrel. rel_cases Hrel; autounfold with so3_Ad_db; sv_unfold. list_eq; ring.
Qed.
Lemma so3_ad_is_hat a0 a1 a2 B : so3_ad_rel [a0; a1; a2] B -> B = so3_hat [a0; a1; a2].
Proof.
  intros Hrel. rel_cases Hrel; autounfold with so3_ad_db; sv_unfold. list_eq; ring.
Qed.

(* Ad(exp a) is the matrix exponential of ad(a) *)
Lemma so3_Ad_exp_mexp a0 a1 a2 g A B :
  eps2 < a0*a0 + a1*a1 + a2*a2 -> so3_exp_rel [a0; a1; a2] g -> so3_Ad_rel g A -> so3_ad_rel [a0; a1; a2] B ->
  is_mexp 3 B A.
Proof.
  intros Hbig He HA HB. rewrite (so3_ad_is_hat _ _ _ _ HB).
  assert (Hg : exists g0 g1 g2 g3, g = [g0; g1; g2; g3]).
  { rel_cases He; autounfold with so3_exp_db; do 4 eexists; reflexivity. }
  destruct Hg as (g0 & g1 & g2 & g3 & ->).
  rewrite (so3_Ad_is_mat _ _ _ _ _ HA). apply (Proofs.C02_SO3.so3_exp_is_mexp _ _ _ _ He Hbig).
Qed.
End SO3.

Section SE2.
Import Gen.SE2.


(* the curve t |-> Ad(Phi_a(t)) written from the documented Ad of SE2 applied to the entries of the flow Phi_a(t) *)
Definition se2_adflow (a : list R) (t : R) : mat :=
  let M := se2_flow a t in
  [[mget M 0 0; mget M 0 1; mget M 1 2]; [mget M 1 0; mget M 1 1; - mget M 0 2]; [0; 0; 1]].

Lemma se2_adflow_mexp a0 a1 a2 B : a2 <> 0 -> se2_ad_rel [a0; a1; a2] B ->
  is_mexp 3 B (se2_adflow [a0; a1; a2] 1).
Proof.
  intros Hw HB. rel_cases HB; autounfold with se2_ad_db; clear Hpath.
  exists (se2_adflow [a0; a1; a2]). split; [|split; [|reflexivity]].
  - unfold se2_adflow. flow_unfold; sv_unfold. rewrite !Rmult_0_l, sin_0, cos_0. list_eq; field; assumption.
  - intros t i j Hi Hj. ij_cases i j; unfold se2_adflow; flow_unfold; sv_unfold;
    (auto_derive; [ repeat split; auto | ]);
    generalize (sin (t*a2)) (cos (t*a2)); intros S C; field; assumption.
Qed.

(* Ad(exp a) is the matrix exponential of ad(a): closed-form path of exp *)
Lemma se2_Ad_exp_mexp a0 a1 a2 g A B :
  eps2 < a2 * a2 -> se2_exp_rel [a0; a1; a2] g -> se2_Ad_rel g A -> se2_ad_rel [a0; a1; a2] B -> is_mexp 3 B A.
Proof.
  intros Hbig He HA HB. unfold eps2 in Hbig.
  assert (Hw : a2 <> 0) by (intros E; rewrite E in Hbig; lra).
  assert (E : A = se2_adflow [a0; a1; a2] 1).
  { rel_cases He; autounfold with se2_exp_db in *; revert Hpath; sv_unfold; intros Hpath; try (exfalso; lra); clear Hpath.
    revert HA. sv_unfold. intros HA. rel_cases HA; autounfold with se2_Ad_db; clear Hpath.
    unfold se2_adflow. flow_unfold; sv_unfold. rewrite !Rmult_1_l. list_eq; field; assumption. }
  rewrite E. apply se2_adflow_mexp; assumption.
Qed.
End SE2.
