(* C03: Ad(exp a) is the matrix exponential of ad(a) for SE3 (thorough tier: the 6x6 ODE takes minutes). *)
From Coq Require Import Reals List Lra Lia.
From SV Require Import Base.GenPrelude Base.Mat Doc.Groups Base.Tactics Gen.SE3.
From Coquelicot Require Import Coquelicot.
From SV Require Import Base.Trig Doc.Exp.
From SV Require Proofs.C02_SE3.
Import ListNotations.
Local Open Scope R_scope.

(* documented adjoint of the homogeneous matrix M = [R p; 0 1]:  [[R, [p]x R], [0, R]]  (tangent order v, w) *)
Definition se3_adm (M : mat) : mat :=
  let px := [[0; - mget M 2 3; mget M 1 3]; [mget M 2 3; 0; - mget M 0 3]; [- mget M 1 3; mget M 0 3; 0]] in
  let Rm := [[mget M 0 0; mget M 0 1; mget M 0 2]; [mget M 1 0; mget M 1 1; mget M 1 2]; [mget M 2 0; mget M 2 1; mget M 2 2]] in
  let PR := mmul px Rm in
  [[mget M 0 0; mget M 0 1; mget M 0 2; mget PR 0 0; mget PR 0 1; mget PR 0 2];
   [mget M 1 0; mget M 1 1; mget M 1 2; mget PR 1 0; mget PR 1 1; mget PR 1 2];
   [mget M 2 0; mget M 2 1; mget M 2 2; mget PR 2 0; mget PR 2 1; mget PR 2 2];
   [0; 0; 0; mget M 0 0; mget M 0 1; mget M 0 2];
   [0; 0; 0; mget M 1 0; mget M 1 1; mget M 1 2];
   [0; 0; 0; mget M 2 0; mget M 2 1; mget M 2 2]].

Lemma se3_Ad_is_adm g0 g1 g2 g3 g4 g5 g6 A :
  se3_Ad_rel [g0; g1; g2; g3; g4; g5; g6] A -> A = se3_adm (se3_mat [g0; g1; g2; g3; g4; g5; g6]).
Proof.
  intros Hrel. rel_cases Hrel; autounfold with se3_Ad_db; clear Hpath. unfold se3_adm. sv_unfold. list_eq; ring.
Qed.

Lemma se3_adflow_mexp a0 a1 a2 a3 a4 a5 B : 0 < a3*a3 + a4*a4 + a5*a5 -> se3_ad_rel [a0; a1; a2; a3; a4; a5] B ->
  is_mexp 6 B (se3_adm (se3_flow [a0; a1; a2; a3; a4; a5] 1)).
Proof.
  intros Hpos HB. rel_cases HB; autounfold with se3_ad_db; clear Hpath.
  exists (fun t => se3_adm (se3_flow [a0; a1; a2; a3; a4; a5] t)). split; [|split; [|reflexivity]].
  - unfold se3_adm. flow_unfold; sv_unfold. th3_setup a3 a4 a5 th. rewrite !Rmult_0_l, sin_0, cos_0. list_eq; field; assumption.
  - intros t i j Hi Hj. ij_cases i j; unfold se3_adm; flow_unfold; sv_unfold; th3_setup a3 a4 a5 th;
    (auto_derive; [ repeat split; auto | ]);
    assert (Hz : a5*a5 = th*th - a3*a3 - a4*a4) by lra;
    pose proof (sin2_cos2 (t*th)) as Hsc; unfold Rsqr in Hsc;
    set (S := sin (t*th)) in *; set (C := cos (t*th)) in *; clearbody S C;
    assert (HC : C*C = 1 - S*S) by lra;
    field [Hz HC]; assumption.
Qed.

(* Ad(exp a) is the matrix exponential of ad(a): closed-form paths of exp *)
Lemma se3_Ad_exp_mexp a0 a1 a2 a3 a4 a5 g A B :
  eps2 < a3*a3 + a4*a4 + a5*a5 -> se3_exp_rel [a0; a1; a2; a3; a4; a5] g -> se3_Ad_rel g A ->
  se3_ad_rel [a0; a1; a2; a3; a4; a5] B -> is_mexp 6 B A.
Proof.
  intros Hbig He HA HB.
  assert (Hg : exists g0 g1 g2 g3 g4 g5 g6, g = [g0; g1; g2; g3; g4; g5; g6]).
  { rel_cases He; autounfold with se3_exp_db; do 7 eexists; reflexivity. }
  destruct Hg as (g0 & g1 & g2 & g3 & g4 & g5 & g6 & ->).
  rewrite (se3_Ad_is_adm _ _ _ _ _ _ _ _ HA).
  destruct (Proofs.C02_SE3.se3_exp_flow _ _ _ _ _ _ _ He Hbig) as [-> _].
  apply se3_adflow_mexp; [unfold eps2 in Hbig; lra | assumption].
Qed.
