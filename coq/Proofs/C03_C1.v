(* Written with scripts/author/c03.py (committed output; the check builds this file against
   the freshly generated Gen/C1.v).  Property C03. *)
From Coq Require Import Reals List Lra.
From SV Require Import Base.GenPrelude Base.Mat Doc.Groups Base.Tactics Gen.C1.
Import ListNotations.
Local Open Scope R_scope.

Lemma c1_hat_doc :
  forall a0 a1 out,
  Gen.C1.c1_hat_rel [a0; a1] out -> out = c1_hat [a0; a1].
Proof.
  intros a0 a1 out Hrel. rel_cases Hrel. autounfold with c1_hat_db. sv_unfold. list_eq; ring.
Qed.

Lemma c1_vee_hat :
  forall a0 a1 out,
  Gen.C1.c1_vee_rel (mflat (c1_hat [a0; a1])) out -> out = [a0; a1].
Proof.
  intros a0 a1 out Hrel. rel_cases Hrel. autounfold with c1_vee_db. sv_unfold. list_eq; field.
Qed.

Lemma c1_hat_vee :
  forall a0 a1 A v,
  A = c1_hat [a0; a1] -> Gen.C1.c1_vee_rel (mflat A) v -> c1_hat v = A.
Proof.
  intros a0 a1 A v HA Hrel. subst A. apply c1_vee_hat in Hrel. subst v. reflexivity.
Qed.

Lemma c1_hat_linear :
  forall s t a0 a1 b0 b1,
  c1_hat (vadd (vscale s [a0; a1]) (vscale t [b0; b1])) = madd (mscale s (c1_hat [a0; a1])) (mscale t (c1_hat [b0; b1])).
Proof.
  intros. sv_unfold. list_eq; ring.
Qed.

Lemma c1_Ad_def :
  forall g0 g1 a0 a1 A,
  c1_valid [g0; g1] -> Gen.C1.c1_Ad_rel [g0; g1] A ->
  mmul (c1_hat (mvec A [a0; a1])) (c1_mat [g0; g1]) = mmul (c1_mat [g0; g1]) (c1_hat [a0; a1]).
Proof.
  intros g0 g1 a0 a1 A Hg Hrel. rel_cases Hrel;
  autounfold with c1_Ad_db; revert Hg; sv_unfold; intros Hg; norm_rules;
  list_eq; ring .
Qed.

Lemma c1_ad_def :
  forall a0 a1 b0 b1 A,
  Gen.C1.c1_ad_rel [a0; a1] A ->
  c1_hat (mvec A [b0; b1]) = comm (c1_hat [a0; a1]) (c1_hat [b0; b1]).
Proof.
  intros a0 a1 b0 b1 A Hrel. rel_cases Hrel. autounfold with c1_ad_db. sv_unfold. list_eq; ring.
Qed.

Lemma c1_bracket_ad :
  forall a0 a1 b0 b1 A out,
  Gen.C1.c1_ad_rel [a0; a1] A -> Gen.C1.c1_bracket_rel [a0; a1] [b0; b1] out -> out = mvec A [b0; b1].
Proof.
  intros a0 a1 b0 b1 A out HA Hrel. rel_cases HA. rel_cases Hrel.
  autounfold with c1_ad_db c1_bracket_db. sv_unfold. list_eq; ring.
Qed.

Lemma c1_bracket_antisym :
  forall a0 a1 b0 b1 x y,
  Gen.C1.c1_bracket_rel [a0; a1] [b0; b1] x -> Gen.C1.c1_bracket_rel [b0; b1] [a0; a1] y -> x = vneg y.
Proof.
  intros a0 a1 b0 b1 x y Hx Hy. rel_cases Hx. rel_cases Hy.
  autounfold with c1_bracket_db. sv_unfold. list_eq; ring.
Qed.

Lemma c1_jacobi :
  forall a0 a1 b0 b1 c0 c1 bc ca ab x y z,
  Gen.C1.c1_bracket_rel [b0; b1] [c0; c1] bc -> Gen.C1.c1_bracket_rel [c0; c1] [a0; a1] ca -> Gen.C1.c1_bracket_rel [a0; a1] [b0; b1] ab ->
  Gen.C1.c1_bracket_rel [a0; a1] bc x -> Gen.C1.c1_bracket_rel [b0; b1] ca y -> Gen.C1.c1_bracket_rel [c0; c1] ab z ->
  vadd (vadd x y) z = vzero 2.
Proof.
  intros a0 a1 b0 b1 c0 c1 bc ca ab x y z H1 H2 H3 H4 H5 H6.
  rel_cases H1. rel_cases H2. rel_cases H3. rel_cases H4. rel_cases H5. rel_cases H6.
  autounfold with c1_bracket_db. sv_unfold. list_eq; ring.
Qed.

Lemma c1_Ad_hom :
  forall g0 g1 h0 h1 gh A1 A2 A12,
  c1_valid [g0; g1] -> c1_valid [h0; h1] ->
  Gen.C1.c1_comp_rel [g0; g1] [h0; h1] gh -> Gen.C1.c1_Ad_rel [g0; g1] A1 -> Gen.C1.c1_Ad_rel [h0; h1] A2 -> Gen.C1.c1_Ad_rel gh A12 ->
  A12 = mmul A1 A2.
Proof.
  intros g0 g1 h0 h1 gh A1 A2 A12 Hg Hh Hc H1 H2 H12.
  rel_cases Hc; rel_cases H1; rel_cases H2; rel_cases H12;
  autounfold with c1_comp_db c1_Ad_db; revert Hg Hh; sv_unfold; intros Hg Hh; norm_rules; list_eq; ring .
Qed.

