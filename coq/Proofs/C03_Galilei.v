(* Written with scripts/author/c03.py (committed output; the check builds this file against
   the freshly generated Gen/Galilei.v).  Property C03. *)
From Coq Require Import Reals List Lra.
From SV Require Import Base.GenPrelude Base.Mat Doc.Groups Base.Tactics Gen.Galilei.
Import ListNotations.
Local Open Scope R_scope.

Lemma gal_hat_doc :
  forall a0 a1 a2 a3 a4 a5 a6 a7 a8 a9 out,
  Gen.Galilei.gal_hat_rel [a0; a1; a2; a3; a4; a5; a6; a7; a8; a9] out -> out = gal_hat [a0; a1; a2; a3; a4; a5; a6; a7; a8; a9].
Proof.
  intros a0 a1 a2 a3 a4 a5 a6 a7 a8 a9 out Hrel. rel_cases Hrel. autounfold with gal_hat_db. sv_unfold. list_eq; ring.
Qed.

Lemma gal_vee_hat :
  forall a0 a1 a2 a3 a4 a5 a6 a7 a8 a9 out,
  Gen.Galilei.gal_vee_rel (mflat (gal_hat [a0; a1; a2; a3; a4; a5; a6; a7; a8; a9])) out -> out = [a0; a1; a2; a3; a4; a5; a6; a7; a8; a9].
Proof.
  intros a0 a1 a2 a3 a4 a5 a6 a7 a8 a9 out Hrel. rel_cases Hrel. autounfold with gal_vee_db. sv_unfold. list_eq; field.
Qed.

Lemma gal_hat_vee :
  forall a0 a1 a2 a3 a4 a5 a6 a7 a8 a9 A v,
  A = gal_hat [a0; a1; a2; a3; a4; a5; a6; a7; a8; a9] -> Gen.Galilei.gal_vee_rel (mflat A) v -> gal_hat v = A.
Proof.
  intros a0 a1 a2 a3 a4 a5 a6 a7 a8 a9 A v HA Hrel. subst A. apply gal_vee_hat in Hrel. subst v. reflexivity.
Qed.

Lemma gal_hat_linear :
  forall s t a0 a1 a2 a3 a4 a5 a6 a7 a8 a9 b0 b1 b2 b3 b4 b5 b6 b7 b8 b9,
  gal_hat (vadd (vscale s [a0; a1; a2; a3; a4; a5; a6; a7; a8; a9]) (vscale t [b0; b1; b2; b3; b4; b5; b6; b7; b8; b9])) = madd (mscale s (gal_hat [a0; a1; a2; a3; a4; a5; a6; a7; a8; a9])) (mscale t (gal_hat [b0; b1; b2; b3; b4; b5; b6; b7; b8; b9])).
Proof.
  intros. sv_unfold. list_eq; ring.
Qed.

Lemma gal_Ad_def :
  forall g0 g1 g2 g3 g4 g5 g6 g7 g8 g9 g10 a0 a1 a2 a3 a4 a5 a6 a7 a8 a9 A,
  gal_valid [g0; g1; g2; g3; g4; g5; g6; g7; g8; g9; g10] -> Gen.Galilei.gal_Ad_rel [g0; g1; g2; g3; g4; g5; g6; g7; g8; g9; g10] A ->
  mmul (gal_hat (mvec A [a0; a1; a2; a3; a4; a5; a6; a7; a8; a9])) (gal_mat [g0; g1; g2; g3; g4; g5; g6; g7; g8; g9; g10]) = mmul (gal_mat [g0; g1; g2; g3; g4; g5; g6; g7; g8; g9; g10]) (gal_hat [a0; a1; a2; a3; a4; a5; a6; a7; a8; a9]).
Proof.
  intros g0 g1 g2 g3 g4 g5 g6 g7 g8 g9 g10 a0 a1 a2 a3 a4 a5 a6 a7 a8 a9 A Hg Hrel. rel_cases Hrel;
  autounfold with gal_Ad_db; revert Hg; sv_unfold; intros Hg; norm_rules;
  list_eq; ring [Hg].
Qed.

Lemma gal_ad_def :
  forall a0 a1 a2 a3 a4 a5 a6 a7 a8 a9 b0 b1 b2 b3 b4 b5 b6 b7 b8 b9 A,
  Gen.Galilei.gal_ad_rel [a0; a1; a2; a3; a4; a5; a6; a7; a8; a9] A ->
  gal_hat (mvec A [b0; b1; b2; b3; b4; b5; b6; b7; b8; b9]) = comm (gal_hat [a0; a1; a2; a3; a4; a5; a6; a7; a8; a9]) (gal_hat [b0; b1; b2; b3; b4; b5; b6; b7; b8; b9]).
Proof.
  intros a0 a1 a2 a3 a4 a5 a6 a7 a8 a9 b0 b1 b2 b3 b4 b5 b6 b7 b8 b9 A Hrel. rel_cases Hrel. autounfold with gal_ad_db. sv_unfold. list_eq; ring.
Qed.

Lemma gal_bracket_ad :
  forall a0 a1 a2 a3 a4 a5 a6 a7 a8 a9 b0 b1 b2 b3 b4 b5 b6 b7 b8 b9 A out,
  Gen.Galilei.gal_ad_rel [a0; a1; a2; a3; a4; a5; a6; a7; a8; a9] A -> Gen.Galilei.gal_bracket_rel [a0; a1; a2; a3; a4; a5; a6; a7; a8; a9] [b0; b1; b2; b3; b4; b5; b6; b7; b8; b9] out -> out = mvec A [b0; b1; b2; b3; b4; b5; b6; b7; b8; b9].
Proof.
  intros a0 a1 a2 a3 a4 a5 a6 a7 a8 a9 b0 b1 b2 b3 b4 b5 b6 b7 b8 b9 A out HA Hrel. rel_cases HA. rel_cases Hrel.
  autounfold with gal_ad_db gal_bracket_db. sv_unfold. list_eq; ring.
Qed.

Lemma gal_bracket_antisym :
  forall a0 a1 a2 a3 a4 a5 a6 a7 a8 a9 b0 b1 b2 b3 b4 b5 b6 b7 b8 b9 x y,
  Gen.Galilei.gal_bracket_rel [a0; a1; a2; a3; a4; a5; a6; a7; a8; a9] [b0; b1; b2; b3; b4; b5; b6; b7; b8; b9] x -> Gen.Galilei.gal_bracket_rel [b0; b1; b2; b3; b4; b5; b6; b7; b8; b9] [a0; a1; a2; a3; a4; a5; a6; a7; a8; a9] y -> x = vneg y.
Proof.
  intros a0 a1 a2 a3 a4 a5 a6 a7 a8 a9 b0 b1 b2 b3 b4 b5 b6 b7 b8 b9 x y Hx Hy. rel_cases Hx. rel_cases Hy.
  autounfold with gal_bracket_db. sv_unfold. list_eq; ring.
Qed.

Lemma gal_jacobi :
  forall a0 a1 a2 a3 a4 a5 a6 a7 a8 a9 b0 b1 b2 b3 b4 b5 b6 b7 b8 b9 c0 c1 c2 c3 c4 c5 c6 c7 c8 c9 bc ca ab x y z,
  Gen.Galilei.gal_bracket_rel [b0; b1; b2; b3; b4; b5; b6; b7; b8; b9] [c0; c1; c2; c3; c4; c5; c6; c7; c8; c9] bc -> Gen.Galilei.gal_bracket_rel [c0; c1; c2; c3; c4; c5; c6; c7; c8; c9] [a0; a1; a2; a3; a4; a5; a6; a7; a8; a9] ca -> Gen.Galilei.gal_bracket_rel [a0; a1; a2; a3; a4; a5; a6; a7; a8; a9] [b0; b1; b2; b3; b4; b5; b6; b7; b8; b9] ab ->
  Gen.Galilei.gal_bracket_rel [a0; a1; a2; a3; a4; a5; a6; a7; a8; a9] bc x -> Gen.Galilei.gal_bracket_rel [b0; b1; b2; b3; b4; b5; b6; b7; b8; b9] ca y -> Gen.Galilei.gal_bracket_rel [c0; c1; c2; c3; c4; c5; c6; c7; c8; c9] ab z ->
  vadd (vadd x y) z = vzero 10.
Proof.
  intros a0 a1 a2 a3 a4 a5 a6 a7 a8 a9 b0 b1 b2 b3 b4 b5 b6 b7 b8 b9 c0 c1 c2 c3 c4 c5 c6 c7 c8 c9 bc ca ab x y z H1 H2 H3 H4 H5 H6.
  rel_cases H1. rel_cases H2. rel_cases H3. rel_cases H4. rel_cases H5. rel_cases H6.
  autounfold with gal_bracket_db. sv_unfold. list_eq; ring.
Qed.

Lemma gal_Ad_hom :
  forall g0 g1 g2 g3 g4 g5 g6 g7 g8 g9 g10 h0 h1 h2 h3 h4 h5 h6 h7 h8 h9 h10 gh A1 A2 A12,
  gal_valid [g0; g1; g2; g3; g4; g5; g6; g7; g8; g9; g10] -> gal_valid [h0; h1; h2; h3; h4; h5; h6; h7; h8; h9; h10] ->
  Gen.Galilei.gal_comp_rel [g0; g1; g2; g3; g4; g5; g6; g7; g8; g9; g10] [h0; h1; h2; h3; h4; h5; h6; h7; h8; h9; h10] gh -> Gen.Galilei.gal_Ad_rel [g0; g1; g2; g3; g4; g5; g6; g7; g8; g9; g10] A1 -> Gen.Galilei.gal_Ad_rel [h0; h1; h2; h3; h4; h5; h6; h7; h8; h9; h10] A2 -> Gen.Galilei.gal_Ad_rel gh A12 ->
  A12 = mmul A1 A2.
Proof.
  intros g0 g1 g2 g3 g4 g5 g6 g7 g8 g9 g10 h0 h1 h2 h3 h4 h5 h6 h7 h8 h9 h10 gh A1 A2 A12 Hg Hh Hc H1 H2 H12.
  rel_cases Hc; rel_cases H1; rel_cases H2; rel_cases H12;
  autounfold with gal_comp_db gal_Ad_db; revert Hg Hh; sv_unfold; intros Hg Hh; norm_rules; list_eq; ring [Hg Hh].
Qed.

