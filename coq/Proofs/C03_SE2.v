(* Written with scripts/author/c03.py (committed output; the check builds this file against
   the freshly generated Gen/SE2.v).  Property C03. *)
From Coq Require Import Reals List Lra.
From SV Require Import Base.GenPrelude Base.Mat Doc.Groups Base.Tactics Gen.SE2.
Import ListNotations.
Local Open Scope R_scope.

Lemma se2_hat_doc :
  forall a0 a1 a2 out,
  Gen.SE2.se2_hat_rel [a0; a1; a2] out -> out = se2_hat [a0; a1; a2].
Proof.
  intros a0 a1 a2 out Hrel. rel_cases Hrel. autounfold with se2_hat_db. sv_unfold. list_eq; ring.
Qed.

Lemma se2_vee_hat :
  forall a0 a1 a2 out,
  Gen.SE2.se2_vee_rel (mflat (se2_hat [a0; a1; a2])) out -> out = [a0; a1; a2].
Proof.
  intros a0 a1 a2 out Hrel. rel_cases Hrel. autounfold with se2_vee_db. sv_unfold. list_eq; field.
Qed.

Lemma se2_hat_vee :
  forall a0 a1 a2 A v,
  A = se2_hat [a0; a1; a2] -> Gen.SE2.se2_vee_rel (mflat A) v -> se2_hat v = A.
Proof.
  intros a0 a1 a2 A v HA Hrel. subst A. apply se2_vee_hat in Hrel. subst v. reflexivity.
Qed.

Lemma se2_hat_linear :
  forall s t a0 a1 a2 b0 b1 b2,
  se2_hat (vadd (vscale s [a0; a1; a2]) (vscale t [b0; b1; b2])) = madd (mscale s (se2_hat [a0; a1; a2])) (mscale t (se2_hat [b0; b1; b2])).
Proof.
  intros. sv_unfold. list_eq; ring.
Qed.

Lemma se2_Ad_def :
  forall g0 g1 g2 g3 a0 a1 a2 A,
  se2_valid [g0; g1; g2; g3] -> Gen.SE2.se2_Ad_rel [g0; g1; g2; g3] A ->
  mmul (se2_hat (mvec A [a0; a1; a2])) (se2_mat [g0; g1; g2; g3]) = mmul (se2_mat [g0; g1; g2; g3]) (se2_hat [a0; a1; a2]).
Proof.
  intros g0 g1 g2 g3 a0 a1 a2 A Hg Hrel. rel_cases Hrel;
  autounfold with se2_Ad_db; revert Hg; sv_unfold; intros Hg; norm_rules;
  list_eq; ring [Hg].
Qed.

Lemma se2_ad_def :
  forall a0 a1 a2 b0 b1 b2 A,
  Gen.SE2.se2_ad_rel [a0; a1; a2] A ->
  se2_hat (mvec A [b0; b1; b2]) = comm (se2_hat [a0; a1; a2]) (se2_hat [b0; b1; b2]).
Proof.
  intros a0 a1 a2 b0 b1 b2 A Hrel. rel_cases Hrel. autounfold with se2_ad_db. sv_unfold. list_eq; ring.
Qed.

Lemma se2_bracket_ad :
  forall a0 a1 a2 b0 b1 b2 A out,
  Gen.SE2.se2_ad_rel [a0; a1; a2] A -> Gen.SE2.se2_bracket_rel [a0; a1; a2] [b0; b1; b2] out -> out = mvec A [b0; b1; b2].
Proof.
  intros a0 a1 a2 b0 b1 b2 A out HA Hrel. rel_cases HA. rel_cases Hrel.
  autounfold with se2_ad_db se2_bracket_db. sv_unfold. list_eq; ring.
Qed.

Lemma se2_bracket_antisym :
  forall a0 a1 a2 b0 b1 b2 x y,
  Gen.SE2.se2_bracket_rel [a0; a1; a2] [b0; b1; b2] x -> Gen.SE2.se2_bracket_rel [b0; b1; b2] [a0; a1; a2] y -> x = vneg y.
Proof.
  intros a0 a1 a2 b0 b1 b2 x y Hx Hy. rel_cases Hx. rel_cases Hy.
  autounfold with se2_bracket_db. sv_unfold. list_eq; ring.
Qed.

Lemma se2_jacobi :
  forall a0 a1 a2 b0 b1 b2 c0 c1 c2 bc ca ab x y z,
  Gen.SE2.se2_bracket_rel [b0; b1; b2] [c0; c1; c2] bc -> Gen.SE2.se2_bracket_rel [c0; c1; c2] [a0; a1; a2] ca -> Gen.SE2.se2_bracket_rel [a0; a1; a2] [b0; b1; b2] ab ->
  Gen.SE2.se2_bracket_rel [a0; a1; a2] bc x -> Gen.SE2.se2_bracket_rel [b0; b1; b2] ca y -> Gen.SE2.se2_bracket_rel [c0; c1; c2] ab z ->
  vadd (vadd x y) z = vzero 3.
Proof.
  intros a0 a1 a2 b0 b1 b2 c0 c1 c2 bc ca ab x y z H1 H2 H3 H4 H5 H6.
  rel_cases H1. rel_cases H2. rel_cases H3. rel_cases H4. rel_cases H5. rel_cases H6.
  autounfold with se2_bracket_db. sv_unfold. list_eq; ring.
Qed.

Lemma se2_Ad_hom :
  forall g0 g1 g2 g3 h0 h1 h2 h3 gh A1 A2 A12,
  se2_valid [g0; g1; g2; g3] -> se2_valid [h0; h1; h2; h3] ->
  Gen.SE2.se2_comp_rel [g0; g1; g2; g3] [h0; h1; h2; h3] gh -> Gen.SE2.se2_Ad_rel [g0; g1; g2; g3] A1 -> Gen.SE2.se2_Ad_rel [h0; h1; h2; h3] A2 -> Gen.SE2.se2_Ad_rel gh A12 ->
  A12 = mmul A1 A2.
Proof.
  intros g0 g1 g2 g3 h0 h1 h2 h3 gh A1 A2 A12 Hg Hh Hc H1 H2 H12.
  rel_cases Hc; rel_cases H1; rel_cases H2; rel_cases H12;
  autounfold with se2_comp_db se2_Ad_db; revert Hg Hh; sv_unfold; intros Hg Hh; norm_rules; list_eq; ring [Hg Hh].
Qed.

