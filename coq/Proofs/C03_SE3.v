(* Written with scripts/author/c03.py (committed output; the check builds this file against
   the freshly generated Gen/SE3.v).  Property C03. *)
From Coq Require Import Reals List Lra.
From SV Require Import Base.GenPrelude Base.Mat Doc.Groups Base.Tactics Gen.SE3.
Import ListNotations.
Local Open Scope R_scope.

Lemma se3_hat_doc :
  forall a0 a1 a2 a3 a4 a5 out,
  Gen.SE3.se3_hat_rel [a0; a1; a2; a3; a4; a5] out -> out = se3_hat [a0; a1; a2; a3; a4; a5].
Proof.
  intros a0 a1 a2 a3 a4 a5 out Hrel. rel_cases Hrel. autounfold with se3_hat_db. sv_unfold. list_eq; ring.
Qed.

Lemma se3_vee_hat :
  forall a0 a1 a2 a3 a4 a5 out,
  Gen.SE3.se3_vee_rel (mflat (se3_hat [a0; a1; a2; a3; a4; a5])) out -> out = [a0; a1; a2; a3; a4; a5].
Proof.
  intros a0 a1 a2 a3 a4 a5 out Hrel. rel_cases Hrel. autounfold with se3_vee_db. sv_unfold. list_eq; field.
Qed.

Lemma se3_hat_vee :
  forall a0 a1 a2 a3 a4 a5 A v,
  A = se3_hat [a0; a1; a2; a3; a4; a5] -> Gen.SE3.se3_vee_rel (mflat A) v -> se3_hat v = A.
Proof.
  intros a0 a1 a2 a3 a4 a5 A v HA Hrel. subst A. apply se3_vee_hat in Hrel. subst v. reflexivity.
Qed.

Lemma se3_hat_linear :
  forall s t a0 a1 a2 a3 a4 a5 b0 b1 b2 b3 b4 b5,
  se3_hat (vadd (vscale s [a0; a1; a2; a3; a4; a5]) (vscale t [b0; b1; b2; b3; b4; b5])) = madd (mscale s (se3_hat [a0; a1; a2; a3; a4; a5])) (mscale t (se3_hat [b0; b1; b2; b3; b4; b5])).
Proof.
  intros. sv_unfold. list_eq; ring.
Qed.

Lemma se3_Ad_def :
  forall g0 g1 g2 g3 g4 g5 g6 a0 a1 a2 a3 a4 a5 A,
  se3_valid [g0; g1; g2; g3; g4; g5; g6] -> Gen.SE3.se3_Ad_rel [g0; g1; g2; g3; g4; g5; g6] A ->
  mmul (se3_hat (mvec A [a0; a1; a2; a3; a4; a5])) (se3_mat [g0; g1; g2; g3; g4; g5; g6]) = mmul (se3_mat [g0; g1; g2; g3; g4; g5; g6]) (se3_hat [a0; a1; a2; a3; a4; a5]).
Proof.
  intros g0 g1 g2 g3 g4 g5 g6 a0 a1 a2 a3 a4 a5 A Hg Hrel. rel_cases Hrel;
  autounfold with se3_Ad_db; revert Hg; sv_unfold; intros Hg; norm_rules;
  list_eq; ring [Hg].
Qed.

Lemma se3_ad_def :
  forall a0 a1 a2 a3 a4 a5 b0 b1 b2 b3 b4 b5 A,
  Gen.SE3.se3_ad_rel [a0; a1; a2; a3; a4; a5] A ->
  se3_hat (mvec A [b0; b1; b2; b3; b4; b5]) = comm (se3_hat [a0; a1; a2; a3; a4; a5]) (se3_hat [b0; b1; b2; b3; b4; b5]).
Proof.
  intros a0 a1 a2 a3 a4 a5 b0 b1 b2 b3 b4 b5 A Hrel. rel_cases Hrel. autounfold with se3_ad_db. sv_unfold. list_eq; ring.
Qed.

Lemma se3_bracket_ad :
  forall a0 a1 a2 a3 a4 a5 b0 b1 b2 b3 b4 b5 A out,
  Gen.SE3.se3_ad_rel [a0; a1; a2; a3; a4; a5] A -> Gen.SE3.se3_bracket_rel [a0; a1; a2; a3; a4; a5] [b0; b1; b2; b3; b4; b5] out -> out = mvec A [b0; b1; b2; b3; b4; b5].
Proof.
  intros a0 a1 a2 a3 a4 a5 b0 b1 b2 b3 b4 b5 A out HA Hrel. rel_cases HA. rel_cases Hrel.
  autounfold with se3_ad_db se3_bracket_db. sv_unfold. list_eq; ring.
Qed.

Lemma se3_bracket_antisym :
  forall a0 a1 a2 a3 a4 a5 b0 b1 b2 b3 b4 b5 x y,
  Gen.SE3.se3_bracket_rel [a0; a1; a2; a3; a4; a5] [b0; b1; b2; b3; b4; b5] x -> Gen.SE3.se3_bracket_rel [b0; b1; b2; b3; b4; b5] [a0; a1; a2; a3; a4; a5] y -> x = vneg y.
Proof.
  intros a0 a1 a2 a3 a4 a5 b0 b1 b2 b3 b4 b5 x y Hx Hy. rel_cases Hx. rel_cases Hy.
  autounfold with se3_bracket_db. sv_unfold. list_eq; ring.
Qed.

Lemma se3_jacobi :
  forall a0 a1 a2 a3 a4 a5 b0 b1 b2 b3 b4 b5 c0 c1 c2 c3 c4 c5 bc ca ab x y z,
  Gen.SE3.se3_bracket_rel [b0; b1; b2; b3; b4; b5] [c0; c1; c2; c3; c4; c5] bc -> Gen.SE3.se3_bracket_rel [c0; c1; c2; c3; c4; c5] [a0; a1; a2; a3; a4; a5] ca -> Gen.SE3.se3_bracket_rel [a0; a1; a2; a3; a4; a5] [b0; b1; b2; b3; b4; b5] ab ->
  Gen.SE3.se3_bracket_rel [a0; a1; a2; a3; a4; a5] bc x -> Gen.SE3.se3_bracket_rel [b0; b1; b2; b3; b4; b5] ca y -> Gen.SE3.se3_bracket_rel [c0; c1; c2; c3; c4; c5] ab z ->
  vadd (vadd x y) z = vzero 6.
Proof.
  intros a0 a1 a2 a3 a4 a5 b0 b1 b2 b3 b4 b5 c0 c1 c2 c3 c4 c5 bc ca ab x y z H1 H2 H3 H4 H5 H6.
  rel_cases H1. rel_cases H2. rel_cases H3. rel_cases H4. rel_cases H5. rel_cases H6.
  autounfold with se3_bracket_db. sv_unfold. list_eq; ring.
Qed.

Lemma se3_Ad_hom :
  forall g0 g1 g2 g3 g4 g5 g6 h0 h1 h2 h3 h4 h5 h6 gh A1 A2 A12,
  se3_valid [g0; g1; g2; g3; g4; g5; g6] -> se3_valid [h0; h1; h2; h3; h4; h5; h6] ->
  Gen.SE3.se3_comp_rel [g0; g1; g2; g3; g4; g5; g6] [h0; h1; h2; h3; h4; h5; h6] gh -> Gen.SE3.se3_Ad_rel [g0; g1; g2; g3; g4; g5; g6] A1 -> Gen.SE3.se3_Ad_rel [h0; h1; h2; h3; h4; h5; h6] A2 -> Gen.SE3.se3_Ad_rel gh A12 ->
  A12 = mmul A1 A2.
Proof.
  intros g0 g1 g2 g3 g4 g5 g6 h0 h1 h2 h3 h4 h5 h6 gh A1 A2 A12 Hg Hh Hc H1 H2 H12.
  rel_cases Hc; rel_cases H1; rel_cases H2; rel_cases H12;
  autounfold with se3_comp_db se3_Ad_db; revert Hg Hh; sv_unfold; intros Hg Hh; norm_rules; list_eq; ring [Hg Hh].
Qed.

