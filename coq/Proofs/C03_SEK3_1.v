(* Written with scripts/author/c03.py (committed output; the check builds this file against
   the freshly generated Gen/SEK3_1.v).  Property C03. *)
From Coq Require Import Reals List Lra.
From SV Require Import Base.GenPrelude Base.Mat Doc.Groups Base.Tactics Gen.SEK3_1.
Import ListNotations.
Local Open Scope R_scope.

Lemma sek1_hat_doc :
  forall a0 a1 a2 a3 a4 a5 out,
  Gen.SEK3_1.sek1_hat_rel [a0; a1; a2; a3; a4; a5] out -> out = sek_hat 1 [a0; a1; a2; a3; a4; a5].
Proof.
  intros a0 a1 a2 a3 a4 a5 out Hrel. rel_cases Hrel. autounfold with sek1_hat_db. sv_unfold. list_eq; ring.
Qed.

Lemma sek1_vee_hat :
  forall a0 a1 a2 a3 a4 a5 out,
  Gen.SEK3_1.sek1_vee_rel (mflat (sek_hat 1 [a0; a1; a2; a3; a4; a5])) out -> out = [a0; a1; a2; a3; a4; a5].
Proof.
  intros a0 a1 a2 a3 a4 a5 out Hrel. rel_cases Hrel. autounfold with sek1_vee_db. sv_unfold. list_eq; field.
Qed.

Lemma sek1_hat_vee :
  forall a0 a1 a2 a3 a4 a5 A v,
  A = sek_hat 1 [a0; a1; a2; a3; a4; a5] -> Gen.SEK3_1.sek1_vee_rel (mflat A) v -> sek_hat 1 v = A.
Proof.
  intros a0 a1 a2 a3 a4 a5 A v HA Hrel. subst A. apply sek1_vee_hat in Hrel. subst v. reflexivity.
Qed.

Lemma sek1_hat_linear :
  forall s t a0 a1 a2 a3 a4 a5 b0 b1 b2 b3 b4 b5,
  sek_hat 1 (vadd (vscale s [a0; a1; a2; a3; a4; a5]) (vscale t [b0; b1; b2; b3; b4; b5])) = madd (mscale s (sek_hat 1 [a0; a1; a2; a3; a4; a5])) (mscale t (sek_hat 1 [b0; b1; b2; b3; b4; b5])).
Proof.
  intros. sv_unfold. list_eq; ring.
Qed.

Lemma sek1_Ad_def :
  forall g0 g1 g2 g3 g4 g5 g6 a0 a1 a2 a3 a4 a5 A,
  sek_valid 1 [g0; g1; g2; g3; g4; g5; g6] -> Gen.SEK3_1.sek1_Ad_rel [g0; g1; g2; g3; g4; g5; g6] A ->
  mmul (sek_hat 1 (mvec A [a0; a1; a2; a3; a4; a5])) (sek_mat 1 [g0; g1; g2; g3; g4; g5; g6]) = mmul (sek_mat 1 [g0; g1; g2; g3; g4; g5; g6]) (sek_hat 1 [a0; a1; a2; a3; a4; a5]).
Proof.
  intros g0 g1 g2 g3 g4 g5 g6 a0 a1 a2 a3 a4 a5 A Hg Hrel. rel_cases Hrel;
  autounfold with sek1_Ad_db; revert Hg; sv_unfold; intros Hg; norm_rules;
  list_eq; ring [Hg].
Qed.

Lemma sek1_ad_def :
  forall a0 a1 a2 a3 a4 a5 b0 b1 b2 b3 b4 b5 A,
  Gen.SEK3_1.sek1_ad_rel [a0; a1; a2; a3; a4; a5] A ->
  sek_hat 1 (mvec A [b0; b1; b2; b3; b4; b5]) = comm (sek_hat 1 [a0; a1; a2; a3; a4; a5]) (sek_hat 1 [b0; b1; b2; b3; b4; b5]).
Proof.
  intros a0 a1 a2 a3 a4 a5 b0 b1 b2 b3 b4 b5 A Hrel. rel_cases Hrel. autounfold with sek1_ad_db. sv_unfold. list_eq; ring.
Qed.

Lemma sek1_bracket_ad :
  forall a0 a1 a2 a3 a4 a5 b0 b1 b2 b3 b4 b5 A out,
  Gen.SEK3_1.sek1_ad_rel [a0; a1; a2; a3; a4; a5] A -> Gen.SEK3_1.sek1_bracket_rel [a0; a1; a2; a3; a4; a5] [b0; b1; b2; b3; b4; b5] out -> out = mvec A [b0; b1; b2; b3; b4; b5].
Proof.
  intros a0 a1 a2 a3 a4 a5 b0 b1 b2 b3 b4 b5 A out HA Hrel. rel_cases HA. rel_cases Hrel.
  autounfold with sek1_ad_db sek1_bracket_db. sv_unfold. list_eq; ring.
Qed.

Lemma sek1_bracket_antisym :
  forall a0 a1 a2 a3 a4 a5 b0 b1 b2 b3 b4 b5 x y,
  Gen.SEK3_1.sek1_bracket_rel [a0; a1; a2; a3; a4; a5] [b0; b1; b2; b3; b4; b5] x -> Gen.SEK3_1.sek1_bracket_rel [b0; b1; b2; b3; b4; b5] [a0; a1; a2; a3; a4; a5] y -> x = vneg y.
Proof.
  intros a0 a1 a2 a3 a4 a5 b0 b1 b2 b3 b4 b5 x y Hx Hy. rel_cases Hx. rel_cases Hy.
  autounfold with sek1_bracket_db. sv_unfold. list_eq; ring.
Qed.

Lemma sek1_jacobi :
  forall a0 a1 a2 a3 a4 a5 b0 b1 b2 b3 b4 b5 c0 c1 c2 c3 c4 c5 bc ca ab x y z,
  Gen.SEK3_1.sek1_bracket_rel [b0; b1; b2; b3; b4; b5] [c0; c1; c2; c3; c4; c5] bc -> Gen.SEK3_1.sek1_bracket_rel [c0; c1; c2; c3; c4; c5] [a0; a1; a2; a3; a4; a5] ca -> Gen.SEK3_1.sek1_bracket_rel [a0; a1; a2; a3; a4; a5] [b0; b1; b2; b3; b4; b5] ab ->
  Gen.SEK3_1.sek1_bracket_rel [a0; a1; a2; a3; a4; a5] bc x -> Gen.SEK3_1.sek1_bracket_rel [b0; b1; b2; b3; b4; b5] ca y -> Gen.SEK3_1.sek1_bracket_rel [c0; c1; c2; c3; c4; c5] ab z ->
  vadd (vadd x y) z = vzero 6.
Proof.
  intros a0 a1 a2 a3 a4 a5 b0 b1 b2 b3 b4 b5 c0 c1 c2 c3 c4 c5 bc ca ab x y z H1 H2 H3 H4 H5 H6.
  rel_cases H1. rel_cases H2. rel_cases H3. rel_cases H4. rel_cases H5. rel_cases H6.
  autounfold with sek1_bracket_db. sv_unfold. list_eq; ring.
Qed.

Lemma sek1_Ad_hom :
  forall g0 g1 g2 g3 g4 g5 g6 h0 h1 h2 h3 h4 h5 h6 gh A1 A2 A12,
  sek_valid 1 [g0; g1; g2; g3; g4; g5; g6] -> sek_valid 1 [h0; h1; h2; h3; h4; h5; h6] ->
  Gen.SEK3_1.sek1_comp_rel [g0; g1; g2; g3; g4; g5; g6] [h0; h1; h2; h3; h4; h5; h6] gh -> Gen.SEK3_1.sek1_Ad_rel [g0; g1; g2; g3; g4; g5; g6] A1 -> Gen.SEK3_1.sek1_Ad_rel [h0; h1; h2; h3; h4; h5; h6] A2 -> Gen.SEK3_1.sek1_Ad_rel gh A12 ->
  A12 = mmul A1 A2.
Proof.
  intros g0 g1 g2 g3 g4 g5 g6 h0 h1 h2 h3 h4 h5 h6 gh A1 A2 A12 Hg Hh Hc H1 H2 H12.
  rel_cases Hc; rel_cases H1; rel_cases H2; rel_cases H12;
  autounfold with sek1_comp_db sek1_Ad_db; revert Hg Hh; sv_unfold; intros Hg Hh; norm_rules; list_eq; ring [Hg Hh].
Qed.

