(* Written with scripts/author/c03.py (committed output; the check builds this file against
   the freshly generated Gen/SEK3_3.v).  Property C03. *)
From Coq Require Import Reals List Lra.
From SV Require Import Base.GenPrelude Base.Mat Doc.Groups Base.Tactics Gen.SEK3_3.
Import ListNotations.
Local Open Scope R_scope.

Lemma sek3_hat_doc :
  forall a0 a1 a2 a3 a4 a5 a6 a7 a8 a9 a10 a11 out,
  Gen.SEK3_3.sek3_hat_rel [a0; a1; a2; a3; a4; a5; a6; a7; a8; a9; a10; a11] out -> out = sek_hat 3 [a0; a1; a2; a3; a4; a5; a6; a7; a8; a9; a10; a11].
Proof.
  intros a0 a1 a2 a3 a4 a5 a6 a7 a8 a9 a10 a11 out Hrel. rel_cases Hrel. autounfold with sek3_hat_db. sv_unfold. list_eq; ring.
Qed.

Lemma sek3_vee_hat :
  forall a0 a1 a2 a3 a4 a5 a6 a7 a8 a9 a10 a11 out,
  Gen.SEK3_3.sek3_vee_rel (mflat (sek_hat 3 [a0; a1; a2; a3; a4; a5; a6; a7; a8; a9; a10; a11])) out -> out = [a0; a1; a2; a3; a4; a5; a6; a7; a8; a9; a10; a11].
Proof.
  intros a0 a1 a2 a3 a4 a5 a6 a7 a8 a9 a10 a11 out Hrel. rel_cases Hrel. autounfold with sek3_vee_db. sv_unfold. list_eq; field.
Qed.

Lemma sek3_hat_vee :
  forall a0 a1 a2 a3 a4 a5 a6 a7 a8 a9 a10 a11 A v,
  A = sek_hat 3 [a0; a1; a2; a3; a4; a5; a6; a7; a8; a9; a10; a11] -> Gen.SEK3_3.sek3_vee_rel (mflat A) v -> sek_hat 3 v = A.
Proof.
  intros a0 a1 a2 a3 a4 a5 a6 a7 a8 a9 a10 a11 A v HA Hrel. subst A. apply sek3_vee_hat in Hrel. subst v. reflexivity.
Qed.

Lemma sek3_hat_linear :
  forall s t a0 a1 a2 a3 a4 a5 a6 a7 a8 a9 a10 a11 b0 b1 b2 b3 b4 b5 b6 b7 b8 b9 b10 b11,
  sek_hat 3 (vadd (vscale s [a0; a1; a2; a3; a4; a5; a6; a7; a8; a9; a10; a11]) (vscale t [b0; b1; b2; b3; b4; b5; b6; b7; b8; b9; b10; b11])) = madd (mscale s (sek_hat 3 [a0; a1; a2; a3; a4; a5; a6; a7; a8; a9; a10; a11])) (mscale t (sek_hat 3 [b0; b1; b2; b3; b4; b5; b6; b7; b8; b9; b10; b11])).
Proof.
  intros. sv_unfold. list_eq; ring.
Qed.

Lemma sek3_Ad_def :
  forall g0 g1 g2 g3 g4 g5 g6 g7 g8 g9 g10 g11 g12 a0 a1 a2 a3 a4 a5 a6 a7 a8 a9 a10 a11 A,
  sek_valid 3 [g0; g1; g2; g3; g4; g5; g6; g7; g8; g9; g10; g11; g12] -> Gen.SEK3_3.sek3_Ad_rel [g0; g1; g2; g3; g4; g5; g6; g7; g8; g9; g10; g11; g12] A ->
  mmul (sek_hat 3 (mvec A [a0; a1; a2; a3; a4; a5; a6; a7; a8; a9; a10; a11])) (sek_mat 3 [g0; g1; g2; g3; g4; g5; g6; g7; g8; g9; g10; g11; g12]) = mmul (sek_mat 3 [g0; g1; g2; g3; g4; g5; g6; g7; g8; g9; g10; g11; g12]) (sek_hat 3 [a0; a1; a2; a3; a4; a5; a6; a7; a8; a9; a10; a11]).
Proof.
  intros g0 g1 g2 g3 g4 g5 g6 g7 g8 g9 g10 g11 g12 a0 a1 a2 a3 a4 a5 a6 a7 a8 a9 a10 a11 A Hg Hrel. rel_cases Hrel;
  autounfold with sek3_Ad_db; revert Hg; sv_unfold; intros Hg; norm_rules;
  list_eq; ring [Hg].
Qed.

Lemma sek3_ad_def :
  forall a0 a1 a2 a3 a4 a5 a6 a7 a8 a9 a10 a11 b0 b1 b2 b3 b4 b5 b6 b7 b8 b9 b10 b11 A,
  Gen.SEK3_3.sek3_ad_rel [a0; a1; a2; a3; a4; a5; a6; a7; a8; a9; a10; a11] A ->
  sek_hat 3 (mvec A [b0; b1; b2; b3; b4; b5; b6; b7; b8; b9; b10; b11]) = comm (sek_hat 3 [a0; a1; a2; a3; a4; a5; a6; a7; a8; a9; a10; a11]) (sek_hat 3 [b0; b1; b2; b3; b4; b5; b6; b7; b8; b9; b10; b11]).
Proof.
  intros a0 a1 a2 a3 a4 a5 a6 a7 a8 a9 a10 a11 b0 b1 b2 b3 b4 b5 b6 b7 b8 b9 b10 b11 A Hrel. rel_cases Hrel. autounfold with sek3_ad_db. sv_unfold. list_eq; ring.
Qed.

Lemma sek3_bracket_ad :
  forall a0 a1 a2 a3 a4 a5 a6 a7 a8 a9 a10 a11 b0 b1 b2 b3 b4 b5 b6 b7 b8 b9 b10 b11 A out,
  Gen.SEK3_3.sek3_ad_rel [a0; a1; a2; a3; a4; a5; a6; a7; a8; a9; a10; a11] A -> Gen.SEK3_3.sek3_bracket_rel [a0; a1; a2; a3; a4; a5; a6; a7; a8; a9; a10; a11] [b0; b1; b2; b3; b4; b5; b6; b7; b8; b9; b10; b11] out -> out = mvec A [b0; b1; b2; b3; b4; b5; b6; b7; b8; b9; b10; b11].
Proof.
  intros a0 a1 a2 a3 a4 a5 a6 a7 a8 a9 a10 a11 b0 b1 b2 b3 b4 b5 b6 b7 b8 b9 b10 b11 A out HA Hrel. rel_cases HA. rel_cases Hrel.
  autounfold with sek3_ad_db sek3_bracket_db. sv_unfold. list_eq; ring.
Qed.

Lemma sek3_bracket_antisym :
  forall a0 a1 a2 a3 a4 a5 a6 a7 a8 a9 a10 a11 b0 b1 b2 b3 b4 b5 b6 b7 b8 b9 b10 b11 x y,
  Gen.SEK3_3.sek3_bracket_rel [a0; a1; a2; a3; a4; a5; a6; a7; a8; a9; a10; a11] [b0; b1; b2; b3; b4; b5; b6; b7; b8; b9; b10; b11] x -> Gen.SEK3_3.sek3_bracket_rel [b0; b1; b2; b3; b4; b5; b6; b7; b8; b9; b10; b11] [a0; a1; a2; a3; a4; a5; a6; a7; a8; a9; a10; a11] y -> x = vneg y.
Proof.
  intros a0 a1 a2 a3 a4 a5 a6 a7 a8 a9 a10 a11 b0 b1 b2 b3 b4 b5 b6 b7 b8 b9 b10 b11 x y Hx Hy. rel_cases Hx. rel_cases Hy.
  autounfold with sek3_bracket_db. sv_unfold. list_eq; ring.
Qed.

Lemma sek3_jacobi :
  forall a0 a1 a2 a3 a4 a5 a6 a7 a8 a9 a10 a11 b0 b1 b2 b3 b4 b5 b6 b7 b8 b9 b10 b11 c0 c1 c2 c3 c4 c5 c6 c7 c8 c9 c10 c11 bc ca ab x y z,
  Gen.SEK3_3.sek3_bracket_rel [b0; b1; b2; b3; b4; b5; b6; b7; b8; b9; b10; b11] [c0; c1; c2; c3; c4; c5; c6; c7; c8; c9; c10; c11] bc -> Gen.SEK3_3.sek3_bracket_rel [c0; c1; c2; c3; c4; c5; c6; c7; c8; c9; c10; c11] [a0; a1; a2; a3; a4; a5; a6; a7; a8; a9; a10; a11] ca -> Gen.SEK3_3.sek3_bracket_rel [a0; a1; a2; a3; a4; a5; a6; a7; a8; a9; a10; a11] [b0; b1; b2; b3; b4; b5; b6; b7; b8; b9; b10; b11] ab ->
  Gen.SEK3_3.sek3_bracket_rel [a0; a1; a2; a3; a4; a5; a6; a7; a8; a9; a10; a11] bc x -> Gen.SEK3_3.sek3_bracket_rel [b0; b1; b2; b3; b4; b5; b6; b7; b8; b9; b10; b11] ca y -> Gen.SEK3_3.sek3_bracket_rel [c0; c1; c2; c3; c4; c5; c6; c7; c8; c9; c10; c11] ab z ->
  vadd (vadd x y) z = vzero 12.
Proof.
  intros a0 a1 a2 a3 a4 a5 a6 a7 a8 a9 a10 a11 b0 b1 b2 b3 b4 b5 b6 b7 b8 b9 b10 b11 c0 c1 c2 c3 c4 c5 c6 c7 c8 c9 c10 c11 bc ca ab x y z H1 H2 H3 H4 H5 H6.
  rel_cases H1. rel_cases H2. rel_cases H3. rel_cases H4. rel_cases H5. rel_cases H6.
  autounfold with sek3_bracket_db. sv_unfold. list_eq; ring.
Qed.

Lemma sek3_Ad_hom :
  forall g0 g1 g2 g3 g4 g5 g6 g7 g8 g9 g10 g11 g12 h0 h1 h2 h3 h4 h5 h6 h7 h8 h9 h10 h11 h12 gh A1 A2 A12,
  sek_valid 3 [g0; g1; g2; g3; g4; g5; g6; g7; g8; g9; g10; g11; g12] -> sek_valid 3 [h0; h1; h2; h3; h4; h5; h6; h7; h8; h9; h10; h11; h12] ->
  Gen.SEK3_3.sek3_comp_rel [g0; g1; g2; g3; g4; g5; g6; g7; g8; g9; g10; g11; g12] [h0; h1; h2; h3; h4; h5; h6; h7; h8; h9; h10; h11; h12] gh -> Gen.SEK3_3.sek3_Ad_rel [g0; g1; g2; g3; g4; g5; g6; g7; g8; g9; g10; g11; g12] A1 -> Gen.SEK3_3.sek3_Ad_rel [h0; h1; h2; h3; h4; h5; h6; h7; h8; h9; h10; h11; h12] A2 -> Gen.SEK3_3.sek3_Ad_rel gh A12 ->
  A12 = mmul A1 A2.
Proof.
  intros g0 g1 g2 g3 g4 g5 g6 g7 g8 g9 g10 g11 g12 h0 h1 h2 h3 h4 h5 h6 h7 h8 h9 h10 h11 h12 gh A1 A2 A12 Hg Hh Hc H1 H2 H12.
  rel_cases Hc; rel_cases H1; rel_cases H2; rel_cases H12;
  autounfold with sek3_comp_db sek3_Ad_db; revert Hg Hh; sv_unfold; intros Hg Hh; norm_rules; list_eq; ring [Hg Hh].
Qed.

