(* Written with scripts/author/c03.py (committed output; the check builds this file against
   the freshly generated Gen/SO2.v).  Property C03. *)
From Coq Require Import Reals List Lra.
From SV Require Import Base.GenPrelude Base.Mat Doc.Groups Base.Tactics Gen.SO2.
Import ListNotations.
Local Open Scope R_scope.

Lemma so2_hat_doc :
  forall a0 out,
  Gen.SO2.so2_hat_rel [a0] out -> out = so2_hat [a0].
Proof.
  intros a0 out Hrel. rel_cases Hrel. autounfold with so2_hat_db. sv_unfold. list_eq; ring.
Qed.

Lemma so2_vee_hat :
  forall a0 out,
  Gen.SO2.so2_vee_rel (mflat (so2_hat [a0])) out -> out = [a0].
Proof.
  intros a0 out Hrel. rel_cases Hrel. autounfold with so2_vee_db. sv_unfold. list_eq; field.
Qed.

Lemma so2_hat_vee :
  forall a0 A v,
  A = so2_hat [a0] -> Gen.SO2.so2_vee_rel (mflat A) v -> so2_hat v = A.
Proof.
  intros a0 A v HA Hrel. subst A. apply so2_vee_hat in Hrel. subst v. reflexivity.
Qed.

Lemma so2_hat_linear :
  forall s t a0 b0,
  so2_hat (vadd (vscale s [a0]) (vscale t [b0])) = madd (mscale s (so2_hat [a0])) (mscale t (so2_hat [b0])).
Proof.
  intros. sv_unfold. list_eq; ring.
Qed.

Lemma so2_Ad_def :
  forall g0 g1 a0 A,
  so2_valid [g0; g1] -> Gen.SO2.so2_Ad_rel [g0; g1] A ->
  mmul (so2_hat (mvec A [a0])) (so2_mat [g0; g1]) = mmul (so2_mat [g0; g1]) (so2_hat [a0]).
Proof.
  intros g0 g1 a0 A Hg Hrel. rel_cases Hrel;
  autounfold with so2_Ad_db; revert Hg; sv_unfold; intros Hg; norm_rules;
  list_eq; ring [Hg].
Qed.

Lemma so2_ad_def :
  forall a0 b0 A,
  Gen.SO2.so2_ad_rel [a0] A ->
  so2_hat (mvec A [b0]) = comm (so2_hat [a0]) (so2_hat [b0]).
Proof.
  intros a0 b0 A Hrel. rel_cases Hrel. autounfold with so2_ad_db. sv_unfold. list_eq; ring.
Qed.

Lemma so2_bracket_ad :
  forall a0 b0 A out,
  Gen.SO2.so2_ad_rel [a0] A -> Gen.SO2.so2_bracket_rel [a0] [b0] out -> out = mvec A [b0].
Proof.
  intros a0 b0 A out HA Hrel. rel_cases HA. rel_cases Hrel.
  autounfold with so2_ad_db so2_bracket_db. sv_unfold. list_eq; ring.
Qed.

Lemma so2_bracket_antisym :
  forall a0 b0 x y,
  Gen.SO2.so2_bracket_rel [a0] [b0] x -> Gen.SO2.so2_bracket_rel [b0] [a0] y -> x = vneg y.
Proof.
  intros a0 b0 x y Hx Hy. rel_cases Hx. rel_cases Hy.
  autounfold with so2_bracket_db. sv_unfold. list_eq; ring.
Qed.

Lemma so2_jacobi :
  forall a0 b0 c0 bc ca ab x y z,
  Gen.SO2.so2_bracket_rel [b0] [c0] bc -> Gen.SO2.so2_bracket_rel [c0] [a0] ca -> Gen.SO2.so2_bracket_rel [a0] [b0] ab ->
  Gen.SO2.so2_bracket_rel [a0] bc x -> Gen.SO2.so2_bracket_rel [b0] ca y -> Gen.SO2.so2_bracket_rel [c0] ab z ->
  vadd (vadd x y) z = vzero 1.
Proof.
  intros a0 b0 c0 bc ca ab x y z H1 H2 H3 H4 H5 H6.
  rel_cases H1. rel_cases H2. rel_cases H3. rel_cases H4. rel_cases H5. rel_cases H6.
  autounfold with so2_bracket_db. sv_unfold. list_eq; ring.
Qed.

Lemma so2_Ad_hom :
  forall g0 g1 h0 h1 gh A1 A2 A12,
  so2_valid [g0; g1] -> so2_valid [h0; h1] ->
  Gen.SO2.so2_comp_rel [g0; g1] [h0; h1] gh -> Gen.SO2.so2_Ad_rel [g0; g1] A1 -> Gen.SO2.so2_Ad_rel [h0; h1] A2 -> Gen.SO2.so2_Ad_rel gh A12 ->
  A12 = mmul A1 A2.
Proof.
  intros g0 g1 h0 h1 gh A1 A2 A12 Hg Hh Hc H1 H2 H12.
  rel_cases Hc; rel_cases H1; rel_cases H2; rel_cases H12;
  autounfold with so2_comp_db so2_Ad_db; revert Hg Hh; sv_unfold; intros Hg Hh; norm_rules; list_eq; ring [Hg Hh].
Qed.

