(* Written with scripts/author/c04.py (committed output; the check builds this file against
   the freshly generated Gen/SE2.v).  Property C04. *)
From Coq Require Import Reals List Lra.
From SV Require Import Base.GenPrelude Base.Mat Doc.Groups Base.Tactics Gen.SE2.
From Coquelicot Require Import Coquelicot.
From SV Require Import Base.Trig Doc.Exp.
Import ListNotations.
Local Open Scope R_scope.

Lemma se2_dr_expinv_is_inverse :
  forall a0 a1 a2, eps2 < a2 * a2 -> sin a2 <> 0 ->
  mmul (Gen.SE2.se2_dr_expinv_p0 [a0; a1; a2]) (Gen.SE2.se2_dr_exp_p1 [a0; a1; a2]) = mI 3 /\
  mmul (Gen.SE2.se2_dr_exp_p1 [a0; a1; a2]) (Gen.SE2.se2_dr_expinv_p0 [a0; a1; a2]) = mI 3.
Proof.
  intros a0 a1 a2 Hbig Hsin. unfold eps2 in Hbig.
  assert (Hne : a2 <> 0) by (intros E; rewrite E, Rmult_0_l in Hbig; lra).
  (destruct (Rtotal_order a2 0) as [Hn | [E | Hp]]; [ | contradiction | ]);
  autounfold with se2_dr_exp_db se2_dr_expinv_db; sv_unfold;
  rewrite ?Rmult_1_l;
  try (rewrite !(sqrt_sq_pos a2) by lra); try (rewrite !(sqrt_sq_neg a2) by lra); rewrite ?sin_neg, ?cos_neg;
  pose proof (sin2_cos2 a2) as Hsc; unfold Rsqr in Hsc;
  generalize dependent (sin a2); generalize dependent (cos a2); intros C S; intros;
  assert (HC : C * C = 1 - S * S) by lra; (split; list_eq; field [HC]; nz).
Qed.

Lemma se2_dr_exp_is_jacobian :
  forall a0 a1 a2 k r c, eps2 < a2 * a2 -> (k < 3)%nat -> (r < 3)%nat -> (c < 3)%nat ->
  is_derive (fun x => mget (se2_flow (match k with O => [x; a1; a2] | S O => [a0; x; a2] | _ => [a0; a1; x] end) 1) r c) (nth k [a0; a1; a2] 0)
            (mget (mmul (se2_flow [a0; a1; a2] 1) (se2_hat (mcol (Gen.SE2.se2_dr_exp_p1 [a0; a1; a2]) k))) r c).
Proof.
  intros a0 a1 a2 k r c Hbig Hk Hr Hc. unfold eps2 in Hbig.
  assert (Hne : a2 <> 0) by (intros E; rewrite E, Rmult_0_l in Hbig; lra).
  (destruct (Rtotal_order a2 0) as [Hn | [E | Hp]]; [ | contradiction | ]);
  nat_cases k; ij_cases r c; autounfold with se2_dr_exp_db; flow_unfold; sv_unfold;
  (auto_derive; [ nz | ]);
  rewrite ?Rmult_1_l;
  try (rewrite !(sqrt_sq_pos a2) by lra); try (rewrite !(sqrt_sq_neg a2) by lra); rewrite ?sin_neg, ?cos_neg;
  pose proof (sin2_cos2 a2) as Hsc; unfold Rsqr in Hsc;
  generalize dependent (sin a2); generalize dependent (cos a2); intros C S; intros;
  assert (HC : C * C = 1 - S * S) by lra; field [HC]; nz.
Qed.

Lemma se2_dl_exp_is_Ad_dr_exp :
  forall a0 a1 a2 g A J L, eps2 < a2 * a2 ->
  Gen.SE2.se2_exp_rel [a0; a1; a2] g -> Gen.SE2.se2_Ad_rel g A -> Gen.SE2.se2_dr_exp_rel [a0; a1; a2] J -> Gen.SE2.se2_dl_exp_rel [a0; a1; a2] L ->
  L = mmul A J.
Proof.
  intros a0 a1 a2 g A J L Hbig Hg HA HJ HL. unfold eps2 in Hbig.
  assert (Hne : a2 <> 0) by (intros E; rewrite E, Rmult_0_l in Hbig; lra).
  (destruct (Rtotal_order a2 0) as [Hn | [E | Hp]]; [ | contradiction | ]);
  rel_cases Hg; rel_cases HA; rel_cases HJ; rel_cases HL;
  autounfold with se2_exp_db se2_Ad_db se2_dr_exp_db se2_dl_exp_db in *;
  try (exfalso; revert Hpath; sv_unfold; lra); try (exfalso; revert Hpath0; sv_unfold; lra); try (exfalso; revert Hpath1; sv_unfold; lra); try (exfalso; revert Hpath2; sv_unfold; lra);
  sv_unfold;
  rewrite ?Rmult_1_l;
  try (rewrite !(sqrt_sq_pos a2) by lra); try (rewrite !(sqrt_sq_neg a2) by lra); rewrite ?sin_neg, ?cos_neg;
  pose proof (sin2_cos2 a2) as Hsc; unfold Rsqr in Hsc;
  generalize dependent (sin a2); generalize dependent (cos a2); intros C S; intros;
  assert (HC : C * C = 1 - S * S) by lra; list_eq; field [HC]; nz.
Qed.

