(* Written with scripts/author/c04.py (committed output; the check builds this file against
   the freshly generated Gen/SE3.v).  Property C04. *)
From Coq Require Import Reals List Lra.
From SV Require Import Base.GenPrelude Base.Mat Doc.Groups Base.Tactics Gen.SE3.
From Coquelicot Require Import Coquelicot.
From SV Require Import Base.Trig Doc.Exp.
Import ListNotations.
Local Open Scope R_scope.

Lemma se3_dr_exp_closed_path :
  forall a0 a1 a2 a3 a4 a5 out, eps2 < a3*a3 + a4*a4 + a5*a5 -> Gen.SE3.se3_dr_exp_rel [a0; a1; a2; a3; a4; a5] out -> out = Gen.SE3.se3_dr_exp_p1 [a0; a1; a2; a3; a4; a5].
Proof.
  intros a0 a1 a2 a3 a4 a5 out Hbig Hrel. unfold eps2 in Hbig.
  rel_cases Hrel; autounfold with se3_dr_exp_db in *; [ | ]; first [ reflexivity | exfalso; revert Hpath; sv_unfold; lra ].
Qed.

Lemma se3_dr_exp_is_jacobian :
  forall a0 a1 a2 a3 a4 a5 k r c, eps2 < a3*a3 + a4*a4 + a5*a5 -> (k < 6)%nat -> (r < 4)%nat -> (c < 4)%nat ->
  is_derive (fun x => mget (se3_flow (match k with O => [x; a1; a2; a3; a4; a5] | S O => [a0; x; a2; a3; a4; a5] | S (S O) => [a0; a1; x; a3; a4; a5] | S (S (S O)) => [a0; a1; a2; x; a4; a5] | S (S (S (S O))) => [a0; a1; a2; a3; x; a5] | _ => [a0; a1; a2; a3; a4; x] end) 1) r c) (nth k [a0; a1; a2; a3; a4; a5] 0)
            (mget (mmul (se3_flow [a0; a1; a2; a3; a4; a5] 1) (se3_hat (mcol (Gen.SE3.se3_dr_exp_p1 [a0; a1; a2; a3; a4; a5]) k))) r c).
Proof.
  intros a0 a1 a2 a3 a4 a5 k r c Hbig Hk Hr Hc. unfold eps2 in Hbig.
  assert (Hassoc : a3 * a3 + (a4 * a4 + a5 * a5) = a3*a3 + a4*a4 + a5*a5) by ring.
  nat_cases k; ij_cases r c; autounfold with se3_dr_exp_db; flow_unfold; sv_unfold;
  (auto_derive; [ rewrite ?Hassoc; nz | ]);
  rewrite ?Rmult_1_l; rewrite ?Hassoc; set (th2 := a3*a3 + a4*a4 + a5*a5) in *; assert (Hpos : 0 < th2) by lra; name_sqrt th2 t; rewrite <- ?Htsq;
  assert (Hz : a5*a5 = t*t - a3*a3 - a4*a4) by (unfold th2 in Htsq; lra);
  pose proof (sin2_cos2 t) as Hsc; unfold Rsqr in Hsc;
  generalize dependent (sin t); generalize dependent (cos t); intros C S; intros;
  assert (HC : C * C = 1 - S * S) by lra; field [HC Hz]; nz.
Qed.

