(* Written with scripts/author/c04.py (committed output; the check builds this file against
   the freshly generated Gen/SO3.v).  Property C04. *)
From Coq Require Import Reals List Lra.
From SV Require Import Base.GenPrelude Base.Mat Doc.Groups Base.Tactics Gen.SO3.
From Coquelicot Require Import Coquelicot.
From SV Require Import Base.Trig Doc.Exp.
Import ListNotations.
Local Open Scope R_scope.

Lemma so3_dr_expinv_is_inverse :
  forall a0 a1 a2, eps2 < a0*a0 + a1*a1 + a2*a2 -> sin (sqrt (a0*a0 + a1*a1 + a2*a2)) <> 0 ->
  mmul (Gen.SO3.so3_dr_expinv_p0 [a0; a1; a2]) (Gen.SO3.so3_dr_exp_p1 [a0; a1; a2]) = mI 3 /\
  mmul (Gen.SO3.so3_dr_exp_p1 [a0; a1; a2]) (Gen.SO3.so3_dr_expinv_p0 [a0; a1; a2]) = mI 3.
Proof.
  intros a0 a1 a2 Hbig Hsin. unfold eps2 in Hbig.
  assert (Hassoc : a0 * a0 + (a1 * a1 + a2 * a2) = a0*a0 + a1*a1 + a2*a2) by ring.
  autounfold with so3_dr_exp_db so3_dr_expinv_db; sv_unfold;
  rewrite ?Rmult_1_l; rewrite ?Hassoc; set (th2 := a0*a0 + a1*a1 + a2*a2) in *; assert (Hpos : 0 < th2) by lra; name_sqrt th2 t; rewrite <- ?Htsq;
  assert (Hz : a2*a2 = t*t - a0*a0 - a1*a1) by (unfold th2 in Htsq; lra);
  pose proof (sin2_cos2 t) as Hsc; unfold Rsqr in Hsc;
  generalize dependent (sin t); generalize dependent (cos t); intros C S; intros;
  assert (HC : C * C = 1 - S * S) by lra; (split; list_eq; field [HC Hz]; nz).
Qed.

Lemma so3_dr_exp_is_jacobian :
  forall a0 a1 a2 k r c, eps2 < a0*a0 + a1*a1 + a2*a2 -> (k < 3)%nat -> (r < 3)%nat -> (c < 3)%nat ->
  is_derive (fun x => mget (so3_flow (match k with O => [x; a1; a2] | S O => [a0; x; a2] | _ => [a0; a1; x] end) 1) r c) (nth k [a0; a1; a2] 0)
            (mget (mmul (so3_flow [a0; a1; a2] 1) (so3_hat (mcol (Gen.SO3.so3_dr_exp_p1 [a0; a1; a2]) k))) r c).
Proof.
  intros a0 a1 a2 k r c Hbig Hk Hr Hc. unfold eps2 in Hbig.
  assert (Hassoc : a0 * a0 + (a1 * a1 + a2 * a2) = a0*a0 + a1*a1 + a2*a2) by ring.
  nat_cases k; ij_cases r c; autounfold with so3_dr_exp_db; flow_unfold; sv_unfold;
  (auto_derive; [ rewrite ?Hassoc; nz | ]);
  rewrite ?Rmult_1_l; rewrite ?Hassoc; set (th2 := a0*a0 + a1*a1 + a2*a2) in *; assert (Hpos : 0 < th2) by lra; name_sqrt th2 t; rewrite <- ?Htsq;
  assert (Hz : a2*a2 = t*t - a0*a0 - a1*a1) by (unfold th2 in Htsq; lra);
  pose proof (sin2_cos2 t) as Hsc; unfold Rsqr in Hsc;
  generalize dependent (sin t); generalize dependent (cos t); intros C S; intros;
  assert (HC : C * C = 1 - S * S) by lra; field [HC Hz]; nz.
Qed.

Lemma so3_dl_exp_is_Ad_dr_exp :
  forall a0 a1 a2 g A J L, eps2 < a0*a0 + a1*a1 + a2*a2 ->
  Gen.SO3.so3_exp_rel [a0; a1; a2] g -> Gen.SO3.so3_Ad_rel g A -> Gen.SO3.so3_dr_exp_rel [a0; a1; a2] J -> Gen.SO3.so3_dl_exp_rel [a0; a1; a2] L ->
  L = mmul A J.
Proof.
  intros a0 a1 a2 g A J L Hbig Hg HA HJ HL. unfold eps2 in Hbig.
  assert (Hassoc : a0 * a0 + (a1 * a1 + a2 * a2) = a0*a0 + a1*a1 + a2*a2) by ring.
  rel_cases Hg; rel_cases HA; rel_cases HJ; rel_cases HL;
  autounfold with so3_exp_db so3_Ad_db so3_dr_exp_db so3_dl_exp_db in *;
  try (exfalso; revert Hpath; sv_unfold; lra); try (exfalso; revert Hpath0; sv_unfold; lra); try (exfalso; revert Hpath1; sv_unfold; lra); try (exfalso; revert Hpath2; sv_unfold; lra);
  sv_unfold; rewrite ?Rmult_1_l; rewrite ?Hassoc; unify_sqrts;
  set (th2 := a0*a0 + a1*a1 + a2*a2) in *; assert (Hpos : 0 < th2) by lra; name_sqrt th2 t; rewrite <- ?Htsq;
  rewrite ?(sin_half_angle t), ?(cos_half_angle t); trig_atom (t/2) s c;
  assert (Hz : a2*a2 = t*t - a0*a0 - a1*a1) by (unfold th2 in Htsq; lra);
  list_eq; field [H Hz]; nz.
Qed.

