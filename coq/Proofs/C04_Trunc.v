(* C04: series side of the switch for dr_expinv (SO3: calc_S1inv + ad; SE2: inline lambda).  Both paths of the traced
   function are the same matrix polynomial  I + hat/2 + A hat^2  resp.  I + ad/2 + A ad^2  in the kernel value A, with
   A = T_A th2 = 1/12 + th2/720 on the series path and A = K_A theta on the closed-form path, and
   0 <= K_A theta - T_A th2 <= eps2^2/25000 (4e-21) for 0 < th2 < eps2.  A changed series coefficient breaks the first equation. *)
From Coq Require Import Reals List Lra Lia.
From SV Require Import Base.GenPrelude Base.Mat Doc.Groups Base.Tactics Base.Trig Base.Kernels Base.KernelA.
From SV Require Gen.SO3 Gen.SE2.
Import ListNotations.
Local Open Scope R_scope.

Definition jinv_form (A : R) (M : mat) (n : nat) : mat :=
  madd (madd (mI n) (mscale (1/2) M)) (mscale A (mmul M M)).

Lemma KA_small x2 : 0 < x2 < eps2 -> 0 <= K_A (sqrt x2) - T_A x2 <= eps2 * eps2 / 25000.
Proof.
  intros [Hpos Hsmall]. pose proof eps2_pos. assert (He1 : eps2 < 1) by (unfold eps2; lra).
  assert (Hth : 0 < sqrt x2) by (apply sqrt_lt_R0; lra).
  assert (Hsq : sqrt x2 * sqrt x2 = x2) by (apply sqrt_sqrt; lra).
  assert (Hle1 : sqrt x2 <= 1) by (rewrite <- sqrt_1; apply sqrt_le_1_alt; lra).
  pose proof (KA_trunc (sqrt x2) (conj Hth Hle1)) as [L U]. rewrite Hsq in L, U.
  split; [exact L|]. eapply Rle_trans; [exact U|].
  replace ((sqrt x2)^4) with ((sqrt x2 * sqrt x2) * (sqrt x2 * sqrt x2)) by ring. rewrite Hsq.
  assert (x2 * x2 <= eps2 * eps2) by (apply Rmult_le_compat; lra). lra.
Qed.

Lemma KA_even x : K_A (- x) = K_A x.
Proof. unfold K_A. rewrite cos_neg, sin_neg. destruct (Req_dec x 0) as [->|Hx].
  - rewrite Ropp_0, sin_0, Ropp_0. reflexivity.
  - destruct (Req_dec (sin x) 0) as [Hs|Hs].
    + rewrite Hs. rewrite Ropp_0, !Rmult_0_r. replace (- x * - x) with (x * x) by ring. reflexivity.
    + field. split; assumption.
Qed.

Section SO3.
Import Gen.SO3.
Lemma so3_dr_expinv_trunc a0 a1 a2 :
  0 < a0*a0 + a1*a1 + a2*a2 < eps2 ->
  so3_dr_expinv_p1 [a0; a1; a2] = jinv_form (T_A (a0*a0 + a1*a1 + a2*a2)) (so3_hat [a0; a1; a2]) 3 /\
  so3_dr_expinv_p0 [a0; a1; a2] = jinv_form (K_A (sqrt (a0*a0 + a1*a1 + a2*a2))) (so3_hat [a0; a1; a2]) 3 /\
  so3_dr_expinv_c1 [a0; a1; a2] /\
  0 <= K_A (sqrt (a0*a0 + a1*a1 + a2*a2)) - T_A (a0*a0 + a1*a1 + a2*a2) <= eps2 * eps2 / 25000.
Proof.
  intros Hr.
  assert (Hassoc : a0 * a0 + (a1 * a1 + a2 * a2) = a0*a0 + a1*a1 + a2*a2) by ring.
  split; [|split; [|split]].
  - autounfold with so3_dr_expinv_db. unfold jinv_form, T_A. sv_unfold. rewrite Hassoc. list_eq; field.
  - autounfold with so3_dr_expinv_db. unfold jinv_form, K_A. sv_unfold. rewrite Hassoc.
    assert (Hth : 0 < sqrt (a0*a0 + a1*a1 + a2*a2)) by (apply sqrt_lt_R0; lra).
    assert (Hsq : sqrt (a0*a0 + a1*a1 + a2*a2) * sqrt (a0*a0 + a1*a1 + a2*a2) = a0*a0 + a1*a1 + a2*a2) by (apply sqrt_sqrt; lra).
    assert (Hle1 : sqrt (a0*a0 + a1*a1 + a2*a2) <= 1) by (rewrite <- sqrt_1; apply sqrt_le_1_alt; unfold eps2 in Hr; lra).
    pose proof (sin_pos_small _ (conj Hth Hle1)) as Hsin.
    rewrite Hsq. list_eq; field; repeat split; lra.
  - autounfold with so3_dr_expinv_db. sv_unfold. rewrite Hassoc. unfold eps2 in *. lra.
  - apply KA_small; assumption.
Qed.
End SO3.

Section SE2.
Import Gen.SE2.
Lemma se2_dr_expinv_trunc a0 a1 a2 :
  0 < a2*a2 < eps2 ->
  se2_dr_expinv_p1 [a0; a1; a2] = jinv_form (T_A (a2*a2)) (se2_ad_p0 [a0; a1; a2]) 3 /\
  se2_dr_expinv_p0 [a0; a1; a2] = jinv_form (K_A a2) (se2_ad_p0 [a0; a1; a2]) 3 /\
  se2_dr_expinv_c1 [a0; a1; a2] /\
  0 <= K_A a2 - T_A (a2*a2) <= eps2 * eps2 / 25000.
Proof.
  intros Hr.
  split; [|split; [|split]].
  - autounfold with se2_dr_expinv_db se2_ad_db. unfold jinv_form, T_A. sv_unfold. list_eq; field.
  - autounfold with se2_dr_expinv_db se2_ad_db. unfold jinv_form, K_A. sv_unfold.
    assert (Hw : a2 <> 0) by (intros ->; lra).
    assert (Hsin : sin a2 <> 0).
    { assert (Ha : Rabs a2 <= 1) by (apply Rabs_le; unfold eps2 in Hr; nra).
      destruct (Rcase_abs a2) as [Hn|Hp].
      - rewrite Rabs_left in Ha by assumption. pose proof (sin_pos_small (- a2) ltac:(lra)) as H. rewrite sin_neg in H. lra.
      - rewrite Rabs_right in Ha by assumption. pose proof (sin_pos_small a2 ltac:(lra)). lra. }
    list_eq; field; repeat split; assumption.
  - autounfold with se2_dr_expinv_db. sv_unfold. unfold eps2 in *. lra.
  - assert (E : K_A a2 = K_A (sqrt (a2*a2))).
    { destruct (Rcase_abs a2) as [Hn|Hp].
      - rewrite sqrt_sq_neg by assumption. symmetry. apply KA_even.
      - assert (a2 <> 0) by (intros ->; lra). rewrite sqrt_sq_pos by lra. reflexivity. }
    rewrite E. apply KA_small; assumption.
Qed.
End SE2.
