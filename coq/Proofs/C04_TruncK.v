(* C04: series side of the switch for dr_exp and dl_exp (SO3, SE2, SE3)
   Written with scripts/author/trunc_gen.py (committed output; the check builds this file against the regenerated Gen).
   For each function: `f_form` is the closed-form path of the traced function with the detail/trig.hpp kernel expressions
   abstracted; the series path is the same expression with the kernels replaced by their Taylor polynomials, and the kernel
   values differ by the bounds of Base/Kernels.v.  A changed series coefficient or switch breaks an equation. *)
From Coq Require Import Reals List Lra Lia.
From SV Require Import Base.GenPrelude Base.Mat Doc.Groups Base.Tactics Base.Trig Base.Kernels Base.KernelQ.
From SV Require Gen.SE2 Gen.SE3 Gen.SO3.
Import ListNotations.
Local Open Scope R_scope.

Definition so3_dr_exp_form (C2 S3 a0 a1 a2 : R) : mat :=
  [[1 - (- (S3 * a2 * a2) - S3 * a1 * a1); - (C2 * a2) - S3 * a1 * a0; C2 * a1 - S3 * a2 * a0]; [C2 * a2 - S3 * a0 * a1; 1 - (- (S3 * a2 * a2) - S3 * a0 * a0); - (C2 * a0) - S3 * a2 * a1]; [- (C2 * a1) - S3 * a0 * a2; C2 * a0 - S3 * a1 * a2; 1 - (- (S3 * a1 * a1) - S3 * a0 * a0)]].

Lemma so3_dr_exp_trunc a0 a1 a2 :
  0 < a0*a0 + a1*a1 + a2*a2 < eps2 ->
  let th2 := a0*a0 + a1*a1 + a2*a2 in let th := sqrt th2 in
  Gen.SO3.so3_dr_exp_p0 [a0; a1; a2] = so3_dr_exp_form (T_cos2 th2) (T_sin3 th2) a0 a1 a2 /\
  Gen.SO3.so3_dr_exp_p1 [a0; a1; a2] = so3_dr_exp_form (K_cos2 th) (K_sin3 th) a0 a1 a2 /\
  Gen.SO3.so3_dr_exp_c0 [a0; a1; a2] /\
  0 <= K_cos2 th - T_cos2 th2 <= eps2 * eps2 * eps2 / 40320 /\
  0 <= K_sin3 th - T_sin3 th2 <= eps2 * eps2 * eps2 / 362880.
Proof.
  intros [Hpos Hsmall] th2 th. pose proof eps2_pos as He0. assert (He1 : eps2 < 1 / 99999999) by apply eps2_small.
  assert (Hassoc : a0 * a0 + (a1 * a1 + a2 * a2) = th2) by (unfold th2; ring).
  assert (Hth : 0 < th) by (apply sqrt_lt_R0; assumption).
  assert (Hsq : th * th = th2) by (apply sqrt_sqrt; unfold th2; lra).
  assert (Hle1 : th <= 1) by (unfold th; rewrite <- sqrt_1; apply sqrt_le_1_alt; lra).
  assert (Hth222 : th2 * th2 * th2 <= eps2 * eps2 * eps2) by (apply Rmult_le_compat; [nra | lra | apply Rmult_le_compat; lra | lra]).
  assert (H6 : th^6 = th2 * th2 * th2) by (rewrite <- Hsq; ring).
  assert (H4 : th^4 = th2 * th2) by (rewrite <- Hsq; ring).
  assert (Hth22 : th2 * th2 <= eps2 * eps2) by (apply Rmult_le_compat; lra).
  split; [|split; [|split; [|split; [|]]]].
  - autounfold with so3_dr_exp_db. unfold so3_dr_exp_form, T_cos2, T_sin3. sv_unfold. rewrite ?Hassoc. list_eq; field.
  - autounfold with so3_dr_exp_db. unfold so3_dr_exp_form, K_cos2, K_sin3. sv_unfold. rewrite ?Hassoc. fold th. rewrite <- Hsq.
    list_eq; field; lra.
  - autounfold with so3_dr_exp_db. sv_unfold. rewrite ?Hassoc. unfold eps2 in *. repeat split; lra.
  - pose proof (cos2_trunc th (conj Hth Hle1)) as [L U]. rewrite Hsq in L, U. rewrite ?H6, ?H4 in *. lra.
  - pose proof (sin3_trunc th (conj Hth Hle1)) as [L U]. rewrite Hsq in L, U. rewrite ?H6, ?H4 in *. lra.
Qed.

Definition so3_dl_exp_form (C2 S3 a0 a1 a2 : R) : mat :=
  [[1 - (- (S3 * a2 * a2) - S3 * a1 * a1); C2 * a2 - S3 * a1 * a0; - (C2 * a1) - S3 * a2 * a0]; [- (C2 * a2) - S3 * a0 * a1; 1 - (- (S3 * a2 * a2) - S3 * a0 * a0); C2 * a0 - S3 * a2 * a1]; [C2 * a1 - S3 * a0 * a2; - (C2 * a0) - S3 * a1 * a2; 1 - (- (S3 * a1 * a1) - S3 * a0 * a0)]].

Lemma so3_dl_exp_trunc a0 a1 a2 :
  0 < a0*a0 + a1*a1 + a2*a2 < eps2 ->
  let th2 := a0*a0 + a1*a1 + a2*a2 in let th := sqrt th2 in
  Gen.SO3.so3_dl_exp_p0 [a0; a1; a2] = so3_dl_exp_form (T_cos2 th2) (T_sin3 th2) a0 a1 a2 /\
  Gen.SO3.so3_dl_exp_p1 [a0; a1; a2] = so3_dl_exp_form (K_cos2 th) (K_sin3 th) a0 a1 a2 /\
  Gen.SO3.so3_dl_exp_c0 [a0; a1; a2] /\
  0 <= K_cos2 th - T_cos2 th2 <= eps2 * eps2 * eps2 / 40320 /\
  0 <= K_sin3 th - T_sin3 th2 <= eps2 * eps2 * eps2 / 362880.
Proof.
  intros [Hpos Hsmall] th2 th. pose proof eps2_pos as He0. assert (He1 : eps2 < 1 / 99999999) by apply eps2_small.
  assert (Hassoc : a0 * a0 + (a1 * a1 + a2 * a2) = th2) by (unfold th2; ring).
  assert (Hth : 0 < th) by (apply sqrt_lt_R0; assumption).
  assert (Hsq : th * th = th2) by (apply sqrt_sqrt; unfold th2; lra).
  assert (Hle1 : th <= 1) by (unfold th; rewrite <- sqrt_1; apply sqrt_le_1_alt; lra).
  assert (Hth222 : th2 * th2 * th2 <= eps2 * eps2 * eps2) by (apply Rmult_le_compat; [nra | lra | apply Rmult_le_compat; lra | lra]).
  assert (H6 : th^6 = th2 * th2 * th2) by (rewrite <- Hsq; ring).
  assert (H4 : th^4 = th2 * th2) by (rewrite <- Hsq; ring).
  assert (Hth22 : th2 * th2 <= eps2 * eps2) by (apply Rmult_le_compat; lra).
  split; [|split; [|split; [|split; [|]]]].
  - autounfold with so3_dl_exp_db. unfold so3_dl_exp_form, T_cos2, T_sin3. sv_unfold. rewrite ?Hassoc. list_eq; field.
  - autounfold with so3_dl_exp_db. unfold so3_dl_exp_form, K_cos2, K_sin3. sv_unfold. rewrite ?Hassoc. fold th. rewrite <- Hsq.
    list_eq; field; lra.
  - autounfold with so3_dl_exp_db. sv_unfold. rewrite ?Hassoc. unfold eps2 in *. repeat split; lra.
  - pose proof (cos2_trunc th (conj Hth Hle1)) as [L U]. rewrite Hsq in L, U. rewrite ?H6, ?H4 in *. lra.
  - pose proof (sin3_trunc th (conj Hth Hle1)) as [L U]. rewrite Hsq in L, U. rewrite ?H6, ?H4 in *. lra.
Qed.

Definition se2_dr_exp_form (C2 S3 a0 a1 a2 : R) : mat :=
  [[1 + S3 * a2 * a2; - (C2 * a2); C2 * a1 - S3 * a2 * a0]; [C2 * a2; 1 + S3 * a2 * a2; - (C2 * a0) - S3 * a2 * a1]; [0; 0; 1]].

Lemma se2_dr_exp_trunc a0 a1 a2 :
  0 < a2*a2 < eps2 ->
  let th2 := a2*a2 in let th := sqrt th2 in
  Gen.SE2.se2_dr_exp_p0 [a0; a1; a2] = se2_dr_exp_form (T_cos2 th2) (T_sin3 th2) a0 a1 a2 /\
  Gen.SE2.se2_dr_exp_p1 [a0; a1; a2] = se2_dr_exp_form (K_cos2 th) (K_sin3 th) a0 a1 a2 /\
  Gen.SE2.se2_dr_exp_c0 [a0; a1; a2] /\
  0 <= K_cos2 th - T_cos2 th2 <= eps2 * eps2 * eps2 / 40320 /\
  0 <= K_sin3 th - T_sin3 th2 <= eps2 * eps2 * eps2 / 362880.
Proof.
  intros [Hpos Hsmall] th2 th. pose proof eps2_pos as He0. assert (He1 : eps2 < 1 / 99999999) by apply eps2_small.
  assert (Hassoc : a2 * a2 = th2) by (unfold th2; ring).
  assert (Hth : 0 < th) by (apply sqrt_lt_R0; assumption).
  assert (Hsq : th * th = th2) by (apply sqrt_sqrt; unfold th2; lra).
  assert (Hle1 : th <= 1) by (unfold th; rewrite <- sqrt_1; apply sqrt_le_1_alt; lra).
  assert (Hth222 : th2 * th2 * th2 <= eps2 * eps2 * eps2) by (apply Rmult_le_compat; [nra | lra | apply Rmult_le_compat; lra | lra]).
  assert (H6 : th^6 = th2 * th2 * th2) by (rewrite <- Hsq; ring).
  assert (H4 : th^4 = th2 * th2) by (rewrite <- Hsq; ring).
  assert (Hth22 : th2 * th2 <= eps2 * eps2) by (apply Rmult_le_compat; lra).
  split; [|split; [|split; [|split; [|]]]].
  - autounfold with se2_dr_exp_db. unfold se2_dr_exp_form, T_cos2, T_sin3. sv_unfold. rewrite ?Hassoc. list_eq; field.
  - autounfold with se2_dr_exp_db. unfold se2_dr_exp_form, K_cos2, K_sin3. sv_unfold. rewrite ?Hassoc. fold th. rewrite <- Hsq.
    list_eq; field; lra.
  - autounfold with se2_dr_exp_db. sv_unfold. rewrite ?Hassoc. unfold eps2 in *. repeat split; lra.
  - pose proof (cos2_trunc th (conj Hth Hle1)) as [L U]. rewrite Hsq in L, U. rewrite ?H6, ?H4 in *. lra.
  - pose proof (sin3_trunc th (conj Hth Hle1)) as [L U]. rewrite Hsq in L, U. rewrite ?H6, ?H4 in *. lra.
Qed.

Definition se2_dl_exp_form (C2 S3 a0 a1 a2 : R) : mat :=
  [[1 + S3 * a2 * a2; C2 * a2; - (C2 * a1) - S3 * a2 * a0]; [- (C2 * a2); 1 + S3 * a2 * a2; C2 * a0 - S3 * a2 * a1]; [0; 0; 1]].

Lemma se2_dl_exp_trunc a0 a1 a2 :
  0 < a2*a2 < eps2 ->
  let th2 := a2*a2 in let th := sqrt th2 in
  Gen.SE2.se2_dl_exp_p0 [a0; a1; a2] = se2_dl_exp_form (T_cos2 th2) (T_sin3 th2) a0 a1 a2 /\
  Gen.SE2.se2_dl_exp_p1 [a0; a1; a2] = se2_dl_exp_form (K_cos2 th) (K_sin3 th) a0 a1 a2 /\
  Gen.SE2.se2_dl_exp_c0 [a0; a1; a2] /\
  0 <= K_cos2 th - T_cos2 th2 <= eps2 * eps2 * eps2 / 40320 /\
  0 <= K_sin3 th - T_sin3 th2 <= eps2 * eps2 * eps2 / 362880.
Proof.
  intros [Hpos Hsmall] th2 th. pose proof eps2_pos as He0. assert (He1 : eps2 < 1 / 99999999) by apply eps2_small.
  assert (Hassoc : a2 * a2 = th2) by (unfold th2; ring).
  assert (Hth : 0 < th) by (apply sqrt_lt_R0; assumption).
  assert (Hsq : th * th = th2) by (apply sqrt_sqrt; unfold th2; lra).
  assert (Hle1 : th <= 1) by (unfold th; rewrite <- sqrt_1; apply sqrt_le_1_alt; lra).
  assert (Hth222 : th2 * th2 * th2 <= eps2 * eps2 * eps2) by (apply Rmult_le_compat; [nra | lra | apply Rmult_le_compat; lra | lra]).
  assert (H6 : th^6 = th2 * th2 * th2) by (rewrite <- Hsq; ring).
  assert (H4 : th^4 = th2 * th2) by (rewrite <- Hsq; ring).
  assert (Hth22 : th2 * th2 <= eps2 * eps2) by (apply Rmult_le_compat; lra).
  split; [|split; [|split; [|split; [|]]]].
  - autounfold with se2_dl_exp_db. unfold se2_dl_exp_form, T_cos2, T_sin3. sv_unfold. rewrite ?Hassoc. list_eq; field.
  - autounfold with se2_dl_exp_db. unfold se2_dl_exp_form, K_cos2, K_sin3. sv_unfold. rewrite ?Hassoc. fold th. rewrite <- Hsq.
    list_eq; field; lra.
  - autounfold with se2_dl_exp_db. sv_unfold. rewrite ?Hassoc. unfold eps2 in *. repeat split; lra.
  - pose proof (cos2_trunc th (conj Hth Hle1)) as [L U]. rewrite Hsq in L, U. rewrite ?H6, ?H4 in *. lra.
  - pose proof (sin3_trunc th (conj Hth Hle1)) as [L U]. rewrite Hsq in L, U. rewrite ?H6, ?H4 in *. lra.
Qed.

Definition se3_dr_exp_form (C2 S3 C4 S5 a0 a1 a2 a3 a4 a5 : R) : mat :=
  [[1 - (- (S3 * a5 * a5) - S3 * a4 * a4); - (C2 * a5) - S3 * a4 * a3; C2 * a4 - S3 * a5 * a3; S3 * (- (- (a5 * a2) - a4 * a1) - (- (a2 * a5) - a1 * a4)) + C4 * (a5 * (a3 * a1) - a4 * (a3 * a2) + (a2 * a3 * a4 - a1 * a3 * a5) - (a0 * a3 + (a1 * a4 + a2 * a5)) * (- (a5 * a5) - a4 * a4)) + S5 * 3 * (a0 * a3 + (a1 * a4 + a2 * a5)) * (- (a5 * a5) - a4 * a4); 1 / 2 * a2 + S3 * (- (a4 * a0) - a1 * a3 + (a0 * a3 + (a1 * a4 + a2 * a5)) * a5) + C4 * (a5 * (- (a5 * a2) - a3 * a0) - a4 * (a4 * a2) + ((- (a2 * a5) - a1 * a4) * a5 - a2 * a3 * a3) + (a0 * a3 + (a1 * a4 + a2 * a5)) * (3 * a5 - a4 * a3)) + S5 * 3 * (a0 * a3 + (a1 * a4 + a2 * a5)) * (a4 * a3); S3 * (- (a5 * a0) - a2 * a3 - (a0 * a3 + (a1 * a4 + a2 * a5)) * a4) - 1 / 2 * a1 + C4 * (a5 * (a5 * a1) - a4 * (- (a4 * a1) - a3 * a0) + (a1 * a3 * a3 - (- (a2 * a5) - a1 * a4) * a4) + (a0 * a3 + (a1 * a4 + a2 * a5)) * (- (3 * a4) - a5 * a3)) + S5 * 3 * (a0 * a3 + (a1 * a4 + a2 * a5)) * (a5 * a3)]; [C2 * a5 - S3 * a3 * a4; 1 - (- (S3 * a5 * a5) - S3 * a3 * a3); - (C2 * a3) - S3 * a5 * a4; S3 * (- (a3 * a1) - a0 * a4 - (a0 * a3 + (a1 * a4 + a2 * a5)) * a5) - 1 / 2 * a2 + C4 * (a3 * (a3 * a2) - a5 * (- (a5 * a2) - a4 * a1) + (a2 * a4 * a4 - (- (a2 * a5) - a0 * a3) * a5) + (a0 * a3 + (a1 * a4 + a2 * a5)) * (- (3 * a5) - a3 * a4)) + S5 * 3 * (a0 * a3 + (a1 * a4 + a2 * a5)) * (a3 * a4); S3 * (- (- (a5 * a2) - a3 * a0) - (- (a2 * a5) - a0 * a3)) + C4 * (a3 * (a4 * a2) - a5 * (a4 * a0) + (a0 * a4 * a5 - a2 * a4 * a3) - (a0 * a3 + (a1 * a4 + a2 * a5)) * (- (a5 * a5) - a3 * a3)) + S5 * 3 * (a0 * a3 + (a1 * a4 + a2 * a5)) * (- (a5 * a5) - a3 * a3); 1 / 2 * a0 + S3 * (- (a5 * a1) - a2 * a4 + (a0 * a3 + (a1 * a4 + a2 * a5)) * a3) + C4 * (a3 * (- (a4 * a1) - a3 * a0) - a5 * (a5 * a0) + ((- (a2 * a5) - a0 * a3) * a3 - a0 * a4 * a4) + (a0 * a3 + (a1 * a4 + a2 * a5)) * (3 * a3 - a5 * a4)) + S5 * 3 * (a0 * a3 + (a1 * a4 + a2 * a5)) * (a5 * a4)]; [- (C2 * a4) - S3 * a3 * a5; C2 * a3 - S3 * a4 * a5; 1 - (- (S3 * a4 * a4) - S3 * a3 * a3); 1 / 2 * a1 + S3 * (- (a3 * a2) - a0 * a5 + (a0 * a3 + (a1 * a4 + a2 * a5)) * a4) + C4 * (a4 * (- (a5 * a2) - a4 * a1) - a3 * (a3 * a1) + ((- (a1 * a4) - a0 * a3) * a4 - a1 * a5 * a5) + (a0 * a3 + (a1 * a4 + a2 * a5)) * (3 * a4 - a3 * a5)) + S5 * 3 * (a0 * a3 + (a1 * a4 + a2 * a5)) * (a3 * a5); S3 * (- (a4 * a2) - a1 * a5 - (a0 * a3 + (a1 * a4 + a2 * a5)) * a3) - 1 / 2 * a0 + C4 * (a4 * (a4 * a0) - a3 * (- (a5 * a2) - a3 * a0) + (a0 * a5 * a5 - (- (a1 * a4) - a0 * a3) * a3) + (a0 * a3 + (a1 * a4 + a2 * a5)) * (- (3 * a3) - a4 * a5)) + S5 * 3 * (a0 * a3 + (a1 * a4 + a2 * a5)) * (a4 * a5); S3 * (- (- (a4 * a1) - a3 * a0) - (- (a1 * a4) - a0 * a3)) + C4 * (a4 * (a5 * a0) - a3 * (a5 * a1) + (a1 * a5 * a3 - a0 * a5 * a4) - (a0 * a3 + (a1 * a4 + a2 * a5)) * (- (a4 * a4) - a3 * a3)) + S5 * 3 * (a0 * a3 + (a1 * a4 + a2 * a5)) * (- (a4 * a4) - a3 * a3)]; [0; 0; 0; 1 - (- (S3 * a5 * a5) - S3 * a4 * a4); - (C2 * a5) - S3 * a4 * a3; C2 * a4 - S3 * a5 * a3]; [0; 0; 0; C2 * a5 - S3 * a3 * a4; 1 - (- (S3 * a5 * a5) - S3 * a3 * a3); - (C2 * a3) - S3 * a5 * a4]; [0; 0; 0; - (C2 * a4) - S3 * a3 * a5; C2 * a3 - S3 * a4 * a5; 1 - (- (S3 * a4 * a4) - S3 * a3 * a3)]].

Lemma se3_dr_exp_trunc a0 a1 a2 a3 a4 a5 :
  0 < a3*a3 + a4*a4 + a5*a5 < eps2 ->
  let th2 := a3*a3 + a4*a4 + a5*a5 in let th := sqrt th2 in
  Gen.SE3.se3_dr_exp_p0 [a0; a1; a2; a3; a4; a5] = se3_dr_exp_form (T_cos2 th2) (T_sin3 th2) (T_cos4 th2) (T_sin5 th2) a0 a1 a2 a3 a4 a5 /\
  Gen.SE3.se3_dr_exp_p1 [a0; a1; a2; a3; a4; a5] = se3_dr_exp_form (K_cos2 th) (K_sin3 th) (K_cos4 th) (K_sin5 th) a0 a1 a2 a3 a4 a5 /\
  Gen.SE3.se3_dr_exp_c0 [a0; a1; a2; a3; a4; a5] /\
  0 <= K_cos2 th - T_cos2 th2 <= eps2 * eps2 * eps2 / 40320 /\
  0 <= K_sin3 th - T_sin3 th2 <= eps2 * eps2 * eps2 / 362880 /\
  - (eps2 * eps2 * eps2 / 3628800) <= K_cos4 th - T_cos4 th2 <= 0 /\
  - (eps2 * eps2 * eps2 / 39916800) <= K_sin5 th - T_sin5 th2 <= 0.
Proof.
  intros [Hpos Hsmall] th2 th. pose proof eps2_pos as He0. assert (He1 : eps2 < 1 / 99999999) by apply eps2_small.
  assert (Hassoc : a3 * a3 + (a4 * a4 + a5 * a5) = th2) by (unfold th2; ring).
  assert (Hth : 0 < th) by (apply sqrt_lt_R0; assumption).
  assert (Hsq : th * th = th2) by (apply sqrt_sqrt; unfold th2; lra).
  assert (Hle1 : th <= 1) by (unfold th; rewrite <- sqrt_1; apply sqrt_le_1_alt; lra).
  assert (Hth222 : th2 * th2 * th2 <= eps2 * eps2 * eps2) by (apply Rmult_le_compat; [nra | lra | apply Rmult_le_compat; lra | lra]).
  assert (H6 : th^6 = th2 * th2 * th2) by (rewrite <- Hsq; ring).
  assert (H4 : th^4 = th2 * th2) by (rewrite <- Hsq; ring).
  assert (Hth22 : th2 * th2 <= eps2 * eps2) by (apply Rmult_le_compat; lra).
  split; [|split; [|split; [|split; [|split; [|split; [|]]]]]].
  - autounfold with se3_dr_exp_db. unfold se3_dr_exp_form, T_cos2, T_sin3, T_cos4, T_sin5. sv_unfold. rewrite ?Hassoc. list_eq; field.
  - autounfold with se3_dr_exp_db. unfold se3_dr_exp_form, K_cos2, K_sin3, K_cos4, K_sin5. sv_unfold. rewrite ?Hassoc. fold th. rewrite <- Hsq.
    list_eq; field; lra.
  - autounfold with se3_dr_exp_db. sv_unfold. rewrite ?Hassoc. unfold eps2 in *. repeat split; lra.
  - pose proof (cos2_trunc th (conj Hth Hle1)) as [L U]. rewrite Hsq in L, U. rewrite ?H6, ?H4 in *. lra.
  - pose proof (sin3_trunc th (conj Hth Hle1)) as [L U]. rewrite Hsq in L, U. rewrite ?H6, ?H4 in *. lra.
  - pose proof (cos4_trunc th (conj Hth Hle1)) as [L U]. rewrite Hsq in L, U. rewrite ?H6, ?H4 in *. lra.
  - pose proof (sin5_trunc th (conj Hth Hle1)) as [L U]. rewrite Hsq in L, U. rewrite ?H6, ?H4 in *. lra.
Qed.

Definition se3_dl_exp_form (C2 S3 C4 S5 a0 a1 a2 a3 a4 a5 : R) : mat :=
  [[1 - (- (S3 * a5 * a5) - S3 * a4 * a4); C2 * a5 - S3 * a4 * a3; - (C2 * a4) - S3 * a5 * a3; S3 * (- (- (a5 * a2) - a4 * a1) - (- (a2 * a5) - a1 * a4)) + C4 * (a4 * (a3 * a2) - a5 * (a3 * a1) + (a1 * a3 * a5 - a2 * a3 * a4) - (a0 * a3 + (a1 * a4 + a2 * a5)) * (- (a5 * a5) - a4 * a4)) + S5 * 3 * (a0 * a3 + (a1 * a4 + a2 * a5)) * (- (a5 * a5) - a4 * a4); S3 * (- (a4 * a0) - a1 * a3 - (a0 * a3 + (a1 * a4 + a2 * a5)) * a5) - 1 / 2 * a2 + C4 * (a4 * (a4 * a2) - a5 * (- (a5 * a2) - a3 * a0) + (a2 * a3 * a3 - (- (a2 * a5) - a1 * a4) * a5) + (a0 * a3 + (a1 * a4 + a2 * a5)) * (- (3 * a5) - a4 * a3)) + S5 * 3 * (a0 * a3 + (a1 * a4 + a2 * a5)) * (a4 * a3); 1 / 2 * a1 + S3 * (- (a5 * a0) - a2 * a3 + (a0 * a3 + (a1 * a4 + a2 * a5)) * a4) + C4 * (a4 * (- (a4 * a1) - a3 * a0) - a5 * (a5 * a1) + ((- (a2 * a5) - a1 * a4) * a4 - a1 * a3 * a3) + (a0 * a3 + (a1 * a4 + a2 * a5)) * (3 * a4 - a5 * a3)) + S5 * 3 * (a0 * a3 + (a1 * a4 + a2 * a5)) * (a5 * a3)]; [- (C2 * a5) - S3 * a3 * a4; 1 - (- (S3 * a5 * a5) - S3 * a3 * a3); C2 * a3 - S3 * a5 * a4; 1 / 2 * a2 + S3 * (- (a3 * a1) - a0 * a4 + (a0 * a3 + (a1 * a4 + a2 * a5)) * a5) + C4 * (a5 * (- (a5 * a2) - a4 * a1) - a3 * (a3 * a2) + ((- (a2 * a5) - a0 * a3) * a5 - a2 * a4 * a4) + (a0 * a3 + (a1 * a4 + a2 * a5)) * (3 * a5 - a3 * a4)) + S5 * 3 * (a0 * a3 + (a1 * a4 + a2 * a5)) * (a3 * a4); S3 * (- (- (a5 * a2) - a3 * a0) - (- (a2 * a5) - a0 * a3)) + C4 * (a5 * (a4 * a0) - a3 * (a4 * a2) + (a2 * a4 * a3 - a0 * a4 * a5) - (a0 * a3 + (a1 * a4 + a2 * a5)) * (- (a5 * a5) - a3 * a3)) + S5 * 3 * (a0 * a3 + (a1 * a4 + a2 * a5)) * (- (a5 * a5) - a3 * a3); S3 * (- (a5 * a1) - a2 * a4 - (a0 * a3 + (a1 * a4 + a2 * a5)) * a3) - 1 / 2 * a0 + C4 * (a5 * (a5 * a0) - a3 * (- (a4 * a1) - a3 * a0) + (a0 * a4 * a4 - (- (a2 * a5) - a0 * a3) * a3) + (a0 * a3 + (a1 * a4 + a2 * a5)) * (- (3 * a3) - a5 * a4)) + S5 * 3 * (a0 * a3 + (a1 * a4 + a2 * a5)) * (a5 * a4)]; [C2 * a4 - S3 * a3 * a5; - (C2 * a3) - S3 * a4 * a5; 1 - (- (S3 * a4 * a4) - S3 * a3 * a3); S3 * (- (a3 * a2) - a0 * a5 - (a0 * a3 + (a1 * a4 + a2 * a5)) * a4) - 1 / 2 * a1 + C4 * (a3 * (a3 * a1) - a4 * (- (a5 * a2) - a4 * a1) + (a1 * a5 * a5 - (- (a1 * a4) - a0 * a3) * a4) + (a0 * a3 + (a1 * a4 + a2 * a5)) * (- (3 * a4) - a3 * a5)) + S5 * 3 * (a0 * a3 + (a1 * a4 + a2 * a5)) * (a3 * a5); 1 / 2 * a0 + S3 * (- (a4 * a2) - a1 * a5 + (a0 * a3 + (a1 * a4 + a2 * a5)) * a3) + C4 * (a3 * (- (a5 * a2) - a3 * a0) - a4 * (a4 * a0) + ((- (a1 * a4) - a0 * a3) * a3 - a0 * a5 * a5) + (a0 * a3 + (a1 * a4 + a2 * a5)) * (3 * a3 - a4 * a5)) + S5 * 3 * (a0 * a3 + (a1 * a4 + a2 * a5)) * (a4 * a5); S3 * (- (- (a4 * a1) - a3 * a0) - (- (a1 * a4) - a0 * a3)) + C4 * (a3 * (a5 * a1) - a4 * (a5 * a0) + (a0 * a5 * a4 - a1 * a5 * a3) - (a0 * a3 + (a1 * a4 + a2 * a5)) * (- (a4 * a4) - a3 * a3)) + S5 * 3 * (a0 * a3 + (a1 * a4 + a2 * a5)) * (- (a4 * a4) - a3 * a3)]; [0; 0; 0; 1 - (- (S3 * a5 * a5) - S3 * a4 * a4); C2 * a5 - S3 * a4 * a3; - (C2 * a4) - S3 * a5 * a3]; [0; 0; 0; - (C2 * a5) - S3 * a3 * a4; 1 - (- (S3 * a5 * a5) - S3 * a3 * a3); C2 * a3 - S3 * a5 * a4]; [0; 0; 0; C2 * a4 - S3 * a3 * a5; - (C2 * a3) - S3 * a4 * a5; 1 - (- (S3 * a4 * a4) - S3 * a3 * a3)]].

Lemma se3_dl_exp_trunc a0 a1 a2 a3 a4 a5 :
  0 < a3*a3 + a4*a4 + a5*a5 < eps2 ->
  let th2 := a3*a3 + a4*a4 + a5*a5 in let th := sqrt th2 in
  Gen.SE3.se3_dl_exp_p0 [a0; a1; a2; a3; a4; a5] = se3_dl_exp_form (T_cos2 th2) (T_sin3 th2) (T_cos4 th2) (T_sin5 th2) a0 a1 a2 a3 a4 a5 /\
  Gen.SE3.se3_dl_exp_p1 [a0; a1; a2; a3; a4; a5] = se3_dl_exp_form (K_cos2 th) (K_sin3 th) (K_cos4 th) (K_sin5 th) a0 a1 a2 a3 a4 a5 /\
  Gen.SE3.se3_dl_exp_c0 [a0; a1; a2; a3; a4; a5] /\
  0 <= K_cos2 th - T_cos2 th2 <= eps2 * eps2 * eps2 / 40320 /\
  0 <= K_sin3 th - T_sin3 th2 <= eps2 * eps2 * eps2 / 362880 /\
  - (eps2 * eps2 * eps2 / 3628800) <= K_cos4 th - T_cos4 th2 <= 0 /\
  - (eps2 * eps2 * eps2 / 39916800) <= K_sin5 th - T_sin5 th2 <= 0.
Proof.
  intros [Hpos Hsmall] th2 th. pose proof eps2_pos as He0. assert (He1 : eps2 < 1 / 99999999) by apply eps2_small.
  assert (Hassoc : a3 * a3 + (a4 * a4 + a5 * a5) = th2) by (unfold th2; ring).
  assert (Hth : 0 < th) by (apply sqrt_lt_R0; assumption).
  assert (Hsq : th * th = th2) by (apply sqrt_sqrt; unfold th2; lra).
  assert (Hle1 : th <= 1) by (unfold th; rewrite <- sqrt_1; apply sqrt_le_1_alt; lra).
  assert (Hth222 : th2 * th2 * th2 <= eps2 * eps2 * eps2) by (apply Rmult_le_compat; [nra | lra | apply Rmult_le_compat; lra | lra]).
  assert (H6 : th^6 = th2 * th2 * th2) by (rewrite <- Hsq; ring).
  assert (H4 : th^4 = th2 * th2) by (rewrite <- Hsq; ring).
  assert (Hth22 : th2 * th2 <= eps2 * eps2) by (apply Rmult_le_compat; lra).
  split; [|split; [|split; [|split; [|split; [|split; [|]]]]]].
  - autounfold with se3_dl_exp_db. unfold se3_dl_exp_form, T_cos2, T_sin3, T_cos4, T_sin5. sv_unfold. rewrite ?Hassoc. list_eq; field.
  - autounfold with se3_dl_exp_db. unfold se3_dl_exp_form, K_cos2, K_sin3, K_cos4, K_sin5. sv_unfold. rewrite ?Hassoc. fold th. rewrite <- Hsq.
    list_eq; field; lra.
  - autounfold with se3_dl_exp_db. sv_unfold. rewrite ?Hassoc. unfold eps2 in *. repeat split; lra.
  - pose proof (cos2_trunc th (conj Hth Hle1)) as [L U]. rewrite Hsq in L, U. rewrite ?H6, ?H4 in *. lra.
  - pose proof (sin3_trunc th (conj Hth Hle1)) as [L U]. rewrite Hsq in L, U. rewrite ?H6, ?H4 in *. lra.
  - pose proof (cos4_trunc th (conj Hth Hle1)) as [L U]. rewrite Hsq in L, U. rewrite ?H6, ?H4 in *. lra.
  - pose proof (sin5_trunc th (conj Hth Hle1)) as [L U]. rewrite Hsq in L, U. rewrite ?H6, ?H4 in *. lra.
Qed.
