(* Written with scripts/author/c05.py (committed output; the check builds this file against
   the freshly generated Gen/SE2.v).  Property C05. *)
From Coq Require Import Reals List Lra.
From SV Require Import Base.GenPrelude Base.Mat Doc.Groups Base.Tactics Gen.SE2.
From Coquelicot Require Import Coquelicot.
From SV Require Import Base.Trig Doc.Exp.
Import ListNotations.
Local Open Scope R_scope.

Lemma se2_dr_exp_closed_path :
  forall a0 a1 a2 out, eps2 < a2 * a2 -> Gen.SE2.se2_dr_exp_rel [a0; a1; a2] out -> out = Gen.SE2.se2_dr_exp_p1 [a0; a1; a2].
Proof.
  intros a0 a1 a2 out Hbig Hrel. unfold eps2 in Hbig.
  rel_cases Hrel; autounfold with se2_dr_exp_db in *; [ | ]; first [ reflexivity | exfalso; revert Hpath; sv_unfold; lra ].
Qed.

Lemma se2_dr_expinv_closed_path :
  forall a0 a1 a2 out, eps2 < a2 * a2 -> Gen.SE2.se2_dr_expinv_rel [a0; a1; a2] out -> out = Gen.SE2.se2_dr_expinv_p0 [a0; a1; a2].
Proof.
  intros a0 a1 a2 out Hbig Hrel. unfold eps2 in Hbig.
  rel_cases Hrel; autounfold with se2_dr_expinv_db in *; [ | ]; first [ reflexivity | exfalso; revert Hpath; sv_unfold; lra ].
Qed.

Lemma se2_d2r_exp_closed_path :
  forall a0 a1 a2 out, eps2 < a2 * a2 -> Gen.SE2.se2_d2r_exp_rel [a0; a1; a2] out -> out = Gen.SE2.se2_d2r_exp_p0 [a0; a1; a2].
Proof.
  intros a0 a1 a2 out Hbig Hrel. unfold eps2 in Hbig.
  rel_cases Hrel; autounfold with se2_d2r_exp_db in *; [ | ]; first [ reflexivity | exfalso; revert Hpath; sv_unfold; lra ].
Qed.

Lemma se2_d2r_expinv_closed_path :
  forall a0 a1 a2 out, eps2 < a2 * a2 -> Gen.SE2.se2_d2r_expinv_rel [a0; a1; a2] out -> out = Gen.SE2.se2_d2r_expinv_p0 [a0; a1; a2].
Proof.
  intros a0 a1 a2 out Hbig Hrel. unfold eps2 in Hbig.
  rel_cases Hrel; autounfold with se2_d2r_expinv_db in *; [ | ]; first [ reflexivity | exfalso; revert Hpath; sv_unfold; lra ].
Qed.

Lemma se2_d2r_exp_is_derivative_0 :
  forall a0 a1 a2 i j, eps2 < a2 * a2 -> (i < 3)%nat -> (j < 3)%nat ->
  is_derive (fun x => mget (Gen.SE2.se2_dr_exp_p1 [x; a1; a2]) i j) a0
            (mget (Gen.SE2.se2_d2r_exp_p0 [a0; a1; a2]) j (3 * i + 0)).
Proof.
  intros a0 a1 a2 i j Hbig Hi Hj. unfold eps2 in Hbig.
  assert (Hne : a2 <> 0) by (intros E; rewrite E, Rmult_0_l in Hbig; lra).
  ij_cases i j; autounfold with se2_dr_exp_db se2_d2r_exp_db; sv_unfold;
  (destruct (Rtotal_order a2 0) as [Hn | [E | Hp]]; [ | contradiction | ]);
  try (assert (Hsn : sin (sqrt (a2 * a2)) <> 0) by (first [ rewrite (sqrt_sq_neg a2) by lra; rewrite sin_neg; lra | rewrite (sqrt_sq_pos a2) by lra; assumption ]));
  (auto_derive; [ nz | ]);
  try (rewrite !(sqrt_sq_pos a2) by lra); try (rewrite !(sqrt_sq_neg a2) by lra); rewrite ?sin_neg, ?cos_neg;
  pose proof (sin2_cos2 a2) as Hsc; unfold Rsqr in Hsc;
  generalize dependent (sin a2); generalize dependent (cos a2); intros C S; intros;
  assert (HC : C * C = 1 - S * S) by lra; field [HC]; nz.
Qed.

Lemma se2_d2r_exp_is_derivative_1 :
  forall a0 a1 a2 i j, eps2 < a2 * a2 -> (i < 3)%nat -> (j < 3)%nat ->
  is_derive (fun x => mget (Gen.SE2.se2_dr_exp_p1 [a0; x; a2]) i j) a1
            (mget (Gen.SE2.se2_d2r_exp_p0 [a0; a1; a2]) j (3 * i + 1)).
Proof.
  intros a0 a1 a2 i j Hbig Hi Hj. unfold eps2 in Hbig.
  assert (Hne : a2 <> 0) by (intros E; rewrite E, Rmult_0_l in Hbig; lra).
  ij_cases i j; autounfold with se2_dr_exp_db se2_d2r_exp_db; sv_unfold;
  (destruct (Rtotal_order a2 0) as [Hn | [E | Hp]]; [ | contradiction | ]);
  try (assert (Hsn : sin (sqrt (a2 * a2)) <> 0) by (first [ rewrite (sqrt_sq_neg a2) by lra; rewrite sin_neg; lra | rewrite (sqrt_sq_pos a2) by lra; assumption ]));
  (auto_derive; [ nz | ]);
  try (rewrite !(sqrt_sq_pos a2) by lra); try (rewrite !(sqrt_sq_neg a2) by lra); rewrite ?sin_neg, ?cos_neg;
  pose proof (sin2_cos2 a2) as Hsc; unfold Rsqr in Hsc;
  generalize dependent (sin a2); generalize dependent (cos a2); intros C S; intros;
  assert (HC : C * C = 1 - S * S) by lra; field [HC]; nz.
Qed.

Lemma se2_d2r_exp_is_derivative_2 :
  forall a0 a1 a2 i j, eps2 < a2 * a2 -> (i < 3)%nat -> (j < 3)%nat ->
  is_derive (fun x => mget (Gen.SE2.se2_dr_exp_p1 [a0; a1; x]) i j) a2
            (mget (Gen.SE2.se2_d2r_exp_p0 [a0; a1; a2]) j (3 * i + 2)).
Proof.
  intros a0 a1 a2 i j Hbig Hi Hj. unfold eps2 in Hbig.
  assert (Hne : a2 <> 0) by (intros E; rewrite E, Rmult_0_l in Hbig; lra).
  ij_cases i j; autounfold with se2_dr_exp_db se2_d2r_exp_db; sv_unfold;
  (destruct (Rtotal_order a2 0) as [Hn | [E | Hp]]; [ | contradiction | ]);
  try (assert (Hsn : sin (sqrt (a2 * a2)) <> 0) by (first [ rewrite (sqrt_sq_neg a2) by lra; rewrite sin_neg; lra | rewrite (sqrt_sq_pos a2) by lra; assumption ]));
  (auto_derive; [ nz | ]);
  try (rewrite !(sqrt_sq_pos a2) by lra); try (rewrite !(sqrt_sq_neg a2) by lra); rewrite ?sin_neg, ?cos_neg;
  pose proof (sin2_cos2 a2) as Hsc; unfold Rsqr in Hsc;
  generalize dependent (sin a2); generalize dependent (cos a2); intros C S; intros;
  assert (HC : C * C = 1 - S * S) by lra; field [HC]; nz.
Qed.

Lemma se2_d2r_expinv_is_derivative_0 :
  forall a0 a1 a2 i j, eps2 < a2 * a2 -> sin a2 <> 0 -> (i < 3)%nat -> (j < 3)%nat ->
  is_derive (fun x => mget (Gen.SE2.se2_dr_expinv_p0 [x; a1; a2]) i j) a0
            (mget (Gen.SE2.se2_d2r_expinv_p0 [a0; a1; a2]) j (3 * i + 0)).
Proof.
  intros a0 a1 a2 i j Hbig Hsin Hi Hj. unfold eps2 in Hbig.
  assert (Hne : a2 <> 0) by (intros E; rewrite E, Rmult_0_l in Hbig; lra).
  ij_cases i j; autounfold with se2_dr_expinv_db se2_d2r_expinv_db; sv_unfold;
  (destruct (Rtotal_order a2 0) as [Hn | [E | Hp]]; [ | contradiction | ]);
  try (assert (Hsn : sin (sqrt (a2 * a2)) <> 0) by (first [ rewrite (sqrt_sq_neg a2) by lra; rewrite sin_neg; lra | rewrite (sqrt_sq_pos a2) by lra; assumption ]));
  (auto_derive; [ nz | ]);
  try (rewrite !(sqrt_sq_pos a2) by lra); try (rewrite !(sqrt_sq_neg a2) by lra); rewrite ?sin_neg, ?cos_neg;
  pose proof (sin2_cos2 a2) as Hsc; unfold Rsqr in Hsc;
  generalize dependent (sin a2); generalize dependent (cos a2); intros C S; intros;
  assert (HC : C * C = 1 - S * S) by lra; field [HC]; nz.
Qed.

Lemma se2_d2r_expinv_is_derivative_1 :
  forall a0 a1 a2 i j, eps2 < a2 * a2 -> sin a2 <> 0 -> (i < 3)%nat -> (j < 3)%nat ->
  is_derive (fun x => mget (Gen.SE2.se2_dr_expinv_p0 [a0; x; a2]) i j) a1
            (mget (Gen.SE2.se2_d2r_expinv_p0 [a0; a1; a2]) j (3 * i + 1)).
Proof.
  intros a0 a1 a2 i j Hbig Hsin Hi Hj. unfold eps2 in Hbig.
  assert (Hne : a2 <> 0) by (intros E; rewrite E, Rmult_0_l in Hbig; lra).
  ij_cases i j; autounfold with se2_dr_expinv_db se2_d2r_expinv_db; sv_unfold;
  (destruct (Rtotal_order a2 0) as [Hn | [E | Hp]]; [ | contradiction | ]);
  try (assert (Hsn : sin (sqrt (a2 * a2)) <> 0) by (first [ rewrite (sqrt_sq_neg a2) by lra; rewrite sin_neg; lra | rewrite (sqrt_sq_pos a2) by lra; assumption ]));
  (auto_derive; [ nz | ]);
  try (rewrite !(sqrt_sq_pos a2) by lra); try (rewrite !(sqrt_sq_neg a2) by lra); rewrite ?sin_neg, ?cos_neg;
  pose proof (sin2_cos2 a2) as Hsc; unfold Rsqr in Hsc;
  generalize dependent (sin a2); generalize dependent (cos a2); intros C S; intros;
  assert (HC : C * C = 1 - S * S) by lra; field [HC]; nz.
Qed.

Lemma se2_d2r_expinv_is_derivative_2 :
  forall a0 a1 a2 i j, eps2 < a2 * a2 -> sin a2 <> 0 -> (i < 3)%nat -> (j < 3)%nat ->
  is_derive (fun x => mget (Gen.SE2.se2_dr_expinv_p0 [a0; a1; x]) i j) a2
            (mget (Gen.SE2.se2_d2r_expinv_p0 [a0; a1; a2]) j (3 * i + 2)).
Proof.
  intros a0 a1 a2 i j Hbig Hsin Hi Hj. unfold eps2 in Hbig.
  assert (Hne : a2 <> 0) by (intros E; rewrite E, Rmult_0_l in Hbig; lra).
  ij_cases i j; autounfold with se2_dr_expinv_db se2_d2r_expinv_db; sv_unfold;
  (destruct (Rtotal_order a2 0) as [Hn | [E | Hp]]; [ | contradiction | ]);
  try (assert (Hsn : sin (sqrt (a2 * a2)) <> 0) by (first [ rewrite (sqrt_sq_neg a2) by lra; rewrite sin_neg; lra | rewrite (sqrt_sq_pos a2) by lra; assumption ]));
  (auto_derive; [ nz | ]);
  try (rewrite !(sqrt_sq_pos a2) by lra); try (rewrite !(sqrt_sq_neg a2) by lra); rewrite ?sin_neg, ?cos_neg;
  pose proof (sin2_cos2 a2) as Hsc; unfold Rsqr in Hsc;
  generalize dependent (sin a2); generalize dependent (cos a2); intros C S; intros;
  assert (HC : C * C = 1 - S * S) by lra; field [HC]; nz.
Qed.

