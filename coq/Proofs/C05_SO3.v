(* Written with scripts/author/c05.py (committed output; the check builds this file against
   the freshly generated Gen/SO3.v).  Property C05. *)
From Coq Require Import Reals List Lra.
From SV Require Import Base.GenPrelude Base.Mat Doc.Groups Base.Tactics Gen.SO3.
From Coquelicot Require Import Coquelicot.
From SV Require Import Base.Trig Doc.Exp.
Import ListNotations.
Local Open Scope R_scope.

Lemma so3_dr_exp_closed_path :
  forall a0 a1 a2 out, eps2 < a0*a0 + a1*a1 + a2*a2 -> Gen.SO3.so3_dr_exp_rel [a0; a1; a2] out -> out = Gen.SO3.so3_dr_exp_p1 [a0; a1; a2].
Proof.
  intros a0 a1 a2 out Hbig Hrel. unfold eps2 in Hbig.
  rel_cases Hrel; autounfold with so3_dr_exp_db in *; [ | ]; first [ reflexivity | exfalso; revert Hpath; sv_unfold; lra ].
Qed.

Lemma so3_dr_expinv_closed_path :
  forall a0 a1 a2 out, eps2 < a0*a0 + a1*a1 + a2*a2 -> Gen.SO3.so3_dr_expinv_rel [a0; a1; a2] out -> out = Gen.SO3.so3_dr_expinv_p0 [a0; a1; a2].
Proof.
  intros a0 a1 a2 out Hbig Hrel. unfold eps2 in Hbig.
  rel_cases Hrel; autounfold with so3_dr_expinv_db in *; [ | ]; first [ reflexivity | exfalso; revert Hpath; sv_unfold; lra ].
Qed.

Lemma so3_d2r_exp_closed_path :
  forall a0 a1 a2 out, eps2 < a0*a0 + a1*a1 + a2*a2 -> Gen.SO3.so3_d2r_exp_rel [a0; a1; a2] out -> out = Gen.SO3.so3_d2r_exp_p0 [a0; a1; a2].
Proof.
  intros a0 a1 a2 out Hbig Hrel. unfold eps2 in Hbig.
  rel_cases Hrel; autounfold with so3_d2r_exp_db in *; [ | ]; first [ reflexivity | exfalso; revert Hpath; sv_unfold; lra ].
Qed.

Lemma so3_d2r_expinv_closed_path :
  forall a0 a1 a2 out, eps2 < a0*a0 + a1*a1 + a2*a2 -> Gen.SO3.so3_d2r_expinv_rel [a0; a1; a2] out -> out = Gen.SO3.so3_d2r_expinv_p0 [a0; a1; a2].
Proof.
  intros a0 a1 a2 out Hbig Hrel. unfold eps2 in Hbig.
  rel_cases Hrel; autounfold with so3_d2r_expinv_db in *; [ | ]; first [ reflexivity | exfalso; revert Hpath; sv_unfold; lra ].
Qed.

Lemma so3_d2r_exp_is_derivative_0 :
  forall a0 a1 a2 i j, eps2 < a0*a0 + a1*a1 + a2*a2 -> (i < 3)%nat -> (j < 3)%nat ->
  is_derive (fun x => mget (Gen.SO3.so3_dr_exp_p1 [x; a1; a2]) i j) a0
            (mget (Gen.SO3.so3_d2r_exp_p0 [a0; a1; a2]) j (3 * i + 0)).
Proof.
  intros a0 a1 a2 i j Hbig Hi Hj. unfold eps2 in Hbig.
  assert (Hassoc : a0 * a0 + (a1 * a1 + a2 * a2) = a0*a0 + a1*a1 + a2*a2) by ring.
  ij_cases i j; autounfold with so3_dr_exp_db so3_d2r_exp_db; sv_unfold;
  (auto_derive; [ rewrite ?Hassoc; nz | ]); rewrite ?Hassoc;
  set (th2 := a0*a0 + a1*a1 + a2*a2) in *; assert (Hpos : 0 < th2) by lra; name_sqrt th2 t; rewrite <- ?Htsq;
  assert (Hz : a2*a2 = t*t - a0*a0 - a1*a1) by (unfold th2 in Htsq; lra);
  pose proof (sin2_cos2 t) as Hsc; unfold Rsqr in Hsc;
  generalize dependent (sin t); generalize dependent (cos t); intros C S; intros;
  assert (HC : C * C = 1 - S * S) by lra; field [HC Hz]; nz.
Qed.

Lemma so3_d2r_exp_is_derivative_1 :
  forall a0 a1 a2 i j, eps2 < a0*a0 + a1*a1 + a2*a2 -> (i < 3)%nat -> (j < 3)%nat ->
  is_derive (fun x => mget (Gen.SO3.so3_dr_exp_p1 [a0; x; a2]) i j) a1
            (mget (Gen.SO3.so3_d2r_exp_p0 [a0; a1; a2]) j (3 * i + 1)).
Proof.
  intros a0 a1 a2 i j Hbig Hi Hj. unfold eps2 in Hbig.
  assert (Hassoc : a0 * a0 + (a1 * a1 + a2 * a2) = a0*a0 + a1*a1 + a2*a2) by ring.
  ij_cases i j; autounfold with so3_dr_exp_db so3_d2r_exp_db; sv_unfold;
  (auto_derive; [ rewrite ?Hassoc; nz | ]); rewrite ?Hassoc;
  set (th2 := a0*a0 + a1*a1 + a2*a2) in *; assert (Hpos : 0 < th2) by lra; name_sqrt th2 t; rewrite <- ?Htsq;
  assert (Hz : a2*a2 = t*t - a0*a0 - a1*a1) by (unfold th2 in Htsq; lra);
  pose proof (sin2_cos2 t) as Hsc; unfold Rsqr in Hsc;
  generalize dependent (sin t); generalize dependent (cos t); intros C S; intros;
  assert (HC : C * C = 1 - S * S) by lra; field [HC Hz]; nz.
Qed.

Lemma so3_d2r_exp_is_derivative_2 :
  forall a0 a1 a2 i j, eps2 < a0*a0 + a1*a1 + a2*a2 -> (i < 3)%nat -> (j < 3)%nat ->
  is_derive (fun x => mget (Gen.SO3.so3_dr_exp_p1 [a0; a1; x]) i j) a2
            (mget (Gen.SO3.so3_d2r_exp_p0 [a0; a1; a2]) j (3 * i + 2)).
Proof.
  intros a0 a1 a2 i j Hbig Hi Hj. unfold eps2 in Hbig.
  assert (Hassoc : a0 * a0 + (a1 * a1 + a2 * a2) = a0*a0 + a1*a1 + a2*a2) by ring.
  ij_cases i j; autounfold with so3_dr_exp_db so3_d2r_exp_db; sv_unfold;
  (auto_derive; [ rewrite ?Hassoc; nz | ]); rewrite ?Hassoc;
  set (th2 := a0*a0 + a1*a1 + a2*a2) in *; assert (Hpos : 0 < th2) by lra; name_sqrt th2 t; rewrite <- ?Htsq;
  assert (Hz : a2*a2 = t*t - a0*a0 - a1*a1) by (unfold th2 in Htsq; lra);
  pose proof (sin2_cos2 t) as Hsc; unfold Rsqr in Hsc;
  generalize dependent (sin t); generalize dependent (cos t); intros C S; intros;
  assert (HC : C * C = 1 - S * S) by lra; field [HC Hz]; nz.
Qed.

Lemma so3_d2r_expinv_is_derivative_0 :
  forall a0 a1 a2 i j, eps2 < a0*a0 + a1*a1 + a2*a2 -> sin (sqrt (a0*a0 + a1*a1 + a2*a2)) <> 0 -> (i < 3)%nat -> (j < 3)%nat ->
  is_derive (fun x => mget (Gen.SO3.so3_dr_expinv_p0 [x; a1; a2]) i j) a0
            (mget (Gen.SO3.so3_d2r_expinv_p0 [a0; a1; a2]) j (3 * i + 0)).
Proof.
  intros a0 a1 a2 i j Hbig Hsin Hi Hj. unfold eps2 in Hbig.
  assert (Hassoc : a0 * a0 + (a1 * a1 + a2 * a2) = a0*a0 + a1*a1 + a2*a2) by ring.
  ij_cases i j; autounfold with so3_dr_expinv_db so3_d2r_expinv_db; sv_unfold;
  (auto_derive; [ rewrite ?Hassoc; nz | ]); rewrite ?Hassoc;
  set (th2 := a0*a0 + a1*a1 + a2*a2) in *; assert (Hpos : 0 < th2) by lra; name_sqrt th2 t; rewrite <- ?Htsq;
  assert (Hz : a2*a2 = t*t - a0*a0 - a1*a1) by (unfold th2 in Htsq; lra);
  pose proof (sin2_cos2 t) as Hsc; unfold Rsqr in Hsc;
  generalize dependent (sin t); generalize dependent (cos t); intros C S; intros;
  assert (HC : C * C = 1 - S * S) by lra; field [HC Hz]; nz.
Qed.

Lemma so3_d2r_expinv_is_derivative_1 :
  forall a0 a1 a2 i j, eps2 < a0*a0 + a1*a1 + a2*a2 -> sin (sqrt (a0*a0 + a1*a1 + a2*a2)) <> 0 -> (i < 3)%nat -> (j < 3)%nat ->
  is_derive (fun x => mget (Gen.SO3.so3_dr_expinv_p0 [a0; x; a2]) i j) a1
            (mget (Gen.SO3.so3_d2r_expinv_p0 [a0; a1; a2]) j (3 * i + 1)).
Proof.
  intros a0 a1 a2 i j Hbig Hsin Hi Hj. unfold eps2 in Hbig.
  assert (Hassoc : a0 * a0 + (a1 * a1 + a2 * a2) = a0*a0 + a1*a1 + a2*a2) by ring.
  ij_cases i j; autounfold with so3_dr_expinv_db so3_d2r_expinv_db; sv_unfold;
  (auto_derive; [ rewrite ?Hassoc; nz | ]); rewrite ?Hassoc;
  set (th2 := a0*a0 + a1*a1 + a2*a2) in *; assert (Hpos : 0 < th2) by lra; name_sqrt th2 t; rewrite <- ?Htsq;
  assert (Hz : a2*a2 = t*t - a0*a0 - a1*a1) by (unfold th2 in Htsq; lra);
  pose proof (sin2_cos2 t) as Hsc; unfold Rsqr in Hsc;
  generalize dependent (sin t); generalize dependent (cos t); intros C S; intros;
  assert (HC : C * C = 1 - S * S) by lra; field [HC Hz]; nz.
Qed.

Lemma so3_d2r_expinv_is_derivative_2 :
  forall a0 a1 a2 i j, eps2 < a0*a0 + a1*a1 + a2*a2 -> sin (sqrt (a0*a0 + a1*a1 + a2*a2)) <> 0 -> (i < 3)%nat -> (j < 3)%nat ->
  is_derive (fun x => mget (Gen.SO3.so3_dr_expinv_p0 [a0; a1; x]) i j) a2
            (mget (Gen.SO3.so3_d2r_expinv_p0 [a0; a1; a2]) j (3 * i + 2)).
Proof.
  intros a0 a1 a2 i j Hbig Hsin Hi Hj. unfold eps2 in Hbig.
  assert (Hassoc : a0 * a0 + (a1 * a1 + a2 * a2) = a0*a0 + a1*a1 + a2*a2) by ring.
  ij_cases i j; autounfold with so3_dr_expinv_db so3_d2r_expinv_db; sv_unfold;
  (auto_derive; [ rewrite ?Hassoc; nz | ]); rewrite ?Hassoc;
  set (th2 := a0*a0 + a1*a1 + a2*a2) in *; assert (Hpos : 0 < th2) by lra; name_sqrt th2 t; rewrite <- ?Htsq;
  assert (Hz : a2*a2 = t*t - a0*a0 - a1*a1) by (unfold th2 in Htsq; lra);
  pose proof (sin2_cos2 t) as Hsc; unfold Rsqr in Hsc;
  generalize dependent (sin t); generalize dependent (cos t); intros C S; intros;
  assert (HC : C * C = 1 - S * S) by lra; field [HC Hz]; nz.
Qed.

