(* C05: series side of the switch for the SE2 d2r_exp Hessian table.  Both paths of the traced function are the same
   3x9 table in the four kernel values (A, B, dA/dwz, dB/dwz): the series path with the Taylor polynomials
   (1/2 - z^2/24, fl(1/6) - z^2/120, -z/12, -z/60), the closed-form path with the closed forms, and the kernel values
   differ by at most z^4/720, z^4/5040 + 1e-17, |z|^3/170, |z|^3/1200 (Base/KernelH.v).  A changed series coefficient
   (such as the -wz/48 that this check originally found) breaks the first equation. *)
From Coq Require Import Reals List Lra Lia.
From SV Require Import Base.GenPrelude Base.Mat Doc.Groups Base.Tactics Base.Trig Base.Kernels Base.KernelH.
From SV Require Gen.SE2 Gen.SO3.
Import ListNotations.
Local Open Scope R_scope.

(* the documented table: -A d(ad) + B d(ad^2) - dA ad + dB ad^2, columns 3j+k *)
Definition se2_hess_form (A B dA dB x y z : R) : mat :=
  [[0; 0; - 2*B*z - dB*(z*z); 0; 0; - A - dA*z; 0; 0; 0];
   [0; 0; A + dA*z; 0; 0; - 2*B*z - dB*(z*z); 0; 0; 0];
   [B*z; - A; B*x - dA*y + dB*(z*x); A; B*z; B*y + dA*x + dB*(z*y); 0; 0; 0]].

Section SE2.
Import Gen.SE2.
Lemma se2_d2r_exp_trunc a0 a1 a2 :
  0 < a2*a2 < eps2 ->
  se2_d2r_exp_p1 [a0; a1; a2] = se2_hess_form (tA (a2*a2)) (tB (a2*a2)) (tdA a2) (tdB a2) a0 a1 a2 /\
  se2_d2r_exp_p0 [a0; a1; a2] = se2_hess_form (kA a2) (kB a2) (kdA a2) (kdB a2) a0 a1 a2 /\
  se2_d2r_exp_c1 [a0; a1; a2] /\
  Rabs (kA a2 - tA (a2*a2)) <= eps2 * eps2 / 720 /\
  Rabs (kB a2 - tB (a2*a2)) <= eps2 * eps2 / 5040 + 1 / 100000000000000000 /\
  Rabs (kdA a2 - tdA a2) <= eps2 / 1000000 /\
  Rabs (kdB a2 - tdB a2) <= eps2 / 10000000.
Proof.
  intros [Hpos Hsmall]. pose proof eps2_pos as He0. assert (He1 : eps2 < 1 / 99999999) by apply eps2_small.
  assert (Hz : a2 <> 0) by (intros ->; lra).
  assert (Hz1 : Rabs a2 <= 1 / 9999).
  { apply Rabs_le. split; nra. }
  destruct (hess_kernels_trunc a2 Hz ltac:(lra)) as (KA & KB & KdA & KdB).
  assert (H22 : (a2*a2)*(a2*a2) <= eps2 * eps2) by (apply Rmult_le_compat; lra).
  assert (Habs : 0 <= Rabs a2) by apply Rabs_pos.
  assert (H3 : Rabs a2 * (a2*a2) <= 1 / 9999 * eps2) by (apply Rmult_le_compat; [assumption | nra | assumption | lra]).
  split; [|split; [|split; [|split; [|split; [|split]]]]].
  - autounfold with se2_d2r_exp_db. unfold se2_hess_form, tA, tB, tdA, tdB, c6. sv_unfold. list_eq; field.
  - autounfold with se2_d2r_exp_db. unfold se2_hess_form, kA, kB, kdA, kdB. sv_unfold. list_eq; field; assumption.
  - autounfold with se2_d2r_exp_db. sv_unfold. unfold eps2 in *. lra.
  - lra.
  - lra.
  - lra.
  - lra.
Qed.
End SE2.

(* ---- SO3: `so3_hess_form` is the closed-form path of the traced function with its four kernel expressions abstracted
   (obtained from the generated model; the closed-form path itself is proved to be the true Hessian in C05_SO3.v) *)
Definition so3_hess_form (A B dA dB a0 a1 a2 : R) : mat :=
  [[dB * a0 * (- (a2 * a2) - a1 * a1); -2 * B * a1 + dB * a1 * (- (a2 * a2) - a1 * a1); -2 * B * a2 + dB * a2 * (- (a2 * a2) - a1 * a1); B * a1 - dA * a0 * a2 + dB * a0 * (a0 * a1); B * a0 - dA * a1 * a2 + dB * a1 * (a0 * a1); - A - dA * a2 * a2 + dB * a2 * (a0 * a1); B * a2 + dA * a0 * a1 + dB * a0 * (a0 * a2); A + dA * a1 * a1 + dB * a1 * (a0 * a2); B * a0 + dA * a2 * a1 + dB * a2 * (a0 * a2)]; [B * a1 + dA * a0 * a2 + dB * a0 * (a1 * a0); B * a0 + dA * a1 * a2 + dB * a1 * (a1 * a0); A + dA * a2 * a2 + dB * a2 * (a1 * a0); -2 * B * a0 + dB * a0 * (- (a2 * a2) - a0 * a0); dB * a1 * (- (a2 * a2) - a0 * a0); -2 * B * a2 + dB * a2 * (- (a2 * a2) - a0 * a0); - A - dA * a0 * a0 + dB * a0 * (a1 * a2); B * a2 - dA * a1 * a0 + dB * a1 * (a1 * a2); B * a1 - dA * a2 * a0 + dB * a2 * (a1 * a2)]; [B * a2 - dA * a0 * a1 + dB * a0 * (a2 * a0); - A - dA * a1 * a1 + dB * a1 * (a2 * a0); B * a0 - dA * a2 * a1 + dB * a2 * (a2 * a0); A + dA * a0 * a0 + dB * a0 * (a2 * a1); B * a2 + dA * a1 * a0 + dB * a1 * (a2 * a1); B * a1 + dA * a2 * a0 + dB * a2 * (a2 * a1); -2 * B * a0 + dB * a0 * (- (a1 * a1) - a0 * a0); -2 * B * a1 + dB * a1 * (- (a1 * a1) - a0 * a0); dB * a2 * (- (a1 * a1) - a0 * a0)]].

Section SO3.
Import Gen.SO3.
Lemma so3_d2r_exp_trunc a0 a1 a2 :
  0 < a0*a0 + a1*a1 + a2*a2 < eps2 ->
  let th2 := a0*a0 + a1*a1 + a2*a2 in let th := sqrt th2 in
  so3_d2r_exp_p1 [a0; a1; a2] = so3_hess_form (tA th2) (tB th2) (- 1 / 12) (- 1 / 60) a0 a1 a2 /\
  so3_d2r_exp_p0 [a0; a1; a2] = so3_hess_form (kA th) (kB th) (kdA th / th) (kdB th / th) a0 a1 a2 /\
  so3_d2r_exp_c1 [a0; a1; a2] /\
  Rabs (kA th - tA th2) <= eps2 * eps2 / 720 /\
  Rabs (kB th - tB th2) <= eps2 * eps2 / 5040 + 1 / 100000000000000000 /\
  Rabs (kdA th / th - (- 1 / 12)) <= eps2 / 170 /\
  Rabs (kdB th / th - (- 1 / 60)) <= eps2 / 1200.
Proof.
  intros [Hpos Hsmall] th2 th. pose proof eps2_pos as He0. assert (He1 : eps2 < 1 / 99999999) by apply eps2_small.
  assert (Hassoc : a0 * a0 + (a1 * a1 + a2 * a2) = th2) by (unfold th2; ring).
  assert (Hth : 0 < th) by (apply sqrt_lt_R0; assumption).
  assert (Hsq : th * th = th2) by (apply sqrt_sqrt; unfold th2; lra).
  assert (Hle1 : th <= 1) by (unfold th; rewrite <- sqrt_1; apply sqrt_le_1_alt; lra).
  pose proof (kA_trunc th (conj Hth Hle1)) as [A1 A2]. pose proof (kB_trunc th (conj Hth Hle1)) as [B1 B2].
  pose proof (kdA_trunc th (conj Hth Hle1)) as [C1 C2]. pose proof (kdB_trunc th (conj Hth Hle1)) as [D1 D2].
  pose proof c6_close as Hc6.
  assert (H4 : th^4 = th2 * th2) by (rewrite <- Hsq; ring).
  assert (H3 : th^3 = th * th2) by (rewrite <- Hsq; ring).
  assert (H22 : th2 * th2 <= eps2 * eps2) by (apply Rmult_le_compat; lra).
  split; [|split; [|split; [|split; [|split; [|split]]]]].
  - autounfold with so3_d2r_exp_db. unfold so3_hess_form, tA, tB, c6. sv_unfold. rewrite ?Hassoc. list_eq; field.
  - autounfold with so3_d2r_exp_db. unfold so3_hess_form, kA, kB, kdA, kdB. sv_unfold. rewrite ?Hassoc. fold th. rewrite <- Hsq.
    list_eq; field; lra.
  - autounfold with so3_d2r_exp_db. sv_unfold. rewrite ?Hassoc. unfold eps2 in *. lra.
  - rewrite Hsq in A1, A2. rewrite H4 in A2. apply Rabs_le. lra.
  - rewrite H4 in B2. unfold tB. apply Rabs_le. lra.
  - replace (kdA th / th - (- 1 / 12)) with ((kdA th - tdA th) / th) by (unfold tdA; field; lra).
    apply Rabs_le. assert (0 <= (kdA th - tdA th) / th <= eps2 / 170); [|lra].
    apply div_between; [assumption|]. split; [lra|]. rewrite H3 in C2. nra.
  - replace (kdB th / th - (- 1 / 60)) with ((kdB th - tdB th) / th) by (unfold tdB; field; lra).
    apply Rabs_le. assert (0 <= (kdB th - tdB th) / th <= eps2 / 1200); [|lra].
    apply div_between; [assumption|]. split; [lra|]. rewrite H3 in D2. nra.
Qed.
End SO3.
