(* Written with scripts/author/c06.py (committed output; the check builds this file against
   the freshly generated Gen/BA.v).  Property C06. *)
From Coq Require Import Reals List Lra.
From SV Require Import Base.GenPrelude Base.Mat Doc.Groups Base.Tactics Gen.BA Gen.SO3 Gen.Rn.
Import ListNotations.
Local Open Scope R_scope.

Lemma ba_comp_parts :
  forall g0 g1 g2 g3 g4 g5 g6 h0 h1 h2 h3 h4 h5 h6 out,
  Gen.BA.ba_comp_rel [g0; g1; g2; g3; g4; g5; g6] [h0; h1; h2; h3; h4; h5; h6] out ->
  exists o0 o1,
    Gen.SO3.so3_comp_rel [g0; g1; g2; g3] [h0; h1; h2; h3] o0 /\
    Gen.Rn.v3_comp_rel [g4; g5; g6] [h4; h5; h6] o1 /\
    out = o0 ++ o1.
Proof.
  intros g0 g1 g2 g3 g4 g5 g6 h0 h1 h2 h3 h4 h5 h6 out Hrel. rel_cases Hrel;
  eexists; eexists;
  (split; [rel_pick ltac:(revert Hpath; autounfold with ba_comp_db so3_comp_db v3_comp_db; mat_unfold2; cbv zeta)|]);
  (split; [rel_pick ltac:(revert Hpath; autounfold with ba_comp_db so3_comp_db v3_comp_db; mat_unfold2; cbv zeta)|]);
  autounfold with ba_comp_db so3_comp_db v3_comp_db; mat_unfold2; cbv zeta; reflexivity.
Qed.

Lemma ba_inv_parts :
  forall g0 g1 g2 g3 g4 g5 g6 out,
  Gen.BA.ba_inv_rel [g0; g1; g2; g3; g4; g5; g6] out ->
  exists o0 o1,
    Gen.SO3.so3_inv_rel [g0; g1; g2; g3] o0 /\
    Gen.Rn.v3_inv_rel [g4; g5; g6] o1 /\
    out = o0 ++ o1.
Proof.
  intros g0 g1 g2 g3 g4 g5 g6 out Hrel. rel_cases Hrel;
  eexists; eexists;
  (split; [rel_pick ltac:(revert Hpath; autounfold with ba_inv_db so3_inv_db v3_inv_db; mat_unfold2; cbv zeta)|]);
  (split; [rel_pick ltac:(revert Hpath; autounfold with ba_inv_db so3_inv_db v3_inv_db; mat_unfold2; cbv zeta)|]);
  autounfold with ba_inv_db so3_inv_db v3_inv_db; mat_unfold2; cbv zeta; reflexivity.
Qed.

Lemma ba_log_parts :
  forall g0 g1 g2 g3 g4 g5 g6 out,
  Gen.BA.ba_log_rel [g0; g1; g2; g3; g4; g5; g6] out ->
  exists o0 o1,
    Gen.SO3.so3_log_rel [g0; g1; g2; g3] o0 /\
    Gen.Rn.v3_log_rel [g4; g5; g6] o1 /\
    out = o0 ++ o1.
Proof.
  intros g0 g1 g2 g3 g4 g5 g6 out Hrel. rel_cases Hrel;
  eexists; eexists;
  (split; [rel_pick ltac:(revert Hpath; autounfold with ba_log_db so3_log_db v3_log_db; mat_unfold2; cbv zeta)|]);
  (split; [rel_pick ltac:(revert Hpath; autounfold with ba_log_db so3_log_db v3_log_db; mat_unfold2; cbv zeta)|]);
  autounfold with ba_log_db so3_log_db v3_log_db; mat_unfold2; cbv zeta; reflexivity.
Qed.

Lemma ba_exp_parts :
  forall a0 a1 a2 a3 a4 a5 out,
  Gen.BA.ba_exp_rel [a0; a1; a2; a3; a4; a5] out ->
  exists o0 o1,
    Gen.SO3.so3_exp_rel [a0; a1; a2] o0 /\
    Gen.Rn.v3_exp_rel [a3; a4; a5] o1 /\
    out = o0 ++ o1.
Proof.
  intros a0 a1 a2 a3 a4 a5 out Hrel. rel_cases Hrel;
  eexists; eexists;
  (split; [rel_pick ltac:(revert Hpath; autounfold with ba_exp_db so3_exp_db v3_exp_db; mat_unfold2; cbv zeta)|]);
  (split; [rel_pick ltac:(revert Hpath; autounfold with ba_exp_db so3_exp_db v3_exp_db; mat_unfold2; cbv zeta)|]);
  autounfold with ba_exp_db so3_exp_db v3_exp_db; mat_unfold2; cbv zeta; reflexivity.
Qed.

Lemma ba_Ad_parts :
  forall g0 g1 g2 g3 g4 g5 g6 out,
  Gen.BA.ba_Ad_rel [g0; g1; g2; g3; g4; g5; g6] out ->
  exists o0 o1,
    Gen.SO3.so3_Ad_rel [g0; g1; g2; g3] o0 /\
    Gen.Rn.v3_Ad_rel [g4; g5; g6] o1 /\
    out = blockdiag [o0; o1].
Proof.
  intros g0 g1 g2 g3 g4 g5 g6 out Hrel. rel_cases Hrel;
  eexists; eexists;
  (split; [rel_pick ltac:(revert Hpath; autounfold with ba_Ad_db so3_Ad_db v3_Ad_db; mat_unfold2; cbv zeta)|]);
  (split; [rel_pick ltac:(revert Hpath; autounfold with ba_Ad_db so3_Ad_db v3_Ad_db; mat_unfold2; cbv zeta)|]);
  autounfold with ba_Ad_db so3_Ad_db v3_Ad_db; mat_unfold2; cbv zeta; reflexivity.
Qed.

Lemma ba_ad_parts :
  forall a0 a1 a2 a3 a4 a5 out,
  Gen.BA.ba_ad_rel [a0; a1; a2; a3; a4; a5] out ->
  exists o0 o1,
    Gen.SO3.so3_ad_rel [a0; a1; a2] o0 /\
    Gen.Rn.v3_ad_rel [a3; a4; a5] o1 /\
    out = blockdiag [o0; o1].
Proof.
  intros a0 a1 a2 a3 a4 a5 out Hrel. rel_cases Hrel;
  eexists; eexists;
  (split; [rel_pick ltac:(revert Hpath; autounfold with ba_ad_db so3_ad_db v3_ad_db; mat_unfold2; cbv zeta)|]);
  (split; [rel_pick ltac:(revert Hpath; autounfold with ba_ad_db so3_ad_db v3_ad_db; mat_unfold2; cbv zeta)|]);
  autounfold with ba_ad_db so3_ad_db v3_ad_db; mat_unfold2; cbv zeta; reflexivity.
Qed.

Lemma ba_dr_exp_parts :
  forall a0 a1 a2 a3 a4 a5 out,
  Gen.BA.ba_dr_exp_rel [a0; a1; a2; a3; a4; a5] out ->
  exists o0 o1,
    Gen.SO3.so3_dr_exp_rel [a0; a1; a2] o0 /\
    Gen.Rn.v3_dr_exp_rel [a3; a4; a5] o1 /\
    out = blockdiag [o0; o1].
Proof.
  intros a0 a1 a2 a3 a4 a5 out Hrel. rel_cases Hrel;
  eexists; eexists;
  (split; [rel_pick ltac:(revert Hpath; autounfold with ba_dr_exp_db so3_dr_exp_db v3_dr_exp_db; mat_unfold2; cbv zeta)|]);
  (split; [rel_pick ltac:(revert Hpath; autounfold with ba_dr_exp_db so3_dr_exp_db v3_dr_exp_db; mat_unfold2; cbv zeta)|]);
  autounfold with ba_dr_exp_db so3_dr_exp_db v3_dr_exp_db; mat_unfold2; cbv zeta; reflexivity.
Qed.

Lemma ba_dr_expinv_parts :
  forall a0 a1 a2 a3 a4 a5 out,
  Gen.BA.ba_dr_expinv_rel [a0; a1; a2; a3; a4; a5] out ->
  exists o0 o1,
    Gen.SO3.so3_dr_expinv_rel [a0; a1; a2] o0 /\
    Gen.Rn.v3_dr_expinv_rel [a3; a4; a5] o1 /\
    out = blockdiag [o0; o1].
Proof.
  intros a0 a1 a2 a3 a4 a5 out Hrel. rel_cases Hrel;
  eexists; eexists;
  (split; [rel_pick ltac:(revert Hpath; autounfold with ba_dr_expinv_db so3_dr_expinv_db v3_dr_expinv_db; mat_unfold2; cbv zeta)|]);
  (split; [rel_pick ltac:(revert Hpath; autounfold with ba_dr_expinv_db so3_dr_expinv_db v3_dr_expinv_db; mat_unfold2; cbv zeta)|]);
  autounfold with ba_dr_expinv_db so3_dr_expinv_db v3_dr_expinv_db; mat_unfold2; cbv zeta; reflexivity.
Qed.

Lemma ba_d2r_exp_parts :
  forall a0 a1 a2 a3 a4 a5 out,
  Gen.BA.ba_d2r_exp_rel [a0; a1; a2; a3; a4; a5] out ->
  exists o0 o1,
    Gen.SO3.so3_d2r_exp_rel [a0; a1; a2] o0 /\
    Gen.Rn.v3_d2r_exp_rel [a3; a4; a5] o1 /\
    out = bundle_hess [o0; o1].
Proof.
  intros a0 a1 a2 a3 a4 a5 out Hrel. rel_cases Hrel;
  eexists; eexists;
  (split; [rel_pick ltac:(revert Hpath; autounfold with ba_d2r_exp_db so3_d2r_exp_db v3_d2r_exp_db; mat_unfold2; cbv zeta)|]);
  (split; [rel_pick ltac:(revert Hpath; autounfold with ba_d2r_exp_db so3_d2r_exp_db v3_d2r_exp_db; mat_unfold2; cbv zeta)|]);
  autounfold with ba_d2r_exp_db so3_d2r_exp_db v3_d2r_exp_db; mat_unfold2; cbv zeta; reflexivity.
Qed.

Lemma ba_d2r_expinv_parts :
  forall a0 a1 a2 a3 a4 a5 out,
  Gen.BA.ba_d2r_expinv_rel [a0; a1; a2; a3; a4; a5] out ->
  exists o0 o1,
    Gen.SO3.so3_d2r_expinv_rel [a0; a1; a2] o0 /\
    Gen.Rn.v3_d2r_expinv_rel [a3; a4; a5] o1 /\
    out = bundle_hess [o0; o1].
Proof.
  intros a0 a1 a2 a3 a4 a5 out Hrel. rel_cases Hrel;
  eexists; eexists;
  (split; [rel_pick ltac:(revert Hpath; autounfold with ba_d2r_expinv_db so3_d2r_expinv_db v3_d2r_expinv_db; mat_unfold2; cbv zeta)|]);
  (split; [rel_pick ltac:(revert Hpath; autounfold with ba_d2r_expinv_db so3_d2r_expinv_db v3_d2r_expinv_db; mat_unfold2; cbv zeta)|]);
  autounfold with ba_d2r_expinv_db so3_d2r_expinv_db v3_d2r_expinv_db; mat_unfold2; cbv zeta; reflexivity.
Qed.

Lemma ba_identity_parts :
  forall out, Gen.BA.ba_identity_rel out ->
  exists o0 o1,
    Gen.SO3.so3_identity_rel o0 /\
    Gen.Rn.v3_identity_rel o1 /\
    out = o0 ++ o1.
Proof.
  intros out Hrel. rel_cases Hrel;
  eexists; eexists;
  (split; [rel_pick ltac:(revert Hpath; autounfold with ba_identity_db so3_identity_db v3_identity_db; mat_unfold2; cbv zeta)|]);
  (split; [rel_pick ltac:(revert Hpath; autounfold with ba_identity_db so3_identity_db v3_identity_db; mat_unfold2; cbv zeta)|]);
  autounfold with ba_identity_db so3_identity_db v3_identity_db; mat_unfold2; cbv zeta; reflexivity.
Qed.

Lemma ba_part0_view :
  forall g0 g1 g2 g3 g4 g5 g6 out,
  Gen.BA.ba_part0_rel [g0; g1; g2; g3; g4; g5; g6] out ->
  out = [g0; g1; g2; g3] /\ out = vslice [g0; g1; g2; g3; g4; g5; g6] (nth 0 (psum [4%nat; 3%nat]) 0%nat) 4%nat.
Proof.
  intros g0 g1 g2 g3 g4 g5 g6 out Hrel. rel_cases Hrel. autounfold with ba_part0_db. mat_unfold2. cbv zeta. split; reflexivity.
Qed.

Lemma ba_part1_view :
  forall g0 g1 g2 g3 g4 g5 g6 out,
  Gen.BA.ba_part1_rel [g0; g1; g2; g3; g4; g5; g6] out ->
  out = [g4; g5; g6] /\ out = vslice [g0; g1; g2; g3; g4; g5; g6] (nth 1 (psum [4%nat; 3%nat]) 0%nat) 3%nat.
Proof.
  intros g0 g1 g2 g3 g4 g5 g6 out Hrel. rel_cases Hrel. autounfold with ba_part1_db. mat_unfold2. cbv zeta. split; reflexivity.
Qed.

