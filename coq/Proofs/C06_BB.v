(* Written with scripts/author/c06.py (committed output; the check builds this file against
   the freshly generated Gen/BB.v).  Property C06. *)
From Coq Require Import Reals List Lra.
From SV Require Import Base.GenPrelude Base.Mat Doc.Groups Base.Tactics Gen.BB Gen.Rn Gen.SE2.
Import ListNotations.
Local Open Scope R_scope.

Lemma bb_comp_parts :
  forall g0 g1 g2 g3 g4 g5 h0 h1 h2 h3 h4 h5 out,
  Gen.BB.bb_comp_rel [g0; g1; g2; g3; g4; g5] [h0; h1; h2; h3; h4; h5] out ->
  exists o0 o1,
    Gen.Rn.v2_comp_rel [g0; g1] [h0; h1] o0 /\
    Gen.SE2.se2_comp_rel [g2; g3; g4; g5] [h2; h3; h4; h5] o1 /\
    out = o0 ++ o1.
Proof.
  intros g0 g1 g2 g3 g4 g5 h0 h1 h2 h3 h4 h5 out Hrel. rel_cases Hrel;
  eexists; eexists;
  (split; [rel_pick ltac:(revert Hpath; autounfold with bb_comp_db se2_comp_db v2_comp_db; mat_unfold2; cbv zeta)|]);
  (split; [rel_pick ltac:(revert Hpath; autounfold with bb_comp_db se2_comp_db v2_comp_db; mat_unfold2; cbv zeta)|]);
  autounfold with bb_comp_db se2_comp_db v2_comp_db; mat_unfold2; cbv zeta; reflexivity.
Qed.

Lemma bb_inv_parts :
  forall g0 g1 g2 g3 g4 g5 out,
  Gen.BB.bb_inv_rel [g0; g1; g2; g3; g4; g5] out ->
  exists o0 o1,
    Gen.Rn.v2_inv_rel [g0; g1] o0 /\
    Gen.SE2.se2_inv_rel [g2; g3; g4; g5] o1 /\
    out = o0 ++ o1.
Proof.
  intros g0 g1 g2 g3 g4 g5 out Hrel. rel_cases Hrel;
  eexists; eexists;
  (split; [rel_pick ltac:(revert Hpath; autounfold with bb_inv_db se2_inv_db v2_inv_db; mat_unfold2; cbv zeta)|]);
  (split; [rel_pick ltac:(revert Hpath; autounfold with bb_inv_db se2_inv_db v2_inv_db; mat_unfold2; cbv zeta)|]);
  autounfold with bb_inv_db se2_inv_db v2_inv_db; mat_unfold2; cbv zeta; reflexivity.
Qed.

Lemma bb_log_parts :
  forall g0 g1 g2 g3 g4 g5 out,
  Gen.BB.bb_log_rel [g0; g1; g2; g3; g4; g5] out ->
  exists o0 o1,
    Gen.Rn.v2_log_rel [g0; g1] o0 /\
    Gen.SE2.se2_log_rel [g2; g3; g4; g5] o1 /\
    out = o0 ++ o1.
Proof.
  intros g0 g1 g2 g3 g4 g5 out Hrel. rel_cases Hrel;
  eexists; eexists;
  (split; [rel_pick ltac:(revert Hpath; autounfold with bb_log_db se2_log_db v2_log_db; mat_unfold2; cbv zeta)|]);
  (split; [rel_pick ltac:(revert Hpath; autounfold with bb_log_db se2_log_db v2_log_db; mat_unfold2; cbv zeta)|]);
  autounfold with bb_log_db se2_log_db v2_log_db; mat_unfold2; cbv zeta; reflexivity.
Qed.

Lemma bb_exp_parts :
  forall a0 a1 a2 a3 a4 out,
  Gen.BB.bb_exp_rel [a0; a1; a2; a3; a4] out ->
  exists o0 o1,
    Gen.Rn.v2_exp_rel [a0; a1] o0 /\
    Gen.SE2.se2_exp_rel [a2; a3; a4] o1 /\
    out = o0 ++ o1.
Proof.
  intros a0 a1 a2 a3 a4 out Hrel. rel_cases Hrel;
  eexists; eexists;
  (split; [rel_pick ltac:(revert Hpath; autounfold with bb_exp_db se2_exp_db v2_exp_db; mat_unfold2; cbv zeta)|]);
  (split; [rel_pick ltac:(revert Hpath; autounfold with bb_exp_db se2_exp_db v2_exp_db; mat_unfold2; cbv zeta)|]);
  autounfold with bb_exp_db se2_exp_db v2_exp_db; mat_unfold2; cbv zeta; reflexivity.
Qed.

Lemma bb_Ad_parts :
  forall g0 g1 g2 g3 g4 g5 out,
  Gen.BB.bb_Ad_rel [g0; g1; g2; g3; g4; g5] out ->
  exists o0 o1,
    Gen.Rn.v2_Ad_rel [g0; g1] o0 /\
    Gen.SE2.se2_Ad_rel [g2; g3; g4; g5] o1 /\
    out = blockdiag [o0; o1].
Proof.
  intros g0 g1 g2 g3 g4 g5 out Hrel. rel_cases Hrel;
  eexists; eexists;
  (split; [rel_pick ltac:(revert Hpath; autounfold with bb_Ad_db se2_Ad_db v2_Ad_db; mat_unfold2; cbv zeta)|]);
  (split; [rel_pick ltac:(revert Hpath; autounfold with bb_Ad_db se2_Ad_db v2_Ad_db; mat_unfold2; cbv zeta)|]);
  autounfold with bb_Ad_db se2_Ad_db v2_Ad_db; mat_unfold2; cbv zeta; reflexivity.
Qed.

Lemma bb_ad_parts :
  forall a0 a1 a2 a3 a4 out,
  Gen.BB.bb_ad_rel [a0; a1; a2; a3; a4] out ->
  exists o0 o1,
    Gen.Rn.v2_ad_rel [a0; a1] o0 /\
    Gen.SE2.se2_ad_rel [a2; a3; a4] o1 /\
    out = blockdiag [o0; o1].
Proof.
  intros a0 a1 a2 a3 a4 out Hrel. rel_cases Hrel;
  eexists; eexists;
  (split; [rel_pick ltac:(revert Hpath; autounfold with bb_ad_db se2_ad_db v2_ad_db; mat_unfold2; cbv zeta)|]);
  (split; [rel_pick ltac:(revert Hpath; autounfold with bb_ad_db se2_ad_db v2_ad_db; mat_unfold2; cbv zeta)|]);
  autounfold with bb_ad_db se2_ad_db v2_ad_db; mat_unfold2; cbv zeta; reflexivity.
Qed.

Lemma bb_dr_exp_parts :
  forall a0 a1 a2 a3 a4 out,
  Gen.BB.bb_dr_exp_rel [a0; a1; a2; a3; a4] out ->
  exists o0 o1,
    Gen.Rn.v2_dr_exp_rel [a0; a1] o0 /\
    Gen.SE2.se2_dr_exp_rel [a2; a3; a4] o1 /\
    out = blockdiag [o0; o1].
Proof.
  intros a0 a1 a2 a3 a4 out Hrel. rel_cases Hrel;
  eexists; eexists;
  (split; [rel_pick ltac:(revert Hpath; autounfold with bb_dr_exp_db se2_dr_exp_db v2_dr_exp_db; mat_unfold2; cbv zeta)|]);
  (split; [rel_pick ltac:(revert Hpath; autounfold with bb_dr_exp_db se2_dr_exp_db v2_dr_exp_db; mat_unfold2; cbv zeta)|]);
  autounfold with bb_dr_exp_db se2_dr_exp_db v2_dr_exp_db; mat_unfold2; cbv zeta; reflexivity.
Qed.

Lemma bb_dr_expinv_parts :
  forall a0 a1 a2 a3 a4 out,
  Gen.BB.bb_dr_expinv_rel [a0; a1; a2; a3; a4] out ->
  exists o0 o1,
    Gen.Rn.v2_dr_expinv_rel [a0; a1] o0 /\
    Gen.SE2.se2_dr_expinv_rel [a2; a3; a4] o1 /\
    out = blockdiag [o0; o1].
Proof.
  intros a0 a1 a2 a3 a4 out Hrel. rel_cases Hrel;
  eexists; eexists;
  (split; [rel_pick ltac:(revert Hpath; autounfold with bb_dr_expinv_db se2_dr_expinv_db v2_dr_expinv_db; mat_unfold2; cbv zeta)|]);
  (split; [rel_pick ltac:(revert Hpath; autounfold with bb_dr_expinv_db se2_dr_expinv_db v2_dr_expinv_db; mat_unfold2; cbv zeta)|]);
  autounfold with bb_dr_expinv_db se2_dr_expinv_db v2_dr_expinv_db; mat_unfold2; cbv zeta; reflexivity.
Qed.

Lemma bb_d2r_exp_parts :
  forall a0 a1 a2 a3 a4 out,
  Gen.BB.bb_d2r_exp_rel [a0; a1; a2; a3; a4] out ->
  exists o0 o1,
    Gen.Rn.v2_d2r_exp_rel [a0; a1] o0 /\
    Gen.SE2.se2_d2r_exp_rel [a2; a3; a4] o1 /\
    out = bundle_hess [o0; o1].
Proof.
  intros a0 a1 a2 a3 a4 out Hrel. rel_cases Hrel;
  eexists; eexists;
  (split; [rel_pick ltac:(revert Hpath; autounfold with bb_d2r_exp_db se2_d2r_exp_db v2_d2r_exp_db; mat_unfold2; cbv zeta)|]);
  (split; [rel_pick ltac:(revert Hpath; autounfold with bb_d2r_exp_db se2_d2r_exp_db v2_d2r_exp_db; mat_unfold2; cbv zeta)|]);
  autounfold with bb_d2r_exp_db se2_d2r_exp_db v2_d2r_exp_db; mat_unfold2; cbv zeta; reflexivity.
Qed.

Lemma bb_d2r_expinv_parts :
  forall a0 a1 a2 a3 a4 out,
  Gen.BB.bb_d2r_expinv_rel [a0; a1; a2; a3; a4] out ->
  exists o0 o1,
    Gen.Rn.v2_d2r_expinv_rel [a0; a1] o0 /\
    Gen.SE2.se2_d2r_expinv_rel [a2; a3; a4] o1 /\
    out = bundle_hess [o0; o1].
Proof.
  intros a0 a1 a2 a3 a4 out Hrel. rel_cases Hrel;
  eexists; eexists;
  (split; [rel_pick ltac:(revert Hpath; autounfold with bb_d2r_expinv_db se2_d2r_expinv_db v2_d2r_expinv_db; mat_unfold2; cbv zeta)|]);
  (split; [rel_pick ltac:(revert Hpath; autounfold with bb_d2r_expinv_db se2_d2r_expinv_db v2_d2r_expinv_db; mat_unfold2; cbv zeta)|]);
  autounfold with bb_d2r_expinv_db se2_d2r_expinv_db v2_d2r_expinv_db; mat_unfold2; cbv zeta; reflexivity.
Qed.

Lemma bb_identity_parts :
  forall out, Gen.BB.bb_identity_rel out ->
  exists o0 o1,
    Gen.Rn.v2_identity_rel o0 /\
    Gen.SE2.se2_identity_rel o1 /\
    out = o0 ++ o1.
Proof.
  intros out Hrel. rel_cases Hrel;
  eexists; eexists;
  (split; [rel_pick ltac:(revert Hpath; autounfold with bb_identity_db se2_identity_db v2_identity_db; mat_unfold2; cbv zeta)|]);
  (split; [rel_pick ltac:(revert Hpath; autounfold with bb_identity_db se2_identity_db v2_identity_db; mat_unfold2; cbv zeta)|]);
  autounfold with bb_identity_db se2_identity_db v2_identity_db; mat_unfold2; cbv zeta; reflexivity.
Qed.

Lemma bb_part0_view :
  forall g0 g1 g2 g3 g4 g5 out,
  Gen.BB.bb_part0_rel [g0; g1; g2; g3; g4; g5] out ->
  out = [g0; g1] /\ out = vslice [g0; g1; g2; g3; g4; g5] (nth 0 (psum [2%nat; 4%nat]) 0%nat) 2%nat.
Proof.
  intros g0 g1 g2 g3 g4 g5 out Hrel. rel_cases Hrel. autounfold with bb_part0_db. mat_unfold2. cbv zeta. split; reflexivity.
Qed.

Lemma bb_part1_view :
  forall g0 g1 g2 g3 g4 g5 out,
  Gen.BB.bb_part1_rel [g0; g1; g2; g3; g4; g5] out ->
  out = [g2; g3; g4; g5] /\ out = vslice [g0; g1; g2; g3; g4; g5] (nth 1 (psum [2%nat; 4%nat]) 0%nat) 4%nat.
Proof.
  intros g0 g1 g2 g3 g4 g5 out Hrel. rel_cases Hrel. autounfold with bb_part1_db. mat_unfold2. cbv zeta. split; reflexivity.
Qed.

