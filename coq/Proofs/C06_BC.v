(* Written with scripts/author/c06.py (committed output; the check builds this file against
   the freshly generated Gen/BC.v).  Property C06. *)
From Coq Require Import Reals List Lra.
From SV Require Import Base.GenPrelude Base.Mat Doc.Groups Base.Tactics Gen.BC Gen.SE2 Gen.SO3 Gen.Rn Gen.SO2.
Import ListNotations.
Local Open Scope R_scope.

Lemma bc_comp_parts :
  forall g0 g1 g2 g3 g4 g5 g6 g7 g8 g9 g10 h0 h1 h2 h3 h4 h5 h6 h7 h8 h9 h10 out,
  Gen.BC.bc_comp_rel [g0; g1; g2; g3; g4; g5; g6; g7; g8; g9; g10] [h0; h1; h2; h3; h4; h5; h6; h7; h8; h9; h10] out ->
  exists o0 o1 o2 o3,
    Gen.SE2.se2_comp_rel [g0; g1; g2; g3] [h0; h1; h2; h3] o0 /\
    Gen.SO3.so3_comp_rel [g4; g5; g6; g7] [h4; h5; h6; h7] o1 /\
    Gen.Rn.v1_comp_rel [g8] [h8] o2 /\
    Gen.SO2.so2_comp_rel [g9; g10] [h9; h10] o3 /\
    out = o0 ++ o1 ++ o2 ++ o3.
Proof.
  intros g0 g1 g2 g3 g4 g5 g6 g7 g8 g9 g10 h0 h1 h2 h3 h4 h5 h6 h7 h8 h9 h10 out Hrel. rel_cases Hrel;
  eexists; eexists; eexists; eexists;
  (split; [rel_pick ltac:(revert Hpath; autounfold with bc_comp_db se2_comp_db so2_comp_db so3_comp_db v1_comp_db; mat_unfold2; cbv zeta)|]);
  (split; [rel_pick ltac:(revert Hpath; autounfold with bc_comp_db se2_comp_db so2_comp_db so3_comp_db v1_comp_db; mat_unfold2; cbv zeta)|]);
  (split; [rel_pick ltac:(revert Hpath; autounfold with bc_comp_db se2_comp_db so2_comp_db so3_comp_db v1_comp_db; mat_unfold2; cbv zeta)|]);
  (split; [rel_pick ltac:(revert Hpath; autounfold with bc_comp_db se2_comp_db so2_comp_db so3_comp_db v1_comp_db; mat_unfold2; cbv zeta)|]);
  autounfold with bc_comp_db se2_comp_db so2_comp_db so3_comp_db v1_comp_db; mat_unfold2; cbv zeta; reflexivity.
Qed.

Lemma bc_inv_parts :
  forall g0 g1 g2 g3 g4 g5 g6 g7 g8 g9 g10 out,
  Gen.BC.bc_inv_rel [g0; g1; g2; g3; g4; g5; g6; g7; g8; g9; g10] out ->
  exists o0 o1 o2 o3,
    Gen.SE2.se2_inv_rel [g0; g1; g2; g3] o0 /\
    Gen.SO3.so3_inv_rel [g4; g5; g6; g7] o1 /\
    Gen.Rn.v1_inv_rel [g8] o2 /\
    Gen.SO2.so2_inv_rel [g9; g10] o3 /\
    out = o0 ++ o1 ++ o2 ++ o3.
Proof.
  intros g0 g1 g2 g3 g4 g5 g6 g7 g8 g9 g10 out Hrel. rel_cases Hrel;
  eexists; eexists; eexists; eexists;
  (split; [rel_pick ltac:(revert Hpath; autounfold with bc_inv_db se2_inv_db so2_inv_db so3_inv_db v1_inv_db; mat_unfold2; cbv zeta)|]);
  (split; [rel_pick ltac:(revert Hpath; autounfold with bc_inv_db se2_inv_db so2_inv_db so3_inv_db v1_inv_db; mat_unfold2; cbv zeta)|]);
  (split; [rel_pick ltac:(revert Hpath; autounfold with bc_inv_db se2_inv_db so2_inv_db so3_inv_db v1_inv_db; mat_unfold2; cbv zeta)|]);
  (split; [rel_pick ltac:(revert Hpath; autounfold with bc_inv_db se2_inv_db so2_inv_db so3_inv_db v1_inv_db; mat_unfold2; cbv zeta)|]);
  autounfold with bc_inv_db se2_inv_db so2_inv_db so3_inv_db v1_inv_db; mat_unfold2; cbv zeta; reflexivity.
Qed.

Lemma bc_log_parts :
  forall g0 g1 g2 g3 g4 g5 g6 g7 g8 g9 g10 out,
  Gen.BC.bc_log_rel [g0; g1; g2; g3; g4; g5; g6; g7; g8; g9; g10] out ->
  exists o0 o1 o2 o3,
    Gen.SE2.se2_log_rel [g0; g1; g2; g3] o0 /\
    Gen.SO3.so3_log_rel [g4; g5; g6; g7] o1 /\
    Gen.Rn.v1_log_rel [g8] o2 /\
    Gen.SO2.so2_log_rel [g9; g10] o3 /\
    out = o0 ++ o1 ++ o2 ++ o3.
Proof.
  intros g0 g1 g2 g3 g4 g5 g6 g7 g8 g9 g10 out Hrel. rel_cases Hrel;
  eexists; eexists; eexists; eexists;
  (split; [rel_pick ltac:(revert Hpath; autounfold with bc_log_db se2_log_db so2_log_db so3_log_db v1_log_db; mat_unfold2; cbv zeta)|]);
  (split; [rel_pick ltac:(revert Hpath; autounfold with bc_log_db se2_log_db so2_log_db so3_log_db v1_log_db; mat_unfold2; cbv zeta)|]);
  (split; [rel_pick ltac:(revert Hpath; autounfold with bc_log_db se2_log_db so2_log_db so3_log_db v1_log_db; mat_unfold2; cbv zeta)|]);
  (split; [rel_pick ltac:(revert Hpath; autounfold with bc_log_db se2_log_db so2_log_db so3_log_db v1_log_db; mat_unfold2; cbv zeta)|]);
  autounfold with bc_log_db se2_log_db so2_log_db so3_log_db v1_log_db; mat_unfold2; cbv zeta; reflexivity.
Qed.

Lemma bc_exp_parts :
  forall a0 a1 a2 a3 a4 a5 a6 a7 out,
  Gen.BC.bc_exp_rel [a0; a1; a2; a3; a4; a5; a6; a7] out ->
  exists o0 o1 o2 o3,
    Gen.SE2.se2_exp_rel [a0; a1; a2] o0 /\
    Gen.SO3.so3_exp_rel [a3; a4; a5] o1 /\
    Gen.Rn.v1_exp_rel [a6] o2 /\
    Gen.SO2.so2_exp_rel [a7] o3 /\
    out = o0 ++ o1 ++ o2 ++ o3.
Proof.
  intros a0 a1 a2 a3 a4 a5 a6 a7 out Hrel. rel_cases Hrel;
  eexists; eexists; eexists; eexists;
  (split; [rel_pick ltac:(revert Hpath; autounfold with bc_exp_db se2_exp_db so2_exp_db so3_exp_db v1_exp_db; mat_unfold2; cbv zeta)|]);
  (split; [rel_pick ltac:(revert Hpath; autounfold with bc_exp_db se2_exp_db so2_exp_db so3_exp_db v1_exp_db; mat_unfold2; cbv zeta)|]);
  (split; [rel_pick ltac:(revert Hpath; autounfold with bc_exp_db se2_exp_db so2_exp_db so3_exp_db v1_exp_db; mat_unfold2; cbv zeta)|]);
  (split; [rel_pick ltac:(revert Hpath; autounfold with bc_exp_db se2_exp_db so2_exp_db so3_exp_db v1_exp_db; mat_unfold2; cbv zeta)|]);
  autounfold with bc_exp_db se2_exp_db so2_exp_db so3_exp_db v1_exp_db; mat_unfold2; cbv zeta; reflexivity.
Qed.

Lemma bc_Ad_parts :
  forall g0 g1 g2 g3 g4 g5 g6 g7 g8 g9 g10 out,
  Gen.BC.bc_Ad_rel [g0; g1; g2; g3; g4; g5; g6; g7; g8; g9; g10] out ->
  exists o0 o1 o2 o3,
    Gen.SE2.se2_Ad_rel [g0; g1; g2; g3] o0 /\
    Gen.SO3.so3_Ad_rel [g4; g5; g6; g7] o1 /\
    Gen.Rn.v1_Ad_rel [g8] o2 /\
    Gen.SO2.so2_Ad_rel [g9; g10] o3 /\
    out = blockdiag [o0; o1; o2; o3].
Proof.
  intros g0 g1 g2 g3 g4 g5 g6 g7 g8 g9 g10 out Hrel. rel_cases Hrel;
  eexists; eexists; eexists; eexists;
  (split; [rel_pick ltac:(revert Hpath; autounfold with bc_Ad_db se2_Ad_db so2_Ad_db so3_Ad_db v1_Ad_db; mat_unfold2; cbv zeta)|]);
  (split; [rel_pick ltac:(revert Hpath; autounfold with bc_Ad_db se2_Ad_db so2_Ad_db so3_Ad_db v1_Ad_db; mat_unfold2; cbv zeta)|]);
  (split; [rel_pick ltac:(revert Hpath; autounfold with bc_Ad_db se2_Ad_db so2_Ad_db so3_Ad_db v1_Ad_db; mat_unfold2; cbv zeta)|]);
  (split; [rel_pick ltac:(revert Hpath; autounfold with bc_Ad_db se2_Ad_db so2_Ad_db so3_Ad_db v1_Ad_db; mat_unfold2; cbv zeta)|]);
  autounfold with bc_Ad_db se2_Ad_db so2_Ad_db so3_Ad_db v1_Ad_db; mat_unfold2; cbv zeta; reflexivity.
Qed.

Lemma bc_ad_parts :
  forall a0 a1 a2 a3 a4 a5 a6 a7 out,
  Gen.BC.bc_ad_rel [a0; a1; a2; a3; a4; a5; a6; a7] out ->
  exists o0 o1 o2 o3,
    Gen.SE2.se2_ad_rel [a0; a1; a2] o0 /\
    Gen.SO3.so3_ad_rel [a3; a4; a5] o1 /\
    Gen.Rn.v1_ad_rel [a6] o2 /\
    Gen.SO2.so2_ad_rel [a7] o3 /\
    out = blockdiag [o0; o1; o2; o3].
Proof.
  intros a0 a1 a2 a3 a4 a5 a6 a7 out Hrel. rel_cases Hrel;
  eexists; eexists; eexists; eexists;
  (split; [rel_pick ltac:(revert Hpath; autounfold with bc_ad_db se2_ad_db so2_ad_db so3_ad_db v1_ad_db; mat_unfold2; cbv zeta)|]);
  (split; [rel_pick ltac:(revert Hpath; autounfold with bc_ad_db se2_ad_db so2_ad_db so3_ad_db v1_ad_db; mat_unfold2; cbv zeta)|]);
  (split; [rel_pick ltac:(revert Hpath; autounfold with bc_ad_db se2_ad_db so2_ad_db so3_ad_db v1_ad_db; mat_unfold2; cbv zeta)|]);
  (split; [rel_pick ltac:(revert Hpath; autounfold with bc_ad_db se2_ad_db so2_ad_db so3_ad_db v1_ad_db; mat_unfold2; cbv zeta)|]);
  autounfold with bc_ad_db se2_ad_db so2_ad_db so3_ad_db v1_ad_db; mat_unfold2; cbv zeta; reflexivity.
Qed.

Lemma bc_dr_exp_parts :
  forall a0 a1 a2 a3 a4 a5 a6 a7 out,
  Gen.BC.bc_dr_exp_rel [a0; a1; a2; a3; a4; a5; a6; a7] out ->
  exists o0 o1 o2 o3,
    Gen.SE2.se2_dr_exp_rel [a0; a1; a2] o0 /\
    Gen.SO3.so3_dr_exp_rel [a3; a4; a5] o1 /\
    Gen.Rn.v1_dr_exp_rel [a6] o2 /\
    Gen.SO2.so2_dr_exp_rel [a7] o3 /\
    out = blockdiag [o0; o1; o2; o3].
Proof.
  intros a0 a1 a2 a3 a4 a5 a6 a7 out Hrel. rel_cases Hrel;
  eexists; eexists; eexists; eexists;
  (split; [rel_pick ltac:(revert Hpath; autounfold with bc_dr_exp_db se2_dr_exp_db so2_dr_exp_db so3_dr_exp_db v1_dr_exp_db; mat_unfold2; cbv zeta)|]);
  (split; [rel_pick ltac:(revert Hpath; autounfold with bc_dr_exp_db se2_dr_exp_db so2_dr_exp_db so3_dr_exp_db v1_dr_exp_db; mat_unfold2; cbv zeta)|]);
  (split; [rel_pick ltac:(revert Hpath; autounfold with bc_dr_exp_db se2_dr_exp_db so2_dr_exp_db so3_dr_exp_db v1_dr_exp_db; mat_unfold2; cbv zeta)|]);
  (split; [rel_pick ltac:(revert Hpath; autounfold with bc_dr_exp_db se2_dr_exp_db so2_dr_exp_db so3_dr_exp_db v1_dr_exp_db; mat_unfold2; cbv zeta)|]);
  autounfold with bc_dr_exp_db se2_dr_exp_db so2_dr_exp_db so3_dr_exp_db v1_dr_exp_db; mat_unfold2; cbv zeta; reflexivity.
Qed.

Lemma bc_dr_expinv_parts :
  forall a0 a1 a2 a3 a4 a5 a6 a7 out,
  Gen.BC.bc_dr_expinv_rel [a0; a1; a2; a3; a4; a5; a6; a7] out ->
  exists o0 o1 o2 o3,
    Gen.SE2.se2_dr_expinv_rel [a0; a1; a2] o0 /\
    Gen.SO3.so3_dr_expinv_rel [a3; a4; a5] o1 /\
    Gen.Rn.v1_dr_expinv_rel [a6] o2 /\
    Gen.SO2.so2_dr_expinv_rel [a7] o3 /\
    out = blockdiag [o0; o1; o2; o3].
Proof.
  intros a0 a1 a2 a3 a4 a5 a6 a7 out Hrel. rel_cases Hrel;
  eexists; eexists; eexists; eexists;
  (split; [rel_pick ltac:(revert Hpath; autounfold with bc_dr_expinv_db se2_dr_expinv_db so2_dr_expinv_db so3_dr_expinv_db v1_dr_expinv_db; mat_unfold2; cbv zeta)|]);
  (split; [rel_pick ltac:(revert Hpath; autounfold with bc_dr_expinv_db se2_dr_expinv_db so2_dr_expinv_db so3_dr_expinv_db v1_dr_expinv_db; mat_unfold2; cbv zeta)|]);
  (split; [rel_pick ltac:(revert Hpath; autounfold with bc_dr_expinv_db se2_dr_expinv_db so2_dr_expinv_db so3_dr_expinv_db v1_dr_expinv_db; mat_unfold2; cbv zeta)|]);
  (split; [rel_pick ltac:(revert Hpath; autounfold with bc_dr_expinv_db se2_dr_expinv_db so2_dr_expinv_db so3_dr_expinv_db v1_dr_expinv_db; mat_unfold2; cbv zeta)|]);
  autounfold with bc_dr_expinv_db se2_dr_expinv_db so2_dr_expinv_db so3_dr_expinv_db v1_dr_expinv_db; mat_unfold2; cbv zeta; reflexivity.
Qed.

Lemma bc_d2r_exp_parts :
  forall a0 a1 a2 a3 a4 a5 a6 a7 out,
  Gen.BC.bc_d2r_exp_rel [a0; a1; a2; a3; a4; a5; a6; a7] out ->
  exists o0 o1 o2 o3,
    Gen.SE2.se2_d2r_exp_rel [a0; a1; a2] o0 /\
    Gen.SO3.so3_d2r_exp_rel [a3; a4; a5] o1 /\
    Gen.Rn.v1_d2r_exp_rel [a6] o2 /\
    Gen.SO2.so2_d2r_exp_rel [a7] o3 /\
    out = bundle_hess [o0; o1; o2; o3].
Proof.
  intros a0 a1 a2 a3 a4 a5 a6 a7 out Hrel. rel_cases Hrel;
  eexists; eexists; eexists; eexists;
  (split; [rel_pick ltac:(revert Hpath; autounfold with bc_d2r_exp_db se2_d2r_exp_db so2_d2r_exp_db so3_d2r_exp_db v1_d2r_exp_db; mat_unfold2; cbv zeta)|]);
  (split; [rel_pick ltac:(revert Hpath; autounfold with bc_d2r_exp_db se2_d2r_exp_db so2_d2r_exp_db so3_d2r_exp_db v1_d2r_exp_db; mat_unfold2; cbv zeta)|]);
  (split; [rel_pick ltac:(revert Hpath; autounfold with bc_d2r_exp_db se2_d2r_exp_db so2_d2r_exp_db so3_d2r_exp_db v1_d2r_exp_db; mat_unfold2; cbv zeta)|]);
  (split; [rel_pick ltac:(revert Hpath; autounfold with bc_d2r_exp_db se2_d2r_exp_db so2_d2r_exp_db so3_d2r_exp_db v1_d2r_exp_db; mat_unfold2; cbv zeta)|]);
  autounfold with bc_d2r_exp_db se2_d2r_exp_db so2_d2r_exp_db so3_d2r_exp_db v1_d2r_exp_db; mat_unfold2; cbv zeta; reflexivity.
Qed.

Lemma bc_d2r_expinv_parts :
  forall a0 a1 a2 a3 a4 a5 a6 a7 out,
  Gen.BC.bc_d2r_expinv_rel [a0; a1; a2; a3; a4; a5; a6; a7] out ->
  exists o0 o1 o2 o3,
    Gen.SE2.se2_d2r_expinv_rel [a0; a1; a2] o0 /\
    Gen.SO3.so3_d2r_expinv_rel [a3; a4; a5] o1 /\
    Gen.Rn.v1_d2r_expinv_rel [a6] o2 /\
    Gen.SO2.so2_d2r_expinv_rel [a7] o3 /\
    out = bundle_hess [o0; o1; o2; o3].
Proof.
  intros a0 a1 a2 a3 a4 a5 a6 a7 out Hrel. rel_cases Hrel;
  eexists; eexists; eexists; eexists;
  (split; [rel_pick ltac:(revert Hpath; autounfold with bc_d2r_expinv_db se2_d2r_expinv_db so2_d2r_expinv_db so3_d2r_expinv_db v1_d2r_expinv_db; mat_unfold2; cbv zeta)|]);
  (split; [rel_pick ltac:(revert Hpath; autounfold with bc_d2r_expinv_db se2_d2r_expinv_db so2_d2r_expinv_db so3_d2r_expinv_db v1_d2r_expinv_db; mat_unfold2; cbv zeta)|]);
  (split; [rel_pick ltac:(revert Hpath; autounfold with bc_d2r_expinv_db se2_d2r_expinv_db so2_d2r_expinv_db so3_d2r_expinv_db v1_d2r_expinv_db; mat_unfold2; cbv zeta)|]);
  (split; [rel_pick ltac:(revert Hpath; autounfold with bc_d2r_expinv_db se2_d2r_expinv_db so2_d2r_expinv_db so3_d2r_expinv_db v1_d2r_expinv_db; mat_unfold2; cbv zeta)|]);
  autounfold with bc_d2r_expinv_db se2_d2r_expinv_db so2_d2r_expinv_db so3_d2r_expinv_db v1_d2r_expinv_db; mat_unfold2; cbv zeta; reflexivity.
Qed.

Lemma bc_identity_parts :
  forall out, Gen.BC.bc_identity_rel out ->
  exists o0 o1 o2 o3,
    Gen.SE2.se2_identity_rel o0 /\
    Gen.SO3.so3_identity_rel o1 /\
    Gen.Rn.v1_identity_rel o2 /\
    Gen.SO2.so2_identity_rel o3 /\
    out = o0 ++ o1 ++ o2 ++ o3.
Proof.
  intros out Hrel. rel_cases Hrel;
  eexists; eexists; eexists; eexists;
  (split; [rel_pick ltac:(revert Hpath; autounfold with bc_identity_db se2_identity_db so2_identity_db so3_identity_db v1_identity_db; mat_unfold2; cbv zeta)|]);
  (split; [rel_pick ltac:(revert Hpath; autounfold with bc_identity_db se2_identity_db so2_identity_db so3_identity_db v1_identity_db; mat_unfold2; cbv zeta)|]);
  (split; [rel_pick ltac:(revert Hpath; autounfold with bc_identity_db se2_identity_db so2_identity_db so3_identity_db v1_identity_db; mat_unfold2; cbv zeta)|]);
  (split; [rel_pick ltac:(revert Hpath; autounfold with bc_identity_db se2_identity_db so2_identity_db so3_identity_db v1_identity_db; mat_unfold2; cbv zeta)|]);
  autounfold with bc_identity_db se2_identity_db so2_identity_db so3_identity_db v1_identity_db; mat_unfold2; cbv zeta; reflexivity.
Qed.

Lemma bc_part0_view :
  forall g0 g1 g2 g3 g4 g5 g6 g7 g8 g9 g10 out,
  Gen.BC.bc_part0_rel [g0; g1; g2; g3; g4; g5; g6; g7; g8; g9; g10] out ->
  out = [g0; g1; g2; g3] /\ out = vslice [g0; g1; g2; g3; g4; g5; g6; g7; g8; g9; g10] (nth 0 (psum [4%nat; 4%nat; 1%nat; 2%nat]) 0%nat) 4%nat.
Proof.
  intros g0 g1 g2 g3 g4 g5 g6 g7 g8 g9 g10 out Hrel. rel_cases Hrel. autounfold with bc_part0_db. mat_unfold2. cbv zeta. split; reflexivity.
Qed.

Lemma bc_part1_view :
  forall g0 g1 g2 g3 g4 g5 g6 g7 g8 g9 g10 out,
  Gen.BC.bc_part1_rel [g0; g1; g2; g3; g4; g5; g6; g7; g8; g9; g10] out ->
  out = [g4; g5; g6; g7] /\ out = vslice [g0; g1; g2; g3; g4; g5; g6; g7; g8; g9; g10] (nth 1 (psum [4%nat; 4%nat; 1%nat; 2%nat]) 0%nat) 4%nat.
Proof.
  intros g0 g1 g2 g3 g4 g5 g6 g7 g8 g9 g10 out Hrel. rel_cases Hrel. autounfold with bc_part1_db. mat_unfold2. cbv zeta. split; reflexivity.
Qed.

Lemma bc_part2_view :
  forall g0 g1 g2 g3 g4 g5 g6 g7 g8 g9 g10 out,
  Gen.BC.bc_part2_rel [g0; g1; g2; g3; g4; g5; g6; g7; g8; g9; g10] out ->
  out = [g8] /\ out = vslice [g0; g1; g2; g3; g4; g5; g6; g7; g8; g9; g10] (nth 2 (psum [4%nat; 4%nat; 1%nat; 2%nat]) 0%nat) 1%nat.
Proof.
  intros g0 g1 g2 g3 g4 g5 g6 g7 g8 g9 g10 out Hrel. rel_cases Hrel. autounfold with bc_part2_db. mat_unfold2. cbv zeta. split; reflexivity.
Qed.

Lemma bc_part3_view :
  forall g0 g1 g2 g3 g4 g5 g6 g7 g8 g9 g10 out,
  Gen.BC.bc_part3_rel [g0; g1; g2; g3; g4; g5; g6; g7; g8; g9; g10] out ->
  out = [g9; g10] /\ out = vslice [g0; g1; g2; g3; g4; g5; g6; g7; g8; g9; g10] (nth 3 (psum [4%nat; 4%nat; 1%nat; 2%nat]) 0%nat) 2%nat.
Proof.
  intros g0 g1 g2 g3 g4 g5 g6 g7 g8 g9 g10 out Hrel. rel_cases Hrel. autounfold with bc_part3_db. mat_unfold2. cbv zeta. split; reflexivity.
Qed.

