(* Written with scripts/author/c06.py (committed output; the check builds this file against
   the freshly generated Gen/BE.v).  Property C06. *)
From Coq Require Import Reals List Lra.
From SV Require Import Base.GenPrelude Base.Mat Doc.Groups Base.Tactics Gen.BE Gen.BEi Gen.SE3 Gen.SE3H.
Import ListNotations.
Local Open Scope R_scope.

Lemma be_comp_parts :
  forall g0 g1 g2 g3 g4 g5 g6 g7 g8 g9 g10 h0 h1 h2 h3 h4 h5 h6 h7 h8 h9 h10 out,
  Gen.BE.be_comp_rel [g0; g1; g2; g3; g4; g5; g6; g7; g8; g9; g10] [h0; h1; h2; h3; h4; h5; h6; h7; h8; h9; h10] out ->
  exists o0 o1,
    Gen.BEi.bei_comp_rel [g0; g1; g2; g3] [h0; h1; h2; h3] o0 /\
    Gen.SE3.se3_comp_rel [g4; g5; g6; g7; g8; g9; g10] [h4; h5; h6; h7; h8; h9; h10] o1 /\
    out = o0 ++ o1.
Proof.
  intros g0 g1 g2 g3 g4 g5 g6 g7 g8 g9 g10 h0 h1 h2 h3 h4 h5 h6 h7 h8 h9 h10 out Hrel. rel_cases Hrel;
  eexists; eexists;
  (split; [rel_pick ltac:(revert Hpath; autounfold with be_comp_db bei_comp_db se3_comp_db; mat_unfold2; cbv zeta)|]);
  (split; [rel_pick ltac:(revert Hpath; autounfold with be_comp_db bei_comp_db se3_comp_db; mat_unfold2; cbv zeta)|]);
  autounfold with be_comp_db bei_comp_db se3_comp_db; mat_unfold2; cbv zeta; reflexivity.
Qed.

Lemma be_inv_parts :
  forall g0 g1 g2 g3 g4 g5 g6 g7 g8 g9 g10 out,
  Gen.BE.be_inv_rel [g0; g1; g2; g3; g4; g5; g6; g7; g8; g9; g10] out ->
  exists o0 o1,
    Gen.BEi.bei_inv_rel [g0; g1; g2; g3] o0 /\
    Gen.SE3.se3_inv_rel [g4; g5; g6; g7; g8; g9; g10] o1 /\
    out = o0 ++ o1.
Proof.
  intros g0 g1 g2 g3 g4 g5 g6 g7 g8 g9 g10 out Hrel. rel_cases Hrel;
  eexists; eexists;
  (split; [rel_pick ltac:(revert Hpath; autounfold with be_inv_db bei_inv_db se3_inv_db; mat_unfold2; cbv zeta)|]);
  (split; [rel_pick ltac:(revert Hpath; autounfold with be_inv_db bei_inv_db se3_inv_db; mat_unfold2; cbv zeta)|]);
  autounfold with be_inv_db bei_inv_db se3_inv_db; mat_unfold2; cbv zeta; reflexivity.
Qed.

Lemma be_log_parts :
  forall g0 g1 g2 g3 g4 g5 g6 g7 g8 g9 g10 out,
  Gen.BE.be_log_rel [g0; g1; g2; g3; g4; g5; g6; g7; g8; g9; g10] out ->
  exists o0 o1,
    Gen.BEi.bei_log_rel [g0; g1; g2; g3] o0 /\
    Gen.SE3.se3_log_rel [g4; g5; g6; g7; g8; g9; g10] o1 /\
    out = o0 ++ o1.
Proof.
  intros g0 g1 g2 g3 g4 g5 g6 g7 g8 g9 g10 out Hrel. rel_cases Hrel;
  eexists; eexists;
  (split; [rel_pick ltac:(revert Hpath; autounfold with be_log_db bei_log_db se3_log_db; mat_unfold2; cbv zeta)|]);
  (split; [rel_pick ltac:(revert Hpath; autounfold with be_log_db bei_log_db se3_log_db; mat_unfold2; cbv zeta)|]);
  autounfold with be_log_db bei_log_db se3_log_db; mat_unfold2; cbv zeta; reflexivity.
Qed.

Lemma be_exp_parts :
  forall a0 a1 a2 a3 a4 a5 a6 a7 a8 out,
  Gen.BE.be_exp_rel [a0; a1; a2; a3; a4; a5; a6; a7; a8] out ->
  exists o0 o1,
    Gen.BEi.bei_exp_rel [a0; a1; a2] o0 /\
    Gen.SE3.se3_exp_rel [a3; a4; a5; a6; a7; a8] o1 /\
    out = o0 ++ o1.
Proof.
  intros a0 a1 a2 a3 a4 a5 a6 a7 a8 out Hrel. rel_cases Hrel;
  eexists; eexists;
  (split; [rel_pick ltac:(revert Hpath; autounfold with be_exp_db bei_exp_db se3_exp_db; mat_unfold2; cbv zeta)|]);
  (split; [rel_pick ltac:(revert Hpath; autounfold with be_exp_db bei_exp_db se3_exp_db; mat_unfold2; cbv zeta)|]);
  autounfold with be_exp_db bei_exp_db se3_exp_db; mat_unfold2; cbv zeta; reflexivity.
Qed.

Lemma be_Ad_parts :
  forall g0 g1 g2 g3 g4 g5 g6 g7 g8 g9 g10 out,
  Gen.BE.be_Ad_rel [g0; g1; g2; g3; g4; g5; g6; g7; g8; g9; g10] out ->
  exists o0 o1,
    Gen.BEi.bei_Ad_rel [g0; g1; g2; g3] o0 /\
    Gen.SE3.se3_Ad_rel [g4; g5; g6; g7; g8; g9; g10] o1 /\
    out = blockdiag [o0; o1].
Proof.
  intros g0 g1 g2 g3 g4 g5 g6 g7 g8 g9 g10 out Hrel. rel_cases Hrel;
  eexists; eexists;
  (split; [rel_pick ltac:(revert Hpath; autounfold with be_Ad_db bei_Ad_db se3_Ad_db; mat_unfold2; cbv zeta)|]);
  (split; [rel_pick ltac:(revert Hpath; autounfold with be_Ad_db bei_Ad_db se3_Ad_db; mat_unfold2; cbv zeta)|]);
  autounfold with be_Ad_db bei_Ad_db se3_Ad_db; mat_unfold2; cbv zeta; reflexivity.
Qed.

Lemma be_ad_parts :
  forall a0 a1 a2 a3 a4 a5 a6 a7 a8 out,
  Gen.BE.be_ad_rel [a0; a1; a2; a3; a4; a5; a6; a7; a8] out ->
  exists o0 o1,
    Gen.BEi.bei_ad_rel [a0; a1; a2] o0 /\
    Gen.SE3.se3_ad_rel [a3; a4; a5; a6; a7; a8] o1 /\
    out = blockdiag [o0; o1].
Proof.
  intros a0 a1 a2 a3 a4 a5 a6 a7 a8 out Hrel. rel_cases Hrel;
  eexists; eexists;
  (split; [rel_pick ltac:(revert Hpath; autounfold with be_ad_db bei_ad_db se3_ad_db; mat_unfold2; cbv zeta)|]);
  (split; [rel_pick ltac:(revert Hpath; autounfold with be_ad_db bei_ad_db se3_ad_db; mat_unfold2; cbv zeta)|]);
  autounfold with be_ad_db bei_ad_db se3_ad_db; mat_unfold2; cbv zeta; reflexivity.
Qed.

Lemma be_dr_exp_parts :
  forall a0 a1 a2 a3 a4 a5 a6 a7 a8 out,
  Gen.BE.be_dr_exp_rel [a0; a1; a2; a3; a4; a5; a6; a7; a8] out ->
  exists o0 o1,
    Gen.BEi.bei_dr_exp_rel [a0; a1; a2] o0 /\
    Gen.SE3.se3_dr_exp_rel [a3; a4; a5; a6; a7; a8] o1 /\
    out = blockdiag [o0; o1].
Proof.
  intros a0 a1 a2 a3 a4 a5 a6 a7 a8 out Hrel. rel_cases Hrel;
  eexists; eexists;
  (split; [rel_pick ltac:(revert Hpath; autounfold with be_dr_exp_db bei_dr_exp_db se3_dr_exp_db; mat_unfold2; cbv zeta)|]);
  (split; [rel_pick ltac:(revert Hpath; autounfold with be_dr_exp_db bei_dr_exp_db se3_dr_exp_db; mat_unfold2; cbv zeta)|]);
  autounfold with be_dr_exp_db bei_dr_exp_db se3_dr_exp_db; mat_unfold2; cbv zeta; reflexivity.
Qed.

Lemma be_dr_expinv_parts :
  forall a0 a1 a2 a3 a4 a5 a6 a7 a8 out,
  Gen.BE.be_dr_expinv_rel [a0; a1; a2; a3; a4; a5; a6; a7; a8] out ->
  exists o0 o1,
    Gen.BEi.bei_dr_expinv_rel [a0; a1; a2] o0 /\
    Gen.SE3.se3_dr_expinv_rel [a3; a4; a5; a6; a7; a8] o1 /\
    out = blockdiag [o0; o1].
Proof.
  intros a0 a1 a2 a3 a4 a5 a6 a7 a8 out Hrel. rel_cases Hrel;
  eexists; eexists;
  (split; [rel_pick ltac:(revert Hpath; autounfold with be_dr_expinv_db bei_dr_expinv_db se3_dr_expinv_db; mat_unfold2; cbv zeta)|]);
  (split; [rel_pick ltac:(revert Hpath; autounfold with be_dr_expinv_db bei_dr_expinv_db se3_dr_expinv_db; mat_unfold2; cbv zeta)|]);
  autounfold with be_dr_expinv_db bei_dr_expinv_db se3_dr_expinv_db; mat_unfold2; cbv zeta; reflexivity.
Qed.

Lemma be_d2r_exp_parts :
  forall a0 a1 a2 a3 a4 a5 a6 a7 a8 out,
  Gen.BE.be_d2r_exp_rel [a0; a1; a2; a3; a4; a5; a6; a7; a8] out ->
  exists o0 o1,
    Gen.BEi.bei_d2r_exp_rel [a0; a1; a2] o0 /\
    Gen.SE3H.se3_d2r_exp_rel [a3; a4; a5; a6; a7; a8] o1 /\
    out = bundle_hess [o0; o1].
Proof.
  intros a0 a1 a2 a3 a4 a5 a6 a7 a8 out Hrel. rel_cases Hrel;
  eexists; eexists;
  (split; [rel_pick ltac:(revert Hpath; autounfold with be_d2r_exp_db bei_d2r_exp_db se3_d2r_exp_db; mat_unfold2; cbv zeta)|]);
  (split; [rel_pick ltac:(revert Hpath; autounfold with be_d2r_exp_db bei_d2r_exp_db se3_d2r_exp_db; mat_unfold2; cbv zeta)|]);
  autounfold with be_d2r_exp_db bei_d2r_exp_db se3_d2r_exp_db; mat_unfold2; cbv zeta; reflexivity.
Qed.

Lemma be_d2r_expinv_parts :
  forall a0 a1 a2 a3 a4 a5 a6 a7 a8 out,
  Gen.BE.be_d2r_expinv_rel [a0; a1; a2; a3; a4; a5; a6; a7; a8] out ->
  exists o0 o1,
    Gen.BEi.bei_d2r_expinv_rel [a0; a1; a2] o0 /\
    Gen.SE3H.se3_d2r_expinv_rel [a3; a4; a5; a6; a7; a8] o1 /\
    out = bundle_hess [o0; o1].
Proof.
  intros a0 a1 a2 a3 a4 a5 a6 a7 a8 out Hrel. rel_cases Hrel;
  eexists; eexists;
  (split; [rel_pick ltac:(revert Hpath; autounfold with be_d2r_expinv_db bei_d2r_expinv_db se3_d2r_expinv_db; mat_unfold2; cbv zeta)|]);
  (split; [rel_pick ltac:(revert Hpath; autounfold with be_d2r_expinv_db bei_d2r_expinv_db se3_d2r_expinv_db; mat_unfold2; cbv zeta)|]);
  autounfold with be_d2r_expinv_db bei_d2r_expinv_db se3_d2r_expinv_db; mat_unfold2; cbv zeta; reflexivity.
Qed.

Lemma be_identity_parts :
  forall out, Gen.BE.be_identity_rel out ->
  exists o0 o1,
    Gen.BEi.bei_identity_rel o0 /\
    Gen.SE3.se3_identity_rel o1 /\
    out = o0 ++ o1.
Proof.
  intros out Hrel. rel_cases Hrel;
  eexists; eexists;
  (split; [rel_pick ltac:(revert Hpath; autounfold with be_identity_db bei_identity_db se3_identity_db; mat_unfold2; cbv zeta)|]);
  (split; [rel_pick ltac:(revert Hpath; autounfold with be_identity_db bei_identity_db se3_identity_db; mat_unfold2; cbv zeta)|]);
  autounfold with be_identity_db bei_identity_db se3_identity_db; mat_unfold2; cbv zeta; reflexivity.
Qed.

Lemma be_part0_view :
  forall g0 g1 g2 g3 g4 g5 g6 g7 g8 g9 g10 out,
  Gen.BE.be_part0_rel [g0; g1; g2; g3; g4; g5; g6; g7; g8; g9; g10] out ->
  out = [g0; g1; g2; g3] /\ out = vslice [g0; g1; g2; g3; g4; g5; g6; g7; g8; g9; g10] (nth 0 (psum [4%nat; 7%nat]) 0%nat) 4%nat.
Proof.
  intros g0 g1 g2 g3 g4 g5 g6 g7 g8 g9 g10 out Hrel. rel_cases Hrel. autounfold with be_part0_db. mat_unfold2. cbv zeta. split; reflexivity.
Qed.

Lemma be_part1_view :
  forall g0 g1 g2 g3 g4 g5 g6 g7 g8 g9 g10 out,
  Gen.BE.be_part1_rel [g0; g1; g2; g3; g4; g5; g6; g7; g8; g9; g10] out ->
  out = [g4; g5; g6; g7; g8; g9; g10] /\ out = vslice [g0; g1; g2; g3; g4; g5; g6; g7; g8; g9; g10] (nth 1 (psum [4%nat; 7%nat]) 0%nat) 7%nat.
Proof.
  intros g0 g1 g2 g3 g4 g5 g6 g7 g8 g9 g10 out Hrel. rel_cases Hrel. autounfold with be_part1_db. mat_unfold2. cbv zeta. split; reflexivity.
Qed.

