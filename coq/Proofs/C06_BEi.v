(* Written with scripts/author/c06.py (committed output; the check builds this file against
   the freshly generated Gen/BEi.v).  Property C06. *)
From Coq Require Import Reals List Lra.
From SV Require Import Base.GenPrelude Base.Mat Doc.Groups Base.Tactics Gen.BEi Gen.SO2 Gen.Rn.
Import ListNotations.
Local Open Scope R_scope.

Lemma bei_comp_parts :
  forall g0 g1 g2 g3 h0 h1 h2 h3 out,
  Gen.BEi.bei_comp_rel [g0; g1; g2; g3] [h0; h1; h2; h3] out ->
  exists o0 o1,
    Gen.SO2.so2_comp_rel [g0; g1] [h0; h1] o0 /\
    Gen.Rn.v2_comp_rel [g2; g3] [h2; h3] o1 /\
    out = o0 ++ o1.
Proof.
  intros g0 g1 g2 g3 h0 h1 h2 h3 out Hrel. rel_cases Hrel;
  eexists; eexists;
  (split; [rel_pick ltac:(revert Hpath; autounfold with bei_comp_db so2_comp_db v2_comp_db; mat_unfold2; cbv zeta)|]);
  (split; [rel_pick ltac:(revert Hpath; autounfold with bei_comp_db so2_comp_db v2_comp_db; mat_unfold2; cbv zeta)|]);
  autounfold with bei_comp_db so2_comp_db v2_comp_db; mat_unfold2; cbv zeta; reflexivity.
Qed.

Lemma bei_inv_parts :
  forall g0 g1 g2 g3 out,
  Gen.BEi.bei_inv_rel [g0; g1; g2; g3] out ->
  exists o0 o1,
    Gen.SO2.so2_inv_rel [g0; g1] o0 /\
    Gen.Rn.v2_inv_rel [g2; g3] o1 /\
    out = o0 ++ o1.
Proof.
  intros g0 g1 g2 g3 out Hrel. rel_cases Hrel;
  eexists; eexists;
  (split; [rel_pick ltac:(revert Hpath; autounfold with bei_inv_db so2_inv_db v2_inv_db; mat_unfold2; cbv zeta)|]);
  (split; [rel_pick ltac:(revert Hpath; autounfold with bei_inv_db so2_inv_db v2_inv_db; mat_unfold2; cbv zeta)|]);
  autounfold with bei_inv_db so2_inv_db v2_inv_db; mat_unfold2; cbv zeta; reflexivity.
Qed.

Lemma bei_log_parts :
  forall g0 g1 g2 g3 out,
  Gen.BEi.bei_log_rel [g0; g1; g2; g3] out ->
  exists o0 o1,
    Gen.SO2.so2_log_rel [g0; g1] o0 /\
    Gen.Rn.v2_log_rel [g2; g3] o1 /\
    out = o0 ++ o1.
Proof.
  intros g0 g1 g2 g3 out Hrel. rel_cases Hrel;
  eexists; eexists;
  (split; [rel_pick ltac:(revert Hpath; autounfold with bei_log_db so2_log_db v2_log_db; mat_unfold2; cbv zeta)|]);
  (split; [rel_pick ltac:(revert Hpath; autounfold with bei_log_db so2_log_db v2_log_db; mat_unfold2; cbv zeta)|]);
  autounfold with bei_log_db so2_log_db v2_log_db; mat_unfold2; cbv zeta; reflexivity.
Qed.

Lemma bei_exp_parts :
  forall a0 a1 a2 out,
  Gen.BEi.bei_exp_rel [a0; a1; a2] out ->
  exists o0 o1,
    Gen.SO2.so2_exp_rel [a0] o0 /\
    Gen.Rn.v2_exp_rel [a1; a2] o1 /\
    out = o0 ++ o1.
Proof.
  intros a0 a1 a2 out Hrel. rel_cases Hrel;
  eexists; eexists;
  (split; [rel_pick ltac:(revert Hpath; autounfold with bei_exp_db so2_exp_db v2_exp_db; mat_unfold2; cbv zeta)|]);
  (split; [rel_pick ltac:(revert Hpath; autounfold with bei_exp_db so2_exp_db v2_exp_db; mat_unfold2; cbv zeta)|]);
  autounfold with bei_exp_db so2_exp_db v2_exp_db; mat_unfold2; cbv zeta; reflexivity.
Qed.

Lemma bei_Ad_parts :
  forall g0 g1 g2 g3 out,
  Gen.BEi.bei_Ad_rel [g0; g1; g2; g3] out ->
  exists o0 o1,
    Gen.SO2.so2_Ad_rel [g0; g1] o0 /\
    Gen.Rn.v2_Ad_rel [g2; g3] o1 /\
    out = blockdiag [o0; o1].
Proof.
  intros g0 g1 g2 g3 out Hrel. rel_cases Hrel;
  eexists; eexists;
  (split; [rel_pick ltac:(revert Hpath; autounfold with bei_Ad_db so2_Ad_db v2_Ad_db; mat_unfold2; cbv zeta)|]);
  (split; [rel_pick ltac:(revert Hpath; autounfold with bei_Ad_db so2_Ad_db v2_Ad_db; mat_unfold2; cbv zeta)|]);
  autounfold with bei_Ad_db so2_Ad_db v2_Ad_db; mat_unfold2; cbv zeta; reflexivity.
Qed.

Lemma bei_ad_parts :
  forall a0 a1 a2 out,
  Gen.BEi.bei_ad_rel [a0; a1; a2] out ->
  exists o0 o1,
    Gen.SO2.so2_ad_rel [a0] o0 /\
    Gen.Rn.v2_ad_rel [a1; a2] o1 /\
    out = blockdiag [o0; o1].
Proof.
  intros a0 a1 a2 out Hrel. rel_cases Hrel;
  eexists; eexists;
  (split; [rel_pick ltac:(revert Hpath; autounfold with bei_ad_db so2_ad_db v2_ad_db; mat_unfold2; cbv zeta)|]);
  (split; [rel_pick ltac:(revert Hpath; autounfold with bei_ad_db so2_ad_db v2_ad_db; mat_unfold2; cbv zeta)|]);
  autounfold with bei_ad_db so2_ad_db v2_ad_db; mat_unfold2; cbv zeta; reflexivity.
Qed.

Lemma bei_dr_exp_parts :
  forall a0 a1 a2 out,
  Gen.BEi.bei_dr_exp_rel [a0; a1; a2] out ->
  exists o0 o1,
    Gen.SO2.so2_dr_exp_rel [a0] o0 /\
    Gen.Rn.v2_dr_exp_rel [a1; a2] o1 /\
    out = blockdiag [o0; o1].
Proof.
  intros a0 a1 a2 out Hrel. rel_cases Hrel;
  eexists; eexists;
  (split; [rel_pick ltac:(revert Hpath; autounfold with bei_dr_exp_db so2_dr_exp_db v2_dr_exp_db; mat_unfold2; cbv zeta)|]);
  (split; [rel_pick ltac:(revert Hpath; autounfold with bei_dr_exp_db so2_dr_exp_db v2_dr_exp_db; mat_unfold2; cbv zeta)|]);
  autounfold with bei_dr_exp_db so2_dr_exp_db v2_dr_exp_db; mat_unfold2; cbv zeta; reflexivity.
Qed.

Lemma bei_dr_expinv_parts :
  forall a0 a1 a2 out,
  Gen.BEi.bei_dr_expinv_rel [a0; a1; a2] out ->
  exists o0 o1,
    Gen.SO2.so2_dr_expinv_rel [a0] o0 /\
    Gen.Rn.v2_dr_expinv_rel [a1; a2] o1 /\
    out = blockdiag [o0; o1].
Proof.
  intros a0 a1 a2 out Hrel. rel_cases Hrel;
  eexists; eexists;
  (split; [rel_pick ltac:(revert Hpath; autounfold with bei_dr_expinv_db so2_dr_expinv_db v2_dr_expinv_db; mat_unfold2; cbv zeta)|]);
  (split; [rel_pick ltac:(revert Hpath; autounfold with bei_dr_expinv_db so2_dr_expinv_db v2_dr_expinv_db; mat_unfold2; cbv zeta)|]);
  autounfold with bei_dr_expinv_db so2_dr_expinv_db v2_dr_expinv_db; mat_unfold2; cbv zeta; reflexivity.
Qed.

Lemma bei_d2r_exp_parts :
  forall a0 a1 a2 out,
  Gen.BEi.bei_d2r_exp_rel [a0; a1; a2] out ->
  exists o0 o1,
    Gen.SO2.so2_d2r_exp_rel [a0] o0 /\
    Gen.Rn.v2_d2r_exp_rel [a1; a2] o1 /\
    out = bundle_hess [o0; o1].
Proof.
  intros a0 a1 a2 out Hrel. rel_cases Hrel;
  eexists; eexists;
  (split; [rel_pick ltac:(revert Hpath; autounfold with bei_d2r_exp_db so2_d2r_exp_db v2_d2r_exp_db; mat_unfold2; cbv zeta)|]);
  (split; [rel_pick ltac:(revert Hpath; autounfold with bei_d2r_exp_db so2_d2r_exp_db v2_d2r_exp_db; mat_unfold2; cbv zeta)|]);
  autounfold with bei_d2r_exp_db so2_d2r_exp_db v2_d2r_exp_db; mat_unfold2; cbv zeta; reflexivity.
Qed.

Lemma bei_d2r_expinv_parts :
  forall a0 a1 a2 out,
  Gen.BEi.bei_d2r_expinv_rel [a0; a1; a2] out ->
  exists o0 o1,
    Gen.SO2.so2_d2r_expinv_rel [a0] o0 /\
    Gen.Rn.v2_d2r_expinv_rel [a1; a2] o1 /\
    out = bundle_hess [o0; o1].
Proof.
  intros a0 a1 a2 out Hrel. rel_cases Hrel;
  eexists; eexists;
  (split; [rel_pick ltac:(revert Hpath; autounfold with bei_d2r_expinv_db so2_d2r_expinv_db v2_d2r_expinv_db; mat_unfold2; cbv zeta)|]);
  (split; [rel_pick ltac:(revert Hpath; autounfold with bei_d2r_expinv_db so2_d2r_expinv_db v2_d2r_expinv_db; mat_unfold2; cbv zeta)|]);
  autounfold with bei_d2r_expinv_db so2_d2r_expinv_db v2_d2r_expinv_db; mat_unfold2; cbv zeta; reflexivity.
Qed.

Lemma bei_identity_parts :
  forall out, Gen.BEi.bei_identity_rel out ->
  exists o0 o1,
    Gen.SO2.so2_identity_rel o0 /\
    Gen.Rn.v2_identity_rel o1 /\
    out = o0 ++ o1.
Proof.
  intros out Hrel. rel_cases Hrel;
  eexists; eexists;
  (split; [rel_pick ltac:(revert Hpath; autounfold with bei_identity_db so2_identity_db v2_identity_db; mat_unfold2; cbv zeta)|]);
  (split; [rel_pick ltac:(revert Hpath; autounfold with bei_identity_db so2_identity_db v2_identity_db; mat_unfold2; cbv zeta)|]);
  autounfold with bei_identity_db so2_identity_db v2_identity_db; mat_unfold2; cbv zeta; reflexivity.
Qed.

Lemma bei_part0_view :
  forall g0 g1 g2 g3 out,
  Gen.BEi.bei_part0_rel [g0; g1; g2; g3] out ->
  out = [g0; g1] /\ out = vslice [g0; g1; g2; g3] (nth 0 (psum [2%nat; 2%nat]) 0%nat) 2%nat.
Proof.
  intros g0 g1 g2 g3 out Hrel. rel_cases Hrel. autounfold with bei_part0_db. mat_unfold2. cbv zeta. split; reflexivity.
Qed.

Lemma bei_part1_view :
  forall g0 g1 g2 g3 out,
  Gen.BEi.bei_part1_rel [g0; g1; g2; g3] out ->
  out = [g2; g3] /\ out = vslice [g0; g1; g2; g3] (nth 1 (psum [2%nat; 2%nat]) 0%nat) 2%nat.
Proof.
  intros g0 g1 g2 g3 out Hrel. rel_cases Hrel. autounfold with bei_part1_db. mat_unfold2. cbv zeta. split; reflexivity.
Qed.

