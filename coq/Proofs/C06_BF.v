(* Written with scripts/author/c06.py (committed output; the check builds this file against
   the freshly generated Gen/BF.v).  Property C06. *)
From Coq Require Import Reals List Lra.
From SV Require Import Base.GenPrelude Base.Mat Doc.Groups Base.Tactics Gen.BF Gen.C1 Gen.SE3 Gen.SE3H.
Import ListNotations.
Local Open Scope R_scope.

Lemma bf_comp_parts :
  forall g0 g1 g2 g3 g4 g5 g6 g7 g8 h0 h1 h2 h3 h4 h5 h6 h7 h8 out,
  Gen.BF.bf_comp_rel [g0; g1; g2; g3; g4; g5; g6; g7; g8] [h0; h1; h2; h3; h4; h5; h6; h7; h8] out ->
  exists o0 o1,
    Gen.C1.c1_comp_rel [g0; g1] [h0; h1] o0 /\
    Gen.SE3.se3_comp_rel [g2; g3; g4; g5; g6; g7; g8] [h2; h3; h4; h5; h6; h7; h8] o1 /\
    out = o0 ++ o1.
Proof.
  intros g0 g1 g2 g3 g4 g5 g6 g7 g8 h0 h1 h2 h3 h4 h5 h6 h7 h8 out Hrel. rel_cases Hrel;
  eexists; eexists;
  (split; [rel_pick ltac:(revert Hpath; autounfold with bf_comp_db c1_comp_db se3_comp_db; mat_unfold2; cbv zeta)|]);
  (split; [rel_pick ltac:(revert Hpath; autounfold with bf_comp_db c1_comp_db se3_comp_db; mat_unfold2; cbv zeta)|]);
  autounfold with bf_comp_db c1_comp_db se3_comp_db; mat_unfold2; cbv zeta; reflexivity.
Qed.

Lemma bf_inv_parts :
  forall g0 g1 g2 g3 g4 g5 g6 g7 g8 out,
  Gen.BF.bf_inv_rel [g0; g1; g2; g3; g4; g5; g6; g7; g8] out ->
  exists o0 o1,
    Gen.C1.c1_inv_rel [g0; g1] o0 /\
    Gen.SE3.se3_inv_rel [g2; g3; g4; g5; g6; g7; g8] o1 /\
    out = o0 ++ o1.
Proof.
  intros g0 g1 g2 g3 g4 g5 g6 g7 g8 out Hrel. rel_cases Hrel;
  eexists; eexists;
  (split; [rel_pick ltac:(revert Hpath; autounfold with bf_inv_db c1_inv_db se3_inv_db; mat_unfold2; cbv zeta)|]);
  (split; [rel_pick ltac:(revert Hpath; autounfold with bf_inv_db c1_inv_db se3_inv_db; mat_unfold2; cbv zeta)|]);
  autounfold with bf_inv_db c1_inv_db se3_inv_db; mat_unfold2; cbv zeta; reflexivity.
Qed.

Lemma bf_log_parts :
  forall g0 g1 g2 g3 g4 g5 g6 g7 g8 out,
  Gen.BF.bf_log_rel [g0; g1; g2; g3; g4; g5; g6; g7; g8] out ->
  exists o0 o1,
    Gen.C1.c1_log_rel [g0; g1] o0 /\
    Gen.SE3.se3_log_rel [g2; g3; g4; g5; g6; g7; g8] o1 /\
    out = o0 ++ o1.
Proof.
  intros g0 g1 g2 g3 g4 g5 g6 g7 g8 out Hrel. rel_cases Hrel;
  eexists; eexists;
  (split; [rel_pick ltac:(revert Hpath; autounfold with bf_log_db c1_log_db se3_log_db; mat_unfold2; cbv zeta)|]);
  (split; [rel_pick ltac:(revert Hpath; autounfold with bf_log_db c1_log_db se3_log_db; mat_unfold2; cbv zeta)|]);
  autounfold with bf_log_db c1_log_db se3_log_db; mat_unfold2; cbv zeta; reflexivity.
Qed.

Lemma bf_exp_parts :
  forall a0 a1 a2 a3 a4 a5 a6 a7 out,
  Gen.BF.bf_exp_rel [a0; a1; a2; a3; a4; a5; a6; a7] out ->
  exists o0 o1,
    Gen.C1.c1_exp_rel [a0; a1] o0 /\
    Gen.SE3.se3_exp_rel [a2; a3; a4; a5; a6; a7] o1 /\
    out = o0 ++ o1.
Proof.
  intros a0 a1 a2 a3 a4 a5 a6 a7 out Hrel. rel_cases Hrel;
  eexists; eexists;
  (split; [rel_pick ltac:(revert Hpath; autounfold with bf_exp_db c1_exp_db se3_exp_db; mat_unfold2; cbv zeta)|]);
  (split; [rel_pick ltac:(revert Hpath; autounfold with bf_exp_db c1_exp_db se3_exp_db; mat_unfold2; cbv zeta)|]);
  autounfold with bf_exp_db c1_exp_db se3_exp_db; mat_unfold2; cbv zeta; reflexivity.
Qed.

Lemma bf_Ad_parts :
  forall g0 g1 g2 g3 g4 g5 g6 g7 g8 out,
  Gen.BF.bf_Ad_rel [g0; g1; g2; g3; g4; g5; g6; g7; g8] out ->
  exists o0 o1,
    Gen.C1.c1_Ad_rel [g0; g1] o0 /\
    Gen.SE3.se3_Ad_rel [g2; g3; g4; g5; g6; g7; g8] o1 /\
    out = blockdiag [o0; o1].
Proof.
  intros g0 g1 g2 g3 g4 g5 g6 g7 g8 out Hrel. rel_cases Hrel;
  eexists; eexists;
  (split; [rel_pick ltac:(revert Hpath; autounfold with bf_Ad_db c1_Ad_db se3_Ad_db; mat_unfold2; cbv zeta)|]);
  (split; [rel_pick ltac:(revert Hpath; autounfold with bf_Ad_db c1_Ad_db se3_Ad_db; mat_unfold2; cbv zeta)|]);
  autounfold with bf_Ad_db c1_Ad_db se3_Ad_db; mat_unfold2; cbv zeta; reflexivity.
Qed.

Lemma bf_ad_parts :
  forall a0 a1 a2 a3 a4 a5 a6 a7 out,
  Gen.BF.bf_ad_rel [a0; a1; a2; a3; a4; a5; a6; a7] out ->
  exists o0 o1,
    Gen.C1.c1_ad_rel [a0; a1] o0 /\
    Gen.SE3.se3_ad_rel [a2; a3; a4; a5; a6; a7] o1 /\
    out = blockdiag [o0; o1].
Proof.
  intros a0 a1 a2 a3 a4 a5 a6 a7 out Hrel. rel_cases Hrel;
  eexists; eexists;
  (split; [rel_pick ltac:(revert Hpath; autounfold with bf_ad_db c1_ad_db se3_ad_db; mat_unfold2; cbv zeta)|]);
  (split; [rel_pick ltac:(revert Hpath; autounfold with bf_ad_db c1_ad_db se3_ad_db; mat_unfold2; cbv zeta)|]);
  autounfold with bf_ad_db c1_ad_db se3_ad_db; mat_unfold2; cbv zeta; reflexivity.
Qed.

Lemma bf_dr_exp_parts :
  forall a0 a1 a2 a3 a4 a5 a6 a7 out,
  Gen.BF.bf_dr_exp_rel [a0; a1; a2; a3; a4; a5; a6; a7] out ->
  exists o0 o1,
    Gen.C1.c1_dr_exp_rel [a0; a1] o0 /\
    Gen.SE3.se3_dr_exp_rel [a2; a3; a4; a5; a6; a7] o1 /\
    out = blockdiag [o0; o1].
Proof.
  intros a0 a1 a2 a3 a4 a5 a6 a7 out Hrel. rel_cases Hrel;
  eexists; eexists;
  (split; [rel_pick ltac:(revert Hpath; autounfold with bf_dr_exp_db c1_dr_exp_db se3_dr_exp_db; mat_unfold2; cbv zeta)|]);
  (split; [rel_pick ltac:(revert Hpath; autounfold with bf_dr_exp_db c1_dr_exp_db se3_dr_exp_db; mat_unfold2; cbv zeta)|]);
  autounfold with bf_dr_exp_db c1_dr_exp_db se3_dr_exp_db; mat_unfold2; cbv zeta; reflexivity.
Qed.

Lemma bf_dr_expinv_parts :
  forall a0 a1 a2 a3 a4 a5 a6 a7 out,
  Gen.BF.bf_dr_expinv_rel [a0; a1; a2; a3; a4; a5; a6; a7] out ->
  exists o0 o1,
    Gen.C1.c1_dr_expinv_rel [a0; a1] o0 /\
    Gen.SE3.se3_dr_expinv_rel [a2; a3; a4; a5; a6; a7] o1 /\
    out = blockdiag [o0; o1].
Proof.
  intros a0 a1 a2 a3 a4 a5 a6 a7 out Hrel. rel_cases Hrel;
  eexists; eexists;
  (split; [rel_pick ltac:(revert Hpath; autounfold with bf_dr_expinv_db c1_dr_expinv_db se3_dr_expinv_db; mat_unfold2; cbv zeta)|]);
  (split; [rel_pick ltac:(revert Hpath; autounfold with bf_dr_expinv_db c1_dr_expinv_db se3_dr_expinv_db; mat_unfold2; cbv zeta)|]);
  autounfold with bf_dr_expinv_db c1_dr_expinv_db se3_dr_expinv_db; mat_unfold2; cbv zeta; reflexivity.
Qed.

Lemma bf_d2r_exp_parts :
  forall a0 a1 a2 a3 a4 a5 a6 a7 out,
  Gen.BF.bf_d2r_exp_rel [a0; a1; a2; a3; a4; a5; a6; a7] out ->
  exists o0 o1,
    Gen.C1.c1_d2r_exp_rel [a0; a1] o0 /\
    Gen.SE3H.se3_d2r_exp_rel [a2; a3; a4; a5; a6; a7] o1 /\
    out = bundle_hess [o0; o1].
Proof.
  intros a0 a1 a2 a3 a4 a5 a6 a7 out Hrel. rel_cases Hrel;
  eexists; eexists;
  (split; [rel_pick ltac:(revert Hpath; autounfold with bf_d2r_exp_db c1_d2r_exp_db se3_d2r_exp_db; mat_unfold2; cbv zeta)|]);
  (split; [rel_pick ltac:(revert Hpath; autounfold with bf_d2r_exp_db c1_d2r_exp_db se3_d2r_exp_db; mat_unfold2; cbv zeta)|]);
  autounfold with bf_d2r_exp_db c1_d2r_exp_db se3_d2r_exp_db; mat_unfold2; cbv zeta; reflexivity.
Qed.

Lemma bf_d2r_expinv_parts :
  forall a0 a1 a2 a3 a4 a5 a6 a7 out,
  Gen.BF.bf_d2r_expinv_rel [a0; a1; a2; a3; a4; a5; a6; a7] out ->
  exists o0 o1,
    Gen.C1.c1_d2r_expinv_rel [a0; a1] o0 /\
    Gen.SE3H.se3_d2r_expinv_rel [a2; a3; a4; a5; a6; a7] o1 /\
    out = bundle_hess [o0; o1].
Proof.
  intros a0 a1 a2 a3 a4 a5 a6 a7 out Hrel. rel_cases Hrel;
  eexists; eexists;
  (split; [rel_pick ltac:(revert Hpath; autounfold with bf_d2r_expinv_db c1_d2r_expinv_db se3_d2r_expinv_db; mat_unfold2; cbv zeta)|]);
  (split; [rel_pick ltac:(revert Hpath; autounfold with bf_d2r_expinv_db c1_d2r_expinv_db se3_d2r_expinv_db; mat_unfold2; cbv zeta)|]);
  autounfold with bf_d2r_expinv_db c1_d2r_expinv_db se3_d2r_expinv_db; mat_unfold2; cbv zeta; reflexivity.
Qed.

Lemma bf_identity_parts :
  forall out, Gen.BF.bf_identity_rel out ->
  exists o0 o1,
    Gen.C1.c1_identity_rel o0 /\
    Gen.SE3.se3_identity_rel o1 /\
    out = o0 ++ o1.
Proof.
  intros out Hrel. rel_cases Hrel;
  eexists; eexists;
  (split; [rel_pick ltac:(revert Hpath; autounfold with bf_identity_db c1_identity_db se3_identity_db; mat_unfold2; cbv zeta)|]);
  (split; [rel_pick ltac:(revert Hpath; autounfold with bf_identity_db c1_identity_db se3_identity_db; mat_unfold2; cbv zeta)|]);
  autounfold with bf_identity_db c1_identity_db se3_identity_db; mat_unfold2; cbv zeta; reflexivity.
Qed.

Lemma bf_part0_view :
  forall g0 g1 g2 g3 g4 g5 g6 g7 g8 out,
  Gen.BF.bf_part0_rel [g0; g1; g2; g3; g4; g5; g6; g7; g8] out ->
  out = [g0; g1] /\ out = vslice [g0; g1; g2; g3; g4; g5; g6; g7; g8] (nth 0 (psum [2%nat; 7%nat]) 0%nat) 2%nat.
Proof.
  intros g0 g1 g2 g3 g4 g5 g6 g7 g8 out Hrel. rel_cases Hrel. autounfold with bf_part0_db. mat_unfold2. cbv zeta. split; reflexivity.
Qed.

Lemma bf_part1_view :
  forall g0 g1 g2 g3 g4 g5 g6 g7 g8 out,
  Gen.BF.bf_part1_rel [g0; g1; g2; g3; g4; g5; g6; g7; g8] out ->
  out = [g2; g3; g4; g5; g6; g7; g8] /\ out = vslice [g0; g1; g2; g3; g4; g5; g6; g7; g8] (nth 1 (psum [2%nat; 7%nat]) 0%nat) 7%nat.
Proof.
  intros g0 g1 g2 g3 g4 g5 g6 g7 g8 out Hrel. rel_cases Hrel. autounfold with bf_part1_db. mat_unfold2. cbv zeta. split; reflexivity.
Qed.

