(* Written with scripts/author/c06.py (committed output; the check builds this file against
   the freshly generated Gen/BG.v).  Property C06. *)
From Coq Require Import Reals List Lra.
From SV Require Import Base.GenPrelude Base.Mat Doc.Groups Base.Tactics Gen.BG Gen.Rn Gen.C1 Gen.SO2.
Import ListNotations.
Local Open Scope R_scope.

Lemma bg_comp_parts :
  forall g0 g1 g2 g3 g4 h0 h1 h2 h3 h4 out,
  Gen.BG.bg_comp_rel [g0; g1; g2; g3; g4] [h0; h1; h2; h3; h4] out ->
  exists o0 o1 o2,
    Gen.Rn.v1_comp_rel [g0] [h0] o0 /\
    Gen.C1.c1_comp_rel [g1; g2] [h1; h2] o1 /\
    Gen.SO2.so2_comp_rel [g3; g4] [h3; h4] o2 /\
    out = o0 ++ o1 ++ o2.
Proof.
  intros g0 g1 g2 g3 g4 h0 h1 h2 h3 h4 out Hrel. rel_cases Hrel;
  eexists; eexists; eexists;
  (split; [rel_pick ltac:(revert Hpath; autounfold with bg_comp_db c1_comp_db so2_comp_db v1_comp_db; mat_unfold2; cbv zeta)|]);
  (split; [rel_pick ltac:(revert Hpath; autounfold with bg_comp_db c1_comp_db so2_comp_db v1_comp_db; mat_unfold2; cbv zeta)|]);
  (split; [rel_pick ltac:(revert Hpath; autounfold with bg_comp_db c1_comp_db so2_comp_db v1_comp_db; mat_unfold2; cbv zeta)|]);
  autounfold with bg_comp_db c1_comp_db so2_comp_db v1_comp_db; mat_unfold2; cbv zeta; reflexivity.
Qed.

Lemma bg_inv_parts :
  forall g0 g1 g2 g3 g4 out,
  Gen.BG.bg_inv_rel [g0; g1; g2; g3; g4] out ->
  exists o0 o1 o2,
    Gen.Rn.v1_inv_rel [g0] o0 /\
    Gen.C1.c1_inv_rel [g1; g2] o1 /\
    Gen.SO2.so2_inv_rel [g3; g4] o2 /\
    out = o0 ++ o1 ++ o2.
Proof.
  intros g0 g1 g2 g3 g4 out Hrel. rel_cases Hrel;
  eexists; eexists; eexists;
  (split; [rel_pick ltac:(revert Hpath; autounfold with bg_inv_db c1_inv_db so2_inv_db v1_inv_db; mat_unfold2; cbv zeta)|]);
  (split; [rel_pick ltac:(revert Hpath; autounfold with bg_inv_db c1_inv_db so2_inv_db v1_inv_db; mat_unfold2; cbv zeta)|]);
  (split; [rel_pick ltac:(revert Hpath; autounfold with bg_inv_db c1_inv_db so2_inv_db v1_inv_db; mat_unfold2; cbv zeta)|]);
  autounfold with bg_inv_db c1_inv_db so2_inv_db v1_inv_db; mat_unfold2; cbv zeta; reflexivity.
Qed.

Lemma bg_log_parts :
  forall g0 g1 g2 g3 g4 out,
  Gen.BG.bg_log_rel [g0; g1; g2; g3; g4] out ->
  exists o0 o1 o2,
    Gen.Rn.v1_log_rel [g0] o0 /\
    Gen.C1.c1_log_rel [g1; g2] o1 /\
    Gen.SO2.so2_log_rel [g3; g4] o2 /\
    out = o0 ++ o1 ++ o2.
Proof.
  intros g0 g1 g2 g3 g4 out Hrel. rel_cases Hrel;
  eexists; eexists; eexists;
  (split; [rel_pick ltac:(revert Hpath; autounfold with bg_log_db c1_log_db so2_log_db v1_log_db; mat_unfold2; cbv zeta)|]);
  (split; [rel_pick ltac:(revert Hpath; autounfold with bg_log_db c1_log_db so2_log_db v1_log_db; mat_unfold2; cbv zeta)|]);
  (split; [rel_pick ltac:(revert Hpath; autounfold with bg_log_db c1_log_db so2_log_db v1_log_db; mat_unfold2; cbv zeta)|]);
  autounfold with bg_log_db c1_log_db so2_log_db v1_log_db; mat_unfold2; cbv zeta; reflexivity.
Qed.

Lemma bg_exp_parts :
  forall a0 a1 a2 a3 out,
  Gen.BG.bg_exp_rel [a0; a1; a2; a3] out ->
  exists o0 o1 o2,
    Gen.Rn.v1_exp_rel [a0] o0 /\
    Gen.C1.c1_exp_rel [a1; a2] o1 /\
    Gen.SO2.so2_exp_rel [a3] o2 /\
    out = o0 ++ o1 ++ o2.
Proof.
  intros a0 a1 a2 a3 out Hrel. rel_cases Hrel;
  eexists; eexists; eexists;
  (split; [rel_pick ltac:(revert Hpath; autounfold with bg_exp_db c1_exp_db so2_exp_db v1_exp_db; mat_unfold2; cbv zeta)|]);
  (split; [rel_pick ltac:(revert Hpath; autounfold with bg_exp_db c1_exp_db so2_exp_db v1_exp_db; mat_unfold2; cbv zeta)|]);
  (split; [rel_pick ltac:(revert Hpath; autounfold with bg_exp_db c1_exp_db so2_exp_db v1_exp_db; mat_unfold2; cbv zeta)|]);
  autounfold with bg_exp_db c1_exp_db so2_exp_db v1_exp_db; mat_unfold2; cbv zeta; reflexivity.
Qed.

Lemma bg_Ad_parts :
  forall g0 g1 g2 g3 g4 out,
  Gen.BG.bg_Ad_rel [g0; g1; g2; g3; g4] out ->
  exists o0 o1 o2,
    Gen.Rn.v1_Ad_rel [g0] o0 /\
    Gen.C1.c1_Ad_rel [g1; g2] o1 /\
    Gen.SO2.so2_Ad_rel [g3; g4] o2 /\
    out = blockdiag [o0; o1; o2].
Proof.
  intros g0 g1 g2 g3 g4 out Hrel. rel_cases Hrel;
  eexists; eexists; eexists;
  (split; [rel_pick ltac:(revert Hpath; autounfold with bg_Ad_db c1_Ad_db so2_Ad_db v1_Ad_db; mat_unfold2; cbv zeta)|]);
  (split; [rel_pick ltac:(revert Hpath; autounfold with bg_Ad_db c1_Ad_db so2_Ad_db v1_Ad_db; mat_unfold2; cbv zeta)|]);
  (split; [rel_pick ltac:(revert Hpath; autounfold with bg_Ad_db c1_Ad_db so2_Ad_db v1_Ad_db; mat_unfold2; cbv zeta)|]);
  autounfold with bg_Ad_db c1_Ad_db so2_Ad_db v1_Ad_db; mat_unfold2; cbv zeta; reflexivity.
Qed.

Lemma bg_ad_parts :
  forall a0 a1 a2 a3 out,
  Gen.BG.bg_ad_rel [a0; a1; a2; a3] out ->
  exists o0 o1 o2,
    Gen.Rn.v1_ad_rel [a0] o0 /\
    Gen.C1.c1_ad_rel [a1; a2] o1 /\
    Gen.SO2.so2_ad_rel [a3] o2 /\
    out = blockdiag [o0; o1; o2].
Proof.
  intros a0 a1 a2 a3 out Hrel. rel_cases Hrel;
  eexists; eexists; eexists;
  (split; [rel_pick ltac:(revert Hpath; autounfold with bg_ad_db c1_ad_db so2_ad_db v1_ad_db; mat_unfold2; cbv zeta)|]);
  (split; [rel_pick ltac:(revert Hpath; autounfold with bg_ad_db c1_ad_db so2_ad_db v1_ad_db; mat_unfold2; cbv zeta)|]);
  (split; [rel_pick ltac:(revert Hpath; autounfold with bg_ad_db c1_ad_db so2_ad_db v1_ad_db; mat_unfold2; cbv zeta)|]);
  autounfold with bg_ad_db c1_ad_db so2_ad_db v1_ad_db; mat_unfold2; cbv zeta; reflexivity.
Qed.

Lemma bg_dr_exp_parts :
  forall a0 a1 a2 a3 out,
  Gen.BG.bg_dr_exp_rel [a0; a1; a2; a3] out ->
  exists o0 o1 o2,
    Gen.Rn.v1_dr_exp_rel [a0] o0 /\
    Gen.C1.c1_dr_exp_rel [a1; a2] o1 /\
    Gen.SO2.so2_dr_exp_rel [a3] o2 /\
    out = blockdiag [o0; o1; o2].
Proof.
  intros a0 a1 a2 a3 out Hrel. rel_cases Hrel;
  eexists; eexists; eexists;
  (split; [rel_pick ltac:(revert Hpath; autounfold with bg_dr_exp_db c1_dr_exp_db so2_dr_exp_db v1_dr_exp_db; mat_unfold2; cbv zeta)|]);
  (split; [rel_pick ltac:(revert Hpath; autounfold with bg_dr_exp_db c1_dr_exp_db so2_dr_exp_db v1_dr_exp_db; mat_unfold2; cbv zeta)|]);
  (split; [rel_pick ltac:(revert Hpath; autounfold with bg_dr_exp_db c1_dr_exp_db so2_dr_exp_db v1_dr_exp_db; mat_unfold2; cbv zeta)|]);
  autounfold with bg_dr_exp_db c1_dr_exp_db so2_dr_exp_db v1_dr_exp_db; mat_unfold2; cbv zeta; reflexivity.
Qed.

Lemma bg_dr_expinv_parts :
  forall a0 a1 a2 a3 out,
  Gen.BG.bg_dr_expinv_rel [a0; a1; a2; a3] out ->
  exists o0 o1 o2,
    Gen.Rn.v1_dr_expinv_rel [a0] o0 /\
    Gen.C1.c1_dr_expinv_rel [a1; a2] o1 /\
    Gen.SO2.so2_dr_expinv_rel [a3] o2 /\
    out = blockdiag [o0; o1; o2].
Proof.
  intros a0 a1 a2 a3 out Hrel. rel_cases Hrel;
  eexists; eexists; eexists;
  (split; [rel_pick ltac:(revert Hpath; autounfold with bg_dr_expinv_db c1_dr_expinv_db so2_dr_expinv_db v1_dr_expinv_db; mat_unfold2; cbv zeta)|]);
  (split; [rel_pick ltac:(revert Hpath; autounfold with bg_dr_expinv_db c1_dr_expinv_db so2_dr_expinv_db v1_dr_expinv_db; mat_unfold2; cbv zeta)|]);
  (split; [rel_pick ltac:(revert Hpath; autounfold with bg_dr_expinv_db c1_dr_expinv_db so2_dr_expinv_db v1_dr_expinv_db; mat_unfold2; cbv zeta)|]);
  autounfold with bg_dr_expinv_db c1_dr_expinv_db so2_dr_expinv_db v1_dr_expinv_db; mat_unfold2; cbv zeta; reflexivity.
Qed.

Lemma bg_d2r_exp_parts :
  forall a0 a1 a2 a3 out,
  Gen.BG.bg_d2r_exp_rel [a0; a1; a2; a3] out ->
  exists o0 o1 o2,
    Gen.Rn.v1_d2r_exp_rel [a0] o0 /\
    Gen.C1.c1_d2r_exp_rel [a1; a2] o1 /\
    Gen.SO2.so2_d2r_exp_rel [a3] o2 /\
    out = bundle_hess [o0; o1; o2].
Proof.
  intros a0 a1 a2 a3 out Hrel. rel_cases Hrel;
  eexists; eexists; eexists;
  (split; [rel_pick ltac:(revert Hpath; autounfold with bg_d2r_exp_db c1_d2r_exp_db so2_d2r_exp_db v1_d2r_exp_db; mat_unfold2; cbv zeta)|]);
  (split; [rel_pick ltac:(revert Hpath; autounfold with bg_d2r_exp_db c1_d2r_exp_db so2_d2r_exp_db v1_d2r_exp_db; mat_unfold2; cbv zeta)|]);
  (split; [rel_pick ltac:(revert Hpath; autounfold with bg_d2r_exp_db c1_d2r_exp_db so2_d2r_exp_db v1_d2r_exp_db; mat_unfold2; cbv zeta)|]);
  autounfold with bg_d2r_exp_db c1_d2r_exp_db so2_d2r_exp_db v1_d2r_exp_db; mat_unfold2; cbv zeta; reflexivity.
Qed.

Lemma bg_d2r_expinv_parts :
  forall a0 a1 a2 a3 out,
  Gen.BG.bg_d2r_expinv_rel [a0; a1; a2; a3] out ->
  exists o0 o1 o2,
    Gen.Rn.v1_d2r_expinv_rel [a0] o0 /\
    Gen.C1.c1_d2r_expinv_rel [a1; a2] o1 /\
    Gen.SO2.so2_d2r_expinv_rel [a3] o2 /\
    out = bundle_hess [o0; o1; o2].
Proof.
  intros a0 a1 a2 a3 out Hrel. rel_cases Hrel;
  eexists; eexists; eexists;
  (split; [rel_pick ltac:(revert Hpath; autounfold with bg_d2r_expinv_db c1_d2r_expinv_db so2_d2r_expinv_db v1_d2r_expinv_db; mat_unfold2; cbv zeta)|]);
  (split; [rel_pick ltac:(revert Hpath; autounfold with bg_d2r_expinv_db c1_d2r_expinv_db so2_d2r_expinv_db v1_d2r_expinv_db; mat_unfold2; cbv zeta)|]);
  (split; [rel_pick ltac:(revert Hpath; autounfold with bg_d2r_expinv_db c1_d2r_expinv_db so2_d2r_expinv_db v1_d2r_expinv_db; mat_unfold2; cbv zeta)|]);
  autounfold with bg_d2r_expinv_db c1_d2r_expinv_db so2_d2r_expinv_db v1_d2r_expinv_db; mat_unfold2; cbv zeta; reflexivity.
Qed.

Lemma bg_identity_parts :
  forall out, Gen.BG.bg_identity_rel out ->
  exists o0 o1 o2,
    Gen.Rn.v1_identity_rel o0 /\
    Gen.C1.c1_identity_rel o1 /\
    Gen.SO2.so2_identity_rel o2 /\
    out = o0 ++ o1 ++ o2.
Proof.
  intros out Hrel. rel_cases Hrel;
  eexists; eexists; eexists;
  (split; [rel_pick ltac:(revert Hpath; autounfold with bg_identity_db c1_identity_db so2_identity_db v1_identity_db; mat_unfold2; cbv zeta)|]);
  (split; [rel_pick ltac:(revert Hpath; autounfold with bg_identity_db c1_identity_db so2_identity_db v1_identity_db; mat_unfold2; cbv zeta)|]);
  (split; [rel_pick ltac:(revert Hpath; autounfold with bg_identity_db c1_identity_db so2_identity_db v1_identity_db; mat_unfold2; cbv zeta)|]);
  autounfold with bg_identity_db c1_identity_db so2_identity_db v1_identity_db; mat_unfold2; cbv zeta; reflexivity.
Qed.

Lemma bg_part0_view :
  forall g0 g1 g2 g3 g4 out,
  Gen.BG.bg_part0_rel [g0; g1; g2; g3; g4] out ->
  out = [g0] /\ out = vslice [g0; g1; g2; g3; g4] (nth 0 (psum [1%nat; 2%nat; 2%nat]) 0%nat) 1%nat.
Proof.
  intros g0 g1 g2 g3 g4 out Hrel. rel_cases Hrel. autounfold with bg_part0_db. mat_unfold2. cbv zeta. split; reflexivity.
Qed.

Lemma bg_part1_view :
  forall g0 g1 g2 g3 g4 out,
  Gen.BG.bg_part1_rel [g0; g1; g2; g3; g4] out ->
  out = [g1; g2] /\ out = vslice [g0; g1; g2; g3; g4] (nth 1 (psum [1%nat; 2%nat; 2%nat]) 0%nat) 2%nat.
Proof.
  intros g0 g1 g2 g3 g4 out Hrel. rel_cases Hrel. autounfold with bg_part1_db. mat_unfold2. cbv zeta. split; reflexivity.
Qed.

Lemma bg_part2_view :
  forall g0 g1 g2 g3 g4 out,
  Gen.BG.bg_part2_rel [g0; g1; g2; g3; g4] out ->
  out = [g3; g4] /\ out = vslice [g0; g1; g2; g3; g4] (nth 2 (psum [1%nat; 2%nat; 2%nat]) 0%nat) 2%nat.
Proof.
  intros g0 g1 g2 g3 g4 out Hrel. rel_cases Hrel. autounfold with bg_part2_db. mat_unfold2. cbv zeta. split; reflexivity.
Qed.

