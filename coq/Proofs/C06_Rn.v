(* Written with scripts/author/c06.py (committed output; the check builds this file against
   the freshly generated Gen/Rn.v).  Property C06. *)
From Coq Require Import Reals List Lra.
From SV Require Import Base.GenPrelude Base.Mat Doc.Groups Base.Tactics Gen.Rn.
Import ListNotations.
Local Open Scope R_scope.

Lemma v1_comp_additive :
  forall g0 h0 out,
  Gen.Rn.v1_comp_rel [g0] [h0] out -> out = vadd [g0] [h0].
Proof.
  intros g0 h0 out Hrel. rel_cases Hrel. autounfold with v1_comp_db. mat_unfold2. cbv zeta. list_eq; ring.
Qed.

Lemma v1_inv_additive :
  forall g0 out,
  Gen.Rn.v1_inv_rel [g0] out -> out = vneg [g0].
Proof.
  intros g0 out Hrel. rel_cases Hrel. autounfold with v1_inv_db. mat_unfold2. cbv zeta. list_eq; ring.
Qed.

Lemma v1_identity_additive :
  forall out,
  Gen.Rn.v1_identity_rel  out -> out = vzero 1.
Proof.
  intros  out Hrel. rel_cases Hrel. autounfold with v1_identity_db. mat_unfold2. cbv zeta. list_eq; ring.
Qed.

Lemma v1_exp_additive :
  forall a0 out,
  Gen.Rn.v1_exp_rel [a0] out -> out = [a0].
Proof.
  intros a0 out Hrel. rel_cases Hrel. autounfold with v1_exp_db. mat_unfold2. cbv zeta. list_eq; ring.
Qed.

Lemma v1_log_additive :
  forall g0 out,
  Gen.Rn.v1_log_rel [g0] out -> out = [g0].
Proof.
  intros g0 out Hrel. rel_cases Hrel. autounfold with v1_log_db. mat_unfold2. cbv zeta. list_eq; ring.
Qed.

Lemma v1_Ad_additive :
  forall g0 out,
  Gen.Rn.v1_Ad_rel [g0] out -> out = mI 1.
Proof.
  intros g0 out Hrel. rel_cases Hrel. autounfold with v1_Ad_db. mat_unfold2. cbv zeta. list_eq; ring.
Qed.

Lemma v1_ad_additive :
  forall a0 out,
  Gen.Rn.v1_ad_rel [a0] out -> out = mzero 1 1.
Proof.
  intros a0 out Hrel. rel_cases Hrel. autounfold with v1_ad_db. mat_unfold2. cbv zeta. list_eq; ring.
Qed.

Lemma v1_dr_exp_additive :
  forall a0 out,
  Gen.Rn.v1_dr_exp_rel [a0] out -> out = mI 1.
Proof.
  intros a0 out Hrel. rel_cases Hrel. autounfold with v1_dr_exp_db. mat_unfold2. cbv zeta. list_eq; ring.
Qed.

Lemma v1_dr_expinv_additive :
  forall a0 out,
  Gen.Rn.v1_dr_expinv_rel [a0] out -> out = mI 1.
Proof.
  intros a0 out Hrel. rel_cases Hrel. autounfold with v1_dr_expinv_db. mat_unfold2. cbv zeta. list_eq; ring.
Qed.

Lemma v1_d2r_exp_additive :
  forall a0 out,
  Gen.Rn.v1_d2r_exp_rel [a0] out -> out = mzero 1 1.
Proof.
  intros a0 out Hrel. rel_cases Hrel. autounfold with v1_d2r_exp_db. mat_unfold2. cbv zeta. list_eq; ring.
Qed.

Lemma v1_d2r_expinv_additive :
  forall a0 out,
  Gen.Rn.v1_d2r_expinv_rel [a0] out -> out = mzero 1 1.
Proof.
  intros a0 out Hrel. rel_cases Hrel. autounfold with v1_d2r_expinv_db. mat_unfold2. cbv zeta. list_eq; ring.
Qed.

Lemma v2_comp_additive :
  forall g0 g1 h0 h1 out,
  Gen.Rn.v2_comp_rel [g0; g1] [h0; h1] out -> out = vadd [g0; g1] [h0; h1].
Proof.
  intros g0 g1 h0 h1 out Hrel. rel_cases Hrel. autounfold with v2_comp_db. mat_unfold2. cbv zeta. list_eq; ring.
Qed.

Lemma v2_inv_additive :
  forall g0 g1 out,
  Gen.Rn.v2_inv_rel [g0; g1] out -> out = vneg [g0; g1].
Proof.
  intros g0 g1 out Hrel. rel_cases Hrel. autounfold with v2_inv_db. mat_unfold2. cbv zeta. list_eq; ring.
Qed.

Lemma v2_identity_additive :
  forall out,
  Gen.Rn.v2_identity_rel  out -> out = vzero 2.
Proof.
  intros  out Hrel. rel_cases Hrel. autounfold with v2_identity_db. mat_unfold2. cbv zeta. list_eq; ring.
Qed.

Lemma v2_exp_additive :
  forall a0 a1 out,
  Gen.Rn.v2_exp_rel [a0; a1] out -> out = [a0; a1].
Proof.
  intros a0 a1 out Hrel. rel_cases Hrel. autounfold with v2_exp_db. mat_unfold2. cbv zeta. list_eq; ring.
Qed.

Lemma v2_log_additive :
  forall g0 g1 out,
  Gen.Rn.v2_log_rel [g0; g1] out -> out = [g0; g1].
Proof.
  intros g0 g1 out Hrel. rel_cases Hrel. autounfold with v2_log_db. mat_unfold2. cbv zeta. list_eq; ring.
Qed.

Lemma v2_Ad_additive :
  forall g0 g1 out,
  Gen.Rn.v2_Ad_rel [g0; g1] out -> out = mI 2.
Proof.
  intros g0 g1 out Hrel. rel_cases Hrel. autounfold with v2_Ad_db. mat_unfold2. cbv zeta. list_eq; ring.
Qed.

Lemma v2_ad_additive :
  forall a0 a1 out,
  Gen.Rn.v2_ad_rel [a0; a1] out -> out = mzero 2 2.
Proof.
  intros a0 a1 out Hrel. rel_cases Hrel. autounfold with v2_ad_db. mat_unfold2. cbv zeta. list_eq; ring.
Qed.

Lemma v2_dr_exp_additive :
  forall a0 a1 out,
  Gen.Rn.v2_dr_exp_rel [a0; a1] out -> out = mI 2.
Proof.
  intros a0 a1 out Hrel. rel_cases Hrel. autounfold with v2_dr_exp_db. mat_unfold2. cbv zeta. list_eq; ring.
Qed.

Lemma v2_dr_expinv_additive :
  forall a0 a1 out,
  Gen.Rn.v2_dr_expinv_rel [a0; a1] out -> out = mI 2.
Proof.
  intros a0 a1 out Hrel. rel_cases Hrel. autounfold with v2_dr_expinv_db. mat_unfold2. cbv zeta. list_eq; ring.
Qed.

Lemma v2_d2r_exp_additive :
  forall a0 a1 out,
  Gen.Rn.v2_d2r_exp_rel [a0; a1] out -> out = mzero 2 4.
Proof.
  intros a0 a1 out Hrel. rel_cases Hrel. autounfold with v2_d2r_exp_db. mat_unfold2. cbv zeta. list_eq; ring.
Qed.

Lemma v2_d2r_expinv_additive :
  forall a0 a1 out,
  Gen.Rn.v2_d2r_expinv_rel [a0; a1] out -> out = mzero 2 4.
Proof.
  intros a0 a1 out Hrel. rel_cases Hrel. autounfold with v2_d2r_expinv_db. mat_unfold2. cbv zeta. list_eq; ring.
Qed.

Lemma v3_comp_additive :
  forall g0 g1 g2 h0 h1 h2 out,
  Gen.Rn.v3_comp_rel [g0; g1; g2] [h0; h1; h2] out -> out = vadd [g0; g1; g2] [h0; h1; h2].
Proof.
  intros g0 g1 g2 h0 h1 h2 out Hrel. rel_cases Hrel. autounfold with v3_comp_db. mat_unfold2. cbv zeta. list_eq; ring.
Qed.

Lemma v3_inv_additive :
  forall g0 g1 g2 out,
  Gen.Rn.v3_inv_rel [g0; g1; g2] out -> out = vneg [g0; g1; g2].
Proof.
  intros g0 g1 g2 out Hrel. rel_cases Hrel. autounfold with v3_inv_db. mat_unfold2. cbv zeta. list_eq; ring.
Qed.

Lemma v3_identity_additive :
  forall out,
  Gen.Rn.v3_identity_rel  out -> out = vzero 3.
Proof.
  intros  out Hrel. rel_cases Hrel. autounfold with v3_identity_db. mat_unfold2. cbv zeta. list_eq; ring.
Qed.

Lemma v3_exp_additive :
  forall a0 a1 a2 out,
  Gen.Rn.v3_exp_rel [a0; a1; a2] out -> out = [a0; a1; a2].
Proof.
  intros a0 a1 a2 out Hrel. rel_cases Hrel. autounfold with v3_exp_db. mat_unfold2. cbv zeta. list_eq; ring.
Qed.

Lemma v3_log_additive :
  forall g0 g1 g2 out,
  Gen.Rn.v3_log_rel [g0; g1; g2] out -> out = [g0; g1; g2].
Proof.
  intros g0 g1 g2 out Hrel. rel_cases Hrel. autounfold with v3_log_db. mat_unfold2. cbv zeta. list_eq; ring.
Qed.

Lemma v3_Ad_additive :
  forall g0 g1 g2 out,
  Gen.Rn.v3_Ad_rel [g0; g1; g2] out -> out = mI 3.
Proof.
  intros g0 g1 g2 out Hrel. rel_cases Hrel. autounfold with v3_Ad_db. mat_unfold2. cbv zeta. list_eq; ring.
Qed.

Lemma v3_ad_additive :
  forall a0 a1 a2 out,
  Gen.Rn.v3_ad_rel [a0; a1; a2] out -> out = mzero 3 3.
Proof.
  intros a0 a1 a2 out Hrel. rel_cases Hrel. autounfold with v3_ad_db. mat_unfold2. cbv zeta. list_eq; ring.
Qed.

Lemma v3_dr_exp_additive :
  forall a0 a1 a2 out,
  Gen.Rn.v3_dr_exp_rel [a0; a1; a2] out -> out = mI 3.
Proof.
  intros a0 a1 a2 out Hrel. rel_cases Hrel. autounfold with v3_dr_exp_db. mat_unfold2. cbv zeta. list_eq; ring.
Qed.

Lemma v3_dr_expinv_additive :
  forall a0 a1 a2 out,
  Gen.Rn.v3_dr_expinv_rel [a0; a1; a2] out -> out = mI 3.
Proof.
  intros a0 a1 a2 out Hrel. rel_cases Hrel. autounfold with v3_dr_expinv_db. mat_unfold2. cbv zeta. list_eq; ring.
Qed.

Lemma v3_d2r_exp_additive :
  forall a0 a1 a2 out,
  Gen.Rn.v3_d2r_exp_rel [a0; a1; a2] out -> out = mzero 3 9.
Proof.
  intros a0 a1 a2 out Hrel. rel_cases Hrel. autounfold with v3_d2r_exp_db. mat_unfold2. cbv zeta. list_eq; ring.
Qed.

Lemma v3_d2r_expinv_additive :
  forall a0 a1 a2 out,
  Gen.Rn.v3_d2r_expinv_rel [a0; a1; a2] out -> out = mzero 3 9.
Proof.
  intros a0 a1 a2 out Hrel. rel_cases Hrel. autounfold with v3_d2r_expinv_db. mat_unfold2. cbv zeta. list_eq; ring.
Qed.

Lemma v4_comp_additive :
  forall g0 g1 g2 g3 h0 h1 h2 h3 out,
  Gen.Rn.v4_comp_rel [g0; g1; g2; g3] [h0; h1; h2; h3] out -> out = vadd [g0; g1; g2; g3] [h0; h1; h2; h3].
Proof.
  intros g0 g1 g2 g3 h0 h1 h2 h3 out Hrel. rel_cases Hrel. autounfold with v4_comp_db. mat_unfold2. cbv zeta. list_eq; ring.
Qed.

Lemma v4_inv_additive :
  forall g0 g1 g2 g3 out,
  Gen.Rn.v4_inv_rel [g0; g1; g2; g3] out -> out = vneg [g0; g1; g2; g3].
Proof.
  intros g0 g1 g2 g3 out Hrel. rel_cases Hrel. autounfold with v4_inv_db. mat_unfold2. cbv zeta. list_eq; ring.
Qed.

Lemma v4_identity_additive :
  forall out,
  Gen.Rn.v4_identity_rel  out -> out = vzero 4.
Proof.
  intros  out Hrel. rel_cases Hrel. autounfold with v4_identity_db. mat_unfold2. cbv zeta. list_eq; ring.
Qed.

Lemma v4_exp_additive :
  forall a0 a1 a2 a3 out,
  Gen.Rn.v4_exp_rel [a0; a1; a2; a3] out -> out = [a0; a1; a2; a3].
Proof.
  intros a0 a1 a2 a3 out Hrel. rel_cases Hrel. autounfold with v4_exp_db. mat_unfold2. cbv zeta. list_eq; ring.
Qed.

Lemma v4_log_additive :
  forall g0 g1 g2 g3 out,
  Gen.Rn.v4_log_rel [g0; g1; g2; g3] out -> out = [g0; g1; g2; g3].
Proof.
  intros g0 g1 g2 g3 out Hrel. rel_cases Hrel. autounfold with v4_log_db. mat_unfold2. cbv zeta. list_eq; ring.
Qed.

Lemma v4_Ad_additive :
  forall g0 g1 g2 g3 out,
  Gen.Rn.v4_Ad_rel [g0; g1; g2; g3] out -> out = mI 4.
Proof.
  intros g0 g1 g2 g3 out Hrel. rel_cases Hrel. autounfold with v4_Ad_db. mat_unfold2. cbv zeta. list_eq; ring.
Qed.

Lemma v4_ad_additive :
  forall a0 a1 a2 a3 out,
  Gen.Rn.v4_ad_rel [a0; a1; a2; a3] out -> out = mzero 4 4.
Proof.
  intros a0 a1 a2 a3 out Hrel. rel_cases Hrel. autounfold with v4_ad_db. mat_unfold2. cbv zeta. list_eq; ring.
Qed.

Lemma v4_dr_exp_additive :
  forall a0 a1 a2 a3 out,
  Gen.Rn.v4_dr_exp_rel [a0; a1; a2; a3] out -> out = mI 4.
Proof.
  intros a0 a1 a2 a3 out Hrel. rel_cases Hrel. autounfold with v4_dr_exp_db. mat_unfold2. cbv zeta. list_eq; ring.
Qed.

Lemma v4_dr_expinv_additive :
  forall a0 a1 a2 a3 out,
  Gen.Rn.v4_dr_expinv_rel [a0; a1; a2; a3] out -> out = mI 4.
Proof.
  intros a0 a1 a2 a3 out Hrel. rel_cases Hrel. autounfold with v4_dr_expinv_db. mat_unfold2. cbv zeta. list_eq; ring.
Qed.

Lemma v4_d2r_exp_additive :
  forall a0 a1 a2 a3 out,
  Gen.Rn.v4_d2r_exp_rel [a0; a1; a2; a3] out -> out = mzero 4 16.
Proof.
  intros a0 a1 a2 a3 out Hrel. rel_cases Hrel. autounfold with v4_d2r_exp_db. mat_unfold2. cbv zeta. list_eq; ring.
Qed.

Lemma v4_d2r_expinv_additive :
  forall a0 a1 a2 a3 out,
  Gen.Rn.v4_d2r_expinv_rel [a0; a1; a2; a3] out -> out = mzero 4 16.
Proof.
  intros a0 a1 a2 a3 out Hrel. rel_cases Hrel. autounfold with v4_d2r_expinv_db. mat_unfold2. cbv zeta. list_eq; ring.
Qed.

Lemma vx0_comp_additive :
  forall out,
  Gen.Rn.vx0_comp_rel [] [] out -> out = vadd [] [].
Proof.
  intros  out Hrel. rel_cases Hrel. autounfold with vx0_comp_db. mat_unfold2. cbv zeta. list_eq; ring.
Qed.

Lemma vx0_inv_additive :
  forall out,
  Gen.Rn.vx0_inv_rel [] out -> out = vneg [].
Proof.
  intros  out Hrel. rel_cases Hrel. autounfold with vx0_inv_db. mat_unfold2. cbv zeta. list_eq; ring.
Qed.

Lemma vx0_identity_additive :
  forall out,
  Gen.Rn.vx0_identity_rel  out -> out = vzero 0.
Proof.
  intros  out Hrel. rel_cases Hrel. autounfold with vx0_identity_db. mat_unfold2. cbv zeta. list_eq; ring.
Qed.

Lemma vx0_exp_additive :
  forall out,
  Gen.Rn.vx0_exp_rel [] out -> out = [].
Proof.
  intros  out Hrel. rel_cases Hrel. autounfold with vx0_exp_db. mat_unfold2. cbv zeta. list_eq; ring.
Qed.

Lemma vx0_log_additive :
  forall out,
  Gen.Rn.vx0_log_rel [] out -> out = [].
Proof.
  intros  out Hrel. rel_cases Hrel. autounfold with vx0_log_db. mat_unfold2. cbv zeta. list_eq; ring.
Qed.

Lemma vx0_Ad_additive :
  forall out,
  Gen.Rn.vx0_Ad_rel [] out -> out = mI 0.
Proof.
  intros  out Hrel. rel_cases Hrel. autounfold with vx0_Ad_db. mat_unfold2. cbv zeta. list_eq; ring.
Qed.

Lemma vx0_ad_additive :
  forall out,
  Gen.Rn.vx0_ad_rel [] out -> out = mzero 0 0.
Proof.
  intros  out Hrel. rel_cases Hrel. autounfold with vx0_ad_db. mat_unfold2. cbv zeta. list_eq; ring.
Qed.

Lemma vx0_dr_exp_additive :
  forall out,
  Gen.Rn.vx0_dr_exp_rel [] out -> out = mI 0.
Proof.
  intros  out Hrel. rel_cases Hrel. autounfold with vx0_dr_exp_db. mat_unfold2. cbv zeta. list_eq; ring.
Qed.

Lemma vx0_dr_expinv_additive :
  forall out,
  Gen.Rn.vx0_dr_expinv_rel [] out -> out = mI 0.
Proof.
  intros  out Hrel. rel_cases Hrel. autounfold with vx0_dr_expinv_db. mat_unfold2. cbv zeta. list_eq; ring.
Qed.

Lemma vx0_d2r_exp_additive :
  forall out,
  Gen.Rn.vx0_d2r_exp_rel [] out -> out = mzero 0 0.
Proof.
  intros  out Hrel. rel_cases Hrel. autounfold with vx0_d2r_exp_db. mat_unfold2. cbv zeta. list_eq; ring.
Qed.

Lemma vx0_d2r_expinv_additive :
  forall out,
  Gen.Rn.vx0_d2r_expinv_rel [] out -> out = mzero 0 0.
Proof.
  intros  out Hrel. rel_cases Hrel. autounfold with vx0_d2r_expinv_db. mat_unfold2. cbv zeta. list_eq; ring.
Qed.

Lemma vx1_comp_additive :
  forall g0 h0 out,
  Gen.Rn.vx1_comp_rel [g0] [h0] out -> out = vadd [g0] [h0].
Proof.
  intros g0 h0 out Hrel. rel_cases Hrel. autounfold with vx1_comp_db. mat_unfold2. cbv zeta. list_eq; ring.
Qed.

Lemma vx1_inv_additive :
  forall g0 out,
  Gen.Rn.vx1_inv_rel [g0] out -> out = vneg [g0].
Proof.
  intros g0 out Hrel. rel_cases Hrel. autounfold with vx1_inv_db. mat_unfold2. cbv zeta. list_eq; ring.
Qed.

Lemma vx1_identity_additive :
  forall out,
  Gen.Rn.vx1_identity_rel  out -> out = vzero 1.
Proof.
  intros  out Hrel. rel_cases Hrel. autounfold with vx1_identity_db. mat_unfold2. cbv zeta. list_eq; ring.
Qed.

Lemma vx1_exp_additive :
  forall a0 out,
  Gen.Rn.vx1_exp_rel [a0] out -> out = [a0].
Proof.
  intros a0 out Hrel. rel_cases Hrel. autounfold with vx1_exp_db. mat_unfold2. cbv zeta. list_eq; ring.
Qed.

Lemma vx1_log_additive :
  forall g0 out,
  Gen.Rn.vx1_log_rel [g0] out -> out = [g0].
Proof.
  intros g0 out Hrel. rel_cases Hrel. autounfold with vx1_log_db. mat_unfold2. cbv zeta. list_eq; ring.
Qed.

Lemma vx1_Ad_additive :
  forall g0 out,
  Gen.Rn.vx1_Ad_rel [g0] out -> out = mI 1.
Proof.
  intros g0 out Hrel. rel_cases Hrel. autounfold with vx1_Ad_db. mat_unfold2. cbv zeta. list_eq; ring.
Qed.

Lemma vx1_ad_additive :
  forall a0 out,
  Gen.Rn.vx1_ad_rel [a0] out -> out = mzero 1 1.
Proof.
  intros a0 out Hrel. rel_cases Hrel. autounfold with vx1_ad_db. mat_unfold2. cbv zeta. list_eq; ring.
Qed.

Lemma vx1_dr_exp_additive :
  forall a0 out,
  Gen.Rn.vx1_dr_exp_rel [a0] out -> out = mI 1.
Proof.
  intros a0 out Hrel. rel_cases Hrel. autounfold with vx1_dr_exp_db. mat_unfold2. cbv zeta. list_eq; ring.
Qed.

Lemma vx1_dr_expinv_additive :
  forall a0 out,
  Gen.Rn.vx1_dr_expinv_rel [a0] out -> out = mI 1.
Proof.
  intros a0 out Hrel. rel_cases Hrel. autounfold with vx1_dr_expinv_db. mat_unfold2. cbv zeta. list_eq; ring.
Qed.

Lemma vx1_d2r_exp_additive :
  forall a0 out,
  Gen.Rn.vx1_d2r_exp_rel [a0] out -> out = mzero 1 1.
Proof.
  intros a0 out Hrel. rel_cases Hrel. autounfold with vx1_d2r_exp_db. mat_unfold2. cbv zeta. list_eq; ring.
Qed.

Lemma vx1_d2r_expinv_additive :
  forall a0 out,
  Gen.Rn.vx1_d2r_expinv_rel [a0] out -> out = mzero 1 1.
Proof.
  intros a0 out Hrel. rel_cases Hrel. autounfold with vx1_d2r_expinv_db. mat_unfold2. cbv zeta. list_eq; ring.
Qed.

Lemma vx3_comp_additive :
  forall g0 g1 g2 h0 h1 h2 out,
  Gen.Rn.vx3_comp_rel [g0; g1; g2] [h0; h1; h2] out -> out = vadd [g0; g1; g2] [h0; h1; h2].
Proof.
  intros g0 g1 g2 h0 h1 h2 out Hrel. rel_cases Hrel. autounfold with vx3_comp_db. mat_unfold2. cbv zeta. list_eq; ring.
Qed.

Lemma vx3_inv_additive :
  forall g0 g1 g2 out,
  Gen.Rn.vx3_inv_rel [g0; g1; g2] out -> out = vneg [g0; g1; g2].
Proof.
  intros g0 g1 g2 out Hrel. rel_cases Hrel. autounfold with vx3_inv_db. mat_unfold2. cbv zeta. list_eq; ring.
Qed.

Lemma vx3_identity_additive :
  forall out,
  Gen.Rn.vx3_identity_rel  out -> out = vzero 3.
Proof.
  intros  out Hrel. rel_cases Hrel. autounfold with vx3_identity_db. mat_unfold2. cbv zeta. list_eq; ring.
Qed.

Lemma vx3_exp_additive :
  forall a0 a1 a2 out,
  Gen.Rn.vx3_exp_rel [a0; a1; a2] out -> out = [a0; a1; a2].
Proof.
  intros a0 a1 a2 out Hrel. rel_cases Hrel. autounfold with vx3_exp_db. mat_unfold2. cbv zeta. list_eq; ring.
Qed.

Lemma vx3_log_additive :
  forall g0 g1 g2 out,
  Gen.Rn.vx3_log_rel [g0; g1; g2] out -> out = [g0; g1; g2].
Proof.
  intros g0 g1 g2 out Hrel. rel_cases Hrel. autounfold with vx3_log_db. mat_unfold2. cbv zeta. list_eq; ring.
Qed.

Lemma vx3_Ad_additive :
  forall g0 g1 g2 out,
  Gen.Rn.vx3_Ad_rel [g0; g1; g2] out -> out = mI 3.
Proof.
  intros g0 g1 g2 out Hrel. rel_cases Hrel. autounfold with vx3_Ad_db. mat_unfold2. cbv zeta. list_eq; ring.
Qed.

Lemma vx3_ad_additive :
  forall a0 a1 a2 out,
  Gen.Rn.vx3_ad_rel [a0; a1; a2] out -> out = mzero 3 3.
Proof.
  intros a0 a1 a2 out Hrel. rel_cases Hrel. autounfold with vx3_ad_db. mat_unfold2. cbv zeta. list_eq; ring.
Qed.

Lemma vx3_dr_exp_additive :
  forall a0 a1 a2 out,
  Gen.Rn.vx3_dr_exp_rel [a0; a1; a2] out -> out = mI 3.
Proof.
  intros a0 a1 a2 out Hrel. rel_cases Hrel. autounfold with vx3_dr_exp_db. mat_unfold2. cbv zeta. list_eq; ring.
Qed.

Lemma vx3_dr_expinv_additive :
  forall a0 a1 a2 out,
  Gen.Rn.vx3_dr_expinv_rel [a0; a1; a2] out -> out = mI 3.
Proof.
  intros a0 a1 a2 out Hrel. rel_cases Hrel. autounfold with vx3_dr_expinv_db. mat_unfold2. cbv zeta. list_eq; ring.
Qed.

Lemma vx3_d2r_exp_additive :
  forall a0 a1 a2 out,
  Gen.Rn.vx3_d2r_exp_rel [a0; a1; a2] out -> out = mzero 3 9.
Proof.
  intros a0 a1 a2 out Hrel. rel_cases Hrel. autounfold with vx3_d2r_exp_db. mat_unfold2. cbv zeta. list_eq; ring.
Qed.

Lemma vx3_d2r_expinv_additive :
  forall a0 a1 a2 out,
  Gen.Rn.vx3_d2r_expinv_rel [a0; a1; a2] out -> out = mzero 3 9.
Proof.
  intros a0 a1 a2 out Hrel. rel_cases Hrel. autounfold with vx3_d2r_expinv_db. mat_unfold2. cbv zeta. list_eq; ring.
Qed.

Lemma vx5_comp_additive :
  forall g0 g1 g2 g3 g4 h0 h1 h2 h3 h4 out,
  Gen.Rn.vx5_comp_rel [g0; g1; g2; g3; g4] [h0; h1; h2; h3; h4] out -> out = vadd [g0; g1; g2; g3; g4] [h0; h1; h2; h3; h4].
Proof.
  intros g0 g1 g2 g3 g4 h0 h1 h2 h3 h4 out Hrel. rel_cases Hrel. autounfold with vx5_comp_db. mat_unfold2. cbv zeta. list_eq; ring.
Qed.

Lemma vx5_inv_additive :
  forall g0 g1 g2 g3 g4 out,
  Gen.Rn.vx5_inv_rel [g0; g1; g2; g3; g4] out -> out = vneg [g0; g1; g2; g3; g4].
Proof.
  intros g0 g1 g2 g3 g4 out Hrel. rel_cases Hrel. autounfold with vx5_inv_db. mat_unfold2. cbv zeta. list_eq; ring.
Qed.

Lemma vx5_identity_additive :
  forall out,
  Gen.Rn.vx5_identity_rel  out -> out = vzero 5.
Proof.
  intros  out Hrel. rel_cases Hrel. autounfold with vx5_identity_db. mat_unfold2. cbv zeta. list_eq; ring.
Qed.

Lemma vx5_exp_additive :
  forall a0 a1 a2 a3 a4 out,
  Gen.Rn.vx5_exp_rel [a0; a1; a2; a3; a4] out -> out = [a0; a1; a2; a3; a4].
Proof.
  intros a0 a1 a2 a3 a4 out Hrel. rel_cases Hrel. autounfold with vx5_exp_db. mat_unfold2. cbv zeta. list_eq; ring.
Qed.

Lemma vx5_log_additive :
  forall g0 g1 g2 g3 g4 out,
  Gen.Rn.vx5_log_rel [g0; g1; g2; g3; g4] out -> out = [g0; g1; g2; g3; g4].
Proof.
  intros g0 g1 g2 g3 g4 out Hrel. rel_cases Hrel. autounfold with vx5_log_db. mat_unfold2. cbv zeta. list_eq; ring.
Qed.

Lemma vx5_Ad_additive :
  forall g0 g1 g2 g3 g4 out,
  Gen.Rn.vx5_Ad_rel [g0; g1; g2; g3; g4] out -> out = mI 5.
Proof.
  intros g0 g1 g2 g3 g4 out Hrel. rel_cases Hrel. autounfold with vx5_Ad_db. mat_unfold2. cbv zeta. list_eq; ring.
Qed.

Lemma vx5_ad_additive :
  forall a0 a1 a2 a3 a4 out,
  Gen.Rn.vx5_ad_rel [a0; a1; a2; a3; a4] out -> out = mzero 5 5.
Proof.
  intros a0 a1 a2 a3 a4 out Hrel. rel_cases Hrel. autounfold with vx5_ad_db. mat_unfold2. cbv zeta. list_eq; ring.
Qed.

Lemma vx5_dr_exp_additive :
  forall a0 a1 a2 a3 a4 out,
  Gen.Rn.vx5_dr_exp_rel [a0; a1; a2; a3; a4] out -> out = mI 5.
Proof.
  intros a0 a1 a2 a3 a4 out Hrel. rel_cases Hrel. autounfold with vx5_dr_exp_db. mat_unfold2. cbv zeta. list_eq; ring.
Qed.

Lemma vx5_dr_expinv_additive :
  forall a0 a1 a2 a3 a4 out,
  Gen.Rn.vx5_dr_expinv_rel [a0; a1; a2; a3; a4] out -> out = mI 5.
Proof.
  intros a0 a1 a2 a3 a4 out Hrel. rel_cases Hrel. autounfold with vx5_dr_expinv_db. mat_unfold2. cbv zeta. list_eq; ring.
Qed.

Lemma vx5_d2r_exp_additive :
  forall a0 a1 a2 a3 a4 out,
  Gen.Rn.vx5_d2r_exp_rel [a0; a1; a2; a3; a4] out -> out = mzero 5 25.
Proof.
  intros a0 a1 a2 a3 a4 out Hrel. rel_cases Hrel. autounfold with vx5_d2r_exp_db. mat_unfold2. cbv zeta. list_eq; ring.
Qed.

Lemma vx5_d2r_expinv_additive :
  forall a0 a1 a2 a3 a4 out,
  Gen.Rn.vx5_d2r_expinv_rel [a0; a1; a2; a3; a4] out -> out = mzero 5 25.
Proof.
  intros a0 a1 a2 a3 a4 out Hrel. rel_cases Hrel. autounfold with vx5_d2r_expinv_db. mat_unfold2. cbv zeta. list_eq; ring.
Qed.

Lemma sc_comp_additive :
  forall g0 h0 out,
  Gen.Rn.sc_comp_rel [g0] [h0] out -> out = vadd [g0] [h0].
Proof.
  intros g0 h0 out Hrel. rel_cases Hrel. autounfold with sc_comp_db. mat_unfold2. cbv zeta. list_eq; ring.
Qed.

Lemma sc_inv_additive :
  forall g0 out,
  Gen.Rn.sc_inv_rel [g0] out -> out = vneg [g0].
Proof.
  intros g0 out Hrel. rel_cases Hrel. autounfold with sc_inv_db. mat_unfold2. cbv zeta. list_eq; ring.
Qed.

Lemma sc_identity_additive :
  forall out,
  Gen.Rn.sc_identity_rel  out -> out = vzero 1.
Proof.
  intros  out Hrel. rel_cases Hrel. autounfold with sc_identity_db. mat_unfold2. cbv zeta. list_eq; ring.
Qed.

Lemma sc_exp_additive :
  forall a0 out,
  Gen.Rn.sc_exp_rel [a0] out -> out = [a0].
Proof.
  intros a0 out Hrel. rel_cases Hrel. autounfold with sc_exp_db. mat_unfold2. cbv zeta. list_eq; ring.
Qed.

Lemma sc_log_additive :
  forall g0 out,
  Gen.Rn.sc_log_rel [g0] out -> out = [g0].
Proof.
  intros g0 out Hrel. rel_cases Hrel. autounfold with sc_log_db. mat_unfold2. cbv zeta. list_eq; ring.
Qed.

Lemma sc_Ad_additive :
  forall g0 out,
  Gen.Rn.sc_Ad_rel [g0] out -> out = mI 1.
Proof.
  intros g0 out Hrel. rel_cases Hrel. autounfold with sc_Ad_db. mat_unfold2. cbv zeta. list_eq; ring.
Qed.

Lemma sc_ad_additive :
  forall a0 out,
  Gen.Rn.sc_ad_rel [a0] out -> out = mzero 1 1.
Proof.
  intros a0 out Hrel. rel_cases Hrel. autounfold with sc_ad_db. mat_unfold2. cbv zeta. list_eq; ring.
Qed.

Lemma sc_dr_exp_additive :
  forall a0 out,
  Gen.Rn.sc_dr_exp_rel [a0] out -> out = mI 1.
Proof.
  intros a0 out Hrel. rel_cases Hrel. autounfold with sc_dr_exp_db. mat_unfold2. cbv zeta. list_eq; ring.
Qed.

Lemma sc_dr_expinv_additive :
  forall a0 out,
  Gen.Rn.sc_dr_expinv_rel [a0] out -> out = mI 1.
Proof.
  intros a0 out Hrel. rel_cases Hrel. autounfold with sc_dr_expinv_db. mat_unfold2. cbv zeta. list_eq; ring.
Qed.

Lemma sc_d2r_exp_additive :
  forall a0 out,
  Gen.Rn.sc_d2r_exp_rel [a0] out -> out = mzero 1 1.
Proof.
  intros a0 out Hrel. rel_cases Hrel. autounfold with sc_d2r_exp_db. mat_unfold2. cbv zeta. list_eq; ring.
Qed.

Lemma sc_d2r_expinv_additive :
  forall a0 out,
  Gen.Rn.sc_d2r_expinv_rel [a0] out -> out = mzero 1 1.
Proof.
  intros a0 out Hrel. rel_cases Hrel. autounfold with sc_d2r_expinv_db. mat_unfold2. cbv zeta. list_eq; ring.
Qed.

