(* C07 - AnyManifold: value semantics of clone (copy construction / copy assignment give an independent object
   that behaves identically) and the Manifold axioms through the type-erased wrapper. *)
From Coq Require Import List Arith Bool Lia.
From SV Require Import Model.C07_Adaptors Proofs.C07_Laws.
Import ListNotations.


Section AnyProofs.
Variable T : Type.
Variable szero : T.
Variable W : Type.
Variable o : man_ops T W.
Variable r : man_rel T W.
Hypothesis L : man_laws szero o r.

Notation heap := (heap W).

(* ---------- heap cells ---------- *)
Lemma set_nth_length : forall (A : Type) (l : list A) i x, length (set_nth l i x) = length l.
Proof.
  intros A l. induction l as [|y l IH]; intros i x; [reflexivity|].
  destruct i; cbn [set_nth length]; [reflexivity | now rewrite IH].
Qed.
Lemma nth_set_nth_same : forall (A : Type) (l : list A) i x d, i < length l -> nth i (set_nth l i x) d = x.
Proof.
  intros A l. induction l as [|y l IH]; intros i x d H; cbn [length] in H; [lia|].
  destruct i; cbn [set_nth nth]; [reflexivity | apply IH; lia].
Qed.
Lemma nth_set_nth_other : forall (A : Type) (l : list A) i j x d, i <> j -> nth j (set_nth l i x) d = nth j l d.
Proof.
  intros A l. induction l as [|y l IH]; intros i j x d H; [reflexivity|].
  destruct i, j; cbn [set_nth nth]; try reflexivity; [lia | apply IH; lia].
Qed.

Lemma deref_lt : forall (h : heap) p w, nth p h None = Some w -> p < length h.
Proof.
  intros h p w H. destruct (Nat.lt_ge_cases p (length h)) as [Hl|Hl]; [assumption|].
  rewrite nth_overflow in H by assumption. discriminate.
Qed.

Lemma deref_alloc_new : forall (h : heap) w, any_deref (fst (any_alloc h w)) (snd (any_alloc h w)) = Some w.
Proof.
  intros h w. unfold any_alloc, any_deref; cbn [fst snd]. rewrite app_nth2, Nat.sub_diag by lia. reflexivity.
Qed.
Lemma deref_alloc_old : forall (h : heap) w a w', any_deref h a = Some w' -> any_deref (fst (any_alloc h w)) a = Some w'.
Proof.
  intros h w [p|] w' H; cbn [any_deref any_alloc fst] in *; [|discriminate].
  rewrite app_nth1; [assumption | now apply (deref_lt _ _ _ H)].
Qed.
Lemma alloc_fresh : forall (h : heap) w a w', any_deref h a = Some w' -> snd (any_alloc h w) <> a.
Proof.
  intros h w [p|] w' H; cbn [any_deref any_alloc snd] in *; [|discriminate].
  pose proof (deref_lt _ _ _ H). intro E. injection E as E. lia.
Qed.

(* ---------- copy construction: any.hpp:27 + clone :95 ---------- *)
(* the copy holds the same value in a fresh cell, the original is untouched: both behave identically ... *)
Theorem any_copy_identical : forall (h : heap) a w, any_deref h a = Some w ->
  exists h' c, any_copy_ctor h a = Some (h', c) /\ c <> a /\
    any_deref h' c = Some w /\ any_deref h' a = Some w /\
    any_dof o h' c = any_dof o h' a /\
    (forall v, option_map (fun hb => any_deref (fst hb) (snd hb)) (any_rplus o h' c v)
             = option_map (fun hb => any_deref (fst hb) (snd hb)) (any_rplus o h' a v)) /\
    (forall b, any_rminus o h' c b = any_rminus o h' a b) /\ (forall b, any_rminus o h' b c = any_rminus o h' b a).
Proof.
  intros h a w H. unfold any_copy_ctor. rewrite H.
  exists (fst (any_alloc h w)), (snd (any_alloc h w)).
  pose proof (deref_alloc_new h w) as Hn. pose proof (deref_alloc_old h w a _ H) as Ho.
  split; [now destruct (any_alloc h w)|]. split; [now apply (alloc_fresh h w a _ H)|].
  split; [assumption|]. split; [assumption|].
  unfold any_dof, any_rplus, any_rminus. rewrite Hn, Ho. repeat split.
Qed.

(* ... and independently: writing through one object (get<M>() = v) does not change the other *)
Theorem any_copy_independent : forall (h : heap) a w, any_deref h a = Some w ->
  exists h' c, any_copy_ctor h a = Some (h', c) /\
    (forall v, exists h2, any_set h' c v = Some h2 /\ any_deref h2 c = Some v /\ any_deref h2 a = Some w) /\
    (forall v, exists h2, any_set h' a v = Some h2 /\ any_deref h2 a = Some v /\ any_deref h2 c = Some w).
Proof.
  intros h a w H. destruct (any_copy_identical h a w H) as (h' & c & Hc & Hne & Hdc & Hda & _).
  exists h', c. split; [assumption|].
  destruct a as [pa|]; [|discriminate]. destruct c as [pc|]; [|discriminate].
  cbn [any_deref] in *. assert (pa <> pc) by (intro; subst; now apply Hne).
  split; intros v; unfold any_set.
  - rewrite Hdc. eexists; split; [reflexivity|]. cbn [any_deref].
    rewrite nth_set_nth_same by now apply (deref_lt _ _ _ Hdc).
    rewrite nth_set_nth_other by lia. auto.
  - rewrite Hda. eexists; split; [reflexivity|]. cbn [any_deref].
    rewrite nth_set_nth_same by now apply (deref_lt _ _ _ Hda).
    rewrite nth_set_nth_other by lia. auto.
Qed.

(* ---------- copy assignment: any.hpp:33-37 ---------- *)
Theorem any_copy_assign_value : forall (h : heap) dst src w wd,
  any_deref h src = Some w -> any_deref h dst = Some wd ->
  exists h' p, any_copy_assign h dst src = Some (h', p) /\ any_deref h' p = Some w /\
    (dst <> src -> any_deref h' src = Some w) /\
    (* a later write through the assigned-to object leaves the source alone *)
    (dst <> src -> forall v, exists h2, any_set h' p v = Some h2 /\ any_deref h2 p = Some v /\ any_deref h2 src = Some w).
Proof.
  intros h dst src w wd Hs Hd. unfold any_copy_assign. rewrite Hs.
  pose proof (deref_alloc_new h w) as Hn. pose proof (deref_alloc_old h w src _ Hs) as Ho.
  pose proof (alloc_fresh h w dst _ Hd) as Hfd. pose proof (alloc_fresh h w src _ Hs) as Hfs.
  destruct (any_alloc h w) as [h1 p] eqn:Ea. cbn [fst snd] in *.
  destruct dst as [pd|]; [|discriminate]. destruct src as [ps|]; [|discriminate]. destruct p as [pp|]; [|discriminate].
  cbn [any_free any_deref] in *.
  assert (pp <> pd) by (intro; subst; now apply Hfd). assert (pp <> ps) by (intro; subst; now apply Hfs).
  eexists _, _. split; [reflexivity|]. cbn [any_deref].
  assert (Hp : nth pp (set_nth h1 pd None) None = Some w) by (rewrite nth_set_nth_other by lia; assumption).
  split; [assumption|].
  assert (Hsrc : Some pd <> Some ps -> nth ps (set_nth h1 pd None) None = Some w).
  { intros Hne. rewrite nth_set_nth_other; [assumption | intro; subst; now apply Hne]. }
  split; [assumption|]. intros Hne v. unfold any_set. rewrite Hp. eexists; split; [reflexivity|]. cbn [any_deref].
  rewrite nth_set_nth_same by now apply (deref_lt _ _ _ Hp).
  rewrite nth_set_nth_other by lia. auto.
Qed.

(* ---------- move construction: any.hpp:30 ---------- *)
Theorem any_move_transfers : forall (h : heap) a,
  any_deref h (fst (any_move_ctor a)) = any_deref h a /\ any_deref h (snd (any_move_ctor a)) = None.
Proof. intros h a. now cbn. Qed.

(* ---------- the Manifold axioms through the wrapper ---------- *)
Theorem any_dof_law : forall (h : heap) a w, any_deref h a = Some w -> any_dof o h a = Some (m_dof o w).
Proof. intros h a w H. unfold any_dof. now rewrite H. Qed.

Theorem any_rminus_rplus : forall (h : heap) a w v, any_deref h a = Some w ->
  r_valid r w -> length v = m_dof o w -> r_inj r w v ->
  exists h' b, any_rplus o h a v = Some (h', b) /\ any_deref h' a = Some w /\
               any_dof o h' b = Some (m_dof o w) /\ any_rminus o h' b a = Some v.
Proof.
  intros h a w v H Hv Hl Hi. unfold any_rplus. rewrite H.
  pose proof (deref_alloc_new h (m_rplus o w v)) as Hn. pose proof (deref_alloc_old h (m_rplus o w v) a _ H) as Ho.
  destruct (any_alloc h (m_rplus o w v)) as [h' b]. cbn [fst snd] in *.
  exists h', b. split; [reflexivity|]. split; [assumption|].
  unfold any_dof, any_rminus. rewrite Hn, Ho. cbn [option_map].
  rewrite (laws_rplus_dof L) by assumption. rewrite (l_rminus_rplus L) by assumption. auto.
Qed.

Theorem any_rplus_rminus : forall (h : heap) a a2 w w2, any_deref h a = Some w -> any_deref h a2 = Some w2 ->
  r_valid r w -> r_valid r w2 -> r_compat r w2 w -> r_reach r w2 w ->
  exists t h' b, any_rminus o h a2 a = Some t /\ length t = m_dof o w /\
                 any_rplus o h a t = Some (h', b) /\ any_deref h' b = Some w2.
Proof.
  intros h a a2 w w2 H H2 Hv Hv2 Hc Hr. unfold any_rminus, any_rplus. rewrite H, H2.
  eexists _, _, _. split; [reflexivity|]. split.
  - rewrite (l_rminus_len L) by assumption. now apply (l_compat_dof L).
  - split; [reflexivity|]. rewrite (l_rplus_rminus L) by assumption.
    apply (deref_alloc_new h w2).
Qed.

Theorem any_rminus_self : forall (h : heap) a w, any_deref h a = Some w -> r_valid r w ->
  any_rminus o h a a = Some (repeat szero (m_dof o w)).
Proof. intros h a w H Hv. unfold any_rminus. rewrite H. now rewrite (l_rminus_self L). Qed.

End AnyProofs.
