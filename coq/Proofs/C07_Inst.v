(* C07 - the base manifold Q^n satisfies the Manifold axioms, hence (by the generic adaptor theorems) so does every
   type of the harness universe; the current traits::man<SubManifold>::cast is refuted by a concrete witness. *)
From Coq Require Import List Arith Bool Lia QArith Qcanon.
From SV Require Import Model.C07_Adaptors Model.C07_Inst Proofs.C07_Laws Proofs.C07_Vector Proofs.C07_Variant
  Proofs.C07_Sub Proofs.C07_Any.
Import ListNotations.
Local Open Scope nat_scope.

(* ---------- Q^n ---------- *)
Definition qn_rel (sd : option nat) : man_rel Qc (list Qc) :=
  MkRel (fun m => match sd with Some d => length m = d | None => True end)
        (fun a b => length a = length b)
        (fun _ _ => True)
        (fun _ _ => True).

Lemma qn_add_length : forall x y, length x = length y -> length (qn_add x y) = length x.
Proof.
  induction x as [|a x IH]; intros [|b y] H; cbn [qn_add length] in *; try lia. now rewrite IH by lia.
Qed.

Lemma qn_rminus_rplus : forall m a, length a = length m -> qn_rminus (qn_rplus m a) m = a.
Proof.
  unfold qn_rminus, qn_rplus. induction m as [|x m IH]; intros [|y a] H; cbn [length] in H; try lia; [reflexivity|].
  cbn [map qn_add]. rewrite IH by lia. f_equal. ring.
Qed.

Lemma qn_rplus_rminus : forall m m2, length m2 = length m -> qn_rplus m (qn_rminus m2 m) = m2.
Proof.
  unfold qn_rminus, qn_rplus. induction m as [|x m IH]; intros [|y m2] H; cbn [length] in H; try lia; [reflexivity|].
  cbn [map qn_add]. rewrite IH by lia. f_equal. ring.
Qed.

Lemma qn_rminus_self : forall m, qn_rminus m m = repeat qzero (length m).
Proof.
  unfold qn_rminus. induction m as [|x m IH]; [reflexivity|]. cbn [map qn_add length repeat]. rewrite IH. f_equal.
  unfold qzero. ring.
Qed.

Theorem qn_laws : forall sd, man_laws qzero (qn_ops sd) (qn_rel sd).
Proof.
  intros sd. constructor; cbn [qn_ops qn_rel m_sdof m_dof m_rplus m_rminus m_cast r_valid r_compat r_inj r_reach];
    unfold qn_dof, qn_cast.
  - intros d m H Hv. rewrite H in Hv. exact Hv.
  - reflexivity.
  - auto.
  - intros m a Hv Hl. unfold qn_rplus. rewrite qn_add_length by lia. exact Hv.
  - intros m a Hv Hl. unfold qn_rplus. now rewrite qn_add_length by lia.
  - intros m1 m2 _ _ Hc. unfold qn_rminus. rewrite qn_add_length; rewrite map_length; lia.
  - intros m a _ Hl _. now apply qn_rminus_rplus.
  - intros m m2 _ _ Hc _. now apply qn_rplus_rminus.
  - intros m _. apply qn_rminus_self.
  - auto.
  - reflexivity.
Qed.

(* ---------- the adaptor instances of the harness universe ---------- *)
Definition rVX := qn_rel None.
Definition rV3 := qn_rel (Some 3).
Definition rD := qn_rel (Some 1).
Definition rSVX := vec_rel oVX rVX.
Definition rSV3 := vec_rel oV3 rV3.
Definition rSUBX := sub_rel qzero oVX rVX.
Definition rSUBS := sub_rel qzero oSV3 rSV3.

Theorem lawsVX : man_laws qzero oVX rVX.  Proof. apply qn_laws. Qed.
Theorem lawsV3 : man_laws qzero oV3 rV3.  Proof. apply qn_laws. Qed.
Theorem lawsD : man_laws qzero oD rD.  Proof. apply qn_laws. Qed.
Theorem lawsSVX : man_laws qzero oSVX rSVX.  Proof. apply vec_laws, lawsVX. Qed.
Theorem lawsSV3 : man_laws qzero oSV3 rSV3.  Proof. apply vec_laws, lawsV3. Qed.
Theorem lawsSUBX : man_laws qzero (oSUBX true) rSUBX.  Proof. apply sub_laws, lawsVX. Qed.
Theorem lawsSUBS : man_laws qzero (oSUBS true) rSUBS.  Proof. apply sub_laws, lawsSV3. Qed.

(* the universal payload type: dispatch on the C++ type *)
Definition p_rel : man_rel Qc pval :=
  MkRel
    (fun v => match v with
              | PVX x => r_valid rVX x | PV3 x => r_valid rV3 x | PD x => r_valid rD x
              | PSVX x => r_valid rSVX x | PSV3 x => r_valid rSV3 x
              | PSUBX x => r_valid rSUBX x | PSUBS x => r_valid rSUBS x end)
    (fun v1 v2 => match v1, v2 with
              | PVX x, PVX y => r_compat rVX x y | PV3 x, PV3 y => r_compat rV3 x y | PD x, PD y => r_compat rD x y
              | PSVX x, PSVX y => r_compat rSVX x y | PSV3 x, PSV3 y => r_compat rSV3 x y
              | PSUBX x, PSUBX y => r_compat rSUBX x y | PSUBS x, PSUBS y => r_compat rSUBS x y
              | _, _ => False end)
    (fun v a => match v with
              | PVX x => r_inj rVX x a | PV3 x => r_inj rV3 x a | PD x => r_inj rD x a
              | PSVX x => r_inj rSVX x a | PSV3 x => r_inj rSV3 x a
              | PSUBX x => r_inj rSUBX x a | PSUBS x => r_inj rSUBS x a end)
    (fun v1 v2 => match v1, v2 with
              | PVX x, PVX y => r_reach rVX x y | PV3 x, PV3 y => r_reach rV3 x y | PD x, PD y => r_reach rD x y
              | PSVX x, PSVX y => r_reach rSVX x y | PSV3 x, PSV3 y => r_reach rSV3 x y
              | PSUBX x, PSUBX y => r_reach rSUBX x y | PSUBS x, PSUBS y => r_reach rSUBS x y
              | _, _ => False end).

Ltac p_case1 lem :=
  first [ solve [apply (lem _ _ _ _ _ lawsVX); assumption] | solve [apply (lem _ _ _ _ _ lawsV3); assumption]
        | solve [apply (lem _ _ _ _ _ lawsD); assumption]
        | solve [apply (lem _ _ _ _ _ lawsSVX); assumption] | solve [apply (lem _ _ _ _ _ lawsSV3); assumption]
        | solve [apply (lem _ _ _ _ _ lawsSUBX); assumption] | solve [apply (lem _ _ _ _ _ lawsSUBS); assumption] ].

Theorem p_laws : man_laws qzero (p_ops true) p_rel.
Proof.
  constructor; cbn [p_ops m_sdof m_dof m_rplus m_rminus m_cast].
  - intros d m H; discriminate H.
  - intros [x|x|x|x|x|x|x] Hv; cbn [p_rel r_valid r_compat] in *; p_case1 l_compat_refl.
  - intros [x|x|x|x|x|x|x] [y|y|y|y|y|y|y] Hc; cbn [p_rel r_compat] in Hc; try contradiction; cbn [p_dof];
      p_case1 l_compat_dof.
  - intros [x|x|x|x|x|x|x] a Hv Hl; cbn [p_rel r_valid p_dof p_rplus] in *; p_case1 l_rplus_valid.
  - intros [x|x|x|x|x|x|x] a Hv Hl; cbn [p_rel r_valid r_compat p_dof p_rplus] in *; p_case1 l_rplus_compat.
  - intros [x|x|x|x|x|x|x] [y|y|y|y|y|y|y] Hv1 Hv2 Hc; cbn [p_rel r_valid r_compat] in *; try contradiction;
      unfold p_rminus; cbn [p_rminus_opt p_dof]; p_case1 l_rminus_len.
  - intros [x|x|x|x|x|x|x] a Hv Hl Hi; cbn [p_rel r_valid r_inj p_dof p_rplus] in *;
      unfold p_rminus; cbn [p_rminus_opt]; p_case1 l_rminus_rplus.
  - intros [x|x|x|x|x|x|x] [y|y|y|y|y|y|y] Hv Hv2 Hc Hr; cbn [p_rel r_valid r_compat r_reach] in *; try contradiction;
      unfold p_rminus; cbn [p_rminus_opt p_rplus]; f_equal; p_case1 l_rplus_rminus.
  - intros [x|x|x|x|x|x|x] Hv; cbn [p_rel r_valid] in *; unfold p_rminus; cbn [p_rminus_opt p_dof];
      p_case1 l_rminus_self.
  - intros [x|x|x|x|x|x|x] a Hv Hl Hi; cbn [p_rel r_valid r_inj r_reach p_dof p_rplus] in *;
      p_case1 l_reach_rplus.
  - intros [x|x|x|x|x|x|x] Hv; cbn [p_rel r_valid p_cast] in *; f_equal; p_case1 l_cast_id.
Qed.

(* the std::variant of the harness, and AnyManifold over every payload type, inherit the axioms *)
Theorem variant_laws : man_laws qzero (var_ops (v_alt true)) (var_rel (fun _ => p_rel)).
Proof. apply var_laws. intros i. apply p_laws. Qed.

(* ---------- the defect: cast of a SubManifold on the unchanged tree ---------- *)
Definition cast_witness : sub (list Qc) := sub_ctor [Q2Qc 0] [Q2Qc 1] [].

Lemma cast_witness_wf : sub_wf oVX rVX cast_witness.
Proof. unfold sub_wf, okfs; cbn. repeat split; auto. Qed.

(* current argument order (repaired = false): the cast of the witness is NOT the witness - value and origin swapped *)
Theorem sub_cast_refuted :
  exists s : sub (list Qc), sub_wf oVX rVX s /\
    m_cast (oSUBX false) s <> s /\
    s_m (m_cast (oSUBX false) s) = s_m0 s /\ s_m0 (m_cast (oSUBX false) s) = s_m s /\ s_m s <> s_m0 s.
Proof.
  exists cast_witness. split; [apply cast_witness_wf|].
  assert (Hne : [Q2Qc 1] <> [Q2Qc 0]).
  { intro H. apply (f_equal (map this)) in H. vm_compute in H. discriminate H. }
  split; [|split; [reflexivity | split; [reflexivity | exact Hne]]].
  intro H. apply (f_equal (@s_m0 _)) in H. cbn in H. exact (Hne H).
Qed.

(* the same witness with the repaired argument order *)
Example sub_cast_repaired_witness : m_cast (oSUBX true) cast_witness = cast_witness.
Proof. reflexivity. Qed.

(* ---------- non-vacuity: the hypotheses of the generic theorems are satisfiable by non-trivial states ---------- *)
Definition q (k : Z) : Qc := Q2Qc (k # 8).

(* a SubManifold of Q^4 with two fixed dims given unsorted, moved away from its origin *)
Definition ex_sub : sub (list Qc) := sub_ctor [q 0; q 8; q 16; q 24] [q 1; q 8; q 16; q 20] [2; 1].
Example ex_sub_wf : sub_wf oVX rVX ex_sub /\ sub_dof oVX ex_sub = 2 /\ s_fixed ex_sub = [1; 2].
Proof. unfold sub_wf, okfs; cbn. repeat split; auto; repeat constructor. Qed.
Example ex_sub_rplus :
  map (map this) [s_m (sub_rplus qzero oVX ex_sub [q 3; q (-5)])] = map (map this) [[q 4; q 8; q 16; q 15]] /\
  map this (sub_rminus qzero oVX (sub_rplus qzero oVX ex_sub [q 3; q (-5)]) ex_sub) = map this [q 3; q (-5)].
Proof. vm_compute. split; reflexivity. Qed.

(* std::vector<VectorXd> with elements of different dof incl. an empty one, and the empty vector *)
Example ex_vec_valid : r_valid rSVX [[q 1; q 2]; []; [q 3]] /\ vec_dof oVX [[q 1; q 2]; []; [q 3]] = 3 /\
                       r_valid rSV3 [] /\ vec_dof oV3 [] = 0.
Proof. cbn. repeat split; repeat constructor. Qed.
Example ex_vec_rplus :
  map (map this) (vec_rplus oVX [[q 1; q 2]; []; [q 3]] [q 8; q 16; q 24]) = map (map this) [[q 9; q 18]; []; [q 27]].
Proof. vm_compute. reflexivity. Qed.

(* SubManifold over std::vector<Vector3d>: the hypotheses of sub_laws instantiated with a derived instance *)
Example ex_subs_wf :
  sub_wf oSV3 rSV3 (sub_ctor [[q 0; q 0; q 0]; [q 1; q 1; q 1]] [[q 0; q 2; q 0]; [q 1; q 1; q 5]] [5; 0; 3]).
Proof. unfold sub_wf, okfs; cbn. repeat split; auto; repeat constructor. Qed.

(* an AnyManifold in a heap that already holds another object *)
Example ex_any : exists h a, any_deref (W:=pval) h a = Some (PVX [q 1; q 2]) /\ r_valid p_rel (PVX [q 1; q 2]) /\ a = Some 1.
Proof.
  exists [Some (PV3 [q 0; q 0; q 0]); Some (PVX [q 1; q 2])], (Some 1). cbn. auto.
Qed.

(* a variant value holding the SubManifold alternative *)
Example ex_variant : r_valid (var_rel (fun _ => p_rel)) (3, PSUBX ex_sub) /\ alt_index (PSUBX ex_sub) = Some 3.
Proof. split; [apply ex_sub_wf | reflexivity]. Qed.
