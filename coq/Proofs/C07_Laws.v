(* C07 - the Manifold axioms as a predicate over a [man_ops] record, closed under the adaptors.

   For a manifold type the quantifier domain of the property statement is described by four relations:
     r_valid  m      representation constraint of a value (unit quaternion, static size, well-formed SubManifold...)
     r_compat m1 m2  the two values have the same run-time shape (sizes, active alternative, origin + fixed dims)
     r_inj    m a    the tangent a lies inside the injectivity radius at m ("rotation part below pi")
     r_reach  m2 m   m2 can be reached from m by rplus (only SubManifold restricts this: the difference must
                     lie in the free directions)                                                             *)
From Coq Require Import List Arith Bool Lia.
From SV Require Import Model.C07_Adaptors.
Import ListNotations.

Set Implicit Arguments.

Section Laws.
Variable T : Type.
Variable szero : T.

Record man_rel (M : Type) : Type := MkRel {
  r_valid : M -> Prop;
  r_compat : M -> M -> Prop;
  r_inj : M -> list T -> Prop;
  r_reach : M -> M -> Prop
}.

Record man_laws (M : Type) (o : man_ops T M) (r : man_rel M) : Prop := MkLaws {
  (* static Dof agrees with the run-time dof *)
  l_sdof : forall d m, m_sdof o = Some d -> r_valid r m -> m_dof o m = d;
  l_compat_refl : forall m, r_valid r m -> r_compat r m m;
  l_compat_dof : forall m1 m2, r_compat r m1 m2 -> m_dof o m1 = m_dof o m2;
  (* dof(m) is the tangent length accepted by rplus ... *)
  l_rplus_valid : forall m a, r_valid r m -> length a = m_dof o m -> r_valid r (m_rplus o m a);
  l_rplus_compat : forall m a, r_valid r m -> length a = m_dof o m -> r_compat r (m_rplus o m a) m;
  (* ... and returned by rminus *)
  l_rminus_len : forall m1 m2, r_valid r m1 -> r_valid r m2 -> r_compat r m1 m2 ->
                               length (m_rminus o m1 m2) = m_dof o m1;
  (* rminus(rplus(m,a),m) = a inside the injectivity radius *)
  l_rminus_rplus : forall m a, r_valid r m -> length a = m_dof o m -> r_inj r m a ->
                               m_rminus o (m_rplus o m a) m = a;
  (* rplus(m,rminus(m2,m)) = m2 *)
  l_rplus_rminus : forall m m2, r_valid r m -> r_valid r m2 -> r_compat r m2 m -> r_reach r m2 m ->
                                m_rplus o m (m_rminus o m2 m) = m2;
  (* rminus(m,m) = 0 *)
  l_rminus_self : forall m, r_valid r m -> m_rminus o m m = repeat szero (m_dof o m);
  (* every rplus image inside the injectivity radius is reachable (r_reach is not vacuous) *)
  l_reach_rplus : forall m a, r_valid r m -> length a = m_dof o m -> r_inj r m a -> r_reach r (m_rplus o m a) m;
  (* a cast to the same scalar type behaves identically: it is the same value *)
  l_cast_id : forall m, r_valid r m -> m_cast o m = m
}.

(* derived: dof is preserved by rplus *)
Lemma laws_rplus_dof : forall M (o : man_ops T M) r, man_laws o r ->
  forall m a, r_valid r m -> length a = m_dof o m -> m_dof o (m_rplus o m a) = m_dof o m.
Proof.
  intros M o r L m a Hv Hl. apply (l_compat_dof L). apply (l_rplus_compat L); assumption.
Qed.

End Laws.
