(* C07 - explicit corollaries (the clauses of the property, written out) of the generic adaptor theorems. *)
From Coq Require Import List Arith Bool Lia QArith Qcanon.
From SV Require Import Model.C07_Adaptors Model.C07_Inst Proofs.C07_Laws Proofs.C07_Vector Proofs.C07_Variant
  Proofs.C07_Sub Proofs.C07_Any Proofs.C07_Inst.
Import ListNotations.
Local Open Scope nat_scope.

Section Generic.
Variable T : Type.
Variable szero : T.
Variable M : Type.
Variable o : man_ops T M.
Variable r : man_rel T M.
Hypothesis L : man_laws szero o r.

(* ---- std::vector<M> ---- *)
Lemma vector_elementwise : forall v a,
  vec_rplus o v a = rplus_seg o v a /\
  (forall v2, Forall (r_valid r) v -> Forall (r_valid r) v2 -> Forall2 (r_compat r) v v2 ->
              vec_rminus szero o v v2 = rminus_cat o v v2).
Proof. intros v a. split; [apply vec_rplus_segments | intros; now apply (vec_rminus_concat L)]. Qed.

Lemma vector_rminus_rplus : forall v a, Forall (r_valid r) v -> length a = vec_dof o v -> vec_inj o r v a ->
  vec_rminus szero o (vec_rplus o v a) v = a.
Proof. intros v a Hv Hl Hi. exact (l_rminus_rplus (vec_laws L) v a Hv Hl Hi). Qed.

Lemma vector_rplus_rminus : forall v v2, Forall (r_valid r) v -> Forall (r_valid r) v2 ->
  Forall2 (r_compat r) v2 v -> Forall2 (r_reach r) v2 v -> vec_rplus o v (vec_rminus szero o v2 v) = v2.
Proof. intros v v2 Hv Hv2 Hc Hr. exact (l_rplus_rminus (vec_laws L) v v2 Hv Hv2 Hc Hr). Qed.

Lemma vector_rminus_self : forall v, Forall (r_valid r) v -> vec_rminus szero o v v = repeat szero (vec_dof o v).
Proof. intros v Hv. exact (l_rminus_self (vec_laws L) v Hv). Qed.

Lemma vector_dof_laws : forall v, Forall (r_valid r) v ->
  vec_dof o v = sumdof o v /\
  (forall a, length a = vec_dof o v -> vec_dof o (vec_rplus o v a) = vec_dof o v /\ length (vec_rplus o v a) = length v) /\
  (forall v2, Forall (r_valid r) v2 -> Forall2 (r_compat r) v v2 -> length (vec_rminus szero o v v2) = vec_dof o v).
Proof.
  intros v Hv. split; [now apply (vec_dof_sum L)|]. split.
  - intros a Hl. split; [exact (laws_rplus_dof (vec_laws L) v a Hv Hl)|].
    rewrite vec_rplus_segments. apply rplus_seg_length.
  - intros v2 Hv2 Hc. exact (l_rminus_len (vec_laws L) v v2 Hv Hv2 Hc).
Qed.

Lemma vector_cast_same : forall v, Forall (r_valid r) v -> vec_cast o v = v.
Proof. intros v Hv. exact (l_cast_id (vec_laws L) v Hv). Qed.

(* ---- SubManifold<M> ---- *)
Lemma sub_dof_laws : forall s, sub_wf o r s ->
  sub_dof o s + length (s_fixed s) = m_dof o (s_m0 s) /\
  (forall a, length a = sub_dof o s -> sub_wf o r (sub_rplus szero o s a) /\ sub_dof o (sub_rplus szero o s a) = sub_dof o s) /\
  (forall s2, sub_wf o r s2 -> r_compat (sub_rel szero o r) s s2 -> length (sub_rminus szero o s s2) = sub_dof o s).
Proof.
  intros s H. split; [exact (sub_dof_plus H)|]. split.
  - intros a Hl. split; [now apply (sub_rplus_wf L)|]. apply (@sub_compat_dof _ szero _ o r). now apply (sub_rplus_compat L).
  - intros s2 H2 Hc. now apply (sub_rminus_len L).
Qed.

End Generic.

(* ---- value types: a copy in another register is independent of the original (interpreter level) ---- *)
Lemma copy_value_independent : forall rep st d s p l,
  d <> s -> d < length (st_regs st) -> get_reg st s = Some (VP p) -> same_type (build l) p = true ->
  let st1 := fst (step rep st (OCopy d s)) in
  let st2 := fst (step rep st1 (OSet d l)) in
  get_reg st1 d = Some (VP p) /\ get_reg st1 s = Some (VP p) /\
  get_reg st2 d = Some (VP (build l)) /\ get_reg st2 s = Some (VP p).
Proof.
  intros rep st d s p l Hne Hd Hs Hty. cbn zeta.
  assert (E1 : step rep st (OCopy d s) = (set_reg st d (VP p) (st_heap st), RNone)).
  { cbn [step]. now rewrite Hs. }
  rewrite E1. cbn [fst].
  assert (Hd1 : get_reg (set_reg st d (VP p) (st_heap st)) d = Some (VP p)).
  { unfold get_reg, set_reg; cbn [st_regs]. now apply nth_set_nth_same. }
  assert (Hs1 : get_reg (set_reg st d (VP p) (st_heap st)) s = Some (VP p)).
  { unfold get_reg, set_reg; cbn [st_regs]. rewrite nth_set_nth_other by assumption. exact Hs. }
  split; [assumption|]. split; [assumption|].
  cbn [step]. rewrite Hd1, Hty. cbn [fst]. unfold get_reg, set_reg; cbn [st_regs st_heap]. split.
  - apply nth_set_nth_same. now rewrite set_nth_length.
  - rewrite nth_set_nth_other by assumption. exact Hs1.
Qed.
