(* C07 - SubManifold<M>: free/fixed index scatter/gather, constructor (sort), dof, rplus, rminus, cast.
   Proved for every base manifold satisfying the axioms, every dof and every subset of fixed dimensions. *)
From Coq Require Import List Arith Bool Lia.
From SV Require Import Model.C07_Adaptors Proofs.C07_Laws.
Import ListNotations.

Set Implicit Arguments.

(* ------------------------------------------------------------------------------------------ *)
(* the constructor's std::sort on lists of distinct indices *)
Section Sorting.

(* strictly increasing, all elements >= i *)
Fixpoint incr_from (i : nat) (fs : list nat) : Prop :=
  match fs with [] => True | f :: rest => i <= f /\ incr_from (S f) rest end.

Lemma incr_from_weaken : forall fs i j, j <= i -> incr_from i fs -> incr_from j fs.
Proof. destruct fs as [|f fs]; intros i j Hij H; [exact I|]. cbn in *. destruct H; split; [lia | assumption]. Qed.

Lemma in_insert : forall z x l, In z (insert_sorted x l) <-> z = x \/ In z l.
Proof.
  intros z x l. induction l as [|y l IH]; cbn [insert_sorted In]; [intuition|].
  destruct (x <=? y); cbn [In]; [intuition|]. rewrite IH. intuition.
Qed.

Lemma in_isort : forall z l, In z (isort l) <-> In z l.
Proof.
  intros z l. induction l as [|x l IH]; cbn [isort In]; [reflexivity|].
  rewrite in_insert, IH. intuition.
Qed.

Lemma insert_length : forall x l, length (insert_sorted x l) = S (length l).
Proof.
  intros x l. induction l as [|y l IH]; cbn [insert_sorted length]; [reflexivity|].
  destruct (x <=? y); cbn [length]; [reflexivity | now rewrite IH].
Qed.

Lemma isort_length : forall l, length (isort l) = length l.
Proof. induction l as [|x l IH]; cbn [isort length]; [reflexivity | now rewrite insert_length, IH]. Qed.

Lemma insert_incr : forall l i x, incr_from i l -> i <= x -> ~ In x l -> incr_from i (insert_sorted x l).
Proof.
  induction l as [|y l IH]; intros i x Hl Hi Hn; cbn [insert_sorted]; [cbn; auto|].
  cbn [incr_from] in Hl. destruct Hl as [Hy Hl].
  assert (x <> y) by (intro; subst; apply Hn; now left).
  destruct (x <=? y) eqn:E.
  - apply Nat.leb_le in E. cbn [incr_from]. repeat split; [assumption | lia | assumption].
  - apply Nat.leb_gt in E. cbn [incr_from]. split; [assumption|].
    apply IH; [assumption | lia | intro; apply Hn; now right].
Qed.

Lemma isort_incr : forall l, NoDup l -> incr_from 0 (isort l).
Proof.
  intros l H. induction H as [|x l Hx Hn IH]; cbn [isort]; [exact I|].
  apply insert_incr; [assumption | lia | now rewrite in_isort].
Qed.

(* sorting an already strictly sorted list changes nothing *)
Lemma isort_sorted_id : forall l i, incr_from i l -> isort l = l.
Proof.
  induction l as [|x l IH]; intros i H; [reflexivity|].
  cbn [incr_from] in H. destruct H as [_ H]. cbn [isort]. rewrite (IH _ H).
  destruct l as [|y l]; [reflexivity|]. cbn [insert_sorted]. cbn [incr_from] in H.
  destruct H as [H _]. replace (x <=? y) with true; [reflexivity|]. symmetry; apply Nat.leb_le; lia.
Qed.

End Sorting.

(* ------------------------------------------------------------------------------------------ *)
(* scatter / gather *)
Section ScatterGather.
Variable T : Type.
Variable szero : T.

(* the loops re-expressed over the not yet consumed suffixes of fixed_dims and of a *)
Fixpoint scat (n i : nat) (fs : list nat) (a : list T) : list T :=
  match n with
  | 0 => []
  | S n' =>
      match fs with
      | f :: fs' => if i =? f then szero :: scat n' (S i) fs' a else hd szero a :: scat n' (S i) fs (tl a)
      | [] => hd szero a :: scat n' (S i) [] (tl a)
      end
  end.
Fixpoint gath (calc : list T) (i : nat) (fs : list nat) : list T :=
  match calc with
  | [] => []
  | c :: rest =>
      match fs with
      | f :: fs' => if i =? f then gath rest (S i) fs' else c :: gath rest (S i) fs
      | [] => c :: gath rest (S i) []
      end
  end.

Lemma skipn_nth_cons : forall (A : Type) (d : A) (l : list A) k, k < length l -> skipn k l = nth k l d :: skipn (S k) l.
Proof.
  intros A d l. induction l as [|x l IH]; intros k Hk; cbn [length] in Hk; [lia|].
  destruct k as [|k]; [reflexivity|]. cbn [skipn nth]. apply IH. lia.
Qed.

Lemma is_free_suffix : forall fixed i k,
  is_free fixed i k = match skipn k fixed with [] => true | f :: _ => negb (i =? f) end.
Proof.
  intros fixed i k. unfold is_free. destruct (length fixed <=? k) eqn:E.
  - apply Nat.leb_le in E. now rewrite skipn_all2.
  - apply Nat.leb_gt in E. rewrite (skipn_nth_cons 0 fixed E). reflexivity.
Qed.

Lemma hd_skipn : forall (a : list T) j, hd szero (skipn j a) = nth j a szero.
Proof.
  intros a j. revert a. induction j as [|j IH]; intros [|x a]; cbn [skipn nth hd]; try reflexivity. apply IH.
Qed.
Lemma tl_skipn : forall (A : Type) (a : list A) j, tl (skipn j a) = skipn (S j) a.
Proof.
  intros A a j. revert a. induction j as [|j IH]; intros [|x a]; try reflexivity.
  change (skipn (S j) (x :: a)) with (skipn j a). rewrite IH. reflexivity.
Qed.

Lemma scatter_loop_scat : forall n i j k fixed a,
  scatter_loop szero n i j k fixed a = scat n i (skipn k fixed) (skipn j a).
Proof.
  induction n as [|n IH]; intros i j k fixed a; [reflexivity|].
  cbn [scatter_loop scat]. rewrite is_free_suffix, !Nat.add_1_r.
  destruct (skipn k fixed) as [|f fs] eqn:E.
  - rewrite IH, E, hd_skipn, tl_skipn. reflexivity.
  - assert (Hk : k < length fixed).
    { destruct (Nat.lt_ge_cases k (length fixed)) as [H|H]; [assumption|]. rewrite skipn_all2 in E by assumption. discriminate. }
    rewrite (skipn_nth_cons 0 fixed Hk) in E.
    assert (Ef : nth k fixed 0 = f) by congruence. assert (Efs : skipn (S k) fixed = fs) by congruence. clear E.
    destruct (i =? f) eqn:Eif; cbn [negb].
    + rewrite IH, Efs. reflexivity.
    + rewrite IH, hd_skipn, tl_skipn. rewrite (skipn_nth_cons 0 fixed Hk), Ef, Efs. reflexivity.
Qed.

Lemma gather_loop_gath : forall calc i k fixed,
  gather_loop calc i k fixed = gath calc i (skipn k fixed).
Proof.
  induction calc as [|c calc IH]; intros i k fixed; [reflexivity|].
  cbn [gather_loop gath]. rewrite is_free_suffix, !Nat.add_1_r.
  destruct (skipn k fixed) as [|f fs] eqn:E.
  - now rewrite IH, E.
  - assert (Hk : k < length fixed).
    { destruct (Nat.lt_ge_cases k (length fixed)) as [H|H]; [assumption|]. rewrite skipn_all2 in E by assumption. discriminate. }
    rewrite (skipn_nth_cons 0 fixed Hk) in E.
    assert (Ef : nth k fixed 0 = f) by congruence. assert (Efs : skipn (S k) fixed = fs) by congruence. clear E.
    destruct (i =? f) eqn:Eif; cbn [negb].
    + now rewrite IH, Efs.
    + rewrite IH. rewrite (skipn_nth_cons 0 fixed Hk), Ef, Efs. reflexivity.
Qed.

(* the remaining fixed dims are strictly increasing and lie in [i, i+n) *)
Definition okfs (i n : nat) (fs : list nat) : Prop := incr_from i fs /\ Forall (fun f => f < i + n) fs.

Lemma okfs_len : forall fs i n, okfs i n fs -> length fs <= n.
Proof.
  induction fs as [|f fs IH]; intros i n [Hi Hb]; cbn [length]; [lia|].
  cbn [incr_from] in Hi. destruct Hi as [Hf Hi]. inversion Hb as [|? ? Hfb Hb']; subst.
  assert (H : length fs <= i + n - S f).
  { apply (IH (S f)). split; [assumption|]. eapply Forall_impl; [|exact Hb']. cbn. intros; lia. }
  lia.
Qed.

Lemma okfs_hit : forall i n f fs, okfs i (S n) (f :: fs) -> i = f -> okfs (S i) n fs.
Proof.
  intros i n f fs [Hi Hb] E. subst f. cbn [incr_from] in Hi. destruct Hi as [_ Hi].
  inversion Hb; subst. split; [assumption|]. eapply Forall_impl; [|eassumption]. cbn. intros; lia.
Qed.
Lemma okfs_miss : forall i n fs, okfs i (S n) fs -> (match fs with [] => True | f :: _ => i <> f end) -> okfs (S i) n fs.
Proof.
  intros i n fs [Hi Hb] Hne. split.
  - destruct fs as [|f fs]; [exact I|]. cbn [incr_from] in *. destruct Hi; split; [lia | assumption].
  - eapply Forall_impl; [|exact Hb]. cbn. intros; lia.
Qed.

Definition zero_at (fs : list nat) (i : nat) (v : list T) : Prop :=
  forall f, In f fs -> nth (f - i) v szero = szero.

Lemma scat_length : forall n i fs a, length (scat n i fs a) = n.
Proof.
  induction n as [|n IH]; intros i fs a; [reflexivity|]. cbn [scat].
  destruct fs as [|f fs]; [cbn [length]; now rewrite IH|].
  destruct (i =? f); cbn [length]; now rewrite IH.
Qed.

Lemma gath_length : forall v i fs, okfs i (length v) fs -> length (gath v i fs) + length fs = length v.
Proof.
  induction v as [|c v IH]; intros i fs H.
  - pose proof (okfs_len H) as Hl. cbn [length] in *. destruct fs; cbn [length] in *; [reflexivity | lia].
  - cbn [gath length] in *. destruct fs as [|f fs].
    + cbn [length]. rewrite <- (IH (S i) []); [cbn [length]; lia | now apply okfs_miss].
    + destruct (i =? f) eqn:E.
      * apply Nat.eqb_eq in E. rewrite <- (IH (S i) fs); [cbn [length]; lia | now apply (okfs_hit H)].
      * apply Nat.eqb_neq in E. cbn [length]. rewrite <- (IH (S i) (f :: fs)); [cbn [length]; lia | now apply okfs_miss].
Qed.

(* gather after scatter returns the reduced tangent *)
Lemma gath_scat : forall n i fs a, okfs i n fs -> length a + length fs = n -> gath (scat n i fs a) i fs = a.
Proof.
  induction n as [|n IH]; intros i fs a H Hl.
  - destruct a; [reflexivity | cbn [length] in Hl; lia].
  - cbn [scat]. destruct fs as [|f fs].
    + destruct a as [|x a]; [cbn [length] in Hl; lia|]. cbn [gath hd tl]. f_equal.
      apply IH; [now apply okfs_miss | cbn [length] in *; lia].
    + destruct (i =? f) eqn:E.
      * cbn [gath]. rewrite E. apply Nat.eqb_eq in E.
        apply IH; [now apply (okfs_hit H) | cbn [length] in *; lia].
      * cbn [gath]. rewrite E. apply Nat.eqb_neq in E.
        assert (Hok : okfs (S i) n (f :: fs)) by now apply okfs_miss.
        pose proof (okfs_len Hok) as Hle.
        destruct a as [|x a]; [cbn [length] in *; lia|]. cbn [hd tl]. f_equal.
        apply IH; [assumption | cbn [length] in *; lia].
Qed.

(* scatter after gather restores a full tangent that vanishes at the fixed dims *)
Lemma scat_gath : forall v i fs, okfs i (length v) fs -> zero_at fs i v -> scat (length v) i fs (gath v i fs) = v.
Proof.
  induction v as [|c v IH]; intros i fs H Hz; [reflexivity|].
  cbn [length scat gath]. destruct fs as [|f fs].
  - cbn [hd tl]. f_equal. apply IH; [now apply okfs_miss | intros f []].
  - destruct (i =? f) eqn:E.
    + apply Nat.eqb_eq in E. assert (Hc : c = szero).
      { specialize (Hz f (or_introl eq_refl)). subst f. now rewrite Nat.sub_diag in Hz. }
      subst c. f_equal. pose proof (okfs_hit H E) as Hok. apply IH; [assumption|].
      intros g Hg. specialize (Hz g (or_intror Hg)).
      destruct Hok as [Hinc _]. assert (S i <= g).
      { clear - Hinc Hg. revert Hinc Hg. generalize (S i). induction fs as [|y fs IHf]; intros s Hinc Hg; [destruct Hg|].
        cbn [incr_from] in Hinc. destruct Hinc as [Hy Hinc]. destruct Hg as [->|Hg]; [assumption|].
        specialize (IHf (S y) Hinc Hg). lia. }
      replace (g - i) with (S (g - S i)) in Hz by lia. exact Hz.
    + apply Nat.eqb_neq in E. cbn [hd tl]. f_equal.
      assert (Hok : okfs (S i) (length v) (f :: fs)) by now apply okfs_miss.
      apply IH; [assumption|]. intros g Hg. specialize (Hz g Hg).
      assert (S i <= g).
      { destruct Hok as [Hinc _]. clear - Hinc Hg. revert Hinc Hg. generalize (S i) (f :: fs).
        intros s l. revert s. induction l as [|y l IHl]; intros s Hinc Hg; [destruct Hg|].
        cbn [incr_from] in Hinc. destruct Hinc as [Hy Hinc]. destruct Hg as [->|Hg]; [assumption|].
        specialize (IHl (S y) Hinc Hg). lia. }
      replace (g - i) with (S (g - S i)) in Hz by lia. exact Hz.
Qed.

Lemma incr_from_ge : forall l s g, incr_from s l -> In g l -> s <= g.
Proof.
  induction l as [|y l IH]; intros s g Hinc Hg; [destruct Hg|].
  cbn [incr_from] in Hinc. destruct Hinc as [Hy Hinc]. destruct Hg as [->|Hg]; [assumption|].
  specialize (IH (S y) g Hinc Hg). lia.
Qed.

(* the scattered tangent vanishes at every fixed dim: only free directions are moved *)
Lemma scat_zero_at : forall n i fs a, okfs i n fs -> zero_at fs i (scat n i fs a).
Proof.
  induction n as [|n IH]; intros i fs a H g Hg.
  - pose proof (okfs_len H) as Hl. destruct fs; [destruct Hg | cbn [length] in Hl; lia].
  - cbn [scat]. destruct fs as [|f fs]; [destruct Hg|].
    destruct (i =? f) eqn:E.
    + apply Nat.eqb_eq in E. pose proof (okfs_hit H E) as Hok. destruct Hg as [<-|Hg].
      * subst f. now rewrite Nat.sub_diag.
      * pose proof (@incr_from_ge _ _ _ (proj1 Hok) Hg) as Hge.
        replace (g - i) with (S (g - S i)) by lia. cbn [nth]. now apply IH.
    + apply Nat.eqb_neq in E. assert (Hok : okfs (S i) n (f :: fs)) by now apply okfs_miss.
      pose proof (@incr_from_ge _ _ _ (proj1 Hok) Hg) as Hge.
      replace (g - i) with (S (g - S i)) by lia. cbn [nth]. now apply IH.
Qed.

Lemma gath_repeat : forall n i fs, okfs i n fs -> gath (repeat szero n) i fs = repeat szero (n - length fs).
Proof.
  induction n as [|n IH]; intros i fs H; [reflexivity|].
  cbn [repeat gath]. destruct fs as [|f fs].
  - rewrite IH by now apply okfs_miss. cbn [length]. now rewrite !Nat.sub_0_r.
  - destruct (i =? f) eqn:E.
    + apply Nat.eqb_eq in E. rewrite IH by now apply (okfs_hit H). reflexivity.
    + apply Nat.eqb_neq in E. assert (Hok : okfs (S i) n (f :: fs)) by now apply okfs_miss.
      rewrite IH by assumption. pose proof (okfs_len Hok) as Hl.
      replace (S n - length (f :: fs)) with (S (n - length (f :: fs))) by lia. reflexivity.
Qed.

End ScatterGather.

(* ------------------------------------------------------------------------------------------ *)
Section SubProofs.
Variable T : Type.
Variable szero : T.
Variable M : Type.
Variable o : man_ops T M.
Variable r : man_rel T M.
Hypothesis L : man_laws szero o r.

Notation dof := (m_dof o).
Notation rplus := (m_rplus o).
Notation rminus := (m_rminus o).

(* a well-formed SubManifold value: valid origin and value of equal dof, fixed dims strictly sorted inside [0,dof) *)
Definition sub_wf (s : sub M) : Prop :=
  r_valid r (s_m0 s) /\ r_valid r (s_m s) /\ dof (s_m s) = dof (s_m0 s) /\ okfs 0 (dof (s_m0 s)) (s_fixed s).

Definition sub_rel : man_rel T (sub M) :=
  MkRel sub_wf
        (fun s1 s2 => s_m0 s1 = s_m0 s2 /\ s_fixed s1 = s_fixed s2 /\ r_compat r (s_m s1) (s_m s2))
        (fun s a => r_inj r (s_m s) (sub_scatter szero o s a))
        (fun s2 s => r_reach r (s_m s2) (s_m s) /\ zero_at szero (s_fixed s) 0 (rminus (s_m s2) (s_m s))).

(* the constructor establishes well-formedness for EVERY duplicate-free list of in-range fixed dims (any order) *)
Theorem sub_ctor_wf : forall m0 m fixed_dims,
  r_valid r m0 -> r_valid r m -> dof m = dof m0 ->
  NoDup fixed_dims -> Forall (fun x => x < dof m0) fixed_dims ->
  sub_wf (sub_ctor m0 m fixed_dims).
Proof.
  intros m0 m fx Hv0 Hv Hd Hn Hb. unfold sub_wf, sub_ctor; cbn [s_m0 s_m s_fixed].
  repeat split; try assumption; [now apply isort_incr|].
  apply Forall_forall. intros x Hx. apply (proj1 (in_isort x fx)) in Hx. rewrite Forall_forall in Hb. specialize (Hb x Hx). lia.
Qed.

(* sub_dof = n - |fixed| *)
Theorem sub_dof_ctor : forall m0 m fixed_dims,
  sub_dof o (sub_ctor m0 m fixed_dims) = dof m0 - length fixed_dims.
Proof. intros. unfold sub_dof, sub_ctor; cbn [s_m0 s_fixed]. now rewrite isort_length. Qed.

Lemma sub_dof_plus : forall s, sub_wf s -> sub_dof o s + length (s_fixed s) = dof (s_m0 s).
Proof. intros s (_ & _ & _ & Hok). pose proof (okfs_len Hok). unfold sub_dof. lia. Qed.

Lemma sub_scatter_scat : forall s a, sub_scatter szero o s a = scat szero (dof (s_m0 s)) 0 (s_fixed s) a.
Proof. intros. unfold sub_scatter. now rewrite scatter_loop_scat. Qed.

Lemma sub_fixed_sorted : forall s, sub_wf s -> isort (s_fixed s) = s_fixed s.
Proof. intros s (_ & _ & _ & Hinc & _). now apply (@isort_sorted_id _ 0 Hinc). Qed.

(* rplus: origin and fixed dims are kept; the value moves by the scattered tangent *)
Theorem sub_rplus_eq : forall s a, sub_wf s ->
  sub_rplus szero o s a = MkSub (s_m0 s) (rplus (s_m s) (sub_scatter szero o s a)) (s_fixed s).
Proof. intros s a H. unfold sub_rplus, sub_ctor. now rewrite sub_fixed_sorted. Qed.

Theorem sub_keeps_origin : forall s a, s_m0 (sub_rplus szero o s a) = s_m0 s.
Proof. reflexivity. Qed.

(* SubManifold moves only along its free directions: the tangent e handed to the base rplus has the full length,
   is zero at every fixed dim and carries a (in order) at the free dims *)
Theorem sub_moves_only_free : forall s a, sub_wf s -> length a = sub_dof o s ->
  let e := sub_scatter szero o s a in
  s_m (sub_rplus szero o s a) = rplus (s_m s) e /\
  length e = dof (s_m0 s) /\
  (forall f, In f (s_fixed s) -> nth f e szero = szero) /\
  gath e 0 (s_fixed s) = a.
Proof.
  intros s a H Hl e. pose proof (sub_dof_plus H) as Hd. destruct H as (Hv0 & Hv & Hdm & Hok).
  subst e. rewrite sub_scatter_scat. repeat split.
  - unfold sub_rplus, sub_ctor; cbn [s_m]. now rewrite sub_scatter_scat.
  - apply scat_length.
  - intros f Hf. pose proof (@scat_zero_at T szero _ _ _ a Hok f Hf) as Hz. now rewrite Nat.sub_0_r in Hz.
  - apply gath_scat; [assumption | lia].
Qed.

(* rminus reports the difference only in the free directions: the base difference with the fixed entries dropped *)
Theorem sub_rminus_eq : forall s1 s2, sub_wf s1 -> sub_wf s2 ->
  r_compat r (s_m s1) (s_m s2) ->
  sub_rminus szero o s1 s2 = gath (rminus (s_m s1) (s_m s2)) 0 (s_fixed s1).
Proof.
  intros s1 s2 H1 H2 Hc. pose proof (sub_dof_plus H1) as Hd.
  destruct H1 as (Hv0 & Hv & Hdm & Hok). destruct H2 as (_ & Hv2 & _ & _).
  unfold sub_rminus. rewrite gather_loop_gath. cbn [skipn].
  assert (Hlen : length (rminus (s_m s1) (s_m s2)) = dof (s_m0 s1)).
  { rewrite (l_rminus_len L) by assumption. assumption. }
  pose proof (@gath_length T (rminus (s_m s1) (s_m s2)) 0 (s_fixed s1)) as Hg. rewrite Hlen in Hg. specialize (Hg Hok).
  replace (sub_dof o s1 - _) with 0 by lia. cbn [repeat]. now rewrite app_nil_r.
Qed.

Lemma sub_rplus_wf : forall s a, sub_wf s -> length a = sub_dof o s -> sub_wf (sub_rplus szero o s a).
Proof.
  intros s a H Hl. rewrite sub_rplus_eq by assumption. destruct H as (Hv0 & Hv & Hdm & Hok).
  assert (Hle : length (sub_scatter szero o s a) = dof (s_m s)).
  { rewrite sub_scatter_scat, scat_length. now symmetry. }
  unfold sub_wf; cbn [s_m0 s_m s_fixed]. repeat split; try assumption.
  - now apply (l_rplus_valid L).
  - rewrite (laws_rplus_dof L) by assumption. assumption.
  - apply Hok.
  - apply Hok.
Qed.

Lemma sub_scatter_len : forall s a, sub_wf s -> length (sub_scatter szero o s a) = dof (s_m s).
Proof. intros s a (_ & _ & Hdm & _). rewrite sub_scatter_scat, scat_length. now symmetry. Qed.

(* The following hold for the current code and for the repaired one (they do not involve cast). *)
Lemma sub_compat_dof : forall s1 s2, r_compat sub_rel s1 s2 -> sub_dof o s1 = sub_dof o s2.
Proof. intros s1 s2 (H0 & Hf & _). unfold sub_dof. now rewrite H0, Hf. Qed.

Lemma sub_rplus_compat : forall s a, sub_wf s -> length a = sub_dof o s -> r_compat sub_rel (sub_rplus szero o s a) s.
Proof.
  intros s a H Hl. cbn [sub_rel r_compat]. rewrite sub_rplus_eq by assumption. cbn [s_m0 s_m s_fixed].
  split; [reflexivity|]. split; [reflexivity|].
  apply (l_rplus_compat L); [apply H | now apply sub_scatter_len].
Qed.

(* dof(m) is the tangent length returned by rminus *)
Theorem sub_rminus_len : forall s1 s2, sub_wf s1 -> sub_wf s2 -> r_compat sub_rel s1 s2 ->
  length (sub_rminus szero o s1 s2) = sub_dof o s1.
Proof.
  intros m1 m2 H1 H2 (_ & _ & Hc). rewrite sub_rminus_eq by assumption.
  pose proof (sub_dof_plus H1) as Hd. destruct H1 as (Hv0 & Hv & Hdm & Hok). destruct H2 as (_ & Hv2 & _ & _).
  pose proof (@gath_length T (rminus (s_m m1) (s_m m2)) 0 (s_fixed m1)) as Hg.
  rewrite (l_rminus_len L) in Hg by assumption. rewrite Hdm in Hg. specialize (Hg Hok). lia.
Qed.

(* rminus(rplus(m,a),m) = a *)
Theorem sub_rminus_rplus : forall s a, sub_wf s -> length a = sub_dof o s -> r_inj sub_rel s a ->
  sub_rminus szero o (sub_rplus szero o s a) s = a.
Proof.
  intros m a H Hl Hi. cbn [sub_rel r_inj] in Hi. pose proof (@sub_rplus_wf _ _ H Hl) as Hw.
  pose proof (@sub_rplus_compat _ _ H Hl) as (_ & _ & Hc).
  rewrite sub_rminus_eq by assumption.
  rewrite sub_rplus_eq by assumption. cbn [s_m s_fixed].
  rewrite (l_rminus_rplus L); [ | apply H | now apply sub_scatter_len | assumption].
  rewrite sub_scatter_scat. pose proof (sub_dof_plus H). apply gath_scat; [apply H | lia].
Qed.

(* rplus(m,rminus(m2,m)) = m2 for m2 reachable from m inside the submanifold *)
Theorem sub_rplus_rminus : forall s s2, sub_wf s -> sub_wf s2 -> r_compat sub_rel s2 s -> r_reach sub_rel s2 s ->
  sub_rplus szero o s (sub_rminus szero o s2 s) = s2.
Proof.
  intros m m2 H H2 (H0 & Hf & Hc) (Hr & Hz).
  rewrite sub_rminus_eq by assumption. rewrite sub_rplus_eq by assumption.
  rewrite sub_scatter_scat. rewrite Hf.
  assert (Hlen : length (rminus (s_m m2) (s_m m)) = dof (s_m0 m)).
  { rewrite (l_rminus_len L); [ | apply H2 | apply H | assumption].
    rewrite (l_compat_dof L _ _ Hc). apply H. }
  rewrite <- Hlen. rewrite scat_gath; [ | rewrite Hlen; apply H | assumption].
  rewrite (l_rplus_rminus L); [ | apply H | apply H2 | assumption | assumption].
  destruct m2 as [a0 a1 a2]; cbn [s_m0 s_m s_fixed] in *. now subst.
Qed.

(* rminus(m,m) = 0 *)
Theorem sub_rminus_self : forall s, sub_wf s -> sub_rminus szero o s s = repeat szero (sub_dof o s).
Proof.
  intros m H. rewrite sub_rminus_eq; [ | assumption | assumption | apply (l_compat_refl L); apply H].
  rewrite (l_rminus_self L) by apply H. destruct H as (Hv0 & Hv & Hdm & Hok). rewrite Hdm.
  unfold sub_dof. now rewrite gath_repeat.
Qed.

Lemma sub_reach_rplus : forall s a, sub_wf s -> length a = sub_dof o s -> r_inj sub_rel s a ->
  r_reach sub_rel (sub_rplus szero o s a) s.
Proof.
  intros s a H Hl Hi. cbn [sub_rel r_reach r_inj] in *. rewrite sub_rplus_eq by assumption. cbn [s_m]. split.
  - apply (l_reach_rplus L); [apply H | now apply sub_scatter_len | assumption].
  - rewrite (l_rminus_rplus L); [ | apply H | now apply sub_scatter_len | assumption].
    rewrite sub_scatter_scat. apply scat_zero_at. apply H.
Qed.

(* cast to the same scalar type.  Repaired argument order: the cast is the value itself. *)
Theorem sub_cast_same_scalar : forall s, sub_wf s -> sub_cast o true s = s.
Proof.
  intros s H. unfold sub_cast, sub_ctor. rewrite sub_fixed_sorted by assumption.
  destruct H as (Hv0 & Hv & _). rewrite !(l_cast_id L) by assumption. now destruct s.
Qed.

(* Current argument order: origin and value come back swapped. *)
Theorem sub_cast_current_swaps : forall s, sub_wf s ->
  sub_cast o false s = MkSub (s_m s) (s_m0 s) (s_fixed s).
Proof.
  intros s H. unfold sub_cast, sub_ctor. rewrite sub_fixed_sorted by assumption.
  destruct H as (Hv0 & Hv & _). now rewrite !(l_cast_id L) by assumption.
Qed.

(* with the repaired cast SubManifold<M> satisfies all Manifold axioms *)
Theorem sub_laws : man_laws szero (sub_ops szero o true) sub_rel.
Proof.
  constructor; cbn [sub_ops m_sdof m_dof m_rplus m_rminus m_cast]; cbn [sub_rel r_valid].
  - intros d m H; discriminate H.
  - intros m H. cbn [sub_rel r_compat]. repeat split. apply (l_compat_refl L). apply H.
  - apply sub_compat_dof.
  - intros; now apply sub_rplus_wf.
  - apply sub_rplus_compat.
  - apply sub_rminus_len.
  - apply sub_rminus_rplus.
  - apply sub_rplus_rminus.
  - apply sub_rminus_self.
  - apply sub_reach_rplus.
  - apply sub_cast_same_scalar.
Qed.

End SubProofs.
