(* C07 - std::variant<Ms...>: dispatch on the active alternative; the adaptor inherits the Manifold axioms
   from its alternatives (for every alternative index). *)
From Coq Require Import List Arith Bool Lia.
From SV Require Import Model.C07_Adaptors Proofs.C07_Laws.
Import ListNotations.

Set Implicit Arguments.

Section VariantProofs.
Variable T : Type.
Variable szero : T.
Variable U : Type.
Variable alt : nat -> man_ops T U.
Variable altr : nat -> man_rel T U.
Hypothesis L : forall i, man_laws szero (alt i) (altr i).

Definition var_rel : man_rel T (nat * U) :=
  MkRel (fun m => r_valid (altr (fst m)) (snd m))
        (fun m1 m2 => fst m1 = fst m2 /\ r_compat (altr (fst m1)) (snd m1) (snd m2))
        (fun m a => r_inj (altr (fst m)) (snd m) a)
        (fun m2 m => fst m2 = fst m /\ r_reach (altr (fst m2)) (snd m2) (snd m)).

(* dispatch: every operation is the operation of the active alternative and keeps the alternative *)
Theorem var_dispatch : forall i x y a,
  var_dof alt (i, x) = m_dof (alt i) x /\
  var_rplus alt (i, x) a = (i, m_rplus (alt i) x a) /\
  var_rminus_opt alt (i, x) (i, y) = Some (m_rminus (alt i) x y) /\
  var_cast alt (i, x) = (i, m_cast (alt i) x).
Proof.
  intros i x y a. unfold var_dof, var_rplus, var_rminus_opt, var_cast. cbn [fst snd].
  now rewrite Nat.eqb_refl.
Qed.

(* rminus between different alternatives throws (std::get<Mi>(m2) -> std::bad_variant_access) *)
Theorem var_rminus_mismatch : forall i j x y, i <> j -> var_rminus_opt alt (i, x) (j, y) = None.
Proof.
  intros i j x y H. unfold var_rminus_opt. cbn [fst snd]. apply Nat.eqb_neq in H. now rewrite H.
Qed.

Theorem var_laws : man_laws szero (var_ops alt) var_rel.
Proof.
  constructor; cbn [var_ops var_rel m_sdof m_dof m_rplus m_rminus m_cast r_valid r_compat r_inj r_reach].
  - intros d m H; discriminate H.
  - intros [i x] Hv; cbn [fst snd] in *. split; [reflexivity | now apply (l_compat_refl (L i))].
  - intros [i x] [j y] [Hij Hc]; cbn [fst snd] in *. subst j. unfold var_dof; cbn [fst snd].
    now apply (l_compat_dof (L i)).
  - intros [i x] a Hv Hl; unfold var_dof, var_rplus in *; cbn [fst snd] in *. now apply (l_rplus_valid (L i)).
  - intros [i x] a Hv Hl; unfold var_dof, var_rplus in *; cbn [fst snd] in *.
    split; [reflexivity | now apply (l_rplus_compat (L i))].
  - intros [i x] [j y] Hv1 Hv2 [Hij Hc]; cbn [fst snd] in *. subst j.
    unfold var_rminus, var_rminus_opt, var_dof; cbn [fst snd]. rewrite Nat.eqb_refl.
    now apply (l_rminus_len (L i)).
  - intros [i x] a Hv Hl Hi; unfold var_dof, var_rplus, var_rminus, var_rminus_opt in *; cbn [fst snd] in *.
    rewrite Nat.eqb_refl. now apply (l_rminus_rplus (L i)).
  - intros [j y] [i x] Hv Hv2 [Hij Hc] [_ Hr]; cbn [fst snd] in *. subst j.
    unfold var_rplus, var_rminus, var_rminus_opt; cbn [fst snd]. rewrite Nat.eqb_refl.
    now rewrite (l_rplus_rminus (L i)).
  - intros [i x] Hv; cbn [fst snd] in *. unfold var_rminus, var_rminus_opt, var_dof; cbn [fst snd].
    rewrite Nat.eqb_refl. now apply (l_rminus_self (L i)).
  - intros [i x] a Hv Hl Hi; unfold var_dof, var_rplus in *; cbn [fst snd] in *.
    split; [reflexivity | now apply (l_reach_rplus (L i))].
  - intros [i x] Hv; cbn [fst snd] in *. unfold var_cast; cbn [fst snd]. now rewrite (l_cast_id (L i)).
Qed.

End VariantProofs.
