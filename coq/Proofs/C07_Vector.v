(* C07 - std::vector<M>: the adaptor acts element-wise on consecutive tangent segments of lengths dof m_i
   and inherits the Manifold axioms from its element type (static and dynamic element dof, empty vector). *)
From Coq Require Import List Arith Bool Lia.
From SV Require Import Model.C07_Adaptors Proofs.C07_Laws.
Import ListNotations.

Set Implicit Arguments.

Section VecProofs.
Variable T : Type.
Variable szero : T.
Variable M : Type.
Variable o : man_ops T M.
Variable r : man_rel T M.
Hypothesis L : man_laws szero o r.

Notation dof := (m_dof o).
Notation rplus := (m_rplus o).
Notation rminus := (m_rminus o).

(* ---------- the specification: element-wise on consecutive segments ---------- *)
Fixpoint sumdof (v : list M) : nat := match v with [] => 0 | m :: rest => dof m + sumdof rest end.

(* i-th element gets the i-th consecutive segment *)
Fixpoint rplus_seg (v : list M) (a : list T) : list M :=
  match v with
  | [] => []
  | mi :: rest => rplus mi (firstn (dof mi) a) :: rplus_seg rest (skipn (dof mi) a)
  end.
(* the result is the concatenation of the element differences *)
Fixpoint rminus_cat (m1 m2 : list M) : list T :=
  match m1, m2 with
  | a :: r1, b :: r2 => rminus a b ++ rminus_cat r1 r2
  | _, _ => []
  end.

Fixpoint vec_inj (v : list M) (a : list T) : Prop :=
  match v with
  | [] => True
  | mi :: rest => r_inj r mi (firstn (dof mi) a) /\ vec_inj rest (skipn (dof mi) a)
  end.

Definition vec_rel : man_rel T (list M) :=
  MkRel (Forall (r_valid r)) (Forall2 (r_compat r)) vec_inj (Forall2 (r_reach r)).

(* ---------- list helpers ---------- *)
Lemma skipn_add : forall (A : Type) (l : list A) c d, skipn (c + d) l = skipn d (skipn c l).
Proof.
  intros A l c; revert l. induction c as [|c IH]; intros l d; [reflexivity|].
  destruct l as [|x l]; cbn [skipn plus]; [now rewrite skipn_nil | apply IH].
Qed.

Lemma fold_dof_acc : forall (v : list M) acc,
  fold_left (fun s item => s + dof item) v acc = acc + sumdof v.
Proof.
  induction v as [|m v IH]; intros acc; cbn [fold_left sumdof]; [lia|].
  rewrite IH. lia.
Qed.

Lemma sumdof_static : forall d v, m_sdof o = Some d -> Forall (r_valid r) v -> sumdof v = length v * d.
Proof.
  intros d v Hs Hv. induction Hv as [|m v Hm Hv IH]; cbn [sumdof length]; [reflexivity|].
  rewrite IH, (l_sdof L m Hs Hm). lia.
Qed.

(* ---------- dof ---------- *)
Lemma vec_dof_sum : forall v, Forall (r_valid r) v -> vec_dof o v = sumdof v.
Proof.
  intros v Hv. unfold vec_dof. destruct (m_sdof o) as [d|] eqn:Hs.
  - now rewrite (sumdof_static Hs Hv).
  - now rewrite fold_dof_acc.
Qed.

Lemma vec_rminus_cnt_sum : forall v, Forall (r_valid r) v -> vec_rminus_cnt o v = sumdof v.
Proof.
  intros v Hv. unfold vec_rminus_cnt. destruct (m_sdof o) as [d|] eqn:Hs.
  - rewrite (sumdof_static Hs Hv). lia.
  - now rewrite fold_dof_acc.
Qed.

(* ---------- rplus = element-wise on consecutive segments ---------- *)
Lemma vec_rplus_loop_shift : forall v a c, vec_rplus_loop o v a c = rplus_seg v (skipn c a).
Proof.
  induction v as [|mi v IH]; intros a c; cbn [vec_rplus_loop rplus_seg]; [reflexivity|].
  unfold segment. rewrite IH, skipn_add. reflexivity.
Qed.

Theorem vec_rplus_segments : forall v a, vec_rplus o v a = rplus_seg v a.
Proof. intros v a. unfold vec_rplus. now rewrite vec_rplus_loop_shift. Qed.

Lemma rplus_seg_length : forall v a, length (rplus_seg v a) = length v.
Proof. induction v as [|m v IH]; intros a; cbn [rplus_seg length]; [reflexivity | now rewrite IH]. Qed.

Lemma rplus_seg_valid : forall v a, Forall (r_valid r) v -> length a = sumdof v -> Forall (r_valid r) (rplus_seg v a).
Proof.
  intros v a Hv; revert a. induction Hv as [|m v Hm Hv IH]; intros a Hl; cbn [rplus_seg]; [constructor|].
  cbn [sumdof] in Hl. constructor.
  - apply (l_rplus_valid L); [assumption | rewrite firstn_length; lia].
  - apply IH. rewrite skipn_length. lia.
Qed.

Lemma rplus_seg_compat : forall v a, Forall (r_valid r) v -> length a = sumdof v -> Forall2 (r_compat r) (rplus_seg v a) v.
Proof.
  intros v a Hv; revert a. induction Hv as [|m v Hm Hv IH]; intros a Hl; cbn [rplus_seg]; [constructor|].
  cbn [sumdof] in Hl. constructor.
  - apply (l_rplus_compat L); [assumption | rewrite firstn_length; lia].
  - apply IH. rewrite skipn_length. lia.
Qed.

Lemma compat_sumdof : forall v1 v2, Forall2 (r_compat r) v1 v2 -> sumdof v1 = sumdof v2.
Proof.
  intros v1 v2 H. induction H as [|a b v1 v2 Hab H IH]; [reflexivity|].
  cbn [sumdof]. rewrite IH, (l_compat_dof L _ _ Hab). reflexivity.
Qed.

(* ---------- rminus = concatenation of the element differences ---------- *)
Lemma set_segment_mid : forall (pre mid post v : list T) d,
  length v = d -> d <= length mid ->
  set_segment (pre ++ mid ++ post) (length pre) d v = (pre ++ v) ++ skipn d mid ++ post.
Proof.
  intros pre mid post v d Hv Hd. unfold set_segment.
  rewrite firstn_app, firstn_all, Nat.sub_diag, firstn_O, app_nil_r.
  rewrite <- Hv at 1. rewrite firstn_all.
  rewrite skipn_add, skipn_app, skipn_all, Nat.sub_diag. cbn [app skipn].
  rewrite skipn_app. replace (d - length mid) with 0 by lia. cbn [skipn].
  now rewrite <- app_assoc.
Qed.

Lemma vec_rminus_loop_inv : forall m1 m2 pre mid post,
  Forall (r_valid r) m1 -> Forall (r_valid r) m2 -> Forall2 (r_compat r) m1 m2 ->
  length mid = sumdof m1 ->
  vec_rminus_loop o m1 m2 (pre ++ mid ++ post) (length pre) = pre ++ rminus_cat m1 m2 ++ post.
Proof.
  intros m1 m2 pre mid post Hv1 Hv2 Hc. revert pre mid Hv1 Hv2.
  induction Hc as [|a b m1 m2 Hab Hc IH]; intros pre mid Hv1 Hv2 Hmid.
  - cbn [vec_rminus_loop rminus_cat]. cbn [sumdof] in Hmid.
    apply length_zero_iff_nil in Hmid. now subst mid.
  - inversion Hv1 as [|? ? Ha Hv1']; inversion Hv2 as [|? ? Hb Hv2']; subst.
    cbn [vec_rminus_loop rminus_cat].
    assert (Hlen : length (rminus a b) = dof a) by (apply (l_rminus_len L); assumption).
    cbn [sumdof] in Hmid.
    rewrite set_segment_mid by (try assumption; lia).
    replace (length pre + dof a) with (length (pre ++ rminus a b)) by (rewrite app_length; lia).
    rewrite IH; try assumption.
    + now rewrite <- !app_assoc.
    + rewrite skipn_length. lia.
Qed.

Theorem vec_rminus_concat : forall m1 m2,
  Forall (r_valid r) m1 -> Forall (r_valid r) m2 -> Forall2 (r_compat r) m1 m2 ->
  vec_rminus szero o m1 m2 = rminus_cat m1 m2.
Proof.
  intros m1 m2 Hv1 Hv2 Hc. unfold vec_rminus.
  pose proof (@vec_rminus_loop_inv m1 m2 [] (repeat szero (vec_rminus_cnt o m1)) [] Hv1 Hv2 Hc) as H.
  cbn [app length] in H. rewrite !app_nil_r in H. apply H.
  rewrite repeat_length. now apply vec_rminus_cnt_sum.
Qed.

Lemma rminus_cat_length : forall m1 m2,
  Forall (r_valid r) m1 -> Forall (r_valid r) m2 -> Forall2 (r_compat r) m1 m2 ->
  length (rminus_cat m1 m2) = sumdof m1.
Proof.
  intros m1 m2 Hv1 Hv2 Hc. revert Hv1 Hv2. induction Hc as [|a b m1 m2 Hab Hc IH]; intros Hv1 Hv2; [reflexivity|].
  inversion Hv1; inversion Hv2; subst. cbn [rminus_cat]. rewrite app_length, IH by assumption.
  rewrite (l_rminus_len L) by assumption. reflexivity.
Qed.

(* ---------- the axioms at the level of the specification functions ---------- *)
Lemma seg_rminus_rplus : forall v a, Forall (r_valid r) v -> length a = sumdof v -> vec_inj v a ->
  rminus_cat (rplus_seg v a) v = a.
Proof.
  intros v a Hv; revert a. induction Hv as [|m v Hm Hv IH]; intros a Hl Hi.
  - cbn. cbn [sumdof] in Hl. apply length_zero_iff_nil in Hl. now subst.
  - cbn [rplus_seg rminus_cat]. destruct Hi as [Hi1 Hi2].
    cbn [sumdof] in Hl.
    rewrite (l_rminus_rplus L); [ | assumption | rewrite firstn_length; lia | assumption].
    rewrite IH; [apply firstn_skipn | rewrite skipn_length; lia | assumption].
Qed.

Lemma seg_rplus_rminus : forall v v2, Forall (r_valid r) v -> Forall (r_valid r) v2 ->
  Forall2 (r_compat r) v2 v -> Forall2 (r_reach r) v2 v -> rplus_seg v (rminus_cat v2 v) = v2.
Proof.
  intros v v2 Hv Hv2 Hc; revert Hv Hv2. induction Hc as [|b a v2 v Hba Hc IH]; intros Hv Hv2 Hr; [reflexivity|].
  inversion Hv; inversion Hv2; inversion Hr; subst. cbn [rplus_seg rminus_cat].
  assert (Hlen : length (rminus b a) = dof a).
  { rewrite (l_rminus_len L) by assumption. now apply (l_compat_dof L). }
  rewrite firstn_app, <- Hlen, firstn_all, Nat.sub_diag, firstn_O, app_nil_r.
  rewrite skipn_app, skipn_all, Nat.sub_diag. cbn [app skipn].
  rewrite (l_rplus_rminus L) by assumption. rewrite IH by assumption. reflexivity.
Qed.

Lemma seg_rminus_self : forall v, Forall (r_valid r) v -> rminus_cat v v = repeat szero (sumdof v).
Proof.
  intros v Hv. induction Hv as [|m v Hm Hv IH]; [reflexivity|].
  cbn [rminus_cat]. cbn [sumdof]. rewrite repeat_app, IH, (l_rminus_self L) by assumption.
  reflexivity.
Qed.

Lemma seg_reach : forall v a, Forall (r_valid r) v -> length a = sumdof v -> vec_inj v a ->
  Forall2 (r_reach r) (rplus_seg v a) v.
Proof.
  intros v a Hv; revert a. induction Hv as [|m v Hm Hv IH]; intros a Hl Hi; cbn [rplus_seg]; [constructor|].
  destruct Hi as [Hi1 Hi2]. cbn [sumdof] in Hl. constructor.
  - apply (l_reach_rplus L); [assumption | rewrite firstn_length; lia | assumption].
  - apply IH; [rewrite skipn_length; lia | assumption].
Qed.

Lemma Forall2_refl_valid : forall v, Forall (r_valid r) v -> Forall2 (r_compat r) v v.
Proof. intros v Hv. induction Hv; constructor; [now apply (l_compat_refl L) | assumption]. Qed.

Lemma vec_cast_id : forall v, Forall (r_valid r) v -> vec_cast o v = v.
Proof.
  intros v Hv. unfold vec_cast. induction Hv as [|m v Hm Hv IH]; [reflexivity|].
  cbn [map]. now rewrite IH, (l_cast_id L).
Qed.

Lemma Forall2_len : forall (A B : Type) (P : A -> B -> Prop) l1 l2, Forall2 P l1 l2 -> length l1 = length l2.
Proof. intros A B P l1 l2 H. induction H; cbn [length]; [reflexivity | now rewrite IHForall2]. Qed.

(* ---------- the adaptor satisfies the Manifold axioms ---------- *)
Theorem vec_laws : man_laws szero (vec_ops szero o) vec_rel.
Proof.
  constructor; cbn [vec_ops vec_rel m_sdof m_dof m_rplus m_rminus m_cast r_valid r_compat r_inj r_reach].
  - intros d m H; discriminate H.
  - apply Forall2_refl_valid.
  - intros m1 m2 Hc.
    (* compat lists have equal sumdof; dof on possibly invalid lists: use both paths *)
    unfold vec_dof. destruct (m_sdof o) as [d|].
    + now rewrite (Forall2_len Hc).
    + rewrite !fold_dof_acc. now rewrite (compat_sumdof Hc).
  - intros m a Hv Hl. rewrite vec_rplus_segments. rewrite vec_dof_sum in Hl by assumption.
    now apply rplus_seg_valid.
  - intros m a Hv Hl. rewrite vec_rplus_segments. rewrite vec_dof_sum in Hl by assumption.
    now apply rplus_seg_compat.
  - intros m1 m2 Hv1 Hv2 Hc. rewrite vec_rminus_concat, vec_dof_sum by assumption.
    now apply rminus_cat_length.
  - intros m a Hv Hl Hi. rewrite vec_dof_sum in Hl by assumption. rewrite vec_rplus_segments.
    rewrite vec_rminus_concat; [now apply seg_rminus_rplus | now apply rplus_seg_valid | assumption
                               | now apply rplus_seg_compat].
  - intros m m2 Hv Hv2 Hc Hr. rewrite vec_rminus_concat by assumption. rewrite vec_rplus_segments.
    now apply seg_rplus_rminus.
  - intros m Hv. rewrite vec_rminus_concat; [ | assumption | assumption | now apply Forall2_refl_valid].
    rewrite vec_dof_sum by assumption. now apply seg_rminus_self.
  - intros m a Hv Hl Hi. rewrite vec_dof_sum in Hl by assumption. rewrite vec_rplus_segments.
    now apply seg_reach.
  - apply vec_cast_id.
Qed.

(* the empty vector: dof 0, rplus with the empty tangent returns the empty vector, rminus is empty *)
Lemma vec_empty : vec_dof o [] = 0 /\ vec_rplus o [] [] = [] /\ vec_rminus szero o [] [] = [].
Proof.
  unfold vec_dof, vec_rplus, vec_rminus, vec_rminus_cnt. destruct (m_sdof o); cbn; rewrite ?Nat.mul_0_r; auto.
Qed.

End VecProofs.
