(** * C08 - theorems about the model of smooth::diff::dr (coq/Model/C08_DiffLayout.v)

    For ALL argument lists (any number / mix of Manifold kinds, any sizes), all callables and all index lists:
    - [k1_characterisation], [k2_characterisation]: what every cell of J and H holds after the loops;
    - [hess_layout]: the cell written for (argument i0, dof k0, argument i1, dof k1, output j) is
      row [offset i0 + k0], column [j * nx + offset i1 + k1] - a bijection onto "block j, entry (r, c)" of the
      documented horizontally stacked layout;
    - [jac_columns], [hess_subset]: the index-subset overload returns the selected columns / blocks of the full result;
    - [restore_exact]: the argument tuple is handed back unchanged (exact group model, or repaired code);
    - [analytic_passthrough], [k0_value_only]. *)
From Coq Require Import List Arith Bool Lia.
Import ListNotations.
From SV Require Import Model.C08_DiffLayout.

Set Implicit Arguments.

(** ** lists *)
Lemma upd_length : forall (A : Type) (l : list A) i v, length (upd i v l) = length l.
Proof. induction l as [|a l IH]; intros [|i] v; simpl; auto. Qed.

Lemma nth_upd_eq : forall (A : Type) (l : list A) i v d, i < length l -> nth i (upd i v l) d = v.
Proof. induction l as [|a l IH]; intros [|i] v d Hi; simpl in *; try lia; auto. apply IH; lia. Qed.

Lemma nth_upd_neq : forall (A : Type) (l : list A) i j v d, i <> j -> nth j (upd i v l) d = nth j l d.
Proof. induction l as [|a l IH]; intros [|i] [|j] v d Hij; simpl; auto; try lia. Qed.

Lemma upd_nth_same : forall (A : Type) (l : list A) i d, upd i (nth i l d) l = l.
Proof. induction l as [|a l IH]; intros [|i] d; simpl; auto. now rewrite IH. Qed.

Lemma upd_upd : forall (A : Type) (l : list A) i v w, upd i v (upd i w l) = upd i v l.
Proof. induction l as [|a l IH]; intros [|i] v w; simpl; auto. now rewrite IH. Qed.

Lemma upd_comm : forall (A : Type) (l : list A) i j v w, i <> j -> upd i v (upd j w l) = upd j w (upd i v l).
Proof. induction l as [|a l IH]; intros [|i] [|j] v w Hij; simpl; auto; try lia. rewrite IH; auto. Qed.

Lemma upd_oob : forall (A : Type) (l : list A) i v, length l <= i -> upd i v l = l.
Proof. induction l as [|a l IH]; intros [|i] v Hi; simpl in *; auto; try lia. rewrite IH; auto; lia. Qed.

Lemma upd_restore2 : forall (A : Type) (l : list A) i0 i1 a b d,
  upd i1 (nth i1 l d) (upd i0 (nth i0 l d) (upd i0 a (upd i1 b l))) = l.
Proof.
  intros A l i0 i1 a b d. rewrite upd_upd. destruct (Nat.eq_dec i0 i1) as [->|Hne].
  - rewrite !upd_upd. apply upd_nth_same.
  - rewrite (@upd_comm _ l i0 i1 (nth i0 l d) b Hne), upd_nth_same, upd_upd. apply upd_nth_same.
Qed.

Lemma Some_inj : forall (A : Type) (a b : A), Some a = Some b -> a = b.
Proof. intros A a b H. now injection H. Qed.

Lemma fold_left_snoc : forall (A B : Type) (f : A -> B -> A) l b a,
  fold_left f (l ++ [b]) a = f (fold_left f l a) b.
Proof. intros. now rewrite fold_left_app. Qed.

Lemma seq_snoc : forall s n, seq s (S n) = seq s n ++ [s + n].
Proof. intros. rewrite seq_S. reflexivity. Qed.

(** ** write logs applied to grids *)
Section Grids.
  Variable S : Type.

  Lemma apply_J_length : forall (log : JLog S) J0, length (apply_J log J0) = length J0.
  Proof.
    induction log as [|w log IH] using rev_ind; intros J0; [reflexivity|].
    unfold apply_J in *. rewrite fold_left_snoc, upd_length. apply IH.
  Qed.

  (** a column that some write addresses, all writes to it carrying the same value, holds that value *)
  Lemma apply_J_get : forall (log : JLog S) J0 c v,
    c < length J0 ->
    (exists e, In e log /\ fst e = c) ->
    (forall e, In e log -> fst e = c -> snd e = v) ->
    getJ (apply_J log J0) c = Some v.
  Proof.
    induction log as [|w log IH] using rev_ind; intros J0 c v Hc [e [He Hk]] Hall.
    - destruct He.
    - unfold apply_J. rewrite fold_left_snoc. fold (apply_J log J0). unfold getJ.
      destruct (Nat.eq_dec (fst w) c) as [Hw|Hw].
      + rewrite Hw, nth_upd_eq by (now rewrite apply_J_length).
        f_equal. apply Hall; [apply in_or_app; right; now left | assumption].
      + rewrite nth_upd_neq by assumption. apply IH; auto.
        * apply in_app_or in He. destruct He as [He|[He|[]]]; [now exists e|]. subst e. contradiction.
        * intros e' He' Hk'. apply Hall; auto. apply in_or_app; now left.
  Qed.

  Lemma apply_J_untouched : forall (log : JLog S) J0 c,
    (forall e, In e log -> fst e <> c) -> getJ (apply_J log J0) c = getJ J0 c.
  Proof.
    induction log as [|w log IH] using rev_ind; intros J0 c Hno; [reflexivity|].
    unfold apply_J. rewrite fold_left_snoc. fold (apply_J log J0). unfold getJ.
    rewrite nth_upd_neq. apply IH. intros e He. apply Hno, in_or_app; now left.
    apply Hno, in_or_app; right; now left.
  Qed.

  Lemma setH_length : forall r c (v : S) H, length (setH r c v H) = length H.
  Proof. intros. unfold setH. apply upd_length. Qed.

  Lemma setH_row_length : forall r c (v : S) H r', length (nth r' (setH r c v H) []) = length (nth r' H []).
  Proof.
    intros. unfold setH. destruct (Nat.eq_dec r r') as [->|Hr].
    - destruct (Nat.lt_ge_cases r' (length H)).
      + rewrite nth_upd_eq by assumption. apply upd_length.
      + now rewrite upd_oob.
    - now rewrite nth_upd_neq.
  Qed.

  Lemma apply_H_length : forall (log : HLog S) H0, length (apply_H log H0) = length H0.
  Proof.
    induction log as [|w log IH] using rev_ind; intros H0; [reflexivity|].
    unfold apply_H in *. rewrite fold_left_snoc, setH_length. apply IH.
  Qed.

  Lemma apply_H_row_length : forall (log : HLog S) H0 r, length (nth r (apply_H log H0) []) = length (nth r H0 []).
  Proof.
    induction log as [|w log IH] using rev_ind; intros H0 r; [reflexivity|].
    unfold apply_H in *. rewrite fold_left_snoc, setH_row_length. apply IH.
  Qed.

  Lemma getH_setH_eq : forall r c (v : S) H, r < length H -> c < length (nth r H []) -> getH (setH r c v H) r c = Some v.
  Proof. intros. unfold getH, setH. rewrite nth_upd_eq by assumption. now apply nth_upd_eq. Qed.

  Lemma getH_setH_neq : forall r c (v : S) H r' c', (r, c) <> (r', c') -> getH (setH r c v H) r' c' = getH H r' c'.
  Proof.
    intros r c v H r' c' Hne. unfold getH, setH.
    destruct (Nat.eq_dec r r') as [->|Hr].
    - destruct (Nat.lt_ge_cases r' (length H)).
      + rewrite nth_upd_eq by assumption. apply nth_upd_neq. intros ->. now apply Hne.
      + now rewrite upd_oob.
    - now rewrite nth_upd_neq.
  Qed.

  Lemma apply_H_get : forall (log : HLog S) H0 r c v,
    r < length H0 -> c < length (nth r H0 []) ->
    (exists e, In e log /\ fst e = (r, c)) ->
    (forall e, In e log -> fst e = (r, c) -> snd e = v) ->
    getH (apply_H log H0) r c = Some v.
  Proof.
    induction log as [|w log IH] using rev_ind; intros H0 r c v Hr Hc [e [He Hk]] Hall.
    - destruct He.
    - unfold apply_H. rewrite fold_left_snoc. fold (apply_H log H0).
      destruct w as [[wr wc] wv]. cbn [fst snd].
      destruct (Nat.eq_dec wr r) as [Hwr|Hwr]; [destruct (Nat.eq_dec wc c) as [Hwc|Hwc]|].
      + subst. rewrite getH_setH_eq; [| now rewrite apply_H_length | now rewrite apply_H_row_length].
        f_equal. apply (Hall (r, c, wv)); [apply in_or_app; right; now left | reflexivity].
      + rewrite getH_setH_neq by congruence. apply IH; auto.
        * apply in_app_or in He. destruct He as [He|[He|[]]]; [now exists e|]. subst e. cbn in Hk. congruence.
        * intros e' He' Hk'. apply Hall; auto. apply in_or_app; now left.
      + rewrite getH_setH_neq by congruence. apply IH; auto.
        * apply in_app_or in He. destruct He as [He|[He|[]]]; [now exists e|]. subst e. cbn in Hk. congruence.
        * intros e' He' Hk'. apply Hall; auto. apply in_or_app; now left.
  Qed.

  Lemma repeat_nth : forall (A : Type) (a d : A) n i, i < n -> nth i (repeat a n) d = a.
  Proof. induction n as [|n IH]; intros [|i] Hi; simpl; try lia; auto. apply IH; lia. Qed.
End Grids.

Section Layout.
  Variables Sc X Y : Type.
  Variable o : Ops Sc X Y.

  (** ** flat offsets of the arguments' tangent blocks *)
  Lemma offset_0 : forall x, offset o x 0 = 0.
  Proof. reflexivity. Qed.

  Lemma offset_cons : forall a x i, offset o (a :: x) (S i) = dofX o a + offset o x i.
  Proof. reflexivity. Qed.

  Lemma offset_S : forall x i, i < length x -> offset o x (S i) = offset o x i + dofX o (getx o i x).
  Proof.
    induction x as [|a x IH]; intros i Hi; simpl in Hi; [lia|].
    destruct i as [|i].
    - rewrite offset_cons, !offset_0. unfold getx. simpl. lia.
    - rewrite !offset_cons, IH by lia. unfold getx. simpl. lia.
  Qed.

  Lemma offset_full : forall x, offset o x (length x) = sum_dof o x.
  Proof. intros. unfold offset. now rewrite firstn_all. Qed.

  Lemma offset_mono : forall x i i', i <= i' -> i' <= length x -> offset o x i <= offset o x i'.
  Proof.
    intros x i i' Hle. induction Hle as [|i' Hle IH]; intros Hlen; [lia|].
    rewrite offset_S by lia. specialize (IH ltac:(lia)). lia.
  Qed.

  Lemma offset_lt : forall x i j, i < length x -> j < dofX o (getx o i x) -> offset o x i + j < sum_dof o x.
  Proof.
    intros x i j Hi Hj. rewrite <- offset_full.
    pose proof (offset_mono x (i := S i) (i' := length x) ltac:(lia) ltac:(lia)) as Hm.
    rewrite offset_S in Hm by assumption. lia.
  Qed.

  Lemma offset_inj : forall x i j i' j',
    i < length x -> i' < length x -> j < dofX o (getx o i x) -> j' < dofX o (getx o i' x) ->
    offset o x i + j = offset o x i' + j' -> i = i' /\ j = j'.
  Proof.
    intros x i j i' j' Hi Hi' Hj Hj' Heq.
    destruct (Nat.lt_trichotomy i i') as [Hlt|[->|Hlt]].
    - pose proof (offset_mono x (i := S i) (i' := i') ltac:(lia) ltac:(lia)) as Hm.
      rewrite offset_S in Hm by assumption. lia.
    - split; [reflexivity | lia].
    - pose proof (offset_mono x (i := S i') (i' := i) ltac:(lia) ltac:(lia)) as Hm.
      rewrite offset_S in Hm by assumption. lia.
  Qed.

  Lemma offset_surj : forall x c, c < sum_dof o x ->
    exists i j, i < length x /\ j < dofX o (getx o i x) /\ c = offset o x i + j.
  Proof.
    induction x as [|a x IH]; intros c Hc; unfold sum_dof in Hc; simpl in Hc; [lia|].
    destruct (Nat.lt_ge_cases c (dofX o a)) as [Hlt|Hge].
    - exists 0, c. unfold getx, offset. simpl. repeat split; lia.
    - destruct (IH (c - dofX o a)) as [i [j [Hi [Hj Heq]]]]; [unfold sum_dof; lia|].
      exists (S i), j. rewrite offset_cons. unfold getx in *. simpl. repeat split; lia.
  Qed.

  (** ** the argument tuple is handed back unchanged *)
  Definition exact_group : Prop :=
    forall w n j h, rplus o (rplus o w (unitv o n j h)) (unitv o n j (sneg o h)) = w.
  Definition restore_ok : Prop := fix_restore o = true \/ exact_group.

  (** [o] is an instance of the code as it is in /repo now: its version flags are the ones the model file records
      ([c08_fix_restore], [c08_fix_k2jac]; the correspondence run checks them against the real code every time).
      For such an instance [restore_ok] needs no assumption on the group operations: the arguments are assigned
      back from saved copies. *)
  Definition current_code : Prop := fix_restore o = c08_fix_restore /\ fix_k2jac o = c08_fix_k2jac.

  Lemma current_code_restore_ok : current_code -> restore_ok.
  Proof. intros [Hr _]. left. exact Hr. Qed.

  Lemma current_code_k2jac : current_code -> fix_k2jac o = true.
  Proof. intros [_ Hj]. exact Hj. Qed.

  Lemma restore_bump : restore_ok -> forall xs i n j h,
    restore o i (getx o i xs) n j h (bump o i n j h xs) = xs.
  Proof.
    intros Hok xs i n j h. unfold restore, bump.
    destruct (fix_restore o) eqn:Hfix.
    - unfold getx. now rewrite upd_upd, upd_nth_same.
    - destruct Hok as [Hok|Hok]; [congruence|].
      destruct (Nat.lt_ge_cases i (length xs)) as [Hi|Hi].
      + unfold getx at 1. rewrite nth_upd_eq by assumption. rewrite Hok, upd_upd.
        unfold getx. apply upd_nth_same.
      + rewrite (upd_oob _ _ Hi). now rewrite upd_oob.
  Qed.

  Lemma restore_bump2 : restore_ok -> forall xs i0 n0 k0 h0 i1 n1 k1 h1,
    restore o i1 (getx o i1 xs) n1 k1 h1
      (restore o i0 (getx o i0 xs) n0 k0 h0 (bump o i0 n0 k0 h0 (bump o i1 n1 k1 h1 xs))) = xs.
  Proof.
    intros Hok xs i0 n0 k0 h0 i1 n1 k1 h1.
    destruct (fix_restore o) eqn:Hfix.
    - unfold restore. rewrite Hfix. unfold bump, getx. apply upd_restore2.
    - assert (Hr : forall w ys i n j h, restore o i w n j h (bump o i n j h ys) = ys).
      { intros w ys i n j h. pose proof (restore_bump Hok ys i n j h) as H.
        unfold restore in *. now rewrite Hfix in *. }
      rewrite Hr. apply Hr.
  Qed.

  (** ** K = 1: closed form of the write log *)
  Variable f : list X -> Y.

  Definition k1_cols (e : Sc) (x : list X) (I0 i m : nat) : JLog Sc :=
    map (fun j => (I0 + j, quot1 o e f x i j)) (seq 0 m).
  Definition k1_log (x : list X) (n : nat) : JLog Sc :=
    flat_map (fun i => k1_cols (eps o) x (offset o x i) i (dofX o (getx o i x))) (seq 0 n).

  Lemma k1_col_loop : restore_ok -> forall x i I0 m log,
    fold_left (k1_col o f (f x) i (dofX o (getx o i x)) I0) (seq 0 m) (x, log)
    = (x, log ++ k1_cols (eps o) x I0 i m).
  Proof.
    intros Hok x i I0 m. induction m as [|m IH]; intros log.
    - simpl. now rewrite app_nil_r.
    - rewrite seq_snoc, fold_left_snoc, IH. unfold k1_col. cbn [fst snd].
      rewrite restore_bump by assumption. f_equal.
      unfold k1_cols. rewrite (seq_snoc 0 m), map_app, app_assoc. reflexivity.
  Qed.

  Lemma k1_arg_loop : restore_ok -> forall x n log0, n <= length x ->
    fold_left (k1_arg o f (f x)) (seq 0 n) (x, 0, log0) = (x, offset o x n, log0 ++ k1_log x n).
  Proof.
    intros Hok x n log0. induction n as [|n IH]; intros Hn.
    - simpl. now rewrite app_nil_r.
    - rewrite seq_snoc, fold_left_snoc, IH by lia. unfold k1_arg. cbn [fst snd].
      rewrite k1_col_loop by assumption. cbn [fst snd].
      rewrite offset_S by lia. f_equal.
      unfold k1_log. rewrite seq_snoc, flat_map_app. simpl. now rewrite app_nil_r, app_assoc.
  Qed.

  (** ** K = 2: closed form of the write logs *)
  Definition k2_hcells (x : list X) (nx ny i0 k0 i1 k1 : nat) : HLog Sc :=
    map (fun j => (offset o x i0 + k0, j * nx + offset o x i1 + k1, nth j (quot2 o f x i0 k0 i1 k1) (szero o)))
        (seq 0 ny).
  Definition k2_jcols (x : list X) (i0 n : nat) : JLog Sc :=
    if fix_k2jac o then [] else k1_cols (sqrteps o) x (offset o x i0) i0 n.
  Definition k2_hlog_k1 x nx ny i0 k0 i1 m := flat_map (fun k1 => k2_hcells x nx ny i0 k0 i1 k1) (seq 0 m).
  Definition k2_hlog_k0 x nx ny i0 i1 m :=
    flat_map (fun k0 => k2_hlog_k1 x nx ny i0 k0 i1 (dofX o (getx o i1 x))) (seq 0 m).
  Definition k2_hlog_i1 x nx ny i0 m :=
    flat_map (fun i1 => k2_hlog_k0 x nx ny i0 i1 (dofX o (getx o i0 x))) (seq 0 m).
  Definition k2_hlog x nx ny m := flat_map (fun i0 => k2_hlog_i1 x nx ny i0 (length x)) (seq 0 m).
  Definition k2_jlog_i1 x i0 m := flat_map (fun _ : nat => k2_jcols x i0 (dofX o (getx o i0 x))) (seq 0 m).
  Definition k2_jlog x m := flat_map (fun i0 => k2_jlog_i1 x i0 (length x)) (seq 0 m).

  Lemma k2_k1_loop : restore_ok -> forall x nx ny i0 k0 i1 m hlog,
    let h0 := step o (sqrteps o) (getx o i0 x) k0 in
    fold_left (k2_k1 o f i0 i1 (dofX o (getx o i0 x)) (dofX o (getx o i1 x)) (offset o x i0) (offset o x i1) nx ny k0
                     h0 (getx o i0 x) (rminus o (f (pert o x i0 k0 h0)) (f x))) (seq 0 m) (x, hlog)
    = (x, hlog ++ k2_hlog_k1 x nx ny i0 k0 i1 m).
  Proof.
    intros Hok x nx ny i0 k0 i1 m. induction m as [|m IH]; intros hlog h0.
    - simpl. now rewrite app_nil_r.
    - rewrite seq_snoc, fold_left_snoc. fold h0. rewrite IH. unfold k2_k1. cbn [fst snd].
      rewrite restore_bump2 by assumption. f_equal.
      unfold k2_hlog_k1. rewrite seq_snoc, flat_map_app. simpl. rewrite app_nil_r, app_assoc. reflexivity.
  Qed.

  Lemma k2_k0_loop : restore_ok -> forall x nx ny i0 i1 m jlog hlog,
    fold_left (k2_k0 o f (f x) i0 i1 (dofX o (getx o i0 x)) (dofX o (getx o i1 x)) (offset o x i0) (offset o x i1) nx ny)
              (seq 0 m) (x, jlog, hlog)
    = (x, jlog ++ k2_jcols x i0 m, hlog ++ k2_hlog_k0 x nx ny i0 i1 m).
  Proof.
    intros Hok x nx ny i0 i1 m. induction m as [|m IH]; intros jlog hlog.
    - unfold k2_jcols, k1_cols. simpl. destruct (fix_k2jac o); now rewrite !app_nil_r.
    - rewrite seq_snoc, fold_left_snoc, IH. unfold k2_k0. cbn [fst snd].
      rewrite restore_bump by assumption.
      pose proof (k2_k1_loop Hok x nx ny i0 m i1 (dofX o (getx o i1 x))) as Hk1. cbn zeta in Hk1.
      unfold pert in Hk1. rewrite Hk1. cbn [fst snd]. f_equal; [f_equal|].
      + unfold k2_jcols, k1_cols. destruct (fix_k2jac o); [reflexivity|].
        rewrite seq_snoc, map_app, app_assoc. reflexivity.
      + unfold k2_hlog_k0. rewrite seq_snoc, flat_map_app. simpl. now rewrite app_nil_r, app_assoc.
  Qed.

  Lemma k2_i1_loop : restore_ok -> forall x nx ny i0 m jlog hlog, m <= length x ->
    fold_left (k2_i1 o f (f x) i0 (dofX o (getx o i0 x)) (offset o x i0) nx ny) (seq 0 m) (x, 0, jlog, hlog)
    = (x, offset o x m, jlog ++ k2_jlog_i1 x i0 m, hlog ++ k2_hlog_i1 x nx ny i0 m).
  Proof.
    intros Hok x nx ny i0 m. induction m as [|m IH]; intros jlog hlog Hm.
    - simpl. now rewrite !app_nil_r.
    - rewrite seq_snoc, fold_left_snoc, IH by lia. unfold k2_i1. cbn [fst snd].
      rewrite k2_k0_loop by assumption. cbn [fst snd]. rewrite offset_S by lia.
      f_equal; [f_equal|].
      + unfold k2_jlog_i1. rewrite seq_snoc, flat_map_app. simpl. now rewrite app_nil_r, app_assoc.
      + unfold k2_hlog_i1. rewrite seq_snoc, flat_map_app. simpl. now rewrite app_nil_r, app_assoc.
  Qed.

  Lemma k2_i0_loop : restore_ok -> forall x nx ny m jlog hlog, m <= length x ->
    fold_left (k2_i0 o f (f x) (length x) nx ny) (seq 0 m) (x, 0, jlog, hlog)
    = (x, offset o x m, jlog ++ k2_jlog x m, hlog ++ k2_hlog x nx ny m).
  Proof.
    intros Hok x nx ny m. induction m as [|m IH]; intros jlog hlog Hm.
    - simpl. now rewrite !app_nil_r.
    - rewrite seq_snoc, fold_left_snoc, IH by lia. unfold k2_i0. cbn [fst snd].
      rewrite k2_i1_loop by (assumption || lia). cbn [fst snd]. rewrite offset_S by lia.
      f_equal; [f_equal|].
      + unfold k2_jlog. rewrite seq_snoc, flat_map_app. simpl. now rewrite app_nil_r, app_assoc.
      + unfold k2_hlog. rewrite seq_snoc, flat_map_app. simpl. now rewrite app_nil_r, app_assoc.
  Qed.
End Layout.

Section Theorems.
  Variables Sc X Y JT HT : Type.
  Variable o : Ops Sc X Y.

  Lemma in_k1_cols : forall (f : list X -> Y) e0 x I0 i m e,
    In e (k1_cols o f e0 x I0 i m) <-> exists j, j < m /\ e = (I0 + j, quot1 o e0 f x i j).
  Proof.
    intros. unfold k1_cols. rewrite in_map_iff. split.
    - intros [j [He Hj]]. apply in_seq in Hj. exists j. split; [lia | now symmetry].
    - intros [j [Hj He]]. exists j. split; [now symmetry | apply in_seq; lia].
  Qed.

  Lemma in_k1_log : forall (f : list X -> Y) x n e,
    In e (k1_log o f x n) <->
    exists i j, i < n /\ j < dofX o (getx o i x) /\ e = (offset o x i + j, quot1 o (eps o) f x i j).
  Proof.
    intros. unfold k1_log. rewrite in_flat_map. split.
    - intros [i [Hi He]]. apply in_seq in Hi. apply in_k1_cols in He. destruct He as [j [Hj He]].
      exists i, j. repeat split; auto; lia.
    - intros [i [j [Hi [Hj He]]]]. exists i. split; [apply in_seq; lia|]. apply in_k1_cols. now exists j.
  Qed.

  Lemma in_k2_jlog : forall (f : list X -> Y) x n e,
    In e (k2_jlog o f x n) <->
    fix_k2jac o = false /\
    exists i0 i1 k0, i0 < n /\ i1 < length x /\ k0 < dofX o (getx o i0 x) /\
                     e = (offset o x i0 + k0, quot1 o (sqrteps o) f x i0 k0).
  Proof.
    intros. unfold k2_jlog. rewrite in_flat_map. split.
    - intros [i0 [Hi0 He]]. apply in_seq in Hi0. unfold k2_jlog_i1 in He. apply in_flat_map in He.
      destruct He as [i1 [Hi1 He]]. apply in_seq in Hi1. unfold k2_jcols in He.
      destruct (fix_k2jac o); [destruct He|]. split; [reflexivity|].
      apply in_k1_cols in He. destruct He as [k0 [Hk0 He]]. exists i0, i1, k0. repeat split; auto; lia.
    - intros [Hfix [i0 [i1 [k0 [Hi0 [Hi1 [Hk0 He]]]]]]]. exists i0. split; [apply in_seq; lia|].
      unfold k2_jlog_i1. apply in_flat_map. exists i1. split; [apply in_seq; lia|].
      unfold k2_jcols. rewrite Hfix. apply in_k1_cols. now exists k0.
  Qed.

  Lemma in_k2_hlog : forall (f : list X -> Y) x nx ny n e,
    In e (k2_hlog o f x nx ny n) <->
    exists i0 i1 k0 k1 j, i0 < n /\ i1 < length x /\ k0 < dofX o (getx o i0 x) /\ k1 < dofX o (getx o i1 x) /\ j < ny /\
      e = (offset o x i0 + k0, j * nx + offset o x i1 + k1, nth j (quot2 o f x i0 k0 i1 k1) (szero o)).
  Proof.
    intros. unfold k2_hlog. rewrite in_flat_map. split.
    - intros [i0 [Hi0 He]]. apply in_seq in Hi0.
      unfold k2_hlog_i1 in He. apply in_flat_map in He. destruct He as [i1 [Hi1 He]]. apply in_seq in Hi1.
      unfold k2_hlog_k0 in He. apply in_flat_map in He. destruct He as [k0 [Hk0 He]]. apply in_seq in Hk0.
      unfold k2_hlog_k1 in He. apply in_flat_map in He. destruct He as [k1 [Hk1 He]]. apply in_seq in Hk1.
      unfold k2_hcells in He. apply in_map_iff in He. destruct He as [j [He Hj]]. apply in_seq in Hj.
      exists i0, i1, k0, k1, j. repeat split; auto; lia.
    - intros [i0 [i1 [k0 [k1 [j [Hi0 [Hi1 [Hk0 [Hk1 [Hj He]]]]]]]]]].
      exists i0. split; [apply in_seq; lia|].
      unfold k2_hlog_i1. apply in_flat_map. exists i1. split; [apply in_seq; lia|].
      unfold k2_hlog_k0. apply in_flat_map. exists k0. split; [apply in_seq; lia|].
      unfold k2_hlog_k1. apply in_flat_map. exists k1. split; [apply in_seq; lia|].
      unfold k2_hcells. apply in_map_iff. exists j. split; [now symmetry | apply in_seq; lia].
  Qed.

  (** ** K = 1: every column of J *)
  Theorem k1_characterisation : forall (f : list X -> Y) (x : list X),
    restore_ok o ->
    let out := dr_numerical JT HT o 1 f x in
    o_val out = f x /\ o_args out = x /\ o_H out = None /\
    exists J, o_J out = Some (JNum JT J) /\ length J = sum_dof o x /\
      (forall i j, i < length x -> j < dofX o (getx o i x) ->
                   getJ J (offset o x i + j) = Some (quot1 o (eps o) f x i j)) /\
      (forall c, c < sum_dof o x -> exists i j, i < length x /\ j < dofX o (getx o i x) /\ c = offset o x i + j).
  Proof.
    intros f x Hok out. subst out. unfold dr_numerical. cbv beta iota zeta.
    pose proof (k1_arg_loop f Hok x (n := length x) [] (le_n _)) as Hl. unfold JLog, HLog in *. rewrite Hl. clear Hl.
    cbn [fst snd o_val o_args o_H o_J app].
    repeat split. eexists. split; [reflexivity|]. split; [|split].
    - now rewrite apply_J_length, repeat_length.
    - intros i j Hi Hj. apply apply_J_get.
      + rewrite repeat_length. now apply offset_lt.
      + eexists. split; [apply in_k1_log; exists i, j; repeat split; eauto|]. reflexivity.
      + intros e He Hk. apply in_k1_log in He. destruct He as [i' [j' [Hi' [Hj' ->]]]]. cbn [fst snd] in *.
        destruct (@offset_inj _ _ _ o x i' j' i j Hi' Hi Hj' Hj Hk) as [-> ->]. reflexivity.
    - apply offset_surj.
  Qed.

  (** ** K = 2: every column of J and every cell of H *)
  Theorem k2_characterisation : forall (f : list X -> Y) (x : list X),
    restore_ok o ->
    let out := dr_numerical JT HT o 2 f x in
    let nx := sum_dof o x in
    let ny := dofY o (f x) in
    o_val out = f x /\ o_args out = x /\
    exists J H, o_J out = Some (JNum JT J) /\ o_H out = Some (HNum HT H) /\
      length J = nx /\ length H = nx /\ (forall r, r < nx -> length (nth r H []) = nx * ny) /\
      (forall i j, i < length x -> j < dofX o (getx o i x) ->
         getJ J (offset o x i + j) = Some (quot1 o (if fix_k2jac o then eps o else sqrteps o) f x i j)) /\
      (forall i0 k0 i1 k1 j, i0 < length x -> i1 < length x ->
         k0 < dofX o (getx o i0 x) -> k1 < dofX o (getx o i1 x) -> j < ny ->
         getH H (offset o x i0 + k0) (j * nx + offset o x i1 + k1)
         = Some (nth j (quot2 o f x i0 k0 i1 k1) (szero o))).
  Proof.
    intros f x Hok out nx ny. subst out. unfold dr_numerical. cbv beta iota zeta.
    set (r1 := if fix_k2jac o then _ else _).
    assert (Hr1 : r1 = (x, (if fix_k2jac o then offset o x (length x) else 0),
                        if fix_k2jac o then k1_log o f x (length x) else [])).
    { subst r1. destruct (fix_k2jac o); [|reflexivity].
      pose proof (k1_arg_loop f Hok x (n := length x) [] (le_n _)) as Hl. unfold JLog, HLog in *. now rewrite Hl. }
    rewrite Hr1. cbn [fst snd].
    pose proof (k2_i0_loop f Hok x (sum_dof o x) (dofY o (f x)) (m := length x)
                           (if fix_k2jac o then k1_log o f x (length x) else []) [] (le_n _)) as Hl.
    unfold JLog, HLog in *. rewrite Hl. clear Hl.
    cbn [fst snd o_val o_args o_H o_J app]. fold nx ny.
    split; [reflexivity|]. split; [reflexivity|]. do 2 eexists.
    split; [reflexivity|]. split; [reflexivity|].
    split; [now rewrite apply_J_length, repeat_length|].
    split; [now rewrite apply_H_length, repeat_length|].
    split; [intros r Hr; now rewrite apply_H_row_length, repeat_nth, repeat_length by assumption|].
    split.
    - intros i j Hi Hj. apply apply_J_get.
      + rewrite repeat_length. now apply offset_lt.
      + destruct (fix_k2jac o) eqn:Hfix.
        * eexists. split; [apply in_or_app; left; apply in_k1_log; exists i, j; repeat split; eauto|]. reflexivity.
        * eexists. split; [apply in_k2_jlog; split; [assumption|]; exists i, 0, j; repeat split; eauto; lia|]. reflexivity.
      + intros e He Hk. apply in_app_or in He. destruct He as [He|He].
        * destruct (fix_k2jac o) eqn:Hfix; [|destruct He].
          apply in_k1_log in He. destruct He as [i' [j' [Hi' [Hj' ->]]]]. cbn [fst snd] in *.
          destruct (@offset_inj _ _ _ o x i' j' i j Hi' Hi Hj' Hj Hk) as [-> ->]. reflexivity.
        * apply in_k2_jlog in He. destruct He as [Hfix [i' [i1 [j' [Hi' [_ [Hj' ->]]]]]]]. cbn [fst snd] in *.
          rewrite Hfix.
          destruct (@offset_inj _ _ _ o x i' j' i j Hi' Hi Hj' Hj Hk) as [-> ->]. reflexivity.
    - intros i0 k0 i1 k1 j Hi0 Hi1 Hk0 Hk1 Hj.
      pose proof (@offset_lt _ _ _ o x i0 k0 Hi0 Hk0) as Hr. pose proof (@offset_lt _ _ _ o x i1 k1 Hi1 Hk1) as Hc. fold nx in Hr, Hc.
      apply apply_H_get.
      + now rewrite repeat_length.
      + rewrite repeat_nth, repeat_length by assumption. nia.
      + eexists. split; [apply in_k2_hlog; exists i0, i1, k0, k1, j; repeat split; eauto|]. reflexivity.
      + intros e He Hk. apply in_k2_hlog in He.
        destruct He as [i0' [i1' [k0' [k1' [j' [Hi0' [Hi1' [Hk0' [Hk1' [Hj' ->]]]]]]]]]]. cbn [fst snd] in *.
        injection Hk as Hrow Hcol.
        pose proof (@offset_lt _ _ _ o x i1' k1' Hi1' Hk1') as Hc'. fold nx in Hc'.
        destruct (@offset_inj _ _ _ o x i0' k0' i0 k0 Hi0' Hi0 Hk0' Hk0 Hrow) as [-> ->].
        assert (j' = j) by nia. subst j'.
        destruct (@offset_inj _ _ _ o x i1' k1' i1 k1 Hi1' Hi1 Hk1' Hk1 ltac:(lia)) as [-> ->]. reflexivity.
  Qed.

  (** ** the documented stacked layout: the cell addressed for (i0,k0,i1,k1,j) is entry (r, c) of block j with
      r, c the flat tangent indices, and this addressing is a bijection onto the nx x (nx * ny) grid *)
  Theorem hess_layout : forall (x : list X) (ny : nat),
    let nx := sum_dof o x in
    let row i0 k0 := offset o x i0 + k0 in
    let col j i1 k1 := j * nx + offset o x i1 + k1 in
    (* into the grid, block j *)
    (forall i0 k0 i1 k1 j, i0 < length x -> i1 < length x -> k0 < dofX o (getx o i0 x) -> k1 < dofX o (getx o i1 x) ->
       j < ny -> row i0 k0 < nx /\ col j i1 k1 < nx * ny /\
                 col j i1 k1 / nx = j /\ col j i1 k1 mod nx = offset o x i1 + k1) /\
    (* injective *)
    (forall i0 k0 i1 k1 j i0' k0' i1' k1' j',
       i0 < length x -> i1 < length x -> k0 < dofX o (getx o i0 x) -> k1 < dofX o (getx o i1 x) ->
       i0' < length x -> i1' < length x -> k0' < dofX o (getx o i0' x) -> k1' < dofX o (getx o i1' x) ->
       row i0 k0 = row i0' k0' -> col j i1 k1 = col j' i1' k1' ->
       i0 = i0' /\ k0 = k0' /\ i1 = i1' /\ k1 = k1' /\ j = j') /\
    (* onto *)
    (forall r c, r < nx -> c < nx * ny ->
       exists i0 k0 i1 k1 j, i0 < length x /\ i1 < length x /\ k0 < dofX o (getx o i0 x) /\
         k1 < dofX o (getx o i1 x) /\ j < ny /\ r = row i0 k0 /\ c = col j i1 k1).
  Proof.
    intros x ny nx row col. subst row col. cbn beta. split; [|split].
    - intros i0 k0 i1 k1 j Hi0 Hi1 Hk0 Hk1 Hj.
      pose proof (@offset_lt _ _ _ o x i0 k0 Hi0 Hk0) as Hr. pose proof (@offset_lt _ _ _ o x i1 k1 Hi1 Hk1) as Hc. fold nx in Hr, Hc.
      split; [assumption|]. split; [nia|].
      rewrite <- Nat.add_assoc, Nat.add_comm.
      split; [rewrite Nat.div_add by lia; rewrite Nat.div_small by assumption; reflexivity|].
      rewrite Nat.mod_add by lia. now apply Nat.mod_small.
    - intros i0 k0 i1 k1 j i0' k0' i1' k1' j' Hi0 Hi1 Hk0 Hk1 Hi0' Hi1' Hk0' Hk1' Hrow Hcol.
      pose proof (@offset_lt _ _ _ o x i1 k1 Hi1 Hk1) as Hc. pose proof (@offset_lt _ _ _ o x i1' k1' Hi1' Hk1') as Hc'. fold nx in Hc, Hc'.
      destruct (@offset_inj _ _ _ o x i0 k0 i0' k0' Hi0 Hi0' Hk0 Hk0' Hrow) as [-> ->].
      assert (j = j') by nia. subst j'.
      destruct (@offset_inj _ _ _ o x i1 k1 i1' k1' Hi1 Hi1' Hk1 Hk1' ltac:(lia)) as [-> ->]. auto.
    - intros r c Hr Hc.
      destruct (@offset_surj _ _ _ o x r Hr) as [i0 [k0 [Hi0 [Hk0 ->]]]].
      assert (Hnx : nx <> 0) by lia.
      pose proof (Nat.div_mod c nx Hnx) as Hdm. pose proof (Nat.mod_upper_bound c nx Hnx) as Hm.
      destruct (@offset_surj _ _ _ o x (c mod nx) Hm) as [i1 [k1 [Hi1 [Hk1 Heq]]]].
      exists i0, k0, i1, k1, (c / nx). repeat split; auto.
      + apply Nat.div_lt_upper_bound; [assumption | lia].
      + lia.
  Qed.
End Theorems.

(** ** index-subset overload *)
Section Subset.
  Variables Sc X Y JT HT : Type.
  Variable o : Ops Sc X Y.

  Lemma scatter_cons : forall i idx r red (full : list X),
    scatter (i :: idx) (r :: red) full = scatter idx red (upd i r full).
  Proof. reflexivity. Qed.

  Lemma scatter_self : forall idx (full : list X), scatter idx (map (fun i => getx o i full) idx) full = full.
  Proof.
    induction idx as [|i idx IH]; intros full; [reflexivity|].
    simpl map. rewrite scatter_cons.
    replace (upd i (getx o i full) full) with full by (unfold getx; now rewrite upd_nth_same). apply IH.
  Qed.

  Lemma scatter_upd_notin : forall idx red (full : list X) i v,
    ~ In i idx -> scatter idx red (upd i v full) = upd i v (scatter idx red full).
  Proof.
    induction idx as [|i' idx IH]; intros red full i v Hni; [reflexivity|].
    destruct red as [|r red]; [reflexivity|].
    rewrite !scatter_cons. rewrite upd_comm by (intros ->; apply Hni; now left).
    apply IH. intros Hin. apply Hni. now right.
  Qed.

  Lemma scatter_upd : forall idx red (full : list X) k v,
    NoDup idx -> k < length idx -> length red = length idx ->
    scatter idx (upd k v red) full = upd (nth k idx 0) v (scatter idx red full).
  Proof.
    induction idx as [|i idx IH]; intros red full k v Hnd Hk Hlen; simpl in Hk; [lia|].
    destruct red as [|r red]; simpl in Hlen; [lia|]. inversion Hnd as [|? ? Hni Hnd']; subst.
    destruct k as [|k]; simpl upd; simpl nth; rewrite !scatter_cons.
    - rewrite !scatter_upd_notin by assumption. now rewrite upd_upd.
    - apply IH; auto; lia.
  Qed.

  Lemma getx_map : forall idx (x : list X) k, k < length idx ->
    getx o k (map (fun i => getx o i x) idx) = getx o (nth k idx 0) x.
  Proof.
    intros idx x k Hk. unfold getx at 1.
    rewrite (nth_indep _ (dflt o) (getx o 0 x)) by (now rewrite map_length).
    apply (map_nth (fun i => getx o i x)).
  Qed.

  Lemma getx_upd_eq : forall (l : list X) i v, i < length l -> getx o i (upd i v l) = v.
  Proof. intros. unfold getx. now apply nth_upd_eq. Qed.

  Lemma getx_upd_neq : forall (l : list X) i i' v, i <> i' -> getx o i' (upd i v l) = getx o i' l.
  Proof. intros. unfold getx. now apply nth_upd_neq. Qed.

  Section WithCallable.
    Variable f : list X -> Y.
    Variable x : list X.
    Variable idx : list nat.
    Hypothesis Hnd : NoDup idx.
    Hypothesis Hin : Forall (fun i => i < length x) idx.
    Local Notation xred := (map (fun i => getx o i x) idx).
    Local Notation fw := (fun red => f (scatter idx red x)).

    Lemma idx_nth_lt : forall k, k < length idx -> nth k idx 0 < length x.
    Proof. intros k Hk. rewrite Forall_forall in Hin. apply Hin. now apply nth_In. Qed.

    Lemma scatter_pert : forall k j h, k < length idx ->
      scatter idx (pert o xred k j h) x = pert o x (nth k idx 0) j h.
    Proof.
      intros k j h Hk. unfold pert, bump. rewrite scatter_upd by (auto; now rewrite map_length).
      rewrite scatter_self, getx_map by assumption. reflexivity.
    Qed.

    Lemma getx_pert_subset : forall k0 k1 c1 h, k0 < length idx -> k1 < length idx ->
      getx o k0 (pert o xred k1 c1 h) = getx o (nth k0 idx 0) (pert o x (nth k1 idx 0) c1 h).
    Proof.
      intros k0 k1 c1 h Hk0 Hk1. unfold pert, bump. rewrite (getx_map idx x Hk1).
      destruct (Nat.eq_dec k0 k1) as [->|Hne].
      - rewrite !getx_upd_eq; [reflexivity | now apply idx_nth_lt | now rewrite map_length].
      - rewrite !getx_upd_neq; [now apply getx_map | | now apply Nat.neq_sym].
        intros Heq. apply Hne. symmetry. now apply (proj1 (NoDup_nth idx 0) Hnd).
    Qed.

    Lemma scatter_bump_pert : forall k0 n c0 h k1 c1 h1, k0 < length idx -> k1 < length idx ->
      scatter idx (bump o k0 n c0 h (pert o xred k1 c1 h1)) x
      = bump o (nth k0 idx 0) n c0 h (pert o x (nth k1 idx 0) c1 h1).
    Proof.
      intros k0 n c0 h k1 c1 h1 Hk0 Hk1. unfold bump at 1.
      rewrite scatter_upd; [| assumption | assumption | unfold pert, bump; now rewrite upd_length, map_length].
      rewrite scatter_pert, getx_pert_subset by assumption. reflexivity.
    Qed.

    Lemma quot1_subset : forall e k j, k < length idx ->
      quot1 o e fw xred k j = quot1 o e f x (nth k idx 0) j.
    Proof.
      intros e k j Hk. unfold quot1. cbv beta.
      rewrite !getx_map, scatter_pert, scatter_self by assumption. reflexivity.
    Qed.

    Lemma quot2_subset : forall k0 c0 k1 c1, k0 < length idx -> k1 < length idx ->
      quot2 o fw xred k0 c0 k1 c1 = quot2 o f x (nth k0 idx 0) c0 (nth k1 idx 0) c1.
    Proof.
      intros k0 c0 k1 c1 Hk0 Hk1. unfold quot2. cbv beta zeta.
      rewrite !getx_map, !scatter_pert, scatter_bump_pert, scatter_self by assumption. reflexivity.
    Qed.

    Lemma offset_xred_dof : forall k, k < length idx ->
      dofX o (getx o k xred) = dofX o (getx o (nth k idx 0) x).
    Proof. intros. now rewrite getx_map. Qed.
  End WithCallable.
End Subset.

Section TopLevel.
  Variables Sc X Y JT HT : Type.
  Variable o : Ops Sc X Y.
  Local Notation Callable := (Callable X Y JT HT).

  (** ** derivatives with respect to an index subset are the corresponding columns of the full derivative *)
  Theorem jac_columns : forall (K : nat) (c : Callable) (x : list X) (idx : list nat),
    K = 1 \/ K = 2 -> restore_ok o -> NoDup idx -> Forall (fun i => i < length x) idx ->
    let xred := map (fun i => getx o i x) idx in
    exists osub ofull Jsub Jfull,
      dr_idx o K Numerical c x idx = Some osub /\ dr o K Numerical c x = Some ofull /\
      o_J osub = Some (JNum JT Jsub) /\ o_J ofull = Some (JNum JT Jfull) /\
      o_val osub = o_val ofull /\ o_args osub = x /\ o_args ofull = x /\
      length Jsub = sum_dof o xred /\ length Jfull = sum_dof o x /\
      forall k j, k < length idx -> j < dofX o (getx o (nth k idx 0) x) ->
        getJ Jsub (offset o xred k + j) = getJ Jfull (offset o x (nth k idx 0) + j) /\
        getJ Jsub (offset o xred k + j) <> None.
  Proof.
    intros K c x idx HK Hok Hnd Hin xred.
    assert (Hlen : length xred = length idx) by (subst xred; apply map_length).
    destruct HK as [-> | ->].
    - destruct (k1_characterisation JT HT (fun red => c_f c (scatter idx red x)) xred Hok)
        as [Hv [Ha [_ [Js [HJs [HlenS [HgetS _]]]]]]].
      destruct (k1_characterisation JT HT (c_f c) x Hok) as [Hv' [Ha' [_ [Jf [HJf [HlenF [HgetF _]]]]]]].
      unfold dr_idx, dr. cbv beta iota zeta. cbn [c_f c_jac c_hess]. fold xred.
      do 4 eexists. split; [reflexivity|]. split; [reflexivity|]. cbn [o_J o_val o_args].
      split; [exact HJs|]. split; [exact HJf|].
      split; [rewrite Hv, Hv'; subst xred; now rewrite scatter_self|].
      split; [rewrite Ha; subst xred; apply scatter_self|]. split; [exact Ha'|].
      split; [exact HlenS|]. split; [exact HlenF|].
      intros k j Hk Hj.
      assert (Hj' : j < dofX o (getx o k xred)) by (subst xred; now rewrite getx_map).
      rewrite HgetS by (rewrite ?Hlen; assumption).
      rewrite HgetF by (try assumption; now apply (idx_nth_lt x Hin)).
      subst xred. rewrite (quot1_subset o (c_f c) x Hnd) by assumption. split; [reflexivity | discriminate].
    - destruct (k2_characterisation JT HT (fun red => c_f c (scatter idx red x)) xred Hok)
        as [Hv [Ha [Js [Hs [HJs [_ [HlenS [_ [_ [HgetS _]]]]]]]]]].
      destruct (k2_characterisation JT HT (c_f c) x Hok) as [Hv' [Ha' [Jf [Hf [HJf [_ [HlenF [_ [_ [HgetF _]]]]]]]]]].
      unfold dr_idx, dr. cbv beta iota zeta. cbn [c_f c_jac c_hess]. fold xred.
      do 4 eexists. split; [reflexivity|]. split; [reflexivity|]. cbn [o_J o_val o_args].
      split; [exact HJs|]. split; [exact HJf|].
      split; [rewrite Hv, Hv'; subst xred; now rewrite scatter_self|].
      split; [rewrite Ha; subst xred; apply scatter_self|]. split; [exact Ha'|].
      split; [exact HlenS|]. split; [exact HlenF|].
      intros k j Hk Hj.
      assert (Hj' : j < dofX o (getx o k xred)) by (subst xred; now rewrite getx_map).
      rewrite HgetS by (rewrite ?Hlen; assumption).
      rewrite HgetF by (try assumption; now apply (idx_nth_lt x Hin)).
      subst xred. rewrite (quot1_subset o (c_f c) x Hnd) by assumption. split; [reflexivity | discriminate].
  Qed.

  (** ... and the Hessian with respect to an index subset consists of the corresponding cells of the full one *)
  Theorem hess_subset : forall (c : Callable) (x : list X) (idx : list nat),
    restore_ok o -> NoDup idx -> Forall (fun i => i < length x) idx ->
    let xred := map (fun i => getx o i x) idx in
    let ny := dofY o (c_f c x) in
    exists osub ofull Hsub Hfull,
      dr_idx o 2 Numerical c x idx = Some osub /\ dr o 2 Numerical c x = Some ofull /\
      o_H osub = Some (HNum HT Hsub) /\ o_H ofull = Some (HNum HT Hfull) /\
      forall k0 c0 k1 c1 j, k0 < length idx -> k1 < length idx ->
        c0 < dofX o (getx o (nth k0 idx 0) x) -> c1 < dofX o (getx o (nth k1 idx 0) x) -> j < ny ->
        getH Hsub (offset o xred k0 + c0) (j * sum_dof o xred + offset o xred k1 + c1)
        = getH Hfull (offset o x (nth k0 idx 0) + c0) (j * sum_dof o x + offset o x (nth k1 idx 0) + c1) /\
        getH Hsub (offset o xred k0 + c0) (j * sum_dof o xred + offset o xred k1 + c1) <> None.
  Proof.
    intros c x idx Hok Hnd Hin xred ny.
    assert (Hlen : length xred = length idx) by (subst xred; apply map_length).
    destruct (k2_characterisation JT HT (fun red => c_f c (scatter idx red x)) xred Hok)
      as [_ [_ [Js [Hs [_ [HHs [_ [_ [_ [_ HgetS]]]]]]]]]].
    destruct (k2_characterisation JT HT (c_f c) x Hok) as [_ [_ [Jf [Hf [_ [HHf [_ [_ [_ [_ HgetF]]]]]]]]]].
    unfold dr_idx, dr. cbv beta iota zeta. cbn [c_f c_jac c_hess]. fold xred.
    do 4 eexists. split; [reflexivity|]. split; [reflexivity|]. cbn [o_H].
    split; [exact HHs|]. split; [exact HHf|].
    intros k0 c0 k1 c1 j Hk0 Hk1 Hc0 Hc1 Hj.
    assert (Hc0' : c0 < dofX o (getx o k0 xred)) by (subst xred; now rewrite getx_map).
    assert (Hc1' : c1 < dofX o (getx o k1 xred)) by (subst xred; now rewrite getx_map).
    rewrite HgetS; try (rewrite ?Hlen; assumption).
    2: { subst xred ny. now rewrite scatter_self. }
    rewrite HgetF; try assumption; try (now apply (idx_nth_lt x Hin)).
    subst xred. rewrite (quot2_subset o (c_f c) x Hnd Hin) by assumption. split; [reflexivity | discriminate].
  Qed.

  (** ** every argument holds its original value after the call (parametrised model: exact group operations, or
      restore from a saved copy; [restore_exact_current] below is the statement about the code as it is) *)
  Theorem restore_exact : forall (K : nat) (c : Callable) (x : list X) (idx : list nat) (consts : list bool),
    K = 1 \/ K = 2 -> restore_ok o -> length consts = length x ->
    (forall out, dr o K Numerical c x = Some out -> o_args out = x /\ caller_view consts x (o_args out) = x) /\
    (forall out, dr_idx o K Numerical c x idx = Some out -> o_args out = x).
  Proof.
    intros K c x idx consts HK Hok Hlen.
    assert (Hcv : caller_view consts x x = x).
    { clear -Hlen. revert consts Hlen. induction x as [|a x IH]; intros [|b consts] Hlen; simpl in *; try lia; auto.
      unfold caller_view in *. simpl. rewrite IH by lia. now destruct b. }
    split.
    - intros out Hout. destruct HK as [-> | ->].
      + assert (Heq : dr o 1 Numerical c x = Some (dr_numerical JT HT o 1 (c_f c) x)) by reflexivity.
        rewrite Heq in Hout. apply Some_inj in Hout. subst out.
        destruct (k1_characterisation JT HT (c_f c) x Hok) as [_ [Ha _]]. now rewrite Ha.
      + assert (Heq : dr o 2 Numerical c x = Some (dr_numerical JT HT o 2 (c_f c) x)) by reflexivity.
        rewrite Heq in Hout. apply Some_inj in Hout. subst out.
        destruct (k2_characterisation JT HT (c_f c) x Hok) as [_ [Ha _]]. now rewrite Ha.
    - intros out Hout. set (xred := map (fun i => getx o i x) idx).
      destruct HK as [-> | ->].
      + assert (Heq : dr_idx o 1 Numerical c x idx
                      = Some (let r := dr_numerical JT HT o 1 (fun red => c_f c (scatter idx red x)) xred in
                              mkOut (o_val r) (o_J r) (o_H r) (scatter idx (o_args r) x))) by reflexivity.
        rewrite Heq in Hout. apply Some_inj in Hout. subst out. cbv zeta. cbn [o_args].
        destruct (k1_characterisation JT HT (fun red => c_f c (scatter idx red x)) xred Hok) as [_ [Ha _]].
        rewrite Ha. apply scatter_self.
      + assert (Heq : dr_idx o 2 Numerical c x idx
                      = Some (let r := dr_numerical JT HT o 2 (fun red => c_f c (scatter idx red x)) xred in
                              mkOut (o_val r) (o_J r) (o_H r) (scatter idx (o_args r) x))) by reflexivity.
        rewrite Heq in Hout. apply Some_inj in Hout. subst out. cbv zeta. cbn [o_args].
        destruct (k2_characterisation JT HT (fun red => c_f c (scatter idx red x)) xred Hok) as [_ [Ha _]].
        rewrite Ha. apply scatter_self.
  Qed.

  (** ** The same statements for the code as it is now ([current_code]): no hypothesis on the group operations, and
      the J output of the K = 2 routine has the first-order step [eps]. *)
  Theorem k1_characterisation_current : forall (f : list X -> Y) (x : list X),
    current_code o ->
    let out := dr_numerical JT HT o 1 f x in
    o_val out = f x /\ o_args out = x /\ o_H out = None /\
    exists J, o_J out = Some (JNum JT J) /\ length J = sum_dof o x /\
      (forall i j, i < length x -> j < dofX o (getx o i x) ->
                   getJ J (offset o x i + j) = Some (quot1 o (eps o) f x i j)) /\
      (forall c, c < sum_dof o x -> exists i j, i < length x /\ j < dofX o (getx o i x) /\ c = offset o x i + j).
  Proof. intros f x Hc. exact (k1_characterisation JT HT f x (current_code_restore_ok Hc)). Qed.

  Theorem k2_characterisation_current : forall (f : list X -> Y) (x : list X),
    current_code o ->
    let out := dr_numerical JT HT o 2 f x in
    let nx := sum_dof o x in
    let ny := dofY o (f x) in
    o_val out = f x /\ o_args out = x /\
    exists J H, o_J out = Some (JNum JT J) /\ o_H out = Some (HNum HT H) /\
      length J = nx /\ length H = nx /\ (forall r, r < nx -> length (nth r H []) = nx * ny) /\
      (forall i j, i < length x -> j < dofX o (getx o i x) ->
         getJ J (offset o x i + j) = Some (quot1 o (eps o) f x i j)) /\
      (forall i0 k0 i1 k1 j, i0 < length x -> i1 < length x ->
         k0 < dofX o (getx o i0 x) -> k1 < dofX o (getx o i1 x) -> j < ny ->
         getH H (offset o x i0 + k0) (j * nx + offset o x i1 + k1)
         = Some (nth j (quot2 o f x i0 k0 i1 k1) (szero o))).
  Proof.
    intros f x Hc.
    pose proof (k2_characterisation JT HT f x (current_code_restore_ok Hc)) as H.
    rewrite (current_code_k2jac Hc) in H. exact H.
  Qed.

  (** the first-derivative output of the K = 2 routine IS the output of the K = 1 routine *)
  Theorem k2_jac_is_k1_jac : forall (f : list X -> Y) (x : list X),
    current_code o ->
    exists J1 J2, o_J (dr_numerical JT HT o 1 f x) = Some (JNum JT J1) /\
                  o_J (dr_numerical JT HT o 2 f x) = Some (JNum JT J2) /\
                  length J1 = length J2 /\
                  forall c, c < sum_dof o x -> getJ J1 c = getJ J2 c /\ getJ J2 c <> None.
  Proof.
    intros f x Hc.
    destruct (k1_characterisation_current f x Hc) as [_ [_ [_ [J1 [HJ1 [Hl1 [Hg1 Hs]]]]]]].
    destruct (k2_characterisation_current f x Hc) as [_ [_ [J2 [H2 [HJ2 [_ [Hl2 [_ [_ [Hg2 _]]]]]]]]]].
    exists J1, J2. split; [exact HJ1|]. split; [exact HJ2|]. split; [now rewrite Hl1, Hl2|].
    intros c Hlt. destruct (Hs c Hlt) as [i [j [Hi [Hj ->]]]].
    rewrite Hg1, Hg2 by assumption. split; [reflexivity | discriminate].
  Qed.

  Theorem jac_columns_current : forall (K : nat) (c : Callable) (x : list X) (idx : list nat),
    K = 1 \/ K = 2 -> current_code o -> NoDup idx -> Forall (fun i => i < length x) idx ->
    let xred := map (fun i => getx o i x) idx in
    exists osub ofull Jsub Jfull,
      dr_idx o K Numerical c x idx = Some osub /\ dr o K Numerical c x = Some ofull /\
      o_J osub = Some (JNum JT Jsub) /\ o_J ofull = Some (JNum JT Jfull) /\
      o_val osub = o_val ofull /\ o_args osub = x /\ o_args ofull = x /\
      length Jsub = sum_dof o xred /\ length Jfull = sum_dof o x /\
      forall k j, k < length idx -> j < dofX o (getx o (nth k idx 0) x) ->
        getJ Jsub (offset o xred k + j) = getJ Jfull (offset o x (nth k idx 0) + j) /\
        getJ Jsub (offset o xred k + j) <> None.
  Proof. intros K c x idx HK Hc. exact (jac_columns c x HK (current_code_restore_ok Hc)). Qed.

  Theorem hess_subset_current : forall (c : Callable) (x : list X) (idx : list nat),
    current_code o -> NoDup idx -> Forall (fun i => i < length x) idx ->
    let xred := map (fun i => getx o i x) idx in
    let ny := dofY o (c_f c x) in
    exists osub ofull Hsub Hfull,
      dr_idx o 2 Numerical c x idx = Some osub /\ dr o 2 Numerical c x = Some ofull /\
      o_H osub = Some (HNum HT Hsub) /\ o_H ofull = Some (HNum HT Hfull) /\
      forall k0 c0 k1 c1 j, k0 < length idx -> k1 < length idx ->
        c0 < dofX o (getx o (nth k0 idx 0) x) -> c1 < dofX o (getx o (nth k1 idx 0) x) -> j < ny ->
        getH Hsub (offset o xred k0 + c0) (j * sum_dof o xred + offset o xred k1 + c1)
        = getH Hfull (offset o x (nth k0 idx 0) + c0) (j * sum_dof o x + offset o x (nth k1 idx 0) + c1) /\
        getH Hsub (offset o xred k0 + c0) (j * sum_dof o xred + offset o xred k1 + c1) <> None.
  Proof. intros c x idx Hc. exact (hess_subset c x (current_code_restore_ok Hc)). Qed.

  (** every argument holds its original value after the call - whatever [rplus] does (rounding, non-commutative
      group, ...): NO exact-group hypothesis *)
  Theorem restore_exact_current : forall (K : nat) (c : Callable) (x : list X) (idx : list nat) (consts : list bool),
    K = 1 \/ K = 2 -> current_code o -> length consts = length x ->
    (forall out, dr o K Numerical c x = Some out -> o_args out = x /\ caller_view consts x (o_args out) = x) /\
    (forall out, dr_idx o K Numerical c x idx = Some out -> o_args out = x).
  Proof. intros K c x idx consts HK Hc. exact (restore_exact c x idx consts HK (current_code_restore_ok Hc)). Qed.

  (** ** Analytic mode, and Default mode when the callable provides them: the callable's own results, verbatim *)
  Theorem analytic_passthrough : forall (c : Callable) (x : list X) jac hess,
    c_jac c = Some jac ->
    dr o 1 Analytic c x = Some (mkOut (c_f c x) (Some (JUser Sc (jac x))) None x) /\
    dr o 1 Default c x = Some (mkOut (c_f c x) (Some (JUser Sc (jac x))) None x) /\
    (c_hess c = Some hess ->
     dr o 2 Analytic c x = Some (mkOut (c_f c x) (Some (JUser Sc (jac x))) (Some (HUser Sc (hess x))) x) /\
     dr o 2 Default c x = Some (mkOut (c_f c x) (Some (JUser Sc (jac x))) (Some (HUser Sc (hess x))) x)) /\
    (c_hess c = None -> dr o 2 Default c x = dr o 2 Numerical c x /\ dr o 2 Analytic c x = None).
  Proof.
    intros c x jac hess Hj. unfold dr, dr_analytic. rewrite Hj.
    split; [reflexivity|]. split; [reflexivity|]. split.
    - intros Hh. rewrite Hh. split; reflexivity.
    - intros Hh. rewrite Hh. split; reflexivity.
  Qed.

  Theorem default_without_members_is_numerical : forall (K : nat) (c : Callable) (x : list X) (idx : list nat),
    c_jac c = None -> dr o K Default c x = dr o K Numerical c x /\ dr_idx o K Default c x idx = dr_idx o K Numerical c x idx.
  Proof.
    intros K c x idx Hj. unfold dr_idx, dr. cbn [c_jac c_hess]. rewrite Hj.
    destruct K as [|[|[|K]]]; split; reflexivity.
  Qed.

  (** the index-subset overload wraps the callable in a lambda without jacobian()/hessian(): Default never
      reaches the analytic path there *)
  Theorem default_with_subset_is_numerical : forall (K : nat) (c : Callable) (x : list X) (idx : list nat),
    dr_idx o K Default c x idx = dr_idx o K Numerical c x idx.
  Proof. intros. unfold dr_idx, dr. cbn [c_jac c_hess]. destruct K as [|[|[|K]]]; reflexivity. Qed.

  (** ** K = 0: just the value, no derivative objects, arguments untouched, whatever the mode *)
  Theorem k0_value_only : forall (m : Mode) (c : Callable) (x : list X) (idx : list nat),
    dr o 0 m c x = Some (mkOut (c_f c x) None None x) /\
    (NoDup idx ->
     dr_idx o 0 m c x idx = Some (mkOut (c_f c x) None None x)).
  Proof.
    intros m c x idx. split; [reflexivity|]. intros _. unfold dr_idx, dr. cbn [c_f o_val o_J o_H o_args].
    now rewrite !scatter_self.
  Qed.

  (** an entry of a J column is the difference quotient of the corresponding coordinate function *)
  Theorem jac_entry_is_quotient : forall (f : list X -> Y) (x : list X) e i j r,
    let h := step o e (getx o i x) j in
    r < length (rminus o (f (pert o x i j h)) (f x)) ->
    nth r (quot1 o e f x i j) (szero o) = sdiv o (nth r (rminus o (f (pert o x i j h)) (f x)) (szero o)) h.
  Proof.
    intros f x e i j r h Hr. unfold quot1. fold h.
    rewrite (nth_indep _ (szero o) (sdiv o (szero o) h)) by (now rewrite map_length).
    apply (map_nth (fun d => sdiv o d h)).
  Qed.
End TopLevel.

(** ** non-vacuity: the hypotheses are satisfiable (also by an [rplus] that rounds); historical: a rounding [rplus]
    refutes exact restoration for the code before 59fd5d3 ([fix_restore = false]) *)
From Coq Require Import ZArith.

Section Instances.
  Local Open Scope Z_scope.

  (** scalar arguments over Z; [coarse = true]: values of magnitude >= 8 are rounded down to even numbers, a toy
      floating-point grid *)
  Definition z_rplus (coarse : bool) (w : Z) (u : list Z) : Z :=
    let v := w + nth 0%nat u 0 in
    if coarse && (8 <=? Z.abs v) then 2 * (v / 2) else v.

  Definition z_ops (coarse fixr fixj : bool) (e : Z) : Ops Z Z (list Z) :=
    mkOps 0 Z.mul Z.div Z.sub Z.opp Z.abs (Z.eqb 0)
          (fun _ => 1%nat) (fun _ => false) (fun w _ => w) (z_rplus coarse)
          (@length Z) (fun a b => map (fun p => fst p - snd p) (combine a b)) 0 e e fixr fixj.

  Lemma z_exact_group : forall fixr fixj e, exact_group (z_ops false fixr fixj e).
  Proof.
    intros fixr fixj e w n j h. unfold z_ops, z_rplus, unitv. cbn [rplus szero sneg andb].
    destruct n as [|n]; cbn [seq map nth]; [lia|].
    destruct (Nat.eqb 0 j); lia.
  Qed.

  Example restore_ok_sat_old_code : restore_ok (z_ops false false false 1).
  Proof. right. apply z_exact_group. Qed.

  Example restore_ok_sat_repaired_code : restore_ok (z_ops true true true 2).
  Proof. now left. Qed.

  (** the current code, on the toy floating-point grid (an [rplus] that is NOT an exact group operation) *)
  Example current_code_sat : current_code (z_ops true true true 2).
  Proof. split; reflexivity. Qed.

  Example current_code_not_exact_group : ~ exact_group (z_ops true true true 2).
  Proof. intros H. specialize (H 7 1%nat 0%nat 2). vm_compute in H. discriminate. Qed.

  Definition z_f (xs : list Z) : list Z := [nth 0%nat xs 0 * nth 1%nat xs 0; nth 0%nat xs 0 + 3 * nth 1%nat xs 0].

  (** a concrete run: f(a,b) = (a*b, a+3b) at (3,5), unit steps: J = [[5,3],[1,3]] column-wise, H from second differences *)
  Example k2_run :
    let out := dr_numerical unit unit (z_ops false false false 1) 2 z_f [3; 5] in
    o_val out = [15; 18] /\ o_args out = [3; 5] /\
    o_J out = Some (JNum unit [Some [5; 1]; Some [3; 3]]) /\
    o_H out = Some (HNum unit [[Some 0; Some 1; Some 0; Some 0]; [Some 1; Some 0; Some 0; Some 0]]).
  Proof. vm_compute. repeat split. Qed.

  Example subset_run :
    dr_idx (z_ops false false false 1) 1 Numerical (mkCallable (JT := unit) (HT := unit) z_f None None) [3; 5] [1%nat]
    = Some (mkOut [15; 18] (Some (JNum unit [Some [3; 3]])) None [3; 5]).
  Proof. vm_compute. reflexivity. Qed.

  (** HISTORICAL (finding C08-restore-drift, fixed by 59fd5d3).  The clause "every argument holds its original
      value" was FALSE of the code that restored by the inverse perturbation ([fix_restore = false]) as soon as
      [rplus] rounds: 7 (+) 2 = 9 -> 8, 8 (+) -2 = 6.  It is not a statement about the current code
      ([current_code] requires [fix_restore = true]; see [restore_exact_current], [k2_run_current]). *)
  Theorem restore_inexact_refuted :
    exists (o : Ops Z Z (list Z)) (f : list Z -> list Z) (x : list Z),
      fix_restore o = false /\ o_args (dr_numerical unit unit o 1 f x) <> x.
  Proof. exists (z_ops true false false 2), z_f, [7; 1]. split; [reflexivity|]. vm_compute. discriminate. Qed.

  (** ... and TRUE of the current code on the same rounding model (instance of [restore_exact_current]) *)
  Example restore_repaired_on_rounding_model :
    o_args (dr_numerical unit unit (z_ops true true true 2) 1 z_f [7; 1]) = [7; 1].
  Proof. vm_compute. reflexivity. Qed.

  (** a concrete run of the current code on that grid: f(a,b) = (a*b, a+3b) at (7,1), step 2; the K = 2 routine returns
      the K = 1 Jacobian and hands (7,1) back although 7 (+) 2 (+) -2 = 6 there *)
  Example k2_run_current :
    let o := z_ops true true true 2 in
    o_args (dr_numerical unit unit o 2 z_f [7; 1]) = [7; 1] /\
    o_J (dr_numerical unit unit o 2 z_f [7; 1]) = o_J (dr_numerical unit unit o 1 z_f [7; 1]).
  Proof. vm_compute. split; reflexivity. Qed.
End Instances.

(** the extracted Q instance runs (polynomial map, mixed vector / scalar arguments) *)
From Coq Require Import QArith.
Example q_instance_runs :
  match q_dr 1 (mkPoly [0%Q] [[1%Q; 2%Q]] [[[0%Q; 1%Q]; [0%Q; 0%Q]]]) [mkQArg true [2%Q]; mkQArg false [0%Q]] with
  | Some out => length (o_val out) = 1%nat /\ o_args out = [mkQArg true [2%Q]; mkQArg false [0%Q]]
  | None => False
  end.
Proof. vm_compute. split; reflexivity. Qed.

(** ... and it is an instance of the current code *)
Example q_ops_current_code : current_code q_ops.
Proof. split; reflexivity. Qed.
