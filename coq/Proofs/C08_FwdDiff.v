(* C08_FwdDiff.v -- real-analysis model of the forward-difference numerical
   differentiation (first derivative, K = 2 first-derivative output, mixed
   second difference) and of the x + h - h restore perturbation.

   Each matrix entry computed by the code reduces to a scalar function of
   the step parameter, so the analysis is one-dimensional (two-dimensional
   for the mixed second difference).

   Contents
     (1) fwd_diff_bound, fwd_diff_bound_exact_step
     (2) eps1, eps2, code_step, fwd_diff_code_step
     (3) k2_jac_step_bound (+ _num), k2_jac_accuracy_refuted (HISTORICAL: the
         K = 2 routine before commit 41b038a, step eps2)
     (3') k2_jac_accuracy_current (the K = 2 routine as it is now: its J is the
         K = 1 Jacobian, step eps1), k2_jac_old_witness_current
     (4) second_diff_bound, second_diff_code_step, mixed_partial_swap
     (5) restore_exact_real, restore_float_bound, restore_k1_within_1e15,
         restore_float_bound_n
   Every implication is followed by an Example ([*_sat]) that discharges
   all its hypotheses on a concrete non-trivial instance.

   No axioms beyond those of the Coq Reals library. *)

From Coq Require Import Reals Lra Psatz.
From Coquelicot Require Import Coquelicot.
Local Open Scope R_scope.

(** * (1) Forward difference: truncation + value error + step mismatch *)

Lemma taylor1 :
  forall (f : R -> R) (x h' : R),
    0 < h' ->
    (forall t, x <= t <= x + h' -> forall k, (k <= 2)%nat -> ex_derive_n f k t) ->
    exists zeta, x < zeta < x + h' /\
      f (x + h') = f x + h' * Derive f x + h' ^ 2 / 2 * Derive_n f 2 zeta.
Proof.
  intros f x h' Hh' Hd.
  destruct (Taylor_Lagrange f 1 x (x + h')) as [zeta [Hz Heq]].
  - lra.
  - exact Hd.
  - exists zeta. split; [exact Hz|].
    rewrite Heq.
    replace (x + h' - x) with h' by ring.
    unfold sum_f_R0, fact. 
    change (Derive_n f 0 x) with (f x).
    change (Derive_n f 1 x) with (Derive f x).
    generalize (Derive_n f 2 zeta); intros D2.
    simpl. field.
Qed.

Theorem fwd_diff_bound :
  forall (f : R -> R) (x h h' M1 M2 ef dh F0 F1 : R),
    0 < h -> 0 < h' ->
    (forall t, x <= t <= x + h' -> forall k, (k <= 2)%nat -> ex_derive_n f k t) ->
    (forall t, x <= t <= x + h' -> Rabs (Derive_n f 2 t) <= M2) ->
    Rabs (Derive f x) <= M1 ->
    Rabs (h' - h) <= dh ->
    Rabs (F1 - f (x + h')) <= ef -> Rabs (F0 - f x) <= ef ->
    Rabs ((F1 - F0) / h - Derive f x)
      <= (h' ^ 2 * M2 / 2 + 2 * ef + M1 * dh) / h.
Proof.
  intros f x h h' M1 M2 ef dh F0 F1 Hh Hh' Hd HM2 HM1 Hdh HF1 HF0.
  destruct (taylor1 f x h' Hh' Hd) as [zeta [Hz Heq]].
  assert (HD2 : Rabs (Derive_n f 2 zeta) <= M2) by (apply HM2; lra).
  set (D1 := Derive f x) in *.
  set (D2 := Derive_n f 2 zeta) in *.
  replace ((F1 - F0) / h - D1)
    with (((F1 - f (x + h')) - (F0 - f x) + (h' - h) * D1 + h' ^ 2 / 2 * D2) / h)
    by (rewrite Heq; field; lra).
  unfold Rdiv at 1. rewrite Rabs_mult, (Rabs_right (/ h)).
  2:{ apply Rle_ge, Rlt_le, Rinv_0_lt_compat, Hh. }
  apply Rmult_le_compat_r; [apply Rlt_le, Rinv_0_lt_compat, Hh|].
  assert (Hp : Rabs ((h' - h) * D1) <= M1 * dh).
  { rewrite Rabs_mult, Rmult_comm.
    apply Rmult_le_compat; try apply Rabs_pos; assumption. }
  assert (Hq : Rabs (h' ^ 2 / 2 * D2) <= h' ^ 2 * M2 / 2).
  { rewrite Rabs_mult, (Rabs_right (h' ^ 2 / 2)) by nra.
    assert (0 <= h' ^ 2 / 2) by nra. nra. }
  eapply Rle_trans; [apply Rabs_triang|].
  eapply Rle_trans; [apply Rplus_le_compat_r, Rabs_triang|].
  eapply Rle_trans; [apply Rplus_le_compat_r, Rplus_le_compat_r, Rabs_triang|].
  rewrite Rabs_Ropp. lra.
Qed.

Corollary fwd_diff_bound_exact_step :
  forall (f : R -> R) (x h M2 ef F0 F1 : R),
    0 < h ->
    (forall t, x <= t <= x + h -> forall k, (k <= 2)%nat -> ex_derive_n f k t) ->
    (forall t, x <= t <= x + h -> Rabs (Derive_n f 2 t) <= M2) ->
    Rabs (F1 - f (x + h)) <= ef -> Rabs (F0 - f x) <= ef ->
    Rabs ((F1 - F0) / h - Derive f x) <= h * M2 / 2 + 2 * ef / h.
Proof.
  intros f x h M2 ef F0 F1 Hh Hd HM2 HF1 HF0.
  eapply Rle_trans.
  - apply (fwd_diff_bound f x h h (Rabs (Derive f x)) M2 ef 0 F0 F1); auto.
    + apply Rle_refl.
    + replace (h - h) with 0 by ring. rewrite Rabs_R0. apply Rle_refl.
  - apply Req_le. field. lra.
Qed.

(* Concrete polynomial instance used by the satisfiability examples. *)
Definition cube (t : R) : R := t ^ 3.

Lemma cube_D1 : forall t, Derive cube t = 3 * t ^ 2.
Proof.
  intros t. apply is_derive_unique. unfold cube. auto_derive; [trivial|ring].
Qed.

Lemma cube_D2 : forall t, Derive_n cube 2 t = 6 * t.
Proof.
  intros t. simpl.
  rewrite (Derive_ext _ (fun t => 3 * t ^ 2)) by (intros; apply cube_D1).
  apply is_derive_unique. auto_derive; [trivial|ring].
Qed.

Lemma cube_ex_derive_n :
  forall t k, (k <= 2)%nat -> ex_derive_n cube k t.
Proof.
  intros t k Hk.
  destruct k as [|[|[|k]]]; simpl.
  - exact I.
  - unfold cube. auto_derive. trivial.
  - apply (ex_derive_ext (fun t => 3 * t ^ 2)).
    + intros s. symmetry. apply cube_D1.
    + auto_derive. trivial.
  - exfalso. inversion Hk as [|m Hm]. inversion Hm as [|m' Hm']. inversion Hm'.
Qed.

Example fwd_diff_bound_sat :
  Rabs ((cube (1 + (1 / 8 + 1 / 1024)) - 1) / (1 / 8) - Derive cube 1)
    <= ((1 / 8 + 1 / 1024) ^ 2 * 7 / 2 + 2 * (1 / 1000) + 3 * (1 / 1024)) / (1 / 8).
Proof.
  apply fwd_diff_bound.
  - lra.
  - lra.
  - intros t _ k Hk. apply cube_ex_derive_n, Hk.
  - intros t Ht. rewrite cube_D2. apply Rabs_le. lra.
  - rewrite cube_D1. apply Rabs_le. lra.
  - apply Rabs_le. lra.
  - apply Rabs_le. lra.
  - unfold cube. apply Rabs_le. lra.
Qed.

Example fwd_diff_bound_exact_step_sat :
  Rabs ((cube (1 + 1 / 8) - cube 1) / (1 / 8) - Derive cube 1)
    <= 1 / 8 * 7 / 2 + 2 * 0 / (1 / 8).
Proof.
  apply fwd_diff_bound_exact_step.
  - lra.
  - intros t _ k Hk. apply cube_ex_derive_n, Hk.
  - intros t Ht. rewrite cube_D2. apply Rabs_le. lra.
  - apply Rabs_le. lra.
  - apply Rabs_le. lra.
Qed.

(** * (2) The code's step rule *)

Definition eps1 : R := / 2 ^ 26.
Definition eps2 : R := / 2 ^ 13.

Definition code_step (e x : R) : R :=
  if Req_EM_T (e * Rabs x) 0 then e else e * Rabs x.

Lemma code_step_zero : forall e, code_step e 0 = e.
Proof.
  intros e. unfold code_step. rewrite Rabs_R0.
  destruct (Req_EM_T (e * 0) 0) as [_|Hne]; [reflexivity|].
  exfalso. apply Hne. ring.
Qed.

Lemma code_step_nonzero :
  forall e x, 0 < e -> x <> 0 -> code_step e x = e * Rabs x.
Proof.
  intros e x He Hx. unfold code_step.
  destruct (Req_EM_T (e * Rabs x) 0) as [Hz|_]; [|reflexivity].
  exfalso. apply Rmult_integral in Hz. destruct Hz as [Hz|Hz]; [lra|].
  apply Rabs_no_R0 in Hx. contradiction.
Qed.

Lemma code_step_range :
  forall e x, 0 < e -> (x = 0 \/ 1 / 10 <= Rabs x <= 10) ->
    e / 10 <= code_step e x <= 10 * e.
Proof.
  intros e x He [Hx|Hx].
  - subst x. rewrite code_step_zero. lra.
  - rewrite code_step_nonzero; [nra|exact He|].
    intros H0. subst x. rewrite Rabs_R0 in Hx. lra.
Qed.

Lemma eps1_pos : 0 < eps1.
Proof. unfold eps1. apply Rinv_0_lt_compat. lra. Qed.
Lemma eps2_pos : 0 < eps2.
Proof. unfold eps2. apply Rinv_0_lt_compat. lra. Qed.

Theorem fwd_diff_code_step :
  forall (f : R -> R) (x h' M2 ef F0 F1 : R),
    let h := code_step eps1 x in
    (x = 0 \/ 1 / 10 <= Rabs x <= 10) ->
    0 < h' ->
    Rabs (h' - h) <= / 2 ^ 53 * (Rabs x + h) ->
    (forall t, x <= t <= x + h' -> forall k, (k <= 2)%nat -> ex_derive_n f k t) ->
    (forall t, x <= t <= x + h' -> Rabs (Derive_n f 2 t) <= M2) ->
    M2 <= 100 -> 0 <= ef -> ef <= / 2 ^ 46 ->
    Rabs (F1 - f (x + h')) <= ef -> Rabs (F0 - f x) <= ef ->
    Rabs ((F1 - F0) / h - Derive f x)
      <= 1 / 10000 * Rmax 1 (Rabs (Derive f x)).
Proof.
  intros f x h' M2 ef F0 F1 h Hx Hh' Hdh Hd HM2 HM2c Hef0 Hef HF1 HF0.
  pose proof eps1_pos as He.
  assert (He1 : eps1 = / 67108864) by (unfold eps1; f_equal; ring).
  assert (Hr : eps1 / 10 <= h <= 10 * eps1) by (apply code_step_range; assumption).
  rewrite He1 in Hr.
  assert (Hh : 0 < h) by lra.
  set (dh := / 2 ^ 53 * (Rabs x + h)) in *.
  assert (Hdh' : dh <= / 67108864 * h).
  { unfold dh. destruct Hx as [Hx|Hx].
    - unfold h. subst x. rewrite code_step_zero, Rabs_R0.
      rewrite He1. lra.
    - assert (Hh_eq : h = eps1 * Rabs x).
      { unfold h. apply code_step_nonzero; [exact He|].
        intros H0. subst x. rewrite Rabs_R0 in Hx. lra. }
      rewrite Hh_eq, He1.
      assert (0 < Rabs x) by lra. lra. }
  assert (HM2pos : 0 <= M2).
  { eapply Rle_trans; [apply Rabs_pos|]. apply (HM2 x). lra. }
  set (M1 := Rabs (Derive f x)).
  assert (HM1 : 0 <= M1) by apply Rabs_pos.
  eapply Rle_trans.
  - apply (fwd_diff_bound f x h h' M1 M2 ef dh F0 F1); auto; try apply Rle_refl.
  - apply Rabs_le_between in Hdh.
    assert (Hh'h : h' <= h * (1001 / 1000)) by lra.
    assert (Hsq : h' ^ 2 <= h * h * (1003 / 1000)) by nra.
    assert (Ha : h' ^ 2 * M2 / 2 <= 3 / 100000 * h).
    { apply Rle_trans with (h * h * (1003 / 1000) * 100 / 2); [nra|].
      assert (h * h <= 10 * / 67108864 * h) by nra. lra. }
    assert (Hb : 2 * ef <= 2 / 100000 * h) by lra.
    assert (Hc : M1 * dh <= M1 * (1 / 100000) * h) by nra.
    apply Rle_trans with (5 / 100000 + M1 * (1 / 100000)).
    + apply Rle_trans with ((5 / 100000 + M1 * (1 / 100000)) * h / h).
      * unfold Rdiv. apply Rmult_le_compat_r; [apply Rlt_le, Rinv_0_lt_compat, Hh|].
        lra.
      * apply Req_le. field. lra.
    + pose proof (Rmax_l 1 M1). pose proof (Rmax_r 1 M1).
      lra.
Qed.

Lemma code_step_one : forall e, 0 < e -> code_step e 1 = e.
Proof.
  intros e He. rewrite code_step_nonzero; [|exact He|lra].
  rewrite Rabs_R1. ring.
Qed.

Lemma code_step_ten : forall e, 0 < e -> code_step e 10 = e * 10.
Proof.
  intros e He. rewrite code_step_nonzero; [|exact He|lra].
  rewrite Rabs_right by lra. reflexivity.
Qed.

(* Satisfiability: f = cube at x = 1, realised step off by one ulp-ish
   2^-53, value of f(x) off by 2^-47. *)
Example fwd_diff_code_step_sat :
  Rabs ((cube (1 + (code_step eps1 1 + / 2 ^ 53)) - (cube 1 + / 2 ^ 47))
          / code_step eps1 1 - Derive cube 1)
    <= 1 / 10000 * Rmax 1 (Rabs (Derive cube 1)).
Proof.
  pose proof eps1_pos as He.
  assert (He1 : eps1 = / 67108864) by (unfold eps1; f_equal; ring).
  apply (fwd_diff_code_step cube 1 (code_step eps1 1 + / 2 ^ 53) 12 (/ 2 ^ 46)).
  - right. rewrite Rabs_R1. lra.
  - rewrite code_step_one by exact He. lra.
  - rewrite code_step_one by exact He. rewrite Rabs_R1.
    apply Rabs_le. lra.
  - intros t _ k Hk. apply cube_ex_derive_n, Hk.
  - intros t Ht. rewrite code_step_one in Ht by exact He.
    rewrite cube_D2. apply Rabs_le. lra.
  - lra.
  - lra.
  - lra.
  - apply Rabs_le. lra.
  - apply Rabs_le. lra.
Qed.

(** * (3) HISTORICAL: the first-derivative output of the K = 2 routine before
    commit 41b038a (step eps2; finding C08-k2-jac-step, fixed).  These lemmas
    are about the [fix_k2jac = false] instance of the parametrised model and say
    nothing about the current code; (3') below does. *)

Lemma code_step_pos : forall e x, 0 < e -> 0 < code_step e x.
Proof.
  intros e x He. unfold code_step.
  destruct (Req_EM_T (e * Rabs x) 0) as [_|Hne]; [exact He|].
  pose proof (Rabs_pos x) as Hx.
  assert (0 <= e * Rabs x) by (apply Rmult_le_pos; lra).
  lra.
Qed.

(* Exact arithmetic (exact step, exact values): the truncation error of
   the J output of the K = 2 routine is governed by the *large* step. *)
Theorem k2_jac_step_bound :
  forall (f : R -> R) (x M2 : R),
    let h := code_step eps2 x in
    (forall t, x <= t <= x + h -> forall k, (k <= 2)%nat -> ex_derive_n f k t) ->
    (forall t, x <= t <= x + h -> Rabs (Derive_n f 2 t) <= M2) ->
    Rabs ((f (x + h) - f x) / h - Derive f x) <= code_step eps2 x * M2 / 2.
Proof.
  intros f x M2 h Hd HM2.
  assert (Hh : 0 < h) by (apply code_step_pos, eps2_pos).
  eapply Rle_trans.
  - apply (fwd_diff_bound_exact_step f x h M2 0 (f x) (f (x + h))); auto.
    + replace (f (x + h) - f (x + h)) with 0 by ring.
      rewrite Rabs_R0. apply Rle_refl.
    + replace (f x - f x) with 0 by ring. rewrite Rabs_R0. apply Rle_refl.
  - apply Req_le. fold h. field. lra.
Qed.

(* Numeric form: 2^-14 = 6.10e-5 <= 6.2e-5. *)
Corollary k2_jac_step_bound_num :
  forall (f : R -> R) (x M2 : R),
    let h := code_step eps2 x in
    (forall t, x <= t <= x + h -> forall k, (k <= 2)%nat -> ex_derive_n f k t) ->
    (forall t, x <= t <= x + h -> Rabs (Derive_n f 2 t) <= M2) ->
    Rabs ((f (x + h) - f x) / h - Derive f x)
      <= 62 / 1000000 * (if Req_EM_T x 0 then 1 else Rabs x) * M2.
Proof.
  intros f x M2 h Hd HM2.
  pose proof eps2_pos as He.
  assert (He2 : eps2 = / 8192) by (unfold eps2; f_equal; ring).
  assert (HM2pos : 0 <= M2).
  { eapply Rle_trans; [apply Rabs_pos|]. apply (HM2 x).
    pose proof (code_step_pos eps2 x He). fold h in H. lra. }
  eapply Rle_trans; [exact (k2_jac_step_bound f x M2 Hd HM2)|].
  destruct (Req_EM_T x 0) as [Hx|Hx].
  - subst x. rewrite code_step_zero, He2. lra.
  - rewrite code_step_nonzero, He2 by assumption.
    pose proof (Rabs_pos x) as HA.
    assert (0 <= Rabs x * M2) by (apply Rmult_le_pos; assumption).
    lra.
Qed.

Definition par (t : R) : R := (t - 10) ^ 2 / 2.

Lemma par_D1 : forall t, Derive par t = t - 10.
Proof.
  intros t. apply is_derive_unique. unfold par. auto_derive; [trivial|field].
Qed.

Lemma par_D2 : forall t, Derive_n par 2 t = 1.
Proof.
  intros t. simpl.
  rewrite (Derive_ext _ (fun t => t - 10)) by (intros; apply par_D1).
  apply is_derive_unique. auto_derive; [trivial|ring].
Qed.

Lemma par_ex_derive_n :
  forall t k, (k <= 2)%nat -> ex_derive_n par k t.
Proof.
  intros t k Hk.
  destruct k as [|[|[|k]]]; simpl.
  - exact I.
  - unfold par. auto_derive. trivial.
  - apply (ex_derive_ext (fun t => t - 10)).
    + intros s. symmetry. apply par_D1.
    + auto_derive. trivial.
  - exfalso. inversion Hk as [|m Hm]. inversion Hm as [|m' Hm']. inversion Hm'.
Qed.

Example k2_jac_step_bound_sat :
  Rabs ((par (10 + code_step eps2 10) - par 10) / code_step eps2 10 - Derive par 10)
    <= code_step eps2 10 * 1 / 2.
Proof.
  apply (k2_jac_step_bound par 10 1).
  - intros t _ k Hk. apply par_ex_derive_n, Hk.
  - intros t _. rewrite par_D2, Rabs_R1. apply Rle_refl.
Qed.

(* HISTORICAL.  The "1e-4 relative to max(1,|J|)" accuracy clause was FALSE for
   the J output of the K = 2 routine when it was formed with the second-order
   step eps2 (before 41b038a), already in exact arithmetic, inside the
   stated function class (|f| <= 1, |f'| <= 1, |f''| <= 1 at magnitude 10):
   error = h / 2 = 10 * 2^-13 / 2 = 6.1e-4 > 1e-4. *)
Theorem k2_jac_accuracy_refuted :
  exists (f : R -> R) (x : R),
    1 / 10 <= Rabs x <= 10 /\
    (forall t k, (k <= 2)%nat -> ex_derive_n f k t) /\
    (forall t, Rabs (Derive_n f 2 t) <= 1) /\
    Rabs (f x) <= 1 /\
    Rabs (Derive f x) <= 1 /\
    let h := code_step eps2 x in
    Rabs ((f (x + h) - f x) / h - Derive f x)
      > 1 / 10000 * Rmax 1 (Rabs (Derive f x)).
Proof.
  exists par, 10.
  pose proof eps2_pos as He.
  assert (He2 : eps2 = / 8192) by (unfold eps2; f_equal; ring).
  split; [|split; [|split; [|split; [|split]]]].
  - rewrite Rabs_right; lra.
  - intros t k Hk. apply par_ex_derive_n, Hk.
  - intros t. rewrite par_D2, Rabs_R1. apply Rle_refl.
  - unfold par. replace ((10 - 10) ^ 2 / 2) with 0 by field.
    rewrite Rabs_R0. lra.
  - rewrite par_D1. replace (10 - 10) with 0 by ring. rewrite Rabs_R0. lra.
  - cbv zeta. rewrite par_D1, code_step_ten by exact He.
    replace (10 - 10) with 0 by ring. rewrite Rabs_R0.
    rewrite Rmax_left by lra.
    unfold par.
    replace (((10 + eps2 * 10 - 10) ^ 2 / 2 - (10 - 10) ^ 2 / 2) / (eps2 * 10) - 0)
      with (eps2 * 5) by (field; lra).
    rewrite Rabs_right; lra.
Qed.

(** * (3') The first-derivative output of the K = 2 routine as it is now

    diff_impl.hpp:79  J = dr_numerical<1>(f, x_nc).second  (commit 41b038a):
    the entry is the forward quotient with the first-order step
    code_step eps1 x (model: k2_characterisation_current, k2_jac_is_k1_jac),
    so the 1e-4 clause holds on the property's class already in the form of
    [fwd_diff_code_step]; here the exact-arithmetic special case, stated in the
    shape of [k2_jac_accuracy_refuted] so that the two can be compared. *)

Theorem k2_jac_accuracy_current :
  forall (f : R -> R) (x M2 : R),
    let h := code_step eps1 x in
    (x = 0 \/ 1 / 10 <= Rabs x <= 10) ->
    (forall t, x <= t <= x + h -> forall k, (k <= 2)%nat -> ex_derive_n f k t) ->
    (forall t, x <= t <= x + h -> Rabs (Derive_n f 2 t) <= M2) ->
    M2 <= 100 ->
    Rabs ((f (x + h) - f x) / h - Derive f x)
      <= 1 / 10000 * Rmax 1 (Rabs (Derive f x)).
Proof.
  intros f x M2 h Hx Hd HM2 HM2c.
  assert (Hh : 0 < h) by (apply code_step_pos, eps1_pos).
  assert (Hp53 : 0 < / 2 ^ 53) by (apply Rinv_0_lt_compat; lra).
  assert (Hp46 : 0 < / 2 ^ 46) by (apply Rinv_0_lt_compat; lra).
  apply (fwd_diff_code_step f x h M2 0 (f x) (f (x + h))).
  - exact Hx.
  - exact Hh.
  - fold h. replace (h - h) with 0 by ring. rewrite Rabs_R0.
    pose proof (Rabs_pos x). apply Rmult_le_pos; lra.
  - exact Hd.
  - exact HM2.
  - exact HM2c.
  - apply Rle_refl.
  - lra.
  - replace (f (x + h) - f (x + h)) with 0 by ring. rewrite Rabs_R0. apply Rle_refl.
  - replace (f x - f x) with 0 by ring. rewrite Rabs_R0. apply Rle_refl.
Qed.

(* Satisfiability, on the very witness of [k2_jac_accuracy_refuted]:
   (t - 10)^2 / 2 at 10 now has error h / 2 = 10 * 2^-26 / 2 = 7.5e-8. *)
Example k2_jac_old_witness_current :
  let h := code_step eps1 10 in
  Rabs ((par (10 + h) - par 10) / h - Derive par 10)
    <= 1 / 10000 * Rmax 1 (Rabs (Derive par 10)).
Proof.
  apply (k2_jac_accuracy_current par 10 1).
  - right. rewrite Rabs_right; lra.
  - intros t _ k Hk. apply par_ex_derive_n, Hk.
  - intros t _. rewrite par_D2, Rabs_R1. apply Rle_refl.
  - lra.
Qed.

(** * (4) Forward second difference for the mixed second derivative *)

(* First-order Taylor-Lagrange with the derivatives given as explicit
   functions on the closed segment [0,h] (Coquelicot's Taylor_Lagrange is
   phrased with Derive_n, which would need the derivative data on a
   neighbourhood of the end points). *)
Lemma taylor1_is_derive :
  forall (k k1 k2 : R -> R) (h : R),
    0 < h ->
    (forall a, 0 <= a <= h -> is_derive k a (k1 a)) ->
    (forall a, 0 <= a <= h -> is_derive k1 a (k2 a)) ->
    exists xi, 0 < xi < h /\ k h = k 0 + h * k1 0 + h ^ 2 / 2 * k2 xi.
Proof.
  intros k k1 k2 h Hh Hk Hk1.
  set (c := (k h - k 0 - h * k1 0) / h ^ 2).
  set (phi := fun t => k h - k t - (h - t) * k1 t - c * (h - t) ^ 2).
  set (dphi := fun t => (h - t) * (2 * c - k2 t)).
  destruct (MVT_cor2 phi dphi 0 h Hh) as [xi [Heq Hxi]].
  - intros t Ht. apply is_derive_Reals.
    pose proof (Hk t Ht) as Hkt. pose proof (Hk1 t Ht) as Hk1t.
    unfold phi, dphi. auto_derive.
    + split; [exists (k1 t); exact Hkt|].
      split; [exists (k2 t); exact Hk1t|]. trivial.
    + assert (E1 : Derive (fun x : R => k x) t = k1 t)
        by (apply is_derive_unique; exact Hkt).
      assert (E2 : Derive (fun x : R => k1 x) t = k2 t)
        by (apply is_derive_unique; exact Hk1t).
      rewrite E1, E2. ring.
  - exists xi. split; [exact Hxi|].
    assert (Hphih : phi h = 0) by (unfold phi; ring).
    assert (Hphi0 : phi 0 = 0) by (unfold phi, c; field; lra).
    rewrite Hphih, Hphi0 in Heq. unfold dphi in Heq.
    assert (H2c : 2 * c - k2 xi = 0).
    { assert (Hp : (h - xi) * (h - 0) <> 0) by (apply Rmult_integral_contrapositive; lra).
      apply (Rmult_eq_reg_l ((h - xi) * (h - 0))); [|exact Hp].
      rewrite Rmult_0_r. lra. }
    replace (k2 xi) with (2 * c) by lra.
    unfold c. field. lra.
Qed.

(* Target quantity: Pba 0 0 = d/da d/db P at (0,0) (b first, then a). *)
Theorem second_diff_bound :
  forall (P Pb Pba Pbaa Pbab : R -> R -> R) (h0 h1 M21 M12 eN N : R),
    0 < h0 -> 0 < h1 ->
    (forall b, P 0 b = 0) ->
    (forall a b, 0 <= a <= h0 -> 0 <= b <= h1 ->
       is_derive (fun b' => P a b') b (Pb a b)) ->
    (forall a b, 0 <= a <= h0 -> 0 <= b <= h1 ->
       is_derive (fun a' => Pb a' b) a (Pba a b)) ->
    (forall a b, 0 <= a <= h0 -> 0 <= b <= h1 ->
       is_derive (fun a' => Pba a' b) a (Pbaa a b)) ->
    (forall b, 0 <= b <= h1 -> is_derive (fun b' => Pba 0 b') b (Pbab 0 b)) ->
    (forall a b, 0 <= a <= h0 -> 0 <= b <= h1 -> Rabs (Pbaa a b) <= M21) ->
    (forall b, 0 <= b <= h1 -> Rabs (Pbab 0 b) <= M12) ->
    Rabs (N - (P h0 h1 - P h0 0)) <= eN ->
    Rabs (N / h0 / h1 - Pba 0 0) <= h0 * M21 / 2 + h1 * M12 + eN / (h0 * h1).
Proof.
  intros P Pb Pba Pbaa Pbab h0 h1 M21 M12 eN N Hh0 Hh1 HP0 HPb HPba HPbaa HPbab
         HM21 HM12 HN.
  (* MVT in b along the line a = h0 *)
  destruct (MVT_cor2 (fun b => P h0 b) (fun b => Pb h0 b) 0 h1 Hh1)
    as [eta [Heta Heta_in]].
  { intros b Hb. apply is_derive_Reals. apply HPb; lra. }
  assert (Heta' : 0 <= eta <= h1) by lra.
  (* Pb 0 eta = 0 since P 0 . is constant zero *)
  assert (HPb0 : Pb 0 eta = 0).
  { assert (Hd0 : is_derive (fun b' : R => P 0 b') eta 0).
    { apply (is_derive_ext (fun _ : R => 0)).
      - intros t. symmetry. apply HP0.
      - apply (is_derive_const (K := R_AbsRing) (V := R_NormedModule) 0 eta). }
    assert (Hd1 : is_derive (fun b' : R => P 0 b') eta (Pb 0 eta))
      by (apply HPb; lra).
    rewrite <- (is_derive_unique _ _ _ Hd1). apply is_derive_unique. exact Hd0. }
  (* Taylor order 1 in a along the line b = eta *)
  destruct (taylor1_is_derive (fun a => Pb a eta) (fun a => Pba a eta)
              (fun a => Pbaa a eta) h0 Hh0) as [xi [Hxi Htay]].
  { intros a Ha. apply HPba; assumption. }
  { intros a Ha. apply HPbaa; assumption. }
  cbv beta in Htay. rewrite HPb0 in Htay.
  (* MVT in b for Pba 0 . between 0 and eta *)
  destruct (MVT_cor2 (fun b => Pba 0 b) (fun b => Pbab 0 b) 0 eta)
    as [eta2 [Heta2 Heta2_in]].
  { lra. }
  { intros b Hb. apply is_derive_Reals. apply HPbab; lra. }
  assert (HB1 : Rabs (Pbaa xi eta) <= M21) by (apply HM21; lra).
  assert (HB2 : Rabs (Pbab 0 eta2) <= M12) by (apply HM12; lra).
  set (D := P h0 h1 - P h0 0) in *.
  set (A := Pbaa xi eta) in *. set (B := Pbab 0 eta2) in *.
  assert (HD : D / h0 / h1 - Pba 0 0 = h0 / 2 * A + B * eta).
  { rewrite Heta, Htay. 
    replace (Pba 0 eta) with (Pba 0 0 + B * (eta - 0)) by lra.
    field. lra. }
  replace (N / h0 / h1 - Pba 0 0)
    with ((N - D) / (h0 * h1) + (h0 / 2 * A + B * eta))
    by (rewrite <- HD; field; lra).
  assert (Hinv : 0 < / (h0 * h1)).
  { apply Rinv_0_lt_compat, Rmult_lt_0_compat; assumption. }
  assert (T1 : Rabs ((N - D) / (h0 * h1)) <= eN / (h0 * h1)).
  { unfold Rdiv. rewrite Rabs_mult, (Rabs_right (/ (h0 * h1))) by lra.
    apply Rmult_le_compat_r; lra. }
  assert (T2 : Rabs (h0 / 2 * A) <= h0 * M21 / 2).
  { rewrite Rabs_mult, (Rabs_right (h0 / 2)) by lra. nra. }
  assert (T3 : Rabs (B * eta) <= h1 * M12).
  { rewrite Rabs_mult, (Rabs_right eta) by lra.
    pose proof (Rabs_pos B). nra. }
  eapply Rle_trans; [apply Rabs_triang|].
  eapply Rle_trans; [apply Rplus_le_compat_l, Rabs_triang|].
  lra.
Qed.

Theorem second_diff_code_step :
  forall (P Pb Pba Pbaa Pbab : R -> R -> R) (x0 x1 M21 M12 eN N : R),
    let h0 := code_step eps2 x0 in
    let h1 := code_step eps2 x1 in
    (x0 = 0 \/ 1 / 10 <= Rabs x0 <= 10) ->
    (x1 = 0 \/ 1 / 10 <= Rabs x1 <= 10) ->
    (forall b, P 0 b = 0) ->
    (forall a b, 0 <= a <= h0 -> 0 <= b <= h1 ->
       is_derive (fun b' => P a b') b (Pb a b)) ->
    (forall a b, 0 <= a <= h0 -> 0 <= b <= h1 ->
       is_derive (fun a' => Pb a' b) a (Pba a b)) ->
    (forall a b, 0 <= a <= h0 -> 0 <= b <= h1 ->
       is_derive (fun a' => Pba a' b) a (Pbaa a b)) ->
    (forall b, 0 <= b <= h1 -> is_derive (fun b' => Pba 0 b') b (Pbab 0 b)) ->
    (forall a b, 0 <= a <= h0 -> 0 <= b <= h1 -> Rabs (Pbaa a b) <= M21) ->
    (forall b, 0 <= b <= h1 -> Rabs (Pbab 0 b) <= M12) ->
    M21 <= 10 -> M12 <= 10 -> eN <= 4 * / 2 ^ 46 ->
    Rabs (N - (P h0 h1 - P h0 0)) <= eN ->
    Rabs (N / h0 / h1 - Pba 0 0) <= 5 / 100 * Rmax 1 (Rabs (Pba 0 0)).
Proof.
  intros P Pb Pba Pbaa Pbab x0 x1 M21 M12 eN N h0 h1 Hx0 Hx1 HP0 HPb HPba HPbaa
         HPbab HM21 HM12 HM21c HM12c HeN HN.
  pose proof eps2_pos as He.
  assert (He2 : eps2 = / 8192) by (unfold eps2; f_equal; ring).
  assert (Hr0 : eps2 / 10 <= h0 <= 10 * eps2) by (apply code_step_range; assumption).
  assert (Hr1 : eps2 / 10 <= h1 <= 10 * eps2) by (apply code_step_range; assumption).
  rewrite He2 in Hr0, Hr1.
  assert (Hh0 : 0 < h0) by lra. assert (Hh1 : 0 < h1) by lra.
  eapply Rle_trans.
  - apply (second_diff_bound P Pb Pba Pbaa Pbab h0 h1 M21 M12 eN N); assumption.
  - assert (Hprod : / 81920 * / 81920 <= h0 * h1).
    { apply Rmult_le_compat; lra. }
    assert (Hpos : 0 < h0 * h1) by (apply Rmult_lt_0_compat; assumption).
    assert (T1 : eN / (h0 * h1) <= 4 / 10000).
    { apply Rle_trans with (4 / 10000 * (h0 * h1) / (h0 * h1)).
      - unfold Rdiv. apply Rmult_le_compat_r.
        + apply Rlt_le, Rinv_0_lt_compat, Hpos.
        + lra.
      - apply Req_le. field. lra. }
    assert (T2 : h0 * M21 / 2 <= 7 / 1000) by nra.
    assert (T3 : h1 * M12 <= 13 / 1000) by nra.
    pose proof (Rmax_l 1 (Rabs (Pba 0 0))). lra.
Qed.

(* Non-trivial instance: P a b = a b (1 + a + b). *)
Definition Pq (a b : R) : R := a * b * (1 + a + b).
Definition Pq_b (a b : R) : R := a + a ^ 2 + 2 * a * b.
Definition Pq_ba (a b : R) : R := 1 + 2 * a + 2 * b.
Definition Pq_baa (a b : R) : R := 2.
Definition Pq_bab (a b : R) : R := 2.

Lemma Pq_d_b : forall a b, is_derive (fun b' => Pq a b') b (Pq_b a b).
Proof. intros a b. unfold Pq, Pq_b. auto_derive; [trivial|ring]. Qed.
Lemma Pq_d_ba : forall a b, is_derive (fun a' => Pq_b a' b) a (Pq_ba a b).
Proof. intros a b. unfold Pq_b, Pq_ba. auto_derive; [trivial|ring]. Qed.
Lemma Pq_d_baa : forall a b, is_derive (fun a' => Pq_ba a' b) a (Pq_baa a b).
Proof. intros a b. unfold Pq_ba, Pq_baa. auto_derive; [trivial|ring]. Qed.
Lemma Pq_d_bab : forall b, is_derive (fun b' => Pq_ba 0 b') b (Pq_bab 0 b).
Proof. intros b. unfold Pq_ba, Pq_bab. auto_derive; [trivial|ring]. Qed.

Example second_diff_bound_sat :
  Rabs ((Pq (1 / 4) (1 / 8) - Pq (1 / 4) 0 + 1 / 1000) / (1 / 4) / (1 / 8) - Pq_ba 0 0)
    <= 1 / 4 * 2 / 2 + 1 / 8 * 2 + (1 / 1000) / (1 / 4 * (1 / 8)).
Proof.
  apply (second_diff_bound Pq Pq_b Pq_ba Pq_baa Pq_bab).
  - lra.
  - lra.
  - intros b. unfold Pq. ring.
  - intros a b _ _. apply Pq_d_b.
  - intros a b _ _. apply Pq_d_ba.
  - intros a b _ _. apply Pq_d_baa.
  - intros b _. apply Pq_d_bab.
  - intros a b _ _. unfold Pq_baa. apply Rabs_le. lra.
  - intros b _. unfold Pq_bab. apply Rabs_le. lra.
  - apply Rabs_le. lra.
Qed.

Example second_diff_code_step_sat :
  Rabs ((Pq (code_step eps2 1) (code_step eps2 0) - Pq (code_step eps2 1) 0 + / 2 ^ 46)
          / code_step eps2 1 / code_step eps2 0 - Pq_ba 0 0)
    <= 5 / 100 * Rmax 1 (Rabs (Pq_ba 0 0)).
Proof.
  apply (second_diff_code_step Pq Pq_b Pq_ba Pq_baa Pq_bab 1 0 2 2 (4 * / 2 ^ 46)).
  - right. rewrite Rabs_R1. lra.
  - left. reflexivity.
  - intros b. unfold Pq. ring.
  - intros a b _ _. apply Pq_d_b.
  - intros a b _ _. apply Pq_d_ba.
  - intros a b _ _. apply Pq_d_baa.
  - intros b _. apply Pq_d_bab.
  - intros a b _ _. unfold Pq_baa. apply Rabs_le. lra.
  - intros b _. unfold Pq_bab. apply Rabs_le. lra.
  - lra.
  - lra.
  - apply Rle_refl.
  - apply Rabs_le. lra.
Qed.

(* The quantity bounded above is the b-then-a mixed partial
   Pba 0 0 = d/da (d/db P) (0,0).  Under continuity of both mixed
   partials it coincides with the other order d/db (d/da P) (0,0)
   (Schwarz), which is the order the documentation writes. *)
Theorem mixed_partial_swap :
  forall (P Pb Pba Pa Pab : R -> R -> R),
    (forall a b, is_derive (fun b' => P a b') b (Pb a b)) ->
    (forall a b, is_derive (fun a' => Pb a' b) a (Pba a b)) ->
    (forall a b, is_derive (fun a' => P a' b) a (Pa a b)) ->
    (forall a b, is_derive (fun b' => Pa a b') b (Pab a b)) ->
    continuity_2d_pt Pba 0 0 ->
    continuity_2d_pt Pab 0 0 ->
    Pba 0 0 = Pab 0 0.
Proof.
  intros P Pb Pba Pa Pab HPb HPba HPa HPab Cba Cab.
  assert (E1 : forall u v, Derive (fun t => P u t) v = Pb u v)
    by (intros u v; apply is_derive_unique, HPb).
  assert (E2 : forall u v, Derive (fun t => P t v) u = Pa u v)
    by (intros u v; apply is_derive_unique, HPa).
  assert (E3 : forall u v,
             Derive (fun z => Derive (fun t => P z t) v) u = Pba u v).
  { intros u v. rewrite (Derive_ext _ (fun z => Pb z v)) by (intros; apply E1).
    apply is_derive_unique, HPba. }
  assert (E4 : forall u v,
             Derive (fun z => Derive (fun t => P t z) u) v = Pab u v).
  { intros u v. rewrite (Derive_ext _ (fun z => Pa u z)) by (intros; apply E2).
    apply is_derive_unique, HPab. }
  rewrite <- E3, <- E4.
  apply Schwarz.
  - apply locally_2d_forall. intros u v.
    split; [exists (Pa u v); apply HPa|].
    split; [exists (Pb u v); apply HPb|].
    split.
    + apply (ex_derive_ext (fun z => Pb z v)); [intros; symmetry; apply E1|].
      exists (Pba u v); apply HPba.
    + apply (ex_derive_ext (fun z => Pa u z)); [intros; symmetry; apply E2|].
      exists (Pab u v); apply HPab.
  - apply (continuity_2d_pt_ext Pba); [intros; symmetry; apply E3|exact Cba].
  - apply (continuity_2d_pt_ext Pab); [intros; symmetry; apply E4|exact Cab].
Qed.

Example mixed_partial_swap_sat :
  Pq_ba 0 0 = (fun a b => 1 + 2 * a + 2 * b) 0 0.
Proof.
  apply (mixed_partial_swap Pq Pq_b Pq_ba (fun a b => b + 2 * a * b + b ^ 2)
           (fun a b => 1 + 2 * a + 2 * b)).
  - apply Pq_d_b.
  - apply Pq_d_ba.
  - intros a b. unfold Pq. auto_derive; [trivial|ring].
  - intros a b. auto_derive; [trivial|ring].
  - unfold Pq_ba. 
    apply continuity_2d_pt_plus; [apply continuity_2d_pt_plus|].
    + apply continuity_2d_pt_const.
    + apply continuity_2d_pt_mult; [apply continuity_2d_pt_const|apply continuity_2d_pt_id1].
    + apply continuity_2d_pt_mult; [apply continuity_2d_pt_const|apply continuity_2d_pt_id2].
  - apply continuity_2d_pt_plus; [apply continuity_2d_pt_plus|].
    + apply continuity_2d_pt_const.
    + apply continuity_2d_pt_mult; [apply continuity_2d_pt_const|apply continuity_2d_pt_id1].
    + apply continuity_2d_pt_mult; [apply continuity_2d_pt_const|apply continuity_2d_pt_id2].
Qed.

(** * (5) Restore perturbation: x + h - h in floating point *)

Theorem restore_exact_real : forall x h : R, x + h + - h = x.
Proof. intros x h. ring. Qed.

(* Standard model: fl(a op b) = (a op b)(1 + d), |d| <= u. *)
Theorem restore_float_bound :
  forall (x h d1 d2 u e : R),
    0 <= u -> u <= / 2 ^ 53 -> 0 <= e <= / 2 ^ 13 ->
    Rabs d1 <= u -> Rabs d2 <= u ->
    Rabs h <= e * Rabs x ->
    Rabs (((x + h) * (1 + d1) - h) * (1 + d2) - x) <= 3 * u * Rabs x.
Proof.
  intros x h d1 d2 u e Hu0 Hu He Hd1 Hd2 Hh.
  replace (((x + h) * (1 + d1) - h) * (1 + d2) - x)
    with (x * d2 + (x + h) * (d1 * (1 + d2))) by ring.
  pose proof (Rabs_pos x) as HA.
  assert (Hxh : Rabs (x + h) <= (1 + e) * Rabs x).
  { eapply Rle_trans; [apply Rabs_triang|]. lra. }
  assert (H1d2 : Rabs (1 + d2) <= 1 + u).
  { eapply Rle_trans; [apply Rabs_triang|]. rewrite Rabs_R1. lra. }
  assert (Hd : Rabs (d1 * (1 + d2)) <= u * (1 + u)).
  { rewrite Rabs_mult. apply Rmult_le_compat; try apply Rabs_pos; assumption. }
  assert (T1 : Rabs (x * d2) <= Rabs x * u).
  { rewrite Rabs_mult. apply Rmult_le_compat_l; assumption. }
  assert (T2 : Rabs ((x + h) * (d1 * (1 + d2))) <= (1 + e) * Rabs x * (u * (1 + u))).
  { rewrite Rabs_mult. apply Rmult_le_compat; try apply Rabs_pos; assumption. }
  eapply Rle_trans; [apply Rabs_triang|].
  assert (Hc : (1 + e) * (1 + u) <= 2).
  { assert (e <= 1 / 8192) by (replace (1 / 8192) with (/ 2 ^ 13) by (unfold Rdiv; rewrite Rmult_1_l; f_equal; ring); lra).
    assert (u <= 1 / 8192).
    { apply Rle_trans with (/ 2 ^ 53); [assumption|].
      replace (2 ^ 53) with 9007199254740992 by ring. lra. }
    nra. }
  assert (Hux : 0 <= u * Rabs x) by (apply Rmult_le_pos; assumption).
  replace ((1 + e) * Rabs x * (u * (1 + u))) with ((1 + e) * (1 + u) * (u * Rabs x)) in T2 by ring.
  assert ((1 + e) * (1 + u) * (u * Rabs x) <= 2 * (u * Rabs x))
    by (apply Rmult_le_compat_r; assumption).
  lra.
Qed.

Corollary restore_k1_within_1e15 :
  forall (x h d1 d2 : R),
    Rabs d1 <= / 2 ^ 53 -> Rabs d2 <= / 2 ^ 53 ->
    Rabs h <= eps1 * Rabs x ->
    Rabs (((x + h) * (1 + d1) - h) * (1 + d2) - x) <= 1 / 10 ^ 15 * Rabs x.
Proof.
  intros x h d1 d2 Hd1 Hd2 Hh.
  assert (H53 : / 2 ^ 53 = / 9007199254740992) by (f_equal; ring).
  assert (He1 : eps1 = / 67108864) by (unfold eps1; f_equal; ring).
  assert (H13 : / 2 ^ 13 = / 8192) by (f_equal; ring).
  eapply Rle_trans.
  - apply (restore_float_bound x h d1 d2 (/ 2 ^ 53) eps1); try assumption.
    + rewrite H53. lra.
    + apply Rle_refl.
    + rewrite He1, H13. lra.
  - pose proof (Rabs_pos x) as HA.
    apply Rmult_le_compat_r; [exact HA|].
    rewrite H53.
    replace (10 ^ 15) with 1000000000000000 by ring. lra.
Qed.

Example restore_float_bound_sat :
  Rabs (((1 + / 2 ^ 13) * (1 + / 2 ^ 53) - / 2 ^ 13) * (1 + - / 2 ^ 53) - 1)
    <= 3 * / 2 ^ 53 * Rabs 1.
Proof.
  assert (H53 : / 2 ^ 53 = / 9007199254740992) by (f_equal; ring).
  assert (H13 : / 2 ^ 13 = / 8192) by (f_equal; ring).
  apply (restore_float_bound 1 (/ 2 ^ 13) (/ 2 ^ 53) (- / 2 ^ 53) (/ 2 ^ 53) (/ 2 ^ 13)).
  - rewrite H53. lra.
  - apply Rle_refl.
  - rewrite H13. lra.
  - rewrite H53. apply Rabs_le. lra.
  - rewrite H53. apply Rabs_le. lra.
  - rewrite Rabs_R1, H13. apply Rabs_le. lra.
Qed.

Example restore_k1_within_1e15_sat :
  Rabs (((3 + 3 * eps1) * (1 + / 2 ^ 53) - 3 * eps1) * (1 + - / 2 ^ 53) - 3)
    <= 1 / 10 ^ 15 * Rabs 3.
Proof.
  assert (H53 : / 2 ^ 53 = / 9007199254740992) by (f_equal; ring).
  pose proof eps1_pos as He.
  apply (restore_k1_within_1e15 3 (3 * eps1)).
  - rewrite H53. apply Rabs_le. lra.
  - rewrite H53. apply Rabs_le. lra.
  - rewrite (Rabs_right 3) by lra. rewrite Rabs_right by lra. lra.
Qed.

(* n round trips: any sequence whose successive elements satisfy the
   one-trip bound drifts by at most ((1+c)^n - 1) |x_0|. *)
Lemma drift_n :
  forall (c : R) (xs : nat -> R),
    0 <= c ->
    (forall i, Rabs (xs (S i) - xs i) <= c * Rabs (xs i)) ->
    forall n,
      Rabs (xs n) <= (1 + c) ^ n * Rabs (xs 0%nat) /\
      Rabs (xs n - xs 0%nat) <= ((1 + c) ^ n - 1) * Rabs (xs 0%nat).
Proof.
  intros c xs Hc Hstep n.
  induction n as [|n [IH1 IH2]].
  - simpl. split.
    + lra.
    + replace (xs 0%nat - xs 0%nat) with 0 by ring. rewrite Rabs_R0. lra.
  - pose proof (Hstep n) as Hs.
    assert (Hc1 : c * Rabs (xs n) <= c * ((1 + c) ^ n * Rabs (xs 0%nat)))
      by (apply Rmult_le_compat_l; assumption).
    split.
    + replace (xs (S n)) with ((xs (S n) - xs n) + xs n) by ring.
      eapply Rle_trans; [apply Rabs_triang|]. simpl. lra.
    + replace (xs (S n) - xs 0%nat) with ((xs (S n) - xs n) + (xs n - xs 0%nat)) by ring.
      eapply Rle_trans; [apply Rabs_triang|]. simpl. lra.
Qed.

(* One floating round trip y -> fl(fl(y + h) - h). *)
Definition trip (y h d1 d2 : R) : R := ((y + h) * (1 + d1) - h) * (1 + d2).

Theorem restore_float_bound_n :
  forall (u e : R) (xs hs d1s d2s : nat -> R),
    0 <= u -> u <= / 2 ^ 53 -> 0 <= e <= / 2 ^ 13 ->
    (forall i, Rabs (d1s i) <= u) -> (forall i, Rabs (d2s i) <= u) ->
    (forall i, Rabs (hs i) <= e * Rabs (xs i)) ->
    (forall i, xs (S i) = trip (xs i) (hs i) (d1s i) (d2s i)) ->
    forall n, Rabs (xs n - xs 0%nat) <= ((1 + 3 * u) ^ n - 1) * Rabs (xs 0%nat).
Proof.
  intros u e xs hs d1s d2s Hu0 Hu He Hd1 Hd2 Hh Hxs n.
  apply (drift_n (3 * u) xs).
  - lra.
  - intros i. rewrite Hxs. unfold trip.
    apply (restore_float_bound (xs i) (hs i) (d1s i) (d2s i) u e); auto.
Qed.

(* Satisfiable: the constant-perturbation sequence started at 1 with
   step 2^-13 * x_i and d1 = 2^-53, d2 = -2^-53. *)
Fixpoint trips (n : nat) : R :=
  match n with
  | O => 1
  | S m => trip (trips m) (/ 2 ^ 13 * trips m) (/ 2 ^ 53) (- / 2 ^ 53)
  end.

Example restore_float_bound_n_sat :
  forall n, Rabs (trips n - 1) <= ((1 + 3 * / 2 ^ 53) ^ n - 1) * Rabs 1.
Proof.
  assert (H53 : / 2 ^ 53 = / 9007199254740992) by (f_equal; ring).
  assert (H13 : / 2 ^ 13 = / 8192) by (f_equal; ring).
  intros n.
  apply (restore_float_bound_n (/ 2 ^ 53) (/ 2 ^ 13) trips
           (fun i => / 2 ^ 13 * trips i) (fun _ => / 2 ^ 53) (fun _ => - / 2 ^ 53)).
  - rewrite H53. lra.
  - apply Rle_refl.
  - rewrite H13. lra.
  - intros _. rewrite H53. apply Rabs_le. lra.
  - intros _. rewrite H53. apply Rabs_le. lra.
  - intros i. rewrite Rabs_mult, (Rabs_right (/ 2 ^ 13)) by (rewrite H13; lra).
    apply Rle_refl.
  - intros i. reflexivity.
Qed.
