(** * C08 - link between the layout model (generic scalar) and the real-analysis error bounds:
    instantiated at Scalar = R, an entry of a numerically computed J column is the forward difference quotient of
    the coordinate function  phi(t) = (f(x (+) t e_j) (-) f(x))_r  at the code's step, hence within h*M2/2 of the
    property's definition of the right derivative  J(r, offset i + j) = phi'(0). *)
From Coq Require Import Reals Lra List.
From Coquelicot Require Import Coquelicot.
From SV Require Import Model.C08_DiffLayout Proofs.C08_DiffLayout Proofs.C08_FwdDiff.
Local Open Scope R_scope.

Section Link.
  Variables X Y : Type.
  Variable o : Ops R X Y.
  Hypothesis Hdiv : sdiv o = Rdiv.
  Hypothesis Hmul : smul o = Rmult.
  Hypothesis Habs : sabs o = Rabs.
  Hypothesis Hzero : szero o = 0.
  Hypothesis His0 : forall a, sis0 o a = if Req_EM_T a 0 then true else false.

  (** the model's step rule is the [code_step] of the error analysis on Eigen-vector arguments, the plain
      constant on every other kind of argument *)
  Lemma step_is_code_step : forall e w j,
    step o e w j = if isvec o w then code_step e (coord o w j) else e.
  Proof.
    intros e w j. unfold step, code_step. destruct (isvec o w); [|reflexivity].
    rewrite His0, Hmul, Habs. destruct (Req_EM_T (e * Rabs (coord o w j)) 0); reflexivity.
  Qed.

  Theorem jac_entry_error : forall (f : list X -> Y) (x : list X) (i j r : nat) (M2 : R),
    let h := step o (eps o) (getx o i x) j in
    let phi := fun t => nth r (rminus o (f (pert o x i j t)) (f x)) 0 in
    0 < h -> phi 0 = 0 ->
    (r < length (rminus o (f (pert o x i j h)) (f x)))%nat ->
    (forall t, 0 <= t <= 0 + h -> forall k, (k <= 2)%nat -> ex_derive_n phi k t) ->
    (forall t, 0 <= t <= 0 + h -> Rabs (Derive_n phi 2 t) <= M2) ->
    Rabs (nth r (quot1 o (eps o) f x i j) 0 - Derive phi 0) <= h * M2 / 2.
  Proof.
    intros f x i j r M2 h phi Hh H0 Hr Hd HM.
    pose proof (@jac_entry_is_quotient _ _ _ o f x (eps o) i j r) as Hq. cbv zeta in Hq. fold h in Hq.
    rewrite Hzero, Hdiv in Hq. rewrite Hq by exact Hr.
    pose proof (fwd_diff_bound_exact_step phi 0 h M2 0 (phi 0) (phi (0 + h)) Hh Hd HM) as Hb.
    replace (phi (0 + h) - phi (0 + h)) with 0 in Hb by ring.
    replace (phi 0 - phi 0) with 0 in Hb by ring.
    rewrite Rabs_R0 in Hb. specialize (Hb (Rle_refl 0) (Rle_refl 0)).
    rewrite H0 in Hb. replace (0 + h) with h in Hb by ring.
    unfold phi in Hb at 1. unfold Rdiv in *.
    replace (nth r (rminus o (f (pert o x i j h)) (f x)) 0 * / h) with
        ((nth r (rminus o (f (pert o x i j h)) (f x)) 0 - 0) * / h) by ring.
    lra.
  Qed.

  (** the same for the first-derivative output of the K = 2 routine of the code as it is now: the column the routine
      returns is the K = 1 column (first-order step [eps o]), so the same bound holds - the statement that
      [k2_jac_accuracy_refuted] (FwdDiff, historical) shows to fail for the step [sqrteps o] used before 41b038a *)
  Theorem k2_jac_entry_error : forall (JT HT : Type) (f : list X -> Y) (x : list X) (i j r : nat) (M2 : R),
    current_code o -> (i < length x)%nat -> (j < dofX o (getx o i x))%nat ->
    let h := step o (eps o) (getx o i x) j in
    let phi := fun t => nth r (rminus o (f (pert o x i j t)) (f x)) 0 in
    0 < h -> phi 0 = 0 ->
    (r < length (rminus o (f (pert o x i j h)) (f x)))%nat ->
    (forall t, 0 <= t <= 0 + h -> forall k, (k <= 2)%nat -> ex_derive_n phi k t) ->
    (forall t, 0 <= t <= 0 + h -> Rabs (Derive_n phi 2 t) <= M2) ->
    exists J col, o_J (dr_numerical JT HT o 2 f x) = Some (JNum JT J) /\
                  getJ J (offset o x i + j) = Some col /\
                  Rabs (nth r col 0 - Derive phi 0) <= h * M2 / 2.
  Proof.
    intros JT HT f x i j r M2 Hc Hi Hj h phi Hh H0 Hr Hd HM.
    destruct (k2_characterisation_current JT HT f x Hc) as [_ [_ [J [H [HJ [_ [_ [_ [_ [Hg _]]]]]]]]]].
    exists J, (quot1 o (eps o) f x i j). split; [exact HJ|]. split; [apply Hg; assumption|].
    apply jac_entry_error; assumption.
  Qed.
End Link.

(** non-vacuity: one scalar argument over R, f(x) = x^2, at x = 3 with step 1/4 *)
Definition r1_ops : Ops R R (list R) :=
  mkOps 0 Rmult Rdiv Rminus Ropp Rabs (fun a => if Req_EM_T a 0 then true else false)
        (fun _ => 1%nat) (fun _ => false) (fun w _ => w) (fun w u => w + nth 0 u 0)
        (@length R) (fun a b => map (fun p => fst p - snd p) (combine a b)) 0 (/ 4) (/ 2)
        c08_fix_restore c08_fix_k2jac.

Example r1_ops_current_code : current_code r1_ops.
Proof. split; reflexivity. Qed.

Example jac_entry_error_sat :
  Rabs (nth 0 (quot1 r1_ops (eps r1_ops) (fun xs => (nth 0 xs 0 * nth 0 xs 0 :: nil)) (3 :: nil) 0 0) 0 - 6) <= / 4 * 2 / 2.
Proof.
  unfold quot1, pert, bump, step, getx, unitv. cbn.
  replace ((3 + / 4) * (3 + / 4) - 3 * 3) with (6 * / 4 + / 4 * / 4) by field.
  unfold Rdiv. replace ((6 * / 4 + / 4 * / 4) * / / 4) with (6 + / 4) by field.
  replace (6 + / 4 - 6) with (/ 4) by ring. rewrite Rabs_pos_eq; lra.
Qed.

(** ... and the K = 2 routine of the current code returns that very column *)
Example k2_jac_entry_error_sat :
  exists J col, o_J (dr_numerical unit unit r1_ops 2 (fun xs => (nth 0 xs 0 * nth 0 xs 0 :: nil)) (3 :: nil))
                = Some (JNum unit J) /\
                getJ J 0 = Some col /\ Rabs (nth 0 col 0 - 6) <= / 4 * 2 / 2.
Proof.
  destruct (k2_characterisation_current unit unit (fun xs => (nth 0 xs 0 * nth 0 xs 0 :: nil)) (3 :: nil)
              r1_ops_current_code) as [_ [_ [J [H [HJ [_ [_ [_ [_ [Hg _]]]]]]]]]].
  exists J, (quot1 r1_ops (eps r1_ops) (fun xs => (nth 0 xs 0 * nth 0 xs 0 :: nil)) (3 :: nil) 0 0).
  split; [exact HJ|]. split; [exact (Hg 0%nat 0%nat (le_n 1) (le_n 1))|]. exact jac_entry_error_sat.
Qed.
