(* C09 proofs, part 2: the minimize loop (Model/C09_Minimize.v).  All statements quantify over every oracle
   sequence [orc : nat -> oracle X], option record, start point/cost and initial strategy state. *)
From Coq Require Import QArith Qabs Bool List ZArith Lqa Lia.
From SV Require Import Model.C09_TrStrategy Model.C09_Minimize Proofs.C09_TrStrategy.
Import ListNotations.
Local Open Scope Q_scope.

(* callback costs, most recent first, never increase (with a relative slack [sl], 0 for the exact statement) *)
Fixpoint mono_sl {X} (sl : Q) (l : list (X * Q)) : Prop :=
  match l with
  | a :: (b :: _) as t => snd a <= (1 + sl) * snd b /\ mono_sl sl t
  | _ => True
  end.
Definition mono {X} (l : list (X * Q)) : Prop := mono_sl 0 l.

Lemma mono_sl_cons : forall {X} sl (a b : X * Q) t,
  mono_sl sl (a :: b :: t) <-> snd a <= (1 + sl) * snd b /\ mono_sl sl (b :: t).
Proof. intros. cbn [mono_sl]. tauto. Qed.

(* exact monotonicity bounds every element by every earlier one *)
Lemma mono_head_le_all : forall {X} (l : list (X * Q)) a p, mono (a :: l) -> In p (a :: l) -> snd a <= snd p.
Proof.
  intros X l. induction l as [|b t IH]; intros a p Hm Hin.
  - destruct Hin as [<-|[]]. lra.
  - destruct Hin as [<-|Hin]; [lra|].
    unfold mono in Hm. apply mono_sl_cons in Hm. destruct Hm as [Hab Ht].
    specialize (IH b p Ht Hin). lra.
Qed.

Lemma mono_all_le_last : forall {X} (l : list (X * Q)) p d, mono l -> In p l -> snd p <= snd (last l d).
Proof.
  intros X l. induction l as [|a t IH]; intros p d Hm Hin; [destruct Hin|].
  destruct t as [|b t'].
  - destruct Hin as [<-|[]]. cbn. lra.
  - change (last (a :: b :: t') d) with (last (b :: t') d).
    unfold mono in Hm. apply mono_sl_cons in Hm. destruct Hm as [Hab Ht].
    destruct Hin as [<-|Hin].
    + specialize (IH b d Ht (or_introl eq_refl)). lra.
    + exact (IH p d Ht Hin).
Qed.

(* ---- the oracle contracts *)

(* EXACT arithmetic (R-model, values in Q): what C10's theorem gives about the trust-region step
   (pred_red >= 0; pred_red = 0 -> dx = 0, and r = 0 -> dx = 0, so xp = x and the cost is unchanged: C07 rplus(x,0)=x)
   plus the definitions of optim.hpp:100-103.  Where the C++ expression is 0/0 nothing is assumed. *)
Definition exact_oracle {X} (c : Q) (oc : oracle X) : Prop :=
  (o_rn_zero oc = true -> c == 0 /\ o_cost_new oc == 0) /\
  (o_rn_zero oc = false ->
     0 < c /\ 0 <= o_cost_new oc /\
     exists p, o_pred oc = Fin p /\ 0 <= p /\
               (p == 0 -> o_cost_new oc == c) /\
               (0 < p -> exists a rho, o_actu oc = Fin a /\ a == 1 - o_cost_new oc / c /\
                                       o_rho oc = Fin rho /\ rho == a / p)).

(* FLOATING POINT: all that is assumed of the doubles.
   (a) actu_red = fl(1 - fl(fl(n'/n)^2)) > 0 forces n' <= n (rounding is monotone and fl(n/n) = 1);
   (b) on the branches taken without looking at rho (r_n == 0 or pred_red <= 0) the new cost exceeds the old one by
       at most the relative slack [sl] (checked at run time by the harness; it is the property's "rounding error of
       evaluating f");
   (c) IEEE sign rule for rho = actu_red / pred_red (r_n != 0): rho > 0 and not (pred_red <= 0) imply actu_red > 0. *)
Definition fl_oracle {X} (sl c : Q) (oc : oracle X) : Prop :=
  0 <= o_cost_new oc /\
  (xltb (Fin 0) (o_actu oc) = true -> o_cost_new oc <= c) /\
  (o_rn_zero oc = true \/ xleb (o_pred oc) (Fin 0) = true -> o_cost_new oc <= (1 + sl) * c) /\
  (o_rn_zero oc = false -> xltb (Fin 0) (o_rho oc) = true -> xleb (o_pred oc) (Fin 0) = false ->
   xltb (Fin 0) (o_actu oc) = true).

Section LoopFacts.
  Context {S X : Type}.
  Variable strat : strategy S.
  Variable opts : options.
  Variable fixed : bool.
  Variable orc : nat -> oracle X.

  Notation state := (state S X).
  Notation step := (step strat opts fixed).
  Notation loop := (loop strat opts fixed orc).
  Notation conv_test := (conv_test opts fixed).
  Notation run := (run strat opts fixed orc).

  (* ---- one iteration *)
  Lemma step_iter : forall oc (s : state), iter (step oc s) = Datatypes.S (iter s).
  Proof.
    intros oc s. unfold C09_Minimize.step.
    destruct (step_and_update strat (sstate s) (o_rho oc)) as [take ss'].
    destruct (accept oc take); reflexivity.
  Qed.

  Lemma step_sstate : forall oc (s : state),
    sstate (step oc s) = snd (step_and_update strat (sstate s) (o_rho oc)).
  Proof.
    intros oc s. unfold C09_Minimize.step.
    destruct (step_and_update strat (sstate s) (o_rho oc)) as [take ss'].
    destruct (accept oc take); reflexivity.
  Qed.

  (* the two outcomes of an iteration, as a case lemma used by all invariants *)
  Lemma step_cases : forall oc (s : state),
    let take := fst (step_and_update strat (sstate s) (o_rho oc)) in
    (accept oc take = true /\
     cur (step oc s) = o_xp oc /\ cost (step oc s) = o_cost_new oc /\
     st (step oc s) = conv_test oc /\
     cbs (step oc s) = (o_xp oc, o_cost_new oc) :: cbs s /\
     evs (step oc s) = {| e_delta := get_delta strat (sstate s); e_take := take; e_stepped := true;
                          e_conv := conv_test oc |} :: evs s)
    \/
    (accept oc take = false /\
     cur (step oc s) = cur s /\ cost (step oc s) = cost s /\ st (step oc s) = st s /\
     cbs (step oc s) = cbs s /\
     evs (step oc s) = {| e_delta := get_delta strat (sstate s); e_take := take; e_stepped := false;
                          e_conv := None |} :: evs s).
  Proof.
    intros oc s. unfold C09_Minimize.step.
    destruct (step_and_update strat (sstate s) (o_rho oc)) as [take ss']. cbn [fst].
    destruct (accept oc take); [left|right]; repeat split; reflexivity.
  Qed.

  (* a rejected step leaves the arguments, their cost and the callback log untouched *)
  Lemma reject_keeps_x : forall oc (s : state),
    accept oc (fst (step_and_update strat (sstate s) (o_rho oc))) = false ->
    cur (step oc s) = cur s /\ cost (step oc s) = cost s /\ cbs (step oc s) = cbs s.
  Proof.
    intros oc s H. destruct (step_cases oc s) as [[Ha _]|[_ [H1 [H2 [_ [H3 _]]]]]].
    - cbv zeta in Ha. congruence.
    - auto.
  Qed.

  Lemma conv_test_not_maxiters : forall (oc : oracle X), conv_test oc <> Some MaxIters.
  Proof.
    intros oc. unfold C09_Minimize.conv_test.
    destruct (_ || _); [discriminate|]. destruct (xltb _ _); discriminate.
  Qed.

  (* ---- generic loop invariant principle *)
  Lemma loop_invariant : forall (Inv : state -> Prop),
    (forall s, Inv s -> st s = None -> Inv (step (orc (iter s)) s)) ->
    forall k s, Inv s -> Inv (loop k s).
  Proof.
    intros Inv Hstep k. induction k as [|k IH]; intros s Hs; cbn [C09_Minimize.loop]; [exact Hs|].
    destruct (st s) eqn:E; [exact Hs|]. apply IH. apply Hstep; assumption.
  Qed.

  (* invariant principle that also knows the iteration bound *)
  Lemma loop_invariant_bounded : forall (Inv : state -> Prop) k s,
    (forall s', Inv s' -> st s' = None -> (iter s' < iter s + k)%nat -> Inv (step (orc (iter s')) s')) ->
    Inv s -> Inv (loop k s).
  Proof.
    intros Inv k. induction k as [|k IH]; intros s Hstep Hs; cbn [C09_Minimize.loop]; [exact Hs|].
    destruct (st s) eqn:E; [exact Hs|]. apply IH.
    - intros s' Hi Hn Hlt. apply Hstep; try assumption. rewrite step_iter in Hlt. lia.
    - apply Hstep; try assumption. lia.
  Qed.

  (* ---- iteration count *)
  Lemma loop_iter_le : forall k (s : state), (iter s <= iter (loop k s) <= iter s + k)%nat.
  Proof.
    induction k as [|k IH]; intros s; cbn [C09_Minimize.loop]; [lia|].
    destruct (st s); [lia|]. specialize (IH (step (orc (iter s)) s)). rewrite step_iter in IH. lia.
  Qed.

  Lemma loop_unconverged_full : forall k (s : state),
    st (loop k s) = None -> iter (loop k s) = (iter s + k)%nat.
  Proof.
    induction k as [|k IH]; intros s H; cbn [C09_Minimize.loop] in *; [lia|].
    destruct (st s) eqn:E; [congruence|]. rewrite (IH _ H), step_iter. lia.
  Qed.

  Lemma loop_st_some_stable : forall k (s : state) v, st s = Some v -> loop k s = s.
  Proof. intros k s v H. destruct k; cbn [C09_Minimize.loop]; [reflexivity|]. rewrite H. reflexivity. Qed.

  (* ---- bookkeeping invariant: events, callbacks, current point *)
  Definition count_stepped (l : list event) : nat := length (filter e_stepped l).

  Definition book (x0 : X) (c0 : Q) (s : state) : Prop :=
    length (evs s) = iter s /\
    length (cbs s) = Datatypes.S (count_stepped (evs s)) /\
    hd_error (cbs s) = Some (cur s, cost s) /\
    last (cbs s) (x0, c0) = (x0, c0) /\
    (* status bookkeeping: nothing fired before the most recent event; the status is what the most recent event says *)
    match evs s with
    | [] => st s = None
    | e :: rest => Forall (fun e' => e_conv e' = None) rest /\
                   (st s = None -> e_conv e = None) /\
                   (forall v, st s = Some v -> e_conv e = Some v /\ e_stepped e = true /\ v <> MaxIters)
    end.

  Lemma book_init : forall x0 c0 s0, book x0 c0 (init x0 c0 s0).
  Proof. intros. unfold book, init; cbn. repeat split; reflexivity. Qed.

  Lemma book_step : forall x0 c0 (s : state), book x0 c0 s -> st s = None ->
    book x0 c0 (step (orc (iter s)) s).
  Proof.
    intros x0 c0 s (Hlen & Hcb & Hhd & Hlast & Hst) Hnone.
    assert (Hprev : Forall (fun e' => e_conv e' = None) (evs s)).
    { destruct (evs s) as [|e rest]; [constructor|]. destruct Hst as (Hr & Hn & _).
      constructor; [apply Hn; exact Hnone | exact Hr]. }
    set (oc := orc (iter s)).
    destruct (step_cases oc s) as [(Ha & Hcur & Hcost & Hs & Hcbs & Hevs)|(Ha & Hcur & Hcost & Hs & Hcbs & Hevs)];
      unfold book; rewrite step_iter, Hcur, Hcost, Hs, Hcbs, Hevs.
    - split; [cbn [length]; congruence|].
      split; [cbn [length]; unfold count_stepped in *; cbn [filter e_stepped length]; congruence|].
      split; [reflexivity|].
      split.
      { destruct (cbs s) as [|p t] eqn:Ec; [cbn in Hcb; discriminate|].
        change (last ((o_xp oc, o_cost_new oc) :: p :: t) (x0, c0)) with (last (p :: t) (x0, c0)). exact Hlast. }
      split; [exact Hprev|]. cbn [e_conv e_stepped].
      split; [auto|].
      intros v Hv. split; [exact Hv|]. split; [reflexivity|].
      intros ->. exact (conv_test_not_maxiters oc Hv).
    - split; [cbn [length]; congruence|].
      split; [unfold count_stepped in *; cbn [filter e_stepped]; exact Hcb|].
      split; [exact Hhd|].
      split; [exact Hlast|].
      split; [exact Hprev|]. cbn [e_conv e_stepped].
      split; [auto|].
      intros v Hv. congruence.
  Qed.

  Lemma book_run : forall x0 c0 s0, book x0 c0 (run x0 c0 s0).
  Proof.
    intros. unfold run. apply (loop_invariant (book x0 c0)); [|apply book_init].
    intros s Hs Hn. apply book_step; assumption.
  Qed.

  Lemma count_stepped_le : forall l, (count_stepped l <= length l)%nat.
  Proof.
    intros l. unfold count_stepped. induction l as [|e t IH]; cbn [filter length]; [lia|].
    destruct (e_stepped e); cbn [length]; lia.
  Qed.

  (* ---- property clause: at most max_iter iterations; callbacks = 1 + accepted steps <= max_iter + 1 *)
  Theorem iter_bound : forall x0 c0 s0,
    let r := run x0 c0 s0 in
    (result_iter r <= max_iter opts)%nat /\
    length (evs r) = result_iter r /\
    length (cbs r) = Datatypes.S (count_stepped (evs r)) /\
    (1 <= length (cbs r) <= max_iter opts + 1)%nat /\
    last (cbs r) (x0, c0) = (x0, c0).
  Proof.
    intros x0 c0 s0 r. destruct (book_run x0 c0 s0) as (Hlen & Hcb & _ & Hlast & _). fold r in Hlen, Hcb, Hlast.
    assert (Hi : (iter r <= max_iter opts)%nat).
    { unfold r, run. pose proof (loop_iter_le (max_iter opts) (init x0 c0 s0)) as H. cbn [init iter] in H. lia. }
    pose proof (count_stepped_le (evs r)) as Hc.
    unfold result_iter. repeat split; try assumption; lia.
  Qed.

  (* ---- property clause: MaxIters is reported exactly when no convergence test fired in any executed iteration,
     and then all max_iter iterations were executed; a Ftol/Ptol status is what the LAST executed iteration's test
     said, that iteration took a step, and no earlier iteration fired *)
  Theorem status_maxiters_iff : forall x0 c0 s0,
    let r := run x0 c0 s0 in
    (result_status r = MaxIters <-> Forall (fun e => e_conv e = None) (evs r)) /\
    (result_status r = MaxIters -> result_iter r = max_iter opts) /\
    (forall v, v <> MaxIters -> result_status r = v ->
       exists e rest, evs r = e :: rest /\ e_conv e = Some v /\ e_stepped e = true /\
                      Forall (fun e' => e_conv e' = None) rest /\ (1 <= result_iter r <= max_iter opts)%nat).
  Proof.
    intros x0 c0 s0 r. destruct (book_run x0 c0 s0) as (Hlen & _ & _ & _ & Hst). fold r in Hlen, Hst.
    assert (Hi : (iter r <= max_iter opts)%nat).
    { unfold r, run. pose proof (loop_iter_le (max_iter opts) (init x0 c0 s0)) as H. cbn [init iter] in H. lia. }
    unfold result_status, result_iter.
    split; [|split].
    - destruct (evs r) as [|e rest] eqn:Ee.
      + rewrite Hst. split; [constructor | reflexivity].
      + destruct Hst as (Hr & Hn & Hs). destruct (st r) as [v|] eqn:Es.
        * destruct (Hs v eq_refl) as (Hc & _ & Hne). split.
          -- intros ->. congruence.
          -- intros HF. inversion HF as [|? ? H1 H2]; subst. congruence.
        * split; [|reflexivity]. intros _. constructor; [apply Hn; reflexivity | exact Hr].
    - intros H. destruct (st r) as [v|] eqn:Es.
      + subst v. destruct (evs r) as [|e rest]; [congruence|]. destruct Hst as (_ & _ & Hs).
        destruct (Hs MaxIters eq_refl) as (_ & _ & Hne). congruence.
      + unfold r, run in Es |- *. rewrite (loop_unconverged_full _ _ Es). reflexivity.
    - intros v Hv H. destruct (st r) as [w|] eqn:Es; [|congruence]. subst w.
      destruct (evs r) as [|e rest] eqn:Ee; [congruence|]. destruct Hst as (Hr & _ & Hs).
      destruct (Hs v eq_refl) as (Hc & Hstep & _).
      exists e, rest. repeat split; try assumption.
      + cbn [length] in Hlen. lia.
  Qed.

  (* ---- property clause: the arguments finally hold the last iterate handed to the callback *)
  Theorem final_is_last_iterate : forall x0 c0 s0,
    let r := run x0 c0 s0 in
    hd_error (cbs r) = Some (cur r, cost r).
  Proof. intros x0 c0 s0 r. destruct (book_run x0 c0 s0) as (_ & _ & Hhd & _). exact Hhd. Qed.

  (* ---- reachable states (to phrase hypotheses about "the oracle values the run actually meets") *)
  Inductive reach (x0 : X) (c0 : Q) (s0 : S) : state -> Prop :=
  | reach_init : reach x0 c0 s0 (init x0 c0 s0)
  | reach_step : forall s, reach x0 c0 s0 s -> st s = None -> (iter s < max_iter opts)%nat ->
                 reach x0 c0 s0 (step (orc (iter s)) s).

  Lemma reach_run : forall x0 c0 s0, reach x0 c0 s0 (run x0 c0 s0).
  Proof.
    intros. unfold run.
    apply (loop_invariant_bounded (reach x0 c0 s0) (max_iter opts) (init x0 c0 s0)); [|constructor].
    intros s' Hr Hn Hlt. cbn [init iter] in Hlt. constructor; assumption.
  Qed.

  (* ---- zero residual.  With the disjunct [r_n == 0 ||] of optim.hpp:147 ([fixed = true], the code since 16638da) the
     iteration that sees r_n == 0 ends the loop with Ftol *)
  Theorem zero_residual_stops_fixed : fixed = true ->
    forall (s : state), st s = None -> o_rn_zero (orc (iter s)) = true ->
    st (step (orc (iter s)) s) = Some Ftol /\ cbs (step (orc (iter s)) s) = (o_xp (orc (iter s)), o_cost_new (orc (iter s))) :: cbs s.
  Proof.
    intros Hf s Hn Hz. set (oc := orc (iter s)) in *.
    destruct (step_cases oc s) as [(Ha & _ & _ & Hs & Hc & _)|(Ha & _)].
    - split; [|exact Hc]. rewrite Hs. unfold C09_Minimize.conv_test. rewrite Hf, Hz. reflexivity.
    - cbv zeta in Ha. unfold accept in Ha. rewrite Hz in Ha. discriminate Ha.
  Qed.

  (* run level: an iteration that sees r_n == 0 is the LAST iteration of the run and the run reports Ftol, whatever the
     tolerances and the strategy -- the spin of the former finding C09-zero-residual-nan (zero_residual_spin_refuted
     below, [fixed = false]) cannot happen: no iteration is ever executed after one with a zero residual *)
  Definition zero_inv (s : state) : Prop :=
    forall i, (i < iter s)%nat -> o_rn_zero (orc i) = true -> iter s = Datatypes.S i /\ st s = Some Ftol.

  Theorem zero_residual_is_last : fixed = true -> forall x0 c0 s0,
    let r := run x0 c0 s0 in
    forall i, (i < result_iter r)%nat -> o_rn_zero (orc i) = true ->
      result_iter r = Datatypes.S i /\ result_status r = Ftol.
  Proof.
    intros Hf x0 c0 s0 r.
    assert (H : zero_inv r).
    { unfold r, C09_Minimize.run. apply (loop_invariant zero_inv).
      - intros s Hs Hn i Hi Hz. rewrite step_iter in Hi |- *.
        destruct (Nat.eq_dec i (iter s)) as [->|Hne].
        + split; [reflexivity|]. exact (proj1 (zero_residual_stops_fixed Hf s Hn Hz)).
        + assert (Hlt : (i < iter s)%nat) by lia. destruct (Hs i Hlt Hz) as (_ & Hst). congruence.
      - intros i Hi. cbn [init iter] in Hi. lia. }
    intros i Hi Hz. destruct (H i Hi Hz) as (H1 & H2). unfold result_iter, result_status. rewrite H2. auto.
  Qed.

  (* ---- strategy state: any invariant of step_and_update holds for every Delta handed to the solver and for
     the state left behind in the shared strategy object *)
  Theorem strategy_invariant : forall (P : S -> Prop),
    (forall ss rho, P ss -> P (snd (step_and_update strat ss rho))) ->
    forall x0 c0 s0, P s0 -> forall s, reach x0 c0 s0 s -> P (sstate s).
  Proof.
    intros P HP x0 c0 s0 H0 s Hr. induction Hr as [|s Hr IH Hn Hlt]; [exact H0|].
    rewrite step_sstate. apply HP. exact IH.
  Qed.

  Theorem deltas_invariant : forall (P : S -> Prop) (D : Q -> Prop),
    (forall ss rho, P ss -> P (snd (step_and_update strat ss rho))) ->
    (forall ss, P ss -> D (get_delta strat ss)) ->
    forall x0 c0 s0, P s0 -> forall s, reach x0 c0 s0 s -> Forall (fun e => D (e_delta e)) (evs s).
  Proof.
    intros P D HP HD x0 c0 s0 H0 s Hr. induction Hr as [|s Hr IH Hn Hlt]; [constructor|].
    pose proof (strategy_invariant P HP x0 c0 s0 H0 s Hr) as Hs.
    destruct (step_cases (orc (iter s)) s) as [(_ & _ & _ & _ & _ & He)|(_ & _ & _ & _ & _ & He)];
      rewrite He; constructor; cbn [e_delta]; auto.
  Qed.

  (* ---- cost monotonicity, floating-point version with slack, then the exact version as the case sl = 0 *)
  Definition cost_inv (sl : Q) (s : state) : Prop :=
    0 <= cost s /\ hd_error (cbs s) = Some (cur s, cost s) /\ mono_sl sl (cbs s).

  Hypothesis Hcontract : takes_only_positive strat.

  Lemma cost_inv_step : forall sl (s : state), 0 <= sl ->
    cost_inv sl s -> fl_oracle sl (cost s) (orc (iter s)) -> cost_inv sl (step (orc (iter s)) s).
  Proof.
    intros sl s Hsl (Hc & Hhd & Hm) (Hnn & Ha & Hb & Hsign).
    set (oc := orc (iter s)) in *.
    destruct (step_cases oc s) as [(Hacc & Hcur & Hcost & _ & Hcbs & _)|(_ & Hcur & Hcost & _ & Hcbs & _)];
      unfold cost_inv; rewrite Hcur, Hcost, Hcbs; [|auto].
    split; [exact Hnn|]. split; [reflexivity|].
    destruct (cbs s) as [|p t] eqn:Ec; [exact I|]. cbn [hd_error] in Hhd. injection Hhd as ->.
    apply mono_sl_cons. split; [|exact Hm]. cbn [snd].
    cbv zeta in Hacc. unfold accept in Hacc.
    destruct (o_rn_zero oc) eqn:Ez; [apply Hb; left; reflexivity|].
    destruct (xleb (o_pred oc) (Fin 0)) eqn:Ep; [apply Hb; right; reflexivity|].
    cbn [orb] in Hacc. apply Hcontract in Hacc.
    specialize (Ha (Hsign eq_refl Hacc eq_refl)). nra.
  Qed.

  Theorem cost_monotone_fl : forall sl x0 c0 s0, 0 <= sl -> 0 <= c0 ->
    (forall s, reach x0 c0 s0 s -> st s = None -> (iter s < max_iter opts)%nat ->
               fl_oracle sl (cost s) (orc (iter s))) ->
    let r := run x0 c0 s0 in
    mono_sl sl (cbs r) /\ 0 <= cost r.
  Proof.
    intros sl x0 c0 s0 Hsl Hc0 Horc r.
    assert (H : forall s, reach x0 c0 s0 s -> cost_inv sl s).
    { intros s Hr. induction Hr as [|s Hr IH Hn Hlt].
      - unfold cost_inv, init; cbn [cost cbs cur hd_error mono_sl]. split; [exact Hc0|split; [reflexivity|exact I]].
      - apply cost_inv_step; [exact Hsl | exact IH | apply Horc; assumption]. }
    destruct (H r (reach_run x0 c0 s0)) as (Hc & _ & Hm). split; assumption.
  Qed.

  (* exact oracle values satisfy the floating-point contract with slack 0 *)
  Lemma exact_is_fl : forall c (oc : oracle X), 0 <= c -> exact_oracle c oc -> fl_oracle 0 c oc.
  Proof.
    intros c oc Hc (Hz & Hnz). unfold fl_oracle.
    destruct (o_rn_zero oc) eqn:Ez.
    - destruct (Hz eq_refl) as (Hc0 & Hn0). repeat split.
      + lra.
      + intros _. lra.
      + intros _. lra.
      + discriminate.
    - destruct (Hnz eq_refl) as (Hcpos & Hnn & p & Hp & Hp0 & Hpz & Hpp).
      assert (Hcn : ~ c == 0) by lra.
      assert (Hq : o_cost_new oc == c * (o_cost_new oc / c)) by (symmetry; apply Qmult_div_r; exact Hcn).
      assert (Hlt : 0 < p -> 0 < 1 - o_cost_new oc / c -> o_cost_new oc <= c).
      { intros _ H1. set (q := o_cost_new oc / c) in *. nra. }
      repeat split.
      + exact Hnn.
      + intros Ha. destruct (Qlt_le_dec 0 p) as [Hpos|Hle].
        * destruct (Hpp Hpos) as (a & rho & Hactu & Hae & _). rewrite Hactu in Ha. apply xltb_fin in Ha.
          apply Hlt; [exact Hpos | lra].
        * assert (Hp00 : p == 0) by lra. specialize (Hpz Hp00). lra.
      + intros [Hf|Hle]; [discriminate Hf|]. rewrite Hp in Hle. apply xleb_fin in Hle.
        assert (Hp00 : p == 0) by lra. specialize (Hpz Hp00). lra.
      + intros _ Hrho Hple. rewrite Hp in Hple. cbn [xleb] in Hple.
        assert (Hpos : 0 < p).
        { apply Qnot_le_lt. intro Hle. apply Qle_bool_iff in Hle. congruence. }
        destruct (Hpp Hpos) as (a & rho & Hactu & _ & Hrhoeq & Hre). rewrite Hrhoeq in Hrho. rewrite Hactu.
        apply xltb_fin in Hrho. apply xltb_fin.
        assert (Ha : a == p * (a / p)) by (symmetry; apply Qmult_div_r; lra).
        rewrite Ha. apply Qmult_lt_0_compat; [assumption | lra].
  Qed.

  (* ---- property clause: the iterates handed to the callback have non-increasing cost (exact arithmetic) *)
  Theorem cost_monotone : forall x0 c0 s0, 0 <= c0 ->
    (forall s, reach x0 c0 s0 s -> st s = None -> (iter s < max_iter opts)%nat ->
               exact_oracle (cost s) (orc (iter s))) ->
    let r := run x0 c0 s0 in
    mono (cbs r) /\
    (forall p, In p (cbs r) -> cost r <= snd p /\ snd p <= c0) /\
    cost r <= c0.
  Proof.
    intros x0 c0 s0 Hc0 Horc r.
    assert (Hinv : forall s, reach x0 c0 s0 s -> cost_inv 0 s).
    { intros s Hr. induction Hr as [|s Hr IH Hn Hlt].
      - unfold cost_inv, init; cbn [cost cbs cur hd_error mono_sl]. split; [exact Hc0|split; [reflexivity|exact I]].
      - apply cost_inv_step; [lra | exact IH |].
        apply exact_is_fl; [exact (proj1 IH) | apply Horc; assumption]. }
    destruct (Hinv r (reach_run x0 c0 s0)) as (_ & Hhd & Hm).
    destruct (book_run x0 c0 s0) as (_ & _ & _ & Hlast & _). fold r in Hlast.
    assert (Hall : forall p, In p (cbs r) -> cost r <= snd p /\ snd p <= c0).
    { intros p Hin. destruct (cbs r) as [|a t] eqn:Ec; [destruct Hin|].
      cbn [hd_error] in Hhd. injection Hhd as Ha. split.
      - replace (cost r) with (snd a) by (rewrite Ha; reflexivity).
        apply (mono_head_le_all t a p Hm Hin).
      - pose proof (mono_all_le_last (a :: t) p (x0, c0) Hm Hin) as H. rewrite Hlast in H. exact H. }
    split; [exact Hm|]. split; [exact Hall|].
    destruct (cbs r) as [|a t] eqn:Ec; [discriminate Hhd|].
    cbn [hd_error] in Hhd. injection Hhd as Ha.
    destruct (Hall a (or_introl eq_refl)) as (_ & H). rewrite Ha in H. exact H.
  Qed.
End LoopFacts.

(* ---- the two library strategies: every Delta handed to solve_trust_region is > 0 (so lambda = 1/Delta is a positive
   number, the hypothesis of C10's theorem) and the state left in the shared object satisfies the invariant again *)
Theorem ceres_run_facts : forall {X} opts fixed (orc : nat -> oracle X) x0 c0 s0, ceres_inv s0 ->
  let r := run ceres opts fixed orc x0 c0 s0 in
  ceres_inv (sstate r) /\ Forall (fun e => 0 < e_delta e) (evs r).
Proof.
  intros X opts fixed orc x0 c0 s0 H0 r. split.
  - apply (strategy_invariant ceres opts fixed orc ceres_inv (fun ss rho H => ceres_step_inv ss rho H) x0 c0 s0 H0).
    apply reach_run.
  - apply (deltas_invariant ceres opts fixed orc ceres_inv (fun d => 0 < d)
             (fun ss rho H => ceres_step_inv ss rho H) (fun ss H => proj1 H) x0 c0 s0 H0).
    apply reach_run.
Qed.

Theorem disney_run_facts : forall {X} opts fixed (orc : nat -> oracle X) x0 c0 (d0 : Q), 0 < d0 ->
  let r := run disney opts fixed orc x0 c0 d0 in
  0 < sstate r /\ Forall (fun e => 0 < e_delta e) (evs r).
Proof.
  intros X opts fixed orc x0 c0 d0 H0 r. split.
  - apply (strategy_invariant disney opts fixed orc (fun d => 0 < d) (fun ss rho H => disney_delta_pos ss rho H)
             x0 c0 d0 H0).
    apply reach_run.
  - apply (deltas_invariant disney opts fixed orc (fun d => 0 < d) (fun d => 0 < d)
             (fun ss rho H => disney_delta_pos ss rho H) (fun ss H => H) x0 c0 d0 H0).
    apply reach_run.
Qed.

Theorem cost_monotone_ceres : forall {X} opts fixed (orc : nat -> oracle X) x0 c0 s0, 0 <= c0 ->
  (forall s, reach ceres opts fixed orc x0 c0 s0 s -> st s = None -> (iter s < max_iter opts)%nat ->
             exact_oracle (cost s) (orc (iter s))) ->
  let r := run ceres opts fixed orc x0 c0 s0 in
  mono (cbs r) /\ (forall p, In p (cbs r) -> cost r <= snd p /\ snd p <= c0) /\ cost r <= c0.
Proof. intros X opts fixed orc. exact (cost_monotone ceres opts fixed orc ceres_takes_only_positive). Qed.

Theorem cost_monotone_disney : forall {X} opts fixed (orc : nat -> oracle X) x0 c0 d0, 0 <= c0 ->
  (forall s, reach disney opts fixed orc x0 c0 d0 s -> st s = None -> (iter s < max_iter opts)%nat ->
             exact_oracle (cost s) (orc (iter s))) ->
  let r := run disney opts fixed orc x0 c0 d0 in
  mono (cbs r) /\ (forall p, In p (cbs r) -> cost r <= snd p /\ snd p <= c0) /\ cost r <= c0.
Proof. intros X opts fixed orc. exact (cost_monotone disney opts fixed orc disney_takes_only_positive). Qed.

(* ---- non-vacuity: a concrete three-iteration history (accept with rho = 3/2, reject with rho = -2, zero step
   accepted through pred_red <= 0 and Ptol) whose oracle records satisfy [exact_oracle] *)
Definition ex_opts : options := {| ptol := 1 # 1000000; ftol := 1 # 1000000; max_iter := 10 |}.
Definition ex_o0 : oracle Z :=
  {| o_rn_zero := false; o_actu := Fin (3 # 4); o_pred := Fin (1 # 2); o_rho := Fin (3 # 2); o_dnorm := Fin 1;
     o_n := 2%Z; o_xp := 1%Z; o_cost_new := 1 |}.
Definition ex_o1 : oracle Z :=
  {| o_rn_zero := false; o_actu := Fin (-1); o_pred := Fin (1 # 2); o_rho := Fin (-2); o_dnorm := Fin 1;
     o_n := 2%Z; o_xp := 2%Z; o_cost_new := 2 |}.
Definition ex_o2 : oracle Z :=
  {| o_rn_zero := false; o_actu := Fin 0; o_pred := Fin 0; o_rho := NaN; o_dnorm := Fin 0;
     o_n := 2%Z; o_xp := 3%Z; o_cost_new := 1 |}.
Definition ex_orc := orc_of_list [ex_o0; ex_o1; ex_o2].

Example ex_exact_0 : exact_oracle 4 ex_o0.
Proof.
  split; [discriminate|]. intros _. split; [reflexivity|]. split; [discriminate|].
  exists (1 # 2). split; [reflexivity|]. split; [discriminate|]. split; [discriminate|].
  intros _. exists (3 # 4), (3 # 2). repeat split; reflexivity.
Qed.
Example ex_exact_1 : exact_oracle 1 ex_o1.
Proof.
  split; [discriminate|]. intros _. split; [reflexivity|]. split; [discriminate|].
  exists (1 # 2). split; [reflexivity|]. split; [discriminate|]. split; [discriminate|].
  intros _. exists (-1), (-2). repeat split; reflexivity.
Qed.
Example ex_exact_2 : exact_oracle 1 ex_o2.
Proof.
  split; [discriminate|]. intros _. split; [reflexivity|]. split; [discriminate|].
  exists 0. split; [reflexivity|]. split; [discriminate|]. split; [reflexivity|].
  intros H. discriminate H.
Qed.
Example ex_run :
  let r := replay_ceres ex_opts code_now [ex_o0; ex_o1; ex_o2] 4 ceres_init in
  result_status r = Ptol /\ result_iter r = 3%nat /\ cbs r = [(3%Z, 1); (1%Z, 1); (0%Z, 4)] /\
  map e_stepped (evs r) = [true; false; true] /\ map e_take (evs r) = [false; false; true].
Proof. vm_compute. repeat split; reflexivity. Qed.

(* max_iter = 0: only the initial callback, MaxIters, zero iterations *)
Example ex_maxiter0 :
  let r := replay_ceres {| ptol := 0; ftol := 0; max_iter := 0 |} code_now [] 4 ceres_init in
  result_status r = MaxIters /\ result_iter r = 0%nat /\ cbs r = [(0%Z, 4)].
Proof. vm_compute. repeat split; reflexivity. Qed.

(* the strategy contract is needed: a user strategy that says "take" on rho < 0 makes the cost go up *)
Theorem cost_monotone_without_contract_refuted :
  exists (sc : script) (oc : oracle Z),
    exact_oracle 1 oc /\
    ~ mono (cbs (run scripted ex_opts code_now (orc_of_list [oc]) 0%Z 1 sc)).
Proof.
  exists [(true, 1)], ex_o1. split; [exact ex_exact_1|].
  vm_compute. intros [H _]. apply H. reflexivity.
Qed.

(* ---- the code that exists ([fixed := code_now]): instances of the two zero-residual theorems without the flag *)
Theorem zero_residual_stops : forall {S X} (strat : strategy S) opts (orc : nat -> oracle X) (s : state S X),
  st s = None -> o_rn_zero (orc (iter s)) = true ->
  st (step strat opts code_now (orc (iter s)) s) = Some Ftol /\
  cbs (step strat opts code_now (orc (iter s)) s) = (o_xp (orc (iter s)), o_cost_new (orc (iter s))) :: cbs s.
Proof. intros S X strat opts orc. exact (zero_residual_stops_fixed strat opts code_now orc eq_refl). Qed.

Theorem zero_residual_ends_run : forall {S X} (strat : strategy S) opts (orc : nat -> oracle X) x0 c0 s0,
  let r := run strat opts code_now orc x0 c0 s0 in
  forall i, (i < result_iter r)%nat -> o_rn_zero (orc i) = true ->
    result_iter r = Datatypes.S i /\ result_status r = Ftol.
Proof. intros S X strat opts orc. exact (zero_residual_is_last strat opts code_now orc eq_refl). Qed.

(* ---- HISTORICAL: finding C09-zero-residual-nan (fixed in /repo by 16638da), model side.  The code BEFORE the fix
   ([fixed = false]) with ptol = 0: once the
   residual is exactly zero no convergence test can fire (actu_red, pred_red, rho are 0/0 = NaN), every iteration
   "takes" the zero step through the r_n == 0 branch and the strategy, seeing rho = NaN, shrinks Delta every time.
   After 46 iterations Delta is below 2^-1024, where lambda = 1/Delta overflows binary64 -- in the real code the solver
   then returns NaN and the r_n == 0 branch stores it into the arguments.  All oracle records below satisfy the EXACT
   contract; what breaks on the real code is the assumption that the solver's contract survives lambda = inf. *)
Definition lambda_overflow_radius : Q := 1 # (2 ^ 1024).
Definition spin_opts : options := {| ptol := 0; ftol := 1 # 1000000; max_iter := 60 |}.
Definition spin_oracle : oracle Z :=
  {| o_rn_zero := true; o_actu := NaN; o_pred := NaN; o_rho := NaN; o_dnorm := Fin 0; o_n := 3%Z; o_xp := 0%Z;
     o_cost_new := 0 |}.

Lemma spin_oracle_exact : forall c, c == 0 -> exact_oracle c spin_oracle.
Proof. intros c Hc. split; [intros _; split; [exact Hc|reflexivity] | discriminate]. Qed.

Theorem zero_residual_spin_refuted :
  let r := run ceres spin_opts false (fun _ => spin_oracle) 0%Z 0 ceres_init in
  result_status r = MaxIters /\ result_iter r = 60%nat /\ length (cbs r) = 61%nat /\
  existsb (fun e => e_stepped e && Qltb (e_delta e) lambda_overflow_radius) (evs r) = true.
Proof. vm_compute. repeat split; reflexivity. Qed.

(* the same history on the code that exists stops after one iteration with Ftol (non-vacuity of zero_residual_stops /
   zero_residual_ends_run: i = 0) *)
Example zero_residual_now_example :
  let r := run ceres spin_opts code_now (fun _ => spin_oracle) 0%Z 0 ceres_init in
  result_status r = Ftol /\ result_iter r = 1%nat /\ length (cbs r) = 2%nat.
Proof. vm_compute. repeat split; reflexivity. Qed.
