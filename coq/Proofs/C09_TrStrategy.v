(* C09 proofs, part 1: facts about the trust-region strategies (Model/C09_TrStrategy.v). *)
From Coq Require Import QArith Qabs Bool List ZArith Lqa Lia.
From SV Require Import Model.C09_TrStrategy.
Import ListNotations.
Local Open Scope Q_scope.

(* ---- division in Q *)
Lemma Qdiv_pos : forall a b, 0 < a -> 0 < b -> 0 < a / b.
Proof. intros a b Ha Hb. apply Qlt_shift_div_l; lra. Qed.

Lemma Qdiv_le_den : forall a b c, 0 <= a -> 0 < c -> c <= b -> a / b <= a / c.
Proof.
  intros a b c Ha Hc Hcb. apply Qle_shift_div_l; [exact Hc|].
  setoid_replace (a / b * c) with (a * c / b) by (unfold Qdiv; ring).
  apply Qle_shift_div_r; [lra|]. nra.
Qed.

Lemma Qdiv_lt_den : forall a b c, 0 < a -> 0 < c -> c < b -> a / b < a / c.
Proof.
  intros a b c Ha Hc Hcb. apply Qlt_shift_div_l; [exact Hc|].
  setoid_replace (a / b * c) with (a * c / b) by (unfold Qdiv; ring).
  apply Qlt_shift_div_r; [lra|]. nra.
Qed.

Lemma Qdiv_one : forall a, a / 1 == a.
Proof. intros a. unfold Qdiv. setoid_replace (/ 1) with 1 by reflexivity. ring. Qed.

(* ---- boolean comparisons reflect the order of Q *)
Lemma Qltb_true : forall a b, Qltb a b = true <-> a < b.
Proof.
  intros a b. unfold Qltb. rewrite negb_true_iff.
  split; intro H.
  - apply Qnot_le_lt. intro Hle. apply Qle_bool_iff in Hle. congruence.
  - destruct (Qle_bool b a) eqn:E; [|reflexivity].
    apply Qle_bool_iff in E. exfalso. apply (Qlt_not_le _ _ H E).
Qed.

Lemma Qltb_false : forall a b, Qltb a b = false <-> b <= a.
Proof.
  intros a b. unfold Qltb. rewrite negb_false_iff. apply Qle_bool_iff.
Qed.

Lemma xltb_fin : forall a b, xltb (Fin a) (Fin b) = true <-> a < b.
Proof. intros. cbn [xltb]. apply Qltb_true. Qed.

Lemma xleb_fin : forall a b, xleb (Fin a) (Fin b) = true <-> a <= b.
Proof. intros. cbn [xleb]. apply Qle_bool_iff. Qed.

(* IEEE: nothing is below/above a NaN *)
Lemma xltb_nan_r : forall a, xltb a NaN = false.
Proof. destruct a; reflexivity. Qed.
Lemma xleb_nan_l : forall a, xleb NaN a = false.
Proof. reflexivity. Qed.

(* transitivity of "c < rho" in the constant *)
Lemma xltb_weaken : forall a b rho, a <= b -> xltb (Fin b) rho = true -> xltb (Fin a) rho = true.
Proof.
  intros a b rho Hab H. destruct rho as [r| | |]; cbn [xltb] in *; try congruence.
  apply Qltb_true in H. apply Qltb_true. lra.
Qed.

Lemma c_1em3_pos : 0 < c_1em3.
Proof. reflexivity. Qed.
Lemma c_third_pos : 0 < c_third.
Proof. reflexivity. Qed.
Lemma c_third_le : c_third <= 1 # 3.
Proof. unfold c_third, Qle; cbn. lia. Qed.

Lemma Qmax'_ge_l : forall a b, a <= Qmax' a b.
Proof.
  intros a b. unfold Qmax'. destruct (Qltb a b) eqn:E.
  - apply Qltb_true in E. lra.
  - lra.
Qed.
Lemma Qmax'_le : forall a b c, a <= c -> b <= c -> Qmax' a b <= c.
Proof. intros a b c Ha Hb. unfold Qmax'. destruct (Qltb a b); assumption. Qed.

(* ---- the contract minimize relies on (optim.hpp:139 with DESIGN C09): a strategy only says "take the step"
   when rho is a number greater than 0 *)
Definition takes_only_positive {S} (st : strategy S) : Prop :=
  forall s rho, fst (step_and_update st s rho) = true -> xltb (Fin 0) rho = true.

(* ---- CeresStrategy *)
Definition ceres_inv (s : ceres_state) : Prop := 0 < c_delta s /\ 2 <= c_reduce s.

Lemma ceres_init_inv : ceres_inv ceres_init.
Proof. split; cbn; lra. Qed.

Lemma ceres_take_iff : forall s rho,
  fst (ceres_step s rho) = true <-> xltb (Fin c_1em3) rho = true.
Proof.
  intros s rho. unfold ceres_step. destruct (xltb (Fin c_1em3) rho); cbn; split; congruence.
Qed.

Lemma ceres_takes_only_positive : takes_only_positive ceres.
Proof.
  intros s rho H. cbn in H. apply ceres_take_iff in H.
  apply (xltb_weaken 0 c_1em3); [apply Qlt_le_weak, c_1em3_pos | exact H].
Qed.

(* the divisor of Delta on acceptance lies in [1/3 (as a double), 2) *)
Lemma ceres_divisor_bounds : forall rho,
  xltb (Fin c_1em3) rho = true -> c_third <= ceres_divisor rho /\ ceres_divisor rho < 2.
Proof.
  intros rho H. destruct rho as [r| | |]; cbn [ceres_divisor].
  - apply xltb_fin in H. split; [apply Qmax'_ge_l|].
    assert (Hr : 0 < r) by (pose proof c_1em3_pos; lra).
    apply Qle_lt_trans with (y := Qmax' c_third (1 - (2 * r - 1) * (2 * r - 1) * (2 * r - 1))); [lra|].
    unfold Qmax'. destruct (Qltb _ _) eqn:E.
    + (* 1 - t^3 < 2 because t > -1 *)
      set (t := 2 * r - 1). assert (Ht : -1 < t) by (unfold t; lra).
      assert (H0 : 0 < t * t - t + 1) by nra.
      assert (H1 : 0 < (t + 1) * (t * t - t + 1)) by (apply Qmult_lt_0_compat; lra).
      nra.
    + pose proof c_third_le. lra.
  - split; [lra | pose proof c_third_le; lra].
  - discriminate H.
  - discriminate H.
Qed.

Lemma ceres_step_inv : forall s rho, ceres_inv s -> ceres_inv (snd (ceres_step s rho)).
Proof.
  intros s rho [Hd Hr]. unfold ceres_inv, ceres_step.
  destruct (xltb (Fin c_1em3) rho) eqn:E; cbn [snd c_delta c_reduce]; rewrite ?Qred_correct.
  - destruct (ceres_divisor_bounds rho E) as [Hlo _]. pose proof c_third_pos as Hp.
    split; [|lra]. apply Qdiv_pos; lra.
  - split; [apply Qdiv_pos; lra | lra].
Qed.

(* Delta > 0 is preserved by every call *)
Lemma ceres_delta_pos : forall s rho, ceres_inv s -> 0 < get_delta ceres (snd (step_and_update ceres s rho)).
Proof. intros s rho H. exact (proj1 (ceres_step_inv s rho H)). Qed.

(* a rejection at least halves Delta, hence strictly shrinks it; and doubles the next reduction factor *)
Lemma ceres_reject_shrinks : forall s rho, ceres_inv s ->
  fst (ceres_step s rho) = false ->
  c_delta (snd (ceres_step s rho)) <= c_delta s / 2 /\
  c_delta (snd (ceres_step s rho)) < c_delta s /\
  c_reduce (snd (ceres_step s rho)) == 2 * c_reduce s.
Proof.
  intros s rho [Hd Hr] H. unfold ceres_step in *. destruct (xltb (Fin c_1em3) rho); [discriminate H|].
  cbn [snd c_delta c_reduce]. rewrite !Qred_correct.
  assert (Hq : c_delta s / c_reduce s <= c_delta s / 2) by (apply Qdiv_le_den; lra).
  split; [exact Hq|]. split; [|ring].
  apply Qle_lt_trans with (1 := Hq). apply Qlt_shift_div_r; lra.
Qed.

(* an acceptance changes Delta by a factor in (1/2, 3.0000000000000004] and resets the reduction factor *)
Lemma ceres_accept_bounds : forall s rho, ceres_inv s ->
  fst (ceres_step s rho) = true ->
  c_delta s / 2 < c_delta (snd (ceres_step s rho)) /\
  c_delta (snd (ceres_step s rho)) <= c_delta s / c_third /\
  c_reduce (snd (ceres_step s rho)) = 2.
Proof.
  intros s rho [Hd Hr] H. unfold ceres_step in *. destruct (xltb (Fin c_1em3) rho) eqn:E; [|discriminate H].
  cbn [snd c_delta c_reduce]. rewrite !Qred_correct.
  destruct (ceres_divisor_bounds rho E) as [Hlo Hhi]. pose proof c_third_pos as Hp.
  repeat split.
  - apply Qdiv_lt_den; lra.
  - apply Qdiv_le_den; lra.
Qed.

(* ---- DisneyStrategy *)
Lemma disney_take_iff : forall d rho, fst (disney_step d rho) = true <-> xltb (Fin 0) rho = true.
Proof. intros d rho. unfold disney_step. destruct (xltb (Fin 0) rho); cbn; split; congruence. Qed.

Lemma disney_takes_only_positive : takes_only_positive disney.
Proof. intros s rho H. cbn in H. apply disney_take_iff in H. exact H. Qed.

Lemma disney_delta_pos : forall d rho, 0 < d -> 0 < get_delta disney (snd (step_and_update disney d rho)).
Proof.
  intros d rho Hd. cbn. unfold disney_step. destruct (xltb (Fin 0) rho); cbn [snd].
  - reflexivity.
  - rewrite Qred_correct. apply Qdiv_pos; lra.
Qed.

Lemma disney_reject_shrinks : forall d rho, 0 < d ->
  fst (disney_step d rho) = false ->
  snd (disney_step d rho) == d / 10 /\ snd (disney_step d rho) < d.
Proof.
  intros d rho Hd H. unfold disney_step in *. destruct (xltb (Fin 0) rho); [discriminate H|].
  cbn [snd]. rewrite Qred_correct. split; [reflexivity|]. apply Qlt_shift_div_r; lra.
Qed.

Lemma disney_accept_resets : forall d rho, fst (disney_step d rho) = true -> snd (disney_step d rho) = 1000.
Proof. intros d rho H. unfold disney_step in *. destruct (xltb (Fin 0) rho); [reflexivity|discriminate H]. Qed.

(* ---- both strategies reject NaN / -inf / non-positive rho: a step that increases the cost while the model
   predicts a decrease is never "taken" by the strategy *)
Lemma ceres_rejects_nan : forall s, fst (ceres_step s NaN) = false.
Proof. reflexivity. Qed.
Lemma disney_rejects_nan : forall d, fst (disney_step d NaN) = false.
Proof. reflexivity. Qed.

(* non-vacuity *)
Example ceres_accept_example :
  ceres_step ceres_init (Fin 1) = (true, {| c_delta := Qred (10000 / c_third); c_reduce := 2 |}).
Proof. reflexivity. Qed.
Example ceres_reject_example :
  ceres_step ceres_init (Fin (-1)) = (false, {| c_delta := 5000; c_reduce := 4 |}).
Proof. reflexivity. Qed.
Example ceres_inf_example : fst (ceres_step ceres_init PInf) = true /\ fst (ceres_step ceres_init NInf) = false.
Proof. split; reflexivity. Qed.
Example disney_examples :
  disney_step disney_init (Fin (1 # 2)) = (true, 1000) /\ disney_step disney_init (Fin 0) = (false, 100).
Proof. split; reflexivity. Qed.
(* a scripted (user) strategy need not satisfy the contract *)
Example scripted_breaks_contract : ~ takes_only_positive scripted.
Proof. intro H. specialize (H [(true, 1)] (Fin (-1)) eq_refl). discriminate H. Qed.
