(* C10 - the exact model of solve_linear_ldlt / solve_trust_region (Model/C10_Assembly.v) assembles the
   normal equations (J'J + lambda D^2) x = -J'r, hence (C10_LinAlg) returns the unique minimiser. *)
From Coq Require Import List QArith Qreals Reals Lra Lia Arith PeanoNat Bool.
From Coquelicot Require Import Coquelicot.
From SV Require Import Model.C10_Assembly Proofs.C10_LinAlg Proofs.C10_Dphi.
Import ListNotations.

(* ---- lists -------------------------------------------------------------------------------------- *)
Lemma nth_tab {A} n (f : nat -> A) i dflt : (i < n)%nat -> nth i (tab n f) dflt = f i.
Proof.
  intros Hi. unfold tab. rewrite (nth_indep _ dflt (f 0%nat)) by (rewrite map_length, seq_length; exact Hi).
  rewrite map_nth, seq_nth by exact Hi. reflexivity.
Qed.

Lemma tab_length {A} n (f : nat -> A) : length (tab n f) = n.
Proof. unfold tab. rewrite map_length, seq_length. reflexivity. Qed.

Lemma upd_length {A} (l : list A) i v : length (upd l i v) = length l.
Proof. revert i; induction l as [|h t IH]; intros [|i]; cbn [upd length]; auto. Qed.

Lemma nth_upd {A} (l : list A) i v a dflt : (i < length l)%nat ->
  nth a (upd l i v) dflt = if Nat.eqb a i then v else nth a l dflt.
Proof.
  revert i a; induction l as [|h t IH]; intros i a Hi; cbn [length] in Hi; [lia|].
  destruct i as [|i], a as [|a]; cbn [upd nth Nat.eqb]; try reflexivity.
  apply IH. lia.
Qed.

Definition shape (n : nat) (M : list (list Q)) : Prop :=
  length M = n /\ forall i, (i < n)%nat -> length (nth i M nil) = n.

Lemma shape_mupd n M i j v : shape n M -> (i < n)%nat -> (j < n)%nat -> shape n (mupd M i j v).
Proof.
  intros [HL HR] Hi Hj. unfold mupd. split; [rewrite upd_length; exact HL|].
  intros a Ha. rewrite nth_upd by lia. destruct (Nat.eqb_spec a i) as [->|]; [|apply HR; exact Ha].
  rewrite upd_length. apply HR; exact Hi.
Qed.

Lemma mnth_mupd n M i j v a b : shape n M -> (i < n)%nat -> (j < n)%nat ->
  mnth (mupd M i j v) a b = if Nat.eqb a i && Nat.eqb b j then v else mnth M a b.
Proof.
  intros [HL HR] Hi Hj. unfold mnth, mupd. rewrite nth_upd by lia.
  destruct (Nat.eqb_spec a i) as [->|]; cbn [andb]; [|reflexivity].
  rewrite nth_upd by (rewrite HR; assumption). reflexivity.
Qed.

Lemma shape_JtJ m n J : shape n (JtJ m n J).
Proof.
  unfold JtJ. split; [apply tab_length|]. intros i Hi. rewrite nth_tab by exact Hi. apply tab_length.
Qed.

Lemma mnth_JtJ m n J k j : (k < n)%nat -> (j < n)%nat ->
  mnth (JtJ m n J) k j = sumQ m (fun i => mnth J i k * mnth J i j)%Q.
Proof. intros Hk Hj. unfold mnth at 1, JtJ. rewrite nth_tab, nth_tab by assumption. reflexivity. Qed.

(* the loop tr_solver.hpp:68 over an arbitrary list of distinct in-range indices *)
Lemma diag_fold_spec n lam d (idx : list nat) : forall H, shape n H -> NoDup idx ->
  (forall i, In i idx -> (i < n)%nat) ->
  let H' := fold_left (fun H i => mupd H i i (Qred (mnth H i i + lam * vnth d i * vnth d i))) idx H in
  shape n H' /\
  forall k j, mnth H' k j =
     if Nat.eqb k j && existsb (Nat.eqb k) idx
     then Qred (mnth H k k + lam * vnth d k * vnth d k)%Q else mnth H k j.
Proof.
  induction idx as [|i idx IH]; intros H Hs Hnd Hin; cbn [fold_left existsb].
  - split; [exact Hs|]. intros k j. rewrite andb_false_r. reflexivity.
  - inversion Hnd as [|? ? Hni Hnd']; subst.
    assert (Hi : (i < n)%nat) by (apply Hin; left; reflexivity).
    pose proof (shape_mupd n H i i (Qred (mnth H i i + lam * vnth d i * vnth d i)) Hs Hi Hi) as Hs1.
    destruct (IH _ Hs1 Hnd' (fun a Ha => Hin a (or_intror Ha))) as [Hs2 Hval].
    split; [exact Hs2|]. intros k j. rewrite Hval.
    rewrite !(mnth_mupd n H i i _ _ _ Hs Hi Hi).
    destruct (Nat.eqb_spec k j) as [->|Hkj]; cbn [andb].
    + destruct (Nat.eqb_spec j i) as [->|Hji]; cbn [andb orb].
      * assert (Hex : existsb (Nat.eqb i) idx = false).
        { destruct (existsb (Nat.eqb i) idx) eqn:E; [|reflexivity].
          apply existsb_exists in E. destruct E as [a [Ha Ea]]. apply Nat.eqb_eq in Ea. subst a. contradiction. }
        rewrite Hex. reflexivity.
      * reflexivity.
    + destruct (Nat.eqb_spec k i) as [->|]; cbn [andb]; [|reflexivity].
      destruct (Nat.eqb_spec j i); [lia|reflexivity].
Qed.

Lemma existsb_seq k n : (k < n)%nat -> existsb (Nat.eqb k) (seq 0 n) = true.
Proof. intros Hk. apply existsb_exists. exists k. split; [apply in_seq; lia|apply Nat.eqb_refl]. Qed.

Lemma mnth_assemble_H m n J d lam k j : (k < n)%nat -> (j < n)%nat ->
  mnth (assemble_H m n J d lam) k j =
  if Nat.eqb k j then Qred (sumQ m (fun i => mnth J i k * mnth J i k) + lam * vnth d k * vnth d k)%Q
  else sumQ m (fun i => mnth J i k * mnth J i j)%Q.
Proof.
  intros Hk Hj. unfold assemble_H, diag_update.
  destruct (diag_fold_spec n lam d (seq 0 n) (JtJ m n J) (shape_JtJ m n J) (seq_NoDup n 0)
              (fun i Hi => proj2 (proj1 (in_seq n 0 i) Hi))) as [_ Hv].
  rewrite Hv, (existsb_seq k n Hk), andb_true_r, !mnth_JtJ by assumption. reflexivity.
Qed.

Lemma shape_assemble_H m n J d lam : shape n (assemble_H m n J d lam).
Proof.
  unfold assemble_H, diag_update.
  exact (proj1 (diag_fold_spec n lam d (seq 0 n) (JtJ m n J) (shape_JtJ m n J) (seq_NoDup n 0)
              (fun i Hi => proj2 (proj1 (in_seq n 0 i) Hi)))).
Qed.

(* ---- lifting Q -> R ------------------------------------------------------------------------------ *)
Open Scope R_scope.

Definition vR (v : list Q) : nat -> R := fun j => Q2R (vnth v j).
Definition mR (M : list (list Q)) : nat -> nat -> R := fun i j => Q2R (mnth M i j).

Lemma Q2R_Qred q : Q2R (Qred q) = Q2R q.
Proof. apply Qeq_eqR, Qred_correct. Qed.

Lemma Q2R_sumQ n f : Q2R (sumQ n f) = sumn n (fun i => Q2R (f i)).
Proof.
  induction n as [|n IH]; cbn [sumQ sumn]; [apply RMicromega.Q2R_0|].
  rewrite Q2R_Qred, Q2R_plus, IH. reflexivity.
Qed.

Lemma assemble_H_R m n J d lam k j : (k < n)%nat -> (j < n)%nat ->
  Q2R (mnth (assemble_H m n J d lam) k j) = Hm m (mR J) (vR d) (Q2R lam) k j.
Proof.
  intros Hk Hj. rewrite mnth_assemble_H by assumption. unfold Hm, mR, vR.
  destruct (Nat.eqb_spec k j) as [->|].
  - rewrite Q2R_Qred, Q2R_plus, Q2R_sumQ, !Q2R_mult. f_equal.
    apply sumn_ext; intros; apply Q2R_mult.
  - rewrite Q2R_sumQ, Rplus_0_r. apply sumn_ext; intros; apply Q2R_mult.
Qed.

Lemma rhs_R m n J r k : (k < n)%nat -> Q2R (vnth (rhs m n J r) k) = bv m (mR J) (vR r) k.
Proof.
  intros Hk. unfold rhs, vnth at 1. rewrite nth_tab by exact Hk. unfold bv, mR, vR.
  rewrite Q2R_sumQ.
  transitivity (sumn m (fun i => (-1) * (Q2R (mnth J i k) * Q2R (vnth r i)))).
  - apply sumn_ext; intros. rewrite Q2R_mult, Q2R_opp. ring.
  - rewrite sumn_scal. ring.
Qed.

(* what "x solves H x = b exactly" means for the model's lists *)
Definition solves (n : nat) (H : list (list Q)) (b x : list Q) : Prop :=
  forall k, (k < n)%nat -> (sumQ n (fun j => mnth H k j * vnth x j) == vnth b k)%Q.

Lemma solves_assemble_R m n J d lam b x : solves n (assemble_H m n J d lam) b x ->
  forall k, (k < n)%nat -> Hv m n (mR J) (vR d) (Q2R lam) (vR x) k = Q2R (vnth b k).
Proof.
  intros Hs k Hk. rewrite <- (Qeq_eqR _ _ (Hs k Hk)), Q2R_sumQ. unfold Hv.
  apply sumn_ext; intros j Hj. rewrite Q2R_mult, assemble_H_R by assumption. reflexivity.
Qed.

Lemma solves_normal_eq m n J d r lam x : solves n (assemble_H m n J d lam) (rhs m n J r) x ->
  normal_eq m n (mR J) (vR d) (Q2R lam) (vR r) (vR x).
Proof.
  intros Hs k Hk. rewrite (solves_assemble_R m n J d lam _ x Hs k Hk). apply rhs_R; exact Hk.
Qed.

Lemma dposQ_R n d : (forall j, (j < n)%nat -> (0 < vnth d j)%Q) -> dpos n (vR d).
Proof. intros H j Hj. unfold vR. rewrite <- RMicromega.Q2R_0. apply Qlt_Rlt, H, Hj. Qed.

Lemma lam_pos_R lam : (0 < lam)%Q -> 0 < Q2R lam.
Proof. intros H. rewrite <- RMicromega.Q2R_0. apply Qlt_Rlt, H. Qed.

(* ---- the assembled matrix is symmetric positive definite (over Q) -------------------------------- *)
Definition spdQ (n : nat) (H : list (list Q)) : Prop :=
  (forall k j, (k < n)%nat -> (j < n)%nat -> (mnth H k j == mnth H j k)%Q) /\
  (forall u : nat -> Q, (exists j, (j < n)%nat /\ ~ (u j == 0)%Q) ->
     (0 < sumQ n (fun k => u k * sumQ n (fun j => mnth H k j * u j)))%Q).

Theorem assemble_H_spd m n J d lam : (0 < lam)%Q -> (forall j, (j < n)%nat -> (0 < vnth d j)%Q) ->
  spdQ n (assemble_H m n J d lam).
Proof.
  intros Hl Hd. split.
  - intros k j Hk Hj. apply eqR_Qeq. rewrite !assemble_H_R by assumption. apply Hm_sym.
  - intros u [j [Hj Hu]]. apply Rlt_Qlt. rewrite RMicromega.Q2R_0, Q2R_sumQ.
    rewrite (sumn_ext n _ (fun k => Q2R (u k) * Hv m n (mR J) (vR d) (Q2R lam) (fun j => Q2R (u j)) k)).
    + apply H_spd; [apply lam_pos_R; exact Hl|apply dposQ_R; exact Hd|].
      exists j. split; [exact Hj|]. intros E. apply Hu. apply eqR_Qeq. rewrite E, RMicromega.Q2R_0. reflexivity.
    + intros k Hk. rewrite Q2R_mult, Q2R_sumQ. f_equal. unfold Hv. apply sumn_ext; intros j' Hj'.
      rewrite Q2R_mult, assemble_H_R by assumption. reflexivity.
Qed.

(* ---- the model's dphi pair --------------------------------------------------------------------- *)
Definition model_Dx (n : nat) (d x : list Q) : list Q := tab n (fun j => (- (vnth d j * vnth x j))%Q).
Definition model_dq (n : nat) (d x : list Q) : list Q :=
  tab n (fun j => (vnth d j * vnth (model_Dx n d x) j)%Q).

Lemma model_Dx_R n d x j : (j < n)%nat -> Q2R (vnth (model_Dx n d x) j) = Dx_code (vR d) (vR x) j.
Proof.
  intros Hj. unfold model_Dx, vnth at 1. rewrite nth_tab by exact Hj.
  unfold Dx_code, vR. rewrite Q2R_opp, Q2R_mult. reflexivity.
Qed.

Lemma model_dq_R n d x j : (j < n)%nat -> Q2R (vnth (model_dq n d x) j) = dq_code (vR d) (vR x) j.
Proof.
  intros Hj. unfold model_dq, vnth at 1. rewrite nth_tab by exact Hj.
  rewrite Q2R_mult, model_Dx_R by exact Hj. reflexivity.
Qed.

(* the real number the code's dphi denotes, from the model's (numerator, radicand) pair *)
Definition dphi_of_pair (num sq : Q) : R :=
  if Rlt_dec 0 (Q2R sq) then Q2R num / sqrt (Q2R sq) else Q2R num.

Section Contract.
(* Eigen's LDLT / SimplicialLDLT (tr_solver.hpp:65,70): for a symmetric positive definite H,
   ldlt(H).solve(b) solves H x = b.  Checked at run time by the harness (backward error clause). *)
Variable solve : list (list Q) -> list Q -> list Q.
Hypothesis solve_ok : forall n H b, shape n H -> length b = n -> spdQ n H -> solves n H b (solve H b).

Variables (m n : nat) (J : list (list Q)) (d r : list Q) (lam : Q).
Hypothesis lam_pos : (0 < lam)%Q.
Hypothesis d_pos : forall j, (j < n)%nat -> (0 < vnth d j)%Q.

Let out := solve_linear_ldlt solve m n J d r lam.

Lemma out_x_solves : solves n (assemble_H m n J d lam) (rhs m n J r) (out_x out).
Proof.
  unfold out, solve_linear_ldlt; cbn [out_x].
  apply solve_ok; [apply shape_assemble_H|apply tab_length|apply assemble_H_spd; assumption].
Qed.

Lemma out_y_solves : solves n (assemble_H m n J d lam) (model_dq n d (out_x out)) (out_y out).
Proof.
  unfold out, solve_linear_ldlt; cbn [out_x out_y].
  apply solve_ok; [apply shape_assemble_H|apply tab_length|apply assemble_H_spd; assumption].
Qed.

Theorem model_normal_eq : normal_eq m n (mR J) (vR d) (Q2R lam) (vR r) (vR (out_x out)).
Proof. apply solves_normal_eq, out_x_solves. Qed.

End Contract.

(* ---- consequences for any output whose two solves are exact (contract or certificate) ----------- *)
Section Consequences.
Variables (m n : nat) (J : list (list Q)) (d r : list Q) (lam : Q) (o : sll_out).
Hypothesis lam_pos : (0 < lam)%Q.
Hypothesis d_pos : forall j, (j < n)%nat -> (0 < vnth d j)%Q.
Hypothesis x_ok : solves n (assemble_H m n J d lam) (rhs m n J r) (out_x o).

Let JR := mR J. Let dR := vR d. Let rR := vR r. Let lR := Q2R lam. Let xR := vR (out_x o).

Lemma cons_normal_eq : normal_eq m n JR dR lR rR xR.
Proof. apply solves_normal_eq, x_ok. Qed.

Theorem cons_minimiser : forall y, phi m n JR dR lR rR xR <= phi m n JR dR lR rR y.
Proof. apply normal_eq_minimiser; [left; apply lam_pos_R; exact lam_pos|apply cons_normal_eq]. Qed.

Theorem cons_unique : forall y, phi m n JR dR lR rR y <= phi m n JR dR lR rR xR ->
  forall j, (j < n)%nat -> y j = xR j.
Proof.
  apply minimiser_unique; [apply lam_pos_R; exact lam_pos|apply dposQ_R; exact d_pos|apply cons_normal_eq].
Qed.

Theorem cons_descent : sqrt (res2 m n JR rR xR) <= sqrt (sumn m (fun i => rR i * rR i)).
Proof. apply (descent m n JR dR lR); [left; apply lam_pos_R; exact lam_pos|apply cons_normal_eq]. Qed.

Theorem cons_pred_red_nonneg : 0 <= sumn m (fun i => rR i * rR i) - res2 m n JR rR xR.
Proof. apply (pred_red_nonneg m n JR dR lR); [left; apply lam_pos_R; exact lam_pos|apply cons_normal_eq]. Qed.

Theorem cons_pred_red_zero_iff :
  sumn m (fun i => rR i * rR i) - res2 m n JR rR xR = 0 <-> forall j, (j < n)%nat -> xR j = 0.
Proof.
  apply (pred_red_zero_iff_dx_zero m n JR dR lR);
    [apply lam_pos_R; exact lam_pos|apply dposQ_R; exact d_pos|apply cons_normal_eq].
Qed.

(* dphi: the model's second solve and post-processing *)
Hypothesis y_ok : solves n (assemble_H m n J d lam) (model_dq n d (out_x o)) (out_y o).
Hypothesis num_def :
  out_dphi_num o = (- sumQ n (fun j => vnth d j * vnth (model_Dx n d (out_x o)) j * vnth (out_y o) j))%Q.
Hypothesis sq_def :
  out_dphi_sq o = sumQ n (fun j => vnth (model_Dx n d (out_x o)) j * vnth (model_Dx n d (out_x o)) j)%Q.

Lemma cons_dphi_value : dphi_of_pair (out_dphi_num o) (out_dphi_sq o) = dphi_code n dR xR (vR (out_y o)).
Proof.
  rewrite dphi_code_pair. unfold dphi_of_pair.
  assert (Es : Q2R (out_dphi_sq o) = dphi_sq n dR xR).
  { rewrite sq_def, Q2R_sumQ. unfold dphi_sq, sqnorm. apply sumn_ext; intros j Hj.
    rewrite Q2R_mult, model_Dx_R by exact Hj. reflexivity. }
  assert (En : Q2R (out_dphi_num o) = dphi_num n dR xR (vR (out_y o))).
  { rewrite num_def, Q2R_opp, Q2R_sumQ. unfold dphi_num. f_equal. apply sumn_ext; intros j Hj.
    rewrite !Q2R_mult, model_Dx_R by exact Hj. reflexivity. }
  rewrite Es, En. reflexivity.
Qed.

Lemma dphi_code_ext xa xb y : (forall j, (j < n)%nat -> xa j = xb j) ->
  dphi_code n dR xa y = dphi_code n dR xb y.
Proof.
  intros E.
  assert (Esq : sqnorm n (Dx_code dR xa) = sqnorm n (Dx_code dR xb)).
  { unfold sqnorm, Dx_code. apply sumn_ext; intros j Hj. rewrite (E j Hj). reflexivity. }
  unfold dphi_code. f_equal. apply sumn_ext; intros j Hj.
  unfold normalized. rewrite Esq. unfold Dx_code. rewrite (E j Hj). reflexivity.
Qed.

(* for every differentiable curve of solutions of the normal equations (lambda varying, everything else
   fixed), the model's dphi is the derivative of |D x(lambda)| at lambda = lam *)
Theorem cons_dphi_correct (xc : R -> nat -> R) (xc' : nat -> R) :
  (forall l, 0 < l -> normal_eq m n JR dR l rR (xc l)) ->
  (forall j, (j < n)%nat -> is_derive (fun l => xc l j) lR (xc' j)) ->
  is_derive (fun l => sqrt (reg2 n dR (xc l))) lR (dphi_of_pair (out_dphi_num o) (out_dphi_sq o)).
Proof.
  intros Hsol Hder.
  assert (Hl : 0 < lR) by (apply lam_pos_R; exact lam_pos).
  assert (Hd : dpos n dR) by (apply dposQ_R; exact d_pos).
  assert (Ex : forall j, (j < n)%nat -> xc lR j = xR j).
  { intros j Hj. symmetry.
    exact (normal_eq_unique m n JR dR lR rR (xc lR) xR Hl Hd (Hsol lR Hl) cons_normal_eq j Hj). }
  rewrite cons_dphi_value, <- (dphi_code_ext (xc lR) xR _ Ex).
  apply (dphi_correct m n JR dR rR xc xc' lR Hl Hd Hsol Hder).
  intros k Hk. pose proof (solves_assemble_R m n J d lam _ _ y_ok k Hk) as E1.
  rewrite model_dq_R in E1 by exact Hk.
  unfold dq_code, Dx_code. rewrite (Ex k Hk). exact E1.
Qed.

End Consequences.
