(* C10 - colwise_norm (math.hpp:28-46): the sparse branch and the dense branch compute the same column
   norms; both are the square roots of sum_i M(i,j)^2 (the model returns the radicands). *)
From Coq Require Import List QArith Lia Arith PeanoNat Bool Setoid.
From SV Require Import Model.C10_Assembly Proofs.C10_AssemblyProofs.
Import ListNotations.
Open Scope Q_scope.

Definition e_col (e : sp_entry) : nat := snd (fst e).
Definition e_sq (e : sp_entry) : Q := snd e * snd e.
Definition lsum (l : list Q) : Q := fold_right Qplus 0 l.
Definition sp_step (ret : list Q) (e : sp_entry) : list Q :=
  let '(_, c, v) := e in upd ret c (Qred (vnth ret c + 1 * v * v)).

Lemma lsum_app l a : lsum (l ++ [a]) == lsum l + a.
Proof. induction l as [|h t IH]; cbn [app lsum fold_right]; [ring|]. fold (lsum (t ++ [a])). rewrite IH. fold (lsum t). ring. Qed.

Lemma vnth_upd (l : list Q) i v a : (i < length l)%nat ->
  vnth (upd l i v) a = if Nat.eqb a i then v else vnth l a.
Proof. intros Hi. unfold vnth. apply nth_upd; exact Hi. Qed.

Lemma inner_fold es : forall ret c, (c < length ret)%nat -> (forall e, In e es -> e_col e = c) ->
  let ret' := fold_left sp_step es ret in
  length ret' = length ret /\ (forall a, a <> c -> vnth ret' a = vnth ret a) /\
  vnth ret' c == vnth ret c + lsum (map e_sq es).
Proof.
  induction es as [|[[r0 c0] v] es IH]; intros ret c Hc Hcol; cbn [fold_left map lsum fold_right].
  - repeat split; [ring].
  - assert (E0 : c0 = c) by (apply (Hcol (r0, c0, v)); left; reflexivity). subst c0.
    cbn [sp_step].
    set (ret1 := upd ret c (Qred (vnth ret c + 1 * v * v))).
    assert (L1 : length ret1 = length ret) by apply upd_length.
    destruct (IH ret1 c ltac:(rewrite L1; exact Hc) (fun e He => Hcol e (or_intror He))) as [HL [Hoth Hc']].
    repeat split.
    + rewrite HL. exact L1.
    + intros a Ha. rewrite (Hoth a Ha). unfold ret1. rewrite vnth_upd by exact Hc.
      destruct (Nat.eqb_spec a c); [contradiction|reflexivity].
    + rewrite Hc'. unfold ret1. rewrite vnth_upd, Nat.eqb_refl by exact Hc.
      rewrite Qred_correct. fold (lsum (map e_sq es)). unfold e_sq at 2; cbn [snd]. ring.
Qed.

Lemma outer_fold (g : nat -> list sp_entry) (js : list nat) : forall ret,
  NoDup js -> (forall j, In j js -> (j < length ret)%nat) ->
  (forall j e, In e (g j) -> e_col e = j) ->
  let ret' := fold_left (fun ret outer => fold_left sp_step outer ret) (map g js) ret in
  length ret' = length ret /\
  forall a, vnth ret' a == if existsb (Nat.eqb a) js then vnth ret a + lsum (map e_sq (g a)) else vnth ret a.
Proof.
  induction js as [|j js IH]; intros ret Hnd Hlt Hg; cbn [map fold_left existsb].
  - split; [reflexivity|intros; reflexivity].
  - inversion Hnd as [|? ? Hnj Hnd']; subst.
    destruct (inner_fold (g j) ret j (Hlt j (or_introl eq_refl)) (Hg j)) as [L1 [Hoth Hj]].
    set (ret1 := fold_left sp_step (g j) ret) in *.
    destruct (IH ret1 Hnd' (fun a Ha => ltac:(rewrite L1; exact (Hlt a (or_intror Ha)))) Hg) as [L2 Hv].
    split; [rewrite L2; exact L1|]. intros a. rewrite Hv.
    destruct (Nat.eqb_spec a j) as [->|Hne]; cbn [orb].
    + assert (Hex : existsb (Nat.eqb j) js = false).
      { destruct (existsb (Nat.eqb j) js) eqn:E; [|reflexivity].
        apply existsb_exists in E. destruct E as [b [Hb Eb]]. apply Nat.eqb_eq in Eb. subst b. contradiction. }
      rewrite Hex. exact Hj.
    + rewrite (Hoth a Hne). reflexivity.
Qed.

Lemma lsum_filter_nz (l : list sp_entry) :
  lsum (map e_sq (filter (fun e : sp_entry => negb (Qeq_bool (snd e) 0)) l)) == lsum (map e_sq l).
Proof.
  induction l as [|e l IH]; cbn [filter map lsum fold_right]; [reflexivity|].
  destruct (Qeq_bool (snd e) 0) eqn:E; cbn [negb map lsum fold_right].
  - apply Qeq_bool_eq in E. fold (lsum (map e_sq l)). rewrite IH. unfold e_sq at 2. rewrite E. ring.
  - fold (lsum (map e_sq l)) in *.
    fold (lsum (map e_sq (filter (fun e : sp_entry => negb (Qeq_bool (snd e) 0)) l))). rewrite IH. reflexivity.
Qed.

Lemma lsum_tab_col m M j :
  lsum (map e_sq (tab m (fun i => (i, j, mnth M i j)))) == sumQ m (fun i => mnth M i j * mnth M i j).
Proof.
  induction m as [|m IH]; [reflexivity|].
  unfold tab in *. rewrite seq_S, !map_app. cbn [map plus]. rewrite lsum_app, IH.
  cbn [sumQ]. rewrite Qred_correct. unfold e_sq; cbn [snd]. reflexivity.
Qed.

Lemma vnth_repeat0 n a : vnth (repeat 0 n) a = 0.
Proof. unfold vnth. revert a; induction n as [|n IH]; intros [|a]; cbn [repeat nth]; auto. Qed.

Theorem colwise_sparse_eq_dense m n M j : (j < n)%nat ->
  vnth (colwise_sqnorm_sparse n (to_sparse m n M)) j == vnth (colwise_sqnorm_dense m n M) j.
Proof.
  intros Hj.
  pose (g := fun j => filter (fun e : sp_entry => negb (Qeq_bool (snd e) 0)) (tab m (fun i => (i, j, mnth M i j)))).
  assert (Hg : forall j e, In e (g j) -> e_col e = j).
  { intros j0 e He. unfold g in He. apply filter_In in He. destruct He as [He _].
    unfold tab in He. apply in_map_iff in He. destruct He as [i [<- _]]. reflexivity. }
  destruct (outer_fold g (seq 0 n) (repeat 0 n) (seq_NoDup n 0)
             (fun a Ha => ltac:(rewrite repeat_length; apply in_seq in Ha; lia)) Hg) as [_ Hv].
  change (fold_left _ (map g (seq 0 n)) (repeat 0 n)) with (colwise_sqnorm_sparse n (to_sparse m n M)) in Hv.
  rewrite Hv, (existsb_seq j n Hj), vnth_repeat0.
  unfold g. rewrite lsum_filter_nz, lsum_tab_col.
  unfold colwise_sqnorm_dense. unfold vnth. rewrite nth_tab by exact Hj. ring.
Qed.

Theorem colwise_dense_nonneg m n M j : (j < n)%nat -> 0 <= vnth (colwise_sqnorm_dense m n M) j.
Proof.
  intros Hj. unfold colwise_sqnorm_dense, vnth. rewrite nth_tab by exact Hj.
  induction m as [|m IH]; cbn [sumQ]; [apply Qle_refl|].
  rewrite Qred_correct.
  assert (H2 : 0 <= mnth M m j * mnth M m j).
  { destruct (Qlt_le_dec (mnth M m j) 0) as [Hn|Hp].
    - setoid_replace (mnth M m j * mnth M m j) with ((- mnth M m j) * (- mnth M m j)) by ring.
      apply Qmult_le_0_compat; apply (Qopp_le_compat _ 0), Qlt_le_weak, Hn.
    - apply Qmult_le_0_compat; exact Hp. }
  setoid_replace 0 with (0 + 0) by ring. apply Qplus_le_compat; assumption.
Qed.
