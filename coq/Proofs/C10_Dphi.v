(* C10 - the optional output dphi of solve_linear_ldlt (tr_solver.hpp:73-78) is d/dlambda |D x(lambda)|. *)
From Coq Require Import Reals Lra Lia Arith PeanoNat Bool.
From Coquelicot Require Import Coquelicot.
From SV Require Import Proofs.C10_LinAlg.
Open Scope R_scope.

Lemma is_derive_mult_R (f g : R -> R) t df dg :
  is_derive f t df -> is_derive g t dg -> is_derive (fun s => f s * g s) t (df * g t + f t * dg).
Proof.
  intros Df Dg. apply (is_derive_mult (K := R_AbsRing) f g t df dg Df Dg). intros; apply Rmult_comm.
Qed.

Section Code.
Variables (n : nat) (d : nat -> R).
(* tr_solver.hpp:74  Dx = -d.cwiseProduct(x) *)
Definition Dx_code (xv : nat -> R) (j : nat) : R := - (d j * xv j).
(* tr_solver.hpp:75  d_q = d.cwiseProduct(Dx) *)
Definition dq_code (xv : nat -> R) (j : nat) : R := d j * Dx_code xv j.
(* Eigen/src/Core/Dot.h:124-134  normalized(): n / sqrt(z) when z = n.squaredNorm() > 0, else n *)
Definition sqnorm (v : nat -> R) : R := sumn n (fun j => v j * v j).
Definition normalized (v : nat -> R) (j : nat) : R :=
  if Rlt_dec 0 (sqnorm v) then v j / sqrt (sqnorm v) else v j.
(* tr_solver.hpp:77  dphi = -d.cwiseProduct(Dx.normalized()).dot(y) *)
Definition dphi_code (xv y : nat -> R) : R :=
  - sumn n (fun j => d j * normalized (Dx_code xv) j * y j).
(* the pair (numerator, squared norm) the exact model outputs *)
Definition dphi_num (xv y : nat -> R) : R := - sumn n (fun j => d j * Dx_code xv j * y j).
Definition dphi_sq (xv : nat -> R) : R := sqnorm (Dx_code xv).

Lemma dphi_sq_reg2 xv : dphi_sq xv = reg2 n d xv.
Proof. unfold dphi_sq, sqnorm, reg2, Dx_code. apply sumn_ext; intros; ring. Qed.

Lemma dphi_code_pair xv y :
  dphi_code xv y = if Rlt_dec 0 (dphi_sq xv) then dphi_num xv y / sqrt (dphi_sq xv) else dphi_num xv y.
Proof.
  unfold dphi_code, dphi_num, normalized, dphi_sq.
  destruct (Rlt_dec 0 (sqnorm (Dx_code xv))) as [Hp|Hn]; [|reflexivity].
  assert (Hs : sqrt (sqnorm (Dx_code xv)) <> 0) by (intros E; apply sqrt_eq_0 in E; lra).
  unfold Rdiv. rewrite Ropp_mult_distr_l_reverse. f_equal. rewrite <- sumn_scal_r.
  apply sumn_ext; intros. field. exact Hs.
Qed.
End Code.

Section Dphi.
Variables (m n : nat) (J : nat -> nat -> R) (d : nat -> R) (r : nat -> R).
Variable x : R -> nat -> R.       (* a solution curve lambda |-> x(lambda) *)
Variable x' : nat -> R.           (* its derivative at lam0 *)
Variable lam0 : R.
Hypothesis lam0_pos : 0 < lam0.
Hypothesis d_pos : dpos n d.
Hypothesis x_sol : forall l, 0 < l -> normal_eq m n J d l r (x l).
Hypothesis x_der : forall j, (j < n)%nat -> is_derive (fun l => x l j) lam0 (x' j).

Lemma near_lam0_pos : locally lam0 (fun l => 0 < l).
Proof.
  exists (mkposreal lam0 lam0_pos). intros y Hy.
  unfold ball in Hy; cbn in Hy. unfold AbsRing_ball, abs, minus, plus, opp in Hy; cbn in Hy.
  apply Rabs_def2 in Hy. lra.
Qed.

Lemma Hm_derive k j :
  is_derive (fun l => Hm m J d l k j) lam0 (if Nat.eqb k j then d k * d k else 0).
Proof.
  unfold Hm. destruct (Nat.eqb k j); auto_derive; trivial; ring.
Qed.

(* differentiating the normal equations: H x' = -D^2 x, which is the right-hand side d_q of the
   code's second solve *)
Theorem curve_derivative_eq k : (k < n)%nat ->
  Hv m n J d lam0 x' k = dq_code d (x lam0) k.
Proof.
  intros Hk.
  pose (g := fun l => Hv m n J d l (x l) k).
  assert (D1 : is_derive g lam0 (sumn n (fun j => (if Nat.eqb k j then d k * d k else 0) * x lam0 j
                                                  + Hm m J d lam0 k j * x' j))).
  { unfold g, Hv. apply (is_derive_sumn n (fun j l => Hm m J d l k j * x l j)).
    intros j Hj. apply is_derive_mult_R; [apply Hm_derive|apply x_der; exact Hj]. }
  assert (D2 : is_derive g lam0 0).
  { apply (is_derive_ext_loc (fun _ => bv m J r k)).
    - generalize near_lam0_pos. apply filter_imp. intros l Hl. unfold g. symmetry. apply x_sol; assumption.
    - apply (is_derive_const (V := R_NormedModule)). }
  apply is_derive_unique in D1. apply is_derive_unique in D2. rewrite D2 in D1.
  rewrite sumn_plus, sumn_delta in D1 by exact Hk.
  unfold dq_code, Dx_code. fold (Hv m n J d lam0 x' k) in D1. lra.
Qed.

(* the code's y = ldlt.solve(d_q) is x'(lam0) *)
Theorem second_solve_is_derivative y :
  (forall k, (k < n)%nat -> Hv m n J d lam0 y k = dq_code d (x lam0) k) ->
  forall j, (j < n)%nat -> y j = x' j.
Proof.
  intros Hy. apply (Hv_injective m n J d lam0 y x' lam0_pos d_pos).
  intros k Hk. rewrite (Hy k Hk), curve_derivative_eq by exact Hk. reflexivity.
Qed.

Definition phiN (l : R) : R := sqrt (reg2 n d (x l)).

Lemma reg2_derive :
  is_derive (fun l => reg2 n d (x l)) lam0 (sumn n (fun j => 2 * (d j * d j * x lam0 j * x' j))).
Proof.
  unfold reg2. apply (is_derive_sumn n (fun j l => d j * x l j * (d j * x l j))).
  intros j Hj. pose proof (x_der j Hj) as Dj.
  assert (D1 : is_derive (fun l => d j * x l j) lam0 (d j * x' j)) by (apply is_derive_scal; exact Dj).
  pose proof (is_derive_mult_R _ _ _ _ _ D1 D1) as D2. cbn beta in D2.
  replace (2 * (d j * d j * x lam0 j * x' j)) with (d j * x' j * (d j * x lam0 j) + d j * x lam0 j * (d j * x' j))
    by ring. exact D2.
Qed.

(* x(lam0) = 0 forces -J'r = 0, hence x = 0 along the whole curve *)
Lemma curve_zero : (forall j, (j < n)%nat -> x lam0 j = 0) ->
  forall l, 0 < l -> forall j, (j < n)%nat -> x l j = 0.
Proof.
  intros Hz l Hl.
  assert (Hb : forall k, (k < n)%nat -> bv m J r k = 0).
  { intros k Hk. rewrite <- (x_sol lam0 lam0_pos k Hk). unfold Hv.
    apply sumn_zero_ext. intros j Hj. rewrite (Hz j Hj). ring. }
  assert (N0 : normal_eq m n J d l r vzero).
  { intros k Hk. rewrite Hv_zero, (Hb k Hk). reflexivity. }
  intros j Hj. exact (normal_eq_unique m n J d l r vzero (x l) Hl d_pos N0 (x_sol l Hl) j Hj).
Qed.

Theorem dphi_correct y :
  (forall k, (k < n)%nat -> Hv m n J d lam0 y k = dq_code d (x lam0) k) ->
  is_derive phiN lam0 (dphi_code n d (x lam0) y).
Proof.
  intros Hy. pose proof (second_solve_is_derivative y Hy) as Eyx.
  rewrite dphi_code_pair, dphi_sq_reg2.
  destruct (Rlt_dec 0 (reg2 n d (x lam0))) as [Hp|Hn].
  - (* generic case *)
    unfold phiN.
    assert (Ds : is_derive sqrt (reg2 n d (x lam0)) (/ (2 * sqrt (reg2 n d (x lam0)))))
      by (apply is_derive_Reals, derivable_pt_lim_sqrt; exact Hp).
    pose proof (is_derive_comp sqrt (fun l => reg2 n d (x l)) lam0 _ _ Ds reg2_derive) as Dc.
    cbn beta in Dc.
    replace (dphi_num n d (x lam0) y / sqrt (reg2 n d (x lam0)))
      with (scal (sumn n (fun j => 2 * (d j * d j * x lam0 j * x' j))) (/ (2 * sqrt (reg2 n d (x lam0))))); [exact Dc|].
    unfold scal; cbn. unfold mult; cbn. unfold dphi_num.
    assert (Hs : sqrt (reg2 n d (x lam0)) <> 0) by (intros E; apply sqrt_eq_0 in E; lra).
    rewrite sumn_scal.
    rewrite (sumn_ext n (fun j => d j * Dx_code d (x lam0) j * y j) (fun j => (-1) * (d j * d j * x lam0 j * x' j))).
    2:{ intros j Hj. rewrite (Eyx j Hj). unfold Dx_code. ring. }
    rewrite sumn_scal. field. exact Hs.
  - (* D x(lam0) = 0: the curve is identically zero and so is the code's dphi *)
    assert (Hr0 : reg2 n d (x lam0) = 0) by (pose proof (reg2_nonneg n d (x lam0)); lra).
    assert (Hz : forall j, (j < n)%nat -> x lam0 j = 0).
    { intros j Hj. pose proof (sumn_sqr_zero n (fun j => d j * x lam0 j) Hr0 j Hj) as E. cbn beta in E.
      specialize (d_pos j Hj). nra. }
    assert (Hnum : dphi_num n d (x lam0) y = 0).
    { unfold dphi_num. rewrite sumn_zero_ext; [lra|]. intros j Hj. unfold Dx_code. rewrite (Hz j Hj). ring. }
    rewrite Hnum.
    apply (is_derive_ext_loc (fun _ => 0)).
    + generalize near_lam0_pos. apply filter_imp. intros l Hl. unfold phiN.
      assert (E : reg2 n d (x l) = 0).
      { unfold reg2. apply sumn_zero_ext. intros j Hj. rewrite (curve_zero Hz l Hl j Hj). ring. }
      rewrite E, sqrt_0. reflexivity.
    + apply (is_derive_const (V := R_NormedModule)).
Qed.

End Dphi.
