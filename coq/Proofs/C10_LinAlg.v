(* C10 - real-number linear algebra behind solve_linear_ldlt / solve_trust_region
   (/repo/include/smooth/optim/tr_solver.hpp:47-141).
   Vectors are functions nat -> R restricted to indices < n, matrices nat -> nat -> R; sums are the
   finite sums [sumn].  Everything holds for every shape m x n (m = 0 and n = 0 included). *)
From Coq Require Import Reals Lra Lia Arith PeanoNat Bool.
From Coquelicot Require Import Coquelicot.
Open Scope R_scope.

Fixpoint sumn (n : nat) (f : nat -> R) : R :=
  match n with O => 0 | S k => sumn k f + f k end.

Lemma sumn_ext n f g : (forall i, (i < n)%nat -> f i = g i) -> sumn n f = sumn n g.
Proof.
  induction n as [|n IH]; intros Hfg; cbn [sumn]; [reflexivity|].
  rewrite IH, (Hfg n) by (intros; try apply Hfg; lia). reflexivity.
Qed.

Lemma sumn_plus n f g : sumn n (fun i => f i + g i) = sumn n f + sumn n g.
Proof. induction n as [|n IH]; cbn [sumn]; [lra|rewrite IH; lra]. Qed.

Lemma sumn_minus n f g : sumn n (fun i => f i - g i) = sumn n f - sumn n g.
Proof. induction n as [|n IH]; cbn [sumn]; [lra|rewrite IH; lra]. Qed.

Lemma sumn_scal n c f : sumn n (fun i => c * f i) = c * sumn n f.
Proof. induction n as [|n IH]; cbn [sumn]; [lra|rewrite IH; lra]. Qed.

Lemma sumn_scal_r n c f : sumn n (fun i => f i * c) = sumn n f * c.
Proof. induction n as [|n IH]; cbn [sumn]; [lra|rewrite IH; lra]. Qed.

Lemma sumn_zero n : sumn n (fun _ => 0) = 0.
Proof. induction n as [|n IH]; cbn [sumn]; [lra|rewrite IH; lra]. Qed.

Lemma sumn_zero_ext n f : (forall i, (i < n)%nat -> f i = 0) -> sumn n f = 0.
Proof. intros H. rewrite (sumn_ext n f (fun _ => 0) H). apply sumn_zero. Qed.

Lemma sumn_swap m n (f : nat -> nat -> R) :
  sumn m (fun i => sumn n (fun j => f i j)) = sumn n (fun j => sumn m (fun i => f i j)).
Proof.
  induction m as [|m IH]; cbn [sumn].
  - symmetry. apply sumn_zero.
  - rewrite IH, <- sumn_plus. reflexivity.
Qed.

Lemma sumn_nonneg n f : (forall i, (i < n)%nat -> 0 <= f i) -> 0 <= sumn n f.
Proof.
  induction n as [|n IH]; intros H; cbn [sumn]; [lra|].
  assert (0 <= sumn n f) by (apply IH; intros; apply H; lia).
  assert (0 <= f n) by (apply H; lia). lra.
Qed.

Lemma sumn_zero_all n f :
  (forall i, (i < n)%nat -> 0 <= f i) -> sumn n f = 0 -> forall i, (i < n)%nat -> f i = 0.
Proof.
  induction n as [|n IH]; intros Hpos Hz i Hi; [lia|].
  cbn [sumn] in Hz.
  assert (Hs : 0 <= sumn n f) by (apply sumn_nonneg; intros; apply Hpos; lia).
  assert (Hn : 0 <= f n) by (apply Hpos; lia).
  destruct (Nat.eq_dec i n) as [->|Hne]; [lra|].
  apply IH; [intros; apply Hpos; lia|lra|lia].
Qed.

Lemma sumn_delta n k c x :
  (k < n)%nat -> sumn n (fun j => (if Nat.eqb k j then c else 0) * x j) = c * x k.
Proof.
  induction n as [|n IH]; intros Hk; [lia|]. cbn [sumn].
  destruct (Nat.eq_dec k n) as [->|Hne].
  - rewrite Nat.eqb_refl. rewrite sumn_zero_ext; [lra|].
    intros i Hi. destruct (Nat.eqb_spec n i); [lia|lra].
  - rewrite IH by lia. destruct (Nat.eqb_spec k n); [lia|lra].
Qed.

Lemma sumn_sqr_zero n f :
  sumn n (fun i => f i * f i) = 0 -> forall i, (i < n)%nat -> f i = 0.
Proof.
  intros Hz i Hi.
  assert (H0 : f i * f i = 0).
  { apply (sumn_zero_all n (fun i => f i * f i)); auto. intros; nra. }
  nra.
Qed.

Lemma is_derive_sumn n (f : nat -> R -> R) (df : nat -> R) t :
  (forall j, (j < n)%nat -> is_derive (f j) t (df j)) ->
  is_derive (fun s => sumn n (fun j => f j s)) t (sumn n df).
Proof.
  induction n as [|n IH]; intros H; cbn [sumn].
  - apply (is_derive_const (V := R_NormedModule)).
  - apply (is_derive_plus (V := R_NormedModule)); [apply IH; intros; apply H; lia|apply H; lia].
Qed.

Section TR.
Variables (m n : nat) (J : nat -> nat -> R) (d : nat -> R).

(* J y *)
Definition Jv (y : nat -> R) (i : nat) : R := sumn n (fun j => J i j * y j).
(* |J y + r|^2 *)
Definition res2 (r y : nat -> R) : R := sumn m (fun i => (Jv y i + r i) * (Jv y i + r i)).
(* |D y|^2 *)
Definition reg2 (y : nat -> R) : R := sumn n (fun j => (d j * y j) * (d j * y j)).
(* phi(y) = |J y + r|^2 + lambda |D y|^2 *)
Definition phi (lam : R) (r y : nat -> R) : R := res2 r y + lam * reg2 y.
(* H = J'J + lambda D^2  (tr_solver.hpp:67-68) *)
Definition Hm (lam : R) (k j : nat) : R :=
  sumn m (fun i => J i k * J i j) + (if Nat.eqb k j then lam * d k * d k else 0).
(* b = -J' r  (tr_solver.hpp:71) *)
Definition bv (r : nat -> R) (k : nat) : R := - sumn m (fun i => J i k * r i).
Definition Hv (lam : R) (x : nat -> R) (k : nat) : R := sumn n (fun j => Hm lam k j * x j).
Definition normal_eq (lam : R) (r x : nat -> R) : Prop :=
  forall k, (k < n)%nat -> Hv lam x k = bv r k.
(* the quadratic form |J h|^2 + lambda |D h|^2 = h' H h *)
Definition qf (lam : R) (h : nat -> R) : R := sumn m (fun i => Jv h i * Jv h i) + lam * reg2 h.
Definition vzero : nat -> R := fun _ => 0.
Definition dpos : Prop := forall j, (j < n)%nat -> 0 < d j.

Lemma Jv_plus y h i : Jv (fun j => y j + h j) i = Jv y i + Jv h i.
Proof. unfold Jv. rewrite <- sumn_plus. apply sumn_ext; intros; ring. Qed.

Lemma Jv_zero i : Jv vzero i = 0.
Proof. unfold Jv, vzero. apply sumn_zero_ext; intros; ring. Qed.

Lemma Hv_expand lam x k : (k < n)%nat ->
  Hv lam x k = sumn m (fun i => J i k * Jv x i) + lam * d k * d k * x k.
Proof.
  intros Hk. unfold Hv, Hm.
  rewrite (sumn_ext n _ (fun j => sumn m (fun i => J i k * J i j * x j)
                                 + (if Nat.eqb k j then lam * d k * d k else 0) * x j)).
  2:{ intros j _. rewrite sumn_scal_r. ring. }
  rewrite sumn_plus, sumn_delta by exact Hk.
  f_equal. rewrite sumn_swap. apply sumn_ext; intros i _.
  unfold Jv. rewrite <- sumn_scal. apply sumn_ext; intros; ring.
Qed.

Lemma Hm_sym lam k j : Hm lam k j = Hm lam j k.
Proof.
  unfold Hm. rewrite (Nat.eqb_sym j k). destruct (Nat.eqb_spec k j) as [->|]; f_equal;
    apply sumn_ext; intros; ring.
Qed.

(* the gradient form of the normal equations: J'(J x + r) + lambda D^2 x = 0 *)
Lemma normal_eq_grad lam r x : normal_eq lam r x ->
  forall k, (k < n)%nat -> sumn m (fun i => J i k * (Jv x i + r i)) + lam * d k * d k * x k = 0.
Proof.
  intros Hne k Hk. specialize (Hne k Hk). rewrite Hv_expand in Hne by exact Hk. unfold bv in Hne.
  rewrite (sumn_ext m _ (fun i => J i k * Jv x i + J i k * r i)) by (intros; ring).
  rewrite sumn_plus. lra.
Qed.

(* <h, J'(Jx + r)> = <J h, J x + r> *)
Lemma cross_swap (w h : nat -> R) :
  sumn m (fun i => w i * Jv h i) = sumn n (fun k => h k * sumn m (fun i => J i k * w i)).
Proof.
  unfold Jv.
  rewrite (sumn_ext m _ (fun i => sumn n (fun k => h k * (J i k * w i)))).
  2:{ intros i _. rewrite <- sumn_scal. apply sumn_ext; intros; ring. }
  rewrite sumn_swap. apply sumn_ext; intros k _. rewrite sumn_scal. reflexivity.
Qed.

(* completing the square *)
Theorem phi_complete_square lam r x h : normal_eq lam r x ->
  phi lam r (fun j => x j + h j) = phi lam r x + qf lam h.
Proof.
  intros Hne. pose proof (normal_eq_grad lam r x Hne) as Hg.
  unfold phi, qf, res2.
  rewrite (sumn_ext m (fun i => (Jv (fun j => x j + h j) i + r i) * (Jv (fun j => x j + h j) i + r i))
             (fun i => (Jv x i + r i) * (Jv x i + r i) + (2 * ((Jv x i + r i) * Jv h i) + Jv h i * Jv h i))).
  2:{ intros i _. rewrite Jv_plus. ring. }
  rewrite sumn_plus, sumn_plus, sumn_scal.
  unfold reg2.
  rewrite (sumn_ext n (fun j => d j * (x j + h j) * (d j * (x j + h j)))
             (fun j => d j * x j * (d j * x j) + (2 * (h j * (d j * d j * x j)) + d j * h j * (d j * h j)))).
  2:{ intros; ring. }
  rewrite sumn_plus, sumn_plus, sumn_scal.
  rewrite cross_swap.
  assert (Hc : sumn n (fun k => h k * sumn m (fun i => J i k * (Jv x i + r i)))
               + lam * sumn n (fun j => h j * (d j * d j * x j)) = 0).
  { rewrite <- sumn_scal, <- sumn_plus. apply sumn_zero_ext. intros k Hk.
    specialize (Hg k Hk). nra. }
  fold (reg2 x) (reg2 h). nra.
Qed.

Lemma reg2_nonneg y : 0 <= reg2 y.
Proof. unfold reg2. apply sumn_nonneg; intros; nra. Qed.

Lemma qf_nonneg lam h : 0 <= lam -> 0 <= qf lam h.
Proof.
  intros Hl. unfold qf. pose proof (reg2_nonneg h).
  assert (0 <= sumn m (fun i => Jv h i * Jv h i)) by (apply sumn_nonneg; intros; nra). nra.
Qed.

Lemma qf_zero lam h : 0 < lam -> dpos -> qf lam h = 0 -> forall j, (j < n)%nat -> h j = 0.
Proof.
  intros Hl Hd Hq j Hj. unfold qf in Hq. pose proof (reg2_nonneg h) as Hr.
  assert (H1 : 0 <= sumn m (fun i => Jv h i * Jv h i)) by (apply sumn_nonneg; intros; nra).
  assert (Hr0 : reg2 h = 0) by nra.
  pose proof (sumn_sqr_zero n (fun j => d j * h j) Hr0 j Hj) as Hz. cbn beta in Hz.
  specialize (Hd j Hj). nra.
Qed.

Lemma vec_split (x y : nat -> R) : forall j, y j = x j + (y j - x j).
Proof. intros; ring. Qed.

(* --- the minimiser ---------------------------------------------------------------------------- *)
Theorem normal_eq_minimiser lam r x : 0 <= lam -> normal_eq lam r x ->
  forall y, phi lam r x <= phi lam r y.
Proof.
  intros Hl Hne y.
  assert (He : phi lam r y = phi lam r (fun j => x j + (y j - x j))).
  { unfold phi, res2, reg2, Jv. f_equal; [|f_equal]; apply sumn_ext; intros.
    - assert (E : sumn n (fun j => J i j * y j) = sumn n (fun j => J i j * (x j + (y j - x j))))
        by (apply sumn_ext; intros; ring). rewrite E. reflexivity.
    - ring. }
  rewrite He, phi_complete_square by exact Hne.
  pose proof (qf_nonneg lam (fun j => y j - x j) Hl). lra.
Qed.

Theorem normal_eq_minimiser_strict lam r x : 0 < lam -> dpos -> normal_eq lam r x ->
  forall y, (exists j, (j < n)%nat /\ y j <> x j) -> phi lam r x < phi lam r y.
Proof.
  intros Hl Hd Hne y [j [Hj Hyx]].
  assert (He : phi lam r y = phi lam r (fun j => x j + (y j - x j))).
  { unfold phi, res2, reg2, Jv. f_equal; [|f_equal]; apply sumn_ext; intros.
    - assert (E : sumn n (fun j => J i j * y j) = sumn n (fun j => J i j * (x j + (y j - x j))))
        by (apply sumn_ext; intros; ring). rewrite E. reflexivity.
    - ring. }
  rewrite He, phi_complete_square by exact Hne.
  pose proof (qf_nonneg lam (fun j => y j - x j) (Rlt_le _ _ Hl)) as Hq.
  destruct (Req_dec (qf lam (fun j => y j - x j)) 0) as [Hz|Hnz]; [|lra].
  exfalso. apply Hyx. pose proof (qf_zero lam _ Hl Hd Hz j Hj) as E. cbn beta in E. lra.
Qed.

Theorem minimiser_unique lam r x : 0 < lam -> dpos -> normal_eq lam r x ->
  forall y, phi lam r y <= phi lam r x -> forall j, (j < n)%nat -> y j = x j.
Proof.
  intros Hl Hd Hne y Hle j Hj. destruct (Req_dec (y j) (x j)) as [E|Hneq]; [exact E|].
  pose proof (normal_eq_minimiser_strict lam r x Hl Hd Hne y (ex_intro _ j (conj Hj Hneq))). lra.
Qed.

(* two solutions of the normal equations coincide: H is injective *)
Theorem normal_eq_unique lam r x1 x2 : 0 < lam -> dpos ->
  normal_eq lam r x1 -> normal_eq lam r x2 -> forall j, (j < n)%nat -> x2 j = x1 j.
Proof.
  intros Hl Hd H1 H2. apply (minimiser_unique lam r x1 Hl Hd H1).
  apply normal_eq_minimiser; [lra|exact H2].
Qed.

Lemma Hv_lin lam a u v k : Hv lam (fun j => u j + a * v j) k = Hv lam u k + a * Hv lam v k.
Proof. unfold Hv. rewrite <- sumn_scal, <- sumn_plus. apply sumn_ext; intros; ring. Qed.

Lemma bv_zero k : bv vzero k = 0.
Proof. unfold bv, vzero. rewrite sumn_zero_ext; [lra|intros; ring]. Qed.

Lemma Hv_zero lam k : Hv lam vzero k = 0.
Proof. unfold Hv, vzero. apply sumn_zero_ext; intros; ring. Qed.

Theorem Hv_injective lam u v : 0 < lam -> dpos ->
  (forall k, (k < n)%nat -> Hv lam u k = Hv lam v k) -> forall j, (j < n)%nat -> u j = v j.
Proof.
  intros Hl Hd Heq j Hj.
  assert (N1 : normal_eq lam vzero (fun j => u j + (-1) * v j)).
  { intros k Hk. rewrite Hv_lin, bv_zero, (Heq k Hk). ring. }
  assert (N0 : normal_eq lam vzero vzero) by (intros k Hk; rewrite Hv_zero, bv_zero; reflexivity).
  pose proof (normal_eq_unique lam vzero _ _ Hl Hd N1 N0 j Hj) as E. unfold vzero in E. lra.
Qed.

(* x' H x = |J x|^2 + lambda |D x|^2 : H is symmetric positive definite *)
Lemma quad_form lam u : sumn n (fun k => u k * Hv lam u k) = qf lam u.
Proof.
  rewrite (sumn_ext n _ (fun k => u k * sumn m (fun i => J i k * Jv u i) + lam * (d k * u k * (d k * u k)))).
  2:{ intros k Hk. rewrite Hv_expand by exact Hk. ring. }
  rewrite sumn_plus, sumn_scal, <- cross_swap. reflexivity.
Qed.

Theorem H_spd lam u : 0 < lam -> dpos -> (exists j, (j < n)%nat /\ u j <> 0) ->
  0 < sumn n (fun k => u k * Hv lam u k).
Proof.
  intros Hl Hd [j [Hj Hu]]. rewrite quad_form.
  pose proof (qf_nonneg lam u (Rlt_le _ _ Hl)) as Hq.
  destruct (Req_dec (qf lam u) 0) as [Hz|]; [|lra].
  exfalso. apply Hu. exact (qf_zero lam u Hl Hd Hz j Hj).
Qed.

(* --- descent and predicted reduction ------------------------------------------------------------ *)
Lemma res2_zero r : res2 r vzero = sumn m (fun i => r i * r i).
Proof. unfold res2. apply sumn_ext; intros. rewrite Jv_zero. ring. Qed.

Lemma reg2_zero : reg2 vzero = 0.
Proof. unfold reg2, vzero. apply sumn_zero_ext; intros; ring. Qed.

Lemma qf_neg lam x : qf lam (fun j => 0 - x j) = qf lam x.
Proof.
  unfold qf, reg2, Jv. f_equal; [|f_equal]; apply sumn_ext; intros; [|ring].
  assert (E : sumn n (fun j => J i j * (0 - x j)) = - sumn n (fun j => J i j * x j)).
  { transitivity (sumn n (fun j => (-1) * (J i j * x j))); [apply sumn_ext; intros; ring|].
    rewrite sumn_scal. ring. }
  rewrite E. ring.
Qed.

(* |r|^2 - |J x + r|^2 = |J x|^2 + 2 lambda |D x|^2 *)
Theorem pred_red_formula lam r x : normal_eq lam r x ->
  sumn m (fun i => r i * r i) - res2 r x = qf lam x + lam * reg2 x.
Proof.
  intros Hne. pose proof (phi_complete_square lam r x (fun j => 0 - x j) Hne) as Hs.
  assert (E : phi lam r (fun j => x j + (0 - x j)) = phi lam r vzero).
  { unfold phi, res2, reg2, Jv, vzero. f_equal; [|f_equal]; apply sumn_ext; intros; [|ring].
    assert (E : sumn n (fun j => J i j * (x j + (0 - x j))) = sumn n (fun j => J i j * 0))
      by (apply sumn_ext; intros; ring). rewrite E. reflexivity. }
  cbn beta in Hs. rewrite E, qf_neg in Hs. unfold phi in Hs. rewrite res2_zero, reg2_zero in Hs. lra.
Qed.

Theorem pred_red_nonneg lam r x : 0 <= lam -> normal_eq lam r x ->
  0 <= sumn m (fun i => r i * r i) - res2 r x.
Proof.
  intros Hl Hne. rewrite (pred_red_formula lam r x Hne).
  pose proof (qf_nonneg lam x Hl). pose proof (reg2_nonneg x). nra.
Qed.

Theorem pred_red_zero_iff_dx_zero lam r x : 0 < lam -> dpos -> normal_eq lam r x ->
  (sumn m (fun i => r i * r i) - res2 r x = 0 <-> forall j, (j < n)%nat -> x j = 0).
Proof.
  intros Hl Hd Hne. rewrite (pred_red_formula lam r x Hne). split.
  - intros Hz. apply (qf_zero lam x Hl Hd).
    pose proof (qf_nonneg lam x (Rlt_le _ _ Hl)). pose proof (reg2_nonneg x). nra.
  - intros Hx.
    assert (Eq : qf lam x = qf lam vzero).
    { unfold qf, reg2, Jv, vzero. f_equal; [|f_equal]; apply sumn_ext; intros.
      - assert (E : sumn n (fun j => J i j * x j) = sumn n (fun j => J i j * 0))
          by (apply sumn_ext; intros j Hj; rewrite (Hx j Hj); ring). rewrite E. reflexivity.
      - rewrite (Hx i) by assumption. ring. }
    assert (Er : reg2 x = 0).
    { unfold reg2. apply sumn_zero_ext. intros j Hj. rewrite (Hx j Hj). ring. }
    rewrite Eq, Er. unfold qf. rewrite reg2_zero.
    rewrite sumn_zero_ext; [ring|]. intros; rewrite Jv_zero; ring.
Qed.

(* |J x + r| <= |r|  (solve_trust_region never increases the linearised cost) *)
Theorem descent lam r x : 0 <= lam -> normal_eq lam r x ->
  sqrt (res2 r x) <= sqrt (sumn m (fun i => r i * r i)).
Proof.
  intros Hl Hne. apply sqrt_le_1_alt. pose proof (pred_red_nonneg lam r x Hl Hne). lra.
Qed.

(* the quantity optim.hpp:102 computes: 1 - (|r + J dx| / |r|)^2 *)
Definition pred_red_code (r x : nat -> R) : R :=
  1 - (sqrt (res2 r x) / sqrt (sumn m (fun i => r i * r i))) ^ 2.

Lemma res2_nonneg r x : 0 <= res2 r x.
Proof. unfold res2. apply sumn_nonneg; intros. apply Rle_0_sqr. Qed.

Lemma pred_red_code_eq r x : 0 < sumn m (fun i => r i * r i) ->
  pred_red_code r x = (sumn m (fun i => r i * r i) - res2 r x) / sumn m (fun i => r i * r i).
Proof.
  intros Hr. unfold pred_red_code.
  pose proof (res2_nonneg r x) as H0.
  assert (Hs : sqrt (sumn m (fun i => r i * r i)) <> 0).
  { intros E. apply sqrt_eq_0 in E; lra. }
  replace ((sqrt (res2 r x) / sqrt (sumn m (fun i => r i * r i))) ^ 2)
    with ((sqrt (res2 r x) * sqrt (res2 r x)) / (sqrt (sumn m (fun i => r i * r i)) * sqrt (sumn m (fun i => r i * r i))))
    by (field; exact Hs).
  rewrite !sqrt_sqrt by lra. field. lra.
Qed.

Theorem pred_red_code_nonneg lam r x : 0 <= lam -> 0 < sumn m (fun i => r i * r i) ->
  normal_eq lam r x -> 0 <= pred_red_code r x.
Proof.
  intros Hl Hr Hne. rewrite pred_red_code_eq by exact Hr.
  pose proof (pred_red_nonneg lam r x Hl Hne).
  apply Rmult_le_pos; [lra|]. left. apply Rinv_0_lt_compat. exact Hr.
Qed.

Theorem pred_red_code_zero_iff lam r x : 0 < lam -> dpos -> 0 < sumn m (fun i => r i * r i) ->
  normal_eq lam r x -> (pred_red_code r x = 0 <-> forall j, (j < n)%nat -> x j = 0).
Proof.
  intros Hl Hd Hr Hne. rewrite pred_red_code_eq by exact Hr.
  rewrite <- (pred_red_zero_iff_dx_zero lam r x Hl Hd Hne).
  split; intros H.
  - apply (Rmult_eq_compat_r (sumn m (fun i => r i * r i))) in H.
    unfold Rdiv in H. rewrite Rmult_assoc, Rinv_l, Rmult_0_l, Rmult_1_r in H by lra. exact H.
  - rewrite H. unfold Rdiv. ring.
Qed.

End TR.
