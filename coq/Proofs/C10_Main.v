(* C10 - top-level statements about the model of solve_linear_ldlt / solve_trust_region, in two forms:
   (a) under the contract of Eigen's LDLT solve (Section hypothesis), (b) for ANY solver whose two answers
   pass the exact certificate check [sll_certified] (no hypothesis; this is what the extracted driver
   evaluates on every correspondence case).  Plus the non-vacuity examples. *)
From Coq Require Import List QArith Qreals Reals Lra Lia Arith PeanoNat Bool.
From Coquelicot Require Import Coquelicot.
From SV Require Import Model.C10_Assembly Proofs.C10_LinAlg Proofs.C10_Dphi Proofs.C10_AssemblyProofs Proofs.C10_Colwise.
Import ListNotations.
Open Scope R_scope.

Lemma check_sol_solves n H b x : check_sol n H b x = true -> solves n H b x.
Proof.
  intros Hc k Hk. unfold check_sol in Hc. rewrite forallb_forall in Hc.
  apply Qeq_bool_eq, Hc, in_seq. lia.
Qed.

Lemma sll_certified_solves m n J d r lam o : sll_certified m n J d r lam o = true ->
  solves n (assemble_H m n J d lam) (rhs m n J r) (out_x o) /\
  solves n (assemble_H m n J d lam) (model_dq n d (out_x o)) (out_y o).
Proof.
  unfold sll_certified. intros Hc. apply andb_prop in Hc. destruct Hc as [H1 H2].
  split; apply check_sol_solves; assumption.
Qed.

(* everything C10 says about one call, for an output record [o] *)
Definition sll_spec (m n : nat) (J : list (list Q)) (d r : list Q) (lam : Q) (o : sll_out) : Prop :=
  let JR := mR J in let dR := vR d in let rR := vR r in let lR := Q2R lam in let xR := vR (out_x o) in
  normal_eq m n JR dR lR rR xR /\
  (forall y, phi m n JR dR lR rR xR <= phi m n JR dR lR rR y) /\
  (forall y, phi m n JR dR lR rR y <= phi m n JR dR lR rR xR -> forall j, (j < n)%nat -> y j = xR j) /\
  sqrt (res2 m n JR rR xR) <= sqrt (sumn m (fun i => rR i * rR i)) /\
  (sumn m (fun i => rR i * rR i) - res2 m n JR rR xR = 0 <-> forall j, (j < n)%nat -> xR j = 0) /\
  (forall (xc : R -> nat -> R) (xc' : nat -> R),
     (forall l, 0 < l -> normal_eq m n JR dR l rR (xc l)) ->
     (forall j, (j < n)%nat -> is_derive (fun l => xc l j) lR (xc' j)) ->
     is_derive (fun l => sqrt (reg2 n dR (xc l))) lR (dphi_of_pair (out_dphi_num o) (out_dphi_sq o))).

Lemma sll_spec_of_solves solve m n J d r lam :
  (0 < lam)%Q -> (forall j, (j < n)%nat -> (0 < vnth d j)%Q) ->
  let o := solve_linear_ldlt solve m n J d r lam in
  solves n (assemble_H m n J d lam) (rhs m n J r) (out_x o) ->
  solves n (assemble_H m n J d lam) (model_dq n d (out_x o)) (out_y o) ->
  sll_spec m n J d r lam o.
Proof.
  intros Hl Hd o Hx Hy. unfold sll_spec. cbn zeta.
  split; [|split; [|split; [|split; [|split]]]].
  - apply solves_normal_eq; exact Hx.
  - apply (cons_minimiser m n J d r lam o Hl Hx).
  - apply (cons_unique m n J d r lam o Hl Hd Hx).
  - apply (cons_descent m n J d r lam o Hl Hx).
  - apply (cons_pred_red_zero_iff m n J d r lam o Hl Hd Hx).
  - intros xc xc'. apply (cons_dphi_correct m n J d r lam o Hl Hd Hx Hy); reflexivity.
Qed.

(* (a) under the LDLT contract *)
Section Contract.
Variable solve : list (list Q) -> list Q -> list Q.
Hypothesis solve_ok : forall n H b, shape n H -> length b = n -> spdQ n H -> solves n H b (solve H b).

Theorem sll_model_correct m n J d r lam :
  (0 < lam)%Q -> (forall j, (j < n)%nat -> (0 < vnth d j)%Q) ->
  sll_spec m n J d r lam (solve_linear_ldlt solve m n J d r lam).
Proof.
  intros Hl Hd. apply sll_spec_of_solves; try assumption.
  - apply (out_x_solves solve solve_ok m n J d r lam Hl Hd).
  - apply (out_y_solves solve solve_ok m n J d r lam Hl Hd).
Qed.

Theorem str_model_correct m n J d r Delta :
  (0 < Delta)%Q -> (forall j, (j < n)%nat -> (0 < vnth d j)%Q) ->
  let res := solve_trust_region solve m n J d r Delta in
  (snd res == 1 / Delta)%Q /\
  fst res = out_x (solve_linear_ldlt solve m n J d r (snd res)) /\
  sll_spec m n J d r (snd res) (solve_linear_ldlt solve m n J d r (snd res)).
Proof.
  intros HD Hd res. unfold res, solve_trust_region; cbn [fst snd].
  split; [reflexivity|]. split; [reflexivity|].
  apply sll_model_correct; [|exact Hd].
  unfold Qdiv. rewrite Qmult_1_l. apply Qinv_lt_0_compat. exact HD.
Qed.
End Contract.

(* (b) certificate form: no assumption on the solver *)
Theorem sll_certified_correct solve m n J d r lam :
  (0 < lam)%Q -> (forall j, (j < n)%nat -> (0 < vnth d j)%Q) ->
  sll_certified m n J d r lam (solve_linear_ldlt solve m n J d r lam) = true ->
  sll_spec m n J d r lam (solve_linear_ldlt solve m n J d r lam).
Proof.
  intros Hl Hd Hc. destruct (sll_certified_solves _ _ _ _ _ _ _ Hc) as [Hx Hy].
  apply sll_spec_of_solves; assumption.
Qed.

Theorem str_certified_correct solve m n J d r Delta :
  (0 < Delta)%Q -> (forall j, (j < n)%nat -> (0 < vnth d j)%Q) ->
  let res := solve_trust_region solve m n J d r Delta in
  let o := solve_linear_ldlt solve m n J d r (snd res) in
  sll_certified m n J d r (snd res) o = true ->
  (snd res == 1 / Delta)%Q /\ fst res = out_x o /\ sll_spec m n J d r (snd res) o.
Proof.
  intros HD Hd res o Hc. unfold res, solve_trust_region in *; cbn [fst snd] in *.
  split; [reflexivity|]. split; [reflexivity|].
  apply sll_certified_correct; [|exact Hd|exact Hc].
  unfold Qdiv. rewrite Qmult_1_l. apply Qinv_lt_0_compat. exact HD.
Qed.

(* ---- non-vacuity -------------------------------------------------------------------------------- *)
(* a rank-deficient 3 x 2 problem: J has rank 1 *)
Definition exJ : list (list Q) := [[1; 2]; [2; 4]; [0; 0]]%Q.
Definition exd : list Q := [1; 1 # 2]%Q.
Definition exr : list Q := [1; 1; -1]%Q.

Example ex_hyps_certificate :
  (0 < 1 # 4)%Q /\ (forall j, (j < 2)%nat -> (0 < vnth exd j)%Q) /\
  sll_certified 3 2 exJ exd exr (1 # 4) (sll_exact 3 2 exJ exd exr (1 # 4)) = true /\
  out_x (sll_exact 3 2 exJ exd exr (1 # 4)) = [-12 # 341; -96 # 341]%Q.
Proof.
  split; [reflexivity|]. split.
  - intros [|[|j]] Hj; try lia; reflexivity.
  - split; vm_compute; reflexivity.
Qed.

Example ex_spec_instance : sll_spec 3 2 exJ exd exr (1 # 4) (sll_exact 3 2 exJ exd exr (1 # 4)).
Proof.
  destruct ex_hyps_certificate as [Hl [Hd [Hc _]]].
  exact (sll_certified_correct gauss_solve 3 2 exJ exd exr (1 # 4) Hl Hd Hc).
Qed.

(* the contract's conclusion holds for the executable solver on this SPD instance *)
Example ex_contract_instance :
  spdQ 2 (assemble_H 3 2 exJ exd (1 # 4)) /\
  solves 2 (assemble_H 3 2 exJ exd (1 # 4)) (rhs 3 2 exJ exr)
         (gauss_solve (assemble_H 3 2 exJ exd (1 # 4)) (rhs 3 2 exJ exr)).
Proof.
  destruct ex_hyps_certificate as [Hl [Hd [Hc _]]]. split.
  - apply assemble_H_spd; assumption.
  - exact (proj1 (sll_certified_solves _ _ _ _ _ _ _ Hc)).
Qed.

(* C10_LinAlg: the hypotheses of the real-number theorems are satisfiable by a non-trivial state *)
Definition exJR (i j : nat) : R :=
  match i, j with 0%nat, 0%nat => 1 | 0%nat, 1%nat => 2 | 1%nat, 1%nat => 1 | _, _ => 0 end.
Definition exdR (j : nat) : R := match j with 0%nat => 1 | _ => 2 end.
Definition exrR (i : nat) : R := 1.
Definition exxR (j : nat) : R := match j with 0%nat => - 2 / 13 | _ => - 5 / 13 end.

Example ex_normal_eq : 0 < 1 / 2 /\ dpos 2 exdR /\ normal_eq 2 2 exJR exdR (1 / 2) exrR exxR.
Proof.
  split; [lra|]. split.
  - intros [|[|j]] Hj; cbn; try lra; lia.
  - intros [|[|k]] Hk; try lia; unfold Hv, Hm, bv, exJR, exdR, exrR, exxR; cbn; field.
Qed.

(* C10_Dphi: a differentiable solution curve exists (1 x 1 problem J = 1, d = 1, r = 1:
   (1 + l) x(l) = -1) *)
Example ex_curve :
  let Jc := fun (_ _ : nat) => 1 in let dc := fun _ : nat => 1 in let rc := fun _ : nat => 1 in
  let xc := fun (l : R) (_ : nat) => - 1 / (1 + l) in
  0 < 1 /\ dpos 1 dc /\ (forall l, 0 < l -> normal_eq 1 1 Jc dc l rc (xc l)) /\
  (forall j, (j < 1)%nat -> is_derive (fun l => xc l j) 1 (1 / 4)).
Proof.
  cbn zeta. split; [lra|]. split; [intros j _; lra|]. split.
  - intros l Hl k Hk. assert (k = 0%nat) by lia. subst k. unfold Hv, Hm, bv. cbn. field. lra.
  - intros j _. auto_derive; [lra|field].
Qed.
