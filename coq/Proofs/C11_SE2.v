(* Written with scripts/author/c11.py (committed output; the check builds this file against
   the freshly generated Gen/CS.v).  Property C11. *)
From Coq Require Import Reals List Lra.
From SV Require Import Base.GenPrelude Base.Mat Doc.Groups Base.Tactics Gen.CS Gen.SE2.
From Coquelicot Require Import Coquelicot.
From SV Require Import Base.Trig Doc.Exp.
Import ListNotations.
Local Open Scope R_scope.

Lemma cse2_2_val_is_product_of_exps :
  forall v1_0 v1_1 v1_2 v2_0 v2_1 v2_2 b0 b1 b2 b3 b4 b5 b6 b7 b8 u c out,
  Gen.CS.cs_basis2_rel [b0; b1; b2; b3; b4; b5; b6; b7; b8] [u] c ->
  Gen.CS.cse2_2_val_rel [v1_0; v1_1; v1_2] [v2_0; v2_1; v2_2] [b0; b1; b2; b3; b4; b5; b6; b7; b8] [u] out ->
  exists e1 e2 g1 g2,
    Gen.SE2.se2_exp_rel [nth 0 c 0 * v1_0; nth 0 c 0 * v1_1; nth 0 c 0 * v1_2] e1 /\
    Gen.SE2.se2_comp_rel [0; 0; 0; 1] e1 g1 /\
    Gen.SE2.se2_exp_rel [nth 1 c 0 * v2_0; nth 1 c 0 * v2_1; nth 1 c 0 * v2_2] e2 /\
    Gen.SE2.se2_comp_rel g1 e2 g2 /\
    out = g2.
Proof.
  intros v1_0 v1_1 v1_2 v2_0 v2_1 v2_2 b0 b1 b2 b3 b4 b5 b6 b7 b8 u c out Hc Hrel. rel_cases Hc. rel_cases Hrel;
  try (infeasible ltac:(revert_props; autounfold with cse2_2_val_db cs_basis2_db se2_exp_db se2_comp_db; sv_unfold; unfold eps2));
  eexists; eexists; eexists; eexists;
  (split; [rel_pick_eq ltac:(revert_props; autounfold with cse2_2_val_db cs_basis2_db se2_exp_db se2_comp_db; sv_unfold) ltac:(reflexivity)|]);
  (split; [rel_pick_eq ltac:(revert_props; autounfold with cse2_2_val_db cs_basis2_db se2_exp_db se2_comp_db; sv_unfold) ltac:(reflexivity)|]);
  (split; [rel_pick_eq ltac:(revert_props; autounfold with cse2_2_val_db cs_basis2_db se2_exp_db se2_comp_db; sv_unfold) ltac:(reflexivity)|]);
  (split; [rel_pick_eq ltac:(revert_props; autounfold with cse2_2_val_db cs_basis2_db se2_exp_db se2_comp_db; sv_unfold) ltac:(reflexivity)|]);
  autounfold with cse2_2_val_db cs_basis2_db se2_exp_db se2_comp_db; sv_unfold; first [reflexivity | list_eq; ring].
Qed.

