(* Written with scripts/author/c11.py (committed output; the check builds this file against
   the freshly generated Gen/CS.v).  Property C11. *)
From Coq Require Import Reals List Lra.
From SV Require Import Base.GenPrelude Base.Mat Doc.Groups Base.Tactics Gen.CS Gen.SO3.
From Coquelicot Require Import Coquelicot.
From SV Require Import Base.Trig Doc.Exp.
Import ListNotations.
Local Open Scope R_scope.

Lemma cs_basis1_spec :
  forall b0 b1 b2 b3 u c, Gen.CS.cs_basis1_rel [b0; b1; b2; b3] [u] c ->
  c = [(1 * (1) * b1 + 1 * (u) * b3)].
Proof.
  intros b0 b1 b2 b3 u c Hc. rel_cases Hc. autounfold with cs_basis1_db. sv_unfold. list_eq; ring.
Qed.

Lemma cs_basis2_spec :
  forall b0 b1 b2 b3 b4 b5 b6 b7 b8 u c, Gen.CS.cs_basis2_rel [b0; b1; b2; b3; b4; b5; b6; b7; b8] [u] c ->
  c = [(1 * (1) * b1 + 1 * (u) * b4 + 1 * (u * u) * b7); (1 * (1) * b2 + 1 * (u) * b5 + 1 * (u * u) * b8)].
Proof.
  intros b0 b1 b2 b3 b4 b5 b6 b7 b8 u c Hc. rel_cases Hc. autounfold with cs_basis2_db. sv_unfold. list_eq; ring.
Qed.

Lemma cso3_1_val_is_product_of_exps :
  forall v1_0 v1_1 v1_2 b0 b1 b2 b3 u c out,
  Gen.CS.cs_basis1_rel [b0; b1; b2; b3] [u] c ->
  Gen.CS.cso3_1_val_rel [v1_0; v1_1; v1_2] [b0; b1; b2; b3] [u] out ->
  exists e1 g1,
    Gen.SO3.so3_exp_rel [nth 0 c 0 * v1_0; nth 0 c 0 * v1_1; nth 0 c 0 * v1_2] e1 /\
    Gen.SO3.so3_comp_rel [0; 0; 0; 1] e1 g1 /\
    out = g1.
Proof.
  intros v1_0 v1_1 v1_2 b0 b1 b2 b3 u c out Hc Hrel. rel_cases Hc. rel_cases Hrel;
  try (infeasible ltac:(revert_props; autounfold with cso3_1_val_db cs_basis1_db so3_exp_db so3_comp_db; sv_unfold; unfold eps2));
  eexists; eexists;
  (split; [rel_pick_eq ltac:(revert_props; autounfold with cso3_1_val_db cs_basis1_db so3_exp_db so3_comp_db; sv_unfold) ltac:(reflexivity)|]);
  (split; [rel_pick_eq ltac:(revert_props; autounfold with cso3_1_val_db cs_basis1_db so3_exp_db so3_comp_db; sv_unfold) ltac:(reflexivity)|]);
  autounfold with cso3_1_val_db cs_basis1_db so3_exp_db so3_comp_db; sv_unfold; first [reflexivity | list_eq; ring].
Qed.

Lemma cso3_1_vel_spec :
  forall v1_0 v1_1 v1_2 b0 b1 b2 b3 u out,
  Gen.CS.cso3_1_vel_rel [v1_0; v1_1; v1_2] [b0; b1; b2; b3] [u] out ->
  out = [(1 * (1) * b3) * v1_0; (1 * (1) * b3) * v1_1; (1 * (1) * b3) * v1_2].
Proof.
  intros v1_0 v1_1 v1_2 b0 b1 b2 b3 u out Hrel. rel_cases Hrel; autounfold with cso3_1_vel_db; sv_unfold; list_eq; ring.
Qed.

