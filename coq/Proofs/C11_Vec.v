(* Written with scripts/author/c11.py (committed output; the check builds this file against
   the freshly generated Gen/CS.v).  Property C11. *)
From Coq Require Import Reals List Lra.
From SV Require Import Base.GenPrelude Base.Mat Doc.Groups Base.Tactics Gen.CS.
From Coquelicot Require Import Coquelicot.
From SV Require Import Base.Trig Doc.Exp.
Import ListNotations.
Local Open Scope R_scope.

Lemma csv1_val_spec :
  forall v1_0 v1_1 b0 b1 b2 b3 u out,
  Gen.CS.csv1_val_rel [v1_0; v1_1] [b0; b1; b2; b3] [u] out ->
  out = [(1 * (1) * b1 + 1 * (u) * b3) * v1_0; (1 * (1) * b1 + 1 * (u) * b3) * v1_1].
Proof.
  intros v1_0 v1_1 b0 b1 b2 b3 u out Hrel. rel_cases Hrel. autounfold with csv1_val_db. sv_unfold. list_eq; ring.
Qed.

Lemma csv1_vel_spec :
  forall v1_0 v1_1 b0 b1 b2 b3 u out,
  Gen.CS.csv1_vel_rel [v1_0; v1_1] [b0; b1; b2; b3] [u] out ->
  out = [(1 * (1) * b3) * v1_0; (1 * (1) * b3) * v1_1].
Proof.
  intros v1_0 v1_1 b0 b1 b2 b3 u out Hrel. rel_cases Hrel. autounfold with csv1_vel_db. sv_unfold. list_eq; ring.
Qed.

Lemma csv1_acc_spec :
  forall v1_0 v1_1 b0 b1 b2 b3 u out,
  Gen.CS.csv1_acc_rel [v1_0; v1_1] [b0; b1; b2; b3] [u] out ->
  out = [0 * v1_0; 0 * v1_1].
Proof.
  intros v1_0 v1_1 b0 b1 b2 b3 u out Hrel. rel_cases Hrel. autounfold with csv1_acc_db. sv_unfold. list_eq; ring.
Qed.

Lemma csv1_jer_spec :
  forall v1_0 v1_1 b0 b1 b2 b3 u out,
  Gen.CS.csv1_jer_rel [v1_0; v1_1] [b0; b1; b2; b3] [u] out ->
  out = [0 * v1_0; 0 * v1_1].
Proof.
  intros v1_0 v1_1 b0 b1 b2 b3 u out Hrel. rel_cases Hrel. autounfold with csv1_jer_db. sv_unfold. list_eq; ring.
Qed.

Lemma csv1_vel_is_derivative_of_val :
  forall v1_0 v1_1 b0 b1 b2 b3 u i, (i < 2)%nat ->
  is_derive (fun x => nth i (Gen.CS.csv1_val_p0 [v1_0; v1_1] [b0; b1; b2; b3] [x]) 0) u (nth i (Gen.CS.csv1_vel_p0 [v1_0; v1_1] [b0; b1; b2; b3] [u]) 0).
Proof.
  intros v1_0 v1_1 b0 b1 b2 b3 u i Hi. nat_cases i; autounfold with csv1_val_db csv1_vel_db; sv_unfold;
  (auto_derive; [ repeat split; auto | ring ]).
Qed.

Lemma csv1_acc_is_derivative_of_vel :
  forall v1_0 v1_1 b0 b1 b2 b3 u i, (i < 2)%nat ->
  is_derive (fun x => nth i (Gen.CS.csv1_vel_p0 [v1_0; v1_1] [b0; b1; b2; b3] [x]) 0) u (nth i (Gen.CS.csv1_acc_p0 [v1_0; v1_1] [b0; b1; b2; b3] [u]) 0).
Proof.
  intros v1_0 v1_1 b0 b1 b2 b3 u i Hi. nat_cases i; autounfold with csv1_vel_db csv1_acc_db; sv_unfold;
  (auto_derive; [ repeat split; auto | ring ]).
Qed.

Lemma csv1_jer_is_derivative_of_acc :
  forall v1_0 v1_1 b0 b1 b2 b3 u i, (i < 2)%nat ->
  is_derive (fun x => nth i (Gen.CS.csv1_acc_p0 [v1_0; v1_1] [b0; b1; b2; b3] [x]) 0) u (nth i (Gen.CS.csv1_jer_p0 [v1_0; v1_1] [b0; b1; b2; b3] [u]) 0).
Proof.
  intros v1_0 v1_1 b0 b1 b2 b3 u i Hi. nat_cases i; autounfold with csv1_acc_db csv1_jer_db; sv_unfold;
  (auto_derive; [ repeat split; auto | ring ]).
Qed.

Lemma csv2_val_spec :
  forall v1_0 v1_1 v2_0 v2_1 b0 b1 b2 b3 b4 b5 b6 b7 b8 u out,
  Gen.CS.csv2_val_rel [v1_0; v1_1] [v2_0; v2_1] [b0; b1; b2; b3; b4; b5; b6; b7; b8] [u] out ->
  out = [(1 * (1) * b1 + 1 * (u) * b4 + 1 * (u * u) * b7) * v1_0 + (1 * (1) * b2 + 1 * (u) * b5 + 1 * (u * u) * b8) * v2_0; (1 * (1) * b1 + 1 * (u) * b4 + 1 * (u * u) * b7) * v1_1 + (1 * (1) * b2 + 1 * (u) * b5 + 1 * (u * u) * b8) * v2_1].
Proof.
  intros v1_0 v1_1 v2_0 v2_1 b0 b1 b2 b3 b4 b5 b6 b7 b8 u out Hrel. rel_cases Hrel. autounfold with csv2_val_db. sv_unfold. list_eq; ring.
Qed.

Lemma csv2_vel_spec :
  forall v1_0 v1_1 v2_0 v2_1 b0 b1 b2 b3 b4 b5 b6 b7 b8 u out,
  Gen.CS.csv2_vel_rel [v1_0; v1_1] [v2_0; v2_1] [b0; b1; b2; b3; b4; b5; b6; b7; b8] [u] out ->
  out = [(1 * (1) * b4 + 2 * (u) * b7) * v1_0 + (1 * (1) * b5 + 2 * (u) * b8) * v2_0; (1 * (1) * b4 + 2 * (u) * b7) * v1_1 + (1 * (1) * b5 + 2 * (u) * b8) * v2_1].
Proof.
  intros v1_0 v1_1 v2_0 v2_1 b0 b1 b2 b3 b4 b5 b6 b7 b8 u out Hrel. rel_cases Hrel. autounfold with csv2_vel_db. sv_unfold. list_eq; ring.
Qed.

Lemma csv2_acc_spec :
  forall v1_0 v1_1 v2_0 v2_1 b0 b1 b2 b3 b4 b5 b6 b7 b8 u out,
  Gen.CS.csv2_acc_rel [v1_0; v1_1] [v2_0; v2_1] [b0; b1; b2; b3; b4; b5; b6; b7; b8] [u] out ->
  out = [(2 * (1) * b7) * v1_0 + (2 * (1) * b8) * v2_0; (2 * (1) * b7) * v1_1 + (2 * (1) * b8) * v2_1].
Proof.
  intros v1_0 v1_1 v2_0 v2_1 b0 b1 b2 b3 b4 b5 b6 b7 b8 u out Hrel. rel_cases Hrel. autounfold with csv2_acc_db. sv_unfold. list_eq; ring.
Qed.

Lemma csv2_jer_spec :
  forall v1_0 v1_1 v2_0 v2_1 b0 b1 b2 b3 b4 b5 b6 b7 b8 u out,
  Gen.CS.csv2_jer_rel [v1_0; v1_1] [v2_0; v2_1] [b0; b1; b2; b3; b4; b5; b6; b7; b8] [u] out ->
  out = [0 * v1_0 + 0 * v2_0; 0 * v1_1 + 0 * v2_1].
Proof.
  intros v1_0 v1_1 v2_0 v2_1 b0 b1 b2 b3 b4 b5 b6 b7 b8 u out Hrel. rel_cases Hrel. autounfold with csv2_jer_db. sv_unfold. list_eq; ring.
Qed.

Lemma csv2_vel_is_derivative_of_val :
  forall v1_0 v1_1 v2_0 v2_1 b0 b1 b2 b3 b4 b5 b6 b7 b8 u i, (i < 2)%nat ->
  is_derive (fun x => nth i (Gen.CS.csv2_val_p0 [v1_0; v1_1] [v2_0; v2_1] [b0; b1; b2; b3; b4; b5; b6; b7; b8] [x]) 0) u (nth i (Gen.CS.csv2_vel_p0 [v1_0; v1_1] [v2_0; v2_1] [b0; b1; b2; b3; b4; b5; b6; b7; b8] [u]) 0).
Proof.
  intros v1_0 v1_1 v2_0 v2_1 b0 b1 b2 b3 b4 b5 b6 b7 b8 u i Hi. nat_cases i; autounfold with csv2_val_db csv2_vel_db; sv_unfold;
  (auto_derive; [ repeat split; auto | ring ]).
Qed.

Lemma csv2_acc_is_derivative_of_vel :
  forall v1_0 v1_1 v2_0 v2_1 b0 b1 b2 b3 b4 b5 b6 b7 b8 u i, (i < 2)%nat ->
  is_derive (fun x => nth i (Gen.CS.csv2_vel_p0 [v1_0; v1_1] [v2_0; v2_1] [b0; b1; b2; b3; b4; b5; b6; b7; b8] [x]) 0) u (nth i (Gen.CS.csv2_acc_p0 [v1_0; v1_1] [v2_0; v2_1] [b0; b1; b2; b3; b4; b5; b6; b7; b8] [u]) 0).
Proof.
  intros v1_0 v1_1 v2_0 v2_1 b0 b1 b2 b3 b4 b5 b6 b7 b8 u i Hi. nat_cases i; autounfold with csv2_vel_db csv2_acc_db; sv_unfold;
  (auto_derive; [ repeat split; auto | ring ]).
Qed.

Lemma csv2_jer_is_derivative_of_acc :
  forall v1_0 v1_1 v2_0 v2_1 b0 b1 b2 b3 b4 b5 b6 b7 b8 u i, (i < 2)%nat ->
  is_derive (fun x => nth i (Gen.CS.csv2_acc_p0 [v1_0; v1_1] [v2_0; v2_1] [b0; b1; b2; b3; b4; b5; b6; b7; b8] [x]) 0) u (nth i (Gen.CS.csv2_jer_p0 [v1_0; v1_1] [v2_0; v2_1] [b0; b1; b2; b3; b4; b5; b6; b7; b8] [u]) 0).
Proof.
  intros v1_0 v1_1 v2_0 v2_1 b0 b1 b2 b3 b4 b5 b6 b7 b8 u i Hi. nat_cases i; autounfold with csv2_acc_db csv2_jer_db; sv_unfold;
  (auto_derive; [ repeat split; auto | ring ]).
Qed.

Lemma csv3_val_spec :
  forall v1_0 v1_1 v2_0 v2_1 v3_0 v3_1 b0 b1 b2 b3 b4 b5 b6 b7 b8 b9 b10 b11 b12 b13 b14 b15 u out,
  Gen.CS.csv3_val_rel [v1_0; v1_1] [v2_0; v2_1] [v3_0; v3_1] [b0; b1; b2; b3; b4; b5; b6; b7; b8; b9; b10; b11; b12; b13; b14; b15] [u] out ->
  out = [(1 * (1) * b1 + 1 * (u) * b5 + 1 * (u * u) * b9 + 1 * (u * u * u) * b13) * v1_0 + (1 * (1) * b2 + 1 * (u) * b6 + 1 * (u * u) * b10 + 1 * (u * u * u) * b14) * v2_0 + (1 * (1) * b3 + 1 * (u) * b7 + 1 * (u * u) * b11 + 1 * (u * u * u) * b15) * v3_0; (1 * (1) * b1 + 1 * (u) * b5 + 1 * (u * u) * b9 + 1 * (u * u * u) * b13) * v1_1 + (1 * (1) * b2 + 1 * (u) * b6 + 1 * (u * u) * b10 + 1 * (u * u * u) * b14) * v2_1 + (1 * (1) * b3 + 1 * (u) * b7 + 1 * (u * u) * b11 + 1 * (u * u * u) * b15) * v3_1].
Proof.
  intros v1_0 v1_1 v2_0 v2_1 v3_0 v3_1 b0 b1 b2 b3 b4 b5 b6 b7 b8 b9 b10 b11 b12 b13 b14 b15 u out Hrel. rel_cases Hrel. autounfold with csv3_val_db. sv_unfold. list_eq; ring.
Qed.

Lemma csv3_vel_spec :
  forall v1_0 v1_1 v2_0 v2_1 v3_0 v3_1 b0 b1 b2 b3 b4 b5 b6 b7 b8 b9 b10 b11 b12 b13 b14 b15 u out,
  Gen.CS.csv3_vel_rel [v1_0; v1_1] [v2_0; v2_1] [v3_0; v3_1] [b0; b1; b2; b3; b4; b5; b6; b7; b8; b9; b10; b11; b12; b13; b14; b15] [u] out ->
  out = [(1 * (1) * b5 + 2 * (u) * b9 + 3 * (u * u) * b13) * v1_0 + (1 * (1) * b6 + 2 * (u) * b10 + 3 * (u * u) * b14) * v2_0 + (1 * (1) * b7 + 2 * (u) * b11 + 3 * (u * u) * b15) * v3_0; (1 * (1) * b5 + 2 * (u) * b9 + 3 * (u * u) * b13) * v1_1 + (1 * (1) * b6 + 2 * (u) * b10 + 3 * (u * u) * b14) * v2_1 + (1 * (1) * b7 + 2 * (u) * b11 + 3 * (u * u) * b15) * v3_1].
Proof.
  intros v1_0 v1_1 v2_0 v2_1 v3_0 v3_1 b0 b1 b2 b3 b4 b5 b6 b7 b8 b9 b10 b11 b12 b13 b14 b15 u out Hrel. rel_cases Hrel. autounfold with csv3_vel_db. sv_unfold. list_eq; ring.
Qed.

Lemma csv3_acc_spec :
  forall v1_0 v1_1 v2_0 v2_1 v3_0 v3_1 b0 b1 b2 b3 b4 b5 b6 b7 b8 b9 b10 b11 b12 b13 b14 b15 u out,
  Gen.CS.csv3_acc_rel [v1_0; v1_1] [v2_0; v2_1] [v3_0; v3_1] [b0; b1; b2; b3; b4; b5; b6; b7; b8; b9; b10; b11; b12; b13; b14; b15] [u] out ->
  out = [(2 * (1) * b9 + 6 * (u) * b13) * v1_0 + (2 * (1) * b10 + 6 * (u) * b14) * v2_0 + (2 * (1) * b11 + 6 * (u) * b15) * v3_0; (2 * (1) * b9 + 6 * (u) * b13) * v1_1 + (2 * (1) * b10 + 6 * (u) * b14) * v2_1 + (2 * (1) * b11 + 6 * (u) * b15) * v3_1].
Proof.
  intros v1_0 v1_1 v2_0 v2_1 v3_0 v3_1 b0 b1 b2 b3 b4 b5 b6 b7 b8 b9 b10 b11 b12 b13 b14 b15 u out Hrel. rel_cases Hrel. autounfold with csv3_acc_db. sv_unfold. list_eq; ring.
Qed.

Lemma csv3_jer_spec :
  forall v1_0 v1_1 v2_0 v2_1 v3_0 v3_1 b0 b1 b2 b3 b4 b5 b6 b7 b8 b9 b10 b11 b12 b13 b14 b15 u out,
  Gen.CS.csv3_jer_rel [v1_0; v1_1] [v2_0; v2_1] [v3_0; v3_1] [b0; b1; b2; b3; b4; b5; b6; b7; b8; b9; b10; b11; b12; b13; b14; b15] [u] out ->
  out = [(6 * (1) * b13) * v1_0 + (6 * (1) * b14) * v2_0 + (6 * (1) * b15) * v3_0; (6 * (1) * b13) * v1_1 + (6 * (1) * b14) * v2_1 + (6 * (1) * b15) * v3_1].
Proof.
  intros v1_0 v1_1 v2_0 v2_1 v3_0 v3_1 b0 b1 b2 b3 b4 b5 b6 b7 b8 b9 b10 b11 b12 b13 b14 b15 u out Hrel. rel_cases Hrel. autounfold with csv3_jer_db. sv_unfold. list_eq; ring.
Qed.

Lemma csv3_vel_is_derivative_of_val :
  forall v1_0 v1_1 v2_0 v2_1 v3_0 v3_1 b0 b1 b2 b3 b4 b5 b6 b7 b8 b9 b10 b11 b12 b13 b14 b15 u i, (i < 2)%nat ->
  is_derive (fun x => nth i (Gen.CS.csv3_val_p0 [v1_0; v1_1] [v2_0; v2_1] [v3_0; v3_1] [b0; b1; b2; b3; b4; b5; b6; b7; b8; b9; b10; b11; b12; b13; b14; b15] [x]) 0) u (nth i (Gen.CS.csv3_vel_p0 [v1_0; v1_1] [v2_0; v2_1] [v3_0; v3_1] [b0; b1; b2; b3; b4; b5; b6; b7; b8; b9; b10; b11; b12; b13; b14; b15] [u]) 0).
Proof.
  intros v1_0 v1_1 v2_0 v2_1 v3_0 v3_1 b0 b1 b2 b3 b4 b5 b6 b7 b8 b9 b10 b11 b12 b13 b14 b15 u i Hi. nat_cases i; autounfold with csv3_val_db csv3_vel_db; sv_unfold;
  (auto_derive; [ repeat split; auto | ring ]).
Qed.

Lemma csv3_acc_is_derivative_of_vel :
  forall v1_0 v1_1 v2_0 v2_1 v3_0 v3_1 b0 b1 b2 b3 b4 b5 b6 b7 b8 b9 b10 b11 b12 b13 b14 b15 u i, (i < 2)%nat ->
  is_derive (fun x => nth i (Gen.CS.csv3_vel_p0 [v1_0; v1_1] [v2_0; v2_1] [v3_0; v3_1] [b0; b1; b2; b3; b4; b5; b6; b7; b8; b9; b10; b11; b12; b13; b14; b15] [x]) 0) u (nth i (Gen.CS.csv3_acc_p0 [v1_0; v1_1] [v2_0; v2_1] [v3_0; v3_1] [b0; b1; b2; b3; b4; b5; b6; b7; b8; b9; b10; b11; b12; b13; b14; b15] [u]) 0).
Proof.
  intros v1_0 v1_1 v2_0 v2_1 v3_0 v3_1 b0 b1 b2 b3 b4 b5 b6 b7 b8 b9 b10 b11 b12 b13 b14 b15 u i Hi. nat_cases i; autounfold with csv3_vel_db csv3_acc_db; sv_unfold;
  (auto_derive; [ repeat split; auto | ring ]).
Qed.

Lemma csv3_jer_is_derivative_of_acc :
  forall v1_0 v1_1 v2_0 v2_1 v3_0 v3_1 b0 b1 b2 b3 b4 b5 b6 b7 b8 b9 b10 b11 b12 b13 b14 b15 u i, (i < 2)%nat ->
  is_derive (fun x => nth i (Gen.CS.csv3_acc_p0 [v1_0; v1_1] [v2_0; v2_1] [v3_0; v3_1] [b0; b1; b2; b3; b4; b5; b6; b7; b8; b9; b10; b11; b12; b13; b14; b15] [x]) 0) u (nth i (Gen.CS.csv3_jer_p0 [v1_0; v1_1] [v2_0; v2_1] [v3_0; v3_1] [b0; b1; b2; b3; b4; b5; b6; b7; b8; b9; b10; b11; b12; b13; b14; b15] [u]) 0).
Proof.
  intros v1_0 v1_1 v2_0 v2_1 v3_0 v3_1 b0 b1 b2 b3 b4 b5 b6 b7 b8 b9 b10 b11 b12 b13 b14 b15 u i Hi. nat_cases i; autounfold with csv3_acc_db csv3_jer_db; sv_unfold;
  (auto_derive; [ repeat split; auto | ring ]).
Qed.

Lemma csv4_val_spec :
  forall v1_0 v1_1 v2_0 v2_1 v3_0 v3_1 v4_0 v4_1 b0 b1 b2 b3 b4 b5 b6 b7 b8 b9 b10 b11 b12 b13 b14 b15 b16 b17 b18 b19 b20 b21 b22 b23 b24 u out,
  Gen.CS.csv4_val_rel [v1_0; v1_1] [v2_0; v2_1] [v3_0; v3_1] [v4_0; v4_1] [b0; b1; b2; b3; b4; b5; b6; b7; b8; b9; b10; b11; b12; b13; b14; b15; b16; b17; b18; b19; b20; b21; b22; b23; b24] [u] out ->
  out = [(1 * (1) * b1 + 1 * (u) * b6 + 1 * (u * u) * b11 + 1 * (u * u * u) * b16 + 1 * (u * u * u * u) * b21) * v1_0 + (1 * (1) * b2 + 1 * (u) * b7 + 1 * (u * u) * b12 + 1 * (u * u * u) * b17 + 1 * (u * u * u * u) * b22) * v2_0 + (1 * (1) * b3 + 1 * (u) * b8 + 1 * (u * u) * b13 + 1 * (u * u * u) * b18 + 1 * (u * u * u * u) * b23) * v3_0 + (1 * (1) * b4 + 1 * (u) * b9 + 1 * (u * u) * b14 + 1 * (u * u * u) * b19 + 1 * (u * u * u * u) * b24) * v4_0; (1 * (1) * b1 + 1 * (u) * b6 + 1 * (u * u) * b11 + 1 * (u * u * u) * b16 + 1 * (u * u * u * u) * b21) * v1_1 + (1 * (1) * b2 + 1 * (u) * b7 + 1 * (u * u) * b12 + 1 * (u * u * u) * b17 + 1 * (u * u * u * u) * b22) * v2_1 + (1 * (1) * b3 + 1 * (u) * b8 + 1 * (u * u) * b13 + 1 * (u * u * u) * b18 + 1 * (u * u * u * u) * b23) * v3_1 + (1 * (1) * b4 + 1 * (u) * b9 + 1 * (u * u) * b14 + 1 * (u * u * u) * b19 + 1 * (u * u * u * u) * b24) * v4_1].
Proof.
  intros v1_0 v1_1 v2_0 v2_1 v3_0 v3_1 v4_0 v4_1 b0 b1 b2 b3 b4 b5 b6 b7 b8 b9 b10 b11 b12 b13 b14 b15 b16 b17 b18 b19 b20 b21 b22 b23 b24 u out Hrel. rel_cases Hrel. autounfold with csv4_val_db. sv_unfold. list_eq; ring.
Qed.

Lemma csv4_vel_spec :
  forall v1_0 v1_1 v2_0 v2_1 v3_0 v3_1 v4_0 v4_1 b0 b1 b2 b3 b4 b5 b6 b7 b8 b9 b10 b11 b12 b13 b14 b15 b16 b17 b18 b19 b20 b21 b22 b23 b24 u out,
  Gen.CS.csv4_vel_rel [v1_0; v1_1] [v2_0; v2_1] [v3_0; v3_1] [v4_0; v4_1] [b0; b1; b2; b3; b4; b5; b6; b7; b8; b9; b10; b11; b12; b13; b14; b15; b16; b17; b18; b19; b20; b21; b22; b23; b24] [u] out ->
  out = [(1 * (1) * b6 + 2 * (u) * b11 + 3 * (u * u) * b16 + 4 * (u * u * u) * b21) * v1_0 + (1 * (1) * b7 + 2 * (u) * b12 + 3 * (u * u) * b17 + 4 * (u * u * u) * b22) * v2_0 + (1 * (1) * b8 + 2 * (u) * b13 + 3 * (u * u) * b18 + 4 * (u * u * u) * b23) * v3_0 + (1 * (1) * b9 + 2 * (u) * b14 + 3 * (u * u) * b19 + 4 * (u * u * u) * b24) * v4_0; (1 * (1) * b6 + 2 * (u) * b11 + 3 * (u * u) * b16 + 4 * (u * u * u) * b21) * v1_1 + (1 * (1) * b7 + 2 * (u) * b12 + 3 * (u * u) * b17 + 4 * (u * u * u) * b22) * v2_1 + (1 * (1) * b8 + 2 * (u) * b13 + 3 * (u * u) * b18 + 4 * (u * u * u) * b23) * v3_1 + (1 * (1) * b9 + 2 * (u) * b14 + 3 * (u * u) * b19 + 4 * (u * u * u) * b24) * v4_1].
Proof.
  intros v1_0 v1_1 v2_0 v2_1 v3_0 v3_1 v4_0 v4_1 b0 b1 b2 b3 b4 b5 b6 b7 b8 b9 b10 b11 b12 b13 b14 b15 b16 b17 b18 b19 b20 b21 b22 b23 b24 u out Hrel. rel_cases Hrel. autounfold with csv4_vel_db. sv_unfold. list_eq; ring.
Qed.

Lemma csv4_acc_spec :
  forall v1_0 v1_1 v2_0 v2_1 v3_0 v3_1 v4_0 v4_1 b0 b1 b2 b3 b4 b5 b6 b7 b8 b9 b10 b11 b12 b13 b14 b15 b16 b17 b18 b19 b20 b21 b22 b23 b24 u out,
  Gen.CS.csv4_acc_rel [v1_0; v1_1] [v2_0; v2_1] [v3_0; v3_1] [v4_0; v4_1] [b0; b1; b2; b3; b4; b5; b6; b7; b8; b9; b10; b11; b12; b13; b14; b15; b16; b17; b18; b19; b20; b21; b22; b23; b24] [u] out ->
  out = [(2 * (1) * b11 + 6 * (u) * b16 + 12 * (u * u) * b21) * v1_0 + (2 * (1) * b12 + 6 * (u) * b17 + 12 * (u * u) * b22) * v2_0 + (2 * (1) * b13 + 6 * (u) * b18 + 12 * (u * u) * b23) * v3_0 + (2 * (1) * b14 + 6 * (u) * b19 + 12 * (u * u) * b24) * v4_0; (2 * (1) * b11 + 6 * (u) * b16 + 12 * (u * u) * b21) * v1_1 + (2 * (1) * b12 + 6 * (u) * b17 + 12 * (u * u) * b22) * v2_1 + (2 * (1) * b13 + 6 * (u) * b18 + 12 * (u * u) * b23) * v3_1 + (2 * (1) * b14 + 6 * (u) * b19 + 12 * (u * u) * b24) * v4_1].
Proof.
  intros v1_0 v1_1 v2_0 v2_1 v3_0 v3_1 v4_0 v4_1 b0 b1 b2 b3 b4 b5 b6 b7 b8 b9 b10 b11 b12 b13 b14 b15 b16 b17 b18 b19 b20 b21 b22 b23 b24 u out Hrel. rel_cases Hrel. autounfold with csv4_acc_db. sv_unfold. list_eq; ring.
Qed.

Lemma csv4_jer_spec :
  forall v1_0 v1_1 v2_0 v2_1 v3_0 v3_1 v4_0 v4_1 b0 b1 b2 b3 b4 b5 b6 b7 b8 b9 b10 b11 b12 b13 b14 b15 b16 b17 b18 b19 b20 b21 b22 b23 b24 u out,
  Gen.CS.csv4_jer_rel [v1_0; v1_1] [v2_0; v2_1] [v3_0; v3_1] [v4_0; v4_1] [b0; b1; b2; b3; b4; b5; b6; b7; b8; b9; b10; b11; b12; b13; b14; b15; b16; b17; b18; b19; b20; b21; b22; b23; b24] [u] out ->
  out = [(6 * (1) * b16 + 24 * (u) * b21) * v1_0 + (6 * (1) * b17 + 24 * (u) * b22) * v2_0 + (6 * (1) * b18 + 24 * (u) * b23) * v3_0 + (6 * (1) * b19 + 24 * (u) * b24) * v4_0; (6 * (1) * b16 + 24 * (u) * b21) * v1_1 + (6 * (1) * b17 + 24 * (u) * b22) * v2_1 + (6 * (1) * b18 + 24 * (u) * b23) * v3_1 + (6 * (1) * b19 + 24 * (u) * b24) * v4_1].
Proof.
  intros v1_0 v1_1 v2_0 v2_1 v3_0 v3_1 v4_0 v4_1 b0 b1 b2 b3 b4 b5 b6 b7 b8 b9 b10 b11 b12 b13 b14 b15 b16 b17 b18 b19 b20 b21 b22 b23 b24 u out Hrel. rel_cases Hrel. autounfold with csv4_jer_db. sv_unfold. list_eq; ring.
Qed.

Lemma csv4_vel_is_derivative_of_val :
  forall v1_0 v1_1 v2_0 v2_1 v3_0 v3_1 v4_0 v4_1 b0 b1 b2 b3 b4 b5 b6 b7 b8 b9 b10 b11 b12 b13 b14 b15 b16 b17 b18 b19 b20 b21 b22 b23 b24 u i, (i < 2)%nat ->
  is_derive (fun x => nth i (Gen.CS.csv4_val_p0 [v1_0; v1_1] [v2_0; v2_1] [v3_0; v3_1] [v4_0; v4_1] [b0; b1; b2; b3; b4; b5; b6; b7; b8; b9; b10; b11; b12; b13; b14; b15; b16; b17; b18; b19; b20; b21; b22; b23; b24] [x]) 0) u (nth i (Gen.CS.csv4_vel_p0 [v1_0; v1_1] [v2_0; v2_1] [v3_0; v3_1] [v4_0; v4_1] [b0; b1; b2; b3; b4; b5; b6; b7; b8; b9; b10; b11; b12; b13; b14; b15; b16; b17; b18; b19; b20; b21; b22; b23; b24] [u]) 0).
Proof.
  intros v1_0 v1_1 v2_0 v2_1 v3_0 v3_1 v4_0 v4_1 b0 b1 b2 b3 b4 b5 b6 b7 b8 b9 b10 b11 b12 b13 b14 b15 b16 b17 b18 b19 b20 b21 b22 b23 b24 u i Hi. nat_cases i; autounfold with csv4_val_db csv4_vel_db; sv_unfold;
  (auto_derive; [ repeat split; auto | ring ]).
Qed.

Lemma csv4_acc_is_derivative_of_vel :
  forall v1_0 v1_1 v2_0 v2_1 v3_0 v3_1 v4_0 v4_1 b0 b1 b2 b3 b4 b5 b6 b7 b8 b9 b10 b11 b12 b13 b14 b15 b16 b17 b18 b19 b20 b21 b22 b23 b24 u i, (i < 2)%nat ->
  is_derive (fun x => nth i (Gen.CS.csv4_vel_p0 [v1_0; v1_1] [v2_0; v2_1] [v3_0; v3_1] [v4_0; v4_1] [b0; b1; b2; b3; b4; b5; b6; b7; b8; b9; b10; b11; b12; b13; b14; b15; b16; b17; b18; b19; b20; b21; b22; b23; b24] [x]) 0) u (nth i (Gen.CS.csv4_acc_p0 [v1_0; v1_1] [v2_0; v2_1] [v3_0; v3_1] [v4_0; v4_1] [b0; b1; b2; b3; b4; b5; b6; b7; b8; b9; b10; b11; b12; b13; b14; b15; b16; b17; b18; b19; b20; b21; b22; b23; b24] [u]) 0).
Proof.
  intros v1_0 v1_1 v2_0 v2_1 v3_0 v3_1 v4_0 v4_1 b0 b1 b2 b3 b4 b5 b6 b7 b8 b9 b10 b11 b12 b13 b14 b15 b16 b17 b18 b19 b20 b21 b22 b23 b24 u i Hi. nat_cases i; autounfold with csv4_vel_db csv4_acc_db; sv_unfold;
  (auto_derive; [ repeat split; auto | ring ]).
Qed.

Lemma csv4_jer_is_derivative_of_acc :
  forall v1_0 v1_1 v2_0 v2_1 v3_0 v3_1 v4_0 v4_1 b0 b1 b2 b3 b4 b5 b6 b7 b8 b9 b10 b11 b12 b13 b14 b15 b16 b17 b18 b19 b20 b21 b22 b23 b24 u i, (i < 2)%nat ->
  is_derive (fun x => nth i (Gen.CS.csv4_acc_p0 [v1_0; v1_1] [v2_0; v2_1] [v3_0; v3_1] [v4_0; v4_1] [b0; b1; b2; b3; b4; b5; b6; b7; b8; b9; b10; b11; b12; b13; b14; b15; b16; b17; b18; b19; b20; b21; b22; b23; b24] [x]) 0) u (nth i (Gen.CS.csv4_jer_p0 [v1_0; v1_1] [v2_0; v2_1] [v3_0; v3_1] [v4_0; v4_1] [b0; b1; b2; b3; b4; b5; b6; b7; b8; b9; b10; b11; b12; b13; b14; b15; b16; b17; b18; b19; b20; b21; b22; b23; b24] [u]) 0).
Proof.
  intros v1_0 v1_1 v2_0 v2_1 v3_0 v3_1 v4_0 v4_1 b0 b1 b2 b3 b4 b5 b6 b7 b8 b9 b10 b11 b12 b13 b14 b15 b16 b17 b18 b19 b20 b21 b22 b23 b24 u i Hi. nat_cases i; autounfold with csv4_acc_db csv4_jer_db; sv_unfold;
  (auto_derive; [ repeat split; auto | ring ]).
Qed.

