(** C12 -- the cumulative Bernstein basis of the model: B~_0 = 1 and  sum_{j=1..K} B~_j(u) = K u  for EVERY degree K
    (the identity behind ConstantVelocity), end-point values. *)
From Coq Require Import List QArith ZArith Bool Arith Lia Lqa.
From SV Require Import Model.C12_SplineBook.
Import ListNotations.
Local Open Scope Q_scope.

Lemma peval_padd : forall p q u, peval (padd p q) u == peval p u + peval q u.
Proof.
  induction p as [|a p IH]; intros q u; cbn [padd peval]; [ring|].
  destruct q as [|b q]; cbn [peval]; [ring|]. rewrite IH. ring.
Qed.

Lemma peval_pscale : forall c p u, peval (pscale c p) u == c * peval p u.
Proof.
  intros c p u. unfold pscale. induction p as [|a p IH]; cbn [map peval]; [ring|]. rewrite IH. ring.
Qed.

Lemma peval_pshift : forall p u, peval (pshift p) u == u * peval p u.
Proof. intros p u. unfold pshift. cbn [peval]. ring. Qed.

Lemma peval_bstep : forall a b u, peval (bstep a b) u == u * peval a u + (1 - u) * peval b u.
Proof.
  intros a b u. unfold bstep. rewrite peval_padd, peval_pshift, peval_padd, peval_pscale. ring.
Qed.

Lemma peval_proper : forall p u u', u == u' -> peval p u == peval p u'.
Proof.
  induction p as [|a p IH]; intros u u' H; cbn [peval]; [reflexivity|]. rewrite (IH u u' H), H. reflexivity.
Qed.

Fixpoint sumeval (ps : list (list Q)) (u : Q) : Q :=
  match ps with [] => 0 | p :: r => peval p u + sumeval r u end.

Lemma sumeval_app : forall a b u, sumeval (a ++ b) u == sumeval a u + sumeval b u.
Proof. induction a as [|p a IH]; intros b u; cbn [app sumeval]; [ring|]. rewrite IH. ring. Qed.

Lemma sumeval_zipw_bstep : forall la lb u, length la = length lb ->
  sumeval (zipw bstep la lb) u == u * sumeval la u + (1 - u) * sumeval lb u.
Proof.
  induction la as [|a la IH]; intros lb u H; destruct lb as [|b lb]; cbn [length] in H; try discriminate;
    cbn [zipw sumeval]; [ring|].
  rewrite peval_bstep, IH by (injection H; auto). ring.
Qed.

Lemma length_zipw : forall {A B C : Type} (f : A -> B -> C) la lb, length la = length lb -> length (zipw f la lb) = length la.
Proof.
  intros A B C f. induction la as [|a la IH]; intros lb H; destruct lb as [|b lb]; cbn [length] in H; try discriminate;
    cbn [zipw length]; auto.
Qed.

Lemma length_bcum_poly : forall K, length (bcum_poly K) = S K.
Proof.
  induction K as [|K IH]; [reflexivity|]. cbn [bcum_poly].
  rewrite length_zipw; cbn [length]; rewrite ?app_length, ?IH; cbn [length]; lia.
Qed.

(** sum_{j=0..K} B~_j(u) = 1 + K u *)
Lemma bcum_sum_all : forall K u, sumeval (bcum_poly K) u == 1 + inject_Z (Z.of_nat K) * u.
Proof.
  induction K as [|K IH]; intro u.
  - cbn. ring.
  - cbn [bcum_poly]. rewrite sumeval_zipw_bstep
      by (cbn [length]; rewrite app_length, length_bcum_poly; cbn [length]; lia).
    cbn [sumeval]. rewrite sumeval_app, IH. cbn [sumeval peval].
    rewrite Nat2Z.inj_succ. unfold Z.succ. rewrite inject_Z_plus. ring.
Qed.

(** B~_0 = 1 *)
Lemma bcum_head : forall K u, exists p r, bcum_poly K = p :: r /\ peval p u == 1.
Proof.
  induction K as [|K IH]; intro u.
  - exists [1], []. split; [reflexivity|]. cbn. ring.
  - destruct (IH u) as (p & r & E & H). cbn [bcum_poly]. rewrite E. cbn [app zipw].
    eexists. eexists. split; [reflexivity|]. rewrite peval_bstep, H. cbn. ring.
Qed.

(** sum_{j=1..K} B~_j(u) = K u : every degree *)
Theorem bcum_sum_tail : forall K u, sumeval (tl (bcum_poly K)) u == inject_Z (Z.of_nat K) * u.
Proof.
  intros K u. destruct (bcum_head K u) as (p & r & E & H).
  pose proof (bcum_sum_all K u) as S. rewrite E in S |- *. cbn [tl sumeval] in *. lra.
Qed.

Lemma length_basis_tail : forall K, length (tl (bcum_poly K)) = K.
Proof. intro K. pose proof (length_bcum_poly K). destruct (bcum_poly K); cbn [tl length] in *; lia. Qed.

(** end-point values and derivatives of the cubic basis (used by FixedCubic) *)
Lemma basis3_at_1 : map (fun p => Qred (peval p 1)) (tl (bcum_poly 3)) = [1; 1; 1].
Proof. vm_compute. reflexivity. Qed.
Lemma basis3_at_0 : map (fun p => Qred (peval p 0)) (tl (bcum_poly 3)) = [0; 0; 0].
Proof. vm_compute. reflexivity. Qed.
Lemma basis3_deriv_at_0 : map (fun p => Qred (peval (pderiv p) 0)) (tl (bcum_poly 3)) = [3; 0; 0].
Proof. vm_compute. reflexivity. Qed.
Lemma basis3_deriv_at_1 : map (fun p => Qred (peval (pderiv p) 1)) (tl (bcum_poly 3)) = [0; 0; 3].
Proof. vm_compute. reflexivity. Qed.

(** B~_j(0) = 0 and B~_j(1) = 1 for j >= 1, degrees 1..10 (computation) *)
Lemma basis_ends_upto10 :
  forallb (fun K => forallb (fun p => Qeq_bool (peval p 0) 0 && Qeq_bool (peval p 1) 1) (tl (bcum_poly K)))
          (seq 1 10) = true.
Proof. vm_compute. reflexivity. Qed.
