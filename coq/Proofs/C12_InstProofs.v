(** C12 -- the executable instance (R^2 over canonical rationals, Bernstein-cumulative polynomial segments) satisfies
    every Section hypothesis of Proofs/C12_Spline.v, hence all theorems apply to the model that the correspondence
    run executes; concrete witnesses: non-vacuity Examples and the [_refuted] theorems for the current code
    (all flags false). *)
From Coq Require Import List QArith Qcanon ZArith Bool Arith Lia Lqa.
From SV Require Import Model.C12_SplineBook Model.C12_Inst Proofs.C12_Lists Proofs.C12_Search Proofs.C12_Basis Proofs.C12_Spline.
Import ListNotations.
Local Open Scope nat_scope.

(* ------------------------------------------------------------------ group laws of (V2, vadd, vneg, vzero) *)
Lemma V2_eq : forall a b : V2, fst a = fst b -> snd a = snd b -> a = b.
Proof. intros [a1 a2] [b1 b2]; cbn; intros -> ->; reflexivity. Qed.

Lemma vadd_assoc : forall a b c, vadd (vadd a b) c = vadd a (vadd b c).
Proof. intros. apply V2_eq; cbn; ring. Qed.
Lemma vadd_0_l : forall a, vadd vzero a = a.
Proof. intros [a1 a2]. apply V2_eq; cbn; change (Q2Qc 0) with 0%Qc; ring. Qed.
Lemma vadd_0_r : forall a, vadd a vzero = a.
Proof. intros [a1 a2]. apply V2_eq; cbn; change (Q2Qc 0) with 0%Qc; ring. Qed.
Lemma vadd_neg_l : forall a, vadd (vneg a) a = vzero.
Proof. intros [a1 a2]. apply V2_eq; cbn; change (Q2Qc 0) with 0%Qc; ring. Qed.
Lemma vadd_neg_r : forall a, vadd a (vneg a) = vzero.
Proof. intros [a1 a2]. apply V2_eq; cbn; change (Q2Qc 0) with 0%Qc; ring. Qed.

Lemma vsmul_proper : forall a b v, (a == b)%Q -> vsmul a v = vsmul b v.
Proof. intros a b v H. unfold vsmul. apply Q2Qc_eq_iff in H. rewrite H. reflexivity. Qed.

Lemma vsmul_0 : forall a v, (a == 0)%Q -> vsmul a v = vzero.
Proof.
  intros a [v1 v2] H. rewrite (vsmul_proper a 0 _ H). apply V2_eq; cbn; change (Q2Qc 0) with 0%Qc; ring.
Qed.

(* ------------------------------------------------------------------ segment evaluator *)
Lemma lin_proper : forall ps V u u', (u == u')%Q -> lin ps V u = lin ps V u'.
Proof.
  intros ps V u u' H. unfold lin. f_equal.
  revert V. induction ps as [|p ps IH]; intros V; destruct V as [|v V]; cbn [zipw]; auto.
  rewrite (vsmul_proper _ _ v (peval_proper p u u' H)), IH. reflexivity.
Qed.

Lemma inst_seg_proper : forall V u u', (u == u')%Q -> inst_seg V u = inst_seg V u'.
Proof. intros. unfold inst_seg. apply lin_proper. assumption. Qed.

Lemma zipw_bstep_at0 : forall la lb, Forall (fun p => (peval p 0 == 0)%Q) lb ->
  Forall (fun p => (peval p 0 == 0)%Q) (zipw bstep la lb).
Proof.
  induction la as [|a la IH]; intros lb H; destruct lb as [|b lb]; cbn [zipw]; auto.
  inversion H as [|? ? Hb Hr]; subst. constructor; [|apply IH; exact Hr].
  rewrite peval_bstep, Hb. ring.
Qed.

(** B~_j(0) = 0 for j >= 1, every degree *)
Lemma basis_at_0 : forall K, Forall (fun p => (peval p 0 == 0)%Q) (basis K).
Proof.
  unfold basis. induction K as [|K IH]; [constructor|].
  cbn [bcum_poly]. destruct (bcum_poly K) as [|p0 ptl] eqn:E; [constructor|].
  cbn [tl] in IH. change (Forall (fun p => (peval p 0 == 0)%Q) (zipw bstep (p0 :: ptl) (ptl ++ [[]]))). apply zipw_bstep_at0.
  apply Forall_app. split; [exact IH|]. constructor; [cbn; reflexivity|constructor].
Qed.

Lemma fold_vadd_zero : forall l, Forall (fun v => v = vzero) l -> fold_left vadd l vzero = vzero.
Proof.
  induction l as [|v l IH]; intro H; cbn [fold_left]; [reflexivity|].
  inversion H as [|? ? Hv Hr]; subst. rewrite vadd_0_l. apply IH. exact Hr.
Qed.

Lemma inst_seg_0 : forall V, inst_seg V 0%Q = vzero.
Proof.
  intro V. unfold inst_seg, lin. apply fold_vadd_zero.
  generalize (basis_at_0 (length V)). generalize (basis (length V)). intros ps H. revert V.
  induction ps as [|p ps IH]; intros V; destruct V as [|v V]; cbn [zipw]; constructor.
  - inversion H; subst. apply vsmul_0. assumption.
  - apply IH. inversion H; assumption.
Qed.

(* ------------------------------------------------------------------ the theorems, instantiated *)
Definition iWF := WF V2 V2.
Definition iCont := Cont V2 vadd vneg vzero V2 inst_seg.

Ltac inst := first [exact vadd_assoc | exact vadd_0_l | exact vadd_0_r | exact vadd_neg_l | exact vadd_neg_r
                    | exact inst_seg_proper | exact inst_seg_0 | exact vzero | assumption | reflexivity].

Lemma inst_WF_reachable : forall K fl, fx_crop_idx fl = true -> forall ops s, iWF s ->
  Forall (op_wf V2 V2) ops -> iWF (run V2 vadd vneg vzero V2 vsmul vneg vid vid inst_seg K fl ops s).
Proof. intros K fl Hf ops s W H. unfold iWF. apply WF_reachable; try inst. Qed.

Lemma inst_Inv_reachable : forall K fl, fx_crop_idx fl = true -> fx_make_local fl = true -> forall ops s,
  iWF s /\ iCont s -> ops_ok V2 vadd vneg vzero V2 inst_seg vsmul vneg vid vid K fl s ops ->
  let y := run V2 vadd vneg vzero V2 vsmul vneg vid vid inst_seg K fl ops s in iWF y /\ iCont y.
Proof. intros K fl Hf Hm ops s I H. apply Inv_reachable; try inst. Qed.

(* ------------------------------------------------------------------ witnesses *)
Open Scope Q_scope.
Definition Vw : list V2 := [mkV2 1 (1 # 2); mkV2 2 (-1); mkV2 (-1) 2].
(* three unit-duration cubic segments, V, 2V, -V *)
Definition x3 : ispline :=
  i_cl (i_cl (i_new 1 Vw vzero) (i_new 1 (map (vsmul 2) Vw) vzero)) (i_new 1 (map (vsmul (-1)) Vw) vzero).
Definition val (v : V2) : Q * Q := (v2x v, v2y v).
Definition ival (s : ispline) (t : Q) : Q * Q := val (eval V2 vadd vneg vzero V2 inst_seg s t).

Lemma new_Inv : forall T V ga, 0 < T -> iWF (i_new T V ga) /\ iCont (i_new T V ga).
Proof.
  intros T V ga HT. split.
  - unfold iWF, i_new. apply WF_mk_seg. exact HT.
  - unfold iCont, i_new. apply Cont_mk_seg; inst.
Qed.

Lemma cl_Inv : forall s o, iWF s /\ iCont s -> iWF o /\ iCont o -> g0 o = vzero -> iWF (i_cl s o) /\ iCont (i_cl s o).
Proof.
  intros s o [Ws Cs] [Wo Co] H. split.
  - unfold iWF, i_cl. apply WF_concat_local; inst.
  - unfold iCont, i_cl. apply Cont_concat_local; try inst. intros _. exact H.
Qed.

Lemma x3_Inv : iWF x3 /\ iCont x3.
Proof.
  unfold x3. repeat (first [apply cl_Inv | apply new_Inv | reflexivity]).
Qed.

(** non-vacuity: the hypotheses of crop_spec / concat specs are satisfiable by a non-trivial state *)
Example x3_nontrivial : size V2 V2 x3 = 3%nat /\ tmax V2 V2 x3 = 3 /\ ival x3 (3 # 2) = (11 # 2, 15 # 8) /\ ival x3 3 = (4, 3).
Proof. vm_compute. repeat split. Qed.

(** repaired crop on the witness: y(t) = x(ta)^-1 x(ta + t) also when ta lies in a later segment / on a knot *)
Example crop_fixed_witness :
  ival (i_crop flags_fixed x3 (3 # 2) 3 true) (1 # 4) = (1, 39 # 64) /\
  val (vadd (vneg (eval V2 vadd vneg vzero V2 inst_seg x3 (3 # 2))) (eval V2 vadd vneg vzero V2 inst_seg x3 (7 # 4))) = (1, 39 # 64) /\
  i_crop_div0 flags_fixed x3 1 (3 # 2) = false /\
  ival (i_crop flags_fixed x3 1 (3 # 2) true) (1 # 4) = (7 # 4, 21 # 64).
Proof. vm_compute. repeat split. Qed.

(** CURRENT code (all flags false): crop(3/2, 3) of three unit segments is NOT x(ta)^-1 x(ta + t):
    the model (and the real code, notes/C12-replay-defects.cpp) gives (-1/64, 399/512) at t = 1/4 instead of (1, 39/64) *)
Theorem crop_spec_refuted_later_segment :
  exists (s : ispline) (ta tb t : Q), iWF s /\ iCont s /\ 0 <= ta /\ ta < tb /\ tb <= tmax V2 V2 s /\ 0 <= t /\ t < tb - ta /\
    eval V2 vadd vneg vzero V2 inst_seg (i_crop flags_current s ta tb true) t <>
    vadd (vneg (eval V2 vadd vneg vzero V2 inst_seg s ta)) (eval V2 vadd vneg vzero V2 inst_seg s (ta + t)).
Proof.
  exists x3, (3 # 2), 3, (1 # 4). destruct x3_Inv as [W C].
  split; [exact W|]. split; [exact C|]. repeat (split; [vm_compute; congruence|]).
  intro H. apply (f_equal val) in H. vm_compute in H. discriminate.
Qed.

(** ... and it breaks the invariant (T0 + Del <= 1) *)
Theorem WF_crop_refuted :
  exists (s : ispline) (ta tb : Q), iWF s /\ ~ iWF (i_crop flags_current s ta tb true).
Proof.
  exists x3, (3 # 2), 3. destruct x3_Inv as [W _]. split; [exact W|].
  intro H. pose proof (wf_T0Del V2 V2 _ H 1%nat) as B. 
  assert (L : (1 < size V2 V2 (i_crop flags_current x3 (3 # 2) 3 true))%nat) by (vm_compute; lia).
  specialize (B L). vm_compute in B. apply B. reflexivity.
Qed.

(** CURRENT code: ta on the first knot, tb in the same segment: the re-parameterisation divides 0 by 0 (NaN in binary64) *)
Theorem crop_refuted_knot_division_by_zero :
  exists (s : ispline) (ta tb : Q), iWF s /\ 0 <= ta /\ ta < tb /\ tb <= tmax V2 V2 s /\
    i_crop_div0 flags_current s ta tb = true.
Proof.
  exists x3, 1, (3 # 2). destruct x3_Inv as [W _]. split; [exact W|].
  repeat (split; [vm_compute; congruence|]). vm_compute. reflexivity.
Qed.

(** CURRENT code: a non-localised crop stores end points in the frame of x(ta): end() is x(ta)^-1 x(tb), not x(tb) *)
Theorem crop_spec_refuted_not_localized :
  exists (s : ispline) (ta tb : Q), iWF s /\ iCont s /\ 0 <= ta /\ ta < tb /\ tb <= tmax V2 V2 s /\
    end_ V2 V2 (i_crop flags_current s ta tb false) <> eval V2 vadd vneg vzero V2 inst_seg s tb.
Proof.
  exists x3, (1 # 2), 3. destruct x3_Inv as [W C].
  split; [exact W|]. split; [exact C|]. repeat (split; [vm_compute; congruence|]).
  intro H. apply (f_equal val) in H. vm_compute in H. discriminate.
Qed.

(** CURRENT code: ConstantVelocity of degree 2 ends at ga + (2/3) T v instead of ga + T v *)
Theorem constant_velocity_refuted :
  exists (K : nat) (v ga : V2) (T : Q), (0 < K)%nat /\ 0 < T /\
    eval V2 vadd vneg vzero V2 inst_seg (i_cv K flags_current v T ga) T <> vadd ga (vsmul T v).
Proof.
  exists 2%nat, (mkV2 1 2), vzero, 2. split; [lia|]. split; [reflexivity|].
  intro H. apply (f_equal val) in H. vm_compute in H. discriminate.
Qed.

Example constant_velocity_fixed_witness :
  ival (i_cv 2 flags_fixed (mkV2 1 2) 2 vzero) 2 = (2, 4) /\ ival (i_cv 5 flags_fixed (mkV2 1 2) 2 vzero) (1 # 2) = (1 # 2, 1).
Proof. vm_compute. repeat split. Qed.

(** CURRENT code: make_local on a Spline that starts at g0 <> identity: end() is unchanged and the curve jumps *)
Theorem make_local_refuted :
  exists (s : ispline), iWF s /\ iCont s /\
    end_ V2 V2 (i_make_local flags_current s) <> vadd (vneg (g0 s)) (end_ V2 V2 s) /\
    ~ iCont (i_make_local flags_current s).
Proof.
  exists (i_new 1 Vw (mkV2 5 5)). destruct (new_Inv 1 Vw (mkV2 5 5) ltac:(reflexivity)) as [W C]. split; [|split; [|split]].
  - exact W.
  - exact C.
  - intro H. apply (f_equal val) in H. vm_compute in H. discriminate.
  - intro C'. specialize (C' 0%nat ltac:(vm_compute; lia)). rename C' into C2. apply (f_equal val) in C2. vm_compute in C2. discriminate.
Qed.

(* ------------------------------------------------------------------ the instance as a (commutative) Lie group with exp = id *)
Lemma Q2Qc_mult : forall a b : Q, Q2Qc (a * b) = (Q2Qc a * Q2Qc b)%Qc.
Proof.
  intros a b. unfold Qcmult. apply Q2Qc_eq_iff. cbn [this Q2Qc]. rewrite !Qred_correct. reflexivity.
Qed.
Lemma Q2Qc_plus : forall a b : Q, Q2Qc (a + b) = (Q2Qc a + Q2Qc b)%Qc.
Proof.
  intros a b. unfold Qcplus. apply Q2Qc_eq_iff. cbn [this Q2Qc]. rewrite !Qred_correct. reflexivity.
Qed.

Lemma vsmul_vsmul : forall a b v, vsmul a (vsmul b v) = vsmul (a * b) v.
Proof. intros a b [v1 v2]. unfold vsmul. cbn [fst snd]. rewrite Q2Qc_mult. apply V2_eq; cbn [fst snd]; ring. Qed.
Lemma vsmul_1 : forall v, vsmul 1 v = v.
Proof. intros [v1 v2]. unfold vsmul. change (Q2Qc 1) with 1%Qc. apply V2_eq; cbn [fst snd]; ring. Qed.
Lemma vsmul_plus : forall a b v, vsmul (a + b) v = vadd (vsmul a v) (vsmul b v).
Proof. intros a b [v1 v2]. unfold vsmul, vadd. cbn [fst snd]. rewrite Q2Qc_plus. apply V2_eq; cbn [fst snd]; ring. Qed.

Lemma inst_seg_prod : forall V u,
  inst_seg V u = fold_left vadd (zipw (fun p v => vid (vsmul (peval p u) v)) (tl (bcum_poly (length V))) V) vzero.
Proof. reflexivity. Qed.
