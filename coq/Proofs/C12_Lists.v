(** C12 -- list helper lemmas (nth of map / upd / slice / app, last) and rational helper lemmas. *)
From Coq Require Import List QArith ZArith Bool Arith Lia Lqa.
From SV Require Import Model.C12_SplineBook.
Import ListNotations.
Local Open Scope nat_scope.

Lemma nth_map_lt : forall {A B : Type} (f : A -> B) (l : list A) (i : nat) (d : A) (d' : B),
  i < length l -> nth i (map f l) d' = f (nth i l d).
Proof.
  intros A B f l. induction l as [|a l IH]; intros i d d' H; cbn [length] in H; [lia|].
  destruct i; cbn [map nth]; auto. apply IH. lia.
Qed.

Lemma length_upd : forall {A : Type} (i : nat) (f : A -> A) (l : list A), length (upd i f l) = length l.
Proof.
  intros A i f l. revert i. induction l as [|a l IH]; intros i; destruct i; cbn [upd length]; auto.
Qed.

Lemma nth_upd_same : forall {A : Type} (i : nat) (f : A -> A) (l : list A) (d : A),
  i < length l -> nth i (upd i f l) d = f (nth i l d).
Proof.
  intros A i f l. revert i. induction l as [|a l IH]; intros i d H; cbn [length] in H; [lia|].
  destruct i; cbn [upd nth]; auto. apply IH. lia.
Qed.

Lemma nth_upd_other : forall {A : Type} (i j : nat) (f : A -> A) (l : list A) (d : A),
  i <> j -> nth j (upd i f l) d = nth j l d.
Proof.
  intros A i j f l. revert i j. induction l as [|a l IH]; intros i j d H.
  - destruct i; reflexivity.
  - destruct i, j; cbn [upd nth]; auto; try lia.
Qed.

Lemma nth_skipn' : forall {A : Type} (i k : nat) (l : list A) (d : A), nth k (skipn i l) d = nth (i + k) l d.
Proof.
  intros A i. induction i as [|i IH]; intros k l d; cbn [skipn Nat.add]; auto.
  destruct l as [|a l]; [destruct k; reflexivity|]. cbn [nth]. apply IH.
Qed.

Lemma nth_firstn' : forall {A : Type} (n k : nat) (l : list A) (d : A), k < n -> nth k (firstn n l) d = nth k l d.
Proof.
  intros A n. induction n as [|n IH]; intros k l d H; [lia|].
  destruct l as [|a l]; cbn [firstn]; auto. destruct k; cbn [nth]; auto. apply IH. lia.
Qed.

Lemma nth_slice : forall {A : Type} (i0 n k : nat) (l : list A) (d : A),
  k < n -> nth k (slice i0 n l) d = nth (i0 + k) l d.
Proof.
  intros. unfold slice. rewrite nth_firstn' by assumption. apply nth_skipn'.
Qed.

Lemma length_slice : forall {A : Type} (i0 n : nat) (l : list A),
  i0 + n <= length l -> length (slice i0 n l) = n.
Proof.
  intros. unfold slice. rewrite firstn_length, skipn_length. lia.
Qed.

Lemma last_nth' : forall {A : Type} (l : list A) (d : A), l <> [] -> last l d = nth (length l - 1) l d.
Proof.
  intros A l. induction l as [|a l IH]; intros d Hne; [congruence|].
  destruct l as [|b l'].
  - reflexivity.
  - change (last (a :: b :: l') d) with (last (b :: l') d).
    rewrite IH by discriminate. cbn [length].
    replace (S (S (length l')) - 1) with (S (length l')) by lia.
    replace (S (length l') - 1) with (length l') by lia. reflexivity.
Qed.

Lemma last_default_irrel : forall {A : Type} (l : list A) (d d' : A), l <> [] -> last l d = last l d'.
Proof.
  intros A l. induction l as [|a l IH]; intros d d' Hne; [congruence|].
  destruct l as [|b l']; [reflexivity|]. 
  change (last (b :: l') d = last (b :: l') d'). apply IH. discriminate.
Qed.

Lemma length_zero_nil : forall {A : Type} (l : list A), length l = 0 -> l = [].
Proof. intros A l H. destruct l; [reflexivity|discriminate]. Qed.

Lemma nth_app_l : forall {A : Type} (l l' : list A) (i : nat) (d : A), i < length l -> nth i (l ++ l') d = nth i l d.
Proof. intros. apply app_nth1. assumption. Qed.

Lemma nth_app_r : forall {A : Type} (l l' : list A) (k : nat) (d : A), nth (length l + k) (l ++ l') d = nth k l' d.
Proof.
  intros. rewrite app_nth2 by lia. f_equal. lia.
Qed.

(* ------------------------------------------------------------------ rationals *)
Open Scope Q_scope.

Lemma Qfrac_range : forall x T, 0 < T -> 0 <= x -> x <= T -> 0 <= x / T /\ x / T <= 1.
Proof.
  intros x T HT H0 H1. split.
  - apply Qle_shift_div_l; [assumption|]. lra.
  - apply Qle_shift_div_r; [assumption|]. lra.
Qed.

Lemma Qscaled_range : forall d x T, 0 < T -> 0 <= x -> x <= T -> 0 <= d -> 0 <= d * x / T /\ d * x / T <= d.
Proof.
  intros d x T HT H0 H1 Hd.
  destruct (Qfrac_range x T HT H0 H1) as [A B].
  assert (E : d * x / T == d * (x / T)) by (field; lra).
  rewrite E. split; nra.
Qed.

Lemma Qscaled_pos : forall d x T, 0 < T -> 0 < x -> 0 < d -> 0 < d * (x / T).
Proof.
  intros d x T HT Hx Hd.
  assert (0 < x / T) by (apply Qlt_shift_div_l; [assumption|lra]).
  nra.
Qed.
