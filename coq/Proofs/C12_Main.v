(** C12 -- the property theorems in packaged form: the group laws and the contract of the segment evaluator are
    bundled into [group_laws] / [seg_contract] / [exp_contract]; each theorem here is restated verbatim and closed by
    [exact] in Props/Properties_C12.v. *)
From Coq Require Import List QArith Qcanon ZArith Bool Arith Lia Lqa.
From SV Require Import Model.C12_SplineBook Model.C12_Inst Proofs.C12_Lists Proofs.C12_Search Proofs.C12_Basis
  Proofs.C12_Spline Proofs.C12_InstProofs.
Import ListNotations.
Local Open Scope nat_scope.

Definition group_laws (G : Type) (op : G -> G -> G) (inv : G -> G) (e : G) : Prop :=
  (forall a b c, op (op a b) c = op a (op b c)) /\ (forall a, op e a = a) /\ (forall a, op a e = a) /\
  (forall a, op (inv a) a = e) /\ (forall a, op a (inv a) = e).

(* the only facts used about cspline_eval_vs: a function of u (up to equality of rationals) with seg V 0 = identity *)
Definition seg_contract (G tan : Type) (e : G) (seg : ctrl tan -> Q -> G) : Prop :=
  (forall V u u', (u == u')%Q -> seg V u = seg V u') /\ (forall V, seg V 0%Q = e).

(* cspline_eval_vs is the cumulative product of exponentials; exp restricted to a line is a one-parameter subgroup *)
Definition exp_contract (G tan : Type) (op : G -> G -> G) (inv : G -> G) (e : G) (smul : Q -> tan -> tan) (tneg : tan -> tan)
  (texp : tan -> G) (tlog : G -> tan) (seg : ctrl tan -> Q -> G) : Prop :=
  (forall V u, seg V u = fold_left op (zipw (fun p v => texp (smul (peval p u) v)) (tl (bcum_poly (length V))) V) e) /\
  (forall a b v, (a == b)%Q -> smul a v = smul b v) /\
  (forall a b v, smul a (smul b v) = smul (a * b)%Q v) /\
  (forall v, smul 1%Q v = v) /\
  (forall a b v, texp (smul (a + b)%Q v) = op (texp (smul a v)) (texp (smul b v))) /\
  (forall v, texp (smul 0%Q v) = e) /\
  (forall v, texp (tneg v) = inv (texp v)) /\
  (forall g, texp (tlog g) = g).

Ltac unpack :=
  repeat match goal with
         | H : group_laws _ _ _ _ |- _ => destruct H as (?GA & ?GL & ?GR & ?GIL & ?GIR)
         | H : seg_contract _ _ _ _ |- _ => destruct H as (?SP & ?S0)
         | H : exp_contract _ _ _ _ _ _ _ _ _ _ |- _ => destruct H as (?E1 & ?E2 & ?E3 & ?E4 & ?E5 & ?E6 & ?E7 & ?E8)
         end.

Theorem bis_result :
  forall (r : list Q) (t : Q) (i : nat), bis r t = Some i ->
  i < length r /\ (qnth r 0 <= t)%Q /\
  ((i = length r - 1 /\ (qnth r (length r - 1) <= t)%Q) \/ (S i < length r /\ (qnth r i <= t)%Q /\ (t < qnth r (S i))%Q)).
Proof. exact Proofs.C12_Search.bis_some. Qed.

Theorem bis_not_found :
  forall (r : list Q) (t : Q), bis r t = None -> r = [] \/ (t < qnth r 0)%Q.
Proof. exact Proofs.C12_Search.bis_none. Qed.

Theorem find_idx_spec :
forall (G : Type) (op : G -> G -> G) (inv : G -> G) (e : G) (tan : Type) (seg : ctrl tan -> Q -> G),
  group_laws G op inv e -> seg_contract G tan e seg ->
  forall (s : spline G tan) (t : Q), WF G tan s -> 0 < size G tan s -> (0 <= t)%Q ->
  let i := find_idx G tan s t in
  i < size G tan s /\ (prev_t G tan s i <= t)%Q /\
  ((t < eT G tan s i)%Q \/ (i = size G tan s - 1 /\ (eT G tan s i <= t)%Q)).
Proof. intros; unpack; apply find_idx_spec; assumption. Qed.

Theorem eval_seg :
forall (G : Type) (op : G -> G -> G) (inv : G -> G) (e : G) (tan : Type) (seg : ctrl tan -> Q -> G),
  group_laws G op inv e -> seg_contract G tan e seg ->
  forall (s : spline G tan) (t : Q) (i : nat), WF G tan s -> i < size G tan s ->
  (prev_t G tan s i <= t)%Q -> ((t < eT G tan s i)%Q \/ (i = size G tan s - 1 /\ (t <= eT G tan s i)%Q)) ->
  eval_full G op inv e tan seg s t =
    (curve G op inv e tan seg s i t, Some (sV G tan s i, useg G tan s i t, ratio G tan s i)).
Proof. intros; unpack; apply eval_seg; assumption. Qed.

Theorem eval_segment :
forall (G : Type) (op : G -> G -> G) (inv : G -> G) (e : G) (tan : Type) (seg : ctrl tan -> Q -> G),
  group_laws G op inv e -> seg_contract G tan e seg ->
  forall (s : spline G tan) (t : Q) (i : nat), WF G tan s -> Cont G op inv e tan seg s -> i < size G tan s ->
  (prev_t G tan s i <= t)%Q -> (t <= eT G tan s i)%Q -> eval G op inv e tan seg s t = curve G op inv e tan seg s i t.
Proof. intros; unpack; apply eval_segment; assumption. Qed.

Theorem eval_outside :
  forall (G : Type) (op : G -> G -> G) (inv : G -> G) (e : G) (tan : Type) (seg : ctrl tan -> Q -> G) (s : spline G tan) (t : Q),
  ((t < 0)%Q -> eval_full G op inv e tan seg s t = (g0 s, None)) /\
  (size G tan s = 0 -> eval_full G op inv e tan seg s t = (g0 s, None)) /\
  (0 < size G tan s -> (0 <= t)%Q -> (tmax G tan s < t)%Q -> eval_full G op inv e tan seg s t = (end_ G tan s, None)).
Proof. intros; apply eval_outside. Qed.

Theorem eval_start_end :
forall (G : Type) (op : G -> G -> G) (inv : G -> G) (e : G) (tan : Type) (seg : ctrl tan -> Q -> G),
  group_laws G op inv e -> seg_contract G tan e seg ->
  forall (s : spline G tan), WF G tan s ->
  eval G op inv e tan seg s 0%Q = g0 s /\ (Cont G op inv e tan seg s -> eval G op inv e tan seg s (tmax G tan s) = end_ G tan s).
Proof. intros; unpack; split; [apply eval_start|intro; apply eval_end]; assumption. Qed.

Theorem WF_reachable :
forall (G : Type) (op : G -> G -> G) (inv : G -> G) (e : G) (tan : Type) (seg : ctrl tan -> Q -> G)
    (smul : Q -> tan -> tan) (tneg : tan -> tan) (texp : tan -> G) (tlog : G -> tan) (K : nat) (fl : flags),
  group_laws G op inv e -> seg_contract G tan e seg ->
  fx_crop_idx fl = true ->
  forall (ops : list (sop G tan)) (s : spline G tan), WF G tan s -> Forall (op_wf G tan) ops ->
  WF G tan (run G op inv e tan smul tneg texp tlog seg K fl ops s).
Proof. intros; unpack; apply WF_reachable; assumption. Qed.

Theorem Inv_reachable :
forall (G : Type) (op : G -> G -> G) (inv : G -> G) (e : G) (tan : Type) (seg : ctrl tan -> Q -> G)
    (smul : Q -> tan -> tan) (tneg : tan -> tan) (texp : tan -> G) (tlog : G -> tan) (K : nat) (fl : flags),
  group_laws G op inv e -> seg_contract G tan e seg ->
  fx_crop_idx fl = true -> fx_make_local fl = true ->
  forall (ops : list (sop G tan)) (s : spline G tan), Inv G op inv e tan seg s ->
  ops_ok G op inv e tan seg smul tneg texp tlog K fl s ops ->
  Inv G op inv e tan seg (run G op inv e tan smul tneg texp tlog seg K fl ops s).
Proof. intros; unpack; apply Inv_reachable; assumption. Qed.

Theorem reachable_continuous :
forall (G : Type) (op : G -> G -> G) (inv : G -> G) (e : G) (tan : Type) (seg : ctrl tan -> Q -> G)
    (smul : Q -> tan -> tan) (tneg : tan -> tan) (texp : tan -> G) (tlog : G -> tan) (K : nat) (fl : flags),
  group_laws G op inv e -> seg_contract G tan e seg ->
  fx_crop_idx fl = true -> fx_make_local fl = true ->
  forall (ops : list (sop G tan)) (s0 : spline G tan), Inv G op inv e tan seg s0 ->
  ops_ok G op inv e tan seg smul tneg texp tlog K fl s0 ops ->
  let s := run G op inv e tan smul tneg texp tlog seg K fl ops s0 in
  eval G op inv e tan seg s 0%Q = g0 s /\ eval G op inv e tan seg s (tmax G tan s) = end_ G tan s /\
  (forall i, S i < size G tan s -> curve G op inv e tan seg s i (eT G tan s i) = curve G op inv e tan seg s (S i) (eT G tan s i)) /\
  (forall i t, i < size G tan s -> (prev_t G tan s i <= t)%Q -> (t <= eT G tan s i)%Q ->
     eval G op inv e tan seg s t = curve G op inv e tan seg s i t).
Proof. intros; unpack; apply reachable_continuous; assumption. Qed.

Theorem concat_local_spec :
forall (G : Type) (op : G -> G -> G) (inv : G -> G) (e : G) (tan : Type) (seg : ctrl tan -> Q -> G),
  group_laws G op inv e -> seg_contract G tan e seg ->
  forall (s o : spline G tan) (t : Q), WF G tan s -> WF G tan o ->
  let y := concat_local G op tan s o in
  WF G tan y /\
  (0 < size G tan s -> (t < tmax G tan s)%Q -> eval_full G op inv e tan seg y t = eval_full G op inv e tan seg s t) /\
  (0 < size G tan o -> (tmax G tan s <= t)%Q ->
     ev_rel G tan (op (end_ G tan s)) (eval_full G op inv e tan seg y t) (eval_full G op inv e tan seg o (t - tmax G tan s)%Q)) /\
  (size G tan o = 0 -> (tmax G tan s < t)%Q \/ size G tan s = 0 ->
     eval_full G op inv e tan seg y t = (op (end_ G tan s) (g0 o), None)) /\
  (size G tan s = 0 -> (t < 0)%Q -> eval_full G op inv e tan seg y t = (op (end_ G tan s) (g0 o), None)).
Proof. intros; unpack; split; [apply WF_concat_local; assumption|apply concat_local_spec; assumption]. Qed.

Theorem concat_global_spec :
forall (G : Type) (op : G -> G -> G) (inv : G -> G) (e : G) (tan : Type) (seg : ctrl tan -> Q -> G),
  group_laws G op inv e -> seg_contract G tan e seg ->
  forall (s o : spline G tan) (t : Q), WF G tan s -> WF G tan o ->
  let y := concat_global G tan s o in
  WF G tan y /\
  (0 < size G tan s -> (t < tmax G tan s)%Q -> eval_full G op inv e tan seg y t = eval_full G op inv e tan seg s t) /\
  (0 < size G tan o -> (tmax G tan s <= t)%Q ->
     ev_rel G tan (fun g => g) (eval_full G op inv e tan seg y t) (eval_full G op inv e tan seg o (t - tmax G tan s)%Q)) /\
  (size G tan o = 0 -> (tmax G tan s < t)%Q \/ size G tan s = 0 -> eval_full G op inv e tan seg y t = (g0 o, None)) /\
  (size G tan s = 0 -> (t < 0)%Q -> eval_full G op inv e tan seg y t = (g0 o, None)).
Proof. intros; unpack; split; [apply WF_concat_global; assumption|apply concat_global_spec; assumption]. Qed.

Theorem concat_continuous :
forall (G : Type) (op : G -> G -> G) (inv : G -> G) (e : G) (tan : Type) (seg : ctrl tan -> Q -> G),
  group_laws G op inv e -> seg_contract G tan e seg ->
  forall (s o : spline G tan), WF G tan s -> WF G tan o -> Cont G op inv e tan seg s -> Cont G op inv e tan seg o ->
  ((0 < size G tan s -> g0 o = e) -> Cont G op inv e tan seg (concat_local G op tan s o)) /\
  ((0 < size G tan s -> g0 o = end_ G tan s) -> Cont G op inv e tan seg (concat_global G tan s o)).
Proof. intros; unpack; split; intro; [apply Cont_concat_local|apply Cont_concat_global]; assumption. Qed.

Theorem crop_spec :
forall (G : Type) (op : G -> G -> G) (inv : G -> G) (e : G) (tan : Type) (seg : ctrl tan -> Q -> G),
  group_laws G op inv e -> seg_contract G tan e seg ->
  forall (fl : flags), fx_crop_idx fl = true ->
  forall (s : spline G tan) (ta tb : Q) (loc : bool), WF G tan s -> (loc = true \/ fx_crop_frame fl = true) ->
  let ta' := qmax ta 0 in
  let tb' := qmin tb (tmax G tan s) in
  (ta' < tb')%Q ->
  let y := crop G op inv e tan seg fl s ta tb loc in
  let fr := fun g => if loc then op (inv (eval G op inv e tan seg s ta')) g else g in
  WF G tan y /\ tmax G tan y = (tb' - ta')%Q /\
  (forall t, (0 <= t)%Q -> (t < tb' - ta')%Q ->
     ev_rel G tan fr (eval_full G op inv e tan seg y t) (eval_full G op inv e tan seg s (ta' + t)%Q)) /\
  (forall t, (t < 0)%Q -> eval_full G op inv e tan seg y t = (fr (eval G op inv e tan seg s ta'), None)) /\
  (forall t, (tb' - ta' < t)%Q -> eval_full G op inv e tan seg y t = (fr (eval G op inv e tan seg s tb'), None)) /\
  (Cont G op inv e tan seg s ->
     eval G op inv e tan seg y (tb' - ta')%Q = fr (eval G op inv e tan seg s tb') /\ Cont G op inv e tan seg y).
Proof. intros; unpack; split; [apply WF_crop; assumption|apply crop_spec; assumption]. Qed.

Theorem crop_empty_interval :
  forall (G : Type) (op : G -> G -> G) (inv : G -> G) (e : G) (tan : Type) (seg : ctrl tan -> Q -> G) (fl : flags)
    (s : spline G tan) (ta tb : Q) (loc : bool),
  (qmin tb (tmax G tan s) <= qmax ta 0)%Q -> crop G op inv e tan seg fl s ta tb loc = mk_empty G tan e.
Proof. intros; apply crop_empty_interval; assumption. Qed.

Theorem crop_no_division_by_zero :
  forall (G tan : Type) (fl : flags), fx_crop_idx fl = true ->
  forall (s : spline G tan) (ta tb : Q), WF G tan s -> crop_div0 G tan fl s ta tb = false.
Proof. intros; apply crop_no_division_by_zero; assumption. Qed.

Theorem make_local_spec :
forall (G : Type) (op : G -> G -> G) (inv : G -> G) (e : G) (tan : Type) (seg : ctrl tan -> Q -> G),
  group_laws G op inv e -> seg_contract G tan e seg ->
  forall (fl : flags), fx_make_local fl = true -> forall (s : spline G tan) (t : Q), WF G tan s ->
  WF G tan (make_local G op inv e tan fl s) /\
  ev_rel G tan (op (inv (g0 s))) (eval_full G op inv e tan seg (make_local G op inv e tan fl s) t) (eval_full G op inv e tan seg s t) /\
  (Cont G op inv e tan seg s -> Cont G op inv e tan seg (make_local G op inv e tan fl s)).
Proof. intros; unpack; split; [apply WF_make_local; assumption|split; [apply make_local_spec; assumption|intro; apply Cont_make_local; assumption]]. Qed.

Theorem basis_sum_every_degree :
  forall (K : nat) (u : Q), (sumeval (tl (bcum_poly K)) u == inject_Z (Z.of_nat K) * u)%Q.
Proof. exact Proofs.C12_Basis.bcum_sum_tail. Qed.

Theorem constant_velocity_spec :
forall (G : Type) (op : G -> G -> G) (inv : G -> G) (e : G) (tan : Type) (seg : ctrl tan -> Q -> G)
    (smul : Q -> tan -> tan) (tneg : tan -> tan) (texp : tan -> G) (tlog : G -> tan) (K : nat) (fl : flags),
  group_laws G op inv e -> seg_contract G tan e seg ->
  exp_contract G tan op inv e smul tneg texp tlog seg ->
  fx_cv fl = true -> 0 < K -> forall (v : tan) (T : Q) (ga : G), (0 < T)%Q ->
  let c := constant_velocity G op e tan smul seg K fl v T ga in
  WF G tan c /\ Cont G op inv e tan seg c /\ size G tan c = 1 /\ tmax G tan c = T /\ g0 c = ga /\
  end_ G tan c = op ga (texp (smul T v)) /\
  (forall t, (0 <= t)%Q -> (t <= T)%Q ->
     eval G op inv e tan seg c t = op ga (texp (smul t v)) /\
     exists u r, snd (eval_full G op inv e tan seg c t) = Some (repeat (smul (T / inject_Z (Z.of_nat K))%Q v) K, u, r) /\
                 (u == t / T)%Q /\ (r == 1 / T)%Q).
Proof. intros; unpack; eapply constant_velocity_spec; eassumption. Qed.

Theorem fixed_cubic_spec :
forall (G : Type) (op : G -> G -> G) (inv : G -> G) (e : G) (tan : Type) (seg : ctrl tan -> Q -> G)
    (smul : Q -> tan -> tan) (tneg : tan -> tan) (texp : tan -> G) (tlog : G -> tan) (K : nat) (fl : flags),
  group_laws G op inv e -> seg_contract G tan e seg ->
  exp_contract G tan op inv e smul tneg texp tlog seg ->
  forall (gb : G) (va vb : tan) (T : Q) (ga : G), (0 < T)%Q ->
  let c := fixed_cubic G op inv tan smul tneg texp tlog seg gb va vb T ga in
  WF G tan c /\ Cont G op inv e tan seg c /\ tmax G tan c = T /\
  eval G op inv e tan seg c 0%Q = ga /\ eval G op inv e tan seg c T = gb /\ end_ G tan c = gb /\
  (exists V1, Vs c = [[smul (T / 3)%Q va; V1; smul (T / 3)%Q vb]]) /\
  (exists V u r, snd (eval_full G op inv e tan seg c 0%Q) = Some (V, u, r) /\ (u == 0)%Q /\ (r == 1 / T)%Q) /\
  (exists V u r, snd (eval_full G op inv e tan seg c T) = Some (V, u, r) /\ (u == 1)%Q /\ (r == 1 / T)%Q).
Proof. intros; unpack; eapply fixed_cubic_spec; eassumption. Qed.

Theorem fixed_cubic_velocity_partial :
  map (fun p => Qred (peval (pderiv p) 0)) (tl (bcum_poly 3)) = [3; 0; 0]%Q /\
  map (fun p => Qred (peval (pderiv p) 1)) (tl (bcum_poly 3)) = [0; 0; 3]%Q /\
  map (fun p => Qred (peval p 0)) (tl (bcum_poly 3)) = [0; 0; 0]%Q /\
  map (fun p => Qred (peval p 1)) (tl (bcum_poly 3)) = [1; 1; 1]%Q.
Proof. exact (conj Proofs.C12_Basis.basis3_deriv_at_0 (conj Proofs.C12_Basis.basis3_deriv_at_1 (conj Proofs.C12_Basis.basis3_at_0 Proofs.C12_Basis.basis3_at_1))). Qed.

Theorem arclength_spec_partial :
  forall (G : Type) (e : G) (tan : Type) (tadd : tan -> tan -> tan) (tzero : tan) (absint : ctrl tan -> Q -> Q -> tan)
    (s : spline G tan) (t : Q), WF G tan s ->
  arclength G tan tadd tzero absint s t =
    fold_left (fun a (p : nat * Q * Q) => tadd a (absint (sV G tan s (fst (fst p))) (snd (fst p)) (snd p)))
              (arclength_parts G tan (size G tan s) 0 s t) tzero /\
  (forall j ua ub, In (j, ua, ub) (arclength_parts G tan (size G tan s) 0 s t) <->
     j < size G tan s /\ (j = 0 \/ (prev_t G tan s j < t)%Q) /\
     ua = sT0 G tan s j /\ ub = useg G tan s j (qmin t (eT G tan s j))) /\
  (forall j, j < size G tan s -> (sT0 G tan s j == useg G tan s j (prev_t G tan s j))%Q).
Proof. intros; apply arclength_spec_partial; assumption. Qed.

Theorem crop_spec_refuted_later_segment :
  exists (s : ispline) (ta tb t : Q), iWF s /\ iCont s /\ (0 <= ta)%Q /\ (ta < tb)%Q /\ (tb <= tmax V2 V2 s)%Q /\
    (0 <= t)%Q /\ (t < tb - ta)%Q /\
    eval V2 vadd vneg vzero V2 inst_seg (i_crop flags_current s ta tb true) t <>
    vadd (vneg (eval V2 vadd vneg vzero V2 inst_seg s ta)) (eval V2 vadd vneg vzero V2 inst_seg s (ta + t)%Q).
Proof. exact crop_spec_refuted_later_segment. Qed.

Theorem WF_crop_refuted :
  exists (s : ispline) (ta tb : Q), iWF s /\ ~ iWF (i_crop flags_current s ta tb true).
Proof. exact WF_crop_refuted. Qed.

Theorem crop_refuted_knot_division_by_zero :
  exists (s : ispline) (ta tb : Q), iWF s /\ (0 <= ta)%Q /\ (ta < tb)%Q /\ (tb <= tmax V2 V2 s)%Q /\
    i_crop_div0 flags_current s ta tb = true.
Proof. exact crop_refuted_knot_division_by_zero. Qed.

Theorem crop_spec_refuted_not_localized :
  exists (s : ispline) (ta tb : Q), iWF s /\ iCont s /\ (0 <= ta)%Q /\ (ta < tb)%Q /\ (tb <= tmax V2 V2 s)%Q /\
    end_ V2 V2 (i_crop flags_current s ta tb false) <> eval V2 vadd vneg vzero V2 inst_seg s tb.
Proof. exact crop_spec_refuted_not_localized. Qed.

Theorem constant_velocity_refuted :
  exists (K : nat) (v ga : V2) (T : Q), 0 < K /\ (0 < T)%Q /\
    eval V2 vadd vneg vzero V2 inst_seg (i_cv K flags_current v T ga) T <> vadd ga (vsmul T v).
Proof. exact constant_velocity_refuted. Qed.

Theorem make_local_refuted :
  exists (s : ispline), iWF s /\ iCont s /\
    end_ V2 V2 (i_make_local flags_current s) <> vadd (vneg (g0 s)) (end_ V2 V2 s) /\
    ~ iCont (i_make_local flags_current s).
Proof. exact make_local_refuted. Qed.

Theorem model_instance_is_a_model :
  group_laws V2 vadd vneg vzero /\ seg_contract V2 V2 vzero inst_seg.
Proof. repeat split; first [exact vadd_assoc | exact vadd_0_l | exact vadd_0_r | exact vadd_neg_l | exact vadd_neg_r | exact inst_seg_proper | exact inst_seg_0]. Qed.

Theorem model_instance_exp_contract :
  exp_contract V2 V2 vadd vneg vzero vsmul vneg vid vid inst_seg.
Proof. repeat split; first [exact inst_seg_prod | exact vsmul_proper | exact vsmul_vsmul | exact vsmul_1 | exact vsmul_plus | (intro v; apply vsmul_0; reflexivity) | reflexivity]. Qed.

