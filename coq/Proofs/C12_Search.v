(** C12 -- the interpolating interval search (utils.hpp:42-81) returns the interval containing t,
    for every pivot choice, and find_idx (spline_impl.hpp:371-385) therefore the segment containing t. *)
From Coq Require Import List QArith Qround ZArith Bool Arith Lia Lqa.
From SV Require Import Model.C12_SplineBook.
Import ListNotations.
Open Scope Q_scope.

Lemma Qltb_true : forall a b, Qltb a b = true <-> a < b.
Proof.
  intros a b. unfold Qltb. rewrite negb_true_iff.
  split; intro H.
  - apply Qnot_le_lt. intro Hle. apply Qle_bool_iff in Hle. congruence.
  - destruct (Qle_bool b a) eqn:E; auto. apply Qle_bool_iff in E. exfalso. apply (Qlt_not_le _ _ H E).
Qed.

Lemma Qltb_false : forall a b, Qltb a b = false <-> b <= a.
Proof.
  intros a b. unfold Qltb. rewrite negb_false_iff. apply Qle_bool_iff.
Qed.

Lemma Qle_bool_false : forall a b, Qle_bool a b = false <-> b < a.
Proof.
  intros a b. split; intro H.
  - apply Qnot_le_lt. intro Hle. apply Qle_bool_iff in Hle. congruence.
  - destruct (Qle_bool a b) eqn:E; auto. apply Qle_bool_iff in E. exfalso. apply (Qlt_not_le _ _ H E).
Qed.

Lemma last_qnth : forall (l : list Q) d, l <> [] -> last l d = qnth l (length l - 1).
Proof.
  induction l as [|a l IH]; intros d Hne; [congruence|].
  destruct l as [|b l'].
  - reflexivity.
  - change (last (a :: b :: l') d) with (last (b :: l') d).
    rewrite IH by discriminate. unfold qnth. cbn [length]. 
    replace (S (S (length l')) - 1)%nat with (S (length l' )) by lia.
    replace (S (length l') - 1)%nat with (length l') by lia. reflexivity.
Qed.

Lemma pick_range : forall r t left rght, (left + 1 < rght)%nat ->
  (left <= pick r t left rght /\ pick r t left rght <= rght - 2)%nat.
Proof.
  intros r t left rght H. unfold pick. split.
  - apply Nat.min_glb; lia.
  - apply Nat.le_min_r.
Qed.

(** loop invariant: r[left] <= t < r[rght-1]; the loop ends by [break] with r[i] <= t < r[i+1] *)
Lemma bis_loop_spec : forall fuel r t left rght pivot,
  (left < rght)%nat -> (rght - left <= fuel)%nat ->
  qnth r left <= t -> t < qnth r (rght - 1) ->
  let i := bis_loop fuel r t left rght pivot in
  (left <= i)%nat /\ (S i < rght)%nat /\ qnth r i <= t /\ t < qnth r (S i).
Proof.
  induction fuel as [|f IH]; intros r t left rght pivot Hlr Hfuel Hl Hr; [lia|].
  cbn [bis_loop].
  destruct (left + 1 <? rght)%nat eqn:Ec.
  - apply Nat.ltb_lt in Ec.
    destruct (pick_range r t left rght Ec) as [Hp1 Hp2].
    set (p := pick r t left rght) in *.
    destruct (Qle_bool (qnth r (S p)) t) eqn:E1.
    + apply Qle_bool_iff in E1.
      assert (Hne : S p <> (rght - 1)%nat).
      { intro Heq. rewrite Heq in E1. apply (Qlt_not_le _ _ Hr E1). }
      specialize (IH r t (S p) rght p). cbv zeta in IH.
      destruct IH as (A & B & C & D); try lia; auto.
      repeat split; auto; lia.
    + apply Qle_bool_false in E1.
      destruct (Qltb t (qnth r p)) eqn:E2.
      * apply Qltb_true in E2.
        specialize (IH r t left (S p) p). cbv zeta in IH.
        replace (S p - 1)%nat with p in IH by lia.
        destruct IH as (A & B & C & D); try lia; auto.
        repeat split; auto; lia.
      * apply Qltb_false in E2. repeat split; auto; lia.
  - apply Nat.ltb_ge in Ec. assert (left = rght - 1)%nat by lia. subst left.
    exfalso. apply (Qlt_not_le _ _ Hr Hl).
Qed.

(** result of the search (contract in the comment utils.hpp:27-31), no sortedness needed for these facts *)
Lemma bis_none : forall r t, bis r t = None -> r = [] \/ t < qnth r 0.
Proof.
  intros r t. unfold bis. destruct r as [|r0 r']; auto.
  destruct (Qltb t r0) eqn:E0.
  - intros _. right. apply Qltb_true in E0. exact E0.
  - destruct (Qle_bool (last (r0 :: r') 0) t); discriminate.
Qed.

Lemma bis_some : forall r t i, bis r t = Some i ->
  (i < length r)%nat /\ qnth r 0 <= t /\
  ((i = length r - 1)%nat /\ qnth r (length r - 1) <= t
   \/ (S i < length r)%nat /\ qnth r i <= t /\ t < qnth r (S i)).
Proof.
  intros r t i. unfold bis. destruct r as [|r0 r']; [discriminate|].
  destruct (Qltb t r0) eqn:E0; [discriminate|]. apply Qltb_false in E0.
  destruct (Qle_bool (last (r0 :: r') 0) t) eqn:E1.
  - intro H. injection H as <-. apply Qle_bool_iff in E1.
    rewrite last_qnth in E1 by discriminate.
    split; [cbn [length]; lia|]. split; [exact E0|]. left. split; auto.
  - intro H. injection H as <-. apply Qle_bool_false in E1.
    rewrite last_qnth in E1 by discriminate.
    assert (H1 : (0 < length (r0 :: r'))%nat) by (cbn [length]; lia).
    assert (H2 : (length (r0 :: r') - 0 <= length (r0 :: r'))%nat) by lia.
    pose proof (bis_loop_spec (length (r0 :: r')) (r0 :: r') t 0 (length (r0 :: r')) 0 H1 H2 E0 E1) as L.
    cbv zeta in L. destruct L as (A & B & C & D).
    split; [apply Nat.lt_trans with (2 := B); apply Nat.lt_succ_diag_r|]. split; [exact E0|]. right. repeat split; auto.
Qed.
