(** C12 -- well-formedness invariant, segment lookup, evaluation on / outside the support.
    Everything is parametric in an arbitrary group (G, op, inv, e) and an arbitrary segment evaluator
    [seg] with seg V 0 = e (the only facts used about cspline_eval_vs). *)
From Coq Require Import List QArith Qround ZArith Bool Arith Lia Lqa.
From SV Require Import Model.C12_SplineBook Proofs.C12_Lists Proofs.C12_Search Proofs.C12_Basis.
Import ListNotations.
Local Open Scope nat_scope.

Section Eval.
  Variable G : Type.
  Variable op : G -> G -> G.
  Variable inv : G -> G.
  Variable e : G.
  Variable tan : Type.
  Variable seg : ctrl tan -> Q -> G.

  Hypothesis op_assoc : forall a b c, op (op a b) c = op a (op b c).
  Hypothesis op_e_l : forall a, op e a = a.
  Hypothesis op_e_r : forall a, op a e = a.
  Hypothesis op_inv_l : forall a, op (inv a) a = e.
  Hypothesis op_inv_r : forall a, op a (inv a) = e.
  Hypothesis seg_proper : forall V u u', (u == u')%Q -> seg V u = seg V u'.
  Hypothesis seg_0 : forall V, seg V 0%Q = e.

  Notation spline := (spline G tan).
  Notation size := (size G tan).
  Notation tmax := (tmax G tan).
  Notation end_ := (end_ G tan).
  Notation find_idx := (find_idx G tan).
  Notation prev_t := (prev_t G tan).
  Notation start_g := (start_g G e tan).
  Notation eval_full := (eval_full G op inv e tan seg).
  Notation eval := (eval G op inv e tan seg).

  (* ---------------------------------------------------------------- group facts *)
  Lemma op_cancel_l : forall a b c, op a b = op a c -> b = c.
  Proof.
    intros a b c H. rewrite <- (op_e_l b), <- (op_e_l c), <- (op_inv_l a), !op_assoc, H. reflexivity.
  Qed.
  Lemma inv_e : inv e = e.
  Proof. apply (op_cancel_l e). rewrite op_inv_r, op_e_l. reflexivity. Qed.
  Lemma inv_inv : forall a, inv (inv a) = a.
  Proof. intro a. apply (op_cancel_l (inv a)). rewrite op_inv_r, op_inv_l. reflexivity. Qed.
  Lemma inv_op : forall a b, inv (op a b) = op (inv b) (inv a).
  Proof.
    intros a b. apply (op_cancel_l (op a b)). rewrite op_inv_r.
    rewrite op_assoc, <- (op_assoc b), op_inv_r, op_e_l, op_inv_r. reflexivity.
  Qed.
  Lemma op_inv_cancel_l : forall a b, op (inv a) (op a b) = b.
  Proof. intros. rewrite <- op_assoc, op_inv_l, op_e_l. reflexivity. Qed.
  Lemma op_inv_cancel_r : forall a b, op a (op (inv a) b) = b.
  Proof. intros. rewrite <- op_assoc, op_inv_r, op_e_l. reflexivity. Qed.

  (* ---------------------------------------------------------------- per-segment views *)
  Definition eT (s : spline) (i : nat) : Q := qnth (end_t s) i.
  Definition sV (s : spline) (i : nat) : ctrl tan := nth i (Vs s) [].
  Definition sT0 (s : spline) (i : nat) : Q := qnth (seg_T0 s) i.
  Definition sDel (s : spline) (i : nat) : Q := qnth (seg_Del s) i.
  (* u(t) on segment i, comment spline.hpp:242-246 *)
  Definition useg (s : spline) (i : nat) (t : Q) : Q :=
    (sT0 s i + sDel s i * (t - prev_t s i) / (eT s i - prev_t s i))%Q.
  (* the curve of segment i *)
  Definition curve (s : spline) (i : nat) (t : Q) : G :=
    op (op (start_g s i) (inv (seg (sV s i) (sT0 s i)))) (seg (sV s i) (useg s i t)).
  Definition ratio (s : spline) (i : nat) : Q := (sDel s i / (eT s i - prev_t s i))%Q.

  (** structural well-formedness *)
  Record WF (s : spline) : Prop := mkWF {
    wf_len_g : length (end_g s) = size s;
    wf_len_V : length (Vs s) = size s;
    wf_len_T0 : length (seg_T0 s) = size s;
    wf_len_Del : length (seg_Del s) = size s;
    wf_incr : forall i, i < size s -> (prev_t s i < eT s i)%Q;       (* 0 < end_t[0] < end_t[1] < ... *)
    wf_T0 : forall i, i < size s -> (0 <= sT0 s i)%Q;
    wf_Del : forall i, i < size s -> (0 < sDel s i)%Q;
    wf_T0Del : forall i, i < size s -> (sT0 s i + sDel s i <= 1)%Q
  }.
  (** continuity equation: the stored end point of segment i is the value of its curve at its end *)
  Definition Cont (s : spline) : Prop :=
    forall i, i < size s ->
      nth i (end_g s) e = op (op (start_g s i) (inv (seg (sV s i) (sT0 s i)))) (seg (sV s i) (sT0 s i + sDel s i)%Q).

  (* ---------------------------------------------------------------- knots *)
  Lemma eT_pos_mono : forall s, WF s -> forall j i, i < j -> j < size s -> (eT s i < eT s j)%Q.
  Proof.
    intros s W j. induction j as [|j IH]; intros i Hij Hj; [lia|].
    pose proof (wf_incr s W (S j) Hj) as H. cbn [C12_SplineBook.prev_t] in H. fold (eT s j) in H.
    destruct (Nat.eq_dec i j) as [->|Hne]; [exact H|].
    apply Qlt_trans with (eT s j); [apply IH; lia|exact H].
  Qed.

  Lemma prev_t_nonneg : forall s, WF s -> forall i, i < size s -> (0 <= prev_t s i)%Q.
  Proof.
    intros s W i Hi. destruct i as [|i]; cbn [C12_SplineBook.prev_t]; [lra|].
    fold (eT s i).
    pose proof (wf_incr s W 0 ltac:(lia)) as H0. cbn [C12_SplineBook.prev_t] in H0.
    destruct i as [|i]; [lra|].
    pose proof (eT_pos_mono s W (S i) 0 ltac:(lia) ltac:(lia)). lra.
  Qed.

  Lemma eT_le_prev : forall s, WF s -> forall i j, i < j -> j < size s -> (eT s i <= prev_t s j)%Q.
  Proof.
    intros s W i j Hij Hj. destruct j as [|j]; [lia|]. cbn [C12_SplineBook.prev_t]. fold (eT s j).
    destruct (Nat.eq_dec i j) as [->|Hne]; [lra|].
    apply Qlt_le_weak. apply eT_pos_mono; auto; lia.
  Qed.

  Lemma tmax_eT : forall s, 0 < size s -> tmax s = eT s (size s - 1).
  Proof.
    intros s H. unfold C12_SplineBook.tmax, eT, C12_SplineBook.size in *.
    apply last_qnth. intro E. rewrite E in H. cbn in H. lia.
  Qed.

  Lemma tmax_empty : forall s, size s = 0 -> tmax s = 0%Q.
  Proof.
    intros s H. unfold C12_SplineBook.tmax, C12_SplineBook.size in *. rewrite (length_zero_nil _ H). reflexivity.
  Qed.

  Lemma eT_le_tmax : forall s, WF s -> forall i, i < size s -> (eT s i <= tmax s)%Q.
  Proof.
    intros s W i Hi. rewrite tmax_eT by lia.
    destruct (Nat.eq_dec i (size s - 1)) as [->|Hne]; [lra|].
    apply Qlt_le_weak. apply eT_pos_mono; auto; lia.
  Qed.

  Lemma tmax_pos : forall s, WF s -> 0 < size s -> (0 < tmax s)%Q.
  Proof.
    intros s W H. rewrite tmax_eT by lia.
    pose proof (wf_incr s W (size s - 1) ltac:(lia)).
    pose proof (prev_t_nonneg s W (size s - 1) ltac:(lia)). lra.
  Qed.

  Lemma tmax_nonneg : forall s, WF s -> (0 <= tmax s)%Q.
  Proof.
    intros s W. destruct (Nat.eq_dec (size s) 0) as [E|E].
    - rewrite tmax_empty by assumption. lra.
    - apply Qlt_le_weak, tmax_pos; auto. lia.
  Qed.

  Lemma end_nth : forall s, WF s -> 0 < size s -> end_ s = nth (size s - 1) (end_g s) e.
  Proof.
    intros s W H. unfold C12_SplineBook.end_.
    assert (Hne : end_g s <> []).
    { intro E. pose proof (wf_len_g s W) as L. rewrite E in L. cbn in L. lia. }
    rewrite (last_default_irrel _ (g0 s) e Hne), last_nth' by assumption.
    rewrite (wf_len_g s W). reflexivity.
  Qed.

  Lemma end_empty : forall s, WF s -> size s = 0 -> end_ s = g0 s.
  Proof.
    intros s W H. unfold C12_SplineBook.end_.
    pose proof (wf_len_g s W) as L. rewrite H in L. rewrite (length_zero_nil _ L). reflexivity.
  Qed.

  (* ---------------------------------------------------------------- find_idx *)
  (** find_idx returns the segment containing t (half open, the last one closed) *)
  Lemma find_idx_spec : forall s t, WF s -> 0 < size s -> (0 <= t)%Q ->
    let i := find_idx s t in
    i < size s /\ (prev_t s i <= t)%Q /\ ((t < eT s i)%Q \/ (i = size s - 1 /\ (eT s i <= t)%Q)).
  Proof.
    intros s t W Hn Ht. cbv zeta. unfold C12_SplineBook.find_idx.
    fold (size s). destruct (bis (end_t s) t) as [j|] eqn:E.
    - apply bis_some in E. fold (size s) in E. destruct E as (Hj & H0 & [[-> HB]|(HS & HA & HB)]).
      + rewrite Nat.min_r by lia. split; [lia|]. split.
        * destruct (size s - 1) as [|m] eqn:Em; cbn [C12_SplineBook.prev_t]; [exact Ht|].
          pose proof (wf_incr s W (S m) ltac:(lia)) as Hi. cbn [C12_SplineBook.prev_t] in Hi.
          unfold eT in Hi. lra.
        * right. split; [reflexivity|exact HB].
      + rewrite Nat.min_l by lia. replace (j + 1) with (S j) by lia.
        split; [lia|]. split; [cbn [C12_SplineBook.prev_t]; exact HA|]. left. exact HB.
    - apply bis_none in E. destruct E as [E|E].
      + unfold C12_SplineBook.size in Hn. rewrite E in Hn. cbn in Hn. lia.
      + split; [lia|]. split; [cbn [C12_SplineBook.prev_t]; exact Ht|]. left. exact E.
  Qed.

  Lemma seg_unique : forall s t i j, WF s -> i < size s -> j < size s ->
    (prev_t s i <= t)%Q -> ((t < eT s i)%Q \/ i = size s - 1) ->
    (prev_t s j <= t)%Q -> ((t < eT s j)%Q \/ j = size s - 1) -> i = j.
  Proof.
    intros s t i j W Hi Hj Pi Ei Pj Ej.
    destruct (lt_eq_lt_dec i j) as [[Hlt|Heq]|Hgt]; auto; exfalso.
    - destruct Ei as [Ei|Ei]; [|lia]. pose proof (eT_le_prev s W i j Hlt Hj). lra.
    - destruct Ej as [Ej|Ej]; [|lia]. pose proof (eT_le_prev s W j i Hgt Hi). lra.
  Qed.

  (** every time in [0, t_max] lies in a segment *)
  Lemma seg_exists : forall s t, WF s -> 0 < size s -> (0 <= t)%Q -> (t <= tmax s)%Q ->
    exists i, i < size s /\ (prev_t s i <= t)%Q /\ ((t < eT s i)%Q \/ (i = size s - 1 /\ (t == eT s i)%Q)).
  Proof.
    intros s t W Hn H0 H1. destruct (find_idx_spec s t W Hn H0) as (A & B & C).
    exists (find_idx s t). split; [exact A|]. split; [exact B|].
    destruct C as [C|[C1 C2]]; [left; exact C|]. right. split; [exact C1|].
    rewrite tmax_eT in H1 by lia. rewrite <- C1 in H1. lra.
  Qed.

  (* ---------------------------------------------------------------- evaluation *)
  Lemma useg_range : forall s i t, WF s -> i < size s -> (prev_t s i <= t)%Q -> (t <= eT s i)%Q ->
    (sT0 s i <= useg s i t)%Q /\ (useg s i t <= sT0 s i + sDel s i)%Q.
  Proof.
    intros s i t W Hi A B. unfold useg.
    pose proof (wf_incr s W i Hi). pose proof (wf_Del s W i Hi).
    destruct (Qscaled_range (sDel s i) (t - prev_t s i) (eT s i - prev_t s i)) as [P Q']; try lra.
  Qed.

  Lemma qclamp_id : forall v, (0 <= v)%Q -> (v <= 1)%Q -> qclamp v 0 1 = v.
  Proof.
    intros v A B. unfold qclamp.
    destruct (Qltb v 0) eqn:E1; [apply Qltb_true in E1; lra|].
    destruct (Qltb 1 v) eqn:E2; [apply Qltb_true in E2; lra|]. reflexivity.
  Qed.

  (** operator() on the segment containing t: the segment's curve, with derivative data (V, u, Del/T) *)
  Lemma eval_seg : forall s t i, WF s -> i < size s ->
    (prev_t s i <= t)%Q -> ((t < eT s i)%Q \/ (i = size s - 1 /\ (t <= eT s i)%Q)) ->
    eval_full s t = (curve s i t, Some (sV s i, useg s i t, ratio s i)).
  Proof.
    intros s t i W Hi A B.
    assert (Hn : 0 < size s) by lia.
    assert (Ht0 : (0 <= t)%Q) by (pose proof (prev_t_nonneg s W i Hi); lra).
    assert (HtE : (t <= eT s i)%Q) by (destruct B as [B|[_ B]]; lra).
    assert (Htm : (t <= tmax s)%Q) by (pose proof (eT_le_tmax s W i Hi); lra).
    unfold C12_SplineBook.eval_full.
    unfold C12_SplineBook.is_empty. fold (size s).
    destruct (size s =? 0) eqn:E0; [apply Nat.eqb_eq in E0; lia|]. cbn [orb].
    destruct (Qltb t 0) eqn:E1; [apply Qltb_true in E1; lra|].
    destruct (Qltb (tmax s) t) eqn:E2; [apply Qltb_true in E2; lra|].
    destruct (find_idx_spec s t W Hn Ht0) as (F1 & F2 & F3).
    assert (Hidx : find_idx s t = i).
    { apply (seg_unique s t); auto.
      - destruct F3 as [F3|[F3 _]]; auto.
      - destruct B as [B|[B _]]; auto. }
    rewrite Hidx.
    fold (eT s i) (sDel s i) (sT0 s i) (sV s i).
    destruct (useg_range s i t W Hi A HtE) as [U1 U2].
    pose proof (wf_T0 s W i Hi). pose proof (wf_T0Del s W i Hi).
    change (sT0 s i + sDel s i * (t - prev_t s i) / (eT s i - prev_t s i))%Q with (useg s i t).
    rewrite qclamp_id by lra.
    unfold curve, ratio. f_equal. f_equal.
    destruct (Qltb 0 (sT0 s i)) eqn:E3; [reflexivity|].
    apply Qltb_false in E3.
    rewrite (seg_proper (sV s i) (sT0 s i) 0) by lra.
    rewrite seg_0, inv_e, op_e_r. reflexivity.
  Qed.

  (** outside [0, t_max]: start() / end() with zero derivatives (spline_impl.hpp:233-241) *)
  Theorem eval_outside : forall s t,
    ((t < 0)%Q -> eval_full s t = (g0 s, None)) /\
    (size s = 0 -> eval_full s t = (g0 s, None)) /\
    (0 < size s -> (0 <= t)%Q -> (tmax s < t)%Q -> eval_full s t = (end_ s, None)).
  Proof.
    intros s t. unfold C12_SplineBook.eval_full, C12_SplineBook.is_empty. fold (size s). repeat split.
    - intro H. apply Qltb_true in H. rewrite H, orb_true_r. reflexivity.
    - intro H. rewrite H. reflexivity.
    - intros Hn H0 H1. destruct (size s =? 0) eqn:E0; [apply Nat.eqb_eq in E0; lia|]. cbn [orb].
      destruct (Qltb t 0) eqn:E1; [apply Qltb_true in E1; lra|].
      apply Qltb_true in H1. rewrite H1. reflexivity.
  Qed.

  (** the curve of a segment at its two ends *)
  Lemma useg_at_prev : forall s i, WF s -> i < size s -> (useg s i (prev_t s i) == sT0 s i)%Q.
  Proof.
    intros s i W Hi. unfold useg. pose proof (wf_incr s W i Hi). field. lra.
  Qed.

  Lemma useg_at_end : forall s i, WF s -> i < size s -> (useg s i (eT s i) == sT0 s i + sDel s i)%Q.
  Proof.
    intros s i W Hi. unfold useg. pose proof (wf_incr s W i Hi). field. lra.
  Qed.

  Lemma curve_at_prev : forall s i, WF s -> i < size s -> curve s i (prev_t s i) = start_g s i.
  Proof.
    intros s i W Hi. unfold curve.
    rewrite (seg_proper _ _ _ (useg_at_prev s i W Hi)).
    rewrite op_assoc, op_inv_l, op_e_r. reflexivity.
  Qed.

  Lemma curve_at_end : forall s i, WF s -> Cont s -> i < size s -> curve s i (eT s i) = nth i (end_g s) e.
  Proof.
    intros s i W C Hi. unfold curve.
    rewrite (seg_proper _ _ _ (useg_at_end s i W Hi)). symmetry. apply C. exact Hi.
  Qed.

  (** a continuous spline is evaluated by the curve of ANY segment whose closed interval contains t *)
  Theorem eval_segment : forall s t i, WF s -> Cont s -> i < size s ->
    (prev_t s i <= t)%Q -> (t <= eT s i)%Q -> eval s t = curve s i t.
  Proof.
    intros s t i W C Hi A B.
    destruct (Qlt_le_dec t (eT s i)) as [Hlt|Hge].
    - unfold C12_SplineBook.eval. rewrite (eval_seg s t i W Hi A (or_introl Hlt)). reflexivity.
    - assert (Et : (t == eT s i)%Q) by lra.
      destruct (Nat.eq_dec i (size s - 1)) as [El|Hne].
      + unfold C12_SplineBook.eval. rewrite (eval_seg s t i W Hi A (or_intror (conj El B))). reflexivity.
      + (* t is the knot between i and i+1: operator() uses segment i+1, whose curve starts at end_g[i] *)
        assert (Hi' : S i < size s) by lia.
        assert (A' : (prev_t s (S i) <= t)%Q) by (cbn [C12_SplineBook.prev_t]; fold (eT s i); lra).
        assert (B' : (t < eT s (S i))%Q).
        { pose proof (wf_incr s W (S i) Hi') as H. cbn [C12_SplineBook.prev_t] in H. fold (eT s i) in H. lra. }
        unfold C12_SplineBook.eval. rewrite (eval_seg s t (S i) W Hi' A' (or_introl B')). cbn [fst].
        transitivity (curve s (S i) (prev_t s (S i))).
        * unfold curve, useg. apply f_equal. apply seg_proper.
          cbn [C12_SplineBook.prev_t]. fold (eT s i). rewrite Et. reflexivity.
        * rewrite curve_at_prev by assumption. cbn [C12_SplineBook.start_g].
          rewrite <- (curve_at_end s i W C Hi). unfold curve, useg. apply f_equal. apply seg_proper.
          rewrite Et. reflexivity.
  Qed.

  Corollary eval_start : forall s, WF s -> eval s 0 = g0 s.
  Proof.
    intros s W. destruct (Nat.eq_dec (size s) 0) as [E|E].
    - unfold C12_SplineBook.eval. destruct (eval_outside s 0) as (_ & H & _). rewrite (H E). reflexivity.
    - assert (H0 : 0 < size s) by lia.
      unfold C12_SplineBook.eval. rewrite (eval_seg s 0 0 W H0).
      + cbn [fst]. apply (curve_at_prev s 0 W H0).
      + cbn [C12_SplineBook.prev_t]. lra.
      + left. pose proof (wf_incr s W 0 H0) as H. cbn [C12_SplineBook.prev_t] in H. exact H.
  Qed.

  Corollary eval_end : forall s, WF s -> Cont s -> eval s (tmax s) = end_ s.
  Proof.
    intros s W C. destruct (Nat.eq_dec (size s) 0) as [E|E].
    - unfold C12_SplineBook.eval. destruct (eval_outside s (tmax s)) as (_ & H & _). rewrite (H E). cbn [fst].
      symmetry. apply end_empty; assumption.
    - assert (Hl : size s - 1 < size s) by lia.
      rewrite (eval_segment s (tmax s) (size s - 1) W C Hl).
      + rewrite tmax_eT by lia. rewrite curve_at_end by assumption. symmetry. apply end_nth; auto. lia.
      + rewrite tmax_eT by lia. apply Qlt_le_weak. apply (wf_incr s W). exact Hl.
      + rewrite tmax_eT by lia. lra.
  Qed.

  (* ================================================================ transfer of evaluations between splines *)
  Definition in_seg (s : spline) (i : nat) (t : Q) : Prop :=
    (prev_t s i <= t)%Q /\ ((t < eT s i)%Q \/ (i = size s - 1 /\ (t <= eT s i)%Q)).

  Definition kinfo_eq (a b : option (ctrl tan * Q * Q)) : Prop :=
    match a, b with
    | None, None => True
    | Some (V, u, r), Some (V', u', r') => V = V' /\ (u == u')%Q /\ (r == r')%Q
    | _, _ => False
    end.

  (** [ev_rel f a b]: value a = f (value b), identical derivative data (control points, u, Del/T) *)
  Definition ev_rel (f : G -> G) (a b : G * option (ctrl tan * Q * Q)) : Prop :=
    fst a = f (fst b) /\ kinfo_eq (snd a) (snd b).

  Lemma kinfo_eq_refl : forall a, kinfo_eq a a.
  Proof. intros [[[V u] r]|]; cbn; auto. repeat split; reflexivity. Qed.

  Lemma ev_rel_id_refl : forall a, ev_rel (fun g => g) a a.
  Proof. intro a. split; [reflexivity|apply kinfo_eq_refl]. Qed.

  Lemma in_seg_exists : forall s t, WF s -> 0 < size s -> (0 <= t)%Q -> (t <= tmax s)%Q ->
    exists i, i < size s /\ in_seg s i t.
  Proof.
    intros s t W Hn H0 H1. destruct (seg_exists s t W Hn H0 H1) as (i & A & B & C).
    exists i. split; [exact A|]. split; [exact B|]. destruct C as [C|[C1 C2]]; [left; exact C|].
    right. split; [exact C1|]. lra.
  Qed.

  Lemma eval_transfer : forall (f : G -> G) y x ty tx j i,
    WF y -> WF x -> j < size y -> i < size x -> in_seg y j ty -> in_seg x i tx ->
    curve y j ty = f (curve x i tx) -> sV y j = sV x i ->
    (useg y j ty == useg x i tx)%Q -> (ratio y j == ratio x i)%Q ->
    ev_rel f (eval_full y ty) (eval_full x tx).
  Proof.
    intros f y x ty tx j i Wy Wx Hj Hi [A1 A2] [B1 B2] Hc HV Hu Hr.
    rewrite (eval_seg y ty j Wy Hj A1 A2), (eval_seg x tx i Wx Hi B1 B2).
    split; cbn [fst snd kinfo_eq]; auto.
  Qed.

  (* ================================================================ constructors *)
  Notation mk_empty := (mk_empty G tan).
  Notation mk_seg := (mk_seg G op tan seg).

  Lemma WF_mk_empty : forall ga, WF (mk_empty ga).
  Proof.
    intro ga. constructor; cbn; auto; intros; lia.
  Qed.
  Lemma Cont_mk_empty : forall ga, Cont (mk_empty ga).
  Proof. intros ga i H. cbn in H. lia. Qed.

  Lemma WF_mk_seg : forall T V ga, (0 < T)%Q -> WF (mk_seg T V ga).
  Proof.
    intros T V ga HT. constructor; cbn [C12_SplineBook.mk_seg C12_SplineBook.size end_t end_g Vs seg_T0 seg_Del length]; auto;
      intros i Hi; assert (i = 0) by lia; subst i; cbn; lra.
  Qed.
  Lemma Cont_mk_seg : forall T V ga, Cont (mk_seg T V ga).
  Proof.
    intros T V ga i Hi. cbn in Hi. assert (i = 0) by lia. subst i.
    unfold sV, sT0, sDel. cbn.
    rewrite seg_0, inv_e, op_e_r. apply f_equal. apply seg_proper. lra.
  Qed.

  (* ================================================================ concatenation, generically *)
  (** [Appended f s o y]: y consists of the segments of s followed by those of o shifted by t_max(s),
      the end points of o mapped by f; the joint stores f (start of o). *)
  Record Appended (f : G -> G) (s o y : spline) : Prop := mkAppended {
    ap_size : size y = size s + size o;
    ap_len_g : length (end_g y) = size y;
    ap_len_V : length (Vs y) = size y;
    ap_len_T0 : length (seg_T0 y) = size y;
    ap_len_Del : length (seg_Del y) = size y;
    ap_g0 : 0 < size s -> g0 y = g0 s;
    ap_g0' : size s = 0 -> g0 y = f (g0 o);
    ap_lo : forall i, i < size s ->
      eT y i = eT s i /\ sV y i = sV s i /\ sT0 y i = sT0 s i /\ sDel y i = sDel s i;
    ap_lo_g : forall i, S i < size s -> nth i (end_g y) e = nth i (end_g s) e;
    ap_joint : 0 < size s -> nth (size s - 1) (end_g y) e = f (g0 o);
    ap_hi : forall k, k < size o ->
      eT y (size s + k) = (tmax s + eT o k)%Q /\ sV y (size s + k) = sV o k /\
      sT0 y (size s + k) = sT0 o k /\ sDel y (size s + k) = sDel o k /\
      nth (size s + k) (end_g y) e = f (nth k (end_g o) e)
  }.

  Section AppendedFacts.
    Variable f : G -> G.
    Hypothesis f_op : forall a b, f (op a b) = op (f a) b.
    Variables s o y : spline.
    Hypothesis Ws : WF s.
    Hypothesis Wo : WF o.
    Hypothesis Ap : Appended f s o y.

    Lemma ap_prev_lo : forall i, i < size s -> prev_t y i = prev_t s i.
    Proof.
      intros i Hi. destruct i as [|i]; cbn [C12_SplineBook.prev_t]; [reflexivity|].
      destruct (ap_lo f s o y Ap i ltac:(lia)) as (A & _). exact A.
    Qed.

    Lemma ap_start_lo : forall i, i < size s -> start_g y i = start_g s i.
    Proof.
      intros i Hi. destruct i as [|i]; cbn [C12_SplineBook.start_g].
      - apply (ap_g0 f s o y Ap). lia.
      - apply (ap_lo_g f s o y Ap). exact Hi.
    Qed.

    Lemma ap_prev_hi : forall k, k < size o -> (prev_t y (size s + k) == tmax s + prev_t o k)%Q.
    Proof.
      intros k Hk. destruct k as [|k].
      - rewrite Nat.add_0_r. cbn [C12_SplineBook.prev_t].
        destruct (size s) as [|m] eqn:Em.
        + cbn [C12_SplineBook.prev_t]. rewrite (tmax_empty s Em). lra.
        + cbn [C12_SplineBook.prev_t].
          destruct (ap_lo f s o y Ap m ltac:(lia)) as (A & _). unfold eT in A. rewrite A.
          rewrite (tmax_eT s) by lia. rewrite Em. replace (S m - 1) with m by lia. unfold eT. lra.
      - rewrite Nat.add_succ_r. cbn [C12_SplineBook.prev_t].
        destruct (ap_hi f s o y Ap k ltac:(lia)) as (A & _). unfold eT in A. rewrite A. reflexivity.
    Qed.

    Lemma ap_start_hi : forall k, k < size o -> start_g y (size s + k) = f (start_g o k).
    Proof.
      intros k Hk. destruct k as [|k].
      - rewrite Nat.add_0_r. cbn [C12_SplineBook.start_g].
        destruct (size s) as [|m] eqn:Em.
        + cbn [C12_SplineBook.start_g]. apply (ap_g0' f s o y Ap). exact Em.
        + cbn [C12_SplineBook.start_g]. pose proof (ap_joint f s o y Ap ltac:(lia)) as J.
          rewrite Em in J. replace (S m - 1) with m in J by lia. exact J.
      - rewrite Nat.add_succ_r. cbn [C12_SplineBook.start_g].
        destruct (ap_hi f s o y Ap k ltac:(lia)) as (_ & _ & _ & _ & A). exact A.
    Qed.

    Lemma WF_appended : WF y.
    Proof.
      constructor; try apply Ap.
      - intros i Hi. rewrite (ap_size f s o y Ap) in Hi.
        destruct (lt_dec i (size s)) as [Hlo|Hhi].
        + rewrite (ap_prev_lo i Hlo). destruct (ap_lo f s o y Ap i Hlo) as (A & _). rewrite A.
          apply (wf_incr s Ws). exact Hlo.
        + replace i with (size s + (i - size s)) by lia.
          assert (Hk : i - size s < size o) by lia.
          rewrite (ap_prev_hi _ Hk). destruct (ap_hi f s o y Ap _ Hk) as (A & _). rewrite A.
          pose proof (wf_incr o Wo _ Hk). lra.
      - intros i Hi. rewrite (ap_size f s o y Ap) in Hi.
        destruct (lt_dec i (size s)) as [Hlo|Hhi].
        + destruct (ap_lo f s o y Ap i Hlo) as (_ & _ & A & _). rewrite A. apply (wf_T0 s Ws). exact Hlo.
        + replace i with (size s + (i - size s)) by lia.
          assert (Hk : i - size s < size o) by lia.
          destruct (ap_hi f s o y Ap _ Hk) as (_ & _ & A & _). rewrite A. apply (wf_T0 o Wo). exact Hk.
      - intros i Hi. rewrite (ap_size f s o y Ap) in Hi.
        destruct (lt_dec i (size s)) as [Hlo|Hhi].
        + destruct (ap_lo f s o y Ap i Hlo) as (_ & _ & _ & A). rewrite A. apply (wf_Del s Ws). exact Hlo.
        + replace i with (size s + (i - size s)) by lia.
          assert (Hk : i - size s < size o) by lia.
          destruct (ap_hi f s o y Ap _ Hk) as (_ & _ & _ & A & _). rewrite A. apply (wf_Del o Wo). exact Hk.
      - intros i Hi. rewrite (ap_size f s o y Ap) in Hi.
        destruct (lt_dec i (size s)) as [Hlo|Hhi].
        + destruct (ap_lo f s o y Ap i Hlo) as (_ & _ & A & B). rewrite A, B. apply (wf_T0Del s Ws). exact Hlo.
        + replace i with (size s + (i - size s)) by lia.
          assert (Hk : i - size s < size o) by lia.
          destruct (ap_hi f s o y Ap _ Hk) as (_ & _ & A & B & _). rewrite A, B. apply (wf_T0Del o Wo). exact Hk.
    Qed.

    (* segments of s inside y *)
    Lemma ap_curve_lo : forall i t, i < size s ->
      curve y i t = curve s i t /\ sV y i = sV s i /\ useg y i t = useg s i t /\ ratio y i = ratio s i.
    Proof.
      intros i t Hi. destruct (ap_lo f s o y Ap i Hi) as (A & B & C & D).
      unfold curve, useg, ratio. rewrite (ap_start_lo i Hi), (ap_prev_lo i Hi), A, B, C, D. auto.
    Qed.

    (* segments of o inside y *)
    Lemma ap_useg_hi : forall k t, k < size o -> (useg y (size s + k) t == useg o k (t - tmax s))%Q.
    Proof.
      intros k t Hk. destruct (ap_hi f s o y Ap k Hk) as (A & B & C & D & _).
      unfold useg. rewrite A, C, D, (ap_prev_hi k Hk).
      pose proof (wf_incr o Wo k Hk). field. lra.
    Qed.

    Lemma ap_ratio_hi : forall k, k < size o -> (ratio y (size s + k) == ratio o k)%Q.
    Proof.
      intros k Hk. destruct (ap_hi f s o y Ap k Hk) as (A & B & C & D & _).
      unfold ratio. rewrite A, D, (ap_prev_hi k Hk).
      pose proof (wf_incr o Wo k Hk). field. lra.
    Qed.

    Lemma ap_curve_hi : forall k t, k < size o -> curve y (size s + k) t = f (curve o k (t - tmax s)).
    Proof.
      intros k t Hk. destruct (ap_hi f s o y Ap k Hk) as (A & B & C & D & _).
      unfold curve. rewrite (ap_start_hi k Hk), B, C, !f_op.
      apply f_equal. apply seg_proper. apply ap_useg_hi. exact Hk.
    Qed.

    Lemma ap_tmax : 0 < size o -> tmax y = (tmax s + tmax o)%Q.
    Proof.
      intro Ho. rewrite (tmax_eT y) by (rewrite (ap_size f s o y Ap); lia).
      rewrite (ap_size f s o y Ap). replace (size s + size o - 1) with (size s + (size o - 1)) by lia.
      destruct (ap_hi f s o y Ap (size o - 1) ltac:(lia)) as (A & _). rewrite A.
      rewrite (tmax_eT o) by lia. reflexivity.
    Qed.

    Lemma ap_end : 0 < size o -> end_ y = f (end_ o).
    Proof.
      intro Ho. pose proof WF_appended as Wy.
      rewrite (end_nth y Wy) by (rewrite (ap_size f s o y Ap); lia).
      rewrite (ap_size f s o y Ap). replace (size s + size o - 1) with (size s + (size o - 1)) by lia.
      destruct (ap_hi f s o y Ap (size o - 1) ltac:(lia)) as (_ & _ & _ & _ & A). rewrite A.
      rewrite (end_nth o Wo) by lia. reflexivity.
    Qed.

    Lemma ap_end_empty : size o = 0 -> end_ y = f (g0 o).
    Proof.
      intro Ho. pose proof WF_appended as Wy.
      destruct (Nat.eq_dec (size s) 0) as [Es|Es].
      - rewrite (end_empty y Wy) by (rewrite (ap_size f s o y Ap); lia). apply (ap_g0' f s o y Ap Es).
      - rewrite (end_nth y Wy) by (rewrite (ap_size f s o y Ap); lia).
        rewrite (ap_size f s o y Ap), Ho, Nat.add_0_r. apply (ap_joint f s o y Ap). lia.
    Qed.

    Lemma ap_tmax_empty : size o = 0 -> 0 < size s -> tmax y = tmax s.
    Proof.
      intros Ho Hs. rewrite (tmax_eT y) by (rewrite (ap_size f s o y Ap); lia).
      rewrite (ap_size f s o y Ap), Ho, Nat.add_0_r.
      destruct (ap_lo f s o y Ap (size s - 1) ltac:(lia)) as (A & _). rewrite A.
      rewrite (tmax_eT s) by lia. reflexivity.
    Qed.

    (** before the joint: y = s, including derivative data *)
    Lemma appended_before : forall t, 0 < size s -> (t < tmax s)%Q -> eval_full y t = eval_full s t.
    Proof.
      intros t Hs Ht. pose proof WF_appended as Wy.
      destruct (Qlt_le_dec t 0) as [Hneg|Hpos].
      - destruct (eval_outside y t) as (A & _). destruct (eval_outside s t) as (B & _).
        rewrite (A Hneg), (B Hneg), (ap_g0 f s o y Ap Hs). reflexivity.
      - destruct (seg_exists s t Ws Hs Hpos ltac:(lra)) as (i & Hi & P & E).
        assert (E' : (t < eT s i)%Q).
        { destruct E as [E|[E1 E2]]; [exact E|]. rewrite (tmax_eT s) in Ht by lia. rewrite <- E1 in Ht. lra. }
        destruct (ap_curve_lo i t Hi) as (C1 & C2 & C3 & C4).
        destruct (ap_lo f s o y Ap i Hi) as (A & _).
        rewrite (eval_seg y t i Wy).
        + rewrite (eval_seg s t i Ws Hi P (or_introl E')). rewrite C1, C2, C3, C4. reflexivity.
        + rewrite (ap_size f s o y Ap). lia.
        + rewrite (ap_prev_lo i Hi). exact P.
        + left. rewrite A. exact E'.
    Qed.

    (** from the joint on: y(t) = f (o(t - t_max(s))), including derivative data; o non-empty *)
    Lemma appended_after : forall t, 0 < size o -> (tmax s <= t)%Q ->
      ev_rel f (eval_full y t) (eval_full o (t - tmax s)).
    Proof.
      intros t Ho Ht. pose proof WF_appended as Wy.
      destruct (Qlt_le_dec (tmax s + tmax o) t) as [Hout|Hin].
      - (* beyond the end *)
        pose proof (tmax_nonneg s Ws). pose proof (tmax_nonneg o Wo).
        destruct (eval_outside y t) as (_ & _ & A). destruct (eval_outside o (t - tmax s)) as (_ & _ & B).
        rewrite A; [|rewrite (ap_size f s o y Ap); lia|lra|rewrite (ap_tmax Ho); exact Hout].
        rewrite B; [|exact Ho|lra|lra].
        split; cbn [fst snd kinfo_eq]; auto. apply (ap_end Ho).
      - pose proof (tmax_nonneg s Ws).
        destruct (seg_exists o (t - tmax s) Wo Ho ltac:(lra) ltac:(lra)) as (k & Hk & P & E).
        apply (eval_transfer f y o t (t - tmax s) (size s + k) k); auto.
        + rewrite (ap_size f s o y Ap). lia.
        + destruct (ap_hi f s o y Ap k Hk) as (A & _). split.
          * rewrite (ap_prev_hi k Hk). lra.
          * rewrite A. destruct E as [E|[E1 E2]]; [left; lra|]. right.
            split; [rewrite (ap_size f s o y Ap); lia|lra].
        + split; [exact P|]. destruct E as [E|[E1 E2]]; [left; exact E|right; split; [exact E1|lra]].
        + apply ap_curve_hi. exact Hk.
        + destruct (ap_hi f s o y Ap k Hk) as (_ & B & _). exact B.
        + apply ap_useg_hi. exact Hk.
        + apply ap_ratio_hi. exact Hk.
    Qed.

    (** empty operand: only end() / the value beyond t_max change *)
    Lemma appended_after_empty : forall t, size o = 0 -> 0 < size s -> (tmax s < t)%Q ->
      eval_full y t = (f (g0 o), None).
    Proof.
      intros t Ho Hs Ht. pose proof (tmax_nonneg s Ws).
      destruct (eval_outside y t) as (_ & _ & A).
      rewrite A; [|rewrite (ap_size f s o y Ap); lia|lra|rewrite (ap_tmax_empty Ho Hs); exact Ht].
      rewrite (ap_end_empty Ho). reflexivity.
    Qed.

    (** continuity is preserved when the joint is compatible *)
    Lemma Cont_appended : Cont s -> Cont o -> (0 < size s -> f (g0 o) = end_ s) -> Cont y.
    Proof.
      intros Cs Co Hj i Hi. rewrite (ap_size f s o y Ap) in Hi.
      destruct (lt_dec i (size s)) as [Hlo|Hhi].
      - destruct (ap_lo f s o y Ap i Hlo) as (A & B & C & D).
        rewrite (ap_start_lo i Hlo), B, C, D. rewrite <- (Cs i Hlo).
        destruct (Nat.eq_dec (S i) (size s)) as [El|Hne].
        + pose proof (ap_joint f s o y Ap ltac:(lia)) as J. replace (size s - 1) with i in J by lia.
          rewrite J, (Hj ltac:(lia)), (end_nth s Ws) by lia. f_equal. lia.
        + apply (ap_lo_g f s o y Ap). lia.
      - replace i with (size s + (i - size s)) by lia.
        assert (Hk : i - size s < size o) by lia.
        destruct (ap_hi f s o y Ap _ Hk) as (A & B & C & D & E).
        rewrite E, (ap_start_hi _ Hk), B, C, D, (Co _ Hk), !f_op. reflexivity.
    Qed.

    Lemma appended_spec : forall t,
      (0 < size s -> (t < tmax s)%Q -> eval_full y t = eval_full s t) /\
      (0 < size o -> (tmax s <= t)%Q -> ev_rel f (eval_full y t) (eval_full o (t - tmax s))) /\
      (size o = 0 -> (tmax s < t)%Q \/ size s = 0 -> eval_full y t = (f (g0 o), None)) /\
      (size s = 0 -> (t < 0)%Q -> eval_full y t = (f (g0 o), None)).
    Proof.
      intro t. split; [|split; [|split]].
      - intros Hs Ht. exact (appended_before t Hs Ht).
      - intros Ho Ht. exact (appended_after t Ho Ht).
      - intros Ho [Ht|Hs].
        + destruct (Nat.eq_dec (size s) 0) as [Es|Es].
          * destruct (eval_outside y t) as (_ & A & _). rewrite A by (rewrite (ap_size f s o y Ap); lia).
            rewrite (ap_g0' f s o y Ap Es). reflexivity.
          * apply appended_after_empty; auto. lia.
        + destruct (eval_outside y t) as (_ & A & _). rewrite A by (rewrite (ap_size f s o y Ap); lia).
          rewrite (ap_g0' f s o y Ap Hs). reflexivity.
      - intros Hs Ht. destruct (eval_outside y t) as (A & _). rewrite (A Ht), (ap_g0' f s o y Ap Hs). reflexivity.
    Qed.
  End AppendedFacts.

  (* ================================================================ concat_local / concat_global *)
  Notation concat_local := (concat_local G op tan).
  Notation concat_global := (concat_global G tan).

  Lemma qnth_app_hi : forall (l l' : list Q) k, qnth (l ++ l') (length l + k) = qnth l' k.
  Proof. intros. unfold qnth. apply nth_app_r. Qed.

  Lemma is_empty_false : forall s : spline, 0 < size s -> is_empty G tan s = false.
  Proof. intros s H. unfold is_empty. apply Nat.eqb_neq. lia. Qed.
  Lemma is_empty_true : forall s : spline, size s = 0 -> is_empty G tan s = true.
  Proof. intros s H. unfold is_empty. apply Nat.eqb_eq. exact H. Qed.

  Lemma concat_local_appended : forall s o, WF s -> WF o -> Appended (op (end_ s)) s o (concat_local s o).
  Proof.
    intros s o Ws Wo.
    pose proof (wf_len_g s Ws) as Lg. pose proof (wf_len_V s Ws) as LV.
    pose proof (wf_len_T0 s Ws) as LT. pose proof (wf_len_Del s Ws) as LD.
    pose proof (wf_len_g o Wo) as Lg'. pose proof (wf_len_V o Wo) as LV'.
    pose proof (wf_len_T0 o Wo) as LT'. pose proof (wf_len_Del o Wo) as LD'.
    assert (Leg : length (if is_empty G tan s then end_g s
                          else upd (size s - 1) (fun g => op g (g0 o)) (end_g s)) = size s).
    { destruct (is_empty G tan s); [exact Lg|rewrite length_upd; exact Lg]. }
    constructor; unfold C12_SplineBook.concat_local, eT, sV, sT0, sDel; unfold C12_SplineBook.size in *;
      cbn [end_t end_g Vs seg_T0 seg_Del g0].
    - rewrite app_length, map_length. reflexivity.
    - rewrite !app_length, !map_length, Leg, Lg'. reflexivity.
    - rewrite !app_length, map_length, LV, LV'. reflexivity.
    - rewrite !app_length, map_length, LT, LT'. reflexivity.
    - rewrite !app_length, map_length, LD, LD'. reflexivity.
    - intro H. rewrite (is_empty_false s H). reflexivity.
    - intro H. rewrite (is_empty_true s H), (end_empty s Ws H). reflexivity.
    - intros i Hi. unfold qnth.
      rewrite !nth_app_l; auto; try (rewrite ?LV, ?LT, ?LD; exact Hi). 
    - intros i Hi. rewrite nth_app_l by (rewrite Leg; lia).
      rewrite (is_empty_false s) by (unfold C12_SplineBook.size; lia). apply nth_upd_other. lia.
    - intro H. rewrite nth_app_l by (rewrite Leg; lia).
      rewrite (is_empty_false s H). rewrite nth_upd_same by (rewrite Lg; lia).
      rewrite (end_nth s Ws H). reflexivity.
    - intros k Hk.
      repeat split.
      + rewrite qnth_app_hi. unfold qnth.
        rewrite (nth_map_lt _ _ _ 0%Q) by exact Hk. reflexivity.
      + rewrite <- LV. apply nth_app_r.
      + rewrite <- LT. apply qnth_app_hi.
      + rewrite <- LD. apply qnth_app_hi.
      + rewrite <- Leg at 1. rewrite nth_app_r.
        rewrite (nth_map_lt _ _ _ e) by (rewrite Lg'; exact Hk). reflexivity.
  Qed.

  Lemma concat_global_appended : forall s o, WF s -> WF o -> Appended (fun g => g) s o (concat_global s o).
  Proof.
    intros s o Ws Wo.
    pose proof (wf_len_g s Ws) as Lg. pose proof (wf_len_V s Ws) as LV.
    pose proof (wf_len_T0 s Ws) as LT. pose proof (wf_len_Del s Ws) as LD.
    pose proof (wf_len_g o Wo) as Lg'. pose proof (wf_len_V o Wo) as LV'.
    pose proof (wf_len_T0 o Wo) as LT'. pose proof (wf_len_Del o Wo) as LD'.
    assert (Leg : length (if is_empty G tan s then end_g s
                          else upd (size s - 1) (fun _ => g0 o) (end_g s)) = size s).
    { destruct (is_empty G tan s); [exact Lg|rewrite length_upd; exact Lg]. }
    constructor; unfold C12_SplineBook.concat_global, eT, sV, sT0, sDel; unfold C12_SplineBook.size in *;
      cbn [end_t end_g Vs seg_T0 seg_Del g0].
    - rewrite app_length, map_length. reflexivity.
    - rewrite !app_length, !map_length, Leg, Lg'. reflexivity.
    - rewrite !app_length, map_length, LV, LV'. reflexivity.
    - rewrite !app_length, map_length, LT, LT'. reflexivity.
    - rewrite !app_length, map_length, LD, LD'. reflexivity.
    - intro H. rewrite (is_empty_false s H). reflexivity.
    - intro H. rewrite (is_empty_true s H). reflexivity.
    - intros i Hi. unfold qnth.
      rewrite !nth_app_l; auto; try (rewrite ?LV, ?LT, ?LD; exact Hi).
    - intros i Hi. rewrite nth_app_l by (rewrite Leg; lia).
      rewrite (is_empty_false s) by (unfold C12_SplineBook.size; lia). apply nth_upd_other. lia.
    - intro H. rewrite nth_app_l by (rewrite Leg; lia).
      rewrite (is_empty_false s H). rewrite nth_upd_same by (rewrite Lg; lia). reflexivity.
    - intros k Hk.
      repeat split.
      + rewrite qnth_app_hi. unfold qnth.
        rewrite (nth_map_lt _ _ _ 0%Q) by exact Hk. reflexivity.
      + rewrite <- LV. apply nth_app_r.
      + rewrite <- LT. apply qnth_app_hi.
      + rewrite <- LD. apply qnth_app_hi.
      + rewrite <- Leg at 1. apply nth_app_r.
  Qed.

  Lemma op_frame : forall g a b, op g (op a b) = op (op g a) b.
  Proof. intros. rewrite op_assoc. reflexivity. Qed.

  Theorem WF_concat_local : forall s o, WF s -> WF o -> WF (concat_local s o).
  Proof. intros s o Ws Wo. exact (WF_appended _ s o _ Ws Wo (concat_local_appended s o Ws Wo)). Qed.

  Theorem WF_concat_global : forall s o, WF s -> WF o -> WF (concat_global s o).
  Proof. intros s o Ws Wo. exact (WF_appended _ s o _ Ws Wo (concat_global_appended s o Ws Wo)). Qed.

  (** the appended Spline stays continuous when other starts at the identity (local) *)
  Theorem Cont_concat_local : forall s o, WF s -> WF o -> Cont s -> Cont o ->
    (0 < size s -> g0 o = e) -> Cont (concat_local s o).
  Proof.
    intros s o Ws Wo Cs Co Hj.
    apply (Cont_appended (op (end_ s)) (op_frame (end_ s)) s o _ Ws (concat_local_appended s o Ws Wo) Cs Co).
    intro H. rewrite (Hj H), op_e_r. reflexivity.
  Qed.

  (** ... resp. where this ends (global) *)
  Theorem Cont_concat_global : forall s o, WF s -> WF o -> Cont s -> Cont o ->
    (0 < size s -> g0 o = end_ s) -> Cont (concat_global s o).
  Proof.
    intros s o Ws Wo Cs Co Hj.
    apply (Cont_appended (fun g => g) (fun a b => eq_refl) s o _ Ws (concat_global_appended s o Ws Wo) Cs Co).
    exact Hj.
  Qed.

  (** concat_local (operator+=), documented in spline.hpp:165-181:
        y(t) = x1(t)                       for t < t1      (value and derivative data)
        y(t) = x1.end() * x2(t - t1)       for t >= t1     (value and derivative data; also beyond the end)
      x1.end() = x1(t1) by continuity of x1 (eval_end).  An empty x1 gives y(t) = x1.start() * x2(t). *)
  Theorem concat_local_spec : forall s o t, WF s -> WF o ->
    let y := concat_local s o in
    (0 < size s -> (t < tmax s)%Q -> eval_full y t = eval_full s t) /\
    (0 < size o -> (tmax s <= t)%Q -> ev_rel (op (end_ s)) (eval_full y t) (eval_full o (t - tmax s))) /\
    (size o = 0 -> (tmax s < t)%Q \/ size s = 0 -> eval_full y t = (op (end_ s) (g0 o), None)) /\
    (size s = 0 -> (t < 0)%Q -> eval_full y t = (op (end_ s) (g0 o), None)).
  Proof.
    intros s o t Ws Wo y.
    pose proof (concat_local_appended s o Ws Wo) as Ap. fold y in Ap.
    exact (appended_spec _ (op_frame (end_ s)) s o y Ws Wo Ap t).
  Qed.

  (** concat_global, documented in spline.hpp:148-163:  y(t) = x1(t) for t < t1,  y(t) = x2(t - t1) for t >= t1 *)
  Theorem concat_global_spec : forall s o t, WF s -> WF o ->
    let y := concat_global s o in
    (0 < size s -> (t < tmax s)%Q -> eval_full y t = eval_full s t) /\
    (0 < size o -> (tmax s <= t)%Q -> ev_rel (fun g => g) (eval_full y t) (eval_full o (t - tmax s))) /\
    (size o = 0 -> (tmax s < t)%Q \/ size s = 0 -> eval_full y t = (g0 o, None)) /\
    (size s = 0 -> (t < 0)%Q -> eval_full y t = (g0 o, None)).
  Proof.
    intros s o t Ws Wo y.
    pose proof (concat_global_appended s o Ws Wo) as Ap. fold y in Ap.
    exact (appended_spec _ (fun a b => eq_refl) s o y Ws Wo Ap t).
  Qed.

  (* ================================================================ make_local *)
  Section Flagged.
  Variable smul : Q -> tan -> tan.
  Variable tneg : tan -> tan.
  Variable texp : tan -> G.
  Variable tlog : G -> tan.
  Variable K : nat.
  Variable fl : flags.

  Notation make_local := (make_local G op inv e tan fl).
  Notation crop := (crop G op inv e tan seg fl).
  Notation crop_Nseg := (crop_Nseg G tan).

  Lemma make_local_views : fx_make_local fl = true -> forall s, WF s ->
    let y := make_local s in
    size y = size s /\ g0 y = e /\
    (forall i, prev_t y i = prev_t s i /\ eT y i = eT s i /\ sV y i = sV s i /\ sT0 y i = sT0 s i /\ sDel y i = sDel s i) /\
    (forall i, i < size s -> nth i (end_g y) e = op (inv (g0 s)) (nth i (end_g s) e)) /\
    (forall i, i < size s -> start_g y i = op (inv (g0 s)) (start_g s i)).
  Proof.
    intros Hf s W y. unfold y, C12_SplineBook.make_local. rewrite Hf.
    assert (Hn : forall i, i < size s -> nth i (map (op (inv (g0 s))) (end_g s)) e = op (inv (g0 s)) (nth i (end_g s) e)).
    { intros i Hi. apply nth_map_lt. rewrite (wf_len_g s W). exact Hi. }
    split; [reflexivity|]. split; [reflexivity|]. split; [|split].
    - intro i. repeat split.
    - exact Hn.
    - intros i Hi. destruct i as [|i]; cbn [C12_SplineBook.start_g g0 end_g].
      + rewrite op_inv_l. reflexivity.
      + apply Hn. lia.
  Qed.

  Theorem WF_make_local : forall s, WF s -> WF (make_local s).
  Proof.
    intros s W. unfold C12_SplineBook.make_local.
    destruct (fx_make_local fl); destruct W; constructor; cbn [C12_SplineBook.size end_t end_g Vs seg_T0 seg_Del]; auto.
    rewrite map_length. assumption.
  Qed.

  (** repaired make_local: y(t) = x(0)^-1 x(t) for every t, identical derivative data; continuity preserved *)
  Theorem make_local_spec : fx_make_local fl = true -> forall s t, WF s ->
    ev_rel (op (inv (g0 s))) (eval_full (make_local s) t) (eval_full s t).
  Proof.
    intros Hf s t W. pose proof (WF_make_local s W) as Wy.
    destruct (make_local_views Hf s W) as (Hsz & Hg0 & Hv & Hg & Hs).
    set (y := make_local s) in *.
    destruct (Qlt_le_dec t 0) as [Hneg|Hpos].
    - destruct (eval_outside y t) as (A & _). destruct (eval_outside s t) as (B & _).
      rewrite (A Hneg), (B Hneg), Hg0. split; cbn [fst snd kinfo_eq]; [symmetry; apply op_inv_l|exact I].
    - destruct (Nat.eq_dec (size s) 0) as [E0|E0].
      + destruct (eval_outside y t) as (_ & A & _). destruct (eval_outside s t) as (_ & B & _).
        rewrite A by lia. rewrite (B E0), Hg0. split; cbn [fst snd kinfo_eq]; [symmetry; apply op_inv_l|exact I].
      + assert (Et : tmax y = tmax s).
        { rewrite (tmax_eT y), (tmax_eT s) by lia. rewrite Hsz. apply Hv. }
        destruct (Qlt_le_dec (tmax s) t) as [Hout|Hin].
        * destruct (eval_outside y t) as (_ & _ & A). destruct (eval_outside s t) as (_ & _ & B).
          rewrite A; [|lia|lra|rewrite Et; lra]. rewrite B; [|lia|lra|lra].
          split; cbn [fst snd kinfo_eq]; auto.
          rewrite (end_nth y Wy), (end_nth s W) by lia. rewrite Hsz. apply Hg. lia.
        * destruct (in_seg_exists s t W ltac:(lia) Hpos Hin) as (i & Hi & IS).
          destruct (Hv i) as (V1 & V2 & V3 & V4 & V5).
          apply (eval_transfer (op (inv (g0 s))) y s t t i i); auto; try lia.
          -- unfold in_seg in *. rewrite V1, V2, Hsz. exact IS.
          -- unfold curve, useg. rewrite (Hs i Hi), V1, V2, V3, V4, V5, !op_assoc. reflexivity.
          -- unfold useg. rewrite V1, V2, V4, V5. reflexivity.
          -- unfold ratio. rewrite V1, V2, V5. reflexivity.
  Qed.

  Theorem Cont_make_local : fx_make_local fl = true -> forall s, WF s -> Cont s -> Cont (make_local s).
  Proof.
    intros Hf s W C i Hi.
    destruct (make_local_views Hf s W) as (Hsz & Hg0 & Hv & Hg & Hs).
    rewrite Hsz in Hi. destruct (Hv i) as (V1 & V2 & V3 & V4 & V5).
    rewrite (Hg i Hi), (Hs i Hi), V3, V4, V5, (C i Hi), !op_assoc. reflexivity.
  Qed.

  (* ================================================================ crop *)
  Lemma qmax_id : forall a, (0 <= a)%Q -> qmax a 0 = a.
  Proof. intros a H. unfold qmax. destruct (Qltb a 0) eqn:E; [apply Qltb_true in E; lra|reflexivity]. Qed.
  Lemma qmin_id : forall a b, (a <= b)%Q -> qmin a b = a.
  Proof. intros a b H. unfold qmin. destruct (Qltb b a) eqn:E; [apply Qltb_true in E; lra|reflexivity]. Qed.
  Lemma qmax_nonneg : forall a, (0 <= qmax a 0)%Q.
  Proof. intro a. unfold qmax. destruct (Qltb a 0) eqn:E; [lra|apply Qltb_false in E; exact E]. Qed.
  Lemma qmin_le_r : forall a b, (qmin a b <= b)%Q.
  Proof. intros a b. unfold qmin. destruct (Qltb b a) eqn:E; [lra|apply Qltb_false in E; exact E]. Qed.

  (** crop clamps its arguments: crop(ta, tb) = crop(max(ta,0), min(tb,t_max)) *)
  Lemma crop_clamp : forall s ta tb loc, crop s ta tb loc = crop s (qmax ta 0) (qmin tb (tmax s)) loc.
  Proof.
    intros s ta tb loc. unfold C12_SplineBook.crop.
    rewrite (qmax_id (qmax ta 0) (qmax_nonneg ta)).
    rewrite (qmin_id (qmin tb (tmax s)) (tmax s) (qmin_le_r tb (tmax s))). reflexivity.
  Qed.

  Theorem crop_empty_interval : forall s ta tb loc, (qmin tb (tmax s) <= qmax ta 0)%Q -> crop s ta tb loc = mk_empty e.
  Proof.
    intros s ta tb loc H. unfold C12_SplineBook.crop. apply Qle_bool_iff in H. rewrite H. reflexivity.
  Qed.

  (** the segments kept by crop: i0 .. i0+Nseg-1, ta in the first, tb in the last (not at its start) *)
  Lemma crop_Nseg_spec : forall s ta tb, WF s -> (0 <= ta)%Q -> (ta < tb)%Q -> (tb <= tmax s)%Q ->
    forall i0 Nseg, crop_Nseg s ta tb = (i0, Nseg) ->
    0 < Nseg /\ i0 + Nseg <= size s /\
    (prev_t s i0 <= ta)%Q /\ (ta < eT s i0)%Q /\
    (prev_t s (i0 + Nseg - 1) < tb)%Q /\ (tb <= eT s (i0 + Nseg - 1))%Q.
  Proof.
    intros s ta tb W H0 Hab Hb i0 Nseg E.
    assert (Hn : 0 < size s).
    { destruct (Nat.eq_dec (size s) 0) as [Z|Z]; [|lia]. rewrite (tmax_empty s Z) in Hb. lra. }
    unfold C12_SplineBook.crop_Nseg in E.
    destruct (find_idx_spec s ta W Hn H0) as (A1 & A2 & A3).
    destruct (find_idx_spec s tb W Hn ltac:(lra)) as (B1 & B2 & B3).
    set (a := find_idx s ta) in *. set (b := find_idx s tb) in *. clearbody a b.
    assert (A3' : (ta < eT s a)%Q).
    { destruct A3 as [A3|[A3 A4]]; [exact A3|]. rewrite (tmax_eT s Hn), <- A3 in Hb. lra. }
    assert (B3' : (tb <= eT s b)%Q).
    { destruct B3 as [B3|[B3 B4]]; [lra|]. rewrite (tmax_eT s Hn), <- B3 in Hb. exact Hb. }
    assert (Hab' : a <= b).
    { destruct (le_lt_dec a b) as [L|L]; [exact L|]. pose proof (eT_le_prev s W b a L A1). lra. }
    destruct ((2 <=? b + 1 - a) && Qeq_bool (qnth (end_t s) (a + (b + 1 - a) - 2)) tb) eqn:Ec.
    - apply andb_true_iff in Ec. destruct Ec as [Ec1 Ec2]. apply Nat.leb_le in Ec1. apply Qeq_bool_iff in Ec2.
      injection E as <- <-.
      replace (a + (b + 1 - a) - 2) with (b - 1) in Ec2 by lia.
      replace (a + (b + 1 - a - 1) - 1) with (b - 1) by lia.
      fold (eT s (b - 1)) in Ec2.
      pose proof (wf_incr s W (b - 1) ltac:(lia)).
      repeat split; try lia; auto; lra.
    - injection E as <- <-.
      replace (a + (b + 1 - a) - 1) with b by lia.
      repeat split; try lia; auto.
      apply andb_false_iff in Ec. destruct Ec as [Ec|Ec].
      + apply Nat.leb_gt in Ec. assert (a = b) by lia. subst b. lra.
      + destruct (Nat.eq_dec a b) as [<-|Hne]; [lra|].
        replace (a + (b + 1 - a) - 2) with (b - 1) in Ec by lia.
        destruct b as [|b']; [lia|]. replace (S b' - 1) with b' in Ec by lia.
        cbn [C12_SplineBook.prev_t] in *.
        destruct (Qeq_dec (qnth (end_t s) b') tb) as [Q1|Q1].
        * apply Qeq_bool_iff in Q1. congruence.
        * lra.
  Qed.

  (* the result of crop on clamped arguments with the index repair, written out *)
  Definition crop_body (s : spline) (ta tb : Q) (loc : bool) (i0 Nseg : nat) : spline :=
    let ga := eval s ta in
    let gb := eval s tb in
    let fr := fun g : G => if fx_crop_frame fl && negb loc then g else op (inv ga) g in
    let T0s := slice i0 Nseg (seg_T0 s) in
    let Dels := slice i0 Nseg (seg_Del s) in
    let tta := prev_t s i0 in
    let ttb := qnth (end_t s) i0 in
    let T0s1 := upd 0 (fun x => x + qnth Dels 0 * (ta - tta) / (ttb - tta))%Q T0s in
    let Dels1 := upd 0 (fun x => x * ((ttb - ta) / (ttb - tta)))%Q Dels in
    let tta2 := if (Nseg =? 1) then ta else qnth (end_t s) (i0 + Nseg - 2) in
    let ttb2 := qnth (end_t s) (i0 + Nseg - 1) in
    mkspline (if loc then e else ga)
      (map (fun x => x - ta)%Q (slice i0 (Nseg - 1) (end_t s)) ++ [(tb - ta)%Q])
      (map fr (slice i0 (Nseg - 1) (end_g s)) ++ [fr gb])
      (slice i0 Nseg (Vs s))
      (upd (Nseg - 1) (fun x => x + qnth Dels1 (Nseg - 1) * (tta2 - tta2) / (ttb2 - tta2))%Q T0s1)
      (upd (Nseg - 1) (fun x => x * ((tb - tta2) / (ttb2 - tta2)))%Q Dels1).

  Lemma crop_unfold : fx_crop_idx fl = true -> forall s ta tb loc i0 Nseg,
    (0 <= ta)%Q -> (ta < tb)%Q -> (tb <= tmax s)%Q -> crop_Nseg s ta tb = (i0, Nseg) -> 0 < Nseg ->
    crop s ta tb loc = crop_body s ta tb loc i0 Nseg.
  Proof.
    intros Hf s ta tb loc i0 Nseg H0 Hab Hb EN Hpos.
    unfold C12_SplineBook.crop. rewrite (qmax_id ta H0), (qmin_id tb (tmax s) Hb).
    destruct (Qle_bool tb ta) eqn:E1; [apply Qle_bool_iff in E1; lra|].
    rewrite EN. destruct (Nseg =? 0) eqn:E2; [apply Nat.eqb_eq in E2; lia|].
    rewrite Hf. reflexivity.
  Qed.

  Lemma upd2_qnth : forall (l : list Q) (n : nat) (f1 f2 : Q -> Q) (k : nat), length l = n -> k < n ->
    qnth (upd (n - 1) f2 (upd 0 f1 l)) k =
    (if k =? n - 1 then f2 else (fun x => x)) ((if k =? 0 then f1 else (fun x => x)) (qnth l k)).
  Proof.
    intros l n f1 f2 k Hl Hk. unfold qnth.
    destruct (Nat.eqb_spec k (n - 1)) as [E1|E1]; destruct (Nat.eqb_spec k 0) as [E2|E2].
    - rewrite E1 in E2. rewrite E1, E2.
      rewrite nth_upd_same by (rewrite length_upd; lia). rewrite nth_upd_same by lia. reflexivity.
    - rewrite E1. rewrite nth_upd_same by (rewrite length_upd; lia).
      rewrite nth_upd_other by lia. reflexivity.
    - rewrite E2. rewrite nth_upd_other by lia. rewrite nth_upd_same by lia. reflexivity.
    - rewrite nth_upd_other by lia. rewrite nth_upd_other by lia. reflexivity.
  Qed.

  Section CropCore.
    Hypothesis Hfi : fx_crop_idx fl = true.
    Variable s : spline.
    Variables ta tb : Q.
    Variable loc : bool.
    Variables i0 Nseg : nat.
    Hypothesis W : WF s.
    Hypothesis H0 : (0 <= ta)%Q.
    Hypothesis Hab : (ta < tb)%Q.
    Hypothesis Hb : (tb <= tmax s)%Q.
    Hypothesis EN : crop_Nseg s ta tb = (i0, Nseg).
    Hypothesis Hfr : loc = true \/ fx_crop_frame fl = true.

    Let y := crop_body s ta tb loc i0 Nseg.
    Let ga := eval s ta.
    Definition cframe (g : G) : G := if loc then op (inv ga) g else g.
    Definition clo (k : nat) : Q := if k =? 0 then ta else prev_t s (i0 + k).
    Definition chi (k : nat) : Q := if k <? Nseg - 1 then eT s (i0 + k) else tb.

    Lemma cN : 0 < Nseg /\ i0 + Nseg <= size s /\
      (prev_t s i0 <= ta)%Q /\ (ta < eT s i0)%Q /\
      (prev_t s (i0 + Nseg - 1) < tb)%Q /\ (tb <= eT s (i0 + Nseg - 1))%Q.
    Proof. exact (crop_Nseg_spec s ta tb W H0 Hab Hb i0 Nseg EN). Qed.

    Lemma cframe_op : forall a b, cframe (op a b) = op (cframe a) b.
    Proof. intros a b. unfold cframe. destruct loc; [rewrite op_assoc|]; reflexivity. Qed.

    Lemma cfr_frame : forall g, (if fx_crop_frame fl && negb loc then g else op (inv ga) g) = cframe g.
    Proof.
      intro g. unfold cframe. destruct Hfr as [E|E]; rewrite E; [rewrite andb_false_r; reflexivity|].
      destruct loc; reflexivity.
    Qed.

    Lemma clohi : forall k, k < Nseg ->
      (prev_t s (i0 + k) <= clo k)%Q /\ (clo k < chi k)%Q /\ (chi k <= eT s (i0 + k))%Q.
    Proof.
      intros k Hk. destruct cN as (N1 & N2 & P0 & Q0 & PL & QL). unfold clo, chi.
      destruct (Nat.eqb_spec k 0) as [E1|E1]; destruct (Nat.ltb_spec k (Nseg - 1)) as [E2|E2].
      - subst k. rewrite Nat.add_0_r. repeat split; lra.
      - subst k. assert (Nseg = 1) by lia. subst Nseg. rewrite Nat.add_0_r.
        replace (i0 + 1 - 1) with i0 in * by lia. repeat split; lra.
      - pose proof (wf_incr s W (i0 + k) ltac:(lia)). repeat split; lra.
      - assert (k = Nseg - 1) by lia. subst k. replace (i0 + (Nseg - 1)) with (i0 + Nseg - 1) by lia.
        repeat split; lra.
    Qed.

    Lemma cy_size : size y = Nseg.
    Proof.
      destruct cN as (N1 & N2 & _).
      unfold y, crop_body, C12_SplineBook.size. cbn [end_t].
      rewrite app_length, map_length, length_slice by (fold (size s); lia). cbn [length]. lia.
    Qed.

    Lemma cy_eT : forall k, k < Nseg -> eT y k = (chi k - ta)%Q.
    Proof.
      intros k Hk. destruct cN as (N1 & N2 & _).
      assert (Ls : length (map (fun x => x - ta)%Q (slice i0 (Nseg - 1) (end_t s))) = Nseg - 1).
      { rewrite map_length, length_slice by (fold (size s); lia). reflexivity. }
      unfold y, crop_body, eT, chi, qnth. cbn [end_t].
      destruct (k <? Nseg - 1) eqn:E; [apply Nat.ltb_lt in E|apply Nat.ltb_ge in E].
      - rewrite nth_app_l by (rewrite Ls; exact E).
        rewrite (nth_map_lt _ _ _ 0%Q) by (rewrite length_slice by (fold (size s); lia); exact E).
        rewrite nth_slice by exact E. reflexivity.
      - assert (k = Nseg - 1) by lia. subst k. rewrite <- Ls at 1.
        rewrite <- (Nat.add_0_r (length _)). rewrite nth_app_r. reflexivity.
    Qed.

    Lemma cy_prev : forall k, k < Nseg -> (prev_t y k == clo k - ta)%Q.
    Proof.
      intros k Hk. unfold clo. destruct k as [|k]; cbn [C12_SplineBook.prev_t Nat.eqb]; [lra|].
      pose proof (cy_eT k ltac:(lia)) as E. unfold eT in E. rewrite E. unfold chi.
      destruct (k <? Nseg - 1) eqn:E2; [|apply Nat.ltb_ge in E2; lia].
      rewrite Nat.add_succ_r. cbn [C12_SplineBook.prev_t]. reflexivity.
    Qed.

    Lemma cy_V : forall k, k < Nseg -> sV y k = sV s (i0 + k).
    Proof.
      intros k Hk. unfold y, crop_body, sV. cbn [Vs]. apply nth_slice. exact Hk.
    Qed.

    Lemma slice_T0 : forall k, k < Nseg -> qnth (slice i0 Nseg (seg_T0 s)) k = sT0 s (i0 + k).
    Proof. intros k Hk. unfold qnth, sT0. apply nth_slice. exact Hk. Qed.
    Lemma slice_Del : forall k, k < Nseg -> qnth (slice i0 Nseg (seg_Del s)) k = sDel s (i0 + k).
    Proof. intros k Hk. unfold qnth, sDel. apply nth_slice. exact Hk. Qed.

    Lemma cy_T0 : forall k, k < Nseg ->
      (sT0 y k == sT0 s (i0 + k) + sDel s (i0 + k) * (clo k - prev_t s (i0 + k)) / (eT s (i0 + k) - prev_t s (i0 + k)))%Q.
    Proof.
      intros k Hk. destruct cN as (N1 & N2 & P0 & Q0 & PL & QL).
      unfold y, crop_body. unfold sT0 at 1. cbn [seg_T0].
      rewrite upd2_qnth; [|rewrite length_slice; [reflexivity|rewrite (wf_len_T0 s W); lia]|exact Hk].
      rewrite (slice_T0 k Hk), (slice_Del 0 N1). rewrite Nat.add_0_r.
      fold (eT s i0).
      match goal with |- context [qnth (upd 0 ?f ?l) (Nseg - 1)] => generalize (qnth (upd 0 f l) (Nseg - 1)) end.
      intro D. unfold clo.
      destruct (Nat.eqb_spec k 0) as [E1|E1].
      - subst k. rewrite Nat.add_0_r. destruct (0 =? Nseg - 1); unfold Qdiv; ring.
      - destruct (k =? Nseg - 1); unfold Qdiv; ring.
    Qed.

    Lemma cy_Del : forall k, k < Nseg ->
      (sDel y k == sDel s (i0 + k) * (chi k - clo k) / (eT s (i0 + k) - prev_t s (i0 + k)))%Q.
    Proof.
      intros k Hk. destruct cN as (N1 & N2 & P0 & Q0 & PL & QL).
      destruct (clohi k Hk) as (L1 & L2 & L3).
      pose proof (wf_incr s W (i0 + k) ltac:(lia)) as Hinc.
      unfold y, crop_body. unfold sDel at 1. cbn [seg_Del].
      rewrite upd2_qnth; [|rewrite length_slice; [reflexivity|rewrite (wf_len_Del s W); lia]|exact Hk].
      rewrite (slice_Del k Hk).
      unfold clo, chi in *. fold (eT s i0) (eT s (i0 + Nseg - 1)).
      destruct (Nat.eqb_spec k 0) as [E1|E1]; destruct (Nat.eqb_spec k (Nseg - 1)) as [E2|E2].
      - (* Nseg = 1 *)
        subst k. assert (Nseg = 1) by lia. subst Nseg. cbn [Nat.eqb Nat.sub Nat.ltb Nat.leb] in *.
        rewrite Nat.add_0_r in *. replace (i0 + 1 - 1) with i0 in * by lia.
        field. split; lra.
      - subst k. destruct (Nat.ltb_spec 0 (Nseg - 1)) as [E3|E3]; [|lia].
        rewrite Nat.add_0_r in *. field. lra.
      - subst k. destruct (Nat.ltb_spec (Nseg - 1) (Nseg - 1)) as [E3|E3]; [lia|].
        destruct (Nat.eqb_spec Nseg 1) as [E4|E4]; [lia|].
        replace (i0 + (Nseg - 1)) with (S (i0 + Nseg - 2)) in * by lia.
        replace (i0 + Nseg - 1) with (S (i0 + Nseg - 2)) by lia.
        cbn [C12_SplineBook.prev_t] in *. unfold eT in *. field. lra.
      - destruct (Nat.ltb_spec k (Nseg - 1)) as [E3|E3]; [|lia].
        field. lra.
    Qed.

    Lemma cy_g0 : g0 y = cframe ga.
    Proof.
      unfold y, crop_body, cframe. cbn [g0]. fold ga. destruct loc; [rewrite op_inv_l|]; reflexivity.
    Qed.

    Lemma cy_endg : forall k, k < Nseg ->
      nth k (end_g y) e = cframe (if k <? Nseg - 1 then nth (i0 + k) (end_g s) e else eval s tb).
    Proof.
      intros k Hk. destruct cN as (N1 & N2 & _).
      unfold y, crop_body. cbn [end_g]. fold ga.
      assert (Ls : length (map (fun g : G => if fx_crop_frame fl && negb loc then g else op (inv ga) g)
                             (slice i0 (Nseg - 1) (end_g s))) = Nseg - 1).
      { rewrite map_length, length_slice by (rewrite (wf_len_g s W); lia). reflexivity. }
      destruct (k <? Nseg - 1) eqn:E; [apply Nat.ltb_lt in E|apply Nat.ltb_ge in E].
      - rewrite nth_app_l by (rewrite Ls; exact E).
        rewrite (nth_map_lt _ _ _ e) by (rewrite length_slice by (rewrite (wf_len_g s W); lia); exact E).
        rewrite nth_slice by exact E. apply cfr_frame.
      - assert (k = Nseg - 1) by lia. subst k. rewrite <- Ls at 1.
        rewrite <- (Nat.add_0_r (length _)). rewrite nth_app_r. cbn [nth]. apply cfr_frame.
    Qed.

    Lemma cy_lens : length (end_g y) = size y /\ length (Vs y) = size y /\
      length (seg_T0 y) = size y /\ length (seg_Del y) = size y.
    Proof.
      destruct cN as (N1 & N2 & _). rewrite cy_size.
      unfold y, crop_body. cbn [end_g Vs seg_T0 seg_Del].
      rewrite app_length, map_length, !length_upd, !length_slice;
        rewrite ?(wf_len_g s W), ?(wf_len_V s W), ?(wf_len_T0 s W), ?(wf_len_Del s W); try lia.
      cbn [length]. repeat split; lia.
    Qed.

    (* u(t) and Del/T of the kept segments are those of the original segments at ta + t *)
    Lemma cy_useg : forall k t, k < Nseg -> (useg y k t == useg s (i0 + k) (ta + t))%Q.
    Proof.
      intros k t Hk. destruct cN as (N1 & N2 & _).
      destruct (clohi k Hk) as (L1 & L2 & L3).
      pose proof (wf_incr s W (i0 + k) ltac:(lia)) as Hinc.
      unfold useg. rewrite (cy_T0 k Hk), (cy_Del k Hk), (cy_prev k Hk), (cy_eT k Hk).
      field. split; lra.
    Qed.

    Lemma cy_ratio : forall k, k < Nseg -> (ratio y k == ratio s (i0 + k))%Q.
    Proof.
      intros k Hk. destruct cN as (N1 & N2 & _).
      destruct (clohi k Hk) as (L1 & L2 & L3).
      pose proof (wf_incr s W (i0 + k) ltac:(lia)) as Hinc.
      unfold ratio. rewrite (cy_Del k Hk), (cy_prev k Hk), (cy_eT k Hk).
      field. split; lra.
    Qed.

    Theorem WF_crop_body : WF y.
    Proof.
      destruct cN as (N1 & N2 & _). destruct cy_lens as (A & B & C & D).
      constructor; auto; rewrite cy_size; intros k Hk;
        destruct (clohi k Hk) as (L1 & L2 & L3);
        pose proof (wf_incr s W (i0 + k) ltac:(lia)) as Hinc;
        pose proof (wf_T0 s W (i0 + k) ltac:(lia)) as HT0;
        pose proof (wf_Del s W (i0 + k) ltac:(lia)) as HDel;
        pose proof (wf_T0Del s W (i0 + k) ltac:(lia)) as HTD.
      - rewrite (cy_prev k Hk), (cy_eT k Hk). lra.
      - rewrite (cy_T0 k Hk).
        destruct (Qscaled_range (sDel s (i0 + k)) (clo k - prev_t s (i0 + k)) (eT s (i0 + k) - prev_t s (i0 + k))); lra.
      - rewrite (cy_Del k Hk).
        assert (E : (sDel s (i0 + k) * (chi k - clo k) / (eT s (i0 + k) - prev_t s (i0 + k)) ==
                     sDel s (i0 + k) * ((chi k - clo k) / (eT s (i0 + k) - prev_t s (i0 + k))))%Q) by (field; lra).
        rewrite E. apply Qscaled_pos; lra.
      - rewrite (cy_T0 k Hk), (cy_Del k Hk).
        assert (E : (sT0 s (i0 + k) + sDel s (i0 + k) * (clo k - prev_t s (i0 + k)) / (eT s (i0 + k) - prev_t s (i0 + k)) +
                     sDel s (i0 + k) * (chi k - clo k) / (eT s (i0 + k) - prev_t s (i0 + k)) ==
                     sT0 s (i0 + k) + sDel s (i0 + k) * (chi k - prev_t s (i0 + k)) / (eT s (i0 + k) - prev_t s (i0 + k)))%Q)
          by (field; lra).
        rewrite E.
        destruct (Qscaled_range (sDel s (i0 + k)) (chi k - prev_t s (i0 + k)) (eT s (i0 + k) - prev_t s (i0 + k))); lra.
    Qed.

    Lemma useg_proper : forall (x : spline) i t t', (t == t')%Q -> (useg x i t == useg x i t')%Q.
    Proof. intros x i t t' H. unfold useg. rewrite H. reflexivity. Qed.

    Lemma curve_proper : forall (x : spline) i t t', (t == t')%Q -> curve x i t = curve x i t'.
    Proof. intros x i t t' H. unfold curve. apply f_equal. apply seg_proper. apply useg_proper. exact H. Qed.

    Lemma cy_start : forall k, k < Nseg -> start_g y k = cframe (if k =? 0 then ga else start_g s (i0 + k)).
    Proof.
      intros k Hk. destruct k as [|k]; cbn [C12_SplineBook.start_g Nat.eqb].
      - apply cy_g0.
      - rewrite (cy_endg k ltac:(lia)). destruct (Nat.ltb_spec k (Nseg - 1)) as [E|E]; [|lia].
        rewrite Nat.add_succ_r. reflexivity.
    Qed.

    Lemma ga_curve : ga = curve s i0 ta.
    Proof.
      destruct cN as (N1 & N2 & P0 & Q0 & _).
      unfold ga, C12_SplineBook.eval. rewrite (eval_seg s ta i0 W ltac:(lia) P0 (or_introl Q0)). reflexivity.
    Qed.

    Lemma cy_curve : forall k t, k < Nseg -> curve y k t = cframe (curve s (i0 + k) (ta + t)).
    Proof.
      intros k t Hk. destruct cN as (N1 & N2 & _).
      unfold curve at 1. rewrite (cy_start k Hk), (cy_V k Hk).
      rewrite (seg_proper _ _ _ (cy_useg k t Hk)).
      assert (ET0 : (sT0 y k == useg s (i0 + k) (clo k))%Q) by (unfold useg; apply cy_T0; exact Hk).
      rewrite (seg_proper _ _ _ ET0).
      rewrite <- !cframe_op. apply f_equal. unfold clo.
      destruct (Nat.eqb_spec k 0) as [E|E].
      - subst k. rewrite Nat.add_0_r. rewrite ga_curve. unfold curve.
        rewrite (op_assoc _ (seg (sV s i0) (useg s i0 ta))), op_inv_r, op_e_r. reflexivity.
      - rewrite (seg_proper _ _ _ (useg_at_prev s (i0 + k) W ltac:(lia))). reflexivity.
    Qed.

    Lemma cy_tmax : tmax y = (tb - ta)%Q.
    Proof.
      destruct cN as (N1 & _).
      rewrite (tmax_eT y) by (rewrite cy_size; lia). rewrite cy_size, cy_eT by lia.
      unfold chi. destruct (Nat.ltb_spec (Nseg - 1) (Nseg - 1)); [lia|reflexivity].
    Qed.

    Lemma cy_end : end_ y = cframe (eval s tb).
    Proof.
      destruct cN as (N1 & _).
      rewrite (end_nth y WF_crop_body) by (rewrite cy_size; lia). rewrite cy_size, cy_endg by lia.
      destruct (Nat.ltb_spec (Nseg - 1) (Nseg - 1)); [lia|reflexivity].
    Qed.

    (** inside: y(t) = frame (x(ta + t)) with identical derivative data *)
    Lemma crop_core_inside : forall t, (0 <= t)%Q -> (t < tb - ta)%Q ->
      ev_rel cframe (eval_full y t) (eval_full s (ta + t)).
    Proof.
      intros t Ht0 Ht1. destruct cN as (N1 & N2 & _). pose proof WF_crop_body as Wy.
      destruct (in_seg_exists y t Wy ltac:(rewrite cy_size; lia) Ht0 ltac:(rewrite cy_tmax; lra)) as (k & Hk & IS).
      rewrite cy_size in Hk.
      destruct (clohi k Hk) as (L1 & L2 & L3).
      destruct IS as [I1 I2].
      assert (I2' : (t < eT y k)%Q).
      { destruct I2 as [I2|[I2 _]]; [exact I2|]. rewrite cy_size in I2. subst k.
        rewrite <- cy_size, <- (tmax_eT y) by (rewrite cy_size; lia). rewrite cy_tmax. exact Ht1. }
      rewrite (cy_prev k Hk) in I1. rewrite (cy_eT k Hk) in I2'.
      apply (eval_transfer cframe y s t (ta + t) k (i0 + k)); auto; try lia.
      - rewrite cy_size. exact Hk.
      - split; [rewrite (cy_prev k Hk); lra|]. left. rewrite (cy_eT k Hk). exact I2'.
      - split; [lra|]. left. lra.
      - apply cy_curve. exact Hk.
      - apply cy_V. exact Hk.
      - apply cy_useg. exact Hk.
      - apply cy_ratio. exact Hk.
    Qed.

    Lemma crop_core_before : forall t, (t < 0)%Q -> eval_full y t = (cframe ga, None).
    Proof.
      intros t Ht. destruct (eval_outside y t) as (A & _). rewrite (A Ht), cy_g0. reflexivity.
    Qed.

    Lemma crop_core_beyond : forall t, (tb - ta < t)%Q -> eval_full y t = (cframe (eval s tb), None).
    Proof.
      intros t Ht. destruct cN as (N1 & _). destruct (eval_outside y t) as (_ & _ & A).
      rewrite A; [|rewrite cy_size; lia|lra|rewrite cy_tmax; exact Ht]. rewrite cy_end. reflexivity.
    Qed.

    Lemma eval_tb_curve : Cont s -> eval s tb = curve s (i0 + Nseg - 1) tb.
    Proof.
      intro C. destruct cN as (N1 & N2 & P0 & Q0 & PL & QL).
      apply (eval_segment s tb (i0 + Nseg - 1) W C); [lia|lra|lra].
    Qed.

    (** at the end of the cropped interval (needs continuity of x at tb, which may be a knot) *)
    Lemma crop_core_at_end : Cont s -> eval y (tb - ta) = cframe (eval s tb).
    Proof.
      intro C. destruct cN as (N1 & N2 & _). pose proof WF_crop_body as Wy.
      assert (Hl : Nseg - 1 < Nseg) by lia.
      destruct (clohi (Nseg - 1) Hl) as (L1 & L2 & L3).
      assert (Hchi : chi (Nseg - 1) = tb).
      { unfold chi. destruct (Nat.ltb_spec (Nseg - 1) (Nseg - 1)); [lia|reflexivity]. }
      unfold C12_SplineBook.eval at 1.
      rewrite (eval_seg y (tb - ta) (Nseg - 1) Wy).
      - cbn [fst]. rewrite (cy_curve _ _ Hl), (eval_tb_curve C).
        replace (i0 + (Nseg - 1)) with (i0 + Nseg - 1) by lia.
        apply f_equal. apply curve_proper. lra.
      - rewrite cy_size. exact Hl.
      - rewrite (cy_prev _ Hl). rewrite Hchi in L2. lra.
      - right. split; [rewrite cy_size; reflexivity|]. rewrite (cy_eT _ Hl), Hchi. lra.
    Qed.

    Lemma Cont_crop_body : Cont s -> Cont y.
    Proof.
      intros C k Hk. rewrite cy_size in Hk. destruct cN as (N1 & N2 & _). pose proof WF_crop_body as Wy.
      destruct (clohi k Hk) as (L1 & L2 & L3).
      assert (Hky : k < size y) by (rewrite cy_size; exact Hk).
      transitivity (curve y k (eT y k)).
      - rewrite (cy_curve k _ Hk), (cy_endg k Hk), (cy_eT k Hk). apply f_equal. unfold chi.
        destruct (Nat.ltb_spec k (Nseg - 1)) as [E|E].
        + rewrite <- (curve_at_end s (i0 + k) W C ltac:(lia)). apply curve_proper. lra.
        + assert (k = Nseg - 1) by lia. subst k. rewrite (eval_tb_curve C).
          replace (i0 + (Nseg - 1)) with (i0 + Nseg - 1) by lia. apply curve_proper. lra.
      - unfold curve. apply f_equal. apply seg_proper. apply useg_at_end; assumption.
    Qed.
  End CropCore.

  (** crop keeps the structural invariant (repaired index computation) *)
  Theorem WF_crop : fx_crop_idx fl = true -> forall s ta tb loc, WF s -> WF (crop s ta tb loc).
  Proof.
    intros Hf s ta tb loc W.
    destruct (Qlt_le_dec (qmax ta 0) (qmin tb (tmax s))) as [Hlt|Hge].
    - rewrite crop_clamp.
      set (ta' := qmax ta 0) in *. set (tb' := qmin tb (tmax s)) in *.
      destruct (crop_Nseg s ta' tb') as [i0 Nseg] eqn:EN.
      pose proof (qmax_nonneg ta) as H0. pose proof (qmin_le_r tb (tmax s)) as Hb. fold ta' in H0. fold tb' in Hb.
      destruct (crop_Nseg_spec s ta' tb' W H0 Hlt Hb i0 Nseg EN) as (N1 & _).
      rewrite (crop_unfold Hf s ta' tb' loc i0 Nseg H0 Hlt Hb EN N1).
      eapply WF_crop_body; eauto.
    - rewrite (crop_empty_interval s ta tb loc Hge). apply WF_mk_empty.
  Qed.

  (** crop(ta, tb, localize), documented in spline.hpp:228-241 (with ta, tb clamped to [0, t_max], ta < tb):
        y(t) = x(ta)^-1 x(ta + t)   (localize)      y(t) = x(ta + t)   (not localized)
      on [0, tb - ta) with identical derivative data (control points, u, Del/T), start()/end() values outside,
      and at t = tb - ta for continuous x; continuity is preserved. *)
  Theorem crop_spec : fx_crop_idx fl = true -> forall s ta tb loc, WF s ->
    (loc = true \/ fx_crop_frame fl = true) ->
    let ta' := qmax ta 0 in
    let tb' := qmin tb (tmax s) in
    (ta' < tb')%Q ->
    let y := crop s ta tb loc in
    let fr := fun g => if loc then op (inv (eval s ta')) g else g in
    tmax y = (tb' - ta')%Q /\
    (forall t, (0 <= t)%Q -> (t < tb' - ta')%Q -> ev_rel fr (eval_full y t) (eval_full s (ta' + t))) /\
    (forall t, (t < 0)%Q -> eval_full y t = (fr (eval s ta'), None)) /\
    (forall t, (tb' - ta' < t)%Q -> eval_full y t = (fr (eval s tb'), None)) /\
    (Cont s -> eval y (tb' - ta') = fr (eval s tb') /\ Cont y).
  Proof.
    intros Hf s ta tb loc W Hfr ta' tb' Hlt y fr.
    unfold y. rewrite crop_clamp. fold ta' tb'.
    destruct (crop_Nseg s ta' tb') as [i0 Nseg] eqn:EN.
    pose proof (qmax_nonneg ta) as H0. pose proof (qmin_le_r tb (tmax s)) as Hb. fold ta' in H0. fold tb' in Hb.
    destruct (crop_Nseg_spec s ta' tb' W H0 Hlt Hb i0 Nseg EN) as (N1 & _).
    rewrite (crop_unfold Hf s ta' tb' loc i0 Nseg H0 Hlt Hb EN N1).
    split; [eapply cy_tmax; eauto|].
    split; [intros t A B; eapply crop_core_inside; eauto|].
    split; [intros t A; eapply crop_core_before; eauto|].
    split; [intros t A; eapply crop_core_beyond; eauto|].
    intro C. split.
    - eapply crop_core_at_end; eauto.
    - eapply Cont_crop_body; eauto.
  Qed.

  Theorem Cont_crop : fx_crop_idx fl = true -> forall s ta tb loc, WF s -> Cont s ->
    (loc = true \/ fx_crop_frame fl = true) -> Cont (crop s ta tb loc).
  Proof.
    intros Hf s ta tb loc W C Hfr.
    destruct (Qlt_le_dec (qmax ta 0) (qmin tb (tmax s))) as [Hlt|Hge].
    - destruct (crop_spec Hf s ta tb loc W Hfr Hlt) as (_ & _ & _ & _ & H). apply H. exact C.
    - rewrite (crop_empty_interval s ta tb loc Hge). apply Cont_mk_empty.
  Qed.

  Lemma Qeq_bool_pos : forall d, (0 < d)%Q -> Qeq_bool d 0 = false.
  Proof.
    intros d H. destruct (Qeq_bool d 0) eqn:E; [|reflexivity]. apply Qeq_bool_iff in E. lra.
  Qed.

  (** with the repaired indices neither re-parameterisation block divides by zero *)
  Theorem crop_no_division_by_zero : fx_crop_idx fl = true -> forall s ta tb, WF s ->
    crop_div0 G tan fl s ta tb = false.
  Proof.
    intros Hf s ta tb W. unfold C12_SplineBook.crop_div0.
    set (ta' := qmax ta 0). set (tb' := qmin tb (tmax s)).
    destruct (Qle_bool tb' ta') eqn:E1; [reflexivity|]. apply Qle_bool_false in E1.
    pose proof (qmax_nonneg ta) as H0. pose proof (qmin_le_r tb (tmax s)) as Hb. fold ta' in H0. fold tb' in Hb.
    unfold C12_SplineBook.crop_divisors.
    destruct (crop_Nseg s ta' tb') as [i0 Nseg] eqn:EN.
    destruct (crop_Nseg_spec s ta' tb' W H0 E1 Hb i0 Nseg EN) as (N1 & N2 & P0 & Q0 & PL & QL).
    destruct (Nat.eqb_spec Nseg 0) as [Z|Z]; [lia|]. rewrite Hf.
    pose proof (wf_incr s W i0 ltac:(lia)) as I0. unfold eT in *.
    assert (D1 : (0 < qnth (end_t s) i0 - prev_t s i0)%Q) by lra.
    rewrite (Qeq_bool_pos _ D1). cbn [orb]. apply Qeq_bool_pos.
    destruct (Nat.eqb_spec Nseg 1) as [O|O].
    - lra.
    - pose proof (wf_incr s W (i0 + Nseg - 1) ltac:(lia)) as IL.
      replace (i0 + Nseg - 1) with (S (i0 + Nseg - 2)) in IL by lia. cbn [C12_SplineBook.prev_t] in IL.
      replace (i0 + Nseg - 1) with (S (i0 + Nseg - 2)) by lia. unfold eT in IL. lra.
  Qed.

  (* ================================================================ ConstantVelocity, FixedCubic *)
  Notation constant_velocity := (constant_velocity G op e tan smul seg K fl).
  Notation fixed_cubic := (fixed_cubic G op inv tan smul tneg texp tlog seg).

  Fixpoint qsum (l : list Q) : Q := match l with [] => 0%Q | a :: r => (a + qsum r)%Q end.

  Lemma zipw_repeat : forall {A B C : Type} (f : A -> B -> C) (ps : list A) (w : B) (n : nat),
    length ps = n -> zipw f ps (repeat w n) = map (fun p => f p w) ps.
  Proof.
    intros A B C f ps w. induction ps as [|p ps IH]; intros n H; cbn [length] in H; subst n; cbn [repeat zipw map]; auto.
    f_equal. apply IH. reflexivity.
  Qed.

  Lemma qsum_scaled : forall ps u c, (qsum (map (fun p => peval p u * c) ps) == sumeval ps u * c)%Q.
  Proof.
    induction ps as [|p ps IH]; intros u c; cbn [map qsum sumeval]; [ring|]. rewrite IH. ring.
  Qed.

  Lemma Kq_pos : 0 < K -> (0 < inject_Z (Z.of_nat K))%Q.
  Proof. intro H. unfold Qlt, inject_Z. cbn. lia. Qed.

  Section Ctors.
    (* cspline_eval_vs (cumulative_spline_impl.hpp:36-43): g = prod_{j=1..K} exp(B~_j(u) v_j) *)
    Hypothesis seg_prod : forall V u,
      seg V u = fold_left op (zipw (fun p v => texp (smul (peval p u) v)) (tl (bcum_poly (length V))) V) e.
    Hypothesis smul_proper : forall a b v, (a == b)%Q -> smul a v = smul b v.
    Hypothesis smul_smul : forall a b v, smul a (smul b v) = smul (a * b)%Q v.
    Hypothesis smul_1 : forall v, smul 1%Q v = v.
    (* one-parameter subgroups *)
    Hypothesis texp_add : forall a b v, texp (smul (a + b)%Q v) = op (texp (smul a v)) (texp (smul b v)).
    Hypothesis texp_0 : forall v, texp (smul 0%Q v) = e.
    Hypothesis texp_neg : forall v, texp (tneg v) = inv (texp v).
    Hypothesis texp_tlog : forall g, texp (tlog g) = g.

    Lemma fold_texp : forall l g v,
      fold_left op (map (fun a => texp (smul a v)) l) g = op g (texp (smul (qsum l) v)).
    Proof.
      induction l as [|a l IH]; intros g v; cbn [map fold_left qsum].
      - rewrite texp_0, op_e_r. reflexivity.
      - rewrite IH, texp_add, op_assoc. reflexivity.
    Qed.

    (** a segment whose K control velocities all equal c*v traces the one-parameter subgroup: seg(u) = exp(K u c v) *)
    Lemma seg_repeat : forall c v u,
      seg (repeat (smul c v) K) u = texp (smul (inject_Z (Z.of_nat K) * u * c)%Q v).
    Proof.
      intros c v u. rewrite seg_prod, repeat_length.
      rewrite zipw_repeat by apply length_basis_tail.
      rewrite (map_ext _ (fun p => texp (smul (peval p u * c)%Q v))) by (intro p; rewrite smul_smul; reflexivity).
      rewrite <- (map_map (fun p => (peval p u * c)%Q) (fun a => texp (smul a v))).
      rewrite fold_texp, op_e_l. apply f_equal. apply smul_proper.
      rewrite qsum_scaled, bcum_sum_tail. reflexivity.
    Qed.

    (** ConstantVelocity(v, T, ga)(t) = ga * exp(t v) on [0,T] for EVERY degree K >= 1 (repaired scaling T/K),
        start/end values outside, and derivative data (V, u = t/T, Del/T = 1/T) *)
    Theorem constant_velocity_spec : fx_cv fl = true -> 0 < K -> forall v T ga, (0 < T)%Q ->
      let c := constant_velocity v T ga in
      WF c /\ Cont c /\ size c = 1 /\ tmax c = T /\ g0 c = ga /\ end_ c = op ga (texp (smul T v)) /\
      (forall t, (0 <= t)%Q -> (t <= T)%Q ->
         eval c t = op ga (texp (smul t v)) /\
         exists u r, snd (eval_full c t) = Some (repeat (smul (T / inject_Z (Z.of_nat K))%Q v) K, u, r) /\
                     (u == t / T)%Q /\ (r == 1 / T)%Q).
    Proof.
      intros Hf HK v T ga HT c.
      pose proof (Kq_pos HK) as HKq.
      unfold c, C12_SplineBook.constant_velocity.
      destruct (Qle_bool T 0) eqn:E; [apply Qle_bool_iff in E; lra|]. rewrite Hf.
      set (V := repeat (smul (T / inject_Z (Z.of_nat K))%Q v) K).
      pose proof (WF_mk_seg T V ga HT) as W.
      split; [exact W|]. split; [apply Cont_mk_seg|]. split; [reflexivity|]. split; [reflexivity|].
      split; [reflexivity|]. split.
      - cbn. apply f_equal. unfold V. rewrite seg_repeat. apply f_equal. apply smul_proper. field. lra.
      - intros t H0 H1.
        assert (IS : (C12_SplineBook.prev_t G tan (mk_seg T V ga) 0 <= t)%Q /\
                     ((t < eT (mk_seg T V ga) 0)%Q \/ (0 = size (mk_seg T V ga) - 1 /\ (t <= eT (mk_seg T V ga) 0)%Q))).
        { split; [cbn; exact H0|]. right. split; [reflexivity|cbn; exact H1]. }
        destruct IS as [I1 I2].
        pose proof (eval_seg (mk_seg T V ga) t 0 W ltac:(cbn; lia) I1 I2) as Ev.
        split.
        + unfold C12_SplineBook.eval. rewrite Ev. cbn [fst]. unfold curve, useg, sV, sT0, sDel, eT. cbn.
          rewrite seg_0, inv_e, op_e_r. apply f_equal.
          unfold V. rewrite seg_repeat. apply f_equal. apply smul_proper. field. split; lra.
        + rewrite Ev. cbn [snd]. eexists. eexists. split; [reflexivity|].
          unfold useg, ratio, sT0, sDel, eT. cbn. split; field; lra.
    Qed.

    (** FixedCubic(gb, va, vb, T, ga): starts at ga, ends at gb; derivative data at both ends *)
    Theorem fixed_cubic_spec : forall gb va vb T ga, (0 < T)%Q ->
      let c := fixed_cubic gb va vb T ga in
      WF c /\ Cont c /\ tmax c = T /\ eval c 0 = ga /\ eval c T = gb /\ end_ c = gb /\
      (exists V1, Vs c = [[smul (T / 3)%Q va; V1; smul (T / 3)%Q vb]]) /\
      (exists V u r, snd (eval_full c 0) = Some (V, u, r) /\ (u == 0)%Q /\ (r == 1 / T)%Q) /\
      (exists V u r, snd (eval_full c T) = Some (V, u, r) /\ (u == 1)%Q /\ (r == 1 / T)%Q).
    Proof.
      intros gb va vb T ga HT c. unfold c, C12_SplineBook.fixed_cubic.
      set (V0 := smul (T / 3)%Q va). set (V2 := smul (T / 3)%Q vb).
      set (V1 := tlog (op (op (texp (tneg V0)) (op (inv ga) gb)) (texp (tneg V2)))).
      set (V := [V0; V1; V2]).
      pose proof (WF_mk_seg T V ga HT) as W. pose proof (Cont_mk_seg T V ga) as C.
      assert (Hseg1 : seg V 1%Q = op (inv ga) gb).
      { rewrite seg_prod. unfold V. cbn [length].
        change (tl (bcum_poly 3)) with [[0; 3; -3; 1]; [0; 0; 3; -2]; [0; 0; 0; 1]]%Q.
        cbn [zipw fold_left].
        rewrite (smul_proper (peval [0; 3; -3; 1]%Q 1) 1 V0) by (cbn; ring).
        rewrite (smul_proper (peval [0; 0; 3; -2]%Q 1) 1 V1) by (cbn; ring).
        rewrite (smul_proper (peval [0; 0; 0; 1]%Q 1) 1 V2) by (cbn; ring).
        rewrite !smul_1. unfold V1. rewrite texp_tlog, !texp_neg.
        rewrite op_e_l, !op_assoc, op_inv_l, op_e_r, op_inv_cancel_r. reflexivity. }
      assert (Hend : end_ (mk_seg T V ga) = gb).
      { cbn. rewrite Hseg1, op_inv_cancel_r. reflexivity. }
      split; [exact W|]. split; [exact C|]. split; [reflexivity|].
      split; [apply (eval_start _ W)|].
      split; [transitivity (eval (mk_seg T V ga) (tmax (mk_seg T V ga))); [reflexivity|rewrite (eval_end _ W C); exact Hend]|].
      split; [exact Hend|].
      split; [exists V1; reflexivity|].
      split.
      - pose proof (eval_seg (mk_seg T V ga) 0 0 W ltac:(cbn; lia)) as Ev.
        rewrite Ev; [|cbn; lra|left; cbn; exact HT].
        cbn [snd]. eexists. eexists. eexists. split; [reflexivity|].
        unfold useg, ratio, sT0, sDel, eT. cbn. split; field; lra.
      - pose proof (eval_seg (mk_seg T V ga) T 0 W ltac:(cbn; lia)) as Ev.
        rewrite Ev; [|cbn; lra|right; split; [reflexivity|cbn; lra]].
        cbn [snd]. eexists. eexists. eexists. split; [reflexivity|].
        unfold useg, ratio, sT0, sDel, eT. cbn. split; field; lra.
    Qed.
  End Ctors.

  (* ================================================================ operation histories *)
  Notation apply_op := (apply G op inv e tan smul tneg texp tlog seg K fl).
  Notation run := (run G op inv e tan smul tneg texp tlog seg K fl).
  Notation sop := (sop G tan).

  Lemma WF_constant_velocity : forall v T ga, WF (constant_velocity v T ga).
  Proof.
    intros v T ga. unfold C12_SplineBook.constant_velocity.
    destruct (Qle_bool T 0) eqn:E; [apply WF_mk_empty|]. apply Qle_bool_false in E. apply WF_mk_seg. exact E.
  Qed.
  Lemma Cont_constant_velocity : forall v T ga, Cont (constant_velocity v T ga).
  Proof.
    intros v T ga. unfold C12_SplineBook.constant_velocity.
    destruct (Qle_bool T 0); [apply Cont_mk_empty|apply Cont_mk_seg].
  Qed.

  (** what an operation needs for the STRUCTURAL invariant: positive durations, well-formed operands *)
  Definition op_wf (o : sop) : Prop :=
    match o with
    | OpNew _ _ T _ _ => (0 < T)%Q
    | OpFixedCubic _ _ _ _ _ T _ => (0 < T)%Q
    | OpConcatLocal _ _ o => WF o
    | OpConcatGlobal _ _ o => WF o
    | _ => True
    end.

  Lemma WF_apply : fx_crop_idx fl = true -> forall s o, WF s -> op_wf o -> WF (apply_op s o).
  Proof.
    intros Hf s o W H. destruct o; cbn [C12_SplineBook.apply op_wf] in *.
    - apply WF_mk_seg. exact H.
    - apply WF_mk_empty.
    - apply WF_constant_velocity.
    - unfold C12_SplineBook.fixed_cubic. apply WF_mk_seg. exact H.
    - apply WF_concat_local; assumption.
    - apply WF_concat_global; assumption.
    - apply WF_crop; assumption.
    - apply WF_make_local; assumption.
  Qed.

  (** the structural invariant holds after EVERY list of operations *)
  Theorem WF_reachable : fx_crop_idx fl = true -> forall ops s, WF s -> Forall op_wf ops -> WF (run ops s).
  Proof.
    intros Hf ops. unfold C12_SplineBook.run. induction ops as [|o ops IH]; intros s W H; cbn [fold_left]; [exact W|].
    inversion H as [|? ? Ho Hr]; subst. apply IH; [apply WF_apply; assumption|exact Hr].
  Qed.

  (** ... and with continuity, when every joint is compatible (other starts at the identity for +=, where this
      ends for concat_global) and non-localised crops use the repaired frame *)
  Definition op_ok (s : spline) (o : sop) : Prop :=
    match o with
    | OpNew _ _ T _ _ => (0 < T)%Q
    | OpFixedCubic _ _ _ _ _ T _ => (0 < T)%Q
    | OpConcatLocal _ _ o => WF o /\ Cont o /\ (0 < size s -> g0 o = e)
    | OpConcatGlobal _ _ o => WF o /\ Cont o /\ (0 < size s -> g0 o = end_ s)
    | OpCrop _ _ _ _ l => l = true \/ fx_crop_frame fl = true
    | _ => True
    end.

  Fixpoint ops_ok (s : spline) (ops : list sop) : Prop :=
    match ops with
    | [] => True
    | o :: r => op_ok s o /\ ops_ok (apply_op s o) r
    end.

  Definition Inv (s : spline) : Prop := WF s /\ Cont s.

  Lemma Inv_apply : fx_crop_idx fl = true -> fx_make_local fl = true ->
    forall s o, Inv s -> op_ok s o -> Inv (apply_op s o).
  Proof.
    intros Hf Hm s o [W C] H. destruct o; cbn [C12_SplineBook.apply op_ok] in *.
    - split; [apply WF_mk_seg; exact H|apply Cont_mk_seg].
    - split; [apply WF_mk_empty|apply Cont_mk_empty].
    - split; [apply WF_constant_velocity|apply Cont_constant_velocity].
    - unfold C12_SplineBook.fixed_cubic. split; [apply WF_mk_seg; exact H|apply Cont_mk_seg].
    - destruct H as (Wo & Co & J). split; [apply WF_concat_local|apply Cont_concat_local]; assumption.
    - destruct H as (Wo & Co & J). split; [apply WF_concat_global|apply Cont_concat_global]; assumption.
    - split; [apply WF_crop|apply Cont_crop]; assumption.
    - split; [apply WF_make_local|apply Cont_make_local]; assumption.
  Qed.

  Theorem Inv_reachable : fx_crop_idx fl = true -> fx_make_local fl = true ->
    forall ops s, Inv s -> ops_ok s ops -> Inv (run ops s).
  Proof.
    intros Hf Hm ops. unfold C12_SplineBook.run. induction ops as [|o ops IH]; intros s I H; cbn [fold_left]; [exact I|].
    destruct H as [Ho Hr]. apply IH; [apply Inv_apply; assumption|exact Hr].
  Qed.

  (** a reachable Spline is a continuous curve: left and right segment agree at every knot, start and end are attained *)
  Corollary reachable_continuous : fx_crop_idx fl = true -> fx_make_local fl = true ->
    forall ops s0, Inv s0 -> ops_ok s0 ops ->
    let s := run ops s0 in
    eval s 0 = g0 s /\ eval s (tmax s) = end_ s /\
    (forall i, S i < size s -> curve s i (eT s i) = curve s (S i) (eT s i)) /\
    (forall i t, i < size s -> (C12_SplineBook.prev_t G tan s i <= t)%Q -> (t <= eT s i)%Q -> eval s t = curve s i t).
  Proof.
    intros Hf Hm ops s0 I H s. destruct (Inv_reachable Hf Hm ops s0 I H) as [W C]. fold s in W, C.
    split; [apply eval_start; exact W|]. split; [apply eval_end; assumption|]. split.
    - intros i Hi. rewrite (curve_at_end s i W C ltac:(lia)).
      change (eT s i) with (C12_SplineBook.prev_t G tan s (S i)). rewrite (curve_at_prev s (S i) W Hi). reflexivity.
    - intros i t Hi A B. apply eval_segment; assumption.
  Qed.

  (* ================================================================ arclength bookkeeping *)
  Section Arc.
    Variable tadd : tan -> tan -> tan.
    Variable tzero : tan.
    Variable absint : ctrl tan -> Q -> Q -> tan.
    Notation arclength := (arclength G tan tadd tzero absint).
    Notation arclength_loop := (arclength_loop G tan tadd absint).
    Notation arclength_parts := (arclength_parts G tan).

    (** the loop adds one absolute integral per listed part *)
    Lemma arclength_loop_parts : forall n i s t acc,
      arclength_loop n i s t acc =
      fold_left (fun a (p : nat * Q * Q) => tadd a (absint (sV s (fst (fst p))) (snd (fst p)) (snd p)))
                (arclength_parts n i s t) acc.
    Proof.
      induction n as [|n IH]; intros i s t acc; cbn [C12_SplineBook.arclength_loop C12_SplineBook.arclength_parts fold_left];
        [reflexivity|].
      destruct ((0 <? i) && Qle_bool t (C12_SplineBook.prev_t G tan s i)); [reflexivity|].
      cbn [fold_left fst snd]. apply IH.
    Qed.

    Lemma parts_sound : forall n i s t j ua ub, In (j, ua, ub) (arclength_parts n i s t) ->
      i <= j < i + n /\ (j = 0 \/ (C12_SplineBook.prev_t G tan s j < t)%Q) /\
      ua = sT0 s j /\ ub = useg s j (qmin t (eT s j)).
    Proof.
      induction n as [|n IH]; intros i s t j ua ub H; cbn [C12_SplineBook.arclength_parts] in H; [contradiction|].
      destruct ((0 <? i) && Qle_bool t (C12_SplineBook.prev_t G tan s i)) eqn:E; [contradiction|].
      destruct H as [H|H].
      - injection H as <- <- <-. split; [lia|]. split; [|split; reflexivity].
        apply andb_false_iff in E. destruct E as [E|E].
        + left. apply Nat.ltb_ge in E. lia.
        + right. apply Qle_bool_false in E. exact E.
      - destruct (IH _ _ _ _ _ _ H) as (A & B). split; [lia|exact B].
    Qed.

    Lemma parts_complete : forall n i s t j, WF s -> i + n <= size s -> i <= j < i + n ->
      (j = 0 \/ (C12_SplineBook.prev_t G tan s j < t)%Q) ->
      In (j, sT0 s j, useg s j (qmin t (eT s j))) (arclength_parts n i s t).
    Proof.
      induction n as [|n IH]; intros i s t j W Hn Hj Hc; [lia|].
      cbn [C12_SplineBook.arclength_parts].
      assert (Hi : i = 0 \/ (C12_SplineBook.prev_t G tan s i < t)%Q).
      { destruct Hc as [->|Hc]; [left; lia|].
        destruct (Nat.eq_dec i j) as [->|Hne]; [right; exact Hc|].
        destruct i as [|i']; [left; reflexivity|]. right.
        cbn [C12_SplineBook.prev_t]. fold (eT s i').
        pose proof (eT_le_prev s W i' j ltac:(lia) ltac:(lia)). lra. }
      destruct ((0 <? i) && Qle_bool t (C12_SplineBook.prev_t G tan s i)) eqn:E.
      - exfalso. apply andb_true_iff in E. destruct E as [E1 E2]. apply Nat.ltb_lt in E1. apply Qle_bool_iff in E2.
        destruct Hi as [Hi|Hi]; [lia|lra].
      - destruct (Nat.eq_dec i j) as [->|Hne]; [left; reflexivity|]. right. apply IH; auto; lia.
    Qed.

    (** arclength(t) sums, over exactly the segments that meet (0, t) (segment 0 always), the absolute integral of the
        segment polynomial's derivative over the parameter interval [u_i(start_i), u_i(min(t, end_i))] = u_i(segment_i /\ [0,t]).
        PARTIAL: the integral itself (integrate_absolute_polynomial, C20) is the Section variable [absint]. *)
    Theorem arclength_spec_partial : forall s t, WF s ->
      arclength s t =
        fold_left (fun a (p : nat * Q * Q) => tadd a (absint (sV s (fst (fst p))) (snd (fst p)) (snd p)))
                  (arclength_parts (size s) 0 s t) tzero /\
      (forall j ua ub, In (j, ua, ub) (arclength_parts (size s) 0 s t) <->
         j < size s /\ (j = 0 \/ (C12_SplineBook.prev_t G tan s j < t)%Q) /\
         ua = sT0 s j /\ ub = useg s j (qmin t (eT s j))) /\
      (forall j, j < size s -> (sT0 s j == useg s j (C12_SplineBook.prev_t G tan s j))%Q).
    Proof.
      intros s t W. split; [apply arclength_loop_parts|]. split.
      - intros j ua ub. split.
        + intro H. destruct (parts_sound _ _ _ _ _ _ _ H) as (A & B & C & D). repeat split; auto; lia.
        + intros (A & B & -> & ->). apply parts_complete; auto; lia.
      - intros j Hj. symmetry. apply useg_at_prev; assumption.
    Qed.
  End Arc.
  End Flagged.
End Eval.
