(* C13 - facts about the ACTUAL cumulative B-spline coefficient matrices of the library (Gen/BasisC13.v,
   regenerated from the tree under test on every run), K = 1..6, all by computation in Q. *)
From Coq Require Import ZArith QArith Qround Qreduction Bool List Lia Lqa.
From SV Require Import Model.C13_BSplineIdx Model.C13_Eval Gen.BasisC13 Proofs.C13_Curve.
Import ListNotations.
Local Open Scope Q_scope.

(* the exact matrix the doubles stand for: every entry rounded to the nearest multiple of 1/K! *)
Definition Bideal (K : nat) : list (list Q) := ideal K (Bact K).

Definition eps_entry : Q := 1 # 1125899906842624.       (* 2^-50 *)
Definition eps_ident : Q := 1 # 17592186044416.          (* 2^-44 *)

(* (1) the library's doubles are within 2^-50 of Bideal, entry by entry *)
Lemma basis_close_1 : close_mats eps_entry (Bact 1) (Bideal 1) = true. Proof. vm_compute. reflexivity. Qed.
Lemma basis_close_2 : close_mats eps_entry (Bact 2) (Bideal 2) = true. Proof. vm_compute. reflexivity. Qed.
Lemma basis_close_3 : close_mats eps_entry (Bact 3) (Bideal 3) = true. Proof. vm_compute. reflexivity. Qed.
Lemma basis_close_4 : close_mats eps_entry (Bact 4) (Bideal 4) = true. Proof. vm_compute. reflexivity. Qed.
Lemma basis_close_5 : close_mats eps_entry (Bact 5) (Bideal 5) = true. Proof. vm_compute. reflexivity. Qed.
Lemma basis_close_6 : close_mats eps_entry (Bact 6) (Bideal 6) = true. Proof. vm_compute. reflexivity. Qed.

(* (2) knot identities, as a boolean sweep over all derivative orders p <= K-1 and all j *)
Definition Qeqb_exact (a b : Q) : bool := Qeq_bool a b.

Definition knot_ids_b (eq : Q -> Q -> bool) (M : list (list Q)) (K : nat) : bool :=
  forallb (fun p =>
    forallb (fun j => eq (basis_d M K p 1 (S j)) (basis_d M K p 0 j)) (seq 1 (K - 1))
    && eq (basis_d M K p 1 1) (if Nat.eqb p 0 then 1 else 0)
    && eq (basis_d M K p 0 K) 0) (seq 0 K).

Definition knot_ids (R : Q -> Q -> Prop) (M : list (list Q)) (K : nat) : Prop :=
  forall p, (p <= K - 1)%nat ->
    (forall j, (1 <= j < K)%nat -> R (basis_d M K p 1 (S j)) (basis_d M K p 0 j))
    /\ R (basis_d M K p 1 1) (if Nat.eqb p 0 then 1 else 0)
    /\ R (basis_d M K p 0 K) 0.

Lemma knot_ids_lift (eq : Q -> Q -> bool) (R : Q -> Q -> Prop) M K :
  (1 <= K)%nat -> (forall a b, eq a b = true -> R a b) -> knot_ids_b eq M K = true -> knot_ids R M K.
Proof.
  intros HK Heq H p Hp. unfold knot_ids_b in H. rewrite forallb_forall in H.
  specialize (H p). rewrite in_seq in H. specialize (H ltac:(lia)).
  apply andb_prop in H. destruct H as [H H3]. apply andb_prop in H. destruct H as [H1 H2].
  split; [|split; now apply Heq].
  intros j Hj. rewrite forallb_forall in H1. apply Heq. apply H1. rewrite in_seq. lia.
Qed.

Definition near (eps : Q) (a b : Q) : Prop := - eps <= a - b <= eps.
Lemma near_b eps a b : Qabs_le_b (a - b) eps = true -> near eps a b.
Proof.
  unfold Qabs_le_b, near. intro H. apply andb_prop in H. destruct H as [H1 H2].
  apply Qle_bool_iff in H1. apply Qle_bool_iff in H2. split; assumption.
Qed.

(* exact identities of the ideal matrices: B~_{j+1}^(p)(1) = B~_j^(p)(0), B~_1^(p)(1) = [p=0], B~_K^(p)(0) = 0 *)
Ltac ids_exact :=
  apply (knot_ids_lift Qeqb_exact Qeq); [lia| intros a b; apply Qeq_bool_eq | vm_compute; reflexivity].
Theorem bspline_knot_identities_1 : knot_ids Qeq (Bideal 1) 1. Proof. ids_exact. Qed.
Theorem bspline_knot_identities_2 : knot_ids Qeq (Bideal 2) 2. Proof. ids_exact. Qed.
Theorem bspline_knot_identities_3 : knot_ids Qeq (Bideal 3) 3. Proof. ids_exact. Qed.
Theorem bspline_knot_identities_4 : knot_ids Qeq (Bideal 4) 4. Proof. ids_exact. Qed.
Theorem bspline_knot_identities_5 : knot_ids Qeq (Bideal 5) 5. Proof. ids_exact. Qed.
Theorem bspline_knot_identities_6 : knot_ids Qeq (Bideal 6) 6. Proof. ids_exact. Qed.

(* the same identities hold for the doubles themselves up to 2^-44 (what the compiled constants satisfy) *)
Ltac ids_near :=
  apply (knot_ids_lift (fun a b => Qabs_le_b (a - b) eps_ident) (near eps_ident));
  [lia| intros a b; apply near_b | vm_compute; reflexivity].
Theorem actual_knot_identities_1 : knot_ids (near eps_ident) (Bact 1) 1. Proof. ids_near. Qed.
Theorem actual_knot_identities_2 : knot_ids (near eps_ident) (Bact 2) 2. Proof. ids_near. Qed.
Theorem actual_knot_identities_3 : knot_ids (near eps_ident) (Bact 3) 3. Proof. ids_near. Qed.
Theorem actual_knot_identities_4 : knot_ids (near eps_ident) (Bact 4) 4. Proof. ids_near. Qed.
Theorem actual_knot_identities_5 : knot_ids (near eps_ident) (Bact 5) 5. Proof. ids_near. Qed.
Theorem actual_knot_identities_6 : knot_ids (near eps_ident) (Bact 6) 6. Proof. ids_near. Qed.

(* (3) the shape the list-level continuity theorem needs, for the outputs of order <= r:
       coefficients at u=1 are (1,0,0) :: tl   and at u=0 they are   tl ++ [(0,0,0)]  *)
Lemma knot_shape_1 : knot_shape (order_of 1) (Bideal 1) 1. Proof. vm_compute. split; reflexivity. Qed.
Lemma knot_shape_2 : knot_shape (order_of 2) (Bideal 2) 2. Proof. vm_compute. split; reflexivity. Qed.
Lemma knot_shape_3 : knot_shape (order_of 3) (Bideal 3) 3. Proof. vm_compute. split; reflexivity. Qed.
Lemma knot_shape_4 : knot_shape (order_of 4) (Bideal 4) 4. Proof. vm_compute. split; reflexivity. Qed.
Lemma knot_shape_5 : knot_shape (order_of 5) (Bideal 5) 5. Proof. vm_compute. split; reflexivity. Qed.
Lemma knot_shape_6 : knot_shape (order_of 6) (Bideal 6) 6. Proof. vm_compute. split; reflexivity. Qed.

(* sharpness: one order more is NOT continuous for K = 1, 2 (C^(K-1) and no better) *)
Lemma knot_shape_sharp_1 : ~ knot_shape 1 (Bideal 1) 1.
Proof. intros [H _]. vm_compute in H. discriminate H. Qed.
Lemma knot_shape_sharp_2 : ~ knot_shape 2 (Bideal 2) 2.
Proof. intros [H _]. vm_compute in H. discriminate H. Qed.

(* (4) column 0 of the cumulative basis is the constant 1 (B~_0 = 1); the code never reads it (j starts at 1) *)
Lemma basis_col0 :
  forall K, In K [1; 2; 3; 4; 5; 6]%nat -> col 0 (Bideal K) = 1 :: repeat 0 K.
Proof.
  intros K HK. cbn in HK.
  repeat (destruct HK as [<-|HK]; [vm_compute; reflexivity|]). contradiction.
Qed.

(* (5) partition-of-unity style sanity of the ideal matrices: sum_j B~_j(u) = u + (K-1)/2 (Marsden), i.e. the sum of
       columns 1..K is [ (K-1)/2; 1; 0; ...; 0 ] *)
Definition row_sum_from1 (row : list Q) : Q := match row with [] => 0 | _ :: r => fold_right Qplus 0 r end.
Lemma basis_marsden :
  forall K, In K [1; 2; 3; 4; 5; 6]%nat ->
  map (fun row => Qred (row_sum_from1 row)) (Bideal K)
  = Qred ((inject_Z (Z.of_nat K) - 1) / 2) :: 1 :: repeat 0 (K - 1).
Proof.
  intros K HK. cbn in HK.
  repeat (destruct HK as [<-|HK]; [vm_compute; reflexivity|]). contradiction.
Qed.

(* ---------------------------------------------------------------------------------------------------
   (6) the coefficient triples (Bj, dBj, d2Bj) the loop computes are the value and the first and second formal
       derivative of the basis polynomial (for every u and every coefficient column): monomial_derivative is right. *)
Fixpoint peval (c : list Q) (u : Q) : Q := match c with [] => 0 | a :: c' => a + u * peval c' u end.
Fixpoint pderiv_from (k : Z) (c : list Q) : list Q :=
  match c with [] => [] | a :: c' => (inject_Z k * a) :: pderiv_from (k + 1) c' end.
Definition pderiv (c : list Q) : list Q := match c with [] => [] | _ :: c' => pderiv_from 1 c' end.

Lemma dotr_dot a : forall b, dotr a b == dot a b.
Proof.
  induction a as [|x a IH]; intros [|y b]; cbn [dotr dot]; try reflexivity.
  rewrite Qred_correct, IH. reflexivity.
Qed.

(* hence coef3 M K u j == (value, first, second formal derivative of column j at u) - see mono_deriv_spec_K below *)
Lemma coef3_dot M K u j :
  let '(b, db, d2b) := coef3 M K u j in
  b == dot (mono_deriv K 0 u) (col j M) /\ db == dot (mono_deriv K 1 u) (col j M) /\ d2b == dot (mono_deriv K 2 u) (col j M).
Proof. unfold coef3. rewrite !Qred_correct, !dotr_dot. repeat split; reflexivity. Qed.

Ltac md_solve := intros; cbn -[Qmult Qplus Qeq Qminus Qopp]; ring.

Lemma mono_deriv_spec_1 u c0 c1 :
  dot (mono_deriv 1 0 u) [c0; c1] == peval [c0; c1] u /\
  dot (mono_deriv 1 1 u) [c0; c1] == peval (pderiv [c0; c1]) u /\
  dot (mono_deriv 1 2 u) [c0; c1] == peval (pderiv (pderiv [c0; c1])) u.
Proof. repeat split; md_solve. Qed.
Lemma mono_deriv_spec_2 u c0 c1 c2 :
  let c := [c0; c1; c2] in
  dot (mono_deriv 2 0 u) c == peval c u /\ dot (mono_deriv 2 1 u) c == peval (pderiv c) u /\
  dot (mono_deriv 2 2 u) c == peval (pderiv (pderiv c)) u.
Proof. repeat split; md_solve. Qed.
Lemma mono_deriv_spec_3 u c0 c1 c2 c3 :
  let c := [c0; c1; c2; c3] in
  dot (mono_deriv 3 0 u) c == peval c u /\ dot (mono_deriv 3 1 u) c == peval (pderiv c) u /\
  dot (mono_deriv 3 2 u) c == peval (pderiv (pderiv c)) u.
Proof. repeat split; md_solve. Qed.
Lemma mono_deriv_spec_4 u c0 c1 c2 c3 c4 :
  let c := [c0; c1; c2; c3; c4] in
  dot (mono_deriv 4 0 u) c == peval c u /\ dot (mono_deriv 4 1 u) c == peval (pderiv c) u /\
  dot (mono_deriv 4 2 u) c == peval (pderiv (pderiv c)) u.
Proof. repeat split; md_solve. Qed.
Lemma mono_deriv_spec_5 u c0 c1 c2 c3 c4 c5 :
  let c := [c0; c1; c2; c3; c4; c5] in
  dot (mono_deriv 5 0 u) c == peval c u /\ dot (mono_deriv 5 1 u) c == peval (pderiv c) u /\
  dot (mono_deriv 5 2 u) c == peval (pderiv (pderiv c)) u.
Proof. repeat split; md_solve. Qed.
Lemma mono_deriv_spec_6 u c0 c1 c2 c3 c4 c5 c6 :
  let c := [c0; c1; c2; c3; c4; c5; c6] in
  dot (mono_deriv 6 0 u) c == peval c u /\ dot (mono_deriv 6 1 u) c == peval (pderiv c) u /\
  dot (mono_deriv 6 2 u) c == peval (pderiv (pderiv c)) u.
Proof. repeat split; md_solve. Qed.

(* ---------------------------------------------------------------------------------------------------
   (7) C^(K-1) continuity of the library's B-spline (ideal coefficients), K = 1..6, every group, every control
       point sequence, every interior knot: value / velocity / acceleration of order <= min(K-1,2) agree. *)
Lemma knot_shape_all K : In K [1; 2; 3; 4; 5; 6]%nat -> knot_shape (order_of K) (Bideal K) K /\ (1 <= K)%nat.
Proof.
  intro HK. cbn in HK.
  destruct HK as [<-|[<-|[<-|[<-|[<-|[<-|[]]]]]]]; (split; [|lia]).
  - exact knot_shape_1.
  - exact knot_shape_2.
  - exact knot_shape_3.
  - exact knot_shape_4.
  - exact knot_shape_5.
  - exact knot_shape_6.
Qed.

Theorem bspline_knot_continuity :
  forall K, In K [1; 2; 3; 4; 5; 6]%nat ->
  forall (G T : Type) (op : G -> G -> G) (e : G) (inv : G -> G) (exp : T -> G) (log : G -> T)
         (Ad : G -> T -> T) (br tadd : T -> T -> T) (tzero : T) (smul : Q -> T -> T),
  @Laws G T op e inv exp log Ad br tadd tzero smul ->
  forall (ctrl : list G) (i : nat), (i + K + 2 <= length ctrl)%nat ->
  outputs_upto G T (order_of K) (window_eval G T op e inv exp log Ad br tadd tzero smul (Bideal K) K ctrl i 1)
  = outputs_upto G T (order_of K) (window_eval G T op e inv exp log Ad br tadd tzero smul (Bideal K) K ctrl (S i) 0).
Proof.
  intros K HK G T op e inv exp log Ad br tadd tzero smul L ctrl i Hlen.
  destruct (knot_shape_all K HK) as [Hs H1].
  now apply (knot_continuity G T op e inv exp log Ad br tadd tzero smul L).
Qed.

Theorem bspline_knot_continuity_eval :
  forall K, In K [1; 2; 3; 4; 5; 6]%nat ->
  forall (G T : Type) (op : G -> G -> G) (e : G) (inv : G -> G) (exp : T -> G) (log : G -> T)
         (Ad : G -> T -> T) (br tadd : T -> T -> T) (tzero : T) (smul : Q -> T -> T),
  @Laws G T op e inv exp log Ad br tadd tzero smul ->
  forall (ctrl : list G) (t0 dt t : Q) (i : nat),
  0 < dt -> (Z.of_nat (length ctrl) <= two63)%Z -> (i + K + 2 <= length ctrl)%nat ->
  t == t0 + inject_Z (Z.of_nat (S i)) * dt ->
  outputs_upto G T (order_of K) (bs_eval G T op e inv exp log Ad br tadd tzero smul (Bideal K) K ctrl t0 dt t)
  = outputs_upto G T (order_of K)
      (scale G T smul dt (window_eval G T op e inv exp log Ad br tadd tzero smul (Bideal K) K ctrl i 1)).
Proof.
  intros K HK G T op e inv exp log Ad br tadd tzero smul L ctrl t0 dt t i Hdt HN Hlen Ht.
  destruct (knot_shape_all K HK) as [Hs H1].
  now apply (knot_continuity_eval G T op e inv exp log Ad br tadd tzero smul L).
Qed.
